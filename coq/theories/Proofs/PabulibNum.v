(* Proofs/PabulibNum.v -- the number text used for execution (str(int), str(mpq) = 'n' | 'n/d', read back by
   read_nat_dec / read_q_dec) satisfies the hypotheses of the row-level round trip. *)
From PB Require Import Model.PabulibM Proofs.PabulibP Proofs.PabulibRT.
From Coq Require Import Lia ZArith DecimalString DecimalNat DecimalN DecimalZ DecimalPos DecimalFacts Decimal.
Open Scope list_scope.
Open Scope nat_scope.

(* characters of number text: digits, minus, slash *)
Definition numch (c : ascii) : bool :=
  let n := nat_of_ascii c in (Nat.leb 48 n && Nat.leb n 57) || Nat.eqb n 45 || Nat.eqb n 47.
Definition digit (c : ascii) : bool :=
  let n := nat_of_ascii c in Nat.leb 48 n && Nat.leb n 57.

Lemma digit_numch c : digit c = true -> numch c = true.
Proof. unfold digit, numch. intros ->. reflexivity. Qed.

(* facts about characters, by enumeration of the 256 codes *)
Lemma ascii_all (P : ascii -> bool) :
  (forall n, n < 256 -> P (ascii_of_nat n) = true) -> forall c, P c = true.
Proof. intros H c. rewrite <- (ascii_nat_embedding c). apply H. apply nat_ascii_bounded. Qed.

Lemma forall_below (P : nat -> bool) k : forallb P (seq 0 k) = true -> forall n, n < k -> P n = true.
Proof. intros H n Hn. rewrite forallb_forall in H. apply H. apply in_seq. lia. Qed.

Lemma numch_facts c : numch c = true ->
  is_space c = false /\ Ascii.eqb c c_comma = false /\ lower_ascii c = c
  /\ Ascii.eqb c "n"%char = false /\ Ascii.eqb c "m"%char = false
  /\ Ascii.eqb c "p"%char = false /\ Ascii.eqb c "v"%char = false
  /\ Ascii.eqb c c_dot = false /\ is_linebreak c = false.
Proof.
  pose (P := fun c => negb (numch c)
     || (negb (is_space c) && negb (Ascii.eqb c c_comma) && Ascii.eqb (lower_ascii c) c
         && negb (Ascii.eqb c "n"%char) && negb (Ascii.eqb c "m"%char) && negb (Ascii.eqb c "p"%char)
         && negb (Ascii.eqb c "v"%char) && negb (Ascii.eqb c c_dot) && negb (is_linebreak c))).
  assert (HP : forall c, P c = true).
  { apply ascii_all. apply (forall_below (fun n => P (ascii_of_nat n))). vm_compute. reflexivity. }
  intros Hc. specialize (HP c). unfold P in HP. rewrite Hc in HP. simpl in HP.
  rewrite !andb_true_iff, !negb_true_iff in HP.
  destruct HP as ((((((((A & B) & C) & D) & E) & F) & G) & H) & I).
  apply Ascii.eqb_eq in C. auto 10.
Qed.

Lemma digit_not_special c : digit c = true ->
  Ascii.eqb c "-"%char = false /\ Ascii.eqb c "/"%char = false.
Proof.
  pose (P := fun c => negb (digit c) || (negb (Ascii.eqb c "-"%char) && negb (Ascii.eqb c "/"%char))).
  assert (HP : forall c, P c = true).
  { apply ascii_all. apply (forall_below (fun n => P (ascii_of_nat n))). vm_compute. reflexivity. }
  intros Hc. specialize (HP c). unfold P in HP. rewrite Hc in HP. simpl in HP.
  rewrite andb_true_iff, !negb_true_iff in HP. exact HP.
Qed.

Lemma numtext_lower' l : Forall (fun c => numch c = true) l -> lower l = l.
Proof.
  unfold lower. induction 1 as [|c r Hc Hr IH]; simpl; [reflexivity|].
  destruct (numch_facts c Hc) as (_ & _ & -> & _). now rewrite IH.
Qed.

Lemma numtext_no_comma' l : Forall (fun c => numch c = true) l -> no_comma l = true.
Proof.
  unfold no_comma. rewrite negb_true_iff. induction 1 as [|c r Hc Hr IH]; cbn [existsb]; [reflexivity|].
  destruct (numch_facts c Hc) as (_ & Hcomma & _). rewrite Ascii.eqb_sym, Hcomma. exact IH.
Qed.

(* ---- a non-empty text of number characters is a clean cell ---- *)
Section NumText.
Variable s : str.
Hypothesis Hs : Forall (fun c => numch c = true) s.
Hypothesis Hne : s <> [].

Lemma numtext_stripped : stripped s = true.
Proof.
  apply stripped_iff. split.
  - destruct s as [|c r]; [exact I|]. inversion Hs; subst. simpl. apply numch_facts; assumption.
  - unfold last_ok. assert (H : Forall (fun c => numch c = true) (List.rev s)) by (apply Forall_rev; exact Hs).
    destruct (List.rev s) as [|c r]; [exact I|]. inversion H; subst. simpl. apply numch_facts; assumption.
Qed.

Lemma numtext_lower : lower s = s.
Proof. apply numtext_lower'. exact Hs. Qed.

Lemma numtext_no_comma : no_comma s = true.
Proof. apply numtext_no_comma'. exact Hs. Qed.

Lemma numtext_head : exists c r, s = c :: r /\ numch c = true.
Proof. destruct s as [|c r]; [contradiction|]. inversion Hs; subst. eauto. Qed.

Lemma numtext_not_none : is_none_cell s = false.
Proof.
  unfold is_none_cell. rewrite (strip_of_stripped s numtext_stripped), numtext_lower.
  destruct numtext_head as (c & r & -> & Hc). destruct (numch_facts c Hc) as (_ & _ & _ & Hn & _).
  simpl. now rewrite Hn.
Qed.

Lemma numtext_cell_ok : cell_ok s = true.
Proof. unfold cell_ok. now rewrite numtext_stripped, numtext_not_none. Qed.

Lemma numtext_not_keyword : not_keyword s = true.
Proof.
  unfold not_keyword, section_of. rewrite (strip_of_stripped s numtext_stripped), numtext_lower.
  destruct numtext_head as (c & r & -> & Hc).
  destruct (numch_facts c Hc) as (_ & _ & _ & _ & Hm & Hp & Hv & _).
  simpl. now rewrite Hm, Hp, Hv.
Qed.

End NumText.

(* ---- decimal text of naturals ---- *)
Lemma uint_digits d :
  Forall (fun c => digit c = true) (list_ascii_of_string (NilEmpty.string_of_uint d)).
Proof. induction d; simpl; constructor; try reflexivity; assumption. Qed.

Lemma nz_uint_digits d :
  Forall (fun c => digit c = true) (list_ascii_of_string (NilZero.string_of_uint d))
  /\ list_ascii_of_string (NilZero.string_of_uint d) <> [].
Proof.
  destruct d; simpl; (split; [|discriminate]);
    try (repeat constructor; fail); constructor; try reflexivity; apply uint_digits.
Qed.

Lemma digits_numch l : Forall (fun c => digit c = true) l -> Forall (fun c => numch c = true) l.
Proof. apply Forall_impl. intros c. apply digit_numch. Qed.

Lemma little_succ_nonnil d : Little.succ d <> Nil.
Proof. destruct d; simpl; discriminate. Qed.

Lemma to_little_uint_nonnil n : forall acc, acc <> Nil -> Nat.to_little_uint n acc <> Nil.
Proof. induction n as [|n IH]; intros acc H; simpl; [exact H|]. apply IH, little_succ_nonnil. Qed.

Lemma nat_to_uint_nonnil n : Nat.to_uint n <> Nil.
Proof.
  unfold Nat.to_uint. intros H. apply rev_nil_inv in H.
  apply (to_little_uint_nonnil n zero); [discriminate|exact H].
Qed.

Lemma show_nat_dec_digits n :
  Forall (fun c => digit c = true) (show_nat_dec n) /\ show_nat_dec n <> [].
Proof. apply nz_uint_digits. Qed.

Theorem nat_text_dec n :
  read_nat_dec (show_nat_dec n) = Some n /\ cell_ok (show_nat_dec n) = true
  /\ not_keyword (show_nat_dec n) = true.
Proof.
  destruct (show_nat_dec_digits n) as (Hd & Hne). pose proof (digits_numch _ Hd) as Hn.
  split; [|split; [apply numtext_cell_ok|apply numtext_not_keyword]; assumption].
  unfold read_nat_dec. rewrite (strip_of_stripped _ (numtext_stripped _ Hn Hne)).
  unfold show_nat_dec. rewrite string_of_list_ascii_of_string.
  rewrite NilZero.usu by apply nat_to_uint_nonnil. simpl. now rewrite DecimalNat.Unsigned.of_to.
Qed.

(* ---- decimal text of integers and rationals ---- *)
Definition DN (n : N) : str := list_ascii_of_string (NilZero.string_of_uint (N.to_uint n)).
Definition sign (z : Z) : str := match z with Zneg _ => ["-"%char] | _ => [] end.

Lemma show_Z_dec_eq z : show_Z_dec z = sign z ++ DN (Z.abs_N z).
Proof. destruct z; reflexivity. Qed.

Lemma N_to_uint_nonnil n : N.to_uint n <> Nil.
Proof. destruct n; simpl; [discriminate|apply DecimalPos.Unsigned.to_uint_nonnil]. Qed.

Lemma DN_digits n : Forall (fun c => digit c = true) (DN n) /\ DN n <> [].
Proof. apply nz_uint_digits. Qed.

Lemma read_DN n : read_N_dec (DN n) = Some n.
Proof.
  unfold read_N_dec, DN. rewrite string_of_list_ascii_of_string.
  rewrite NilZero.usu by apply N_to_uint_nonnil. simpl. now rewrite DecimalN.Unsigned.of_to.
Qed.

Lemma digits_no_char c l :
  Forall (fun x => digit x = true) l -> (forall x, digit x = true -> Ascii.eqb x c = false) -> no_char c l.
Proof. intros H Hc. unfold no_char. eapply Forall_impl; [|exact H]. intros x Hx. apply Hc, Hx. Qed.

Lemma digit_not_slash x : digit x = true -> Ascii.eqb x "/"%char = false.
Proof. intros H. apply digit_not_special in H. tauto. Qed.
Lemma digit_not_dot x : digit x = true -> Ascii.eqb x c_dot = false.
Proof. intros H. apply digit_numch, numch_facts in H. tauto. Qed.

Lemma Qcanon_red q : Qcanon q = true -> Qred q = q.
Proof.
  unfold Qcanon. destruct (Qred q) as [n d] eqn:E. destruct q as [n' d']. simpl.
  rewrite andb_true_iff, Z.eqb_eq, Pos.eqb_eq. intros [-> ->]. reflexivity.
Qed.

Definition body_of (q : Q) : str :=
  DN (Z.abs_N (Qnum q)) ++ match Qden q with xH => [] | d => "/"%char :: DN (Npos d) end.

Lemma show_q_dec_eq q : show_q_dec q = sign (Qnum q) ++ body_of q.
Proof.
  unfold show_q_dec, body_of. rewrite show_Z_dec_eq.
  destruct (Qden q).
  - rewrite <- List.app_assoc. reflexivity.
  - rewrite <- List.app_assoc. reflexivity.
  - rewrite (List.app_nil_r (DN (Z.abs_N (Qnum q)))). reflexivity.
Qed.

Lemma show_q_dec_chars q : Forall (fun c => numch c = true) (show_q_dec q) /\ show_q_dec q <> [].
Proof.
  rewrite show_q_dec_eq. destruct (DN_digits (Z.abs_N (Qnum q))) as (Hd & Hne).
  assert (Hb : Forall (fun c => numch c = true) (body_of q)).
  { unfold body_of. apply Forall_app. split; [apply digits_numch; exact Hd|].
    destruct (Qden q) as [p|p|]; try constructor; try reflexivity; apply digits_numch, DN_digits. }
  split.
  - apply Forall_app. split; [|exact Hb]. destruct (Qnum q); repeat constructor.
  - intros H. apply app_eq_nil in H as (_ & H). unfold body_of in H. apply app_eq_nil in H as (H & _). contradiction.
Qed.

Theorem num_text_dec q : Qcanon q = true ->
  read_q_dec (show_q_dec q) = Some q /\ cell_ok (show_q_dec q) = true
  /\ no_comma (show_q_dec q) = true /\ show_q_dec q <> [].
Proof.
  intros Hq. destruct (show_q_dec_chars q) as (Hn & Hne).
  split; [|split; [apply numtext_cell_ok; assumption|split; [apply numtext_no_comma; assumption|exact Hne]]].
  unfold read_q_dec. rewrite (strip_of_stripped _ (numtext_stripped _ Hn Hne)).
  destruct (DN_digits (Z.abs_N (Qnum q))) as (Hd & Hdne).
  (* sign detection *)
  set (neg := match show_q_dec q with c :: _ => Ascii.eqb c "-"%char | [] => false end).
  assert (Hneg : neg = match Qnum q with Zneg _ => true | _ => false end
                 /\ (if neg then tl (show_q_dec q) else show_q_dec q) = body_of q).
  { assert (Hhead : forall rest, match DN (Z.abs_N (Qnum q)) ++ rest with
                                  | c :: _ => Ascii.eqb c "-"%char | [] => false end = false).
    { intros rest. destruct (DN (Z.abs_N (Qnum q))) as [|c r]; [contradiction|]. inversion Hd; subst.
      cbn [app]. apply digit_not_special. assumption. }
    unfold neg. rewrite show_q_dec_eq. unfold body_of at 1 2. destruct (Qnum q) eqn:En; unfold sign.
    - rewrite !List.app_nil_l, Hhead. split; reflexivity.
    - rewrite !List.app_nil_l, Hhead. split; reflexivity.
    - split; reflexivity. }
  destruct Hneg as (Hneg1 & Hneg2). rewrite Hneg2. clearbody neg.
  assert (Hnc : no_char "/"%char (DN (Z.abs_N (Qnum q)))) by (apply digits_no_char; [exact Hd|apply digit_not_slash]).
  assert (Hsgn : forall d, (if neg then Qopp (Z.of_N (Z.abs_N (Qnum q)) # d) else (Z.of_N (Z.abs_N (Qnum q)) # d)) = (Qnum q # d)).
  { intros d. rewrite Hneg1. destruct (Qnum q); reflexivity. }
  unfold body_of. destruct (Qden q) as [p|p|] eqn:Ed.
  - rewrite split_on_app by exact Hnc.
    rewrite split_on_single by (apply digits_no_char; [apply DN_digits|apply digit_not_slash]).
    rewrite (strip_of_stripped _ (numtext_stripped _ (digits_numch _ Hd) Hdne)).
    rewrite (strip_of_stripped _ (numtext_stripped _ (digits_numch _ (proj1 (DN_digits _))) (proj2 (DN_digits _)))).
    rewrite !read_DN. rewrite Hsgn. rewrite <- Ed. destruct q as [n d]; simpl. apply Qcanon_red in Hq. exact (f_equal Some Hq).
  - rewrite split_on_app by exact Hnc.
    rewrite split_on_single by (apply digits_no_char; [apply DN_digits|apply digit_not_slash]).
    rewrite (strip_of_stripped _ (numtext_stripped _ (digits_numch _ Hd) Hdne)).
    rewrite (strip_of_stripped _ (numtext_stripped _ (digits_numch _ (proj1 (DN_digits _))) (proj2 (DN_digits _)))).
    rewrite !read_DN. rewrite Hsgn. rewrite <- Ed. destruct q as [n d]; simpl. apply Qcanon_red in Hq. exact (f_equal Some Hq).
  - rewrite List.app_nil_r. rewrite split_on_single by exact Hnc.
    rewrite split_on_single by (apply digits_no_char; [exact Hd|apply digit_not_dot]).
    rewrite read_DN. simpl option_map. rewrite Hsgn. destruct q as [n d]; simpl in *. subst d. reflexivity.
Qed.

(* ============================================================================================ *)
(* the round trip for the executable instance, at row level and through the csv codec             *)
(* ============================================================================================ *)
Theorem parse_write_roundtrip_x e :
  wf_election_x e = true -> parse_rows_x (write_rows_x e) = Some (canon_x e).
Proof. exact (parse_write_roundtrip show_q_dec read_q_dec show_nat_dec read_nat_dec num_text_dec nat_text_dec e). Qed.

(* file level, any number text satisfying the hypotheses *)
Theorem parse_file_roundtrip
  (show_num : Q -> str) (read_num : str -> option Q) (show_nat : nat -> str) (read_nat : str -> option nat) :
  (forall q, Qcanon q = true ->
     read_num (show_num q) = Some q /\ cell_ok (show_num q) = true /\ no_comma (show_num q) = true
     /\ show_num q <> []) ->
  (forall n, read_nat (show_nat n) = Some n /\ cell_ok (show_nat n) = true /\ not_keyword (show_nat n) = true) ->
  forall e, wf_electionb show_num read_num show_nat read_nat e = true ->
    rows_no_linebreak (write_rows show_num show_nat e) ->
    parse_rows read_num read_nat (csv_split (csv_join (write_rows show_num show_nat e)))
    = Some (canon show_num show_nat e).
Proof.
  intros Hnum Hnat e W Hlb. rewrite csv_roundtrip by exact Hlb.
  apply parse_write_roundtrip; assumption.
Qed.

Theorem parse_file_roundtrip_x e :
  wf_election_x e = true -> rows_no_linebreak (write_rows_x e) ->
  parse_file_x (write_file_x e) = Some (canon_x e).
Proof.
  intros W Hlb. unfold parse_file_x, write_file_x.
  exact (parse_file_roundtrip _ _ _ _ num_text_dec nat_text_dec e W Hlb).
Qed.

Theorem canon_wf_x e : wf_election_x e = true -> wf_election_x (canon_x e) = true.
Proof. exact (canon_wf show_q_dec read_q_dec show_nat_dec read_nat_dec num_text_dec nat_text_dec e). Qed.

Theorem roundtrip_idempotent_x e :
  wf_election_x e = true ->
  let e1 := canon_x e in
  parse_rows_x (write_rows_x e) = Some e1
  /\ wf_election_x e1 = true
  /\ exists e2, parse_rows_x (write_rows_x e1) = Some e2 /\ election_equiv e2 e1.
Proof. exact (roundtrip_idempotent show_q_dec read_q_dec show_nat_dec read_nat_dec num_text_dec nat_text_dec e). Qed.

Lemma election_equiv_spec a b : election_equiv a b ->
  Permutation.Permutation (e_meta a) (e_meta b)
  /\ Forall2 (fun p q => p_name p = p_name q /\ p_cost p = p_cost q /\ p_cats p = p_cats q
                         /\ p_targets p = p_targets q /\ Permutation.Permutation (p_meta p) (p_meta q))
             (e_projects a) (e_projects b)
  /\ e_budget a = e_budget b /\ e_vtype a = e_vtype b
  /\ Forall2 (fun x y => b_projects x = b_projects y /\ b_points x = b_points y /\ b_mult x = b_mult y
                         /\ Permutation.Permutation (b_meta x) (b_meta y))
             (e_ballots a) (e_ballots b)
  /\ e_min_len a = e_min_len b /\ e_max_len a = e_max_len b
  /\ e_min_cost a = e_min_cost b /\ e_max_cost a = e_max_cost b
  /\ e_min_total a = e_min_total b /\ e_max_total a = e_max_total b
  /\ e_min_score a = e_min_score b /\ e_max_score a = e_max_score b.
Proof.
  intros [H1 H2 H3 H4 H5 L1 L2 L3 L4 L5 L6 L7 L8]. repeat split; try assumption.
  - induction H2 as [|p q ps qs [A B C D E] _ IH]; constructor; auto.
  - induction H5 as [|x y xs ys [A B C D] _ IH]; constructor; auto.
Qed.

(* ---- the file-level round trip stated on elections ---- *)
Lemma numch_nolb s : Forall (fun c => numch c = true) s -> nolb s = true.
Proof.
  intros H. unfold nolb. apply forallb_forall. rewrite Forall_forall in H. intros c Hc.
  destruct (numch_facts c (H c Hc)) as (_ & _ & _ & _ & _ & _ & _ & _ & Hl). now rewrite Hl.
Qed.

Lemma show_q_dec_nolb q : nolb (show_q_dec q) = true.
Proof. apply numch_nolb, show_q_dec_chars. Qed.

Lemma show_nat_dec_nolb n : nolb (show_nat_dec n) = true.
Proof. apply numch_nolb, digits_numch, show_nat_dec_digits. Qed.

Theorem write_rows_x_no_linebreak e :
  wf_election_x e = true -> no_linebreak_election e = true -> rows_no_linebreak (write_rows_x e).
Proof.
  intros W Hlb.
  apply (write_rows_no_linebreak show_q_dec read_q_dec show_nat_dec read_nat_dec show_q_dec_nolb show_nat_dec_nolb e);
    [apply (wf_election_facts show_q_dec read_q_dec show_nat_dec read_nat_dec); exact W|exact Hlb].
Qed.

(* M (file level): a well-formed election none of whose names, keys and values contains a line-break character
   is recovered, in normal form, from the FILE the writer model produces *)
Theorem parse_file_roundtrip_election_x e :
  wf_election_x e = true -> no_linebreak_election e = true ->
  parse_file_x (write_file_x e) = Some (canon_x e).
Proof. intros W Hlb. apply parse_file_roundtrip_x; [exact W|apply write_rows_x_no_linebreak; assumption]. Qed.
