(* Proofs/MesEJRRule.v -- the guarantees of Proofs/MesEJR.v for the executable textbook rule
   ([mes_spec], Spec/MesSpec.v) and for the model of the implementation ([mes_resolute],
   Model/MesRule.v; transfer by run_once_refines_spec: every resolute run of the model is a run of the
   declarative rule). *)
From PB Require Export Proofs.MesEJR.
From PB Require Import Spec.JR.
Open Scope Q_scope.

Lemma ej_share_nonneg x : si_init x = [] -> 0 <= si_budget x -> 0 <= si_share x.
Proof.
  intros Hinit HB. unfold si_share, si_tcost. rewrite Hinit. simpl. unfold Qdiv.
  apply Qmult_le_0_compat; [lra|]. apply Qinv_le_0_compat. apply Qnat_nonneg.
Qed.

(* an outcome of mes_spec is: zero-cost supported projects, then the purchases of a declarative run *)
Lemma ej_mes_spec_run x O :
  si_init x = [] -> wf_voters (si_voters x) -> 0 <= si_budget x -> mes_spec x = Some O ->
  exists W, spec_run (si_costs x) (si_voters x) (si_tb x)
                     (repeat (si_share x) (length (si_voters x))) (si_pool x) W /\
            O = si_zeros x ++ W.
Proof.
  intros Hinit Hv HB H. unfold mes_spec, spec_once in H.
  destruct (spec_exec (si_costs x) (si_voters x) (si_tb x) (Datatypes.S (si_n x))
              (repeat (si_share x) (length (si_voters x))) (si_pool x)) as [W|] eqn:Ex; [|discriminate].
  injection H as <-. rewrite Hinit. exists W. split; [|reflexivity].
  apply (spec_exec_sound _ _ _ Hv _ _ _ _) with (2 := Ex).
  split; [apply repeat_wf_buds; apply ej_share_nonneg; assumption|]. split.
  - unfold si_pool, si_cands. apply filter_sorted. apply filter_sorted. apply seq_sorted.
  - intros p Hp. apply ej_pool_pos. exact Hp.
Qed.

(* ---------- the executable textbook rule ---------- *)

Section Spec.
Variable x : spec_in.
Variable voters : list nat.
Variable approves : nat -> proj -> bool.
Variable O : list proj.
Hypothesis Hinit : si_init x = [].
Hypothesis Hv : wf_voters (si_voters x).
Hypothesis Hg : group_ok (si_voters x) voters.
Hypothesis HB : 0 <= si_budget x.
Hypothesis Hmes : mes_spec x = Some O.

Theorem mes_spec_cost_upto_any :
  Forall (fun c => 0 <= c) (si_costs x) ->
  ut_approval nat voters approves (ej_ut x) (cost (ej_inst x)) ->
  forall S T, cohesive_app (ej_inst x) nat voters approves S T -> (forall p, In p T -> 0 < cost (ej_inst x) p) ->
  exists i, In i S /\ sat_upto UpToAny (ej_ut x i) T O (sat nat (ej_ut x) i O) (sat nat (ej_ut x) i T).
Proof.
  destruct (ej_mes_spec_run x O Hinit Hv HB Hmes) as [W [Hrun ->]].
  apply (ej_cost_run_upto_any x voters approves (si_share x) W (si_zeros x ++ W) Hinit Hv Hg (Qle_refl _) HB Hrun).
  intros q Hq. apply in_or_app. exact Hq.
Qed.

Theorem mes_spec_cost_EJR_any :
  Forall (fun c => 0 < c) (si_costs x) ->
  ut_approval nat voters approves (ej_ut x) (cost (ej_inst x)) ->
  EJR_app (ej_inst x) nat voters approves (ej_ut x) UpToAny O.
Proof.
  destruct (ej_mes_spec_run x O Hinit Hv HB Hmes) as [W [Hrun ->]].
  apply (ej_cost_run_EJR_any x voters approves (si_share x) W (si_zeros x ++ W) Hinit Hv Hg (Qle_refl _) HB Hrun).
  intros q Hq. apply in_or_app. exact Hq.
Qed.

Theorem mes_spec_card_EJR :
  Forall (fun c => 0 <= c) (si_costs x) ->
  ut_approval nat voters approves (ej_ut x) (fun _ => 1) ->
  EJR_app (ej_inst x) nat voters approves (ej_ut x) Plain O.
Proof.
  destruct (ej_mes_spec_run x O Hinit Hv HB Hmes) as [W [Hrun ->]].
  intros Hcs. apply (ej_card_run_EJR x voters approves (si_share x) W (si_zeros x ++ W) Hinit Hv Hg (Qle_refl _) HB Hrun).
  - intros q Hq. apply in_or_app. exact Hq.
  - exact Hcs.
  - apply (ej_outcome_NoDup x _ _ W Hrun).
Qed.

Theorem mes_spec_card_EJR_one :
  Forall (fun c => 0 <= c) (si_costs x) ->
  ut_approval nat voters approves (ej_ut x) (fun _ => 1) ->
  EJR_app (ej_inst x) nat voters approves (ej_ut x) UpToOne O.
Proof.
  intros Hcs Hut S T HC. destruct (mes_spec_card_EJR Hcs Hut S T HC) as [i [Hi H]].
  exists i. split; [exact Hi|]. left. exact H.
Qed.

End Spec.

(* ---------- the model of the implementation ---------- *)

Definition mi_ut (x : mes_in) (i : nat) (p : proj) : Q := vutil (mi_voters x) i p.

Section Model.
Variable x : mes_in.
Variable voters : list nat.
Variable approves : nat -> proj -> bool.
Variable b0 : Q.
Variable o : mes_out.
Hypothesis Hinit : mi_init x = [].
Hypothesis Hv : wf_voters (mi_voters x).
Hypothesis Hg : group_ok (mi_voters x) voters.
Hypothesis HB : 0 <= mi_budget x.
Hypothesis Henum_nd : NoDup (mi_enum x).
Hypothesis Henum : forall p, In p (mi_enum x) <-> (p < length (mi_costs x))%nat.
(* one run of the inner algorithm from equal endowments b0 >= budget/n *)
Hypothesis Hb0 : share x <= b0.
Hypothesis Hmes : run_once_res x b0 = Some o.

Lemma ej_model_share : si_share (spec_of x) <= b0.
Proof. rewrite <- (share_is_si_share x). exact Hb0. Qed.

Lemma ej_model_run :
  exists W, spec_run (mi_costs x) (mi_voters x) (mi_tb x)
                     (repeat b0 (length (mi_voters x))) (si_pool (spec_of x)) W /\
            (forall q, In q (si_zeros (spec_of x)) \/ In q W -> In q (o_alloc o)) /\
            NoDup (o_alloc o).
Proof.
  assert (Hf : tcost (mi_inst x) (mi_init x) <= mi_budget x).
  { rewrite Hinit. unfold tcost. simpl. exact HB. }
  assert (Hb0' : 0 <= b0) by (pose proof (share_nonneg x Hf); lra).
  destruct (run_once_refines_spec x b0 o Hv Hb0' Henum_nd Henum Hmes)
    as [Z [W [Hrun [EO HZ]]]].
  exists W. split; [exact Hrun|]. rewrite EO, Hinit. simpl. split.
  - intros q [Hq|Hq]; apply in_or_app; [left|right; exact Hq].
    apply (Permutation_in q (Permutation_sym HZ)). exact Hq.
  - apply (Permutation_NoDup (l := si_zeros (spec_of x) ++ W)).
    + apply Permutation_app_tail. apply Permutation_sym. exact HZ.
    + apply (ej_outcome_NoDup (spec_of x) _ _ W Hrun).
Qed.

Theorem mes_model_cost_upto_any :
  Forall (fun c => 0 <= c) (mi_costs x) ->
  ut_approval nat voters approves (mi_ut x) (cost (mi_inst x)) ->
  forall S T, cohesive_app (mi_inst x) nat voters approves S T -> (forall p, In p T -> 0 < cost (mi_inst x) p) ->
  exists i, In i S /\ sat_upto UpToAny (mi_ut x i) T (o_alloc o) (sat nat (mi_ut x) i (o_alloc o)) (sat nat (mi_ut x) i T).
Proof.
  destruct ej_model_run as [W [Hrun [HO _]]].
  exact (ej_cost_run_upto_any (spec_of x) voters approves b0 W (o_alloc o) Hinit Hv Hg
           ej_model_share HB Hrun HO).
Qed.

Theorem mes_model_cost_EJR_any :
  Forall (fun c => 0 < c) (mi_costs x) ->
  ut_approval nat voters approves (mi_ut x) (cost (mi_inst x)) ->
  EJR_app (mi_inst x) nat voters approves (mi_ut x) UpToAny (o_alloc o).
Proof.
  destruct ej_model_run as [W [Hrun [HO _]]].
  exact (ej_cost_run_EJR_any (spec_of x) voters approves b0 W (o_alloc o) Hinit Hv Hg
           ej_model_share HB Hrun HO).
Qed.

Theorem mes_model_card_EJR :
  Forall (fun c => 0 <= c) (mi_costs x) ->
  ut_approval nat voters approves (mi_ut x) (fun _ => 1) ->
  EJR_app (mi_inst x) nat voters approves (mi_ut x) Plain (o_alloc o).
Proof.
  destruct ej_model_run as [W [Hrun [HO Hnd]]]. intros Hcs.
  exact (ej_card_run_EJR (spec_of x) voters approves b0 W (o_alloc o) Hinit Hv Hg
           ej_model_share HB Hrun HO Hcs Hnd).
Qed.

Theorem mes_model_card_EJR_one :
  Forall (fun c => 0 <= c) (mi_costs x) ->
  ut_approval nat voters approves (mi_ut x) (fun _ => 1) ->
  EJR_app (mi_inst x) nat voters approves (mi_ut x) UpToOne (o_alloc o).
Proof.
  intros Hcs Hut S T HC. destruct (mes_model_card_EJR Hcs Hut S T HC) as [i [Hi H]].
  exists i. split; [exact Hi|]. left. exact H.
Qed.

End Model.

(* ---------- headline forms: the model of the implementation, any multiplicities ----------
   the JR profile is [class_voters]: class i listed vmul_i times.  Plain rule [mes_resolute] and the
   budget-increase variant [mes_iter_resolute] (whose reported run is a run from endowments >= budget/n:
   iter_res_inv). *)

Section Headline.
Variable x : mes_in.
Variable approves : nat -> proj -> bool.
Variable o : mes_out.
Hypothesis Hinit : mi_init x = [].
Hypothesis Hv : wf_voters (mi_voters x).
Hypothesis HB : 0 <= mi_budget x.
Hypothesis Henum_nd : NoDup (mi_enum x).
Hypothesis Henum : forall p, In p (mi_enum x) <-> (p < length (mi_costs x))%nat.

Let voters := class_voters (mi_voters x).

Definition mes_outcome (o : mes_out) : Prop :=
  mes_resolute x = Some o \/ exists fuel inc, 0 <= inc /\ mes_iter_resolute fuel x inc = Some o.

Lemma mes_outcome_run : mes_outcome o -> exists b0, share x <= b0 /\ run_once_res x b0 = Some o.
Proof.
  intros [H|[fuel [inc [Hinc H]]]].
  - exists (share x). split; [apply Qle_refl|exact H].
  - apply (iter_res_inv x inc Hinc fuel (share x) None o (share x) (Qle_refl _)); [|exact H].
    intros p Hp. discriminate.
Qed.

Hypothesis Hmes : mes_outcome o.

Theorem mes_cost_EJR_any :
  Forall (fun c => 0 < c) (mi_costs x) ->
  ut_approval nat voters approves (mi_ut x) (cost (mi_inst x)) ->
  EJR_app (mi_inst x) nat voters approves (mi_ut x) UpToAny (o_alloc o).
Proof.
  destruct (mes_outcome_run Hmes) as [b0 [Hb0 Hrun]].
  exact (mes_model_cost_EJR_any x voters approves b0 o Hinit Hv (group_ok_mult _) HB Henum_nd Henum Hb0 Hrun).
Qed.

Theorem mes_cost_upto_any_pos :
  Forall (fun c => 0 <= c) (mi_costs x) ->
  ut_approval nat voters approves (mi_ut x) (cost (mi_inst x)) ->
  forall S T, cohesive_app (mi_inst x) nat voters approves S T -> (forall p, In p T -> 0 < cost (mi_inst x) p) ->
  exists i, In i S /\ sat_upto UpToAny (mi_ut x i) T (o_alloc o) (sat nat (mi_ut x) i (o_alloc o)) (sat nat (mi_ut x) i T).
Proof.
  destruct (mes_outcome_run Hmes) as [b0 [Hb0 Hrun]].
  exact (mes_model_cost_upto_any x voters approves b0 o Hinit Hv (group_ok_mult _) HB Henum_nd Henum Hb0 Hrun).
Qed.

Theorem mes_card_EJR :
  Forall (fun c => 0 <= c) (mi_costs x) ->
  ut_approval nat voters approves (mi_ut x) (fun _ => 1) ->
  EJR_app (mi_inst x) nat voters approves (mi_ut x) Plain (o_alloc o).
Proof.
  destruct (mes_outcome_run Hmes) as [b0 [Hb0 Hrun]].
  exact (mes_model_card_EJR x voters approves b0 o Hinit Hv (group_ok_mult _) HB Henum_nd Henum Hb0 Hrun).
Qed.

Theorem mes_card_EJR_one :
  Forall (fun c => 0 <= c) (mi_costs x) ->
  ut_approval nat voters approves (mi_ut x) (fun _ => 1) ->
  EJR_app (mi_inst x) nat voters approves (mi_ut x) UpToOne (o_alloc o).
Proof.
  destruct (mes_outcome_run Hmes) as [b0 [Hb0 Hrun]].
  exact (mes_model_card_EJR_one x voters approves b0 o Hinit Hv (group_ok_mult _) HB Henum_nd Henum Hb0 Hrun).
Qed.

End Headline.
