(* Proofs/MesLazy.v -- the lazy scan of mes_inner_algo (projects sorted by their cached, possibly
   stale affordability; `break` once the cached value exceeds the best found so far) computes the
   same best affordability and the same tied projects as evaluating every remaining project. *)
From PB Require Export Proofs.MesSweep.
Open Scope Q_scope.

(* the scan without the early exit *)
Fixpoint eager (P : list vcls) (buds : list Q) (l : list mproj) (best : Qx) (tied : list mproj)
  : Qx * list mproj :=
  match l with
  | [] => (best, tied)
  | mp :: r =>
      if Qltb (avail P buds mp) (mp_cost mp) then eager P buds r best tied
      else
        let s := sorted_sup P buds mp in
        match eval_rho P buds mp s with
        | Some a0 =>
            let a := Qred a0 in
            let mp' := set_aff mp a s in
            if Qx_ltb (Fin a) best then eager P buds r (Fin a) [mp']
            else if Qx_eqb (Fin a) best then eager P buds r best (tied ++ [mp'])
            else eager P buds r best tied
        | None => eager P buds r best tied
        end
  end.

Definition st2 (x : Qx * list mproj * list (proj * option mproj)) : Qx * list mproj :=
  (fst (fst x), snd (fst x)).

(* the cached affordability of every (still affordable) project is a lower bound of its rho *)
Definition cache_lb (P : list vcls) (buds : list Q) (l : list mproj) : Prop :=
  forall mp a0, In mp l -> Qltb (avail P buds mp) (mp_cost mp) = false ->
    eval_rho P buds mp (sorted_sup P buds mp) = Some a0 -> mp_aff mp <= a0.

Definition aff_le (a b : mproj) : Prop := mp_aff a <= mp_aff b.

Lemma scan_cons P buds mp r best tied :
  scan P buds (mp :: r) best tied =
  if Qltb (avail P buds mp) (mp_cost mp) then
    let '(b, t, res) := scan P buds r best tied in (b, t, (mp_id mp, None) :: res)
  else if Qx_ltb best (Fin (mp_aff mp)) then (best, tied, [])
  else
    let s := sorted_sup P buds mp in
    match eval_rho P buds mp s with
    | Some a0 =>
        let a := Qred a0 in
        let mp' := set_aff mp a s in
        let '(b, t, res) :=
          if Qx_ltb (Fin a) best then scan P buds r (Fin a) [mp']
          else if Qx_eqb (Fin a) best then scan P buds r best (tied ++ [mp'])
          else scan P buds r best tied in
        (b, t, (mp_id mp, Some mp') :: res)
    | None =>
        let '(b, t, res) := scan P buds r best tied in
        (b, t, (mp_id mp, Some (set_sup mp s)) :: res)
    end.
Proof. reflexivity. Qed.

Lemma st2_let (x : Qx * list mproj * list (proj * option mproj)) e :
  st2 (let '(b, t, res) := x in (b, t, e :: res)) = st2 x.
Proof. destruct x as [[b t] res]. reflexivity. Qed.

(* current rho of a project: None when its supporters cannot pay or (never, see sweep_spec) the
   sweep finds nothing *)
Definition cur_rho (P : list vcls) (buds : list Q) (mp : mproj) : option Q :=
  if Qltb (avail P buds mp) (mp_cost mp) then None
  else eval_rho P buds mp (sorted_sup P buds mp).

Lemma eager_unfold P buds mp r best tied :
  eager P buds (mp :: r) best tied =
  match cur_rho P buds mp with
  | None => eager P buds r best tied
  | Some a0 =>
      let mp' := set_aff mp (Qred a0) (sorted_sup P buds mp) in
      if Qx_ltb (Fin (Qred a0)) best then eager P buds r (Fin (Qred a0)) [mp']
      else if Qx_eqb (Fin (Qred a0)) best then eager P buds r best (tied ++ [mp'])
      else eager P buds r best tied
  end.
Proof.
  unfold cur_rho. simpl.
  destruct (Qltb (avail P buds mp) (mp_cost mp)); [reflexivity|].
  destruct (eval_rho P buds mp (sorted_sup P buds mp)); reflexivity.
Qed.

Lemma cur_rho_some P buds mp a0 :
  cur_rho P buds mp = Some a0 <->
  Qltb (avail P buds mp) (mp_cost mp) = false /\ eval_rho P buds mp (sorted_sup P buds mp) = Some a0.
Proof.
  unfold cur_rho. destruct (Qltb (avail P buds mp) (mp_cost mp)); split.
  - discriminate.
  - intros [H _]. discriminate H.
  - intro H. split; [reflexivity|exact H].
  - intros [_ H]. exact H.
Qed.

(* projects whose rho is above the current best do not change the eager result *)
Lemma eager_skip P buds b : forall l tied,
  (forall mp a0, In mp l -> cur_rho P buds mp = Some a0 -> b < a0) ->
  eager P buds l (Fin b) tied = (Fin b, tied).
Proof.
  induction l as [|mp r IH]; intros tied H; [reflexivity|].
  assert (Hr : forall mp0 a0, In mp0 r -> cur_rho P buds mp0 = Some a0 -> b < a0).
  { intros mp0 a0 Hin. apply H. right. exact Hin. }
  rewrite eager_unfold.
  destruct (cur_rho P buds mp) as [a0|] eqn:Ee; [|apply IH; exact Hr].
  assert (Hlt : b < a0) by (apply (H mp a0); [left; reflexivity|exact Ee]).
  assert (Hred : Qred a0 == a0) by apply Qred_correct.
  assert (E1 : Qx_ltb (Fin (Qred a0)) (Fin b) = false).
  { unfold Qx_ltb. simpl. apply negb_false_iff. apply Qleb_iff. lra. }
  assert (E2 : Qx_eqb (Fin (Qred a0)) (Fin b) = false).
  { simpl. apply Qeqb_false_iff. lra. }
  cbv zeta. rewrite E1, E2. apply IH. exact Hr.
Qed.

Theorem lazy_scan_eq_eager P buds : forall l best tied,
  StronglySorted aff_le l -> cache_lb P buds l ->
  st2 (scan P buds l best tied) = eager P buds l best tied.
Proof.
  induction l as [|mp r IH]; intros best tied Hs Hc; [reflexivity|].
  inversion Hs as [|? ? Hsr Hall]; subst.
  assert (Hcr : cache_lb P buds r).
  { intros mp0 a0 Hin. apply Hc. right. exact Hin. }
  rewrite scan_cons, eager_unfold. unfold cur_rho.
  destruct (Qltb (avail P buds mp) (mp_cost mp)) eqn:Ea.
  - rewrite st2_let. apply IH; assumption.
  - destruct (Qx_ltb best (Fin (mp_aff mp))) eqn:Eb.
    + (* break: every later project has rho >= its cache >= this cache > best *)
      destruct best as [b|]; [|discriminate Eb].
      unfold Qx_ltb in Eb. simpl in Eb. apply negb_true_iff in Eb. apply Qleb_false_iff in Eb.
      assert (Hskip : forall mp0 a0, In mp0 (mp :: r) -> cur_rho P buds mp0 = Some a0 -> b < a0).
      { intros mp0 a0 Hin Hcur. apply cur_rho_some in Hcur. destruct Hcur as [Haf Hev].
        assert (Hlb : mp_aff mp0 <= a0) by (apply (Hc mp0 a0); assumption).
        destruct Hin as [<-|Hin]; [lra|].
        rewrite Forall_forall in Hall. specialize (Hall mp0 Hin). unfold aff_le in Hall. lra. }
      pose proof (eager_skip P buds b (mp :: r) tied Hskip) as He.
      rewrite eager_unfold in He. unfold cur_rho in He. rewrite Ea in He.
      unfold st2. simpl fst. simpl snd. symmetry. exact He.
    + cbv zeta.
      destruct (eval_rho P buds mp (sorted_sup P buds mp)) as [a0|] eqn:Ee.
      * destruct (Qx_ltb (Fin (Qred a0)) best); [rewrite st2_let; apply IH; assumption|].
        destruct (Qx_eqb (Fin (Qred a0)) best); rewrite st2_let; apply IH; assumption.
      * rewrite st2_let. apply IH; assumption.
Qed.

(* ---------- what the eager evaluation computes: the argmin with all its ties ---------- *)

Definition Qx_le (a b : Qx) : Prop := Qx_leb a b = true.

(* best found is below the initial best and below every rho; *)
Lemma eager_best_le P buds : forall l best tied,
  Qx_le (fst (eager P buds l best tied)) best /\
  forall mp a0, In mp l -> cur_rho P buds mp = Some a0 -> Qx_le (fst (eager P buds l best tied)) (Fin a0).
Proof.
  induction l as [|mp r IH]; intros best tied.
  - simpl. split; [destruct best; unfold Qx_le; simpl; [apply Qleb_iff; lra|reflexivity]|intros ? ? []].
  - rewrite eager_unfold.
    assert (Hle_trans : forall x y z, Qx_le x y -> Qx_le y z -> Qx_le x z).
    { intros [x|] [y|] [z|]; unfold Qx_le; simpl; intros A B; try reflexivity; try discriminate.
      apply Qleb_iff in A. apply Qleb_iff in B. apply Qleb_iff. lra. }
    destruct (cur_rho P buds mp) as [a0|] eqn:Ec.
    + cbv zeta. pose proof (Qred_correct a0) as Hred.
      destruct (Qx_ltb (Fin (Qred a0)) best) eqn:E1.
      * destruct (IH (Fin (Qred a0)) [set_aff mp (Qred a0) (sorted_sup P buds mp)]) as [H1 H2].
        assert (Hab : Qx_le (Fin (Qred a0)) best).
        { destruct best as [b|]; unfold Qx_le; simpl; [|reflexivity].
          unfold Qx_ltb in E1. simpl in E1. apply negb_true_iff in E1. apply Qleb_false_iff in E1.
          apply Qleb_iff. lra. }
        split; [eapply Hle_trans; [exact H1|exact Hab]|].
        intros mp0 b0 [<-|Hin] Hc0.
        -- rewrite Ec in Hc0. injection Hc0 as <-. eapply Hle_trans; [exact H1|].
           unfold Qx_le. simpl. apply Qleb_iff. lra.
        -- apply (H2 mp0 b0 Hin Hc0).
      * assert (Hba : Qx_le best (Fin (Qred a0))).
        { destruct best as [b|]; unfold Qx_le; simpl.
          - unfold Qx_ltb in E1. simpl in E1. apply negb_false_iff in E1. exact E1.
          - discriminate E1. }
        destruct (Qx_eqb (Fin (Qred a0)) best) eqn:E2.
        -- destruct (IH best (tied ++ [set_aff mp (Qred a0) (sorted_sup P buds mp)])) as [H1 H2].
           split; [exact H1|]. intros mp0 b0 [<-|Hin] Hc0.
           ++ rewrite Ec in Hc0. injection Hc0 as <-. eapply Hle_trans; [exact H1|].
              eapply Hle_trans; [exact Hba|]. unfold Qx_le. simpl. apply Qleb_iff. lra.
           ++ apply (H2 mp0 b0 Hin Hc0).
        -- destruct (IH best tied) as [H1 H2].
           split; [exact H1|]. intros mp0 b0 [<-|Hin] Hc0.
           ++ rewrite Ec in Hc0. injection Hc0 as <-. eapply Hle_trans; [exact H1|].
              eapply Hle_trans; [exact Hba|]. unfold Qx_le. simpl. apply Qleb_iff. lra.
           ++ apply (H2 mp0 b0 Hin Hc0).
    + destruct (IH best tied) as [H1 H2]. split; [exact H1|].
      intros mp0 b0 [<-|Hin] Hc0; [rewrite Ec in Hc0; discriminate|apply (H2 mp0 b0 Hin Hc0)].
Qed.
