(* Proofs/MesIterIrrIndep.v -- C13, Equal Shares, iterated AND irresolute (mes_iter_irresolute): the
   set of returned allocations does not depend on the iteration order of the project set, on the
   order of the voters, nor on the tie-breaking key.  Route: every run of the loop in irresolute
   mode returns the sorted outcomes of the any-choice textbook runs (Proofs/MesIrrSpec.v
   [run_once_irr_spec]), and those are invariant under a joint re-ordering of voters and money
   ([SRel] of Proofs/InvarianceMesRunP.v). *)
From PB Require Export Proofs.MesIrrSpec.
From PB Require Proofs.InvarianceMesRunP.
Module R := InvarianceMesRunP.
Open Scope Q_scope.

Lemma SRel_sym P b P' b' : R.SRel P b P' b' -> R.SRel P' b' P b.
Proof.
  intros (L & L' & bm & bm' & B & B' & HP). split; [exact L'|]. split; [exact L|].
  exists bm', bm. split; [exact B'|]. split; [exact B|]. symmetry. exact HP.
Qed.

Lemma spec_round_any_SRel cs P b P' b' rem p rho :
  R.SRel P b P' b' -> spec_round_any cs P b rem p rho -> spec_round_any cs P' b' rem p rho.
Proof.
  intros HR [H1 [H2 [H3 H4]]].
  pose proof (R.aff_transfer cs P P' b b' (fun q => R.SRel_money P b P' b' q HR)) as Ha.
  pose proof (R.is_rho_transfer cs P P' b b' (fun r q => R.SRel_paid P b P' b' r q HR)) as Hr.
  split; [exact H1|]. split; [apply Ha; exact H2|]. split; [apply Hr; exact H3|].
  intros q r Hq Hqa Hqr. apply (H4 q r Hq); [apply Ha; exact Hqa|apply Hr; exact Hqr].
Qed.

Theorem spec_run_any_SRel cs P P' : forall b rem W, spec_run_any cs P b rem W ->
  forall b', R.SRel P b P' b' -> spec_run_any cs P' b' rem W.
Proof.
  induction 1 as [b rem Hst|b rem p rho b1 W Hround Hb1 Lb1 Hrun IH]; intros b' HR.
  - apply sa_stop. intros q Hq Ha. apply (Hst q Hq).
    apply (R.aff_transfer cs P P' b b' (fun q => R.SRel_money P b P' b' q HR)). exact Ha.
  - apply (sa_buy cs P' b' rem p rho (charge P' b' rho p) W).
    + apply (spec_round_any_SRel cs P b P' b' rem p rho HR Hround).
    + intro i. reflexivity.
    + apply charge_length.
    + apply IH. apply (R.SRel_charge P b P' b' rho rho p b1 (charge P' b' rho p) HR (Qeq_refl _) Hb1 Lb1).
      * intro i. reflexivity.
      * apply charge_length.
Qed.

Section Iter.
Variables (x : mes_in) (e2 : list proj) (P' : list vcls) (tb' : proj -> Q).
Hypothesis Hv : wf_voters (mi_voters x).
Hypothesis Hn1 : R.valid_enum x (mi_enum x).
Hypothesis Hn2 : R.valid_enum x e2.
Hypothesis HP : Permutation (mi_voters x) P'.
Let x2 := R.with_voters (R.with_enum x e2) P' tb'.

Lemma run_once_irr_presentation b0 L1 L2 : 0 <= b0 ->
  run_once_irr x b0 = Some L1 -> run_once_irr x2 b0 = Some L2 -> forall X, In X L1 <-> In X L2.
Proof.
  intros Hb E1 E2 X. destruct Hn1 as [N1 C1], Hn2 as [N2 C2].
  rewrite (run_once_irr_spec x b0 L1 Hv Hb N1 C1 E1 X).
  rewrite (run_once_irr_spec x2 b0 L2 (R.Hv2 x e2 P' tb' Hv HP) Hb N2 C2 E2 X).
  unfold x2. rewrite (R.pool2 x e2 P' tb' HP), (R.zeros2 x e2 P' tb' HP). cbn [R.with_voters R.with_enum mi_costs mi_voters mi_init].
  assert (HR : R.SRel (mi_voters x) (repeat b0 (length (mi_voters x))) P' (repeat b0 (length P'))).
  { split; [apply repeat_length|]. split; [apply repeat_length|].
    exists (repeat b0 (length (mi_voters x))), (repeat b0 (length P')).
    split; [apply R.beq_refl|]. split; [apply R.beq_refl|].
    rewrite !R.combine_repeat. apply Permutation_map. exact HP. }
  split; intros [W [HW ->]]; exists W; (split; [|reflexivity]).
  - apply (spec_run_any_SRel _ _ _ _ _ _ HW _ HR).
  - apply (spec_run_any_SRel _ _ _ _ _ _ HW _ (SRel_sym _ _ _ _ HR)).
Qed.

Theorem iter_irr_presentation inc : 0 <= inc -> forall fuel b0 prev1 prev2, 0 <= b0 ->
  oseteq prev1 prev2 -> oseteq (iter_irr fuel x inc b0 prev1) (iter_irr fuel x2 inc b0 prev2).
Proof.
  intros Hinc. induction fuel as [|f IH]; intros b0 prev1 prev2 Hb Hprev; [exact Logic.I|].
  cbn [iter_irr].
  pose proof (run_once_irr_total x b0) as T1. pose proof (run_once_irr_total x2 b0) as T2.
  destruct (run_once_irr x b0) as [L1|] eqn:E1; [|congruence].
  destruct (run_once_irr x2 b0) as [L2|] eqn:E2; [|congruence].
  pose proof (run_once_irr_presentation b0 L1 L2 Hb E1 E2) as Hset.
  rewrite <- (existsb_seteq (fun W => negb (alloc_feasible x W)) (fun W => negb (alloc_feasible x2 W)) L1 L2 Hset)
    by (intros X _; unfold x2; rewrite (R.feasible_pres x e2 P' tb' X X (Permutation_refl _)); reflexivity).
  rewrite <- (existsb_seteq (alloc_exhaustive x) (alloc_exhaustive x2) L1 L2 Hset)
    by (intros X _; unfold x2; rewrite (R.exhaustive_pres x e2 P' tb' Hv Hn1 Hn2 HP X X (Permutation_refl _)); reflexivity).
  destruct (existsb (fun W => negb (alloc_feasible x W)) L1); [exact Hprev|].
  destruct (existsb (alloc_exhaustive x) L1); [exact Hset|].
  apply IH; [|exact Hset]. rewrite Qred_correct.
  apply (Qle_trans _ (0 + 0)); [discriminate|]. apply Qplus_le_compat; assumption.
Qed.

(* M: the iterated irresolute rule returns the same set of allocations (or runs out of the outer
   fuel in both presentations) *)
Theorem mes_iter_irresolute_presentation_indep fuel inc : 0 <= inc ->
  tcost (mi_inst x) (mi_init x) <= mi_budget x ->
  oseteq (mes_iter_irresolute fuel x inc) (mes_iter_irresolute fuel x2 inc).
Proof.
  intros Hinc Hf. unfold mes_iter_irresolute.
  assert (Eshare : share x2 = share x).
  { unfold share. simpl. rewrite <- (R.nvoters_perm _ _ HP). reflexivity. }
  rewrite Eshare. apply iter_irr_presentation; [exact Hinc|apply share_nonneg; exact Hf|exact Logic.I].
Qed.
End Iter.
