(* Proofs/ComposeP.v -- the abstract half of "wrappers around concrete rules" (Props/C09rules.v):
   (1) the contract of C09_increase_feasible, as stated ([forall b] without a lower bound on b), cannot be met by
       ANY rule on an instance with non-negative costs -- so that theorem cannot be instantiated;
   (2) the same conclusions under the contract a rule can meet: feasibility for the budget it is given and
       extension of the initial allocation, for the budgets the loop can reach (b >= B, step >= 0);
   (3) completion_by_rule_combination under a contract that is only asked of FEASIBLE starting allocations
       (what the rule models' feasibility theorems provide). *)
From PB Require Import Model.Exhaustion Proofs.InstanceP Proofs.ExhaustionP.
Open Scope Q_scope.

(* ---------------------------------------------------------------------------------------------- *)
(* (1) the unbounded contract is unsatisfiable                                                      *)

Theorem contract_all_budgets_unsatisfiable (I : inst) (R : Q -> alloc) :
  Forall (fun c => 0 <= c) (costs I) -> ~ (forall b, feasible (mkInst (costs I) b) (R b)).
Proof.
  intros Hc H. destruct (H (-(1))) as [_ [_ H3]].
  pose proof (tcost_nonneg (mkInst (costs I) (-(1))) (R (-(1))) Hc) as H0.
  simpl in H3. lra.
Qed.

(* irresolute form: it forces the rule to return NO allocation at all for negative budgets *)
Theorem contract_all_budgets_irresolute_empty (I : inst) (R : Q -> list alloc) :
  Forall (fun c => 0 <= c) (costs I) ->
  (forall b W, In W (R b) -> feasible (mkInst (costs I) b) W) -> forall b, b < 0 -> R b = [].
Proof.
  intros Hc H b Hb. destruct (R b) as [|W r] eqn:E; [reflexivity|exfalso].
  destruct (H b W) as [_ [_ H3]]; [rewrite E; left; reflexivity|].
  pose proof (tcost_nonneg (mkInst (costs I) b) W Hc) as H0. simpl in H3. lra.
Qed.

(* ---------------------------------------------------------------------------------------------- *)
(* (2) invariants of the retry loop when the rule's contract holds from a lower bound on            *)

Section RetryGe.
  Variable T : Type.
  Variable R : Q -> T.
  Variable bad exh : T -> bool.
  Variable step : Q.
  Variable cont : Q -> bool.

  Lemma retry_inv_ge (P : T -> Prop) (lo : Q) :
    0 <= step ->
    (forall b, lo <= b -> bad (R b) = false -> P (R b)) ->
    forall fuel k b prev k' r, lo <= b -> P prev ->
      retry R bad exh step cont fuel k b prev = Some (k', r) -> P r.
  Proof.
    intros Hs HP. induction fuel as [|f IH]; intros k b prev k' r Hb Hprev H; cbn [retry] in H; [discriminate|].
    destruct (cont b).
    - destruct (bad (R b)) eqn:Eb.
      + injection H as _ <-. exact Hprev.
      + destruct (exh (R b)).
        * injection H as _ <-. apply HP; assumption.
        * eapply IH; [| |exact H].
          -- pose proof (Qred_correct (b + step)) as Hq. lra.
          -- apply HP; assumption.
    - injection H as _ <-. exact Hprev.
  Qed.
End RetryGe.

Section IncreaseGe.
  Variable I : inst.
  Variable init : alloc.
  Hypothesis init_feasible : feasible I init.
  Variable step : Q.
  Hypothesis step_nonneg : 0 <= step.

  Theorem increase_res_feasible_ge (R : Q -> alloc) :
    (forall b, budget I <= b -> feasible (mkInst (costs I) b) (R b)) ->
    (forall b, budget I <= b -> incl init (R b)) ->
    forall stop bound fuel k W,
    increase_res I R init stop step bound fuel = Some (k, W) -> feasible I W /\ incl init W.
  Proof.
    intros HF HE stop bound fuel k W H.
    eapply (retry_inv_ge alloc R (infeasible1 I) _ step _ (fun W => feasible I W /\ incl init W) (budget I));
      [exact step_nonneg| |apply Qle_refl| |exact H].
    - intros b Hb Hbad. split; [|apply HE; exact Hb]. apply feasible_of_wf.
      + eapply feasible_any_budget_wf. apply HF. exact Hb.
      + apply infeasible1_false_iff. exact Hbad.
    - split; [exact init_feasible|apply incl_refl].
  Qed.

  Theorem increase_irr_feasible_ge (R : Q -> list alloc) :
    (forall b W, budget I <= b -> In W (R b) -> feasible (mkInst (costs I) b) W) ->
    (forall b W, budget I <= b -> In W (R b) -> incl init W) ->
    forall stop bound fuel k Ws,
    increase_irr I R init stop step bound fuel = Some (k, Ws) ->
    forall W, In W Ws -> feasible I W /\ incl init W.
  Proof.
    intros HF HE stop bound fuel k Ws H.
    eapply (retry_inv_ge (list alloc) R (infeasible_any I) _ step _
              (fun Ws => forall W, In W Ws -> feasible I W /\ incl init W) (budget I));
      [exact step_nonneg| |apply Qle_refl| |exact H].
    - intros b Hb Hbad W HW. split; [|apply (HE b); assumption]. apply feasible_of_wf.
      + eapply feasible_any_budget_wf. apply (HF b); assumption.
      + rewrite infeasible_any_false_iff in Hbad. apply Hbad. exact HW.
    - intros W [<-|[]]. split; [exact init_feasible|apply incl_refl].
  Qed.
End IncreaseGe.

(* the iterated Equal Shares loop: what is needed of the base rule is only the budget-independent part
   (distinct instance projects) -- the cost test of the loop does the rest *)
Theorem mes_iter_res_feasible_wf (I : inst) (init : alloc) (R : Q -> alloc) :
  (forall b, wf_alloc I (R b)) -> (forall b, incl init (R b)) ->
  forall avail prev0 b0 inc fuel k W,
  feasible I prev0 -> incl init prev0 ->
  mes_iter_res I R avail prev0 b0 inc fuel = Some (k, W) -> feasible I W /\ incl init W.
Proof.
  intros HW HE avail prev0 b0 inc fuel k W Hp Hi H.
  eapply (retry_inv alloc R (infeasible1 I) _ inc _ (fun W => feasible I W /\ incl init W)); [| |exact H].
  - intros b Hb. split; [|apply HE]. apply feasible_of_wf; [apply HW|]. apply infeasible1_false_iff. exact Hb.
  - split; assumption.
Qed.

Theorem mes_iter_irr_feasible_wf (I : inst) (init : alloc) (R : Q -> list alloc) :
  (forall b W, In W (R b) -> wf_alloc I W) -> (forall b W, In W (R b) -> incl init W) ->
  forall avail prev0 b0 inc fuel k Ws,
  feasible I prev0 -> incl init prev0 ->
  mes_iter_irr I R avail prev0 b0 inc fuel = Some (k, Ws) ->
  forall W, In W Ws -> feasible I W /\ incl init W.
Proof.
  intros HW HE avail prev0 b0 inc fuel k Ws Hp Hi H.
  eapply (retry_inv (list alloc) R (infeasible_any I) _ inc _
            (fun Ws => forall W, In W Ws -> feasible I W /\ incl init W)); [| |exact H].
  - intros b Hb W HWin. split; [|apply (HE b); exact HWin]. apply feasible_of_wf; [apply (HW b); exact HWin|].
    rewrite infeasible_any_false_iff in Hb. apply Hb. exact HWin.
  - intros W [<-|[]]. split; assumption.
Qed.

(* ---------------------------------------------------------------------------------------------- *)
(* (3) completion under a contract relative to feasible starting allocations                        *)

Section CompletionRel.
  Variable I : inst.

  Theorem complete_res_spec_rel (rules : list (alloc -> alloc)) :
    (forall r a, In r rules -> feasible I a -> incl a (r a) /\ feasible I (r a)) ->
    forall init, feasible I init ->
    let W := complete_res I rules init in
    incl init W /\ feasible I W /\
    match rules with [] => W = init | r1 :: _ => incl (r1 init) W end /\
    (exh_all I W = true \/ W = fold_left (fun a r => r a) rules init).
  Proof.
    induction rules as [|r rest IH]; intros Hc init Hinit; simpl.
    - repeat split; try apply incl_refl; try apply Hinit. right. reflexivity.
    - destruct (Hc r init (or_introl eq_refl) Hinit) as [He Hf].
      destruct (exh_all I (r init)) eqn:E.
      + repeat split; try apply Hf; try exact He; try apply incl_refl. left. exact E.
      + destruct (IH (fun r' a H => Hc r' a (or_intror H)) (r init) Hf) as [H1 [H2 [H3 H4]]].
        repeat split; try apply H2.
        * eapply incl_tran; [exact He|exact H1].
        * exact H1.
        * exact H4.
  Qed.

  (* irresolute: every returned allocation is feasible, contains the initial allocation and an outcome of the
     first rule *)
  Theorem completion_irr_sound_rel (r1 : alloc -> list alloc) (rest : list (alloc -> list alloc)) (init : alloc) :
    (forall r a W, In r (r1 :: rest) -> feasible I a -> In W (r a) -> incl a W /\ feasible I W) ->
    feasible I init ->
    forall W, In W (completion_irr I (r1 :: rest) init) ->
      incl init W /\ feasible I W /\ exists a, In a (r1 init) /\ incl a W.
  Proof.
    intros Hc Hinit. unfold completion_irr. simpl.
    destruct (scan_rule I r1 [init] []) as [[res' new] allr] eqn:E.
    apply scan_rule_spec in E. destruct E as [E1 [E2 E3]].
    simpl in E1, E2, E3. rewrite app_nil_r in E1, E2, E3.
    assert (Hfirst : forall a, In a res' \/ In a new -> In a (r1 init)).
    { intros a [Ha|Ha]; [apply E1 in Ha; destruct Ha as [[]|[Ha _]]; exact Ha|apply E2 in Ha; apply Ha]. }
    assert (HP : forall a, In a (r1 init) ->
               incl init a /\ feasible I a /\ exists a0, In a0 (r1 init) /\ incl a0 a).
    { intros a Ha. destruct (Hc r1 init a (or_introl eq_refl) Hinit Ha) as [A B].
      split; [exact A|]. split; [exact B|]. exists a. split; [exact Ha|apply incl_refl]. }
    destruct allr.
    - intros W HW. apply HP. apply Hfirst. left. exact HW.
    - apply (complete_irr_closed I
               (fun W => incl init W /\ feasible I W /\ exists a, In a (r1 init) /\ incl a W) rest).
      + intros r a W Hr [Ha1 [Ha2 [a0 [Ha3 Ha4]]]] HW.
        destruct (Hc r a W (or_intror Hr) Ha2 HW) as [A B].
        split; [eapply incl_tran; eassumption|]. split; [exact B|].
        exists a0. split; [exact Ha3|eapply incl_tran; eassumption].
      + intros a Ha. apply HP. apply Hfirst. right. exact Ha.
      + intros a Ha. apply HP. apply Hfirst. left. exact Ha.
  Qed.
End CompletionRel.
