(* Proofs/MesEJRAddExamples.v -- non-vacuity of the hypotheses of the additive-utility theorem
   (Props/C14mes.v, C14_mes_additive_EJR_one): cardinal ballots with scores 3,1,0 / 2,0,1 (twice) / 0,2,2,
   costs 2,3,3, budget 6; the rule selects {0,2}; {class 0, class 2} is (alpha,{1})-cohesive with alpha = 1. *)
From PB Require Import Proofs.MesEJRRule Spec.JR.
Open Scope Q_scope.

Ltac in_cases_a H := simpl in H; repeat (destruct H as [H|H]; [subst|]); try contradiction.

Section Ex.
Let Pa := [mkV [3; 1; 0] 1%nat; mkV [2; 0; 1] 2%nat; mkV [0; 2; 2] 1%nat].
Let xa := mkIn [2; 3; 3] 6 Pa (key_of_list [0; 2; 1]) [2; 0; 1]%nat false [].

Lemma mes_add_example :
  mi_init xa = [] /\ wf_voters (mi_voters xa) /\ 0 <= mi_budget xa /\ NoDup (mi_enum xa) /\
  (forall p, In p (mi_enum xa) <-> (p < length (mi_costs xa))%nat) /\
  Forall (fun c => 0 <= c) (mi_costs xa) /\
  ut_is_score nat (class_voters Pa) (mi_ut xa) (mi_ut xa) /\
  score_nonneg nat (class_voters Pa) (mi_ut xa) /\
  option_map o_alloc (mes_resolute xa) = Some [0; 2]%nat /\
  mes_irresolute xa = Some [[0; 2]%nat] /\
  cohesive_card (mi_inst xa) nat (class_voters Pa) (mi_ut xa) [0; 2]%nat [1%nat] (fun _ => 1).
Proof.
  split; [reflexivity|]. split; [repeat constructor|]. split; [discriminate|].
  split; [repeat constructor; simpl; intuition lia|]. split; [intro p; simpl; lia|].
  split; [repeat constructor; discriminate|]. split; [intros i p _; reflexivity|].
  split.
  { intros i p Hi. change (class_voters Pa) with [0; 1; 1; 2]%nat in Hi.
    in_cases_a Hi; (destruct p as [|[|[|p]]]; [vm_compute; discriminate ..|]); destruct p; vm_compute; discriminate. }
  split; [vm_compute; reflexivity|]. split; [vm_compute; reflexivity|].
  change (class_voters Pa) with [0; 1; 1; 2]%nat.
  split; [split; [apply sl_take; apply sl_skip; apply sl_skip; apply sl_take; apply sl_nil|discriminate]|].
  split.
  { split; [constructor; [intros []|constructor]|]. intros p [<-|[]]. vm_compute. lia. }
  split; [discriminate|]. split; [vm_compute; discriminate|].
  intros i p Hi [<-|[]]. in_cases_a Hi; vm_compute; discriminate.
Qed.

End Ex.
