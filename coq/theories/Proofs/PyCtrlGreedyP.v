(* Proofs/PyCtrlGreedyP.v -- the REGENERATED additive fast path of the greedy rule
   (greedy_utilitarian_scheme_additive of pabutools/rules/greedywelfare/greedywelfare_rule.py, resolute, analytics
   off) equals the hand model [greedy_add_res] of Model/GreedyRule.v that Props/C03.v is about.
   Statements re-exported by Props/C03gen.v.  Independent of the C09 / C19 proofs. *)
From Coq Require Import String.
From PB Require Import Model.PyCtrlPrims Generated.PyCtrl Proofs.PyCtrlLib Model.GreedyRule.
Open Scope Q_scope.

(* ---------- sorting: only comparisons "earlier element vs later element" are ever made ---------- *)
Lemma insert_ext_in {A} (leb1 leb2 : A -> A -> bool) x s :
  (forall y, In y s -> leb1 x y = leb2 x y) -> insert leb1 x s = insert leb2 x s.
Proof.
  induction s as [|y t IH]; intros H; [reflexivity|]. cbn [insert].
  rewrite (H y (or_introl eq_refl)). destruct (leb2 x y); [reflexivity|]. f_equal. apply IH.
  intros z Hz. apply H. right. exact Hz.
Qed.

Lemma isort_ext_later {A} (leb1 leb2 : A -> A -> bool) : forall l,
  (forall l1 x l2 y, l = l1 ++ x :: l2 -> In y l2 -> leb1 x y = leb2 x y) ->
  isort leb1 l = isort leb2 l.
Proof.
  induction l as [|x r IH]; intros H; [reflexivity|]. unfold isort. cbn [fold_right]. fold (isort leb1 r). fold (isort leb2 r).
  rewrite IH.
  - apply insert_ext_in. intros y Hy. apply (H [] x r y eq_refl). apply (isort_In leb2 r y). exact Hy.
  - intros l1 x' l2 y E Hy. apply (H (x :: l1) x' l2 y); [rewrite E; reflexivity|exact Hy].
Qed.

Lemma Qx_leb_ltb_eqb a b : Qx_leb b a = Qx_ltb b a || Qx_eqb a b.
Proof.
  unfold Qx_ltb. destruct a as [x|], b as [y|]; cbn; try reflexivity.
  destruct (Qleb x y) eqn:E1, (Qleb y x) eqn:E2; cbn.
  - symmetry. apply Qeqb_iff. apply Qleb_iff in E1, E2. lra.
  - symmetry. apply Qeqb_false_iff. apply Qleb_iff in E1. apply Qleb_false_iff in E2. lra.
  - reflexivity.
  - exfalso. apply Qleb_false_iff in E1, E2. lra.
Qed.

Lemma index_of_app_lt l1 x l2 y : NoDup (l1 ++ x :: l2) -> In y l2 ->
  (py_index_of (l1 ++ x :: l2) x < py_index_of (l1 ++ x :: l2) y)%nat.
Proof.
  induction l1 as [|a l1 IH]; intros Hnd Hy.
  - cbn [app py_index_of]. rewrite Nat.eqb_refl.
    inversion Hnd as [|? ? Hx _]; subst. destruct (Nat.eqb x y) eqn:E; [|lia].
    apply Nat.eqb_eq in E. subst. contradiction.
  - cbn [app py_index_of]. inversion Hnd as [|? ? Ha Hnd']; subst.
    assert (Nat.eqb a x = false).
    { apply Nat.eqb_neq. intros ->. apply Ha. apply in_app_iff. right. left. reflexivity. }
    assert (Nat.eqb a y = false).
    { apply Nat.eqb_neq. intros ->. apply Ha. apply in_app_iff. right. right. exact Hy. }
    rewrite H, H0. specialize (IH Hnd' Hy). lia.
Qed.

Lemma last_index_of_app_lt l1 x l2 y : NoDup (l1 ++ x :: l2) -> In y l2 ->
  (py_last_index_of (l1 ++ x :: l2) x < py_last_index_of (l1 ++ x :: l2) y)%nat.
Proof.
  induction l1 as [|a l1 IH]; intros Hnd Hy.
  - cbn [app py_last_index_of]. inversion Hnd as [|? ? Hx _]; subst.
    assert (memb x l2 = false) by (destruct (memb x l2) eqn:E; [apply memb_In in E; contradiction|reflexivity]).
    assert (memb y l2 = true) by (apply memb_In; exact Hy).
    rewrite H, H0. lia.
  - cbn [app py_last_index_of]. inversion Hnd as [|? ? Ha Hnd']; subst.
    assert (memb x (l1 ++ x :: l2) = true) by (apply memb_In, in_app_iff; right; left; reflexivity).
    assert (memb y (l1 ++ x :: l2) = true) by (apply memb_In, in_app_iff; right; right; exact Hy).
    rewrite H, H0. specialize (IH Hnd' Hy). lia.
Qed.

(* THE SORT-KEY LEMMA: on a duplicate-free list, sorting by (-k, position) is the stable sort by decreasing k *)
Theorem sorted_neg_then_index {k : proj -> Qx} (ix : list proj -> proj -> nat) (l : list proj) :
  (forall l1 x l2 y, l = l1 ++ x :: l2 -> In y l2 -> (ix l x < ix l y)%nat) ->
  py_sorted_neg_then k (ix l) l = py_sorted_neg k l.
Proof.
  intros Hix. unfold py_sorted_neg_then, py_sorted_neg. apply isort_ext_later.
  intros l1 x l2 y E Hy. specialize (Hix l1 x l2 y E Hy).
  assert (El : Nat.leb (ix l x) (ix l y) = true) by (apply Nat.leb_le; lia).
  rewrite El, andb_true_r. symmetry. apply Qx_leb_ltb_eqb.
Qed.

Corollary sort_key_nodup (k : proj -> Qx) (l : list proj) : NoDup l ->
  py_sorted_neg_then k (py_index_of l) l = py_sorted_neg k l /\
  py_sorted_neg_then k (py_last_index_of l) l = py_sorted_neg k l.
Proof.
  intros Hnd. split; apply sorted_neg_then_index; intros l1 x l2 y E Hy; rewrite E in *.
  - apply index_of_app_lt; assumption.
  - apply last_index_of_app_lt; assumption.
Qed.

Lemma py_sorted_neg_ext {A} (k k' : A -> Qx) (l : list A) :
  (forall p, k p = k' p) -> py_sorted_neg k l = py_sorted_neg k' l.
Proof.
  intros H. unfold py_sorted_neg. apply isort_ext_later. intros l1 x l2 y _ _. rewrite !H. reflexivity.
Qed.

(* ---------- `for p in init: projects.remove(p)` ---------- *)
Lemma py_remove_spec l x : NoDup l ->
  py_remove l x = if memb x l then Some (filter (fun p => negb (Nat.eqb p x)) l) else None.
Proof.
  induction l as [|y r IH]; intros Hnd; [reflexivity|]. inversion Hnd as [|? ? Hy Hr]; subst.
  cbn [py_remove memb existsb filter]. rewrite (Nat.eqb_sym x y). destruct (Nat.eqb y x) eqn:E; cbn [negb orb].
  - apply Nat.eqb_eq in E. subst. f_equal. symmetry. apply Argmax.filter_all_true.
    intros z Hz. apply negb_true_iff, Nat.eqb_neq. intros ->. contradiction.
  - rewrite (IH Hr). fold (memb x r). destruct (memb x r); reflexivity.
Qed.

(* the initial allocation can be removed: its projects are distinct projects of the list *)
Fixpoint removable (init l : list proj) : bool :=
  match init with
  | [] => true
  | x :: r => memb x l && removable r (filter (fun p => negb (Nat.eqb p x)) l)
  end.

Lemma removable_iff init : forall l, removable init l = true <-> NoDup init /\ incl init l.
Proof.
  induction init as [|x r IH]; intros l; cbn [removable].
  - split; [intros _; split; [constructor|intros ? []]|reflexivity].
  - rewrite andb_true_iff, memb_In, IH. split.
    + intros [Hx [Hnd Hi]]. split.
      * constructor; [|exact Hnd]. intros Hr. apply Hi, filter_In in Hr. destruct Hr as [_ Hr].
        rewrite Nat.eqb_refl in Hr. discriminate.
      * intros z [<-|Hz]; [exact Hx|]. apply Hi, filter_In in Hz. tauto.
    + intros [Hnd Hi]. inversion Hnd as [|? ? Hx Hr]; subst. split; [apply Hi; left; reflexivity|].
      split; [exact Hr|]. intros z Hz. apply filter_In. split; [apply Hi; right; exact Hz|].
      apply negb_true_iff, Nat.eqb_neq. intros ->. contradiction.
Qed.

Lemma filter_filter_remove (x : proj) r l :
  filter (fun p => negb (memb p r)) (filter (fun p => negb (Nat.eqb p x)) l) = filter (fun p => negb (memb p (x :: r))) l.
Proof.
  induction l as [|y l IH]; [reflexivity|]. cbn [filter memb existsb].
  destruct (Nat.eqb y x) eqn:E; cbn [negb orb filter]; [exact IH|].
  fold (memb y r). destruct (memb y r); cbn [negb]; rewrite IH; reflexivity.
Qed.

Lemma remove_loop {R} (F : list proj -> proj -> py_flow (list proj) (py_res R)) :
  (forall l x, F l x = match py_remove l x with None => Exit (Raise "ValueError") | Some t => Next t end) ->
  forall init l, NoDup l ->
  py_for F init l = if removable init l then inl (filter (fun p => negb (memb p init)) l) else inr (Raise "ValueError").
Proof.
  intros HF. induction init as [|x r IH]; intros l Hnd.
  - cbn. symmetry. f_equal. apply Argmax.filter_all_true. reflexivity.
  - rewrite py_for_cons, HF, (py_remove_spec l x Hnd). cbn [removable].
    destruct (memb x l); cbn [andb]; [|reflexivity].
    rewrite IH by (apply NoDup_filter; exact Hnd). rewrite filter_filter_remove. reflexivity.
Qed.

(* ---------- the single pass ---------- *)
Lemma add_pass_loop {R} (I : inst) (F : list proj * Q -> proj -> py_flow (list proj * Q) R) :
  (forall sel rem p, F (sel, rem) p =
     Next (if Qleb (cost I p) rem then (sel ++ [p], rem - cost I p) else (sel, rem))) ->
  forall l sel rem, exists rem', py_for F l (sel, rem) = inl (sel ++ add_pass I l rem, rem').
Proof.
  intros HF. induction l as [|p l IH]; intros sel rem.
  - exists rem. cbn. rewrite app_nil_r. reflexivity.
  - rewrite py_for_cons, HF. cbn [add_pass]. destruct (Qleb (cost I p) rem).
    + destruct (IH (sel ++ [p]) (rem - cost I p)) as [rem' E]. exists rem'. rewrite E, <- app_assoc. reflexivity.
    + apply IH.
Qed.

Lemma add_pass_loop_swapped {R} (I : inst) (F : Q * list proj -> proj -> py_flow (Q * list proj) R) :
  (forall sel rem p, F (rem, sel) p =
     Next (if Qleb (cost I p) rem then (rem - cost I p, sel ++ [p]) else (rem, sel))) ->
  forall l sel rem, exists rem', py_for F l (rem, sel) = inl (rem', sel ++ add_pass I l rem).
Proof.
  intros HF. induction l as [|p l IH]; intros sel rem.
  - exists rem. cbn. rewrite app_nil_r. reflexivity.
  - rewrite py_for_cons, HF. cbn [add_pass]. destruct (Qleb (cost I p) rem).
    + destruct (IH (sel ++ [p]) (rem - cost I p)) as [rem' E]. exists rem'. rewrite E, <- app_assoc. reflexivity.
    + apply IH.
Qed.

Lemma name_sort_all I : py_sorted_projects (py_instance_iter I) = all_projects I.
Proof.
  unfold py_sorted_projects, py_instance_iter, name_sort, all_projects. generalize (nproj I) 0%nat.
  induction n as [|n IH]; intros k; [reflexivity|]. cbn [seq]. unfold isort. cbn [fold_right].
  fold (isort Nat.leb (seq (S k) n)). rewrite IH. destruct n; [reflexivity|]. cbn [seq insert].
  replace (Nat.leb k (S k)) with true by (symmetry; apply Nat.leb_le; lia). reflexivity.
Qed.

Section GreedyAdd.
Context {SC : Type}.

Theorem gen_greedy_add_eq (I : inst) (prof : py_cprofile SC) (sp : proj -> Q) (init : py_alloc) (tb : proj -> Q) :
  gen_greedy_utilitarian_scheme_additive I prof sp init tb =
  if removable init (all_projects I) then Ok (greedy_add_res I sp tb init) else Raise "ValueError".
Proof.
  unfold gen_greedy_utilitarian_scheme_additive. cbv zeta. rewrite name_sort_all.
  erewrite remove_loop; [|intros; reflexivity|apply seq_NoDup].
  destruct (removable init (all_projects I)); [|reflexivity].
  set (cands := tb_order_of_key tb (filter (fun p : proj => negb (memb p init)) (all_projects I))).
  assert (Hnd : NoDup cands).
  { unfold cands, tb_order_of_key, tie_order. eapply Permutation.Permutation_NoDup; [apply isort_perm|].
    apply NoDup_filter, seq_NoDup. }
  (* the sort key: (-density, position) on a duplicate-free list = stable sort by decreasing density *)
  try rewrite (sorted_neg_then_index py_index_of cands)
    by (intros l1 x l2 y E Hy; rewrite E in *; apply index_of_app_lt; assumption).
  try rewrite (sorted_neg_then_index py_last_index_of cands)
    by (intros l1 x l2 y E Hy; rewrite E in *; apply last_index_of_app_lt; assumption).
  match goal with
  | |- match py_for ?F (py_sorted_neg ?k cands) _ with _ => _ end = _ =>
      assert (Ek : py_sorted_neg k cands = dens_order I sp cands) by
        (apply py_sorted_neg_ext; intros p; cbv beta zeta;
         unfold sdens, py_gt, py_lt, py_ge, py_le, py_eq, py_ne, py_cost, frac, Qltb; py_q_cases);
      rewrite Ek; clear Ek;
      first
      [ solve [ destruct (add_pass_loop I F) with (l := dens_order I sp cands) (sel := init) (rem := budget I - py_total_cost I init)
                  as [rem' E];
                [ intros sel rem p; cbv beta iota; unfold py_le, py_ge, py_lt, py_gt, Qltb, py_cost; py_q_cases
                | match goal with |- match ?X with _ => _ end = _ =>
                    match type of E with _ = ?rhs => let H := fresh "H" in assert (H : X = rhs) by exact E; rewrite H end
                  end; reflexivity ] ]
      | solve [ destruct (add_pass_loop_swapped I F) with (l := dens_order I sp cands) (sel := init) (rem := budget I - py_total_cost I init)
                  as [rem' E];
                [ intros sel rem p; cbv beta iota; unfold py_le, py_ge, py_lt, py_gt, Qltb, py_cost; py_q_cases
                | match goal with |- match ?X with _ => _ end = _ =>
                    match type of E with _ = ?rhs => let H := fresh "H" in assert (H : X = rhs) by exact E; rewrite H end
                  end; reflexivity ] ] ]
  end.
Qed.

(* the ValueError case, spelled out *)
Theorem gen_greedy_add_raises (I : inst) (prof : py_cprofile SC) (sp : proj -> Q) (init : py_alloc) (tb : proj -> Q) :
  gen_greedy_utilitarian_scheme_additive I prof sp init tb = Raise "ValueError" <->
  ~ (NoDup init /\ incl init (all_projects I)).
Proof.
  rewrite gen_greedy_add_eq, <- removable_iff. destruct (removable init (all_projects I)).
  - split; [discriminate|]. intros H. exfalso. apply H. reflexivity.
  - split; [intros _; discriminate|reflexivity].
Qed.

Theorem gen_greedy_add_ok (I : inst) (prof : py_cprofile SC) (sp : proj -> Q) (init : py_alloc) (tb : proj -> Q) :
  NoDup init -> incl init (all_projects I) ->
  gen_greedy_utilitarian_scheme_additive I prof sp init tb = Ok (greedy_add_res I sp tb init).
Proof.
  intros H1 H2. rewrite gen_greedy_add_eq. rewrite (proj2 (removable_iff init (all_projects I)) (conj H1 H2)). reflexivity.
Qed.
End GreedyAdd.

Lemma alias_greedy_add : py_inputs_untouched gen_alias_greedy_utilitarian_scheme_additive = true.
Proof. reflexivity. Qed.
Lemma greedy_all_translated : gen_untranslated_greedy = [].
Proof. reflexivity. Qed.
