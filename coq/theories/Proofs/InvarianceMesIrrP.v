(* Proofs/InvarianceMesIrrP.v -- C13, Equal Shares, IRRESOLUTE rule: the set of returned allocations does not
   depend on the iteration order of the project set nor on the order of the voters.  From the resolute theorem
   (Proofs/InvarianceMesRunP.v) and "irresolute = the resolute outcomes of all strict tie-breaking orders"
   (property C08, Proofs/IrresoluteP.v). *)
From PB Require Import Model.MesRule Base.RankIn Proofs.IrresoluteP Proofs.MesFeasible.
From PB Require Import Proofs.InvarianceP Proofs.InvarianceMesRunP.
Open Scope Q_scope.

Lemma sort_alloc_set_eq l l' : NoDup l -> NoDup l' -> (forall p, In p l <-> In p l') -> sort_alloc l = sort_alloc l'.
Proof.
  intros H1 H2 H. change (name_sort l = name_sort l'). apply name_sort_perm_eq.
  apply NoDup_Permutation; assumption.
Qed.

Lemma with_tb_self x : x = with_tb x (mi_tb x).
Proof. destruct x. reflexivity. Qed.

Lemma valid_enum_perm x e1 e2 : valid_enum x e1 -> valid_enum x e2 -> Permutation e1 e2.
Proof.
  intros [N1 C1] [N2 C2]. apply NoDup_Permutation; [exact N1|exact N2|]. intros p. rewrite C1, C2. reflexivity.
Qed.

Lemma irr_incl x e2 P' tb' L1 L2 :
  mes_hyps x -> valid_enum x (mi_enum x) -> valid_enum x e2 -> Permutation (mi_voters x) P' ->
  mes_irresolute x = Some L1 -> mes_irresolute (with_voters (with_enum x e2) P' tb') = Some L2 ->
  incl L1 L2.
Proof.
  intros Hh H1 H2 HP E1 E2 X HX.
  pose proof Hh as (Hwf & Hv & Hnv & Hfe & Hnd & Hlt).
  set (x2 := with_voters (with_enum x e2) P' tb') in *.
  (* X is the resolute outcome under some strict order pi *)
  pose proof (mes_irr_eq_orders x Hnd (mi_tb x) L1) as Hc. rewrite <- (with_tb_self x) in Hc.
  destruct (proj1 (Hc E1 X) HX) as (pi & o & Hpi & Eo & ->).
  set (y := with_tb x (rank_in pi)) in *.
  set (y2 := with_voters (with_enum y e2) P' (rank_in pi)).
  destruct (mes_answers y2) as [o2 Eo2].
  assert (Hfeas : tcost (mi_inst y) (mi_init y) <= mi_budget y) by (destruct Hfe as (_ & _ & F); exact F).
  pose proof (mes_presentation_indep y e2 P' (rank_in pi) o o2 Hv Hfeas H1 H2 HP (fun q => Qeq_refl _) Eo Eo2)
    as Hset.
  (* both allocations are duplicate-free *)
  assert (Hhy : mes_hyps y) by exact Hh.
  assert (Hhy2 : mes_hyps y2).
  { destruct H2 as [N2 C2]. split; [exact Hwf|]. split.
    - unfold wf_voters in *. simpl. rewrite Forall_forall in *. intros v Hin. apply Hv.
      eapply Permutation_in; [symmetry; exact HP|exact Hin].
    - split; [simpl; rewrite <- (nvoters_perm _ _ HP); exact Hnv|]. split; [exact Hfe|].
      split; [exact N2|]. intros p Hp. apply C2. exact Hp. }
  destruct (mes_feasible y o Hhy Eo) as [[ND1 _] _]. destruct (mes_feasible y2 o2 Hhy2 Eo2) as [[ND2 _] _].
  rewrite (sort_alloc_set_eq _ _ ND1 ND2 Hset).
  (* and pi is a strict order of the other enumeration as well *)
  pose proof (mes_irr_eq_orders x2 (proj1 H2) tb' L2) as Hc2.
  assert (Ex2 : with_tb x2 tb' = x2) by reflexivity. rewrite Ex2 in Hc2.
  apply (proj2 (Hc2 E2 (sort_alloc (o_alloc o2)))). exists pi, o2. split; [|split; [exact Eo2|reflexivity]].
  eapply Permutation_trans; [exact Hpi|]. apply (valid_enum_perm x _ _ H1 H2).
Qed.

(* M  irresolute Equal Shares: another enumeration and another voter order give the same SET of allocations *)
Theorem mes_irresolute_presentation_indep x e2 P' tb' L1 L2 :
  mes_hyps x -> valid_enum x (mi_enum x) -> valid_enum x e2 -> Permutation (mi_voters x) P' ->
  mes_irresolute x = Some L1 -> mes_irresolute (with_voters (with_enum x e2) P' tb') = Some L2 ->
  forall X, In X L1 <-> In X L2.
Proof.
  intros Hh H1 H2 HP E1 E2 X. split; [apply (irr_incl x e2 P' tb' L1 L2 Hh H1 H2 HP E1 E2)|].
  set (x2 := with_voters (with_enum x e2) P' tb') in *.
  pose proof Hh as (Hwf & Hv & Hnv & Hfe & Hnd & Hlt).
  assert (Hh2 : mes_hyps x2).
  { destruct H2 as [N2 C2]. split; [exact Hwf|]. split.
    - unfold wf_voters in *. simpl. rewrite Forall_forall in *. intros v Hin. apply Hv.
      eapply Permutation_in; [symmetry; exact HP|exact Hin].
    - split; [simpl; rewrite <- (nvoters_perm _ _ HP); exact Hnv|]. split; [exact Hfe|].
      split; [exact N2|]. intros p Hp. apply C2. exact Hp. }
  assert (Eback : with_voters (with_enum x2 (mi_enum x)) (mi_voters x) (mi_tb x) = x) by (destruct x; reflexivity).
  apply (irr_incl x2 (mi_enum x) (mi_voters x) (mi_tb x) L2 L1 Hh2 H2 H1 (Permutation_sym HP) E2).
  rewrite Eback. exact E1.
Qed.
