(* Proofs/PyCtrlLib.v -- lemmas and rewrite-tolerant tactics used to connect the REGENERATED state-passing
   definitions of Generated/PyCtrl.v to the hand-written models (Model/Exhaustion.v, Model/Composition.v).
   - [py_for] / [py_while] basics, and the proof that [py_for] is the fold_left-with-pending-result loop pytrans writes;
   - normalisation of loop HEADERS: `for i, x in enumerate(a)` with `b[i]` inside, `for i in range(len(a))` with
     `a[i]`, `b[i]` inside, `zip(a, b)`, `enumerate(zip(a, b))` all become one loop over [combine a b];
   - validation loops (unit state) are [existsb];
   - a generic simulation lemma for the fuelled retry loop. *)
From Coq Require Import String.
From PB Require Import Model.PyCtrlPrims Model.Exhaustion Proofs.ExhaustionP.
Open Scope Q_scope.

(* ---------- py_for ---------- *)
Lemma py_for_nil {A St R} (F : St -> A -> py_flow St R) s : py_for F [] s = inl s.
Proof. reflexivity. Qed.

Lemma py_for_cons {A St R} (F : St -> A -> py_flow St R) x l s :
  py_for F (x :: l) s = match F s x with Next s' => py_for F l s' | Break s' => inl s' | Exit v => inr v end.
Proof. reflexivity. Qed.

Lemma py_for_ext {A St R} (F G : St -> A -> py_flow St R) l :
  (forall s x, In x l -> F s x = G s x) -> forall s, py_for F l s = py_for G l s.
Proof.
  induction l as [|x l IH]; intros H s; [reflexivity|].
  rewrite !py_for_cons, (H s x (or_introl eq_refl)).
  destruct (G s x); try reflexivity. apply IH. intros s' y Hy. apply H. right. exact Hy.
Qed.

Lemma py_for_map {A B St R} (F : St -> B -> py_flow St R) (g : A -> B) l : forall s,
  py_for F (map g l) s = py_for (fun s x => F s (g x)) l s.
Proof.
  induction l as [|x l IH]; intros s; [reflexivity|]. cbn [map]. rewrite !py_for_cons.
  destruct (F s (g x)); try reflexivity. apply IH.
Qed.

(* a loop without break / return is a fold_left *)
Lemma py_for_next {A St R} (f : St -> A -> St) l : forall s,
  py_for (fun s x => @Next St R (f s x)) l s = inl (fold_left f l s).
Proof. induction l as [|x l IH]; intros s; [reflexivity|]. rewrite py_for_cons. apply IH. Qed.

(* `acc = []; for x in l: acc.append(f(x))` is a map *)
Lemma py_for_append_map {A B R} (f : A -> B) (l : list A) : forall acc,
  py_for (fun (acc : list B) (x : A) => @Next (list B) R (acc ++ [f x])) l acc = inl (acc ++ map f l).
Proof.
  induction l as [|x l IH]; intros acc; [cbn; rewrite app_nil_r; reflexivity|].
  rewrite py_for_cons, IH, <- app_assoc. reflexivity.
Qed.

(* ... also when the generated state is another presentation [emb m] of the model's state m *)
Lemma py_for_sim_next {A St M R} (F : St -> A -> py_flow St R) (f : M -> A -> M) (emb : M -> St) :
  (forall m x, F (emb m) x = Next (emb (f m x))) ->
  forall l m, py_for F l (emb m) = inl (emb (fold_left f l m)).
Proof.
  intros HF. induction l as [|x l IH]; intros m; [reflexivity|]. rewrite py_for_cons, HF. apply IH.
Qed.

(* [py_for] is the loop pytrans writes: fold_left over (stop flag, pending result, state) *)
Lemma py_for_step_done {A St R} (F : St -> A -> py_flow St R) l : forall st,
  (fst (fst st) = true \/ snd (fst st) <> None) -> fold_left (py_for_step F) l st = st.
Proof.
  induction l as [|x l IH]; intros [[stop pend] s] H; [reflexivity|]. cbn [fold_left].
  assert (E : py_for_step F (stop, pend, s) x = (stop, pend, s)).
  { unfold py_for_step. destruct stop; [reflexivity|]. destruct pend; [reflexivity|].
    cbn in H. destruct H; [discriminate|congruence]. }
  rewrite E. apply IH. exact H.
Qed.

Theorem py_for_fold_left {A St R} (F : St -> A -> py_flow St R) l : forall s,
  py_for F l s = match fold_left (py_for_step F) l (false, None, s) with
                 | (_, Some v, _) => inr v
                 | (_, None, s') => inl s'
                 end.
Proof.
  induction l as [|x l IH]; intros s; [reflexivity|]. rewrite py_for_cons. cbn [fold_left].
  unfold py_for_step at 2. destruct (F s x) as [s'|s'|v].
  - apply IH.
  - rewrite py_for_step_done by (left; reflexivity). reflexivity.
  - rewrite py_for_step_done by (right; discriminate). reflexivity.
Qed.

(* ---------- enumerate ---------- *)
Definition enum_from {A} (k : nat) (l : list A) : list (nat * A) := combine (seq k (length l)) l.
Lemma enum_from_cons {A} k (x : A) l : enum_from k (x :: l) = (k, x) :: enum_from (S k) l.
Proof. reflexivity. Qed.
Lemma py_enumerate_from {A} (l : list A) : py_enumerate l = enum_from 0 l.
Proof. reflexivity. Qed.

Lemma nth_error_app_len {A} (l0 : list A) y l1 : nth_error (l0 ++ y :: l1) (length l0) = Some y.
Proof. induction l0; [reflexivity|assumption]. Qed.

(* HEADER NORMALISATION.  Canonical form: [py_for (fun s xy => G s (fst xy) (snd xy)) (combine a b) s]. *)

(* for i, x in enumerate(a): ... b[i] ... *)
Lemma py_for_enum_lookup {A B St R} (F : St -> nat * A -> py_flow St R) (G : St -> A -> B -> py_flow St R)
  (a : list A) (b : list B) :
  length a = length b ->
  (forall s i x y, py_getitem b i = Some y -> F s (i, x) = G s x y) ->
  forall s, py_for F (py_enumerate a) s = py_for (fun s xy => G s (fst xy) (snd xy)) (combine a b) s.
Proof.
  intros Hlen HF. rewrite py_enumerate_from.
  assert (Hg : forall a' b0 b', b = b0 ++ b' -> length a' = length b' ->
               forall s, py_for F (enum_from (length b0) a') s =
                         py_for (fun s xy => G s (fst xy) (snd xy)) (combine a' b') s).
  { induction a' as [|x a' IH]; intros b0 b' Eb Hl s; [reflexivity|].
    destruct b' as [|y b']; [discriminate|].
    rewrite enum_from_cons. cbn [combine]. rewrite !py_for_cons. cbn [fst snd].
    rewrite (HF s (length b0) x y) by (unfold py_getitem; rewrite Eb; apply nth_error_app_len).
    destruct (G s x y); try reflexivity.
    replace (S (length b0)) with (length (b0 ++ [y])) by (rewrite app_length; cbn; lia).
    apply IH; [rewrite <- app_assoc; exact Eb|cbn in Hl; lia]. }
  intros s. apply (Hg a [] b eq_refl Hlen).
Qed.

(* for i in range(len(a)): ... a[i] ... b[i] ... *)
Lemma py_for_range_lookup2 {A B St R} (F : St -> nat -> py_flow St R) (G : St -> A -> B -> py_flow St R)
  (a : list A) (b : list B) :
  length a = length b ->
  (forall s i x y, py_getitem a i = Some x -> py_getitem b i = Some y -> F s i = G s x y) ->
  forall s, py_for F (py_range (length a)) s = py_for (fun s xy => G s (fst xy) (snd xy)) (combine a b) s.
Proof.
  intros Hlen HF.
  assert (Hg : forall a' b' a0 b0, a = a0 ++ a' -> b = b0 ++ b' -> length a0 = length b0 -> length a' = length b' ->
               forall s, py_for F (seq (length a0) (length a')) s =
                         py_for (fun s xy => G s (fst xy) (snd xy)) (combine a' b') s).
  { induction a' as [|x a' IH]; intros b' a0 b0 Ea Eb H0 Hl s; [reflexivity|].
    destruct b' as [|y b']; [discriminate|].
    cbn [length seq combine]. rewrite !py_for_cons. cbn [fst snd].
    rewrite (HF s (length a0) x y).
    2:{ unfold py_getitem. rewrite Ea. apply nth_error_app_len. }
    2:{ unfold py_getitem. rewrite Eb, H0. apply nth_error_app_len. }
    destruct (G s x y); try reflexivity.
    replace (S (length a0)) with (length (a0 ++ [x])) by (rewrite app_length; cbn; lia).
    apply (IH b' (a0 ++ [x]) (b0 ++ [y])).
    - rewrite <- app_assoc. exact Ea.
    - rewrite <- app_assoc. exact Eb.
    - rewrite !app_length. cbn. lia.
    - cbn in Hl. lia. }
  intros s. unfold py_range. apply (Hg a b [] [] eq_refl eq_refl eq_refl Hlen).
Qed.

(* for x, y in zip(a, b) *)
Lemma py_for_zip {A B St R} (F : St -> A * B -> py_flow St R) (G : St -> A -> B -> py_flow St R) (a : list A) (b : list B) :
  (forall s x y, F s (x, y) = G s x y) ->
  forall s, py_for F (py_zip a b) s = py_for (fun s xy => G s (fst xy) (snd xy)) (combine a b) s.
Proof. intros HF s. unfold py_zip. apply py_for_ext. intros s' [x y] _. apply HF. Qed.

(* for i, (x, y) in enumerate(zip(a, b)) with an index that is not used *)
Lemma py_for_enum_noindex {A St R} (F : St -> nat * A -> py_flow St R) (G : St -> A -> py_flow St R) (l : list A) :
  (forall s i x, F s (i, x) = G s x) ->
  forall s, py_for F (py_enumerate l) s = py_for G l s.
Proof.
  intros HF. unfold py_enumerate. generalize 0%nat.
  induction l as [|x l IH]; intros k s; [reflexivity|]. cbn [length seq combine]. rewrite !py_for_cons, HF.
  destruct (G s x); try reflexivity. apply IH.
Qed.

(* for i in range(len(l)): ... l[i] ... *)
Lemma py_for_range_lookup {A St R} (F : St -> nat -> py_flow St R) (G : St -> A -> py_flow St R) (l : list A) :
  (forall s i x, py_getitem l i = Some x -> F s i = G s x) ->
  forall s, py_for F (py_range (length l)) s = py_for G l s.
Proof.
  intros HF.
  assert (Hg : forall l' l0, l = l0 ++ l' -> forall s, py_for F (seq (length l0) (length l')) s = py_for G l' s).
  { induction l' as [|x l' IH]; intros l0 E s; [reflexivity|].
    cbn [length seq]. rewrite !py_for_cons.
    rewrite (HF s (length l0) x) by (unfold py_getitem; rewrite E; apply nth_error_app_len).
    destruct (G s x); try reflexivity.
    replace (S (length l0)) with (length (l0 ++ [x])) by (rewrite app_length; cbn; lia).
    apply IH. rewrite <- app_assoc. exact E. }
  intros s. apply (Hg l [] eq_refl).
Qed.

(* ---------- validation loops: a unit-state loop that raises on the first offending element ---------- *)
Lemma py_for_check {A R} (F : unit -> A -> py_flow unit R) (c : A -> bool) (r : R) (l : list A) :
  (forall x, F tt x = if c x then Exit r else Next tt) ->
  py_for F l tt = if existsb c l then inr r else inl tt.
Proof.
  intros HF. induction l as [|x l IH]; [reflexivity|]. rewrite py_for_cons, HF. cbn [existsb].
  destruct (c x); [reflexivity|exact IH].
Qed.

Lemma existsb_enum {A} (c : A -> bool) (l : list A) : forall k,
  existsb (fun ix => c (snd ix)) (enum_from k l) = existsb c l.
Proof. induction l as [|x l IH]; intros k; [reflexivity|]. rewrite enum_from_cons. cbn. rewrite IH. reflexivity. Qed.

(* `found = False; for x in l: if c(x): found = True; break` *)
Lemma py_for_found {A R} (F : bool -> A -> py_flow bool R) (c : A -> bool) (l : list A) :
  (forall x, F false x = if c x then Break true else Next false) ->
  py_for F l false = inl (existsb c l).
Proof.
  intros HF. induction l as [|x l IH]; [reflexivity|]. rewrite py_for_cons, HF. cbn [existsb].
  destruct (c x); [reflexivity|exact IH].
Qed.
Lemma py_for_found_neg {A R} (F : bool -> A -> py_flow bool R) (c : A -> bool) (l : list A) :
  (forall x, F false x = if c x then Next false else Break true) ->
  py_for F l false = inl (existsb (fun x => negb (c x)) l).
Proof.
  intros HF. induction l as [|x l IH]; [reflexivity|]. rewrite py_for_cons, HF. cbn [existsb].
  destruct (c x); [exact IH|reflexivity].
Qed.
(* ... the same without the break *)
Lemma py_for_found_nobreak {A R} (F : bool -> A -> py_flow bool R) (c : A -> bool) (l : list A) :
  (forall b x, F b x = Next (if c x then true else b)) ->
  forall b, py_for F l b = inl (b || existsb c l).
Proof.
  intros HF. induction l as [|x l IH]; intros b; [rewrite orb_false_r; reflexivity|]. rewrite py_for_cons, HF, IH. cbn [existsb].
  destruct (c x), b; reflexivity.
Qed.
Lemma py_for_found_nobreak_neg {A R} (F : bool -> A -> py_flow bool R) (c : A -> bool) (l : list A) :
  (forall b x, F b x = Next (if c x then b else true)) ->
  forall b, py_for F l b = inl (b || existsb (fun x => negb (c x)) l).
Proof.
  intros HF. induction l as [|x l IH]; intros b; [rewrite orb_false_r; reflexivity|]. rewrite py_for_cons, HF, IH. cbn [existsb].
  destruct (c x), b; reflexivity.
Qed.
(* flag loops (`found = False; for x in l: if c(x): found = True [; break]`) -> existsb *)
Ltac py_flag_loops :=
  repeat first
    [ erewrite py_for_found; [|intros ?; reflexivity]
    | erewrite py_for_found_neg; [|intros ?; reflexivity]
    | erewrite py_for_found_nobreak; [|intros ? ?; reflexivity]
    | erewrite py_for_found_nobreak_neg; [|intros ? ?; reflexivity] ];
  cbn [orb]; cbv beta iota.

Lemma py_alloc_eqb_sym a b : py_alloc_eqb a b = py_alloc_eqb b a.
Proof.
  revert b. induction a as [|x a IH]; intros [|y b]; try reflexivity. cbn. rewrite IH, Nat.eqb_sym. reflexivity.
Qed.

(* ---------- small facts about the vocabulary ---------- *)
Lemma negb_forallb {A} (f : A -> bool) l : negb (forallb f l) = existsb (fun x => negb (f x)) l.
Proof. induction l as [|x l IH]; [reflexivity|]. cbn. rewrite negb_andb, IH. reflexivity. Qed.
Lemma negb_existsb {A} (f : A -> bool) l : negb (existsb f l) = forallb (fun x => negb (f x)) l.
Proof. induction l as [|x l IH]; [reflexivity|]. cbn. rewrite negb_orb, IH. reflexivity. Qed.

Lemma forallb_as_existsb {A} (f : A -> bool) l : forallb f l = negb (existsb (fun x => negb (f x)) l).
Proof. rewrite negb_existsb. induction l as [|x l IH]; [reflexivity|]. cbn. rewrite negb_involutive, IH. reflexivity. Qed.

Lemma existsb_negb_negb {A} (f : A -> bool) l : existsb (fun x => negb (negb (f x))) l = existsb f l.
Proof. induction l as [|x l IH]; [reflexivity|]. cbn. rewrite negb_involutive, IH. reflexivity. Qed.

Lemma py_any_map {A} (f : A -> bool) l : py_any (map f l) = existsb f l.
Proof. unfold py_any. induction l as [|x l IH]; [reflexivity|]. cbn. rewrite IH. reflexivity. Qed.
Lemma py_all_map {A} (f : A -> bool) l : py_all (map f l) = forallb f l.
Proof. unfold py_all. induction l as [|x l IH]; [reflexivity|]. cbn. rewrite IH. reflexivity. Qed.

Lemma py_alloc_eqb_model a b : py_alloc_eqb a b = Exhaustion.alloc_eqb a b.
Proof. reflexivity. Qed.
Lemma py_alloc_in_model a l : py_alloc_in a l = alloc_mem a l.
Proof.
  reflexivity.
Qed.
Lemma py_alloc_eqb_eq a b : py_alloc_eqb a b = true <-> a = b.
Proof. rewrite py_alloc_eqb_model. apply alloc_eqb_eq. Qed.

Lemma existsb_map_c {A B} (f : A -> B) (g : B -> bool) l : existsb g (map f l) = existsb (fun x => g (f x)) l.
Proof. induction l as [|x l IH]; simpl; [reflexivity|]. rewrite IH. reflexivity. Qed.

Lemma fold_left_map_c {A B C} (f : A -> B -> A) (g : C -> B) (l : list C) : forall a : A,
  fold_left f (map g l) a = fold_left (fun a x => f a (g x)) l a.
Proof. induction l as [|x l IH]; intro a; simpl; [reflexivity|apply IH]. Qed.

Lemma existsb_ext_in {A} (f g : A -> bool) l : (forall x, In x l -> f x = g x) -> existsb f l = existsb g l.
Proof.
  induction l as [|x l IH]; intros H; [reflexivity|]. cbn. rewrite (H x (or_introl eq_refl)), IH; [reflexivity|].
  intros y Hy. apply H. right. exact Hy.
Qed.

(* ---------- the fuelled retry loop ---------- *)
(* [Rel s b p]: the generated loop state s stands for the model state (budget b, previous outcome p) *)
Section WhileRetry.
  Context {St T : Type}.
  Variables (cond : St -> bool) (body : St -> py_flow St (py_res T)) (post : St -> py_res T).
  Variables (R : Q -> T) (bad exh : T -> bool) (step : Q) (contm : Q -> bool).
  Variable Rel : St -> Q -> T -> Prop.
  (* the loop ends: by its condition, or (`while True: if ...: break`) by a break *)
  Hypothesis Hstop : forall s b p, Rel s b p -> contm b = false ->
    (cond s = false /\ post s = Ok p) \/
    (cond s = true /\ exists s', body s = Break s' /\ post s' = Ok p).
  Hypothesis Hbody : forall s b p, Rel s b p -> contm b = true ->
    cond s = true /\
    ((bad (R b) = true /\ body s = Exit (Ok p)) \/
     (bad (R b) = false /\ exh (R b) = true /\ body s = Exit (Ok (R b))) \/
     (bad (R b) = false /\ exh (R b) = false /\ exists s', body s = Next s' /\ Rel s' (Qred (b + step)) (R b))).

  Lemma py_while_retry : forall fuel k s b p, Rel s b p ->
    match py_while fuel cond body s with
    | None => OutOfFuel
    | Some (inl s') => post s'
    | Some (inr r) => r
    end = match retry R bad exh step contm fuel k b p with
          | Some (_, W) => Ok W
          | None => OutOfFuel
          end.
  Proof.
    induction fuel as [|f IH]; intros k s b p H; [reflexivity|].
    cbn [py_while retry].
    destruct (contm b) eqn:Ec.
    - destruct (Hbody s b p H Ec) as [Hc [[Hb E]|[[Hb [He E]]|[Hb [He [s' [E Hr]]]]]]]; rewrite Hc, E, Hb; try rewrite He.
      + reflexivity.
      + reflexivity.
      + apply IH. exact Hr.
    - destruct (Hstop s b p H Ec) as [[Hc Hp]|[Hc [s' [E Hp]]]]; rewrite Hc.
      + exact Hp.
      + rewrite E. exact Hp.
  Qed.
End WhileRetry.

(* destructuring the state only to rebuild it *)
Lemma next_eta2 {A B R} (x : A * B) : (let '(a, b) := x in @Next (A * B) R (a, b)) = Next x.
Proof. destruct x; reflexivity. Qed.
Lemma next_eta3 {A B C R} (x : A * B * C) : (let '(a, b, c) := x in @Next (A * B * C) R (a, b, c)) = Next x.
Proof. destruct x as [[? ?] ?]; reflexivity. Qed.
Lemma next_eta4 {A B C D R} (x : A * B * C * D) : (let '(a, b, c, d) := x in @Next (A * B * C * D) R (a, b, c, d)) = Next x.
Proof. destruct x as [[[? ?] ?] ?]; reflexivity. Qed.
Ltac py_next_eta := first [ reflexivity | apply next_eta2 | apply next_eta3 | apply next_eta4 ].

(* ---------- the arguments the wrappers default, and what they validate ---------- *)
Lemma Qleb_compat a a' b b' : a == a' -> b == b' -> Qleb a b = Qleb a' b'.
Proof.
  intros Ha Hb. destruct (Qleb a b) eqn:E1, (Qleb a' b') eqn:E2; try reflexivity.
  - apply Qleb_iff in E1. apply Qleb_false_iff in E2. exfalso. rewrite Ha, Hb in E1. lra.
  - apply Qleb_iff in E2. apply Qleb_false_iff in E1. exfalso. rewrite <- Ha, <- Hb in E2. lra.
Qed.

Lemma inst_eta I : mkInst (costs I) (budget I) = I.
Proof. destruct I; reflexivity. Qed.

Lemma frac_1_100 : frac 1 100 == 1 # 100.
Proof. reflexivity. Qed.

(* the arguments the wrappers default *)
Definition kw_or_empty {X} (o : option (py_kwargs X)) : py_kwargs X := match o with None => py_no_kwargs | Some k => k end.
Definition alloc_or_empty (o : option py_alloc) : py_alloc := match o with None => [] | Some a => a end.
Definition step_or_default (I : inst) (o : option Q) : Q := match o with None => default_step I | Some s => s end.
Definition bound_or_default (I : inst) (n : nat) (o : option Q) : Q := match o with None => default_bound I n | Some s => s end.

(* a rule cannot tell 2/4 from 1/2 (Python Fractions are canonical) *)
Definition rule_proper {X T} (rule : py_rule X T) : Prop := forall k b b' a, b == b' -> rule k b a = rule k b' a.


Definition kws_or_empty {X A} (rules : list A) (o : option (list (py_kwargs X))) : list (py_kwargs X) :=
  match o with None => map (fun _ => py_no_kwargs) rules | Some p => p end.
Definition bad_lengths {A B} (a : list A) (o : option (list B)) : bool :=
  match o with None => false | Some p => negb (Nat.eqb (length a) (length p)) end.
(* a keyword dictionary that sets "resoluteness" to something else than the wrapper's own *)
Definition sets_other_res {X} (mode : bool) (p : py_kwargs X) : bool :=
  match kw_resoluteness p with Some b => negb (Bool.eqb b mode) | None => false end.

Lemma kws_length {X A} (rules : list A) (o : option (list (py_kwargs X))) :
  bad_lengths rules o = false -> length rules = length (kws_or_empty rules o).
Proof.
  destruct o as [p|]; cbn; [|rewrite map_length; reflexivity].
  intros H. apply negb_false_iff, Nat.eqb_eq in H. exact H.
Qed.


(* ---------- tactics ---------- *)
Ltac py_to_model :=
  change @py_alloc_in with @alloc_mem in *; change @py_alloc_eqb with @Exhaustion.alloc_eqb in *.

Ltac py_unfold_ctrl :=
  unfold py_is_feasible, py_is_exhaustive, py_is_exhaustive_avail, py_le, py_lt, py_ge, py_gt, py_eq, py_ne,
    py_nat_eq, py_nat_lt, py_nat_le, py_bool_eq, py_kw_has_res, py_kw_res_present, py_kw_res_get, py_is_none in *.

(* split on the first closed condition (on its first atom: under negb / && / ||) *)
Ltac py_atom c k :=
  lazymatch c with
  | negb ?d => py_atom d k
  | andb ?a _ => py_atom a k
  | orb ?a _ => py_atom a k
  | _ => k c
  end.
Ltac py_case_step :=
  match goal with
  | |- context [if ?c then _ else _] =>
      py_atom c ltac:(fun a => let E := fresh "E" in destruct a eqn:E); cbn [negb andb orb] in *
  | |- context [match ?o with Some _ => _ | None => _ end] =>
      lazymatch o with
      | nth_error _ _ => fail
      | _ => let E := fresh "E" in destruct o eqn:E
      end
  end.
Ltac py_cases := repeat (cbn [negb andb orb] in *; py_case_step); cbn [negb andb orb] in *; try discriminate; try congruence.

(* boolean comparisons of rationals in the context -> propositions for lra *)
Ltac py_bool_hyps :=
  change Qle_bool with Qleb in *; change Qeq_bool with Qeqb in *;
  repeat match goal with
         | H : negb _ = true |- _ => apply negb_true_iff in H
         | H : negb _ = false |- _ => apply negb_false_iff in H
         | H : Qleb _ _ = true |- _ => apply Qleb_iff in H
         | H : Qleb _ _ = false |- _ => apply Qleb_false_iff in H
         | H : Qeqb _ _ = true |- _ => apply Qeqb_iff in H
         | H : Qeqb _ _ = false |- _ => apply Qeqb_false_iff in H
         end.
Ltac py_q_cases := repeat py_case_step; try reflexivity; try (exfalso; py_bool_hyps; lra).

(* normalise the header of every loop in the goal into a loop over [combine a b] / over the list itself;
   [Hlen : length a = length b] must be in the context for the two-list forms *)
Ltac py_side_lookup :=
  intros; cbn beta iota zeta delta [fst snd];
  repeat match goal with
         | H : py_getitem ?l ?i = Some _ |- _ => rewrite H; clear H
         end;
  cbn beta iota zeta delta [fst snd]; reflexivity.

Ltac py_norm_headers :=
  repeat first
    [ match goal with |- context [py_enumerate _] => erewrite py_for_enum_lookup; [ | eassumption | py_side_lookup ] end
    | match goal with |- context [py_range _] => erewrite py_for_range_lookup2; [ | eassumption | py_side_lookup ] end
    | match goal with |- context [py_enumerate _] => erewrite py_for_enum_noindex; [ | py_side_lookup ] end
    | match goal with |- context [py_zip _ _] => erewrite py_for_zip; [ | py_side_lookup ] end
    | match goal with |- context [py_range _] => erewrite py_for_range_lookup; [ | py_side_lookup ] end ].

(* ---------- loops with an invariant ---------- *)
Lemma py_for_sim_inv {A St R} (F : St -> A -> py_flow St R) (f : St -> A -> St) (Inv : St -> Prop) :
  (forall s x, Inv s -> F s x = Next (f s x) /\ Inv (f s x)) ->
  forall l s, Inv s -> py_for F l s = inl (fold_left f l s) /\ Inv (fold_left f l s).
Proof.
  intros HF. induction l as [|x l IH]; intros s Hs; [split; [reflexivity|exact Hs]|].
  rewrite py_for_cons. destruct (HF s x Hs) as [E Hi]. rewrite E. apply IH. exact Hi.
Qed.

(* ---------- index lists: `for i in <indices selected by a predicate>: xs[i] += m` and `[ys[i] for i in ...]` ---------- *)
Lemma py_setitem_app_len {A} (pre : list A) s t v : py_setitem (pre ++ s :: t) (length pre) v = pre ++ v :: t.
Proof. induction pre as [|a pre IH]; [reflexivity|]. cbn. rewrite IH. reflexivity. Qed.

Lemma py_for_bump {A R} (BUMP : list Q -> nat -> py_flow (list Q) R) (m : Q) (P : A -> bool) :
  (forall sup i g, py_getitem sup i = Some g -> BUMP sup i = Next (py_setitem sup i (g + m))) ->
  forall (xs : list A) (sup : list Q), length sup = length xs ->
  py_for BUMP (map fst (filter (fun ix => P (snd ix)) (py_enumerate xs))) sup =
  inl (map (fun xs_s => if P (fst xs_s) then snd xs_s + m else snd xs_s) (combine xs sup)).
Proof.
  intros HB xs sup Hl. rewrite py_enumerate_from.
  assert (Hg : forall xs pre sup', length sup' = length xs ->
            py_for BUMP (map fst (filter (fun ix => P (snd ix)) (enum_from (length pre) xs))) (pre ++ sup') =
            inl (pre ++ map (fun xs_s => if P (fst xs_s) then snd xs_s + m else snd xs_s) (combine xs sup'))).
  { clear xs sup Hl. induction xs as [|x xs IH]; intros pre sup' Hl.
    - destruct sup'; [|discriminate]. reflexivity.
    - destruct sup' as [|s sup']; [discriminate|]. rewrite enum_from_cons. cbn [filter snd combine map fst].
      destruct (P x).
      + cbn [map fst]. rewrite py_for_cons.
        rewrite (HB (pre ++ s :: sup') (length pre) s) by (unfold py_getitem; apply nth_error_app_len).
        rewrite py_setitem_app_len.
        replace (S (length pre)) with (length (pre ++ [s + m])) by (rewrite app_length; cbn; lia).
        replace (pre ++ (s + m) :: sup') with ((pre ++ [s + m]) ++ sup') by (rewrite <- app_assoc; reflexivity).
        rewrite IH by (cbn in Hl; lia). rewrite <- app_assoc. reflexivity.
      + replace (S (length pre)) with (length (pre ++ [s])) by (rewrite app_length; cbn; lia).
        replace (pre ++ s :: sup') with ((pre ++ [s]) ++ sup') by (rewrite <- app_assoc; reflexivity).
        rewrite IH by (cbn in Hl; lia). rewrite <- app_assoc. reflexivity. }
  apply (Hg xs [] sup Hl).
Qed.

Lemma py_select {A B} (Rs : list A) (sup : list B) (Pf : nat * B -> bool) (P : B -> bool) (sel : nat * B -> option A) :
  (forall i s, Pf (i, s) = P s) -> (forall i s, sel (i, s) = py_getitem Rs i) ->
  length Rs = length sup ->
  py_all_some (map sel (filter Pf (py_enumerate sup))) =
  Some (map fst (filter (fun rs => P (snd rs)) (combine Rs sup))).
Proof.
  intros HP Hsel Hl. rewrite py_enumerate_from.
  assert (H : forall sup Rs' pre, length Rs' = length sup -> Rs = pre ++ Rs' ->
            py_all_some (map sel (filter Pf (enum_from (length pre) sup))) =
            Some (map fst (filter (fun rs => P (snd rs)) (combine Rs' sup)))).
  { clear sup Hl. induction sup as [|s sup IH]; intros Rs' pre Hl E.
    - destruct Rs'; [|discriminate]. reflexivity.
    - destruct Rs' as [|r Rs']; [discriminate|]. rewrite enum_from_cons. cbn [filter combine snd].
      rewrite HP.
      assert (IH' := IH Rs' (pre ++ [r])). rewrite app_length in IH'. cbn [length] in IH'.
      replace (length pre + 1)%nat with (S (length pre)) in IH' by lia.
      specialize (IH' ltac:(cbn in Hl; lia) ltac:(rewrite <- app_assoc; exact E)).
      destruct (P s).
      + cbn [map fst]. rewrite Hsel. unfold py_getitem at 1. rewrite E, nth_error_app_len.
        cbn [py_all_some]. rewrite IH'. reflexivity.
      + exact IH'. }
  apply (H sup Rs [] Hl eq_refl).
Qed.

(* max over numbers that are (up to ==) natural numbers *)
Lemma Qnat_lt_inv a b : Qnat a < Qnat b -> (a < b)%nat.
Proof. unfold Qnat. rewrite <- Zlt_Qlt. lia. Qed.
Lemma Qnat_le_inv a b : Qnat a <= Qnat b -> (a <= b)%nat.
Proof. unfold Qnat. rewrite <- Zle_Qle. lia. Qed.
Lemma Qnat_eqb a b : Qeqb (Qnat a) (Qnat b) = Nat.eqb a b.
Proof.
  destruct (Nat.eqb a b) eqn:E.
  - apply Nat.eqb_eq in E. subst. apply Qeqb_iff. reflexivity.
  - apply Nat.eqb_neq in E. apply Qeqb_false_iff. intros H. apply E.
    unfold Qnat, Qeq in H. cbn in H. lia.
Qed.
Lemma py_max2_nat a b na nb : a == Qnat na -> b == Qnat nb -> py_max2 a b == Qnat (Nat.max na nb).
Proof.
  intros Ha Hb. unfold py_max2. destruct (Qltb a b) eqn:E.
  - apply Qltb_iff in E. rewrite Ha, Hb in E. rewrite Hb. apply Qnat_lt_inv in E. rewrite Nat.max_r by lia. reflexivity.
  - apply Qltb_false_iff in E. rewrite Ha, Hb in E. rewrite Ha. apply Qnat_le_inv in E. rewrite Nat.max_l by lia. reflexivity.
Qed.
