(* Proofs/IlpAllocP.v -- the irresolute ILP max-welfare scheme at the level of allocations (project
   lists): relative to an exact 0/1 solver, [ilp_scheme ... false] returns exactly the welfare-maximal
   feasible allocations extending [init], each once (also as a set).  Lifts
   [IlpCutP.ilp_enumeration] from 0/1 vectors through [select vars x ++ init]. *)
From PB Require Import Model.MaxWelfare Oracle.C04 Proofs.InstanceP Proofs.WelfareBFP Proofs.KnapsackP Proofs.MaxWelfareP Proofs.IlpCutP.
Open Scope Q_scope.

Lemma NoDup_map_inj_on {A B} (f : A -> B) (l : list A) :
  (forall a b, In a l -> In b l -> f a = f b -> a = b) -> NoDup l -> NoDup (map f l).
Proof.
  induction l as [|a l IH]; intros Hinj Hnd; simpl; [constructor|].
  inversion Hnd as [|a' l' Ha Hl]; subst. constructor.
  - intros Hin. apply in_map_iff in Hin. destruct Hin as [b [E Hb]].
    assert (b = a) by (apply Hinj; [right; exact Hb|left; reflexivity|exact E]).
    subst. contradiction.
  - apply IH; [|exact Hl]. intros x y Hx Hy. apply Hinj; right; assumption.
Qed.

(* ---------------------------------------------------------------------------------------------- *)
(* vectors over [ilp_vars enum init]  <->  allocations extending [init]                            *)
(* ---------------------------------------------------------------------------------------------- *)
Section Bridge.
  Variable I : inst.
  Variable score : list Q.
  Variables enum init : list proj.
  Hypothesis Henum_nd : NoDup enum.
  Hypothesis Henum : forall p, In p enum <-> (p < nproj I)%nat.
  Hypothesis Hinit_nd : NoDup init.
  Hypothesis Hincl : incl init enum.

  Local Notation vars := (ilp_vars enum init).
  Local Notation cst := (map (cost I) (ilp_vars enum init)).
  Local Notation obj := (map (score_of score) (ilp_vars enum init)).
  Local Notation alloc x := (select (ilp_vars enum init) x ++ init).

  Lemma vars_NoDup : NoDup vars.
  Proof. unfold ilp_vars. apply NoDup_filter. exact Henum_nd. Qed.

  Lemma vars_In p : In p vars <-> (p < nproj I)%nat /\ ~ In p init.
  Proof.
    unfold ilp_vars. rewrite filter_In, negb_true_iff, memb_false_In, Henum. tauto.
  Qed.

  Lemma alloc_NoDup x : NoDup (alloc x).
  Proof.
    apply NoDup_app_intro.
    - apply (sublist_NoDup _ _ _ (select_sublist vars x)). exact vars_NoDup.
    - exact Hinit_nd.
    - intros p Hp Hi. apply select_In_vars in Hp. apply vars_In in Hp. tauto.
  Qed.

  Lemma alloc_range x p : In p (alloc x) -> (p < nproj I)%nat.
  Proof.
    intros Hp. apply in_app_or in Hp. destruct Hp as [Hp|Hp].
    - apply select_In_vars in Hp. apply vars_In in Hp. tauto.
    - apply Henum. apply Hincl. exact Hp.
  Qed.

  Lemma alloc_incl x : incl init (alloc x).
  Proof. intros p Hp. apply in_or_app. right. exact Hp. Qed.

  Lemma alloc_tcost x : length x = length vars ->
    tcost I (alloc x) == dot cst x + tcost I init.
  Proof. intros H. rewrite tcost_app, (select_tcost I vars x H). reflexivity. Qed.

  Lemma alloc_welfare x : length x = length vars ->
    welfare score (alloc x) == dot obj x + welfare score init.
  Proof. intros H. rewrite welfare_app, (select_welfare score vars x H). reflexivity. Qed.

  Lemma alloc_feasible x : length x = length vars ->
    (feasible I (alloc x) <-> dot cst x <= budget I - tcost I init).
  Proof.
    intros H. pose proof (alloc_tcost x H) as E. unfold feasible. split.
    - intros [_ [_ Hc]]. lra.
    - intros Hc. split; [apply alloc_NoDup|]. split; [apply alloc_range|]. lra.
  Qed.

  Lemma vec_of_alloc W : feasible I W -> incl init W ->
    exists x, length x = length vars /\ Permutation W (alloc x).
  Proof.
    intros Hf Hi. destruct (extends_normal_form I init W Hinit_nd Hf Hi) as [S [HS HP]].
    assert (Hperm : Permutation (rest_projects I init) vars).
    { apply NoDup_Permutation; [apply rest_projects_NoDup|exact vars_NoDup|].
      intros p. rewrite rest_projects_In, vars_In. tauto. }
    destruct (sublist_perm_transfer _ _ Hperm S HS) as [S0 [HS0 HP0]].
    destruct (select_sublist_conv vars S0 HS0) as [x [Hx Hsel]].
    exists x. split; [exact Hx|]. rewrite Hsel.
    rewrite HP. rewrite Permutation_app_comm. apply Permutation_app_tail. exact HP0.
  Qed.

  Lemma vec_of_alloc_full W : feasible I W -> incl init W ->
    exists x, length x = length vars /\ Permutation W (alloc x) /\
              dot cst x <= budget I - tcost I init /\
              welfare score W == dot obj x + welfare score init.
  Proof.
    intros Hf Hi. destruct (vec_of_alloc W Hf Hi) as [x [Hx HP]].
    exists x. split; [exact Hx|]. split; [exact HP|]. split.
    - destruct Hf as [_ [_ Hc]]. pose proof (tcost_perm I _ _ HP) as E1.
      pose proof (alloc_tcost x Hx) as E2. lra.
    - rewrite (welfare_perm score _ _ HP). apply alloc_welfare. exact Hx.
  Qed.

  Lemma alloc_perm_inj x1 x2 : length x1 = length vars -> length x2 = length vars ->
    Permutation (alloc x1) (alloc x2) -> x1 = x2.
  Proof.
    intros H1 H2 HP. apply Permutation_app_inv_r in HP.
    apply (select_inj vars x1 x2 vars_NoDup H1 H2). intros p. split.
    - apply Permutation_in. exact HP.
    - apply Permutation_in. apply Permutation_sym. exact HP.
  Qed.
End Bridge.

(* ---------------------------------------------------------------------------------------------- *)
(* the scheme-level theorem on allocations                                                         *)
(* ---------------------------------------------------------------------------------------------- *)
Section IlpAlloc.
  Variable solve : list Q -> list lrow -> option (list bool).
  Variable n : nat.
  Hypothesis solve_spec : forall obj rows, length obj = n ->
    match solve obj rows with
    | Some x => length x = n /\ rows_ok rows x = true /\
                (forall y, length y = n -> rows_ok rows y = true -> dot obj y <= dot obj x)
    | None => forall y, length y = n -> rows_ok rows y = false
    end.

  Theorem ilp_enumeration_allocs : forall I score enum init fuel,
    NoDup enum -> (forall p, In p enum <-> (p < nproj I)%nat) -> NoDup init -> incl init enum ->
    length (ilp_vars enum init) = n -> (2 ^ n < fuel)%nat ->
    forall x0,
    solve (map (score_of score) (ilp_vars enum init))
          [mkRow (map (cost I) (ilp_vars enum init)) SLe (budget I - tcost I init)] = Some x0 ->
    exists outs, ilp_scheme solve fuel I score enum init false = Some outs /\
      (* sound *)
      (forall W, In W outs ->
         feasible I W /\ incl init W /\
         forall W', feasible I W' -> incl init W' -> welfare score W' <= welfare score W) /\
      (* complete *)
      (forall W', feasible I W' -> incl init W' ->
         (forall W'', feasible I W'' -> incl init W'' -> welfare score W'' <= welfare score W') ->
         exists W, In W outs /\ Permutation W W') /\
      (* exactly once *)
      NoDup outs /\
      (forall W1 W2, In W1 outs -> In W2 outs -> Permutation W1 W2 -> W1 = W2).
  Proof.
    intros I score enum init fuel Hend Hen Hind Hincl Hn Hfuel x0 Hsolve.
    destruct (ilp_enumeration solve n solve_spec I score enum init fuel Hn Hfuel x0 Hsolve)
      as [acc [Hs [Hnd Hacc]]].
    exists (map (fun x => select (ilp_vars enum init) x ++ init) acc).
    split; [exact Hs|].
    assert (Hlen : forall x, In x acc -> length x = length (ilp_vars enum init)).
    { intros x Hx. apply Hacc in Hx. destruct Hx as [Hx _]. congruence. }
    split; [|split; [|split]].
    - (* sound *)
      intros W HW. apply in_map_iff in HW. destruct HW as [x [<- Hx]].
      pose proof (Hlen x Hx) as Hlx. apply Hacc in Hx. destruct Hx as [_ [Hc Hopt]].
      split; [apply (alloc_feasible I enum init Hend Hen Hind Hincl x Hlx); exact Hc|].
      split; [apply alloc_incl|].
      intros W' Hf' Hi'.
      destruct (vec_of_alloc_full I score enum init Hend Hen Hind W' Hf' Hi')
        as [x' [Hlx' [_ [Hc' Hw']]]].
      pose proof (alloc_welfare score enum init x Hlx) as Hw.
      assert (dot (map (score_of score) (ilp_vars enum init)) x'
              <= dot (map (score_of score) (ilp_vars enum init)) x) as Hle.
      { apply Hopt; [congruence|exact Hc']. }
      lra.
    - (* complete *)
      intros W' Hf' Hi' Hmax.
      destruct (vec_of_alloc_full I score enum init Hend Hen Hind W' Hf' Hi')
        as [x' [Hlx' [HP' [Hc' Hw']]]].
      exists (select (ilp_vars enum init) x' ++ init). split; [|apply Permutation_sym; exact HP'].
      apply in_map_iff. exists x'. split; [reflexivity|].
      apply Hacc. split; [congruence|]. split; [exact Hc'|].
      intros y Hy Hcy.
      assert (Hly : length y = length (ilp_vars enum init)) by congruence.
      pose proof (alloc_welfare score enum init y Hly) as Hwy.
      assert (welfare score (select (ilp_vars enum init) y ++ init) <= welfare score W') as Hle.
      { apply Hmax; [|apply alloc_incl].
        apply (alloc_feasible I enum init Hend Hen Hind Hincl y Hly). exact Hcy. }
      lra.
    - (* NoDup outs *)
      apply NoDup_map_inj_on; [|exact Hnd].
      intros a b Ha Hb E.
      apply (alloc_perm_inj enum init Hend a b (Hlen a Ha) (Hlen b Hb)).
      rewrite E. apply Permutation_refl.
    - (* distinct as sets *)
      intros W1 W2 H1 H2 HP. apply in_map_iff in H1. apply in_map_iff in H2.
      destruct H1 as [x1 [<- H1]]. destruct H2 as [x2 [<- H2]].
      rewrite (alloc_perm_inj enum init Hend x1 x2 (Hlen x1 H1) (Hlen x2 H2) HP). reflexivity.
  Qed.
End IlpAlloc.

(* closed instantiation with the brute-force solver of IlpCutP.v: no solver hypothesis left *)
Definition bf_ilp_enumeration_allocs n := ilp_enumeration_allocs (bf_solve n) n (bf_solve_spec n).
