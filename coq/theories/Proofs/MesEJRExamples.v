(* Proofs/MesEJRExamples.v -- concrete elections for Props/C14mes.v: non-vacuity of the hypotheses of the
   Equal Shares => EJR theorems, and the need for positive costs in the Cost_Sat theorem. *)
From PB Require Import Proofs.MesEJRRule Spec.JR.
Open Scope Q_scope.

(* In i [a;b;...] as a case split *)
Ltac in_cases H := simpl in H; repeat (destruct H as [H|H]; [subst|]); try contradiction.

Section Ex.
Let Pc := [mkV [1; 1; 0] 1%nat; mkV [1; 0; 1] 2%nat; mkV [0; 1; 1] 1%nat].
Let xc := mkIn [2; 3; 3] 6 Pc (key_of_list [0; 2; 1]) [2; 0; 1]%nat false [].
Let Pk := [mkV [2; 3; 0] 1%nat; mkV [2; 0; 3] 2%nat; mkV [0; 3; 3] 1%nat].
Let xk := mkIn [2; 3; 3] 6 Pk (key_of_list [0; 2; 1]) [2; 0; 1]%nat false [].
Let app (x : mes_in) := fun i p => Qltb 0 (mi_ut x i p).

Lemma ex_enum3 (p : nat) : In p [2; 0; 1]%nat <-> (p < 3)%nat.
Proof. simpl. lia. Qed.

Lemma ex_sublist : sublist [0; 2]%nat [0; 1; 1; 2]%nat.
Proof. apply sl_take. apply sl_skip. apply sl_skip. apply sl_take. apply sl_nil. Qed.

Lemma ex_card_ut : ut_approval nat (class_voters Pc) (app xc) (mi_ut xc) (fun _ => 1).
Proof.
  intros i p Hi. change (class_voters Pc) with [0; 1; 1; 2]%nat in Hi. unfold app.
  in_cases Hi; (destruct p as [|[|[|p]]]; [vm_compute; reflexivity ..|]);
    destruct p; vm_compute; reflexivity.
Qed.

Lemma ex_cost_ut : ut_approval nat (class_voters Pk) (app xk) (mi_ut xk) (cost (mi_inst xk)).
Proof.
  intros i p Hi. change (class_voters Pk) with [0; 1; 1; 2]%nat in Hi. unfold app.
  in_cases Hi; (destruct p as [|[|[|p]]]; [vm_compute; reflexivity ..|]);
    destruct p; vm_compute; reflexivity.
Qed.

Lemma ex_cohesive (x : mes_in) :
  mi_costs x = [2; 3; 3] -> mi_budget x = 6 -> class_voters (mi_voters x) = [0; 1; 1; 2]%nat ->
  (forall i, In i [0; 2]%nat -> app x i 1%nat = true) ->
  cohesive_app (mi_inst x) nat (class_voters (mi_voters x)) (app x) [0; 2]%nat [1%nat].
Proof.
  intros Ec Eb Ev Ha. rewrite Ev. split; [split; [exact ex_sublist|discriminate]|].
  split.
  { split; [constructor; [intros []|constructor]|]. intros p [<-|[]]. unfold nproj, mi_inst. simpl. rewrite Ec. simpl. lia. }
  split; [discriminate|]. split.
  { unfold large_enough, tcost, cost, mi_inst. simpl. rewrite Ec, Eb. vm_compute. discriminate. }
  intros i p Hi [<-|[]]. apply Ha. exact Hi.
Qed.

Lemma mes_ejr_examples :
  (mi_init xc = [] /\ wf_voters (mi_voters xc) /\ 0 <= mi_budget xc /\ NoDup (mi_enum xc) /\
   (forall p, In p (mi_enum xc) <-> (p < length (mi_costs xc))%nat) /\
   Forall (fun c => 0 < c) (mi_costs xc) /\
   ut_approval nat (class_voters Pc) (app xc) (mi_ut xc) (fun _ => 1) /\
   option_map o_alloc (mes_resolute xc) = Some [0; 2]%nat /\
   cohesive_app (mi_inst xc) nat (class_voters Pc) (app xc) [0; 2]%nat [1%nat]) /\
  (mi_init xk = [] /\ wf_voters (mi_voters xk) /\ 0 <= mi_budget xk /\ NoDup (mi_enum xk) /\
   (forall p, In p (mi_enum xk) <-> (p < length (mi_costs xk))%nat) /\
   Forall (fun c => 0 < c) (mi_costs xk) /\
   ut_approval nat (class_voters Pk) (app xk) (mi_ut xk) (cost (mi_inst xk)) /\
   option_map o_alloc (mes_resolute xk) = Some [0; 2]%nat /\
   option_map o_alloc (mes_iter_resolute 20 xk 1) = Some [0; 2]%nat /\
   cohesive_app (mi_inst xk) nat (class_voters Pk) (app xk) [0; 2]%nat [1%nat]).
Proof.
  assert (Hnd : NoDup [2; 0; 1]%nat).
  { repeat constructor; simpl; intuition lia. }
  assert (Hpos : Forall (fun c => 0 < c) [2; 3; 3]).
  { repeat constructor; reflexivity. }
  split.
  - split; [reflexivity|]. split; [repeat constructor|]. split; [discriminate|]. split; [exact Hnd|].
    split; [exact ex_enum3|]. split; [exact Hpos|]. split; [exact ex_card_ut|].
    split; [vm_compute; reflexivity|].
    apply (ex_cohesive xc); try reflexivity. intros i Hi. in_cases Hi; vm_compute; reflexivity.
  - split; [reflexivity|]. split; [repeat constructor|]. split; [discriminate|]. split; [exact Hnd|].
    split; [exact ex_enum3|]. split; [exact Hpos|]. split; [exact ex_cost_ut|].
    split; [vm_compute; reflexivity|]. split; [vm_compute; reflexivity|].
    apply (ex_cohesive xk); try reflexivity. intros i Hi. in_cases Hi; vm_compute; reflexivity.
Qed.

End Ex.

(* ---------- Cost_Sat: zero-cost projects in T break "up to any" ---------- *)

Section Zero.
Let Pz := [mkV [3; 2; 0] 1%nat].
Let xz := mkIn [3; 2; 0] 3 Pz (key_of_list [1; 0; 2]) [0; 1; 2]%nat false [].
Let appz : nat -> proj -> bool := fun _ _ => true.

Lemma ex_zero_ut : ut_approval nat (class_voters Pz) appz (mi_ut xz) (cost (mi_inst xz)).
Proof.
  intros i p Hi. change (class_voters Pz) with [0%nat] in Hi. unfold appz.
  in_cases Hi. destruct p as [|[|[|p]]]; [vm_compute; reflexivity ..|].
  destruct p; vm_compute; reflexivity.
Qed.

Lemma mes_cost_needs_positive_costs : exists x approves o,
  mi_init x = [] /\ wf_voters (mi_voters x) /\ 0 <= mi_budget x /\
  NoDup (mi_enum x) /\ (forall p, In p (mi_enum x) <-> (p < length (mi_costs x))%nat) /\
  mes_outcome x o /\ Forall (fun c => 0 <= c) (mi_costs x) /\
  ut_approval nat (class_voters (mi_voters x)) approves (mi_ut x) (cost (mi_inst x)) /\
  ~ EJR_app (mi_inst x) nat (class_voters (mi_voters x)) approves (mi_ut x) UpToAny (o_alloc o).
Proof.
  destruct (mes_resolute xz) as [o|] eqn:Eo; [|vm_compute in Eo; discriminate].
  assert (Ea : o_alloc o = [1%nat]).
  { assert (E : option_map o_alloc (mes_resolute xz) = Some [1%nat]) by (vm_compute; reflexivity).
    rewrite Eo in E. simpl in E. congruence. }
  exists xz, appz, o.
  split; [reflexivity|]. split; [repeat constructor|]. split; [discriminate|].
  split; [repeat constructor; simpl; intuition lia|].
  split; [intro p; simpl; lia|].
  split; [left; exact Eo|].
  split; [repeat constructor; discriminate|].
  split; [exact ex_zero_ut|].
  intro H. rewrite Ea in H.
  destruct (H [0%nat] [0; 2]%nat) as [i [Hi Hu]].
  - change (class_voters (mi_voters xz)) with [0%nat].
    split; [split; [apply sl_take; apply sl_nil|discriminate]|].
    split.
    { split; [repeat constructor; simpl; intuition lia|]. intros p Hp. in_cases Hp; vm_compute; lia. }
    split; [discriminate|]. split; [vm_compute; discriminate|]. reflexivity.
  - in_cases Hi. specialize (Hu 2%nat). simpl in Hu.
    assert (Hc : sat nat (mi_ut xz) 0%nat [0; 2]%nat <= sat nat (mi_ut xz) 0%nat [1%nat] + mi_ut xz 0%nat 2%nat).
    { apply Hu; [right; left; reflexivity|]. intros [E|[]]. discriminate. }
    vm_compute in Hc. apply Hc. reflexivity.
Qed.

End Zero.
