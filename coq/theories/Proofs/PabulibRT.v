(* Proofs/PabulibRT.v -- the row-level round trip  parse_rows (write_rows e) = Some (canon e)
   for Model/PabulibM.v, and its consequences. *)
From PB Require Import Model.PabulibM Proofs.PabulibP.
From Coq Require Import Lia Permutation.
Open Scope list_scope.
Open Scope nat_scope.

(* ============================================================================================ *)
(* A. strings, membership, dictionaries                                                           *)
(* ============================================================================================ *)
Lemma str_eqb_sym a b : str_eqb a b = str_eqb b a.
Proof.
  destruct (str_eqb a b) eqn:E.
  - apply str_eqb_eq in E. subst. symmetry. apply str_eqb_refl.
  - destruct (str_eqb b a) eqn:E'; [|reflexivity]. apply str_eqb_eq in E'. subst.
    rewrite str_eqb_refl in E. discriminate.
Qed.

Lemma mem_str_In x l : mem_str x l = true <-> In x l.
Proof.
  induction l as [|y r IH]; simpl; [split; [discriminate|tauto]|].
  rewrite orb_true_iff, IH, str_eqb_eq. split; intros [H|H]; auto.
Qed.

Lemma mem_str_false x l : mem_str x l = false <-> ~ In x l.
Proof.
  rewrite <- mem_str_In. destruct (mem_str x l).
  - split; [discriminate|intros H; exfalso; apply H; reflexivity].
  - split; [intros _ H; discriminate|reflexivity].
Qed.

Lemma nodup_strb_NoDup l : nodup_strb l = true <-> NoDup l.
Proof.
  induction l as [|x r IH]; simpl; [split; [constructor|reflexivity]|].
  rewrite andb_true_iff, negb_true_iff, IH, mem_str_false. split.
  - intros [H1 H2]. constructor; assumption.
  - inversion 1; subst. split; assumption.
Qed.

Lemma lookup_In d k v : lookup k d = Some v -> In (k, v) d.
Proof.
  induction d as [|[k' v'] r IH]; simpl; [discriminate|].
  destruct (str_eqb k k') eqn:E.
  - apply str_eqb_eq in E. subst. intros [= ->]. left; reflexivity.
  - intros H. right. apply IH, H.
Qed.

Lemma lookup_None d k : lookup k d = None <-> ~ In k (keys d).
Proof.
  induction d as [|[k' v'] r IH]; simpl; [tauto|].
  destruct (str_eqb k k') eqn:E.
  - apply str_eqb_eq in E. subst. split; [discriminate|]. intros H. exfalso. apply H. left; reflexivity.
  - apply str_eqb_neq in E. rewrite IH. split.
    + intros H [H1|H1]; [congruence|auto].
    + intros H H1. apply H. right; assumption.
Qed.

Lemma lookup_Some_key d k v : lookup k d = Some v -> In k (keys d).
Proof. intros H. apply lookup_In in H. unfold keys. apply (in_map fst) in H. exact H. Qed.

Lemma In_lookup d k v : NoDup (keys d) -> In (k, v) d -> lookup k d = Some v.
Proof.
  induction d as [|[k' v'] r IH]; simpl; [tauto|]. intros Hnd [H|H].
  - injection H as -> ->. now rewrite str_eqb_refl.
  - inversion Hnd as [|? ? Hnin Hnd']; subst.
    destruct (str_eqb k k') eqn:E.
    + apply str_eqb_eq in E. subst. exfalso. apply Hnin. apply (in_map fst) in H. exact H.
    + apply IH; assumption.
Qed.

Lemma lookup_app k a b :
  lookup k (a ++ b) = match lookup k a with Some v => Some v | None => lookup k b end.
Proof.
  induction a as [|[k' v'] r IH]; simpl; [reflexivity|]. destruct (str_eqb k k'); [reflexivity|apply IH].
Qed.

Lemma keys_app a b : keys (a ++ b) = keys a ++ keys b.
Proof. unfold keys. apply map_app. Qed.

Lemma has_key_true k d : has_key k d = true <-> In k (keys d).
Proof.
  unfold has_key. destruct (lookup k d) eqn:E.
  - split; [intros _; eapply lookup_Some_key; eauto|reflexivity].
  - apply lookup_None in E. split; [discriminate|contradiction].
Qed.

Lemma has_key_false k d : has_key k d = false <-> ~ In k (keys d).
Proof.
  rewrite <- has_key_true. destruct (has_key k d).
  - split; [discriminate|intros H; exfalso; apply H; reflexivity].
  - split; [intros _ H; discriminate|reflexivity].
Qed.

Lemma dict_set_fresh k v d : ~ In k (keys d) -> dict_set k v d = d ++ [(k, v)].
Proof.
  induction d as [|[k' v'] r IH]; simpl; [reflexivity|]. intros H.
  destruct (str_eqb k k') eqn:E.
  - apply str_eqb_eq in E. subst. exfalso. apply H. left; reflexivity.
  - rewrite IH; [reflexivity|]. intros H1. apply H. right; assumption.
Qed.

Lemma lookup_filter_key (P : str -> bool) k d :
  lookup k (filter (fun kv => P (fst kv)) d) = if P k then lookup k d else None.
Proof.
  induction d as [|[k' v'] r IH]; simpl; [destruct (P k); reflexivity|].
  destruct (P k') eqn:EP; simpl.
  - destruct (str_eqb k k') eqn:E.
    + apply str_eqb_eq in E. subst. now rewrite EP.
    + exact IH.
  - destruct (str_eqb k k') eqn:E.
    + apply str_eqb_eq in E. subst. rewrite EP in *. exact IH.
    + exact IH.
Qed.

Lemma keys_filter_sub (f : str * str -> bool) d k : In k (keys (filter f d)) -> In k (keys d).
Proof.
  unfold keys. rewrite !in_map_iff. intros [x [Hx Hin]]. apply filter_In in Hin as [Hin _]. eauto.
Qed.

Lemma NoDup_keys_filter (f : str * str -> bool) d : NoDup (keys d) -> NoDup (keys (filter f d)).
Proof.
  induction d as [|[k v] r IH]; simpl; [auto|]. inversion 1 as [|? ? Hnin Hnd]; subst.
  destruct (f (k, v)); simpl; [constructor|]; auto.
  intros Hin. apply Hnin. eapply keys_filter_sub; eauto.
Qed.

(* folding assignments over a dictionary with fresh keys appends them *)
Lemma fold_dict_set d : forall m,
  NoDup (keys (m ++ d)) ->
  fold_left (fun m kv => dict_set (fst kv) (snd kv) m) d m = m ++ d.
Proof.
  induction d as [|[k v] r IH]; intros m H; simpl; [now rewrite app_nil_r|].
  rewrite dict_set_fresh.
  - rewrite IH; rewrite <- app_assoc; [reflexivity|exact H].
  - rewrite keys_app in H. apply NoDup_remove_2 in H. intros Hin. apply H. apply in_or_app. left; exact Hin.
Qed.

(* ---- strip ---- *)
Definition head_ok (s : str) : Prop := match s with [] => True | c :: _ => is_space c = false end.
Definition last_ok (s : str) : Prop := head_ok (rev s).

Lemma lstrip_id s : head_ok s -> lstrip s = s.
Proof. destruct s as [|c r]; simpl; [reflexivity|]. intros ->. reflexivity. Qed.

Lemma lstrip_head s : head_ok (lstrip s).
Proof. induction s as [|c r IH]; simpl; [exact I|]. destruct (is_space c) eqn:E; [exact IH|exact E]. Qed.

Lemma lstrip_length s : List.length (lstrip s) <= List.length s.
Proof. induction s as [|c r IH]; simpl; [lia|]. destruct (is_space c); simpl; lia. Qed.

Lemma strip_length s : List.length (strip s) <= List.length s.
Proof.
  unfold strip. rewrite rev_length. etransitivity; [apply lstrip_length|].
  rewrite rev_length. apply lstrip_length.
Qed.

Lemma stripped_intro s : head_ok s -> last_ok s -> strip s = s.
Proof.
  intros H1 H2. unfold strip. rewrite (lstrip_id s H1). rewrite (lstrip_id (rev s) H2). apply rev_involutive.
Qed.

Lemma stripped_head s : strip s = s -> head_ok s.
Proof.
  destruct s as [|c r]; [intros; exact I|]. intros H. simpl.
  destruct (is_space c) eqn:E; [|reflexivity]. exfalso.
  assert (L : List.length (strip (c :: r)) <= List.length r).
  { unfold strip. simpl lstrip. rewrite E. apply (strip_length r). }
  rewrite H in L. simpl in L. lia.
Qed.

Lemma stripped_last s : strip s = s -> last_ok s.
Proof.
  intros H. unfold last_ok. unfold strip in H.
  assert (E : lstrip (rev (lstrip s)) = rev s).
  { rewrite <- (rev_involutive (lstrip (rev (lstrip s)))). rewrite H. reflexivity. }
  rewrite <- E. apply lstrip_head.
Qed.

Lemma stripped_iff s : stripped s = true <-> head_ok s /\ last_ok s.
Proof.
  unfold stripped. rewrite str_eqb_eq. split.
  - intros H. split; [apply stripped_head|apply stripped_last]; assumption.
  - intros [H1 H2]. apply stripped_intro; assumption.
Qed.

Lemma strip_of_stripped s : stripped s = true -> strip s = s.
Proof. unfold stripped. apply str_eqb_eq. Qed.

Lemma strip_nonblank c r : is_space c = false -> strip (c :: r) <> [].
Proof.
  intros Hc H. pose proof (lstrip_head (rev (lstrip (c :: r)))) as Hh.
  unfold strip in H. apply (f_equal (@rev ascii)) in H. rewrite rev_involutive in H. simpl rev in H.
  simpl lstrip in H. rewrite Hc in H.
  (* lstrip (rev r ++ [c]) = [] is impossible *)
  clear Hh. simpl rev in H. revert H. generalize (rev r). intros l.
  induction l as [|x l IH]; simpl.
  - rewrite Hc. discriminate.
  - destruct (is_space x); [exact IH|discriminate].
Qed.

(* joined lists of stripped items are stripped *)
Lemma head_ok_app a b : head_ok a -> (a = [] -> head_ok b) -> head_ok (a ++ b).
Proof. destruct a; simpl; auto. Qed.

Lemma head_ok_join l : Forall head_ok l -> head_ok (join_with c_comma l).
Proof.
  induction 1 as [|x r Hx Hr IH]; simpl; [exact I|].
  destruct r as [|y r]; [exact Hx|]. apply head_ok_app; [exact Hx|]. intros _. reflexivity.
Qed.

Lemma last_ok_join l : Forall last_ok l -> last_ok (join_with c_comma l).
Proof.
  induction 1 as [|x r Hx Hr IH]; simpl; [exact I|].
  destruct r as [|y r]; [exact Hx|]. unfold last_ok in *.
  rewrite rev_app_distr. simpl rev at 1. rewrite <- app_assoc.
  apply head_ok_app; [exact IH|]. intros _. simpl. reflexivity.
Qed.

Lemma stripped_join l : Forall (fun x => stripped x = true) l -> stripped (join_with c_comma l) = true.
Proof.
  intros H. apply stripped_iff. split.
  - apply head_ok_join. eapply Forall_impl; [|exact H]. intros x Hx. apply stripped_iff in Hx. tauto.
  - apply last_ok_join. eapply Forall_impl; [|exact H]. intros x Hx. apply stripped_iff in Hx. tauto.
Qed.

(* a cell that reads as None contains no comma *)
Lemma none_cell_no_comma s : stripped s = true -> is_none_cell s = true -> ~ In c_comma s.
Proof.
  intros Hs Hn Hin. unfold is_none_cell in Hn. rewrite (strip_of_stripped s Hs) in Hn.
  apply str_eqb_eq in Hn. apply (in_map lower_ascii) in Hin. unfold lower in Hn. rewrite Hn in Hin.
  vm_compute in Hin. repeat (destruct Hin as [Hin|Hin]; [discriminate Hin|]). exact Hin.
Qed.

Lemma join_not_none l :
  Forall (fun x => stripped x = true) l -> Forall (fun x => is_none_cell x = false) l ->
  is_none_cell (join_with c_comma l) = false.
Proof.
  intros Hs Hn. destruct l as [|x [|y r]].
  - reflexivity.
  - simpl. inversion Hn; assumption.
  - destruct (is_none_cell (join_with c_comma (x :: y :: r))) eqn:E; [|reflexivity]. exfalso.
    apply (none_cell_no_comma _ (stripped_join _ Hs) E).
    change (join_with c_comma (x :: y :: r)) with (x ++ c_comma :: join_with c_comma (y :: r)).
    apply in_or_app. right. left. reflexivity.
Qed.

Lemma no_comma_no_char s : no_comma s = true -> no_char c_comma s.
Proof.
  unfold no_comma, no_char. rewrite negb_true_iff. intros H. apply Forall_forall. intros x Hx.
  destruct (Ascii.eqb x c_comma) eqn:E; [|reflexivity]. apply Ascii.eqb_eq in E. subst.
  assert (existsb (Ascii.eqb c_comma) s = true).
  { apply existsb_exists. exists c_comma. split; [assumption|apply Ascii.eqb_refl]. }
  congruence.
Qed.

Lemma replace_comma_id s : no_comma s = true -> replace_comma s = s.
Proof.
  intros H. apply no_comma_no_char in H. unfold replace_comma. induction H as [|x r Hx Hr IH]; simpl; [reflexivity|].
  rewrite Hx, IH. reflexivity.
Qed.

Lemma map_strip_id l : Forall (fun x => stripped x = true) l -> map strip l = l.
Proof. induction 1 as [|x r Hx Hr IH]; simpl; [reflexivity|]. now rewrite (strip_of_stripped x Hx), IH. Qed.

Lemma dedup_id l : nodup_strb l = true -> dedup l = l.
Proof.
  induction l as [|x r IH]; simpl; [reflexivity|]. rewrite andb_true_iff, negb_true_iff.
  intros [H1 H2]. rewrite H1, IH; auto.
Qed.

Lemma dedup_first_id l : forall seen,
  NoDup l -> (forall x, In x l -> ~ In x seen) -> dedup_first seen l = l.
Proof.
  induction l as [|x r IH]; intros seen Hnd Hs; simpl; [reflexivity|].
  inversion Hnd as [|? ? Hnin Hnd']; subst.
  assert (E : mem_str x seen = false) by (apply mem_str_false, Hs; left; reflexivity).
  rewrite E. f_equal. apply IH; [assumption|].
  intros y Hy [Hy1|Hy1]; [subst; contradiction|]. apply (Hs y); [right; assumption|assumption].
Qed.

(* ============================================================================================ *)
(* B. the parser loop on the three written blocks                                                 *)
(* ============================================================================================ *)
Section RoundTrip.
Variable show_num : Q -> str.
Variable read_num : str -> option Q.
Variable show_nat : nat -> str.
Variable read_nat : str -> option nat.

(* the number text the writer produces reads back, is a clean cell, and (rationals) has no comma *)
Hypothesis num_text : forall q, Qcanon q = true ->
  read_num (show_num q) = Some q /\ cell_ok (show_num q) = true /\ no_comma (show_num q) = true
  /\ show_num q <> [].
Hypothesis nat_text : forall n,
  read_nat (show_nat n) = Some n /\ cell_ok (show_nat n) = true /\ not_keyword (show_nat n) = true.

Local Notation parse_loop := (PabulibM.parse_loop read_num).
Local Notation parse_project_row := (PabulibM.parse_project_row read_num).
Local Notation parse_vote_row := (PabulibM.parse_vote_row read_num).
Local Notation project_dict := (PabulibM.project_dict show_num).
Local Notation vote_dict := (PabulibM.vote_dict show_num show_nat).
Local Notation write_meta := (PabulibM.write_meta show_num show_nat).
Local Notation slots := (PabulibM.slots show_num show_nat).

Lemma cell_ok_iff s : cell_ok s = true <-> stripped s = true /\ is_none_cell s = false.
Proof. unfold cell_ok. rewrite andb_true_iff, negb_true_iff. tauto. Qed.

Lemma not_keyword_section s : not_keyword s = true -> section_of s = None.
Proof. unfold not_keyword. destruct (section_of s); [discriminate|reflexivity]. Qed.

(* ---- one step of the loop ---- *)
Lemma loop_section sec h st c0 t hdr rest sec' :
  is_blank_row (c0 :: t) = false -> section_of c0 = Some sec' ->
  parse_loop sec h st ((c0 :: t) :: hdr :: rest) = parse_loop sec' hdr st rest.
Proof. intros H1 H2. cbn [PabulibM.parse_loop]. rewrite H1, H2. reflexivity. Qed.

Lemma loop_meta h st k v t rest :
  section_of k = None ->
  parse_loop SecMeta h st ((k :: v :: t) :: rest)
  = parse_loop SecMeta h (mkPstate (dict_set (strip k) (strip v) (ps_meta st)) (ps_projects st) (ps_ballots st)) rest.
Proof. intros H. cbn [PabulibM.parse_loop is_blank_row]. rewrite H. reflexivity. Qed.

Lemma loop_project h st c0 c1 t rest p :
  section_of c0 = None -> parse_project_row h (c0 :: c1 :: t) = Some p ->
  parse_loop SecProjects h st ((c0 :: c1 :: t) :: rest)
  = parse_loop SecProjects h (mkPstate (ps_meta st) (add_project p (ps_projects st)) (ps_ballots st)) rest.
Proof. intros H1 H2. cbn [PabulibM.parse_loop is_blank_row]. rewrite H1, H2. reflexivity. Qed.

Lemma loop_vote h st c0 c1 t rest b :
  section_of c0 = None -> parse_vote_row h (ps_meta st) (ps_projects st) (c0 :: c1 :: t) = Some b ->
  parse_loop SecVotes h st ((c0 :: c1 :: t) :: rest)
  = parse_loop SecVotes h (mkPstate (ps_meta st) (ps_projects st) (ps_ballots st ++ [b])) rest.
Proof. intros H1 H2. cbn [PabulibM.parse_loop is_blank_row]. rewrite H1, H2. reflexivity. Qed.

(* ---- META block ---- *)
Definition kvrow (kv : str * str) : list str := [fst kv; snd kv].
Definition meta_entry_ok (kv : str * str) : Prop :=
  stripped (fst kv) = true /\ not_keyword (fst kv) = true /\ stripped (snd kv) = true.

Lemma loop_meta_block d : forall h st rest,
  Forall meta_entry_ok d ->
  parse_loop SecMeta h st (map kvrow d ++ rest)
  = parse_loop SecMeta h
      (mkPstate (fold_left (fun m kv => dict_set (fst kv) (snd kv) m) d (ps_meta st))
                (ps_projects st) (ps_ballots st)) rest.
Proof.
  induction d as [|[k v] r IH]; intros h st rest H.
  - simpl. destruct st; reflexivity.
  - inversion H as [|? ? (H1 & H2 & H3) Hr]; subst. simpl in H1, H2, H3.
    change (map kvrow ((k, v) :: r) ++ rest) with ([k; v] :: (map kvrow r ++ rest)).
    rewrite loop_meta by (apply not_keyword_section; assumption).
    rewrite IH by assumption. cbn [ps_meta ps_projects ps_ballots fold_left fst snd].
    rewrite (strip_of_stripped k H1), (strip_of_stripped v H3). reflexivity.
Qed.

(* ---- the writer's per-project dictionary ---- *)
Ltac kdisc :=
  first [ let E := fresh "E" in intros E; vm_compute in E; discriminate E
        | exfalso; match goal with H : ?a = ?b |- _ =>
                     let H' := fresh in assert (H' := H); vm_compute in H'; discriminate H' end ].

Definition pentry_ok (p : project) (kv : str * str) : Prop :=
  stripped (fst kv) = true
  /\ fst kv <> K_categories /\ fst kv <> K_targets
  /\ (fst kv = K_category -> snd kv = join_with c_comma (p_cats p) /\ p_cats p <> [])
  /\ (fst kv = K_target -> snd kv = join_with c_comma (p_targets p) /\ p_targets p <> [])
  /\ (fst kv <> K_category -> fst kv <> K_target -> cell_ok (snd kv) = true).

Definition pd_step (d : dict) (kv : str * str) : dict :=
  if has_key (fst kv) d || str_eqb (fst kv) K_categories || str_eqb (fst kv) K_targets then d else d ++ [kv].

Lemma NoDup_snoc (A : Type) (l : list A) x : NoDup l -> ~ In x l -> NoDup (l ++ [x]).
Proof.
  intros H1 H2. apply NoDup_rev in H1. rewrite <- (rev_involutive (l ++ [x])). apply NoDup_rev.
  rewrite rev_app_distr. simpl. constructor; [rewrite <- in_rev; exact H2|exact H1].
Qed.

Lemma pd_step_cases d kv :
  (pd_step d kv = d) \/
  (pd_step d kv = d ++ [kv] /\ ~ In (fst kv) (keys d) /\ fst kv <> K_categories /\ fst kv <> K_targets).
Proof.
  unfold pd_step.
  destruct (has_key (fst kv) d) eqn:E1; [left; reflexivity|].
  destruct (str_eqb (fst kv) K_categories) eqn:E2; [left; reflexivity|].
  destruct (str_eqb (fst kv) K_targets) eqn:E3; [left; reflexivity|].
  right. simpl. apply has_key_false in E1. apply str_eqb_neq in E2. apply str_eqb_neq in E3. auto.
Qed.

Lemma pd_fold_spec m : forall d,
  (exists t, fold_left pd_step m d = d ++ t
             /\ (forall kv, In kv t -> In kv m /\ fst kv <> K_categories /\ fst kv <> K_targets))
  /\ (NoDup (keys d) -> NoDup (keys (fold_left pd_step m d))).
Proof.
  induction m as [|kv m IH]; intros d; simpl.
  - split; [exists []; split; [now rewrite app_nil_r|simpl; tauto]|auto].
  - destruct (IH (pd_step d kv)) as [(t & Ht & Hin) Hnd].
    destruct (pd_step_cases d kv) as [E|(E & Hfresh & Hc & Ht')]; rewrite E in *.
    + split; [exists t; split; [exact Ht|intros x Hx; destruct (Hin x Hx) as (? & ? & ?); auto]|exact Hnd].
    + split.
      * exists (kv :: t). split; [rewrite Ht, <- app_assoc; reflexivity|].
        intros x [Hx|Hx]; [subst; auto|destruct (Hin x Hx) as (? & ? & ?); auto].
      * intros Hd. apply Hnd. rewrite keys_app. simpl. apply NoDup_snoc; assumption.
Qed.

Lemma wf_project_inv p : wf_project p = true ->
  cell_ok (p_name p) = true /\ not_keyword (p_name p) = true /\ no_comma (p_name p) = true
  /\ p_name p <> [] /\ Qcanon (p_cost p) = true
  /\ wf_list_items (p_cats p) = true /\ wf_list_items (p_targets p) = true
  /\ NoDup (keys (p_meta p))
  /\ (forall kv, In kv (p_meta p) ->
        stripped (fst kv) = true /\ is_list_key (fst kv) = false /\ cell_ok (snd kv) = true).
Proof.
  unfold wf_project. rewrite !andb_true_iff.
  intros ((((((((H1 & H2) & H3) & H4) & H5) & H6) & H7) & H8) & H9).
  repeat split; try assumption.
  - intros E. rewrite E in H4. discriminate.
  - apply nodup_strb_NoDup; assumption.
  - rewrite forallb_forall in H9. specialize (H9 kv H). rewrite !andb_true_iff in H9. tauto.
  - rewrite forallb_forall in H9. specialize (H9 kv H). rewrite !andb_true_iff, negb_true_iff in H9. tauto.
  - rewrite forallb_forall in H9. specialize (H9 kv H). rewrite !andb_true_iff in H9. tauto.
Qed.

Lemma is_list_key_false k : is_list_key k = false ->
  k <> K_category /\ k <> K_categories /\ k <> K_target /\ k <> K_targets.
Proof.
  unfold is_list_key. rewrite !orb_false_iff. intros (((H1 & H2) & H3) & H4).
  apply str_eqb_neq in H1, H2, H3, H4. auto.
Qed.

Lemma is_list_key_intro k :
  k <> K_category -> k <> K_categories -> k <> K_target -> k <> K_targets -> is_list_key k = false.
Proof.
  intros H1 H2 H3 H4. unfold is_list_key. apply str_eqb_neq in H1, H2, H3, H4. now rewrite H1, H2, H3, H4.
Qed.

Definition pd_base (p : project) : dict :=
  let d := [(K_project_id, p_name p); (K_cost, show_num (p_cost p))] in
  let d := match lookup K_name (p_meta p) with Some v => d ++ [(K_name, v)] | None => d end in
  let d := match p_cats p with [] => d | cs => d ++ [(K_category, join_with c_comma cs)] end in
  match p_targets p with [] => d | ts => d ++ [(K_target, join_with c_comma ts)] end.

Lemma project_dict_unfold p : project_dict p = fold_left pd_step (p_meta p) (pd_base p).
Proof. reflexivity. Qed.

Lemma pd_base_spec p : wf_project p = true ->
  NoDup (keys (pd_base p)) /\ Forall (pentry_ok p) (pd_base p)
  /\ (exists t, pd_base p = (K_project_id, p_name p) :: (K_cost, show_num (p_cost p)) :: t)
  /\ (p_cats p <> [] -> In K_category (keys (pd_base p)))
  /\ (p_targets p <> [] -> In K_target (keys (pd_base p))).
Proof.
  intros W. apply wf_project_inv in W as (Hn & _ & _ & _ & Hc & _ & _ & _ & Hm).
  destruct (num_text _ Hc) as (_ & Hcost & _ & _).
  assert (Eid : pentry_ok p (K_project_id, p_name p)).
  { unfold pentry_ok; simpl. repeat split; try reflexivity; try kdisc. intros _ _; exact Hn. }
  assert (Ecost : pentry_ok p (K_cost, show_num (p_cost p))).
  { unfold pentry_ok; simpl. repeat split; try reflexivity; try kdisc. intros _ _; exact Hcost. }
  assert (Ename : forall v, lookup K_name (p_meta p) = Some v -> pentry_ok p (K_name, v)).
  { intros v Hv. apply lookup_In in Hv. destruct (Hm _ Hv) as (_ & _ & Hv').
    unfold pentry_ok; simpl. repeat split; try reflexivity; try kdisc. intros _ _; exact Hv'. }
  assert (Ecat : p_cats p <> [] -> pentry_ok p (K_category, join_with c_comma (p_cats p))).
  { intros Hne. unfold pentry_ok; simpl. repeat split; try reflexivity; try kdisc; try assumption.
    intros H; exfalso; apply H; reflexivity. }
  assert (Etg : p_targets p <> [] -> pentry_ok p (K_target, join_with c_comma (p_targets p))).
  { intros Hne. unfold pentry_ok; simpl. repeat split; try reflexivity; try kdisc; try assumption.
    intros _ H; exfalso; apply H; reflexivity. }
  unfold pd_base.
  destruct (lookup K_name (p_meta p)) as [v|] eqn:E1;
    destruct (p_cats p) as [|c cs] eqn:E2; destruct (p_targets p) as [|t ts] eqn:E3;
    cbn [app]; (split; [apply nodup_strb_NoDup; reflexivity|]);
    (split; [|split; [eexists; reflexivity|split; intros Hne; try (exfalso; apply Hne; reflexivity);
                                              simpl; tauto]]);
    repeat (apply Forall_cons); try apply Forall_nil; try assumption;
    try (apply Ename; reflexivity);
    try (apply Ecat; discriminate); try (apply Etg; discriminate).
Qed.

Lemma project_dict_spec p : wf_project p = true ->
  NoDup (keys (project_dict p)) /\ Forall (pentry_ok p) (project_dict p)
  /\ (exists t, project_dict p = (K_project_id, p_name p) :: (K_cost, show_num (p_cost p)) :: t)
  /\ (p_cats p <> [] -> In K_category (keys (project_dict p)))
  /\ (p_targets p <> [] -> In K_target (keys (project_dict p))).
Proof.
  intros W. destruct (pd_base_spec p W) as (Hnd & Hok & (t0 & Hb) & Hpc & Hpt).
  apply wf_project_inv in W as (_ & _ & _ & _ & _ & _ & _ & _ & Hm).
  rewrite project_dict_unfold. destruct (pd_fold_spec (p_meta p) (pd_base p)) as [(t & Ht & Hin) Hnd'].
  split; [auto|]. split.
  - rewrite Ht. apply Forall_app. split; [exact Hok|]. apply Forall_forall. intros kv Hkv.
    destruct (Hin kv Hkv) as (Hkm & Hc & Htg). destruct (Hm kv Hkm) as (Hs & Hl & Hv).
    apply is_list_key_false in Hl as (L1 & L2 & L3 & L4).
    unfold pentry_ok. repeat split; try assumption; try contradiction; try (intros; assumption).
  - split; [exists (t0 ++ t); rewrite Ht, Hb; reflexivity|].
    split; intros Hne; rewrite Ht, keys_app; apply in_or_app; left; auto.
Qed.

Lemma wf_list_items_inv l : wf_list_items l = true ->
  NoDup l /\ nodup_strb l = true /\ Forall (fun c => stripped c = true) l /\ Forall (no_char c_comma) l
  /\ is_none_cell (join_with c_comma l) = false.
Proof.
  unfold wf_list_items. rewrite !andb_true_iff, negb_true_iff. intros ((H1 & H2) & H3).
  rewrite forallb_forall in H2. repeat split; try assumption.
  - apply nodup_strb_NoDup; assumption.
  - apply Forall_forall. intros x Hx. specialize (H2 x Hx). apply andb_true_iff in H2. tauto.
  - apply Forall_forall. intros x Hx. specialize (H2 x Hx). apply andb_true_iff in H2.
    apply no_comma_no_char. tauto.
Qed.

Lemma cats_rt l : wf_list_items l = true -> l <> [] -> cats_of_cell (join_with c_comma l) = l.
Proof.
  intros W Hne. apply wf_list_items_inv in W as (_ & Hnd & Hs & Hc & _).
  unfold cats_of_cell. rewrite split_join by assumption. rewrite map_strip_id by assumption.
  apply dedup_id; assumption.
Qed.

(* which list ends up in a list-valued field after the cells under the columns ks *)
Definition sel (key : str) (ks : list str) (pd : dict) (new old : list str) : list str :=
  if mem_str key ks then match lookup key pd with Some _ => new | None => old end else old.

Lemma sel_cons_none key k ks pd new old :
  lookup k pd = None -> sel key (k :: ks) pd new old = sel key ks pd new old.
Proof.
  intros H. unfold sel. simpl. destruct (str_eqb key k) eqn:E; [|reflexivity].
  apply str_eqb_eq in E. subst. rewrite H. destruct (mem_str k ks); reflexivity.
Qed.

Lemma sel_cons_other key k ks pd new old :
  key <> k -> sel key (k :: ks) pd new old = sel key ks pd new old.
Proof. intros H. unfold sel. simpl. apply str_eqb_neq in H. now rewrite H. Qed.

Lemma sel_cons_same key ks pd new old v :
  lookup key pd = Some v -> sel key (key :: ks) pd new old = new.
Proof. intros H. unfold sel. simpl. now rewrite str_eqb_refl, H. Qed.

Lemma sel_notin key ks pd new old : ~ In key ks -> sel key ks pd new old = old.
Proof. intros H. unfold sel. apply mem_str_false in H. now rewrite H. Qed.

Lemma sel_same key ks pd x : sel key ks pd x x = x.
Proof. unfold sel. destruct (mem_str key ks); [destruct (lookup key pd)|]; reflexivity. Qed.

Definition nonlist (kv : str * str) : bool := negb (is_list_key (fst kv)).

Lemma row_of_cons k ks d :
  row_of (k :: ks) d = (match lookup k d with Some v => v | None => K_none end) :: row_of ks d.
Proof. reflexivity. Qed.

Lemma row_dict_cons k ks d :
  row_dict (k :: ks) d = (match lookup k d with Some v => [(k, v)] | None => [] end) ++ row_dict ks d.
Proof. reflexivity. Qed.

Lemma project_cells_cons h hs c cs acc :
  project_cells (h :: hs) (c :: cs) acc =
  project_cells hs cs
    (if is_none_cell c then acc
     else if str_eqb (strip h) K_category || str_eqb (strip h) K_categories
       then mkProw (cats_of_cell c) (pr_targets acc) (pr_meta acc)
     else if str_eqb (strip h) K_target || str_eqb (strip h) K_targets
       then mkProw (pr_cats acc) (cats_of_cell c) (pr_meta acc)
     else mkProw (pr_cats acc) (pr_targets acc) (dict_set (strip h) (strip c) (pr_meta acc))).
Proof. reflexivity. Qed.

Lemma project_cells_spec p pd :
  Forall (pentry_ok p) pd -> wf_list_items (p_cats p) = true -> wf_list_items (p_targets p) = true ->
  forall ks acc, NoDup ks -> Forall (fun k => stripped k = true) ks ->
    (forall k, In k ks -> ~ In k (keys (pr_meta acc))) ->
    project_cells ks (row_of ks pd) acc =
    Some (mkProw (sel K_category ks pd (p_cats p) (pr_cats acc))
                 (sel K_target ks pd (p_targets p) (pr_targets acc))
                 (pr_meta acc ++ filter nonlist (row_dict ks pd))).
Proof.
  intros Hok Wc Wt. induction ks as [|k ks IH]; intros acc Hnd Hs Hfresh.
  - simpl. destruct acc; simpl. now rewrite app_nil_r.
  - inversion Hnd as [|? ? Hnin Hnd']; subst. inversion Hs as [|? ? Hk Hs']; subst.
    rewrite row_of_cons, row_dict_cons, project_cells_cons, (strip_of_stripped k Hk).
    assert (Hfresh' : forall k0, In k0 ks -> ~ In k0 (keys (pr_meta acc))).
    { intros k0 H0. apply Hfresh. right; exact H0. }
    destruct (lookup k pd) as [v|] eqn:El.
    + pose proof (lookup_In _ _ _ El) as Hin. rewrite Forall_forall in Hok.
      destruct (Hok _ Hin) as (_ & Hn1 & Hn2 & Hcat & Htg & Hoth). simpl fst in *; simpl snd in *.
      destruct (str_eqb k K_category) eqn:E1.
      * apply str_eqb_eq in E1. subst k. destruct (Hcat eq_refl) as (-> & Hne).
        pose proof (wf_list_items_inv _ Wc) as (_ & _ & _ & _ & Hnn). rewrite Hnn.
        cbn [orb]. rewrite cats_rt by assumption.
        rewrite IH by assumption. cbn [pr_cats pr_targets pr_meta].
        rewrite (sel_notin K_category ks) by assumption.
        rewrite (sel_cons_same K_category ks pd _ _ _ El).
        rewrite (sel_cons_other K_target K_category) by kdisc.
        reflexivity.
      * destruct (str_eqb k K_target) eqn:E2.
        -- apply str_eqb_eq in E2. subst k. destruct (Htg eq_refl) as (-> & Hne).
           pose proof (wf_list_items_inv _ Wt) as (_ & _ & _ & _ & Hnn). rewrite Hnn.
           change (str_eqb K_target K_categories) with false. cbn [orb].
           change (str_eqb K_target K_target) with true. cbn [orb].
           rewrite cats_rt by assumption.
           rewrite IH by assumption. cbn [pr_cats pr_targets pr_meta].
           rewrite (sel_notin K_target ks) by assumption.
           rewrite (sel_cons_same K_target ks pd _ _ _ El).
           rewrite (sel_cons_other K_category K_target) by kdisc.
           reflexivity.
        -- apply str_eqb_neq in E1. apply str_eqb_neq in E2.
           destruct (proj1 (cell_ok_iff v) (Hoth E1 E2)) as (Hvs & Hvn). rewrite Hvn.
           pose proof (proj2 (str_eqb_neq _ _) E1) as B1. pose proof (proj2 (str_eqb_neq _ _) E2) as B2.
           pose proof (proj2 (str_eqb_neq _ _) Hn1) as B3. pose proof (proj2 (str_eqb_neq _ _) Hn2) as B4.
           rewrite ?B1, ?B2, B3, B4. cbn [orb]. rewrite (strip_of_stripped v Hvs).
           rewrite dict_set_fresh by (apply Hfresh; left; reflexivity).
           rewrite IH; try assumption.
           ++ cbn [pr_cats pr_targets pr_meta].
              rewrite (sel_cons_other K_category k) by (intros E; apply E1; symmetry; exact E).
              rewrite (sel_cons_other K_target k) by (intros E; apply E2; symmetry; exact E).
              cbn [app filter]. unfold nonlist at 2. cbn [fst].
              rewrite (is_list_key_intro k E1 Hn1 E2 Hn2). cbn [negb]. rewrite <- app_assoc. reflexivity.
           ++ cbn [pr_meta]. intros k0 H0. rewrite keys_app. intros Hx. apply in_app_or in Hx as [Hx|Hx].
              ** exact (Hfresh' k0 H0 Hx).
              ** simpl in Hx. destruct Hx as [Hx|[]]. subst. contradiction.
    + change (is_none_cell K_none) with true. cbv iota.
      rewrite IH by assumption. rewrite !sel_cons_none by assumption. reflexivity.
Qed.

Lemma lookup_row_dict ks d k :
  NoDup ks -> lookup k (row_dict ks d) = if mem_str k ks then lookup k d else None.
Proof.
  induction ks as [|k' ks IH]; intros Hnd; [reflexivity|].
  inversion Hnd as [|? ? Hnin Hnd']; subst. rewrite row_dict_cons, lookup_app. simpl mem_str.
  destruct (str_eqb k k') eqn:E.
  - apply str_eqb_eq in E. subst k'. simpl orb.
    destruct (lookup k d) as [v|] eqn:El.
    + simpl. now rewrite str_eqb_refl.
    + simpl. rewrite IH by assumption. apply mem_str_false in Hnin. now rewrite Hnin.
  - simpl orb. destruct (lookup k' d) as [v|]; simpl; [rewrite E|]; apply IH; assumption.
Qed.

Lemma keys_row_dict ks d k : In k (keys (row_dict ks d)) -> In k ks /\ In k (keys d).
Proof.
  induction ks as [|k' ks IH]; [simpl; tauto|]. rewrite row_dict_cons, keys_app. intros H.
  apply in_app_or in H as [H|H].
  - destruct (lookup k' d) as [v|] eqn:E; simpl in H; [|tauto]. destruct H as [<-|[]].
    split; [left; reflexivity|eapply lookup_Some_key; eauto].
  - destruct (IH H). split; [right|]; assumption.
Qed.

Lemma NoDup_keys_row_dict ks d : NoDup ks -> NoDup (keys (row_dict ks d)).
Proof.
  induction 1 as [|k ks Hnin Hnd IH]; [constructor|].
  rewrite row_dict_cons, keys_app. destruct (lookup k d); simpl; [|exact IH].
  constructor; [|exact IH]. intros H. apply keys_row_dict in H as [H _]. contradiction.
Qed.

Lemma project_row_rt p ks :
  wf_project p = true -> NoDup ks -> Forall (fun k => stripped k = true) ks ->
  (forall k, In k (keys (project_dict p)) -> In k ks) ->
  (exists t, ks = K_project_id :: K_cost :: t) ->
  parse_project_row ks (row_of ks (project_dict p)) = Some (canon_project show_num ks p).
Proof.
  intros W Hnd Hs Hcov (t & Hks).
  destruct (project_dict_spec p W) as (Hpnd & Hok & (t' & Hpd) & Hpc & Hpt).
  pose proof (wf_project_inv p W) as (Hn & _ & _ & _ & Hc & Wc & Wt & _ & _).
  destruct (num_text _ Hc) as (Hread & _ & Hnc & _).
  unfold PabulibM.parse_project_row.
  assert (Erow : exists r, row_of ks (project_dict p) = p_name p :: r).
  { assert (El : lookup K_project_id (project_dict p) = Some (p_name p)).
    { rewrite Hpd. simpl lookup. change (str_eqb K_project_id K_project_id) with true. reflexivity. }
    rewrite Hks, row_of_cons, El. eexists; reflexivity. }
  destruct Erow as (r & Erow). rewrite Erow. rewrite <- Erow.
  rewrite (project_cells_spec p (project_dict p) Hok Wc Wt ks (mkProw [] [] []) Hnd Hs)
    by (intros k _ []).
  cbn [obind pr_meta pr_cats pr_targets app].
  assert (Ecost : lookup K_cost (filter nonlist (row_dict ks (project_dict p))) = Some (show_num (p_cost p))).
  { unfold nonlist. rewrite (lookup_filter_key (fun k => negb (is_list_key k))).
    change (negb (is_list_key K_cost)) with true. cbv iota.
    rewrite lookup_row_dict by assumption.
    assert (M : mem_str K_cost ks = true) by (rewrite Hks; reflexivity). rewrite M.
    rewrite Hpd. simpl lookup. change (str_eqb K_cost K_project_id) with false.
    change (str_eqb K_cost K_cost) with true. reflexivity. }
  rewrite Ecost. cbn [obind]. rewrite (replace_comma_id _ Hnc), Hread. cbn [obind].
  apply cell_ok_iff in Hn as (Hns & _). rewrite (strip_of_stripped _ Hns).
  unfold canon_project. f_equal. f_equal.
  - destruct (p_cats p) as [|c cs] eqn:E; [apply sel_same|].
    assert (Hin : In K_category (keys (project_dict p))) by (apply Hpc; discriminate).
    unfold sel. pose proof (Hcov _ Hin) as Hk. apply mem_str_In in Hk. rewrite Hk.
    destruct (lookup K_category (project_dict p)) eqn:El; [reflexivity|].
    apply lookup_None in El. contradiction.
  - destruct (p_targets p) as [|c cs] eqn:E; [apply sel_same|].
    assert (Hin : In K_target (keys (project_dict p))) by (apply Hpt; discriminate).
    unfold sel. pose proof (Hcov _ Hin) as Hk. apply mem_str_In in Hk. rewrite Hk.
    destruct (lookup K_target (project_dict p)) eqn:El; [reflexivity|].
    apply lookup_None in El. contradiction.
Qed.

(* ---- the column lists ---- *)
Definition add_key (ks : list str) (k : str) : list str := if mem_str k ks then ks else ks ++ [k].

Lemma add_keys_unfold ks d : add_keys ks d = fold_left add_key (keys d) ks.
Proof. reflexivity. Qed.

Lemma fold_add_key_spec l : forall ks,
  (exists t, fold_left add_key l ks = ks ++ t)
  /\ (NoDup ks -> NoDup (fold_left add_key l ks))
  /\ (forall k, In k (fold_left add_key l ks) <-> In k ks \/ In k l).
Proof.
  induction l as [|x l IH]; intros ks; simpl.
  - split; [exists []; now rewrite app_nil_r|]. split; [auto|]. intros k; tauto.
  - destruct (IH (add_key ks x)) as ((t & Ht) & Hnd & Hin). unfold add_key in *.
    destruct (mem_str x ks) eqn:E.
    + split; [exists t; exact Ht|]. split; [exact Hnd|]. intros k. rewrite Hin.
      apply mem_str_In in E. split; [tauto|]. intros [H|[H|H]]; subst; auto.
    + apply mem_str_false in E. split; [exists (x :: t); rewrite Ht, <- app_assoc; reflexivity|].
      split; [intros H; apply Hnd, NoDup_snoc; assumption|].
      intros k. rewrite Hin, in_app_iff. simpl. tauto.
Qed.

Lemma fold_add_keys_spec ds : forall ks,
  (exists t, fold_left add_keys ds ks = ks ++ t)
  /\ (NoDup ks -> NoDup (fold_left add_keys ds ks))
  /\ (forall k, In k (fold_left add_keys ds ks) <-> In k ks \/ exists d, In d ds /\ In k (keys d)).
Proof.
  induction ds as [|d ds IH]; intros ks; simpl.
  - split; [exists []; now rewrite app_nil_r|]. split; [auto|]. intros k. split; [tauto|].
    intros [H|(d & [] & _)]; exact H.
  - destruct (IH (add_keys ks d)) as ((t & Ht) & Hnd & Hin).
    rewrite add_keys_unfold in *. destruct (fold_add_key_spec (keys d) ks) as ((t0 & Ht0) & Hnd0 & Hin0).
    split; [exists (t0 ++ t); rewrite Ht, Ht0, <- app_assoc; reflexivity|].
    split; [intros H; apply Hnd, Hnd0, H|].
    intros k. rewrite Hin, Hin0. split.
    + intros [[H|H]|(d' & Hd' & Hk)]; [left; exact H|right; exists d; auto|right; exists d'; auto].
    + intros [H|(d' & [Hd'|Hd'] & Hk)]; [left; left; exact H|subst; left; right; exact Hk|right; exists d'; auto].
Qed.

(* ---- PROJECTS block ---- *)
Lemma add_project_fresh p ps :
  ~ In (p_name p) (map p_name ps) -> add_project p ps = ps ++ [p].
Proof.
  induction ps as [|q r IH]; simpl; [reflexivity|]. intros H.
  destruct (str_eqb (p_name q) (p_name p)) eqn:E.
  - apply str_eqb_eq in E. exfalso. apply H. left; exact E.
  - rewrite IH; [reflexivity|]. intros H1. apply H. right; exact H1.
Qed.

Lemma loop_projects_block ks t0 :
  ks = K_project_id :: K_cost :: t0 -> NoDup ks -> Forall (fun k => stripped k = true) ks ->
  forall l st rest,
    Forall (fun p => wf_project p = true /\ forall k, In k (keys (project_dict p)) -> In k ks) l ->
    NoDup (map p_name (ps_projects st) ++ map p_name l) ->
    parse_loop SecProjects ks st (map (fun p => row_of ks (project_dict p)) l ++ rest)
    = parse_loop SecProjects ks
        (mkPstate (ps_meta st) (ps_projects st ++ map (canon_project show_num ks) l) (ps_ballots st)) rest.
Proof.
  intros Hks Hnd Hs. induction l as [|p l IH]; intros st rest Hl Hnames.
  - simpl. rewrite app_nil_r. destruct st; reflexivity.
  - inversion Hl as [|? ? (W & Hcov) Hl']; subst l0 x.
    pose proof (project_row_rt p ks W Hnd Hs Hcov (ex_intro _ t0 Hks)) as Hrow.
    destruct (project_dict_spec p W) as (_ & _ & (t' & Hpd) & _).
    pose proof (wf_project_inv p W) as (_ & Hnk & _).
    assert (Eshape : row_of ks (project_dict p)
                     = p_name p :: show_num (p_cost p) :: row_of t0 (project_dict p)).
    { rewrite Hks, !row_of_cons. rewrite Hpd at 1 2. simpl lookup.
      change (str_eqb K_project_id K_project_id) with true.
      change (str_eqb K_cost K_project_id) with false.
      change (str_eqb K_cost K_cost) with true. reflexivity. }
    cbn [map app]. rewrite Eshape in *.
    rewrite (loop_project ks st _ _ _ _ _ (not_keyword_section _ Hnk) Hrow).
    rewrite add_project_fresh.
    + rewrite IH.
      * cbn [ps_meta ps_projects ps_ballots map]. rewrite <- app_assoc. reflexivity.
      * exact Hl'.
      * cbn [ps_projects]. rewrite map_app. cbn [map canon_project p_name]. rewrite <- app_assoc. exact Hnames.
    + cbn [map] in Hnames. apply NoDup_remove_2 in Hnames. intros H. apply Hnames. apply in_or_app. left; exact H.
Qed.

(* ---- the writer's per-vote dictionary ---- *)
Definition ventry_ok (kv : str * str) : Prop := stripped (fst kv) = true /\ cell_ok (snd kv) = true.

Definition vd_step (d : dict) (kv : str * str) : dict := if has_key (fst kv) d then d else d ++ [kv].

Lemma vd_fold_spec m : forall d,
  (exists t, fold_left vd_step m d = d ++ t /\ (forall kv, In kv t -> In kv m))
  /\ (NoDup (keys d) -> NoDup (keys (fold_left vd_step m d))).
Proof.
  induction m as [|kv m IH]; intros d; simpl.
  - split; [exists []; split; [now rewrite app_nil_r|simpl; tauto]|auto].
  - destruct (IH (vd_step d kv)) as [(t & Ht & Hin) Hnd]. unfold vd_step in Ht, Hnd |- *.
    fold vd_step in Ht, Hnd |- *.
    destruct (has_key (fst kv) d) eqn:E.
    + split; [exists t; split; [exact Ht|intros x Hx; right; auto]|exact Hnd].
    + apply has_key_false in E. split.
      * exists (kv :: t). split; [rewrite Ht, <- app_assoc; reflexivity|].
        intros x [Hx|Hx]; [left; exact Hx|right; auto].
      * intros Hd. apply Hnd. rewrite keys_app. simpl. apply NoDup_snoc; assumption.
Qed.

Lemma wf_ballot_inv vt names b : wf_ballot vt names b = true ->
  NoDup (b_projects b) /\ (forall n, In n (b_projects b) -> In n names)
  /\ (if is_cardinal vt then List.length (b_points b) = List.length (b_projects b) else b_points b = [])
  /\ Forall (fun q => Qcanon q = true) (b_points b)
  /\ NoDup (keys (b_meta b))
  /\ (forall kv, In kv (b_meta b) ->
        stripped (fst kv) = true /\ fst kv <> K_vote /\ fst kv <> K_points /\ cell_ok (snd kv) = true)
  /\ (forall v, lookup K_voter_id (b_meta b) = Some v -> not_keyword v = true).
Proof.
  unfold wf_ballot. rewrite !andb_true_iff.
  intros (((((((H1 & H2) & H3) & H4) & H5) & H6) & H7) & H8).
  split; [apply nodup_strb_NoDup; assumption|].
  split; [intros n Hn; rewrite forallb_forall in H2; apply mem_str_In, H2, Hn|].
  split; [destruct (is_cardinal vt); [apply Nat.eqb_eq; assumption|destruct (b_points b); [reflexivity|discriminate]]|].
  split; [apply Forall_forall; rewrite forallb_forall in H4; assumption|].
  split; [apply nodup_strb_NoDup; assumption|].
  split.
  - intros kv Hkv. rewrite forallb_forall in H6. specialize (H6 kv Hkv).
    rewrite !andb_true_iff, !negb_true_iff in H6. destruct H6 as (((A & B) & C) & D).
    apply str_eqb_neq in B, C. auto.
  - intros v Hv. rewrite Hv in H7. exact H7.
Qed.

Lemma wf_ballot_intro vt names b :
  NoDup (b_projects b) -> (forall n, In n (b_projects b) -> In n names) ->
  (if is_cardinal vt then List.length (b_points b) = List.length (b_projects b) else b_points b = []) ->
  Forall (fun q => Qcanon q = true) (b_points b) ->
  NoDup (keys (b_meta b)) ->
  (forall kv, In kv (b_meta b) ->
     stripped (fst kv) = true /\ fst kv <> K_vote /\ fst kv <> K_points /\ cell_ok (snd kv) = true) ->
  (forall v, lookup K_voter_id (b_meta b) = Some v -> not_keyword v = true) ->
  1 <= b_mult b ->
  wf_ballot vt names b = true.
Proof.
  intros H1 H2 H3 H4 H5 H6 H7 H8. unfold wf_ballot. rewrite !andb_true_iff. repeat split.
  - apply nodup_strb_NoDup; exact H1.
  - apply forallb_forall. intros n Hn. apply mem_str_In, H2, Hn.
  - destruct (is_cardinal vt); [apply Nat.eqb_eq; exact H3|now rewrite H3].
  - apply forallb_forall. rewrite Forall_forall in H4. exact H4.
  - apply nodup_strb_NoDup; exact H5.
  - apply forallb_forall. intros kv Hkv. destruct (H6 kv Hkv) as (A & B & C & D).
    apply str_eqb_neq in B, C. now rewrite A, B, C, D.
  - destruct (lookup K_voter_id (b_meta b)) eqn:E; [apply H7; reflexivity|reflexivity].
  - apply Nat.leb_le; exact H8.
Qed.

Definition vd_base (vt : vtype) (index : nat) (b : ballot) : dict :=
  let bm := b_meta b in
  let d := [(K_voter_id, match lookup K_voter_id bm with Some v => v | None => show_nat index end)] in
  let opt k d := match lookup k bm with Some v => d ++ [(k, v)] | None => d end in
  let d := opt $"age" d in
  let d := opt $"sex" d in
  let d := opt $"voting_method" d in
  let d := d ++ [(K_vote, join_with c_comma (b_projects b))] in
  if is_cardinal vt then d ++ [(K_points, join_with c_comma (map show_num (b_points b)))] else d.

Lemma vote_dict_unfold vt index b : vote_dict vt index b = fold_left vd_step (b_meta b) (vd_base vt index b).
Proof. reflexivity. Qed.

Section Votes.
Variable names : list str.
Hypothesis names_ok : forall n, In n names -> cell_ok n = true /\ no_comma n = true /\ n <> [].

Lemma vote_cell_ok l : (forall n, In n l -> In n names) -> cell_ok (join_with c_comma l) = true.
Proof.
  intros H. apply cell_ok_iff. split.
  - apply stripped_join. apply Forall_forall. intros n Hn. destruct (names_ok n (H n Hn)) as (Hc & _).
    apply cell_ok_iff in Hc. tauto.
  - apply join_not_none; apply Forall_forall; intros n Hn; destruct (names_ok n (H n Hn)) as (Hc & _);
      apply cell_ok_iff in Hc; tauto.
Qed.

Lemma points_cell_ok l : Forall (fun q => Qcanon q = true) l -> cell_ok (join_with c_comma (map show_num l)) = true.
Proof.
  intros H. apply cell_ok_iff. split.
  - apply stripped_join. apply Forall_forall. intros s Hs. apply in_map_iff in Hs as (q & <- & Hq).
    rewrite Forall_forall in H. destruct (num_text q (H q Hq)) as (_ & Hc & _). apply cell_ok_iff in Hc. tauto.
  - apply join_not_none; apply Forall_forall; intros s Hs; apply in_map_iff in Hs as (q & <- & Hq);
      rewrite Forall_forall in H; destruct (num_text q (H q Hq)) as (_ & Hc & _); apply cell_ok_iff in Hc; tauto.
Qed.

Lemma vd_base_spec vt index b : wf_ballot vt names b = true ->
  NoDup (keys (vd_base vt index b)) /\ Forall ventry_ok (vd_base vt index b)
  /\ (exists v t, vd_base vt index b = (K_voter_id, v) :: t /\ not_keyword v = true)
  /\ In (K_vote, join_with c_comma (b_projects b)) (vd_base vt index b)
  /\ (is_cardinal vt = true -> In (K_points, join_with c_comma (map show_num (b_points b))) (vd_base vt index b)).
Proof.
  intros W. apply wf_ballot_inv in W as (_ & Hsub & _ & Hq & _ & Hm & Hvid).
  destruct (nat_text index) as (_ & Hidx & Hidk).
  assert (Eopt : forall k v, lookup k (b_meta b) = Some v -> stripped k = true -> ventry_ok (k, v)).
  { intros k v Hv Hk. apply lookup_In in Hv. destruct (Hm _ Hv) as (_ & _ & _ & Hc). split; assumption. }
  assert (Evote : ventry_ok (K_vote, join_with c_comma (b_projects b))).
  { split; [reflexivity|apply vote_cell_ok; assumption]. }
  assert (Epts : ventry_ok (K_points, join_with c_comma (map show_num (b_points b)))).
  { split; [reflexivity|apply points_cell_ok; assumption]. }
  assert (Eid : ventry_ok (K_voter_id, match lookup K_voter_id (b_meta b) with Some v => v | None => show_nat index end)
                /\ not_keyword (match lookup K_voter_id (b_meta b) with Some v => v | None => show_nat index end) = true).
  { destruct (lookup K_voter_id (b_meta b)) as [v|] eqn:E.
    - split; [apply Eopt; [exact E|reflexivity]|apply Hvid; reflexivity].
    - split; [split; [reflexivity|exact Hidx]|exact Hidk]. }
  destruct Eid as (Eid & Eidk).
  unfold vd_base.
  destruct (lookup $"age" (b_meta b)) as [v1|] eqn:E1;
    destruct (lookup $"sex" (b_meta b)) as [v2|] eqn:E2;
    destruct (lookup $"voting_method" (b_meta b)) as [v3|] eqn:E3;
    destruct (is_cardinal vt) eqn:E4; cbn [app];
    (split; [apply nodup_strb_NoDup; reflexivity|]);
    (split; [repeat (apply Forall_cons); try apply Forall_nil; try assumption;
             try (apply Eopt; [assumption|reflexivity])|]);
    (split; [eexists; eexists; split; [reflexivity|exact Eidk]|]);
    (split; [simpl; tauto|]); intros Hc; try discriminate Hc; simpl; tauto.
Qed.

Lemma vote_dict_spec vt index b : wf_ballot vt names b = true ->
  NoDup (keys (vote_dict vt index b)) /\ Forall ventry_ok (vote_dict vt index b)
  /\ (exists v t, vote_dict vt index b = (K_voter_id, v) :: t /\ not_keyword v = true)
  /\ lookup K_vote (vote_dict vt index b) = Some (join_with c_comma (b_projects b))
  /\ (is_cardinal vt = true ->
      lookup K_points (vote_dict vt index b) = Some (join_with c_comma (map show_num (b_points b)))).
Proof.
  intros W. destruct (vd_base_spec vt index b W) as (Hnd & Hok & (v & t0 & Hb & Hk) & Hv & Hp).
  apply wf_ballot_inv in W as (_ & _ & _ & _ & _ & Hm & _).
  rewrite vote_dict_unfold.
  destruct (vd_fold_spec (b_meta b) (vd_base vt index b)) as [(t & Ht & Hin) Hnd'].
  split; [auto|]. split.
  { rewrite Ht. apply Forall_app. split; [exact Hok|]. apply Forall_forall. intros kv Hkv.
    destruct (Hm kv (Hin kv Hkv)) as (A & _ & _ & D). split; assumption. }
  split; [exists v, (t0 ++ t); rewrite Ht, Hb; split; [reflexivity|exact Hk]|].
  split.
  - apply In_lookup; [auto|]. rewrite Ht. apply in_or_app. left; exact Hv.
  - intros Hc. apply In_lookup; [auto|]. rewrite Ht. apply in_or_app. left; auto.
Qed.

Lemma vote_cells_cons h hs c cs acc :
  vote_cells (h :: hs) (c :: cs) acc =
  if is_none_cell c then vote_cells hs cs acc else vote_cells hs cs (dict_set (strip h) (strip c) acc).
Proof. reflexivity. Qed.

Lemma vote_cells_spec vd : Forall ventry_ok vd ->
  forall ks acc, NoDup ks -> Forall (fun k => stripped k = true) ks ->
    (forall k, In k ks -> ~ In k (keys acc)) ->
    vote_cells ks (row_of ks vd) acc = Some (acc ++ row_dict ks vd).
Proof.
  intros Hok. induction ks as [|k ks IH]; intros acc Hnd Hs Hfresh.
  - simpl. now rewrite app_nil_r.
  - inversion Hnd as [|? ? Hnin Hnd']; subst. inversion Hs as [|? ? Hk Hs']; subst.
    rewrite row_of_cons, row_dict_cons, vote_cells_cons.
    destruct (lookup k vd) as [v|] eqn:El.
    + apply lookup_In in El. rewrite Forall_forall in Hok. destruct (Hok _ El) as (_ & Hv). simpl in Hv.
      apply cell_ok_iff in Hv as (Hvs & Hvn). rewrite Hvn, (strip_of_stripped k Hk), (strip_of_stripped v Hvs).
      rewrite dict_set_fresh by (apply Hfresh; left; reflexivity).
      rewrite IH; try assumption.
      * rewrite <- app_assoc. reflexivity.
      * intros k0 H0. rewrite keys_app. intros Hx. apply in_app_or in Hx as [Hx|Hx].
        -- apply (Hfresh k0); [right; exact H0|exact Hx].
        -- simpl in Hx. destruct Hx as [Hx|[]]. subst. contradiction.
    + change (is_none_cell K_none) with true. cbv iota. apply IH; try assumption.
      intros k0 H0. apply Hfresh. right; exact H0.
Qed.

(* ---- auxiliary list facts for a vote row ---- *)
Lemma filter_id_notin k d :
  ~ In k (keys d) -> filter (fun kv => negb (str_eqb (fst kv) k)) d = d.
Proof.
  induction d as [|[k' v'] r IH]; simpl; [reflexivity|]. intros H.
  destruct (str_eqb k' k) eqn:E.
  - apply str_eqb_eq in E. subst. exfalso. apply H. left; reflexivity.
  - simpl. rewrite IH; [reflexivity|]. intros H1. apply H. right; exact H1.
Qed.

Lemma dict_pop_filter k d :
  NoDup (keys d) -> dict_pop k d = filter (fun kv => negb (str_eqb (fst kv) k)) d.
Proof.
  induction d as [|[k' v'] r IH]; simpl; [reflexivity|]. inversion 1 as [|? ? Hnin Hnd]; subst.
  rewrite (str_eqb_sym k' k). destruct (str_eqb k k') eqn:E; simpl.
  - apply str_eqb_eq in E. subst. symmetry. apply filter_id_notin. exact Hnin.
  - rewrite IH by assumption. reflexivity.
Qed.

Lemma filter_filter (A : Type) (f g : A -> bool) l :
  filter f (filter g l) = filter (fun x => g x && f x) l.
Proof.
  induction l as [|x r IH]; simpl; [reflexivity|].
  destruct (g x); simpl; [destruct (f x); simpl; now rewrite IH|exact IH].
Qed.

Lemma find_project_in n ps :
  In n (map p_name ps) -> exists p, find_project n ps = Some p /\ p_name p = n.
Proof.
  unfold find_project. induction ps as [|q r IH]; simpl; [tauto|].
  destruct (str_eqb (p_name q) n) eqn:E.
  - intros _. exists q. split; [reflexivity|apply str_eqb_eq; exact E].
  - intros [H|H]; [apply str_eqb_neq in E; contradiction|apply IH, H].
Qed.

Lemma omap_find l ps :
  (forall n, In n l -> In n (map p_name ps)) ->
  exists projs, omap (fun n => find_project n ps) l = Some projs /\ map p_name projs = l.
Proof.
  induction l as [|n l IH]; intros H; simpl.
  - exists []. split; reflexivity.
  - destruct (find_project_in n ps (H n (or_introl eq_refl))) as (p & Hp & Hn).
    destruct IH as (projs & Ho & Hm); [intros m Hm; apply H; right; exact Hm|].
    rewrite Hp, Ho. exists (p :: projs). split; [reflexivity|simpl; now rewrite Hn, Hm].
Qed.

Lemma zip_points_rt ns : forall qs,
  List.length qs = List.length ns -> Forall (fun q => Qcanon q = true) qs ->
  zip_points read_num ns (map show_num qs) = Some (combine ns qs).
Proof.
  induction ns as [|n ns IH]; intros [|q qs] Hl Hq; simpl in *; try discriminate; try reflexivity.
  inversion Hq as [|? ? Hq1 Hq2]; subst.
  destruct (num_text q Hq1) as (Hr & Hc & _). apply cell_ok_iff in Hc as (Hs & _).
  rewrite (strip_of_stripped _ Hs), Hr. cbn [obind]. rewrite IH by (auto; lia). reflexivity.
Qed.

Lemma card_set_fresh n q l : ~ In n (map fst l) -> card_set n q l = l ++ [(n, q)].
Proof.
  induction l as [|[n' q'] r IH]; simpl; [reflexivity|]. intros H.
  destruct (str_eqb n n') eqn:E.
  - apply str_eqb_eq in E. subst. exfalso. apply H. left; reflexivity.
  - rewrite IH; [reflexivity|]. intros H1. apply H. right; exact H1.
Qed.

Lemma fold_card_set l : forall acc,
  NoDup (map fst (acc ++ l)) ->
  fold_left (fun acc nq => card_set (fst nq) (snd nq) acc) l acc = acc ++ l.
Proof.
  induction l as [|[n q] r IH]; intros acc H; simpl; [now rewrite app_nil_r|].
  rewrite card_set_fresh.
  - rewrite IH; rewrite <- app_assoc; [reflexivity|exact H].
  - rewrite map_app in H. apply NoDup_remove_2 in H. intros Hin. apply H. apply in_or_app. left; exact Hin.
Qed.

Lemma map_fst_combine (A B : Type) (l : list A) : forall (l' : list B),
  List.length l' = List.length l -> map fst (combine l l') = l.
Proof. induction l as [|x l IH]; intros [|y l'] H; simpl in *; try discriminate; try reflexivity. f_equal. apply IH. lia. Qed.

Lemma map_snd_combine (A B : Type) (l : list A) : forall (l' : list B),
  List.length l' = List.length l -> map snd (combine l l') = l'.
Proof. induction l as [|x l IH]; intros [|y l'] H; simpl in *; try discriminate; try reflexivity. f_equal. apply IH. lia. Qed.

Lemma join_nonblank l : l <> [] ->
  Forall (fun x => stripped x = true /\ x <> []) l -> strip (join_with c_comma l) <> [].
Proof.
  intros Hne H. destruct l as [|x r]; [contradiction|]. inversion H as [|? ? (Hs & Hx) _]; subst.
  destruct x as [|c x']; [contradiction|]. apply stripped_iff in Hs as (Hh & _). simpl in Hh.
  destruct r as [|y r]; simpl; apply strip_nonblank; exact Hh.
Qed.

Lemma vtype_of_vtype_name vt : vtype_of (vtype_name vt) = Some vt.
Proof. destruct vt; reflexivity. Qed.

(* ---- one vote row ---- *)
Lemma vote_row_rt vt index b ks meta ps :
  wf_ballot vt names b = true -> NoDup ks -> Forall (fun k => stripped k = true) ks ->
  (forall k, In k (keys (vote_dict vt index b)) -> In k ks) ->
  lookup $"vote_type" meta = Some (vtype_name vt) ->
  (forall n, In n names -> In n (map p_name ps)) ->
  parse_vote_row ks meta ps (row_of ks (vote_dict vt index b))
  = Some (canon_ballot show_num show_nat vt ks index b).
Proof.
  intros W Hnd Hs Hcov Hvt Hps.
  destruct (vote_dict_spec vt index b W) as (Hvnd & Hok & _ & Hvote & Hpts).
  pose proof (wf_ballot_inv vt names b W) as (Hpnd & Hsub & Hlen & Hq & _ & _ & _).
  unfold PabulibM.parse_vote_row.
  rewrite (vote_cells_spec _ Hok ks [] Hnd Hs) by (intros k _ []).
  cbn [obind app]. rewrite Hvt. cbn [obind]. rewrite vtype_of_vtype_name. cbn [obind].
  assert (Mvote : mem_str K_vote ks = true).
  { apply mem_str_In, Hcov. eapply lookup_Some_key; eauto. }
  rewrite lookup_row_dict, Mvote, Hvote by assumption. cbn [obind].
  assert (Esplit : split_list_cell (join_with c_comma (b_projects b)) = b_projects b).
  { apply split_list_cell_join. intros Hne. split.
    - apply Forall_forall. intros n Hn. destruct (names_ok n (Hsub n Hn)) as (_ & Hc & _).
      apply no_comma_no_char; exact Hc.
    - apply join_nonblank; [exact Hne|]. apply Forall_forall. intros n Hn.
      destruct (names_ok n (Hsub n Hn)) as (Hc & _ & Hne'). apply cell_ok_iff in Hc. tauto. }
  rewrite Esplit.
  destruct (omap_find (b_projects b) ps) as (projs & Ho & Hm); [intros n Hn; apply Hps, Hsub, Hn|].
  rewrite Ho. cbn [obind]. rewrite Hm.
  pose proof (NoDup_keys_row_dict ks (vote_dict vt index b) Hnd) as Hrnd.
  unfold canon_ballot. destruct (is_cardinal vt) eqn:Ec.
  - assert (Mpts : mem_str K_points ks = true).
    { apply mem_str_In, Hcov. eapply lookup_Some_key. apply Hpts. reflexivity. }
    rewrite lookup_row_dict, Mpts, (Hpts eq_refl) by assumption. cbn [obind].
    assert (Esp : split_list_cell (join_with c_comma (map show_num (b_points b))) = map show_num (b_points b)).
    { apply split_list_cell_join. intros Hne. split.
      - apply Forall_forall. intros s Hs'. apply in_map_iff in Hs' as (q & <- & Hq').
        rewrite Forall_forall in Hq. destruct (num_text q (Hq q Hq')) as (_ & _ & Hc & _).
        apply no_comma_no_char; exact Hc.
      - apply join_nonblank; [exact Hne|]. apply Forall_forall. intros s Hs'.
        apply in_map_iff in Hs' as (q & <- & Hq'). rewrite Forall_forall in Hq.
        destruct (num_text q (Hq q Hq')) as (_ & Hc & _ & Hne'). apply cell_ok_iff in Hc. tauto. }
    rewrite Esp, zip_points_rt by assumption. cbn [obind].
    rewrite (fold_card_set (combine (b_projects b) (b_points b)) [])
      by (cbn [app]; rewrite map_fst_combine by assumption; exact Hpnd).
    cbn [app]. rewrite map_fst_combine, map_snd_combine by assumption.
    rewrite (dict_pop_filter K_vote) by assumption.
    rewrite (dict_pop_filter K_points) by (apply NoDup_keys_filter; assumption).
    rewrite filter_filter. f_equal. f_equal. apply filter_ext. intros [k v]. cbn [fst andb].
    destruct (str_eqb k K_vote); destruct (str_eqb k K_points); reflexivity.
  - rewrite (dedup_first_id (b_projects b) []) by (auto; intros x _ []).
    rewrite (dict_pop_filter K_vote) by assumption.
    f_equal. f_equal. apply filter_ext. intros [k v]. cbn [fst andb]. destruct (str_eqb k K_vote); reflexivity.
Qed.

(* ---- VOTES block ---- *)
Lemma loop_vote_repeat ks st c0 c1 t b : 
  section_of c0 = None ->
  parse_vote_row ks (ps_meta st) (ps_projects st) (c0 :: c1 :: t) = Some b ->
  forall m bs rest,
    parse_loop SecVotes ks (mkPstate (ps_meta st) (ps_projects st) bs) (repeat (c0 :: c1 :: t) m ++ rest)
    = parse_loop SecVotes ks (mkPstate (ps_meta st) (ps_projects st) (bs ++ repeat b m)) rest.
Proof.
  intros H1 H2. induction m as [|m IH]; intros bs rest.
  - simpl. now rewrite app_nil_r.
  - cbn [repeat app]. rewrite (loop_vote ks _ c0 c1 t _ b H1) by exact H2.
    cbn [ps_meta ps_projects ps_ballots]. rewrite IH. rewrite <- app_assoc. reflexivity.
Qed.

Lemma vote_dicts_cons vt i b l :
  vote_dicts show_num show_nat vt i (b :: l) = (vote_dict vt i b, b_mult b) :: vote_dicts show_num show_nat vt (S i) l.
Proof. reflexivity. Qed.

Lemma loop_votes_block vt ks t0 :
  ks = K_voter_id :: t0 -> NoDup ks -> Forall (fun k => stripped k = true) ks ->
  forall l i st rest,
    Forall (fun b => wf_ballot vt names b = true) l ->
    (forall d, In d (map fst (vote_dicts show_num show_nat vt i l)) -> forall k, In k (keys d) -> In k ks) ->
    lookup $"vote_type" (ps_meta st) = Some (vtype_name vt) ->
    (forall n, In n names -> In n (map p_name (ps_projects st))) ->
    parse_loop SecVotes ks st
      (flat_map (fun dm => repeat (row_of ks (fst dm)) (snd dm)) (vote_dicts show_num show_nat vt i l) ++ rest)
    = parse_loop SecVotes ks
        (mkPstate (ps_meta st) (ps_projects st)
                  (ps_ballots st ++ canon_ballots show_num show_nat vt ks i l)) rest.
Proof.
  intros Hks Hnd Hs. induction l as [|b l IH]; intros i st rest Hl Hcov Hvt Hps.
  - simpl. rewrite app_nil_r. destruct st; reflexivity.
  - inversion Hl as [|? ? W Hl']; subst l0 x. rewrite vote_dicts_cons in *.
    cbn [flat_map fst snd canon_ballots]. rewrite <- app_assoc.
    assert (Hcovb : forall k, In k (keys (vote_dict vt i b)) -> In k ks).
    { intros k Hk. apply (Hcov (vote_dict vt i b)); [left; reflexivity|exact Hk]. }
    pose proof (vote_row_rt vt i b ks (ps_meta st) (ps_projects st) W Hnd Hs Hcovb Hvt Hps) as Hrow.
    destruct (vote_dict_spec vt i b W) as (_ & _ & (v & t' & Hvd & Hvk) & Hvote & _).
    (* the row has at least two cells: voter_id and vote are different columns *)
    assert (Hin : In K_vote t0).
    { assert (H : In K_vote ks) by (apply Hcovb; eapply lookup_Some_key; eauto).
      rewrite Hks in H. destruct H as [H|H]; [vm_compute in H; discriminate H|exact H]. }
    destruct t0 as [|k1 t1]; [destruct Hin|].
    assert (Eshape : row_of ks (vote_dict vt i b)
                     = v :: (match lookup k1 (vote_dict vt i b) with Some x => x | None => K_none end)
                         :: row_of t1 (vote_dict vt i b)).
    { rewrite Hks, !row_of_cons. f_equal. rewrite Hvd. simpl lookup.
      change (str_eqb K_voter_id K_voter_id) with true. reflexivity. }
    rewrite Eshape in *.
    destruct st as [m ps bs]. cbn [ps_meta ps_projects ps_ballots] in *.
    rewrite (loop_vote_repeat ks (mkPstate m ps bs) _ _ _ _ (not_keyword_section _ Hvk) Hrow).
    cbn [ps_meta ps_projects ps_ballots].
    rewrite (IH (S i) (mkPstate m ps (bs ++ repeat (canon_ballot show_num show_nat vt ks i b) (b_mult b)))).
    + cbn [ps_meta ps_projects ps_ballots]. rewrite <- app_assoc. reflexivity.
    + exact Hl'.
    + intros d Hd. apply Hcov. right; exact Hd.
    + exact Hvt.
    + exact Hps.
Qed.

End Votes.

(* ============================================================================================ *)
(* C. the META block the writer derives                                                           *)
(* ============================================================================================ *)
Lemma put_rest_fold im : forall m, put_rest im m = fold_left vd_step im m.
Proof. induction im as [|[k v] r IH]; intros m; simpl; [reflexivity|]. rewrite IH. reflexivity. Qed.

Lemma lookup_put_rest im : forall m k,
  lookup k (put_rest im m) = match lookup k m with Some v => Some v | None => lookup k im end.
Proof.
  induction im as [|[k' v'] r IH]; intros m k; simpl.
  - destruct (lookup k m); reflexivity.
  - rewrite IH. destruct (has_key k' m) eqn:E.
    + destruct (lookup k m) eqn:El; [reflexivity|].
      destruct (str_eqb k k') eqn:Ek; [|reflexivity].
      apply str_eqb_eq in Ek. subst. unfold has_key in E. rewrite El in E. discriminate.
    + rewrite lookup_app. destruct (lookup k m) eqn:El; [reflexivity|]. simpl.
      destruct (str_eqb k k'); reflexivity.
Qed.

Fixpoint assoc (k : str) (sl : list (str * option str)) : option (option str) :=
  match sl with
  | [] => None
  | (k', o) :: r => if str_eqb k k' then Some o else assoc k r
  end.

Lemma compact_cons k o r :
  compact ((k, o) :: r) = (match o with Some v => [(k, v)] | None => [] end) ++ compact r.
Proof. reflexivity. Qed.

Lemma keys_compact sl k : In k (keys (compact sl)) -> In k (map fst sl).
Proof.
  induction sl as [|[k' o] r IH]; [simpl; tauto|]. rewrite compact_cons, keys_app. intros H.
  apply in_app_or in H as [H|H].
  - destruct o; simpl in H; [destruct H as [<-|[]]; left; reflexivity|destruct H].
  - right. apply IH. exact H.
Qed.

Lemma NoDup_keys_compact sl : NoDup (map fst sl) -> NoDup (keys (compact sl)).
Proof.
  induction sl as [|[k o] r IH]; [constructor|]. simpl map. inversion 1 as [|? ? Hnin Hnd]; subst.
  rewrite compact_cons, keys_app. destruct o; simpl; [|auto].
  constructor; [|auto]. intros Hx. apply Hnin. apply keys_compact. exact Hx.
Qed.

Lemma lookup_compact sl k :
  NoDup (map fst sl) ->
  lookup k (compact sl) = match assoc k sl with Some (Some v) => Some v | _ => None end.
Proof.
  induction sl as [|[k' o] r IH]; [reflexivity|]. simpl map. inversion 1 as [|? ? Hnin Hnd]; subst.
  rewrite compact_cons, lookup_app. simpl assoc. destruct (str_eqb k k') eqn:E.
  - apply str_eqb_eq in E. subst k'. destruct o as [v|]; simpl; [now rewrite str_eqb_refl|].
    destruct (lookup k (compact r)) eqn:El; [|reflexivity].
    exfalso. apply Hnin. apply keys_compact. eapply lookup_Some_key; eauto.
  - destruct o as [v|]; simpl; [rewrite E|]; apply IH; assumption.
Qed.

Definition slot_keys (vt : vtype) : list str :=
  [$"description"; $"country"; $"unit"; $"subunit"; $"instance"; $"num_projects"; $"num_votes"; $"budget";
   $"vote_type"; $"rule"; $"date_begin"; $"date_end"; $"date_language"; $"date_edition"; $"date_district";
   $"date_comment"; $"min_length"; $"max_length"]
  ++ match vt with
     | Approval => [$"min_sum_cost"; $"max_sum_cost"]
     | Cumulative => [$"min_points"; $"max_points"; $"min_sum_points"; $"max_sum_points"]
     | Scoring => [$"min_points"; $"max_points"; $"default_score"]
     | Ordinal => [$"scoring_fn"]
     end.

Lemma slots_keys e : map fst (slots e) = slot_keys (e_vtype e).
Proof. unfold PabulibM.slots, type_slots, slot_keys. destruct (e_vtype e); reflexivity. Qed.

Lemma slot_keys_nodup vt : NoDup (slot_keys vt).
Proof. apply nodup_strb_NoDup. destruct vt; reflexivity. Qed.

Lemma slot_keys_ok vt : forallb (fun k => stripped k && not_keyword k) (slot_keys vt) = true.
Proof. destruct vt; reflexivity. Qed.

Lemma slots_nodup e : NoDup (map fst (slots e)).
Proof. rewrite slots_keys. apply slot_keys_nodup. Qed.

Lemma lookup_write_meta e k :
  lookup k (write_meta e)
  = match assoc k (slots e) with
    | Some (Some v) => Some v
    | _ => lookup k (e_meta e)
    end.
Proof.
  unfold PabulibM.write_meta. rewrite lookup_put_rest, lookup_compact by apply slots_nodup.
  destruct (assoc k (slots e)) as [[v|]|]; reflexivity.
Qed.

Lemma write_meta_nodup e : NoDup (keys (write_meta e)).
Proof.
  unfold PabulibM.write_meta. rewrite put_rest_fold.
  apply (proj2 (vd_fold_spec (e_meta e) (compact (slots e)))).
  apply NoDup_keys_compact, slots_nodup.
Qed.

(* ---- well-formedness, unpacked ---- *)
Record wf_facts (e : election) : Prop := {
  wf_meta_nodup : NoDup (keys (e_meta e));
  wf_meta_entries : forall kv, In kv (e_meta e) ->
      stripped (fst kv) = true /\ not_keyword (fst kv) = true /\ stripped (snd kv) = true;
  wf_meta_limits : forall k t, In k limit_keys -> lookup k (e_meta e) = Some t ->
      has_key k (compact (slots e)) = true \/ stale_ok read_num read_nat e k t = true;
  wf_names_nodup : NoDup (map p_name (e_projects e));
  wf_projects : forall p, In p (e_projects e) -> wf_project p = true;
  wf_budget : Qcanon (e_budget e) = true;
  wf_ballots : forall b, In b (e_ballots e) -> wf_ballot (e_vtype e) (map p_name (e_projects e)) b = true;
  wf_q1 : oQcanon (e_min_cost e) = true; wf_q2 : oQcanon (e_max_cost e) = true;
  wf_q3 : oQcanon (e_min_total e) = true; wf_q4 : oQcanon (e_max_total e) = true;
  wf_q5 : oQcanon (e_min_score e) = true; wf_q6 : oQcanon (e_max_score e) = true
}.

Lemma wf_election_facts e :
  wf_electionb show_num read_num show_nat read_nat e = true -> wf_facts e.
Proof.
  unfold wf_electionb, wf_meta. rewrite !andb_true_iff.
  intros ((((((((((((A1 & A2) & A3) & B) & C) & D) & E) & F1) & F2) & F3) & F4) & F5) & F6).
  constructor; try assumption.
  - apply nodup_strb_NoDup; assumption.
  - intros kv Hkv. rewrite forallb_forall in A2. specialize (A2 kv Hkv). rewrite !andb_true_iff in A2. tauto.
  - intros k t Hk Ht. rewrite forallb_forall in A3. specialize (A3 k Hk). rewrite Ht in A3.
    apply orb_true_iff in A3. exact A3.
  - apply nodup_strb_NoDup; assumption.
  - intros p Hp. rewrite forallb_forall in C. apply C, Hp.
  - intros b Hb. rewrite forallb_forall in E. apply E, Hb.
Qed.

Section Meta.
Variable e : election.
Hypothesis W : wf_facts e.

Lemma im_value_stripped k v : lookup k (e_meta e) = Some v -> stripped v = true.
Proof. intros H. apply lookup_In in H. destruct (wf_meta_entries e W _ H) as (_ & _ & Hv). exact Hv. Qed.

Lemma mand_stripped k :
  stripped ($"Auto-filled " ++ k) = true -> stripped (mandatory_value (e_meta e) k) = true.
Proof.
  intros H. unfold mandatory_value. destruct (lookup k (e_meta e)) eqn:E; [eapply im_value_stripped; eauto|exact H].
Qed.

Lemma show_nat_stripped n : stripped (show_nat n) = true.
Proof. destruct (nat_text n) as (_ & H & _). apply cell_ok_iff in H. tauto. Qed.

Lemma show_num_stripped q : Qcanon q = true -> stripped (show_num q) = true.
Proof. intros Hq. destruct (num_text q Hq) as (_ & H & _). apply cell_ok_iff in H. tauto. Qed.

Lemma nat_slot_stripped o v : nat_slot show_nat o = Some v -> stripped v = true.
Proof. destruct o as [[|n]|]; simpl; try discriminate. intros [= <-]. apply show_nat_stripped. Qed.

Lemma num_slot_stripped o v : oQcanon o = true -> num_slot show_num o = Some v -> stripped v = true.
Proof.
  destruct o as [q|]; simpl; [|discriminate]. intros Hq. destruct (Qzero_b q); [discriminate|].
  intros [= <-]. apply show_num_stripped; assumption.
Qed.

Lemma slots_values_ok k v : In (k, Some v) (slots e) -> stripped v = true.
Proof.
  pose proof (wf_q1 e W) as Q1. pose proof (wf_q2 e W) as Q2. pose proof (wf_q3 e W) as Q3.
  pose proof (wf_q4 e W) as Q4. pose proof (wf_q5 e W) as Q5. pose proof (wf_q6 e W) as Q6.
  unfold PabulibM.slots, type_slots. intros H. apply in_app_or in H as [H|H].
  - cbn [In] in H.
    repeat (destruct H as [H|H];
      [injection H as _ Hv;
       first [ rewrite <- Hv;
               first [ apply mand_stripped; reflexivity | apply show_nat_stripped
                     | apply show_num_stripped; apply (wf_budget e W)
                     | destruct (e_vtype e); reflexivity ]
             | eapply im_value_stripped; exact Hv
             | eapply nat_slot_stripped; exact Hv ] |]).
    destruct H.
  - destruct (e_vtype e); cbn [In] in H;
    repeat (destruct H as [H|H];
      [injection H as _ Hv;
       first [ eapply num_slot_stripped; [|exact Hv]; assumption
             | eapply im_value_stripped; exact Hv ] |]);
    destruct H.
Qed.

Lemma In_compact sl k v : In (k, v) (compact sl) -> In (k, Some v) sl.
Proof.
  induction sl as [|[k' o] r IH]; [simpl; tauto|]. rewrite compact_cons. intros H.
  apply in_app_or in H as [H|H].
  - destruct o; simpl in H; [destruct H as [H|[]]; injection H as -> ->; left; reflexivity|destruct H].
  - right. apply IH. exact H.
Qed.

Lemma write_meta_entries_ok : Forall meta_entry_ok (write_meta e).
Proof.
  unfold PabulibM.write_meta. rewrite put_rest_fold.
  destruct (vd_fold_spec (e_meta e) (compact (slots e))) as [(t & Ht & Hin) _]. rewrite Ht.
  apply Forall_app. split.
  - apply Forall_forall. intros [k v] Hkv. unfold meta_entry_ok. simpl.
    pose proof (In_compact _ _ _ Hkv) as Hs.
    assert (Hk : In k (slot_keys (e_vtype e))).
    { rewrite <- slots_keys. apply (in_map fst) in Hs. exact Hs. }
    pose proof (slot_keys_ok (e_vtype e)) as Hok. rewrite forallb_forall in Hok.
    specialize (Hok k Hk). apply andb_true_iff in Hok as (Hk1 & Hk2).
    split; [exact Hk1|]. split; [exact Hk2|]. eapply slots_values_ok; eauto.
  - apply Forall_forall. intros kv Hkv. unfold meta_entry_ok. apply (wf_meta_entries e W). apply Hin, Hkv.
Qed.

End Meta.

(* ============================================================================================ *)
(* D. the limits read back from the written META block                                            *)
(* ============================================================================================ *)
Section Finish.
Variable e : election.
Hypothesis W : wf_facts e.

Local Notation get_num := (PabulibM.get_num read_num).
Local Notation get_nat := (PabulibM.get_nat read_nat).
Local Notation stale_ok := (PabulibM.stale_ok read_num read_nat).
Local Notation nat_slot := (PabulibM.nat_slot show_nat).
Local Notation num_slot := (PabulibM.num_slot show_num).

Lemma assoc_budget : assoc $"budget" (slots e) = Some (Some (show_num (e_budget e))).
Proof. reflexivity. Qed.
Lemma assoc_vote_type : assoc $"vote_type" (slots e) = Some (Some (vtype_name (e_vtype e))).
Proof. reflexivity. Qed.
Lemma assoc_min_length : assoc $"min_length" (slots e) = Some (nat_slot (e_min_len e)).
Proof. reflexivity. Qed.
Lemma assoc_max_length : assoc $"max_length" (slots e) = Some (nat_slot (e_max_len e)).
Proof. reflexivity. Qed.
Lemma assoc_min_sum_cost : assoc $"min_sum_cost" (slots e)
  = match e_vtype e with Approval => Some (num_slot (e_min_cost e)) | _ => None end.
Proof. unfold PabulibM.slots, type_slots. destruct (e_vtype e); reflexivity. Qed.
Lemma assoc_max_sum_cost : assoc $"max_sum_cost" (slots e)
  = match e_vtype e with Approval => Some (num_slot (e_max_cost e)) | _ => None end.
Proof. unfold PabulibM.slots, type_slots. destruct (e_vtype e); reflexivity. Qed.
Lemma assoc_min_points : assoc $"min_points" (slots e)
  = match e_vtype e with Scoring | Cumulative => Some (num_slot (e_min_score e)) | _ => None end.
Proof. unfold PabulibM.slots, type_slots. destruct (e_vtype e); reflexivity. Qed.
Lemma assoc_max_points : assoc $"max_points" (slots e)
  = match e_vtype e with Scoring | Cumulative => Some (num_slot (e_max_score e)) | _ => None end.
Proof. unfold PabulibM.slots, type_slots. destruct (e_vtype e); reflexivity. Qed.
Lemma assoc_min_sum_points : assoc $"min_sum_points" (slots e)
  = match e_vtype e with Cumulative => Some (num_slot (e_min_total e)) | _ => None end.
Proof. unfold PabulibM.slots, type_slots. destruct (e_vtype e); reflexivity. Qed.
Lemma assoc_max_sum_points : assoc $"max_sum_points" (slots e)
  = match e_vtype e with Cumulative => Some (num_slot (e_max_total e)) | _ => None end.
Proof. unfold PabulibM.slots, type_slots. destruct (e_vtype e); reflexivity. Qed.

Lemma lookup_budget : lookup $"budget" (write_meta e) = Some (show_num (e_budget e)).
Proof. now rewrite lookup_write_meta, assoc_budget. Qed.
Lemma lookup_vote_type : lookup $"vote_type" (write_meta e) = Some (vtype_name (e_vtype e)).
Proof. now rewrite lookup_write_meta, assoc_vote_type. Qed.

(* a limit entry of the instance metadata that the writer leaves alone is a default *)
Lemma stale_from_wf k t :
  In k limit_keys ->
  (assoc k (slots e) = None \/ assoc k (slots e) = Some None) ->
  lookup k (e_meta e) = Some t -> stale_ok e k t = true.
Proof.
  intros Hk Ha Ht. destruct (wf_meta_limits e W k t Hk Ht) as [H|H]; [|exact H].
  exfalso. unfold has_key in H. rewrite lookup_compact in H by apply slots_nodup.
  destruct Ha as [Ha|Ha]; rewrite Ha in H; discriminate.
Qed.

Lemma stale_min_length t : stale_ok e $"min_length" t
  = match read_nat t with Some 1%nat => true | _ => false end.
Proof. reflexivity. Qed.
Lemma stale_max_length t : stale_ok e $"max_length" t
  = match read_nat t with Some n => Nat.leb (List.length (e_projects e)) n | None => false end.
Proof. reflexivity. Qed.
Lemma stale_min_sum_cost t : stale_ok e $"min_sum_cost" t
  = match read_num t with
    | Some q => negb (match e_vtype e with Approval => true | _ => false end) || Qzero_b q
    | None => false end.
Proof. reflexivity. Qed.
Lemma stale_max_sum_cost t : stale_ok e $"max_sum_cost" t
  = match read_num t with
    | Some q => negb (match e_vtype e with Approval => true | _ => false end) || Qle_bool (e_budget e) q
    | None => false end.
Proof. reflexivity. Qed.
Lemma stale_min_points t : stale_ok e $"min_points" t
  = match read_num t with Some q => negb (is_cardinal (e_vtype e)) || Qzero_b q | None => false end.
Proof. reflexivity. Qed.
Lemma stale_min_sum_points t : stale_ok e $"min_sum_points" t
  = match read_num t with
    | Some q => negb (match e_vtype e with Cumulative => true | _ => false end) || Qzero_b q
    | None => false end.
Proof. reflexivity. Qed.
Lemma stale_max_points t : stale_ok e $"max_points" t
  = match read_num t with
    | Some q => negb (is_cardinal (e_vtype e))
                || ((match e_vtype e with Cumulative => true | _ => false end)
                    && match nzq (e_max_total e) with Some mt => Qeq_bool q mt | None => false end)
    | None => false end.
Proof. reflexivity. Qed.
Lemma stale_max_sum_points t : stale_ok e $"max_sum_points" t
  = match read_num t with Some q => negb (is_cardinal (e_vtype e)) | None => false end.
Proof. reflexivity. Qed.

Lemma in_limit_keys k : mem_str k limit_keys = true -> In k limit_keys.
Proof. apply mem_str_In. Qed.

Definition c_min_len : option nat :=
  match e_min_len e with Some (S (S k)) => Some (S (S k)) | _ => None end.
Definition c_max_len : option nat :=
  match e_max_len e with
  | Some (S k) => if Nat.leb (List.length (e_projects e)) (S k) then None else Some (S k)
  | _ => None end.

Lemma G_min_len : exists o,
  get_nat $"min_length" (write_meta e) = Some o /\ drop_if (Nat.eqb 1) o = c_min_len.
Proof.
  unfold PabulibM.get_nat, c_min_len. rewrite lookup_write_meta, assoc_min_length.
  destruct (e_min_len e) as [[|n]|] eqn:E; cbn [PabulibM.nat_slot].
  2: { destruct (nat_text (S n)) as (Hr & _). rewrite Hr. exists (Some (S n)). split; [reflexivity|].
       destruct n; reflexivity. }
  all: destruct (lookup $"min_length" (e_meta e)) as [t|] eqn:El; [|exists None; split; reflexivity];
    (assert (St : stale_ok e $"min_length" t = true)
       by (apply stale_from_wf; [apply in_limit_keys; reflexivity|rewrite assoc_min_length, E; right; reflexivity|exact El]));
    rewrite stale_min_length in St; destruct (read_nat t) as [[|[|m]]|]; try discriminate St;
    exists (Some 1); split; reflexivity.
Qed.

Lemma G_max_len : exists o,
  get_nat $"max_length" (write_meta e) = Some o
  /\ drop_if (fun n => Nat.leb (List.length (e_projects e)) n) o = c_max_len.
Proof.
  unfold PabulibM.get_nat, c_max_len. rewrite lookup_write_meta, assoc_max_length.
  destruct (e_max_len e) as [[|n]|] eqn:E; cbn [PabulibM.nat_slot].
  2: { destruct (nat_text (S n)) as (Hr & _). rewrite Hr. exists (Some (S n)). split; reflexivity. }
  all: destruct (lookup $"max_length" (e_meta e)) as [t|] eqn:El; [|exists None; split; reflexivity];
    (assert (St : stale_ok e $"max_length" t = true)
       by (apply stale_from_wf; [apply in_limit_keys; reflexivity|rewrite assoc_max_length, E; right; reflexivity|exact El]));
    rewrite stale_max_length in St; destruct (read_nat t) as [m|]; try discriminate St;
    exists (Some m); split; [reflexivity|]; simpl; rewrite St; reflexivity.
Qed.

Definition num_limit_keys : list str :=
  [$"min_sum_cost"; $"max_sum_cost"; $"min_points"; $"max_points"; $"min_sum_points"; $"max_sum_points"].

Lemma stale_readable k t : In k num_limit_keys -> stale_ok e k t = true -> exists q, read_num t = Some q.
Proof.
  intros Hk. cbn [In num_limit_keys] in Hk.
  destruct Hk as [<-|[<-|[<-|[<-|[<-|[<-|[]]]]]]];
    [rewrite stale_min_sum_cost|rewrite stale_max_sum_cost|rewrite stale_min_points
    |rewrite stale_max_points|rewrite stale_min_sum_points|rewrite stale_max_sum_points];
    destruct (read_num t) as [q|]; try discriminate; intros _; exists q; reflexivity.
Qed.

Lemma num_limit_in_limit k : In k num_limit_keys -> In k limit_keys.
Proof.
  intros Hk. cbn [In num_limit_keys] in Hk.
  destruct Hk as [<-|[<-|[<-|[<-|[<-|[<-|[]]]]]]]; apply in_limit_keys; reflexivity.
Qed.

(* what get_num finds under a numeric limit key of the written META block *)
Definition lim_cases (k : str) (o : option Q) (written : bool) (r : option Q) : Prop :=
  (written = true /\ exists q, o = Some q /\ Qzero_b q = false /\ r = Some q)
  \/ ((written = false \/ nzq o = None) /\ lookup k (e_meta e) = None /\ r = None)
  \/ ((written = false \/ nzq o = None)
      /\ exists t q, lookup k (e_meta e) = Some t /\ stale_ok e k t = true
                     /\ read_num t = Some q /\ r = Some q).

Lemma G_num k (o : option Q) (written : bool) :
  In k num_limit_keys ->
  assoc k (slots e) = (if written then Some (num_slot o) else None) ->
  oQcanon o = true ->
  exists r, get_num k (write_meta e) = Some r /\ lim_cases k o written r.
Proof.
  intros Hk Ha Hq. unfold lim_cases. unfold PabulibM.get_num. rewrite lookup_write_meta, Ha.
  assert (Fall : forall (Hnw : written = false \/ nzq o = None),
            (assoc k (slots e) = None \/ assoc k (slots e) = Some None) ->
            exists r,
              match lookup k (e_meta e) with
              | Some t => match read_num t with Some q => Some (Some q) | None => None end
              | None => Some None
              end = Some r /\
              ( (written = true /\ exists q, o = Some q /\ Qzero_b q = false /\ r = Some q)
                \/ ((written = false \/ nzq o = None) /\ lookup k (e_meta e) = None /\ r = None)
                \/ ((written = false \/ nzq o = None)
                    /\ exists t q, lookup k (e_meta e) = Some t /\ stale_ok e k t = true
                                   /\ read_num t = Some q /\ r = Some q) )).
  { intros Hnw Hs. destruct (lookup k (e_meta e)) as [t|] eqn:El.
    - pose proof (stale_from_wf k t (num_limit_in_limit k Hk) Hs El) as St.
      destruct (stale_readable k t Hk St) as (q & Hr). rewrite Hr. exists (Some q).
      split; [reflexivity|]. right; right. split; [exact Hnw|]. exists t, q. auto.
    - exists None. split; [reflexivity|]. right; left. auto. }
  destruct written.
  - destruct o as [q|]; cbn [PabulibM.num_slot].
    + destruct (Qzero_b q) eqn:Z.
      * apply Fall; [right; simpl; unfold nzq, drop_if; now rewrite Z|right; rewrite Ha; simpl; now rewrite Z].
      * simpl in Hq. destruct (num_text q Hq) as (Hr & _). rewrite Hr. exists (Some q).
        split; [reflexivity|]. left. split; [reflexivity|]. exists q. auto.
    + apply Fall; [right; reflexivity|right; rewrite Ha; reflexivity].
  - apply Fall; [left; reflexivity|left; exact Ha].
Qed.

Lemma nzq_Some q : Qzero_b q = false -> nzq (Some q) = Some q.
Proof. intros H. unfold nzq, drop_if. now rewrite H. Qed.

Lemma cases_drop (f : Q -> bool) k o r :
  lim_cases k o true r ->
  (forall t q, stale_ok e k t = true -> read_num t = Some q -> f q = true) ->
  drop_if f r = drop_if f (nzq o).
Proof.
  intros [(_ & q & -> & Z & ->)|[([H|H] & _ & ->)|([H|H] & t & q & _ & St & Hr & ->)]] Hst;
    try discriminate H.
  - now rewrite nzq_Some.
  - rewrite H. reflexivity.
  - rewrite H. simpl. now rewrite (Hst t q St Hr).
Qed.

Lemma cases_nz k o r :
  lim_cases k o true r ->
  (forall t q, stale_ok e k t = true -> read_num t = Some q -> Qzero_b q = true) ->
  drop_if Qzero_b r = nzq o.
Proof.
  intros C Hst. rewrite (cases_drop Qzero_b k o r C Hst).
  destruct o as [q|]; [|reflexivity]. unfold nzq, drop_if. destruct (Qzero_b q) eqn:Z; [reflexivity|now rewrite Z].
Qed.

Lemma cases_exact k o r :
  lim_cases k o true r -> (forall t, stale_ok e k t = true -> False) -> r = nzq o.
Proof.
  intros [(_ & q & -> & Z & ->)|[([H|H] & _ & ->)|([H|H] & t & q & _ & St & Hr & ->)]] Hst;
    try discriminate H.
  - now rewrite nzq_Some.
  - now rewrite H.
  - destruct (Hst t St).
Qed.

Lemma cases_unwritten_none k o r :
  lim_cases k o false r -> (forall t, stale_ok e k t = true -> False) -> r = None.
Proof.
  intros [(H & _)|[(_ & _ & ->)|(_ & t & q & _ & St & _)]] Hst; [discriminate H|reflexivity|destruct (Hst t St)].
Qed.

Definition eq_total (mt : option Q) (q : Q) : bool :=
  match mt with Some t => Qeq_bool q t | None => false end.

Definition canon_mk (ps : list project) (bs : list ballot) : election :=
  let vt := e_vtype e in
  let max_total := nzq (e_max_total e) in
  let mk a b c d f g :=
    mkElection (write_meta e) ps (e_budget e) vt bs c_min_len c_max_len a b c d f g in
  match vt with
  | Approval => mk (nzq (e_min_cost e)) (drop_if (fun q => Qle_bool (e_budget e) q) (nzq (e_max_cost e)))
                   None None None None
  | Scoring => mk None None None None (nzq (e_min_score e)) (nzq (e_max_score e))
  | Cumulative => mk None None (nzq (e_min_total e)) max_total (nzq (e_min_score e))
                     (drop_if (eq_total max_total) (nzq (e_max_score e)))
  | Ordinal => mk None None None None None None
  end.

Ltac in_num := cbn [In num_limit_keys]; tauto.

Lemma finish_rt ps bs :
  List.length ps = List.length (e_projects e) ->
  finish read_num read_nat (mkPstate (write_meta e) ps bs) = Some (canon_mk ps bs).
Proof.
  intros Hlen. unfold finish. cbn [ps_meta ps_projects ps_ballots].
  rewrite lookup_budget. cbn [obind].
  destruct (num_text _ (wf_budget e W)) as (Hrb & _ & Hncb & _).
  rewrite (replace_comma_id _ Hncb), Hrb. cbn [obind].
  destruct G_min_len as (o1 & E1 & D1). rewrite E1. cbn [obind].
  destruct G_max_len as (o2 & E2 & D2). rewrite E2. cbn [obind].
  rewrite Hlen, D1, D2. rewrite lookup_vote_type.
  pose proof (wf_q1 e W) as Q1. pose proof (wf_q2 e W) as Q2. pose proof (wf_q3 e W) as Q3.
  pose proof (wf_q4 e W) as Q4. pose proof (wf_q5 e W) as Q5. pose proof (wf_q6 e W) as Q6.
  unfold canon_mk.
  destruct (e_vtype e) eqn:Evt.
  - (* approval *)
    destruct (G_num $"min_sum_cost" (e_min_cost e) true) as (r3 & E3 & C3);
      [in_num|rewrite assoc_min_sum_cost, Evt; reflexivity|exact Q1|].
    destruct (G_num $"max_sum_cost" (e_max_cost e) true) as (r4 & E4 & C4);
      [in_num|rewrite assoc_max_sum_cost, Evt; reflexivity|exact Q2|].
    destruct (G_num $"min_sum_points" None false) as (r5 & E5 & _);
      [in_num|rewrite assoc_min_sum_points, Evt; reflexivity|reflexivity|].
    destruct (G_num $"max_sum_points" None false) as (r6 & E6 & _);
      [in_num|rewrite assoc_max_sum_points, Evt; reflexivity|reflexivity|].
    destruct (G_num $"min_points" None false) as (r7 & E7 & _);
      [in_num|rewrite assoc_min_points, Evt; reflexivity|reflexivity|].
    destruct (G_num $"max_points" None false) as (r8 & E8 & _);
      [in_num|rewrite assoc_max_points, Evt; reflexivity|reflexivity|].
    rewrite E3, E4, E5, E6, E7, E8. cbn [obind vtype_name]. change (vtype_of $"approval") with (Some Approval).
    cbn [obind]. f_equal. f_equal.
    + apply (cases_nz _ _ _ C3). intros t q St Hr. rewrite stale_min_sum_cost, Hr, Evt in St. exact St.
    + apply (cases_drop _ _ _ _ C4). intros t q St Hr. rewrite stale_max_sum_cost, Hr, Evt in St. exact St.
  - (* scoring *)
    destruct (G_num $"min_sum_cost" None false) as (r3 & E3 & _);
      [in_num|rewrite assoc_min_sum_cost, Evt; reflexivity|reflexivity|].
    destruct (G_num $"max_sum_cost" None false) as (r4 & E4 & _);
      [in_num|rewrite assoc_max_sum_cost, Evt; reflexivity|reflexivity|].
    destruct (G_num $"min_sum_points" None false) as (r5 & E5 & _);
      [in_num|rewrite assoc_min_sum_points, Evt; reflexivity|reflexivity|].
    destruct (G_num $"max_sum_points" None false) as (r6 & E6 & C6);
      [in_num|rewrite assoc_max_sum_points, Evt; reflexivity|reflexivity|].
    destruct (G_num $"min_points" (e_min_score e) true) as (r7 & E7 & C7);
      [in_num|rewrite assoc_min_points, Evt; reflexivity|exact Q5|].
    destruct (G_num $"max_points" (e_max_score e) true) as (r8 & E8 & C8);
      [in_num|rewrite assoc_max_points, Evt; reflexivity|exact Q6|].
    rewrite E3, E4, E5, E6, E7, E8. cbn [obind vtype_name]. change (vtype_of $"scoring") with (Some Scoring).
    cbn [obind].
    assert (R6 : r6 = None).
    { apply (cases_unwritten_none _ _ _ C6). intros t St. rewrite stale_max_sum_points, Evt in St.
      destruct (read_num t); discriminate St. }
    subst r6. f_equal. f_equal.
    + apply (cases_nz _ _ _ C7). intros t q St Hr. rewrite stale_min_points, Hr, Evt in St. exact St.
    + transitivity r8; [destruct r8; reflexivity|].
      apply (cases_exact _ _ _ C8). intros t St. rewrite stale_max_points, Evt in St.
      destruct (read_num t); discriminate St.
  - (* cumulative *)
    destruct (G_num $"min_sum_cost" None false) as (r3 & E3 & _);
      [in_num|rewrite assoc_min_sum_cost, Evt; reflexivity|reflexivity|].
    destruct (G_num $"max_sum_cost" None false) as (r4 & E4 & _);
      [in_num|rewrite assoc_max_sum_cost, Evt; reflexivity|reflexivity|].
    destruct (G_num $"min_sum_points" (e_min_total e) true) as (r5 & E5 & C5);
      [in_num|rewrite assoc_min_sum_points, Evt; reflexivity|exact Q3|].
    destruct (G_num $"max_sum_points" (e_max_total e) true) as (r6 & E6 & C6);
      [in_num|rewrite assoc_max_sum_points, Evt; reflexivity|exact Q4|].
    destruct (G_num $"min_points" (e_min_score e) true) as (r7 & E7 & C7);
      [in_num|rewrite assoc_min_points, Evt; reflexivity|exact Q5|].
    destruct (G_num $"max_points" (e_max_score e) true) as (r8 & E8 & C8);
      [in_num|rewrite assoc_max_points, Evt; reflexivity|exact Q6|].
    rewrite E3, E4, E5, E6, E7, E8. cbn [obind vtype_name]. change (vtype_of $"cumulative") with (Some Cumulative).
    cbn [obind].
    assert (R6 : r6 = nzq (e_max_total e)).
    { apply (cases_exact _ _ _ C6). intros t St. rewrite stale_max_sum_points, Evt in St.
      destruct (read_num t); discriminate St. }
    subst r6. f_equal. f_equal.
    + apply (cases_nz _ _ _ C5). intros t q St Hr. rewrite stale_min_sum_points, Hr, Evt in St. exact St.
    + apply (cases_nz _ _ _ C7). intros t q St Hr. rewrite stale_min_points, Hr, Evt in St. exact St.
    + apply (cases_drop (eq_total (nzq (e_max_total e))) _ _ _ C8).
      intros t q St Hr. rewrite stale_max_points, Hr, Evt in St. exact St.
  - (* ordinal *)
    destruct (G_num $"min_sum_cost" None false) as (r3 & E3 & _);
      [in_num|rewrite assoc_min_sum_cost, Evt; reflexivity|reflexivity|].
    destruct (G_num $"max_sum_cost" None false) as (r4 & E4 & _);
      [in_num|rewrite assoc_max_sum_cost, Evt; reflexivity|reflexivity|].
    destruct (G_num $"min_sum_points" None false) as (r5 & E5 & _);
      [in_num|rewrite assoc_min_sum_points, Evt; reflexivity|reflexivity|].
    destruct (G_num $"max_sum_points" None false) as (r6 & E6 & _);
      [in_num|rewrite assoc_max_sum_points, Evt; reflexivity|reflexivity|].
    destruct (G_num $"min_points" None false) as (r7 & E7 & _);
      [in_num|rewrite assoc_min_points, Evt; reflexivity|reflexivity|].
    destruct (G_num $"max_points" None false) as (r8 & E8 & _);
      [in_num|rewrite assoc_max_points, Evt; reflexivity|reflexivity|].
    rewrite E3, E4, E5, E6, E7, E8. cbn [obind vtype_name]. change (vtype_of $"ordinal") with (Some Ordinal).
    reflexivity.
Qed.

End Finish.

(* ============================================================================================ *)
(* E. the round trip                                                                              *)
(* ============================================================================================ *)
Section Main.
Variable e : election.
Hypothesis W : wf_facts e.

Lemma names_ok_of_wf n :
  In n (map p_name (e_projects e)) -> cell_ok n = true /\ no_comma n = true /\ n <> [].
Proof.
  intros H. apply in_map_iff in H as (p & <- & Hp).
  destruct (wf_project_inv p (wf_projects e W p Hp)) as (A & _ & B & C & _). auto.
Qed.

Lemma project_keys_facts :
  exists t0, project_keys show_num e = K_project_id :: K_cost :: t0
  /\ NoDup (project_keys show_num e)
  /\ Forall (fun k => stripped k = true) (project_keys show_num e)
  /\ (forall p, In p (e_projects e) -> forall k, In k (keys (project_dict p)) -> In k (project_keys show_num e)).
Proof.
  unfold project_keys.
  destruct (fold_add_keys_spec (map project_dict (e_projects e)) [K_project_id; K_cost]) as ((t & Ht) & Hnd & Hin).
  exists t. split; [rewrite Ht; reflexivity|]. split; [apply Hnd, nodup_strb_NoDup; reflexivity|]. split.
  - apply Forall_forall. intros k Hk. apply Hin in Hk as [Hk|(d & Hd & Hk)].
    + destruct Hk as [<-|[<-|[]]]; reflexivity.
    + apply in_map_iff in Hd as (p & <- & Hp).
      destruct (project_dict_spec p (wf_projects e W p Hp)) as (_ & Hok & _).
      unfold keys in Hk. apply in_map_iff in Hk as ([k' v] & <- & Hkv).
      rewrite Forall_forall in Hok. destruct (Hok _ Hkv) as (Hs & _). exact Hs.
  - intros p Hp k Hk. apply Hin. right. exists (project_dict p). split; [apply in_map; exact Hp|exact Hk].
Qed.

Lemma in_vote_dicts vt l : forall i d,
  In d (map fst (vote_dicts show_num show_nat vt i l)) -> exists j b, In b l /\ d = vote_dict vt j b.
Proof.
  induction l as [|b l IH]; intros i d; [simpl; tauto|]. rewrite vote_dicts_cons. simpl.
  intros [<-|H]; [exists i, b; split; [left|]; reflexivity|].
  destruct (IH _ _ H) as (j & b' & Hb & Hd). exists j, b'. split; [right; exact Hb|exact Hd].
Qed.

Lemma vote_keys_facts :
  exists t0, vote_keys show_num show_nat e = K_voter_id :: t0
  /\ NoDup (vote_keys show_num show_nat e)
  /\ Forall (fun k => stripped k = true) (vote_keys show_num show_nat e)
  /\ (forall d, In d (map fst (vote_dicts show_num show_nat (e_vtype e) 0 (e_ballots e))) ->
        forall k, In k (keys d) -> In k (vote_keys show_num show_nat e)).
Proof.
  unfold vote_keys.
  destruct (fold_add_keys_spec (map fst (vote_dicts show_num show_nat (e_vtype e) 0 (e_ballots e))) [K_voter_id])
    as ((t & Ht) & Hnd & Hin).
  exists t. split; [rewrite Ht; reflexivity|]. split; [apply Hnd, nodup_strb_NoDup; reflexivity|]. split.
  - apply Forall_forall. intros k Hk. apply Hin in Hk as [Hk|(d & Hd & Hk)].
    + destruct Hk as [<-|[]]; reflexivity.
    + apply in_vote_dicts in Hd as (j & b & Hb & ->).
      destruct (vote_dict_spec _ names_ok_of_wf (e_vtype e) j b (wf_ballots e W b Hb)) as (_ & Hok & _).
      unfold keys in Hk. apply in_map_iff in Hk as ([k' v] & <- & Hkv).
      rewrite Forall_forall in Hok. destruct (Hok _ Hkv) as (Hs & _). exact Hs.
  - intros d Hd k Hk. apply Hin. right. exists d. split; assumption.
Qed.

Lemma canon_unfold :
  canon show_num show_nat e
  = canon_mk e (map (canon_project show_num (project_keys show_num e)) (e_projects e))
      (canon_ballots show_num show_nat (e_vtype e) (vote_keys show_num show_nat e) 0 (e_ballots e)).
Proof. unfold canon, canon_mk, c_min_len, c_max_len, eq_total. destruct (e_vtype e); reflexivity. Qed.

Theorem parse_write_roundtrip_facts :
  parse_rows read_num read_nat (write_rows show_num show_nat e) = Some (canon show_num show_nat e).
Proof.
  destruct project_keys_facts as (pt & Hpk & Hpnd & Hps & Hpcov).
  destruct vote_keys_facts as (vt0 & Hvk & Hvnd & Hvs & Hvcov).
  rewrite parse_rows_spec. unfold write_rows.
  fold (project_keys show_num e). fold (vote_keys show_num show_nat e).
  set (pkeys := project_keys show_num e) in *. set (vkeys := vote_keys show_num show_nat e) in *.
  cbn [app].
  rewrite (loop_section SecNone [] _ $"META" [] _ _ SecMeta) by reflexivity.
  change (map (fun kv : str * str => [fst kv; snd kv]) (write_meta e)) with (map kvrow (write_meta e)).
  rewrite loop_meta_block by (apply write_meta_entries_ok; exact W).
  cbn [ps_meta ps_projects ps_ballots].
  rewrite (fold_dict_set (write_meta e) []) by (cbn [app]; apply write_meta_nodup).
  cbn [app].
  rewrite (loop_section SecMeta _ _ $"PROJECTS" [] _ _ SecProjects) by reflexivity.
  rewrite map_map.
  rewrite (loop_projects_block pkeys pt Hpk Hpnd Hps (e_projects e)).
  2: { apply Forall_forall. intros p Hp. split; [apply (wf_projects e W p Hp)|apply Hpcov; exact Hp]. }
  2: { cbn [ps_projects app]. apply (wf_names_nodup e W). }
  cbn [ps_meta ps_projects ps_ballots app].
  rewrite (loop_section SecProjects _ _ $"VOTES" [] _ _ SecVotes) by reflexivity.
  rewrite <- (app_nil_r (flat_map _ _)).
  rewrite (loop_votes_block _ names_ok_of_wf (e_vtype e) vkeys vt0 Hvk Hvnd Hvs (e_ballots e) 0).
  2: { apply Forall_forall. intros b Hb. apply (wf_ballots e W b Hb). }
  2: { exact Hvcov. }
  2: { cbn [ps_meta]. apply lookup_vote_type. }
  2: { cbn [ps_projects]. intros n Hn. rewrite map_map. cbn [canon_project p_name]. exact Hn. }
  cbn [PabulibM.parse_loop obind ps_meta ps_projects ps_ballots app].
  rewrite (finish_rt e W) by (rewrite map_length; reflexivity).
  rewrite canon_unfold. reflexivity.
Qed.

End Main.

(* M parse_write_roundtrip *)
Theorem parse_write_roundtrip e :
  wf_electionb show_num read_num show_nat read_nat e = true ->
  parse_rows read_num read_nat (write_rows show_num show_nat e) = Some (canon show_num show_nat e).
Proof. intros H. apply parse_write_roundtrip_facts. apply wf_election_facts. exact H. Qed.

(* ============================================================================================ *)
(* F. a second round trip changes nothing: [canon e] is well-formed and [canon] is idempotent up to   *)
(*    the order of dictionary entries                                                               *)
(* ============================================================================================ *)
Definition dict_equiv (d1 d2 : dict) : Prop :=
  NoDup (keys d1) /\ NoDup (keys d2) /\ forall k, lookup k d1 = lookup k d2.

Lemma NoDup_pairs (d : dict) : NoDup (keys d) -> NoDup d.
Proof. unfold keys. apply NoDup_map_inv. Qed.

Lemma dict_equiv_perm d1 d2 : dict_equiv d1 d2 -> Permutation d1 d2.
Proof.
  intros (H1 & H2 & H). apply NoDup_Permutation; try (apply NoDup_pairs; assumption).
  intros [k v]. split; intros Hin.
  - apply lookup_In. rewrite <- H. apply In_lookup; assumption.
  - apply lookup_In. rewrite H. apply In_lookup; assumption.
Qed.

Record project_equiv (p q : project) : Prop := {
  pe_name : p_name p = p_name q; pe_cost : p_cost p = p_cost q;
  pe_cats : p_cats p = p_cats q; pe_targets : p_targets p = p_targets q;
  pe_meta : Permutation (p_meta p) (p_meta q) }.

Record ballot_equiv (a b : ballot) : Prop := {
  be_projects : b_projects a = b_projects b; be_points : b_points a = b_points b;
  be_mult : b_mult a = b_mult b; be_meta : Permutation (b_meta a) (b_meta b) }.

(* equal up to the order of the entries of the dictionaries (Python dict equality) *)
Record election_equiv (a b : election) : Prop := {
  ee_meta : Permutation (e_meta a) (e_meta b);
  ee_projects : Forall2 project_equiv (e_projects a) (e_projects b);
  ee_budget : e_budget a = e_budget b; ee_vtype : e_vtype a = e_vtype b;
  ee_ballots : Forall2 ballot_equiv (e_ballots a) (e_ballots b);
  ee_l1 : e_min_len a = e_min_len b; ee_l2 : e_max_len a = e_max_len b;
  ee_l3 : e_min_cost a = e_min_cost b; ee_l4 : e_max_cost a = e_max_cost b;
  ee_l5 : e_min_total a = e_min_total b; ee_l6 : e_max_total a = e_max_total b;
  ee_l7 : e_min_score a = e_min_score b; ee_l8 : e_max_score a = e_max_score b }.

(* ---- the dictionaries of the writer as filters ---- *)
Definition pd_keep (d : dict) (kv : str * str) : bool :=
  negb (has_key (fst kv) d || str_eqb (fst kv) K_categories || str_eqb (fst kv) K_targets).

Lemma has_key_snoc k d kv : k <> fst kv -> has_key k (d ++ [kv]) = has_key k d.
Proof.
  intros H. unfold has_key. rewrite lookup_app. destruct (lookup k d); [reflexivity|].
  destruct kv as [k' v']. simpl in *. apply str_eqb_neq in H. now rewrite H.
Qed.

Lemma pd_fold_filter m : NoDup (keys m) -> forall d, fold_left pd_step m d = d ++ filter (pd_keep d) m.
Proof.
  induction m as [|kv m IH]; intros Hnd d; simpl; [now rewrite app_nil_r|].
  inversion Hnd as [|? ? Hnin Hnd']; subst. rewrite IH by assumption.
  unfold pd_step, pd_keep at 2.
  destruct (has_key (fst kv) d || str_eqb (fst kv) K_categories || str_eqb (fst kv) K_targets) eqn:E; simpl.
  - reflexivity.
  - rewrite <- app_assoc. simpl. f_equal. f_equal. apply filter_ext_in. intros kv' Hin.
    unfold pd_keep. rewrite has_key_snoc; [reflexivity|].
    intros Heq. apply Hnin. rewrite <- Heq. apply (in_map fst) in Hin. exact Hin.
Qed.

Definition vd_keep (d : dict) (kv : str * str) : bool := negb (has_key (fst kv) d).

Lemma vd_fold_filter m : NoDup (keys m) -> forall d, fold_left vd_step m d = d ++ filter (vd_keep d) m.
Proof.
  induction m as [|kv m IH]; intros Hnd d; simpl; [now rewrite app_nil_r|].
  inversion Hnd as [|? ? Hnin Hnd']; subst. rewrite IH by assumption.
  unfold vd_step, vd_keep at 2. destruct (has_key (fst kv) d) eqn:E; simpl.
  - reflexivity.
  - rewrite <- app_assoc. simpl. f_equal. f_equal. apply filter_ext_in. intros kv' Hin.
    unfold vd_keep. rewrite has_key_snoc; [reflexivity|].
    intros Heq. apply Hnin. rewrite <- Heq. apply (in_map fst) in Hin. exact Hin.
Qed.

Lemma lookup_project_dict p k : NoDup (keys (p_meta p)) ->
  lookup k (project_dict p)
  = match lookup k (pd_base p) with
    | Some v => Some v
    | None => if str_eqb k K_categories || str_eqb k K_targets then None else lookup k (p_meta p)
    end.
Proof.
  intros Hnd. rewrite project_dict_unfold, pd_fold_filter by assumption. rewrite lookup_app.
  destruct (lookup k (pd_base p)) as [v|] eqn:E; [reflexivity|].
  unfold pd_keep.
  rewrite (lookup_filter_key (fun k => negb (has_key k (pd_base p) || str_eqb k K_categories || str_eqb k K_targets))).
  unfold has_key. rewrite E. simpl. destruct (str_eqb k K_categories || str_eqb k K_targets); reflexivity.
Qed.

Lemma lookup_vote_dict vt i b k : NoDup (keys (b_meta b)) ->
  lookup k (vote_dict vt i b)
  = match lookup k (vd_base vt i b) with Some v => Some v | None => lookup k (b_meta b) end.
Proof.
  intros Hnd. rewrite vote_dict_unfold, vd_fold_filter by assumption. rewrite lookup_app.
  destruct (lookup k (vd_base vt i b)) as [v|] eqn:E; [reflexivity|].
  unfold vd_keep. rewrite (lookup_filter_key (fun k => negb (has_key k (vd_base vt i b)))).
  unfold has_key. now rewrite E.
Qed.

(* ---- projects ---- *)
Lemma lookup_row_dict_cov ks d k :
  NoDup ks -> (forall k, In k (keys d) -> In k ks) -> lookup k (row_dict ks d) = lookup k d.
Proof.
  intros Hnd Hcov. rewrite lookup_row_dict by assumption.
  destruct (lookup k d) as [v|] eqn:E.
  - assert (M : mem_str k ks = true) by (apply mem_str_In, Hcov; eapply lookup_Some_key; eauto). now rewrite M.
  - destruct (mem_str k ks); reflexivity.
Qed.

Lemma In_row_dict ks d kv : In kv (row_dict ks d) -> In kv d.
Proof.
  induction ks as [|k ks IH]; [simpl; tauto|]. rewrite row_dict_cons. intros H. apply in_app_or in H as [H|H].
  - destruct (lookup k d) as [v|] eqn:E; simpl in H; [|tauto]. destruct H as [<-|[]]. apply lookup_In; exact E.
  - apply IH; exact H.
Qed.

Section CanonProject.
Variable p : project.
Variable K : list str.
Hypothesis Wp : wf_project p = true.
Hypothesis HK : NoDup K.
Hypothesis Hcov : forall k, In k (keys (project_dict p)) -> In k K.

Let p' := canon_project show_num K p.

Lemma canon_project_meta_lookup k :
  lookup k (p_meta p') = if is_list_key k then None else lookup k (project_dict p).
Proof.
  unfold p', canon_project. cbn [p_meta].
  rewrite (lookup_filter_key (fun k => negb (is_list_key k))).
  destruct (is_list_key k); [reflexivity|]. simpl. apply lookup_row_dict_cov; assumption.
Qed.

Lemma canon_project_meta_nodup : NoDup (keys (p_meta p')).
Proof. unfold p', canon_project. cbn [p_meta]. apply NoDup_keys_filter, NoDup_keys_row_dict; assumption. Qed.

Lemma lookup_name_base : lookup K_name (pd_base p) = lookup K_name (p_meta p).
Proof.
  unfold pd_base. destruct (lookup K_name (p_meta p)) as [v|] eqn:E;
    destruct (p_cats p); destruct (p_targets p); reflexivity.
Qed.

Lemma canon_project_base : pd_base p' = pd_base p.
Proof.
  pose proof (wf_project_inv p Wp) as (_ & _ & _ & _ & _ & _ & _ & Hnd & _).
  assert (E : lookup K_name (p_meta p') = lookup K_name (p_meta p)).
  { rewrite canon_project_meta_lookup. change (is_list_key K_name) with false. cbv iota.
    rewrite lookup_project_dict by assumption. rewrite lookup_name_base.
    destruct (lookup K_name (p_meta p)); reflexivity. }
  unfold pd_base. rewrite E. reflexivity.
Qed.

Lemma canon_project_dict_lookup k : lookup k (project_dict p') = lookup k (project_dict p).
Proof.
  pose proof (wf_project_inv p Wp) as (_ & _ & _ & _ & _ & _ & _ & Hnd & Hm).
  rewrite (lookup_project_dict p') by apply canon_project_meta_nodup.
  rewrite (lookup_project_dict p) by assumption. rewrite canon_project_base.
  destruct (lookup k (pd_base p)) as [v|] eqn:E; [reflexivity|].
  destruct (str_eqb k K_categories || str_eqb k K_targets) eqn:E2; [reflexivity|].
  rewrite canon_project_meta_lookup. destruct (is_list_key k) eqn:E3.
  - (* category / target: not a key of the metadata of a well-formed project *)
    destruct (lookup k (p_meta p)) as [v|] eqn:E4; [|reflexivity].
    apply lookup_In in E4. destruct (Hm _ E4) as (_ & Hl & _). simpl in Hl. congruence.
  - rewrite (lookup_project_dict p) by assumption. now rewrite E, E2.
Qed.

Lemma canon_project_wf : wf_project p' = true.
Proof.
  pose proof (wf_project_inv p Wp) as (A1 & A2 & A3 & A4 & A5 & A6 & A7 & _ & _).
  destruct (project_dict_spec p Wp) as (_ & Hok & _).
  unfold wf_project. unfold p' at 1 2 3 4 5 6 7. cbn [canon_project p_name p_cost p_cats p_targets].
  rewrite A1, A2, A3, A5, A6, A7. destruct (p_name p) as [|c r] eqn:En; [contradiction|]. cbn [andb].
  apply andb_true_iff. split; [apply nodup_strb_NoDup, canon_project_meta_nodup|].
  apply forallb_forall. intros [k v] Hkv. unfold p', canon_project in Hkv. cbn [p_meta] in Hkv.
  apply filter_In in Hkv as (Hin & Hnl). apply In_row_dict in Hin. cbn [fst snd] in *.
  rewrite Forall_forall in Hok. destruct (Hok _ Hin) as (Hs & _ & _ & _ & _ & Hoth). cbn [fst snd] in *.
  rewrite Hs, Hnl. apply negb_true_iff, is_list_key_false in Hnl as (L1 & _ & L3 & _).
  rewrite (Hoth L1 L3). reflexivity.
Qed.

End CanonProject.

Lemma canon_project_idem p K K' :
  wf_project p = true -> NoDup K -> (forall k, In k (keys (project_dict p)) -> In k K) ->
  NoDup K' -> (forall k, In k (keys (project_dict (canon_project show_num K p))) -> In k K') ->
  project_equiv (canon_project show_num K' (canon_project show_num K p)) (canon_project show_num K p).
Proof.
  intros Wp HK Hcov HK' Hcov'. constructor; try reflexivity.
  apply dict_equiv_perm. split; [|split].
  - apply NoDup_keys_filter, NoDup_keys_row_dict; assumption.
  - apply canon_project_meta_nodup; assumption.
  - intros k. rewrite (canon_project_meta_lookup (canon_project show_num K p) K' HK' Hcov').
    rewrite (canon_project_meta_lookup p K HK Hcov).
    destruct (is_list_key k); [reflexivity|]. apply canon_project_dict_lookup; assumption.
Qed.

(* ---- ballots ---- *)
Definition popped (vt : vtype) (k : str) : bool :=
  str_eqb k K_vote || (is_cardinal vt && str_eqb k K_points).

Section CanonBallot.
Variable names : list str.
Hypothesis names_ok : forall n, In n names -> cell_ok n = true /\ no_comma n = true /\ n <> [].
Variable vt : vtype.
Variable i : nat.
Variable b : ballot.
Variable VK : list str.
Hypothesis Wb : wf_ballot vt names b = true.
Hypothesis HVK : NoDup VK.
Hypothesis Hcov : forall k, In k (keys (vote_dict vt i b)) -> In k VK.

Let b' := canon_ballot show_num show_nat vt VK i b.
Let vd := vote_dict vt i b.

Lemma canon_ballot_meta_lookup k :
  lookup k (b_meta b') = if popped vt k then None else lookup k vd.
Proof.
  unfold b', canon_ballot, popped. cbn [b_meta].
  rewrite (lookup_filter_key (fun k => negb (str_eqb k K_vote || is_cardinal vt && str_eqb k K_points))).
  destruct (str_eqb k K_vote || is_cardinal vt && str_eqb k K_points); [reflexivity|]. simpl.
  apply lookup_row_dict_cov; assumption.
Qed.

Lemma canon_ballot_meta_nodup : NoDup (keys (b_meta b')).
Proof. unfold b', canon_ballot. cbn [b_meta]. apply NoDup_keys_filter, NoDup_keys_row_dict; assumption. Qed.

Lemma bmeta_nodup : NoDup (keys (b_meta b)).
Proof. apply wf_ballot_inv in Wb. tauto. Qed.

Lemma lookup_opt_key k :
  k = $"age" \/ k = $"sex" \/ k = $"voting_method" -> lookup k vd = lookup k (b_meta b).
Proof.
  intros Hk. unfold vd. rewrite lookup_vote_dict by apply bmeta_nodup. unfold vd_base.
  destruct (lookup $"age" (b_meta b)) as [v1|] eqn:E1;
    destruct (lookup $"sex" (b_meta b)) as [v2|] eqn:E2;
    destruct (lookup $"voting_method" (b_meta b)) as [v3|] eqn:E3;
    destruct (is_cardinal vt);
    destruct Hk as [-> | [-> | ->]]; rewrite ?E1, ?E2, ?E3; reflexivity.
Qed.

Definition the_id : str := match lookup K_voter_id (b_meta b) with Some v => v | None => show_nat i end.

Lemma lookup_voter_id : lookup K_voter_id vd = Some the_id.
Proof.
  unfold vd. rewrite lookup_vote_dict by apply bmeta_nodup. unfold vd_base, the_id.
  destruct (lookup $"age" (b_meta b)); destruct (lookup $"sex" (b_meta b));
    destruct (lookup $"voting_method" (b_meta b)); destruct (is_cardinal vt); reflexivity.
Qed.

Lemma canon_ballot_points : b_points b' = b_points b.
Proof.
  unfold b', canon_ballot. cbn [b_points]. pose proof (wf_ballot_inv _ _ _ Wb) as (_ & _ & H & _).
  destruct (is_cardinal vt); [reflexivity|]. now rewrite H.
Qed.

Lemma canon_ballot_base j : vd_base vt j b' = vd_base vt i b.
Proof.
  assert (Eid : lookup K_voter_id (b_meta b') = Some the_id).
  { rewrite canon_ballot_meta_lookup. unfold popped.
    change (str_eqb K_voter_id K_vote) with false. change (str_eqb K_voter_id K_points) with false.
    rewrite andb_false_r. cbn [orb]. apply lookup_voter_id. }
  assert (Eopt : forall k, k = $"age" \/ k = $"sex" \/ k = $"voting_method" ->
                           lookup k (b_meta b') = lookup k (b_meta b)).
  { intros k Hk. rewrite canon_ballot_meta_lookup. rewrite <- (lookup_opt_key k Hk).
    assert (P : popped vt k = false).
    { unfold popped. destruct Hk as [-> | [-> | ->]];
        match goal with |- str_eqb ?a K_vote || _ = false =>
          change (str_eqb a K_vote) with false; change (str_eqb a K_points) with false end;
        now rewrite andb_false_r. }
    now rewrite P. }
  unfold vd_base. rewrite Eid, !Eopt by tauto. rewrite canon_ballot_points.
  unfold b' at 1. cbn [canon_ballot b_projects]. reflexivity.
Qed.

Lemma base_has_popped k : popped vt k = true -> lookup k (vd_base vt i b) <> None.
Proof.
  destruct (vd_base_spec names names_ok vt i b Wb) as (Hnd & _ & _ & Hv & Hp).
  unfold popped. intros H. apply orb_true_iff in H as [H|H].
  - apply str_eqb_eq in H. subst k. rewrite (In_lookup _ _ _ Hnd Hv). discriminate.
  - apply andb_true_iff in H as (Hc & H). apply str_eqb_eq in H. subst k.
    rewrite (In_lookup _ _ _ Hnd (Hp Hc)). discriminate.
Qed.

Lemma canon_ballot_dict_lookup j k : lookup k (vote_dict vt j b') = lookup k vd.
Proof.
  rewrite (lookup_vote_dict vt j b') by apply canon_ballot_meta_nodup.
  unfold vd. rewrite (lookup_vote_dict vt i b) by apply bmeta_nodup. rewrite canon_ballot_base.
  destruct (lookup k (vd_base vt i b)) as [v|] eqn:E; [reflexivity|].
  rewrite canon_ballot_meta_lookup. destruct (popped vt k) eqn:P.
  - exfalso. apply (base_has_popped k P). exact E.
  - unfold vd. rewrite (lookup_vote_dict vt i b) by apply bmeta_nodup. now rewrite E.
Qed.

Lemma canon_ballot_wf : wf_ballot vt names b' = true.
Proof.
  pose proof (wf_ballot_inv _ _ _ Wb) as (A1 & A2 & A3 & A4 & _ & A6 & A7).
  destruct (vote_dict_spec names names_ok vt i b Wb) as (_ & Hok & _).
  apply wf_ballot_intro.
  - exact A1.
  - exact A2.
  - rewrite canon_ballot_points. exact A3.
  - rewrite canon_ballot_points. exact A4.
  - apply canon_ballot_meta_nodup.
  - intros [k x] Hkx. unfold b', canon_ballot in Hkx. cbn [b_meta] in Hkx.
    apply filter_In in Hkx as (Hin & Hp). apply In_row_dict in Hin. cbn [fst snd] in *.
    rewrite Forall_forall in Hok. destruct (Hok _ Hin) as (Hs & Hc). cbn [fst snd] in *.
    apply negb_true_iff, orb_false_iff in Hp as (P1 & P2).
    split; [exact Hs|]. split; [apply str_eqb_neq; exact P1|]. split; [|exact Hc].
    destruct (is_cardinal vt) eqn:Ec; [apply str_eqb_neq; exact P2|].
    (* not cardinal: the dictionary has no points entry at all *)
    intros ->.
    pose proof (lookup_vote_dict vt i b K_points bmeta_nodup) as L.
    assert (Lb : lookup K_points (vd_base vt i b) = None).
    { unfold vd_base. rewrite Ec.
      destruct (lookup $"age" (b_meta b)); destruct (lookup $"sex" (b_meta b));
        destruct (lookup $"voting_method" (b_meta b)); reflexivity. }
    rewrite Lb in L.
    assert (Lm : lookup K_points (b_meta b) = None).
    { destruct (lookup K_points (b_meta b)) eqn:E'; [|reflexivity]. apply lookup_In in E'.
      destruct (A6 _ E') as (_ & _ & Hne & _). exfalso. apply Hne. reflexivity. }
    rewrite Lm in L. apply lookup_None in L. apply L. apply (in_map fst) in Hin. exact Hin.
  - intros x Hx. rewrite canon_ballot_meta_lookup in Hx. unfold popped in Hx.
    change (str_eqb K_voter_id K_vote) with false in Hx. change (str_eqb K_voter_id K_points) with false in Hx.
    rewrite andb_false_r in Hx. cbn [orb] in Hx. rewrite lookup_voter_id in Hx. injection Hx as <-.
    unfold the_id. destruct (lookup K_voter_id (b_meta b)) as [y|] eqn:E; [apply A7; reflexivity|apply nat_text].
  - unfold b', canon_ballot. cbn [b_mult]. lia.
Qed.

End CanonBallot.

Lemma canon_ballot_idem names vt i b VK VK' j :
  (forall n, In n names -> cell_ok n = true /\ no_comma n = true /\ n <> []) ->
  wf_ballot vt names b = true -> NoDup VK -> (forall k, In k (keys (vote_dict vt i b)) -> In k VK) ->
  NoDup VK' -> (forall k, In k (keys (vote_dict vt i b)) -> In k VK') ->
  ballot_equiv (canon_ballot show_num show_nat vt VK' j (canon_ballot show_num show_nat vt VK i b))
               (canon_ballot show_num show_nat vt VK i b).
Proof.
  intros Hn Wb HVK Hcov HVK' Hcov'.
  assert (Hcov2 : forall k, In k (keys (vote_dict vt j (canon_ballot show_num show_nat vt VK i b))) -> In k VK').
  { intros k Hk. apply Hcov'. apply has_key_true. apply has_key_true in Hk. unfold has_key in *.
    rewrite (canon_ballot_dict_lookup names Hn vt i b VK Wb HVK Hcov j k) in Hk. exact Hk. }
  constructor.
  - reflexivity.
  - unfold canon_ballot at 1. cbn [b_points]. rewrite (canon_ballot_points names vt i b VK Wb).
    pose proof (wf_ballot_inv _ _ _ Wb) as (_ & _ & H & _). destruct (is_cardinal vt); [reflexivity|now rewrite H].
  - reflexivity.
  - apply dict_equiv_perm. split; [|split].
    + apply canon_ballot_meta_nodup; assumption.
    + apply canon_ballot_meta_nodup; assumption.
    + intros k. rewrite (canon_ballot_meta_lookup vt j _ VK' HVK' Hcov2 k).
      rewrite (canon_ballot_meta_lookup vt i b VK HVK Hcov k).
      destruct (popped vt k); [reflexivity|].
      apply (canon_ballot_dict_lookup names Hn vt i b VK Wb HVK Hcov).
Qed.

Lemma vote_dicts_app vt l1 : forall j l2,
  vote_dicts show_num show_nat vt j (l1 ++ l2)
  = vote_dicts show_num show_nat vt j l1 ++ vote_dicts show_num show_nat vt (j + List.length l1) l2.
Proof.
  induction l1 as [|b l1 IH]; intros j l2; simpl.
  - now rewrite Nat.add_0_r.
  - rewrite IH. replace (j + S (List.length l1)) with (S j + List.length l1) by lia. reflexivity.
Qed.

Lemma canon_ballots_app vt K l1 : forall j l2,
  canon_ballots show_num show_nat vt K j (l1 ++ l2)
  = canon_ballots show_num show_nat vt K j l1 ++ canon_ballots show_num show_nat vt K (j + List.length l1) l2.
Proof.
  induction l1 as [|b l1 IH]; intros j l2; simpl.
  - now rewrite Nat.add_0_r.
  - rewrite IH, <- app_assoc. replace (j + S (List.length l1)) with (S j + List.length l1) by lia. reflexivity.
Qed.

Section CanonBallots.
Variable names : list str.
Hypothesis names_ok : forall n, In n names -> cell_ok n = true /\ no_comma n = true /\ n <> [].
Variable vt : vtype.
Variable VK VK' : list str.
Hypothesis HVK : NoDup VK.
Hypothesis HVK' : NoDup VK'.

Definition covers (K : list str) (ds : list dict) : Prop :=
  forall d, In d ds -> forall k, In k (keys d) -> In k K.

Lemma canon_repeat_idem i b m : forall j,
  wf_ballot vt names b = true ->
  (forall k, In k (keys (vote_dict vt i b)) -> In k VK) ->
  (forall k, In k (keys (vote_dict vt i b)) -> In k VK') ->
  Forall2 ballot_equiv
    (canon_ballots show_num show_nat vt VK' j (repeat (canon_ballot show_num show_nat vt VK i b) m))
    (repeat (canon_ballot show_num show_nat vt VK i b) m).
Proof.
  intros j Wb Hc Hc'. revert j. induction m as [|m IH]; intros j; simpl; [constructor|].
  constructor; [|apply IH].
  apply (canon_ballot_idem names vt i b VK VK' j names_ok Wb HVK Hc HVK' Hc').
Qed.

Lemma canon_ballots_idem l : forall i j,
  Forall (fun b => wf_ballot vt names b = true) l ->
  covers VK (map fst (vote_dicts show_num show_nat vt i l)) ->
  covers VK' (map fst (vote_dicts show_num show_nat vt i l)) ->
  Forall2 ballot_equiv
    (canon_ballots show_num show_nat vt VK' j (canon_ballots show_num show_nat vt VK i l))
    (canon_ballots show_num show_nat vt VK i l).
Proof.
  induction l as [|b l IH]; intros i j Hl Hc Hc'; [constructor|].
  inversion Hl as [|? ? Wb Hl']; subst. rewrite vote_dicts_cons in Hc, Hc'. cbn [canon_ballots].
  rewrite canon_ballots_app. apply Forall2_app.
  - apply canon_repeat_idem; [exact Wb| |].
    + intros k Hk. apply (Hc (vote_dict vt i b)); [left; reflexivity|exact Hk].
    + intros k Hk. apply (Hc' (vote_dict vt i b)); [left; reflexivity|exact Hk].
  - apply IH; [exact Hl'| |]; intros d Hd; [apply Hc|apply Hc']; right; exact Hd.
Qed.

(* the written dictionaries of the canonical ballots have the keys of the original ones *)
Lemma canon_dicts_cover l : forall i j,
  Forall (fun b => wf_ballot vt names b = true) l ->
  covers VK (map fst (vote_dicts show_num show_nat vt i l)) ->
  covers VK' (map fst (vote_dicts show_num show_nat vt j (canon_ballots show_num show_nat vt VK i l))) ->
  covers VK' (map fst (vote_dicts show_num show_nat vt i l)).
Proof.
  induction l as [|b l IH]; intros i j Hl Hc Hc'; [intros d []|].
  inversion Hl as [|? ? Wb Hl']; subst. rewrite vote_dicts_cons in *. cbn [canon_ballots] in Hc'.
  rewrite vote_dicts_app, map_app in Hc'.
  assert (Hcb : forall k, In k (keys (vote_dict vt i b)) -> In k VK).
  { intros k Hk. apply (Hc (vote_dict vt i b)); [left; reflexivity|exact Hk]. }
  intros d [<-|Hd] k Hk.
  - (* the first copy of the canonical ballot carries the same keys *)
    pose proof (wf_ballot_inv _ _ _ Wb) as (_ & _ & _ & _ & _ & _ & _).
    assert (Hm : 1 <= b_mult b).
    { unfold wf_ballot in Wb. rewrite !andb_true_iff in Wb. destruct Wb as (_ & Hm). apply Nat.leb_le; exact Hm. }
    destruct (b_mult b) as [|m] eqn:Em; [lia|]. cbn [repeat] in Hc'. rewrite vote_dicts_cons in Hc'.
    apply (Hc' (vote_dict vt j (canon_ballot show_num show_nat vt VK i b))).
    + apply in_or_app. left. left. reflexivity.
    + apply has_key_true. apply has_key_true in Hk. unfold has_key in *.
      rewrite (canon_ballot_dict_lookup names names_ok vt i b VK Wb HVK Hcb j k). exact Hk.
  - eapply (IH (S i)); [exact Hl'| | |exact Hd|exact Hk].
    + intros d' Hd'. apply Hc. right; exact Hd'.
    + intros d' Hd'. apply Hc'. apply in_or_app. right. exact Hd'.
Qed.

End CanonBallots.

(* ---- the fields of [canon e] ---- *)
Section CanonFields.
Variable e : election.
Local Notation ce := (canon show_num show_nat e).
Local Notation PK := (project_keys show_num e).
Local Notation VKe := (vote_keys show_num show_nat e).

Definition cl_min_cost : option Q := match e_vtype e with Approval => nzq (e_min_cost e) | _ => None end.
Definition cl_max_cost : option Q :=
  match e_vtype e with
  | Approval => drop_if (fun q => Qle_bool (e_budget e) q) (nzq (e_max_cost e)) | _ => None end.
Definition cl_min_total : option Q := match e_vtype e with Cumulative => nzq (e_min_total e) | _ => None end.
Definition cl_max_total : option Q := match e_vtype e with Cumulative => nzq (e_max_total e) | _ => None end.
Definition cl_min_score : option Q :=
  match e_vtype e with Scoring | Cumulative => nzq (e_min_score e) | _ => None end.
Definition cl_max_score : option Q :=
  match e_vtype e with
  | Scoring => nzq (e_max_score e)
  | Cumulative => drop_if (eq_total (nzq (e_max_total e))) (nzq (e_max_score e))
  | _ => None end.

Lemma canon_meta : e_meta ce = write_meta e.
Proof. unfold canon. destruct (e_vtype e); reflexivity. Qed.
Lemma canon_projects : e_projects ce = map (canon_project show_num PK) (e_projects e).
Proof. unfold canon. destruct (e_vtype e); reflexivity. Qed.
Lemma canon_budget : e_budget ce = e_budget e.
Proof. unfold canon. destruct (e_vtype e); reflexivity. Qed.
Lemma canon_vtype : e_vtype ce = e_vtype e.
Proof. unfold canon. destruct (e_vtype e) eqn:E; reflexivity. Qed.
Lemma canon_ballots_field : e_ballots ce = canon_ballots show_num show_nat (e_vtype e) VKe 0 (e_ballots e).
Proof. unfold canon. destruct (e_vtype e); reflexivity. Qed.
Lemma canon_min_len : e_min_len ce = c_min_len e.
Proof. unfold canon, c_min_len. destruct (e_vtype e); reflexivity. Qed.
Lemma canon_max_len : e_max_len ce = c_max_len e.
Proof. unfold canon, c_max_len. destruct (e_vtype e); reflexivity. Qed.
Lemma canon_min_cost : e_min_cost ce = cl_min_cost.
Proof. unfold canon, cl_min_cost. destruct (e_vtype e); reflexivity. Qed.
Lemma canon_max_cost : e_max_cost ce = cl_max_cost.
Proof. unfold canon, cl_max_cost. destruct (e_vtype e); reflexivity. Qed.
Lemma canon_min_total : e_min_total ce = cl_min_total.
Proof. unfold canon, cl_min_total. destruct (e_vtype e); reflexivity. Qed.
Lemma canon_max_total : e_max_total ce = cl_max_total.
Proof. unfold canon, cl_max_total. destruct (e_vtype e); reflexivity. Qed.
Lemma canon_min_score : e_min_score ce = cl_min_score.
Proof. unfold canon, cl_min_score. destruct (e_vtype e); reflexivity. Qed.
Lemma canon_max_score : e_max_score ce = cl_max_score.
Proof. unfold canon, cl_max_score, eq_total. destruct (e_vtype e); reflexivity. Qed.

Lemma canon_names : map p_name (e_projects ce) = map p_name (e_projects e).
Proof. rewrite canon_projects, map_map. reflexivity. Qed.

Lemma num_ballots_app l1 l2 : num_ballots (l1 ++ l2) = num_ballots l1 + num_ballots l2.
Proof. induction l1 as [|b l1 IH]; simpl; [reflexivity|]. rewrite IH. lia. Qed.

Lemma num_ballots_repeat b m : b_mult b = 1 -> num_ballots (repeat b m) = m.
Proof. intros H. induction m as [|m IH]; simpl; [reflexivity|]. rewrite H, IH. reflexivity. Qed.

Lemma num_ballots_canon vt K l : forall i,
  num_ballots (canon_ballots show_num show_nat vt K i l) = num_ballots l.
Proof.
  induction l as [|b l IH]; intros i; simpl; [reflexivity|].
  rewrite num_ballots_app, num_ballots_repeat by reflexivity. now rewrite IH.
Qed.

Lemma in_canon_ballots vt K l : forall i b',
  In b' (canon_ballots show_num show_nat vt K i l) ->
  exists j b, In b l /\ b' = canon_ballot show_num show_nat vt K j b
              /\ In (vote_dict vt j b) (map fst (vote_dicts show_num show_nat vt i l)).
Proof.
  induction l as [|b l IH]; intros i b' H; [destruct H|]. cbn [canon_ballots] in H.
  apply in_app_or in H as [H|H].
  - apply repeat_spec in H. exists i, b. split; [left; reflexivity|]. split; [exact H|].
    rewrite vote_dicts_cons. left. reflexivity.
  - destruct (IH _ _ H) as (j & b0 & Hb0 & Hb' & Hd). exists j, b0.
    split; [right; exact Hb0|]. split; [exact Hb'|]. rewrite vote_dicts_cons. right. exact Hd.
Qed.

End CanonFields.

(* ---- [canon e] is well-formed: the META limit entries ---- *)
Section CanonLimits.
Variable e : election.
Hypothesis W : wf_facts e.
Local Notation ce := (canon show_num show_nat e).
Local Notation stale_ok := (PabulibM.stale_ok read_num read_nat).
Local Notation get_num := (PabulibM.get_num read_num).
Local Notation get_nat := (PabulibM.get_nat read_nat).

Lemma has_key_slot (e0 : election) k o :
  assoc k (slots e0) = Some o ->
  has_key k (compact (slots e0)) = match o with Some _ => true | None => false end.
Proof.
  intros H. unfold has_key. rewrite lookup_compact by apply slots_nodup. rewrite H. destruct o; reflexivity.
Qed.

Lemma has_key_compact (e0 : election) k :
  has_key k (compact (slots e0)) = match assoc k (slots e0) with Some (Some _) => true | _ => false end.
Proof.
  unfold has_key. rewrite lookup_compact by apply slots_nodup. destruct (assoc k (slots e0)) as [[v|]|]; reflexivity.
Qed.

Lemma nzq_idem o : nzq (nzq o) = nzq o.
Proof. destruct o as [q|]; [|reflexivity]. unfold nzq, drop_if. destruct (Qzero_b q) eqn:Z; [reflexivity|now rewrite Z]. Qed.

Lemma nzq_nonzero o q : nzq o = Some q -> Qzero_b q = false.
Proof. destruct o as [q'|]; [|discriminate]. unfold nzq, drop_if. destruct (Qzero_b q') eqn:Z; [discriminate|]. intros [= <-]. exact Z. Qed.

Lemma num_slot_some q : Qzero_b q = false -> PabulibM.num_slot show_num (Some q) = Some (show_num q).
Proof. intros Z. unfold PabulibM.num_slot. now rewrite Z. Qed.

Lemma drop_if_some (f : Q -> bool) o q : drop_if f o = Some q -> o = Some q /\ f q = false.
Proof. destruct o as [q'|]; [|discriminate]. simpl. destruct (f q') eqn:E; [discriminate|]. intros [= <-]. auto. Qed.

Lemma get_num_inv k t r :
  get_num k (write_meta e) = Some r -> lookup k (write_meta e) = Some t ->
  exists q, read_num t = Some q /\ r = Some q.
Proof.
  unfold PabulibM.get_num. intros H Ht. rewrite Ht in H. destruct (read_num t) as [q|]; [|discriminate].
  injection H as <-. exists q. auto.
Qed.

Ltac in_num := cbn [In num_limit_keys]; tauto.

Lemma canon_limit_ok k t :
  In k limit_keys -> lookup k (write_meta e) = Some t ->
  has_key k (compact (slots ce)) = true \/ stale_ok ce k t = true.
Proof.
  pose proof (wf_q1 e W) as Q1. pose proof (wf_q2 e W) as Q2. pose proof (wf_q3 e W) as Q3.
  pose proof (wf_q4 e W) as Q4. pose proof (wf_q5 e W) as Q5. pose proof (wf_q6 e W) as Q6.
  intros Hk Ht. cbn [In limit_keys] in Hk.
  destruct Hk as [<-|[<-|[<-|[<-|[<-|[<-|[<-|[<-|[]]]]]]]]].
  - (* min_length *)
    rewrite (has_key_slot ce _ _ (assoc_min_length ce)), canon_min_len, stale_min_length.
    destruct (G_min_len e W) as (o & Eo & Do). unfold PabulibM.get_nat in Eo. rewrite Ht in Eo.
    destruct (read_nat t) as [n|]; [|discriminate]. injection Eo as <-.
    destruct (c_min_len e) as [[|[|m]]|] eqn:Ec; unfold c_min_len in Ec.
    1,2: destruct (e_min_len e) as [[|[|?]]|]; discriminate Ec.
    + left. reflexivity.
    + right. simpl in Do. destruct n as [|[|n]]; try discriminate Do; reflexivity.
  - (* max_length *)
    rewrite (has_key_slot ce _ _ (assoc_max_length ce)), canon_max_len, stale_max_length.
    destruct (G_max_len e W) as (o & Eo & Do). unfold PabulibM.get_nat in Eo. rewrite Ht in Eo.
    destruct (read_nat t) as [n|]; [|discriminate]. injection Eo as <-.
    rewrite canon_projects, map_length.
    destruct (c_max_len e) as [[|m]|] eqn:Ec.
    + unfold c_max_len in Ec. destruct (e_max_len e) as [[|?]|]; try discriminate Ec.
      destruct (Nat.leb (List.length (e_projects e)) (S n0)); discriminate Ec.
    + left. reflexivity.
    + right. simpl in Do. destruct (Nat.leb (List.length (e_projects e)) n); [reflexivity|discriminate Do].
  - (* min_sum_cost *)
    rewrite has_key_compact, assoc_min_sum_cost, canon_vtype, canon_min_cost, stale_min_sum_cost, canon_vtype.
    unfold cl_min_cost. destruct (e_vtype e) eqn:Evt.
    + destruct (G_num e W $"min_sum_cost" (e_min_cost e) true) as (r & Er & C);
        [in_num|rewrite assoc_min_sum_cost, Evt; reflexivity|exact Q1|].
      destruct (get_num_inv _ _ _ Er Ht) as (q & Hr & ->). rewrite Hr.
      pose proof (cases_nz e _ _ _ C) as D. simpl in D.
      destruct (Qzero_b q) eqn:Z; [right; reflexivity|]. left.
      rewrite <- D by (intros t' q' St Hr'; rewrite stale_min_sum_cost, Hr', Evt in St; exact St).
      now rewrite num_slot_some.
    + destruct (G_num e W $"min_sum_cost" None false) as (r & Er & _);
        [in_num|rewrite assoc_min_sum_cost, Evt; reflexivity|reflexivity|].
      destruct (get_num_inv _ _ _ Er Ht) as (q & Hr & _). rewrite Hr. right; reflexivity.
    + destruct (G_num e W $"min_sum_cost" None false) as (r & Er & _);
        [in_num|rewrite assoc_min_sum_cost, Evt; reflexivity|reflexivity|].
      destruct (get_num_inv _ _ _ Er Ht) as (q & Hr & _). rewrite Hr. right; reflexivity.
    + destruct (G_num e W $"min_sum_cost" None false) as (r & Er & _);
        [in_num|rewrite assoc_min_sum_cost, Evt; reflexivity|reflexivity|].
      destruct (get_num_inv _ _ _ Er Ht) as (q & Hr & _). rewrite Hr. right; reflexivity.
  - (* max_sum_cost *)
    rewrite has_key_compact, assoc_max_sum_cost, canon_vtype, canon_max_cost, stale_max_sum_cost,
      canon_vtype, canon_budget.
    unfold cl_max_cost. destruct (e_vtype e) eqn:Evt.
    + destruct (G_num e W $"max_sum_cost" (e_max_cost e) true) as (r & Er & C);
        [in_num|rewrite assoc_max_sum_cost, Evt; reflexivity|exact Q2|].
      destruct (get_num_inv _ _ _ Er Ht) as (q & Hr & ->). rewrite Hr.
      assert (D : drop_if (fun x => Qle_bool (e_budget e) x) (Some q)
                  = drop_if (fun x => Qle_bool (e_budget e) x) (nzq (e_max_cost e))).
      { apply (cases_drop e _ _ _ _ C). intros t' q' St Hr'. rewrite stale_max_sum_cost, Hr', Evt in St. exact St. }
      simpl in D. destruct (Qle_bool (e_budget e) q) eqn:Z; [right; reflexivity|]. left.
      rewrite <- D. rewrite num_slot_some; [reflexivity|].
      symmetry in D. apply drop_if_some in D as (D & _). eapply nzq_nonzero; eauto.
    + destruct (G_num e W $"max_sum_cost" None false) as (r & Er & _);
        [in_num|rewrite assoc_max_sum_cost, Evt; reflexivity|reflexivity|].
      destruct (get_num_inv _ _ _ Er Ht) as (q & Hr & _). rewrite Hr. right; reflexivity.
    + destruct (G_num e W $"max_sum_cost" None false) as (r & Er & _);
        [in_num|rewrite assoc_max_sum_cost, Evt; reflexivity|reflexivity|].
      destruct (get_num_inv _ _ _ Er Ht) as (q & Hr & _). rewrite Hr. right; reflexivity.
    + destruct (G_num e W $"max_sum_cost" None false) as (r & Er & _);
        [in_num|rewrite assoc_max_sum_cost, Evt; reflexivity|reflexivity|].
      destruct (get_num_inv _ _ _ Er Ht) as (q & Hr & _). rewrite Hr. right; reflexivity.
  - (* min_points *)
    rewrite has_key_compact, assoc_min_points, canon_vtype, canon_min_score, stale_min_points, canon_vtype.
    unfold cl_min_score. destruct (e_vtype e) eqn:Evt.
    + destruct (G_num e W $"min_points" None false) as (r & Er & _);
        [in_num|rewrite assoc_min_points, Evt; reflexivity|reflexivity|].
      destruct (get_num_inv _ _ _ Er Ht) as (q & Hr & _). rewrite Hr. right; reflexivity.
    + destruct (G_num e W $"min_points" (e_min_score e) true) as (r & Er & C);
        [in_num|rewrite assoc_min_points, Evt; reflexivity|exact Q5|].
      destruct (get_num_inv _ _ _ Er Ht) as (q & Hr & ->). rewrite Hr.
      assert (D : drop_if Qzero_b (Some q) = nzq (e_min_score e)).
      { apply (cases_nz e _ _ _ C). intros t' q' St Hr'. rewrite stale_min_points, Hr', Evt in St. exact St. }
      simpl in D. destruct (Qzero_b q) eqn:Z; [right; reflexivity|]. left.
      rewrite <- D. now rewrite num_slot_some.
    + destruct (G_num e W $"min_points" (e_min_score e) true) as (r & Er & C);
        [in_num|rewrite assoc_min_points, Evt; reflexivity|exact Q5|].
      destruct (get_num_inv _ _ _ Er Ht) as (q & Hr & ->). rewrite Hr.
      assert (D : drop_if Qzero_b (Some q) = nzq (e_min_score e)).
      { apply (cases_nz e _ _ _ C). intros t' q' St Hr'. rewrite stale_min_points, Hr', Evt in St. exact St. }
      simpl in D. destruct (Qzero_b q) eqn:Z; [right; reflexivity|]. left.
      rewrite <- D. now rewrite num_slot_some.
    + destruct (G_num e W $"min_points" None false) as (r & Er & _);
        [in_num|rewrite assoc_min_points, Evt; reflexivity|reflexivity|].
      destruct (get_num_inv _ _ _ Er Ht) as (q & Hr & _). rewrite Hr. right; reflexivity.
  - (* max_points *)
    rewrite has_key_compact, assoc_max_points, canon_vtype, canon_max_score, stale_max_points, canon_vtype,
      canon_max_total.
    unfold cl_max_score, cl_max_total. destruct (e_vtype e) eqn:Evt.
    + destruct (G_num e W $"max_points" None false) as (r & Er & _);
        [in_num|rewrite assoc_max_points, Evt; reflexivity|reflexivity|].
      destruct (get_num_inv _ _ _ Er Ht) as (q & Hr & _). rewrite Hr. right; reflexivity.
    + destruct (G_num e W $"max_points" (e_max_score e) true) as (r & Er & C);
        [in_num|rewrite assoc_max_points, Evt; reflexivity|exact Q6|].
      destruct (get_num_inv _ _ _ Er Ht) as (q & Hr & ->). rewrite Hr.
      assert (D : Some q = nzq (e_max_score e)).
      { apply (cases_exact e _ _ _ C). intros t' St. rewrite stale_max_points, Evt in St.
        destruct (read_num t'); discriminate St. }
      left. rewrite <- D. rewrite num_slot_some; [reflexivity|]. symmetry in D. eapply nzq_nonzero; eauto.
    + destruct (G_num e W $"max_points" (e_max_score e) true) as (r & Er & C);
        [in_num|rewrite assoc_max_points, Evt; reflexivity|exact Q6|].
      destruct (get_num_inv _ _ _ Er Ht) as (q & Hr & ->). rewrite Hr.
      assert (D : drop_if (eq_total (nzq (e_max_total e))) (Some q)
                  = drop_if (eq_total (nzq (e_max_total e))) (nzq (e_max_score e))).
      { apply (cases_drop e _ _ _ _ C). intros t' q' St Hr'. rewrite stale_max_points, Hr', Evt in St. exact St. }
      simpl in D. rewrite nzq_idem. fold (eq_total (nzq (e_max_total e)) q).
      destruct (eq_total (nzq (e_max_total e)) q) eqn:Z; [right; reflexivity|]. left.
      rewrite <- D. rewrite num_slot_some; [reflexivity|].
      symmetry in D. apply drop_if_some in D as (D & _). eapply nzq_nonzero; eauto.
    + destruct (G_num e W $"max_points" None false) as (r & Er & _);
        [in_num|rewrite assoc_max_points, Evt; reflexivity|reflexivity|].
      destruct (get_num_inv _ _ _ Er Ht) as (q & Hr & _). rewrite Hr. right; reflexivity.
  - (* min_sum_points *)
    rewrite has_key_compact, assoc_min_sum_points, canon_vtype, canon_min_total, stale_min_sum_points, canon_vtype.
    unfold cl_min_total. destruct (e_vtype e) eqn:Evt.
    1,2,4: destruct (G_num e W $"min_sum_points" None false) as (r & Er & _);
        [in_num|rewrite assoc_min_sum_points, Evt; reflexivity|reflexivity|];
      destruct (get_num_inv _ _ _ Er Ht) as (q & Hr & _); rewrite Hr; right; reflexivity.
    destruct (G_num e W $"min_sum_points" (e_min_total e) true) as (r & Er & C);
      [in_num|rewrite assoc_min_sum_points, Evt; reflexivity|exact Q3|].
    destruct (get_num_inv _ _ _ Er Ht) as (q & Hr & ->). rewrite Hr.
    assert (D : drop_if Qzero_b (Some q) = nzq (e_min_total e)).
    { apply (cases_nz e _ _ _ C). intros t' q' St Hr'. rewrite stale_min_sum_points, Hr', Evt in St. exact St. }
    simpl in D. destruct (Qzero_b q) eqn:Z; [right; reflexivity|]. left.
    rewrite <- D. now rewrite num_slot_some.
  - (* max_sum_points *)
    rewrite has_key_compact, assoc_max_sum_points, canon_vtype, canon_max_total, stale_max_sum_points, canon_vtype.
    unfold cl_max_total. destruct (e_vtype e) eqn:Evt.
    + destruct (G_num e W $"max_sum_points" None false) as (r & Er & _);
        [in_num|rewrite assoc_max_sum_points, Evt; reflexivity|reflexivity|].
      destruct (get_num_inv _ _ _ Er Ht) as (q & Hr & _). rewrite Hr. right; reflexivity.
    + destruct (G_num e W $"max_sum_points" None false) as (r & Er & C);
        [in_num|rewrite assoc_max_sum_points, Evt; reflexivity|reflexivity|].
      destruct (get_num_inv _ _ _ Er Ht) as (q & Hr & ->). exfalso.
      assert (D : Some q = None).
      { apply (cases_unwritten_none e _ _ _ C). intros t' St. rewrite stale_max_sum_points, Evt in St.
        destruct (read_num t'); discriminate St. }
      discriminate D.
    + destruct (G_num e W $"max_sum_points" (e_max_total e) true) as (r & Er & C);
        [in_num|rewrite assoc_max_sum_points, Evt; reflexivity|exact Q4|].
      destruct (get_num_inv _ _ _ Er Ht) as (q & Hr & ->). rewrite Hr.
      assert (D : Some q = nzq (e_max_total e)).
      { apply (cases_exact e _ _ _ C). intros t' St. rewrite stale_max_sum_points, Evt in St.
        destruct (read_num t'); discriminate St. }
      left. rewrite <- D. rewrite num_slot_some; [reflexivity|]. symmetry in D. eapply nzq_nonzero; eauto.
    + destruct (G_num e W $"max_sum_points" None false) as (r & Er & _);
        [in_num|rewrite assoc_max_sum_points, Evt; reflexivity|reflexivity|].
      destruct (get_num_inv _ _ _ Er Ht) as (q & Hr & _). rewrite Hr. right; reflexivity.
Qed.
End CanonLimits.

(* ---- [canon e] is well-formed ---- *)
Lemma oQcanon_drop (f : Q -> bool) o : oQcanon o = true -> oQcanon (drop_if f o) = true.
Proof. destruct o as [q|]; simpl; [|reflexivity]. intros H. destruct (f q); [reflexivity|exact H]. Qed.

Theorem canon_wf_facts e : wf_facts e -> wf_facts (canon show_num show_nat e).
Proof.
  intros W.
  destruct (project_keys_facts e W) as (pt & Hpk & Hpnd & Hps & Hpcov).
  destruct (vote_keys_facts e W) as (vt0 & Hvk & Hvnd & Hvs & Hvcov).
  constructor.
  - rewrite canon_meta. apply write_meta_nodup.
  - rewrite canon_meta. intros kv Hkv. pose proof (write_meta_entries_ok e W) as H.
    rewrite Forall_forall in H. apply (H kv Hkv).
  - rewrite canon_meta. intros k t Hk Ht. apply (canon_limit_ok e W k t Hk Ht).
  - rewrite canon_names. apply (wf_names_nodup e W).
  - rewrite canon_projects. intros p' Hp'. apply in_map_iff in Hp' as (p & <- & Hp).
    apply canon_project_wf; [apply (wf_projects e W p Hp)|exact Hpnd].
  - rewrite canon_budget. apply (wf_budget e W).
  - rewrite canon_vtype, canon_names, canon_ballots_field. intros b' Hb'.
    apply in_canon_ballots in Hb' as (j & b & Hb & -> & Hd).
    apply (canon_ballot_wf (map p_name (e_projects e)) (names_ok_of_wf e W)); [apply (wf_ballots e W b Hb)|exact Hvnd|].
    intros k Hk. apply (Hvcov _ Hd k Hk).
  - rewrite canon_min_cost. unfold cl_min_cost. destruct (e_vtype e); try reflexivity.
    apply oQcanon_drop, (wf_q1 e W).
  - rewrite canon_max_cost. unfold cl_max_cost. destruct (e_vtype e); try reflexivity.
    apply oQcanon_drop. apply oQcanon_drop, (wf_q2 e W).
  - rewrite canon_min_total. unfold cl_min_total. destruct (e_vtype e); try reflexivity.
    apply oQcanon_drop, (wf_q3 e W).
  - rewrite canon_max_total. unfold cl_max_total. destruct (e_vtype e); try reflexivity.
    apply oQcanon_drop, (wf_q4 e W).
  - rewrite canon_min_score. unfold cl_min_score. destruct (e_vtype e); try reflexivity;
      apply oQcanon_drop, (wf_q5 e W).
  - rewrite canon_max_score. unfold cl_max_score. destruct (e_vtype e); try reflexivity.
    + apply oQcanon_drop, (wf_q6 e W).
    + apply oQcanon_drop. apply oQcanon_drop, (wf_q6 e W).
Qed.

(* the converse of wf_election_facts: the facts decide the boolean *)
Lemma wf_facts_electionb e : wf_facts e -> wf_electionb show_num read_num show_nat read_nat e = true.
Proof.
  intros W. unfold wf_electionb, wf_meta. rewrite !andb_true_iff. repeat split.
  - apply nodup_strb_NoDup, (wf_meta_nodup e W).
  - apply forallb_forall. intros kv Hkv. destruct (wf_meta_entries e W kv Hkv) as (A & B & C). now rewrite A, B, C.
  - apply forallb_forall. intros k Hk. destruct (lookup k (e_meta e)) as [t|] eqn:E; [|reflexivity].
    apply orb_true_iff. apply (wf_meta_limits e W k t Hk E).
  - apply nodup_strb_NoDup, (wf_names_nodup e W).
  - apply forallb_forall. apply (wf_projects e W).
  - apply (wf_budget e W).
  - apply forallb_forall. apply (wf_ballots e W).
  - apply (wf_q1 e W).
  - apply (wf_q2 e W).
  - apply (wf_q3 e W).
  - apply (wf_q4 e W).
  - apply (wf_q5 e W).
  - apply (wf_q6 e W).
Qed.

Theorem canon_wf e :
  wf_electionb show_num read_num show_nat read_nat e = true ->
  wf_electionb show_num read_num show_nat read_nat (canon show_num show_nat e) = true.
Proof. intros H. apply wf_facts_electionb, canon_wf_facts, wf_election_facts, H. Qed.

(* ---- idempotence ---- *)
Section Idempotent.
Variable e : election.
Hypothesis W : wf_facts e.
Local Notation ce := (canon show_num show_nat e).
Local Notation num_slot := (PabulibM.num_slot show_num).
Local Notation nat_slot := (PabulibM.nat_slot show_nat).

Lemma assoc_In k (sl : list (str * option str)) o : assoc k sl = Some o -> In (k, o) sl.
Proof.
  induction sl as [|[k' o'] r IH]; simpl; [discriminate|]. destruct (str_eqb k k') eqn:E.
  - apply str_eqb_eq in E. subst. intros [= ->]. left; reflexivity.
  - intros H. right. apply IH, H.
Qed.

Lemma num_slot_drop (f : Q -> bool) o v : num_slot (drop_if f o) = Some v -> num_slot o = Some v.
Proof. destruct o as [q|]; simpl; [|discriminate]. destruct (f q); [discriminate|]. intros H; exact H. Qed.

Lemma mand_stable k0 :
  lookup k0 (write_meta e) = Some (mandatory_value (e_meta e) k0) ->
  mandatory_value (write_meta e) k0 = mandatory_value (e_meta e) k0.
Proof. intros H. unfold mandatory_value at 1. now rewrite H. Qed.

Lemma slot_stable k v : In (k, Some v) (slots ce) -> lookup k (write_meta e) = Some v.
Proof.
  unfold PabulibM.slots, type_slots.
  rewrite canon_meta, canon_projects, canon_ballots_field, canon_budget, canon_vtype, canon_min_len, canon_max_len,
    canon_min_cost, canon_max_cost, canon_min_total, canon_max_total, canon_min_score, canon_max_score.
  rewrite map_length, num_ballots_canon.
  intros H. apply in_app_or in H as [H|H].
  - cbn [In] in H.
    repeat (destruct H as [H|H];
      [injection H as <- Hv;
       first [ rewrite <- Hv; rewrite mand_stable; rewrite lookup_write_meta; reflexivity
             | rewrite <- Hv; rewrite lookup_write_meta; reflexivity
             | exact Hv
             | idtac ] |]); try (destruct H).
    + (* min_length *)
      rewrite lookup_write_meta, assoc_min_length. unfold c_min_len in Hv.
      destruct (e_min_len e) as [[|[|m]]|]; simpl in Hv; try discriminate Hv. simpl. now rewrite Hv.
    + (* max_length *)
      rewrite lookup_write_meta, assoc_max_length. unfold c_max_len in Hv.
      destruct (e_max_len e) as [[|m]|]; simpl in Hv; try discriminate Hv.
      destruct (Nat.leb (List.length (e_projects e)) (S m)); simpl in Hv; try discriminate Hv. simpl. now rewrite Hv.
  - unfold cl_min_cost, cl_max_cost, cl_min_total, cl_max_total, cl_min_score, cl_max_score in H.
    destruct (e_vtype e) eqn:Evt; cbn [In] in H.
    + destruct H as [H|[H|[]]]; injection H as <- Hv.
      * apply num_slot_drop in Hv. now rewrite lookup_write_meta, assoc_min_sum_cost, Evt, Hv.
      * apply num_slot_drop, num_slot_drop in Hv. now rewrite lookup_write_meta, assoc_max_sum_cost, Evt, Hv.
    + destruct H as [H|[H|[H|[]]]]; injection H as <- Hv.
      * apply num_slot_drop in Hv. now rewrite lookup_write_meta, assoc_min_points, Evt, Hv.
      * apply num_slot_drop in Hv. now rewrite lookup_write_meta, assoc_max_points, Evt, Hv.
      * exact Hv.
    + destruct H as [H|[H|[H|[H|[]]]]]; injection H as <- Hv.
      * apply num_slot_drop in Hv. now rewrite lookup_write_meta, assoc_min_points, Evt, Hv.
      * apply num_slot_drop, num_slot_drop in Hv. now rewrite lookup_write_meta, assoc_max_points, Evt, Hv.
      * apply num_slot_drop in Hv. now rewrite lookup_write_meta, assoc_min_sum_points, Evt, Hv.
      * apply num_slot_drop in Hv. now rewrite lookup_write_meta, assoc_max_sum_points, Evt, Hv.
    + destruct H as [H|[]]. injection H as <- Hv. exact Hv.
Qed.
End Idempotent.

Lemma c_min_len_idem e : c_min_len (canon show_num show_nat e) = c_min_len e.
Proof.
  unfold c_min_len at 1. rewrite canon_min_len. unfold c_min_len.
  destruct (e_min_len e) as [[|[|m]]|]; reflexivity.
Qed.

Lemma c_max_len_idem e : c_max_len (canon show_num show_nat e) = c_max_len e.
Proof.
  unfold c_max_len at 1. rewrite canon_max_len, canon_projects, map_length. unfold c_max_len.
  destruct (e_max_len e) as [[|m]|]; try reflexivity.
  destruct (Nat.leb (List.length (e_projects e)) (S m)) eqn:E; [reflexivity|now rewrite E].
Qed.

Lemma drop_if_idem (f : Q -> bool) o : drop_if f (drop_if f o) = drop_if f o.
Proof. destruct o as [q|]; [|reflexivity]. simpl. destruct (f q) eqn:E; [reflexivity|]. simpl. now rewrite E. Qed.

Lemma nzq_drop_nzq (f : Q -> bool) o : nzq (drop_if f (nzq o)) = drop_if f (nzq o).
Proof.
  destruct (nzq o) as [q|] eqn:E; [|reflexivity]. simpl. destruct (f q); [reflexivity|].
  apply nzq_nonzero in E. unfold nzq, drop_if. now rewrite E.
Qed.

Section IdemMain.
Variable e : election.
Hypothesis W : wf_facts e.
Local Notation ce := (canon show_num show_nat e).

Theorem canon_idempotent_facts_sec : election_equiv (canon show_num show_nat ce) ce.
Proof.
  pose proof (canon_wf_facts e W) as W'.
  destruct (project_keys_facts e W) as (pt & Hpk & Hpnd & Hps & Hpcov).
  destruct (vote_keys_facts e W) as (vt0 & Hvk & Hvnd & Hvs & Hvcov).
  destruct (project_keys_facts ce W') as (pt' & Hpk' & Hpnd' & Hps' & Hpcov').
  destruct (vote_keys_facts ce W') as (vt0' & Hvk' & Hvnd' & Hvs' & Hvcov').
  constructor.
  - (* META *)
    rewrite (canon_meta ce). rewrite canon_meta.
    apply dict_equiv_perm. split; [apply write_meta_nodup|]. split; [apply write_meta_nodup|].
    intros k. rewrite (lookup_write_meta ce). rewrite canon_meta.
    destruct (assoc k (slots ce)) as [[v|]|] eqn:E; try reflexivity.
    symmetry. apply (slot_stable e). apply assoc_In. exact E.
  - (* projects *)
    rewrite (canon_projects ce). rewrite canon_projects.
    assert (Hc : forall p, In p (e_projects e) ->
               forall k, In k (keys (project_dict (canon_project show_num (project_keys show_num e) p))) ->
                         In k (project_keys show_num ce)).
    { intros p Hp. apply Hpcov'. rewrite canon_projects. apply in_map. exact Hp. }
    pose proof (wf_projects e W) as Wp. revert Wp Hc Hpcov.
    generalize (project_keys show_num ce) Hpnd'. intros K' HK'.
    induction (e_projects e) as [|p ps IH]; intros Wp Hc Hcov; simpl; constructor.
    + apply canon_project_idem; [apply Wp; left; reflexivity|exact Hpnd|apply Hcov; left; reflexivity|exact HK'|].
      apply Hc. left; reflexivity.
    + apply IH; intros; [apply Wp|eapply Hc|eapply Hcov]; try (right; eassumption); eassumption.
  - rewrite (canon_budget ce). reflexivity.
  - rewrite (canon_vtype ce). reflexivity.
  - (* ballots *)
    rewrite (canon_ballots_field ce). rewrite canon_ballots_field.
    assert (Evt : e_vtype ce = e_vtype e) by apply canon_vtype. rewrite Evt.
    assert (Hb : Forall (fun b => wf_ballot (e_vtype e) (map p_name (e_projects e)) b = true) (e_ballots e)).
    { apply Forall_forall. apply (wf_ballots e W). }
    apply (canon_ballots_idem (map p_name (e_projects e)) (names_ok_of_wf e W) (e_vtype e)
             (vote_keys show_num show_nat e) (vote_keys show_num show_nat ce) Hvnd Hvnd' (e_ballots e) 0 0 Hb).
    + exact Hvcov.
    + apply (canon_dicts_cover (map p_name (e_projects e)) (names_ok_of_wf e W) (e_vtype e)
               (vote_keys show_num show_nat e) (vote_keys show_num show_nat ce) Hvnd (e_ballots e) 0 0 Hb Hvcov).
      unfold covers. rewrite Evt in Hvcov'. rewrite canon_ballots_field in Hvcov'.
      exact Hvcov'.
  - rewrite (canon_min_len ce). rewrite canon_min_len. apply c_min_len_idem.
  - rewrite (canon_max_len ce). rewrite canon_max_len. apply c_max_len_idem.
  - rewrite (canon_min_cost ce). rewrite canon_min_cost. unfold cl_min_cost.
    rewrite canon_vtype, canon_min_cost. unfold cl_min_cost. destruct (e_vtype e); try reflexivity. apply nzq_idem.
  - rewrite (canon_max_cost ce). rewrite canon_max_cost. unfold cl_max_cost.
    rewrite canon_vtype, canon_max_cost, canon_budget. unfold cl_max_cost.
    destruct (e_vtype e); try reflexivity. rewrite nzq_drop_nzq. apply drop_if_idem.
  - rewrite (canon_min_total ce). rewrite canon_min_total. unfold cl_min_total.
    rewrite canon_vtype, canon_min_total. unfold cl_min_total. destruct (e_vtype e); try reflexivity. apply nzq_idem.
  - rewrite (canon_max_total ce). rewrite canon_max_total. unfold cl_max_total.
    rewrite canon_vtype, canon_max_total. unfold cl_max_total. destruct (e_vtype e); try reflexivity. apply nzq_idem.
  - rewrite (canon_min_score ce). rewrite canon_min_score. unfold cl_min_score.
    rewrite canon_vtype, canon_min_score. unfold cl_min_score. destruct (e_vtype e); try reflexivity; apply nzq_idem.
  - rewrite (canon_max_score ce). rewrite canon_max_score. unfold cl_max_score.
    rewrite canon_vtype, canon_max_score, canon_max_total. unfold cl_max_score, cl_max_total.
    destruct (e_vtype e) eqn:Evt; try reflexivity.
    + apply nzq_idem.
    + rewrite nzq_idem, nzq_drop_nzq. apply drop_if_idem.
Qed.

End IdemMain.

Theorem canon_idempotent_facts e : wf_facts e ->
  election_equiv (canon show_num show_nat (canon show_num show_nat e)) (canon show_num show_nat e).
Proof. apply canon_idempotent_facts_sec. Qed.

(* M roundtrip_idempotent: a well-formed election's normal form is well-formed again, and normalising it once
   more changes nothing except the order of dictionary entries; hence a second write/parse round trip
   returns the election of the first one up to that order *)
Theorem roundtrip_idempotent e :
  wf_electionb show_num read_num show_nat read_nat e = true ->
  let e1 := canon show_num show_nat e in
  parse_rows read_num read_nat (write_rows show_num show_nat e) = Some e1
  /\ wf_electionb show_num read_num show_nat read_nat e1 = true
  /\ exists e2, parse_rows read_num read_nat (write_rows show_num show_nat e1) = Some e2
                /\ election_equiv e2 e1.
Proof.
  intros H e1. split; [apply parse_write_roundtrip; exact H|]. split; [apply canon_wf; exact H|].
  exists (canon show_num show_nat e1). split; [apply parse_write_roundtrip, canon_wf; exact H|].
  apply canon_idempotent_facts, wf_election_facts, H.
Qed.

(* ============================================================================================ *)
(* G. no line break in the strings of the election => none in the written rows                     *)
(* ============================================================================================ *)
Section NoLinebreak.
Hypothesis show_num_nolb : forall q, nolb (show_num q) = true.
Hypothesis show_nat_nolb : forall n, nolb (show_nat n) = true.

Lemma nolb_iff s : nolb s = true <-> no_linebreak s.
Proof.
  unfold nolb, no_linebreak. rewrite forallb_forall, Forall_forall.
  split; intros H c Hc; specialize (H c Hc); destruct (is_linebreak c); simpl in *; congruence.
Qed.

Definition okkv (kv : str * str) : Prop := nolb (fst kv) = true /\ nolb (snd kv) = true.

Lemma nolb_join l : Forall (fun x => nolb x = true) l -> nolb (join_with c_comma l) = true.
Proof.
  intros H. apply nolb_iff. apply no_linebreak_join_with; [reflexivity|].
  eapply Forall_impl; [|exact H]. intros x. apply nolb_iff.
Qed.

Lemma in_dict_strings d kv : In kv d -> In (fst kv) (dict_strings d) /\ In (snd kv) (dict_strings d).
Proof.
  intros H. unfold dict_strings. split; apply in_flat_map; exists kv; (split; [exact H|simpl; tauto]).
Qed.

Variable e : election.
Hypothesis W : wf_facts e.
Hypothesis Hlb : no_linebreak_election e = true.

Lemma lb_str s : In s (election_strings e) -> nolb s = true.
Proof. unfold no_linebreak_election in Hlb. rewrite forallb_forall in Hlb. apply Hlb. Qed.

Lemma lb_meta kv : In kv (e_meta e) -> okkv kv.
Proof.
  intros H. destruct (in_dict_strings _ _ H) as (H1 & H2).
  split; apply lb_str; unfold election_strings; apply in_or_app; left; assumption.
Qed.

Lemma lb_project_str p s :
  In p (e_projects e) -> In s (p_name p :: p_cats p ++ p_targets p ++ dict_strings (p_meta p)) -> nolb s = true.
Proof.
  intros Hp Hs. apply lb_str. unfold election_strings. apply in_or_app. right. apply in_or_app. left.
  apply in_flat_map. exists p. split; assumption.
Qed.

Lemma lb_ballot_meta b kv : In b (e_ballots e) -> In kv (b_meta b) -> okkv kv.
Proof.
  intros Hb H. destruct (in_dict_strings _ _ H) as (H1 & H2).
  split; apply lb_str; unfold election_strings; apply in_or_app; right; apply in_or_app; right;
    apply in_flat_map; exists b; (split; assumption).
Qed.

Lemma lb_im_value k v : lookup k (e_meta e) = Some v -> nolb v = true.
Proof. intros H. apply lookup_In in H. apply (lb_meta _ H). Qed.

Lemma lb_mand k : nolb ($"Auto-filled " ++ k) = true -> nolb (mandatory_value (e_meta e) k) = true.
Proof. intros H. unfold mandatory_value. destruct (lookup k (e_meta e)) eqn:E; [eapply lb_im_value; eauto|exact H]. Qed.

Lemma lb_nat_slot o v : PabulibM.nat_slot show_nat o = Some v -> nolb v = true.
Proof. destruct o as [[|n]|]; simpl; try discriminate. intros [= <-]. apply show_nat_nolb. Qed.

Lemma lb_num_slot o v : PabulibM.num_slot show_num o = Some v -> nolb v = true.
Proof. destruct o as [q|]; simpl; [|discriminate]. destruct (Qzero_b q); [discriminate|]. intros [= <-]. apply show_num_nolb. Qed.

Lemma lb_slots k v : In (k, Some v) (slots e) -> nolb v = true.
Proof.
  unfold PabulibM.slots, type_slots. intros H. apply in_app_or in H as [H|H].
  - cbn [In] in H.
    repeat (destruct H as [H|H];
      [injection H as _ Hv;
       first [ rewrite <- Hv;
               first [ apply lb_mand; reflexivity | apply show_nat_nolb | apply show_num_nolb
                     | destruct (e_vtype e); reflexivity ]
             | eapply lb_im_value; exact Hv
             | eapply lb_nat_slot; exact Hv ] |]).
    destruct H.
  - destruct (e_vtype e); cbn [In] in H;
    repeat (destruct H as [H|H];
      [injection H as _ Hv; first [ eapply lb_num_slot; exact Hv | eapply lb_im_value; exact Hv ] |]);
    destruct H.
Qed.

Lemma slot_keys_nolb vt : forallb nolb (slot_keys vt) = true.
Proof. destruct vt; reflexivity. Qed.

Lemma lb_write_meta : Forall okkv (write_meta e).
Proof.
  unfold PabulibM.write_meta. rewrite put_rest_fold.
  destruct (vd_fold_spec (e_meta e) (compact (slots e))) as [(t & Ht & Hin) _]. rewrite Ht.
  apply Forall_app. split.
  - apply Forall_forall. intros [k v] Hkv. pose proof (In_compact _ _ _ Hkv) as Hs. split; simpl.
    + assert (Hk : In k (slot_keys (e_vtype e))) by (rewrite <- slots_keys; apply (in_map fst) in Hs; exact Hs).
      pose proof (slot_keys_nolb (e_vtype e)) as Hok. rewrite forallb_forall in Hok. apply Hok, Hk.
    + eapply lb_slots; eauto.
  - apply Forall_forall. intros kv Hkv. apply lb_meta, Hin, Hkv.
Qed.

Lemma lb_project_dict p : In p (e_projects e) -> Forall okkv (project_dict p).
Proof.
  intros Hp.
  assert (Hname : nolb (p_name p) = true) by (apply (lb_project_str p _ Hp); left; reflexivity).
  assert (Hcats : Forall (fun x => nolb x = true) (p_cats p)).
  { apply Forall_forall. intros x Hx. apply (lb_project_str p _ Hp). right. apply in_or_app. left; exact Hx. }
  assert (Htg : Forall (fun x => nolb x = true) (p_targets p)).
  { apply Forall_forall. intros x Hx. apply (lb_project_str p _ Hp). right. apply in_or_app. right.
    apply in_or_app. left; exact Hx. }
  assert (Hmeta : forall kv, In kv (p_meta p) -> okkv kv).
  { intros kv Hkv. destruct (in_dict_strings _ _ Hkv) as (H1 & H2).
    split; apply (lb_project_str p _ Hp); right; apply in_or_app; right; apply in_or_app; right; assumption. }
  rewrite project_dict_unfold. destruct (pd_fold_spec (p_meta p) (pd_base p)) as [(t & Ht & Hin) _]. rewrite Ht.
  apply Forall_app. split.
  - unfold pd_base.
    destruct (lookup K_name (p_meta p)) as [v|] eqn:E1; destruct (p_cats p) as [|c cs] eqn:E2;
      destruct (p_targets p) as [|g gs] eqn:E3; cbn [app];
      repeat (apply Forall_cons); try apply Forall_nil;
      try (split; [reflexivity|]; cbn [snd]);
      try exact Hname; try apply show_num_nolb;
      try (apply lookup_In in E1; apply (Hmeta _ E1));
      try (apply nolb_join; assumption).
  - apply Forall_forall. intros kv Hkv. apply Hmeta. apply Hin. exact Hkv.
Qed.

Lemma lb_vote_dict i b : In b (e_ballots e) -> Forall okkv (vote_dict (e_vtype e) i b).
Proof.
  intros Hb. pose proof (wf_ballot_inv _ _ _ (wf_ballots e W b Hb)) as (_ & Hsub & _).
  assert (Hmeta : forall kv, In kv (b_meta b) -> okkv kv) by (intros kv; apply lb_ballot_meta; exact Hb).
  assert (Hvote : nolb (join_with c_comma (b_projects b)) = true).
  { apply nolb_join. apply Forall_forall. intros n Hn. apply Hsub in Hn. apply in_map_iff in Hn as (p & <- & Hp).
    apply (lb_project_str p _ Hp). left; reflexivity. }
  assert (Hpts : nolb (join_with c_comma (map show_num (b_points b))) = true).
  { apply nolb_join. apply Forall_forall. intros x Hx. apply in_map_iff in Hx as (q & <- & _). apply show_num_nolb. }
  assert (Hid : nolb (match lookup K_voter_id (b_meta b) with Some v => v | None => show_nat i end) = true).
  { destruct (lookup K_voter_id (b_meta b)) eqn:E; [apply lookup_In in E; apply (Hmeta _ E)|apply show_nat_nolb]. }
  rewrite vote_dict_unfold. destruct (vd_fold_spec (b_meta b) (vd_base (e_vtype e) i b)) as [(t & Ht & Hin) _].
  rewrite Ht. apply Forall_app. split.
  - unfold vd_base.
    destruct (lookup $"age" (b_meta b)) as [v1|] eqn:E1;
      destruct (lookup $"sex" (b_meta b)) as [v2|] eqn:E2;
      destruct (lookup $"voting_method" (b_meta b)) as [v3|] eqn:E3;
      destruct (is_cardinal (e_vtype e)); cbn [app];
      repeat (apply Forall_cons); try apply Forall_nil;
      try (split; [reflexivity|]; cbn [snd]);
      try exact Hid; try exact Hvote; try exact Hpts;
      try (apply lookup_In in E1; apply (Hmeta _ E1));
      try (apply lookup_In in E2; apply (Hmeta _ E2));
      try (apply lookup_In in E3; apply (Hmeta _ E3)).
  - apply Forall_forall. intros kv Hkv. apply Hmeta. apply Hin. exact Hkv.
Qed.

Lemma lb_row_of ks d : Forall okkv d -> Forall no_linebreak (row_of ks d).
Proof.
  intros Hd. unfold row_of. apply Forall_forall. intros c Hc. apply in_map_iff in Hc as (k & <- & _).
  destruct (lookup k d) as [v|] eqn:E.
  - apply lookup_In in E. rewrite Forall_forall in Hd. apply nolb_iff. apply (Hd _ E).
  - apply nolb_iff. reflexivity.
Qed.

Lemma lb_keys (ds : list dict) ks0 :
  Forall (fun k => nolb k = true) ks0 -> Forall (Forall okkv) ds ->
  Forall no_linebreak (fold_left add_keys ds ks0).
Proof.
  intros H0 Hds. destruct (fold_add_keys_spec ds ks0) as (_ & _ & Hin).
  apply Forall_forall. intros k Hk. apply nolb_iff. apply Hin in Hk as [Hk|(d & Hd & Hk)].
  - rewrite Forall_forall in H0. apply H0, Hk.
  - rewrite Forall_forall in Hds. specialize (Hds d Hd). unfold keys in Hk.
    apply in_map_iff in Hk as ([k' v] & <- & Hkv). rewrite Forall_forall in Hds. apply (Hds _ Hkv).
Qed.

Theorem write_rows_no_linebreak : rows_no_linebreak (write_rows show_num show_nat e).
Proof.
  assert (Hpds : Forall (Forall okkv) (map project_dict (e_projects e))).
  { apply Forall_forall. intros d Hd. apply in_map_iff in Hd as (p & <- & Hp). apply lb_project_dict, Hp. }
  assert (Hvds : Forall (Forall okkv) (map fst (vote_dicts show_num show_nat (e_vtype e) 0 (e_ballots e)))).
  { apply Forall_forall. intros d Hd. apply in_vote_dicts in Hd as (j & b & Hb & ->). apply lb_vote_dict, Hb. }
  unfold rows_no_linebreak, write_rows.
  repeat (apply Forall_app; split).
  - repeat constructor; apply nolb_iff; reflexivity.
  - apply Forall_forall. intros r Hr. apply in_map_iff in Hr as (kv & <- & Hkv).
    pose proof lb_write_meta as Hm. rewrite Forall_forall in Hm. destruct (Hm _ Hkv) as (A & B).
    repeat constructor; apply nolb_iff; assumption.
  - constructor; [repeat constructor; apply nolb_iff; reflexivity|]. constructor; [|constructor].
    apply lb_keys; [repeat constructor|exact Hpds].
  - apply Forall_forall. intros r Hr. apply in_map_iff in Hr as (d & <- & Hd).
    apply lb_row_of. rewrite Forall_forall in Hpds. apply Hpds, Hd.
  - constructor; [repeat constructor; apply nolb_iff; reflexivity|]. constructor; [|constructor].
    apply lb_keys; [repeat constructor|exact Hvds].
  - apply Forall_forall. intros r Hr. apply in_flat_map in Hr as ([d m] & Hdm & Hr). apply repeat_spec in Hr. subst r.
    apply lb_row_of. rewrite Forall_forall in Hvds. apply Hvds. apply (in_map fst) in Hdm. exact Hdm.
Qed.

End NoLinebreak.

End RoundTrip.
