(* Proofs/MesMultIrr.v -- C06 mes_mult for the remaining entry points of Equal Shares: irresolute,
   iterated resolute, iterated irresolute.  Classes with multiplicities vs the expanded list of single
   voters ([expanded x], Proofs/MesMult.v).  Route: both models refine the any-choice textbook rule
   (Proofs/MesIrrSpec.v), which is the same relation on classes and on expanded voters. *)
From PB Require Export Proofs.MesMult Proofs.MesIrrSpec.
From PB Require Proofs.InvarianceMesRunP.
Open Scope Q_scope.

(* ---------- the any-choice rule on classes and on expanded voters ---------- *)

Lemma spec_round_any_x cs P b be rem p rho : length P = length b -> beq be (expand_buds P b) ->
  (spec_round_any cs P b rem p rho <-> spec_round_any cs (expand P) be rem p rho).
Proof.
  intros HL Hbe. unfold spec_round_any.
  rewrite (affordable_x cs P b be HL Hbe p), (is_rho_x cs P b be HL Hbe p rho).
  split; intros [H1 [H2 [H3 H4]]]; (split; [exact H1|split; [exact H2|split; [exact H3|]]]); intros q r Hq Ha Hr;
    apply (H4 q r Hq).
  - apply (affordable_x cs P b be HL Hbe q). exact Ha.
  - apply (is_rho_x cs P b be HL Hbe q r). exact Hr.
  - apply (affordable_x cs P b be HL Hbe q). exact Ha.
  - apply (is_rho_x cs P b be HL Hbe q r). exact Hr.
Qed.

Theorem spec_run_any_expand cs P : forall b rem W, spec_run_any cs P b rem W ->
  length P = length b -> forall be, beq be (expand_buds P b) -> spec_run_any cs (expand P) be rem W.
Proof.
  induction 1 as [b rem Hst|b rem p rho b' W Hround Hb' Hl Hrun IH]; intros HL be Hbe.
  - apply sa_stop. intros q Hq Ha. apply (Hst q Hq). apply (affordable_x cs P b be HL Hbe q). exact Ha.
  - assert (HL' : length P = length b') by congruence.
    assert (Hb'q : beq b' (charge P b rho p)) by (split; [rewrite charge_length; exact Hl|exact Hb']).
    assert (Hchain : beq (expand_buds P b') (charge (expand P) be rho p)).
    { eapply beq_trans; [apply expand_buds_beq; exact Hb'q|]. rewrite (charge_expand P b rho p HL).
      apply beq_sym. apply charge_beq; [exact Hbe|reflexivity]. }
    apply (sa_buy cs (expand P) be rem p rho (expand_buds P b') W).
    + apply (spec_round_any_x cs P b be rem p rho HL Hbe). exact Hround.
    + destruct Hchain as [_ H]. exact H.
    + destruct Hchain as [H _]. rewrite H. apply charge_length.
    + apply IH; [exact HL'|apply beq_refl].
Qed.

Theorem spec_run_any_contract cs P : forall be rem W, spec_run_any cs (expand P) be rem W ->
  forall b, length P = length b -> beq be (expand_buds P b) -> spec_run_any cs P b rem W.
Proof.
  induction 1 as [be rem Hst|be rem p rho be' W Hround Hb' Hl Hrun IH]; intros b HL Hbe.
  - apply sa_stop. intros q Hq Ha. apply (Hst q Hq). apply (affordable_x cs P b be HL Hbe q). exact Ha.
  - apply (sa_buy cs P b rem p rho (charge P b rho p) W).
    + apply (spec_round_any_x cs P b be rem p rho HL Hbe). exact Hround.
    + intro i. reflexivity.
    + apply charge_length.
    + apply IH; [rewrite charge_length; exact HL|].
      eapply beq_trans; [split; [rewrite charge_length; exact Hl|exact Hb']|].
      rewrite (charge_expand P b rho p HL). apply charge_beq; [exact Hbe|reflexivity].
Qed.

(* ---------- irresolute ---------- *)

Theorem run_once_irr_mult x b0 L L' :
  wf_voters (mi_voters x) -> 0 <= b0 -> NoDup (mi_enum x) ->
  (forall p, In p (mi_enum x) <-> (p < length (mi_costs x))%nat) ->
  run_once_irr x b0 = Some L -> run_once_irr (expanded x) b0 = Some L' ->
  forall X, In X L <-> In X L'.
Proof.
  intros Hv Hb Hn He Hr Hr' X.
  rewrite (run_once_irr_spec x b0 L Hv Hb Hn He Hr X).
  rewrite (run_once_irr_spec (expanded x) b0 L' (wf_voters_expand _) Hb Hn He Hr' X).
  change (mi_costs (expanded x)) with (mi_costs x). change (mi_voters (expanded x)) with (expand (mi_voters x)).
  change (mi_init (expanded x)) with (mi_init x).
  rewrite (pool_expand x Hv), (zeros_expand x Hv).
  assert (Eb : expand_buds (mi_voters x) (repeat b0 (length (mi_voters x))) = repeat b0 (length (expand (mi_voters x))))
    by apply expand_buds_repeat.
  assert (HL : length (mi_voters x) = length (repeat b0 (length (mi_voters x)))) by (rewrite repeat_length; reflexivity).
  split; intros [W [HW ->]]; exists W; (split; [|reflexivity]).
  - apply (spec_run_any_expand _ _ _ _ _ HW HL). rewrite Eb. apply beq_refl.
  - apply (spec_run_any_contract _ _ _ _ _ HW _ HL). rewrite Eb. apply beq_refl.
Qed.

Theorem mes_irr_mult x L L' :
  wf_voters (mi_voters x) -> tcost (mi_inst x) (mi_init x) <= mi_budget x -> NoDup (mi_enum x) ->
  (forall p, In p (mi_enum x) <-> (p < length (mi_costs x))%nat) ->
  mes_irresolute x = Some L -> mes_irresolute (expanded x) = Some L' ->
  forall X, In X L <-> In X L'.
Proof.
  intros Hv Hf Hn He Hr Hr'. unfold mes_irresolute in *.
  pose proof (MultiP.mes_share_mult x) as E. fold (expanded x) in E. rewrite <- E in Hr'.
  apply (run_once_irr_mult x (share x) L L' Hv (share_nonneg x Hf) Hn He Hr Hr').
Qed.

(* ---------- the budget-increase loop ---------- *)

Section Iter.
Variable x : mes_in.
Hypothesis Hv : wf_voters (mi_voters x).
Hypothesis Hi1 : NoDup (mi_init x).
Hypothesis Hi2 : forall p, In p (mi_init x) -> (p < length (mi_costs x))%nat.
Hypothesis Hn : NoDup (mi_enum x).
Hypothesis He : forall p, In p (mi_enum x) <-> (p < length (mi_costs x))%nat.
Let x2 := expanded x.

Lemma run_once_mult_perm b0 o o' : 0 <= b0 ->
  run_once_res x b0 = Some o -> run_once_res x2 b0 = Some o' -> Permutation (o_alloc o) (o_alloc o').
Proof.
  intros Hb E1 E2.
  destruct (run_once_res_Str x b0 o Hi1 Hi2 Hn (fun p Hp => proj1 (He p) Hp) E1) as [N1 _].
  destruct (run_once_res_Str x2 b0 o' Hi1 Hi2 Hn (fun p Hp => proj1 (He p) Hp) E2) as [N2 _].
  apply NoDup_Permutation; [exact N1|exact N2|]. apply (run_once_mult x b0 o o' Hv Hb Hn He E1 E2).
Qed.

Lemma feasible_same W1 W2 : Permutation W1 W2 -> alloc_feasible x2 W2 = alloc_feasible x W1.
Proof.
  intros H. unfold alloc_feasible. change (mi_inst x2) with (mi_inst x). change (mi_budget x2) with (mi_budget x).
  destruct (Qleb (tcost (mi_inst x) W2) (mi_budget x)) eqn:E1, (Qleb (tcost (mi_inst x) W1) (mi_budget x)) eqn:E2;
    try reflexivity.
  - apply Qleb_iff in E1. rewrite <- (tcost_perm _ _ _ H) in E1. apply Qleb_iff in E1. congruence.
  - apply Qleb_iff in E2. rewrite (tcost_perm _ _ _ H) in E2. apply Qleb_iff in E2. congruence.
Qed.

Lemma pool_ids_same p : In p (ids (fst (built x2))) <-> In p (ids (fst (built x))).
Proof.
  rewrite <- (pool_iff x2 p (wf_voters_expand _) He), <- (pool_iff x p Hv He).
  unfold x2. rewrite (pool_expand x Hv). reflexivity.
Qed.

Lemma existsb_perm_ {A} (h : A -> bool) l l' : Permutation l l' -> existsb h l = existsb h l'.
Proof.
  intro HP. destruct (existsb h l) eqn:E1, (existsb h l') eqn:E2; try reflexivity.
  - apply existsb_exists in E1. destruct E1 as [a [Ha Hh]].
    assert (existsb h l' = true) by (apply existsb_exists; exists a; split; [eapply Permutation_in; eassumption|exact Hh]).
    congruence.
  - apply existsb_exists in E2. destruct E2 as [a [Ha Hh]].
    assert (existsb h l = true) by (apply existsb_exists; exists a; split; [eapply Permutation_in; [symmetry; exact HP|exact Ha]|exact Hh]).
    congruence.
Qed.

Lemma exhaustive_same W1 W2 : Permutation W1 W2 -> alloc_exhaustive x2 W2 = alloc_exhaustive x W1.
Proof.
  intros H. rewrite (InvarianceMesRunP.exhaustive_ids x x2 W2 eq_refl eq_refl),
              (InvarianceMesRunP.exhaustive_ids x x W1 eq_refl eq_refl).
  rewrite (InvarianceMesRunP.forallb_set_eq _ (ids (fst (built x2))) (ids (fst (built x))) pool_ids_same).
  apply InvarianceMesRunP.forallb_ext_in_. intros p _. unfold InvarianceMesRunP.exh_test. unfold memb.
  rewrite (existsb_perm_ (Nat.eqb p) W1 W2 H). f_equal. f_equal.
  destruct (Qleb (nth p (mi_costs x) 0 + tcost (mi_inst x) W2) (mi_budget x)) eqn:E1,
           (Qleb (nth p (mi_costs x) 0 + tcost (mi_inst x) W1) (mi_budget x)) eqn:E2; try reflexivity.
  - apply Qleb_iff in E1. rewrite <- (tcost_perm _ _ _ H) in E1. apply Qleb_iff in E1. congruence.
  - apply Qleb_iff in E2. rewrite (tcost_perm _ _ _ H) in E2. apply Qleb_iff in E2. congruence.
Qed.

Theorem iter_res_mult inc : 0 <= inc -> forall fuel b0 prev1 prev2, 0 <= b0 ->
  InvarianceMesRunP.operm prev1 prev2 ->
  InvarianceMesRunP.operm (iter_res fuel x inc b0 prev1) (iter_res fuel x2 inc b0 prev2).
Proof.
  intros Hinc. induction fuel as [|f IH]; intros b0 prev1 prev2 Hb Hprev; [exact Logic.I|].
  cbn [iter_res].
  pose proof (run_once_res_total x b0) as T1. pose proof (run_once_res_total x2 b0) as T2.
  destruct (run_once_res x b0) as [o1|] eqn:E1; [|congruence].
  destruct (run_once_res x2 b0) as [o2|] eqn:E2; [|congruence].
  pose proof (run_once_mult_perm b0 o1 o2 Hb E1 E2) as Hperm.
  rewrite (feasible_same _ _ Hperm), (exhaustive_same _ _ Hperm).
  destruct (negb (alloc_feasible x (o_alloc o1))); [exact Hprev|].
  destruct (alloc_exhaustive x (o_alloc o1)); [exact Hperm|].
  apply IH; [|exact Hperm]. rewrite Qred_correct.
  apply (Qle_trans _ (0 + 0)); [discriminate|]. apply Qplus_le_compat; assumption.
Qed.

(* iterated resolute: both return, and the same set (or both run out of the outer fuel) *)
Theorem mes_iter_mult fuel inc : 0 <= inc -> tcost (mi_inst x) (mi_init x) <= mi_budget x ->
  InvarianceMesRunP.operm (mes_iter_resolute fuel x inc) (mes_iter_resolute fuel x2 inc).
Proof.
  intros Hinc Hf. unfold mes_iter_resolute.
  pose proof (MultiP.mes_share_mult x) as E. fold (expanded x) in E. fold x2 in E. rewrite <- E.
  apply iter_res_mult; [exact Hinc|apply share_nonneg; exact Hf|exact Logic.I].
Qed.

(* iterated irresolute *)
Theorem iter_irr_mult inc : 0 <= inc -> forall fuel b0 prev1 prev2, 0 <= b0 ->
  oseteq prev1 prev2 -> oseteq (iter_irr fuel x inc b0 prev1) (iter_irr fuel x2 inc b0 prev2).
Proof.
  intros Hinc. induction fuel as [|f IH]; intros b0 prev1 prev2 Hb Hprev; [exact Logic.I|].
  cbn [iter_irr].
  pose proof (run_once_irr_total x b0) as T1. pose proof (run_once_irr_total x2 b0) as T2.
  destruct (run_once_irr x b0) as [L1|] eqn:E1; [|congruence].
  destruct (run_once_irr x2 b0) as [L2|] eqn:E2; [|congruence].
  pose proof (run_once_irr_mult x b0 L1 L2 Hv Hb Hn He E1 E2) as Hset.
  rewrite <- (existsb_seteq (fun W => negb (alloc_feasible x W)) (fun W => negb (alloc_feasible x2 W)) L1 L2 Hset)
    by (intros X _; rewrite (feasible_same X X (Permutation_refl _)); reflexivity).
  rewrite <- (existsb_seteq (alloc_exhaustive x) (alloc_exhaustive x2) L1 L2 Hset)
    by (intros X _; rewrite (exhaustive_same X X (Permutation_refl _)); reflexivity).
  destruct (existsb (fun W => negb (alloc_feasible x W)) L1); [exact Hprev|].
  destruct (existsb (alloc_exhaustive x) L1); [exact Hset|].
  apply IH; [|exact Hset]. rewrite Qred_correct.
  apply (Qle_trans _ (0 + 0)); [discriminate|]. apply Qplus_le_compat; assumption.
Qed.

Theorem mes_iter_irr_mult fuel inc : 0 <= inc -> tcost (mi_inst x) (mi_init x) <= mi_budget x ->
  oseteq (mes_iter_irresolute fuel x inc) (mes_iter_irresolute fuel x2 inc).
Proof.
  intros Hinc Hf. unfold mes_iter_irresolute.
  pose proof (MultiP.mes_share_mult x) as E. fold (expanded x) in E. fold x2 in E. rewrite <- E.
  apply iter_irr_mult; [exact Hinc|apply share_nonneg; exact Hf|exact Logic.I].
Qed.
End Iter.
