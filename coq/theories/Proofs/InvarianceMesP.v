(* Proofs/InvarianceMesP.v -- C13 for Equal Shares (Model/MesRule.v): what is proved so far.
     [mes_pick_order_indep]  the content of repair R6: the order in which the scan collected the tied projects
                             (set-iteration order within equal cached affordabilities) does not reach the
                             choice -- `tie_breaking.order(instance, profile, sorted(tied_projects))`
     [mes_old_enum_dep]      the model of the code BEFORE R6 gives different winners for two enumerations
                             of the same project set (6 projects of cost 2, budget 4, two voters approving
                             everything, min_cost tie-breaking)
     [mes_zero_cost_enum]    the zero-cost projects put into the allocation up front are the same set
   The full statements (enumeration / voter order / scaling for the whole run) are UNPROVED, see Props/C13.v. *)
From PB Require Import Model.MesRule Proofs.InvarianceP.
Open Scope Q_scope.

Lemma NoDup_map_inj_in {A B} (f : A -> B) l : NoDup (map f l) ->
  forall x y, In x l -> In y l -> f x = f y -> x = y.
Proof.
  induction l as [|a l IH]; intros H x y Hx Hy E; [destruct Hx|].
  simpl in H. inversion H as [|? ? Hna Hnd]; subst.
  destruct Hx as [<-|Hx], Hy as [<-|Hy].
  - reflexivity.
  - exfalso. apply Hna. rewrite E. apply in_map. exact Hy.
  - exfalso. apply Hna. rewrite <- E. apply in_map. exact Hx.
  - apply IH; assumption.
Qed.

(* sorted lists that are permutations of each other are equal when the order is antisymmetric ON THE LIST *)
Lemma sorted_perm_eq_in {A} (R : A -> A -> Prop) : forall l1 l2,
  (forall x y, In x l1 -> In y l1 -> R x y -> R y x -> x = y) ->
  StronglySorted R l1 -> StronglySorted R l2 -> Permutation l1 l2 -> l1 = l2.
Proof.
  induction l1 as [|x t IH]; intros l2 Hanti H1 H2 HP.
  - apply Permutation_nil in HP. congruence.
  - destruct l2 as [|y t2]; [apply Permutation_sym, Permutation_nil in HP; discriminate|].
    inversion H1 as [|? ? Hs1 Hall1]; subst. inversion H2 as [|? ? Hs2 Hall2]; subst.
    rewrite Forall_forall in Hall1, Hall2.
    assert (Hx : In x (y :: t2)) by (eapply Permutation_in; [exact HP|left; reflexivity]).
    assert (Hy : In y (x :: t)) by (eapply Permutation_in; [symmetry; exact HP|left; reflexivity]).
    assert (x = y).
    { destruct Hx as [->|Hx']; [reflexivity|]. destruct Hy as [->|Hy']; [reflexivity|].
      apply Hanti; [left; reflexivity|right; exact Hy'|apply Hall1; exact Hy'|apply Hall2; exact Hx']. }
    subst y. f_equal. apply IH; [|assumption|assumption|eapply Permutation_cons_inv; exact HP].
    intros a b Ha Hb. apply Hanti; right; assumption.
Qed.

Definition id_leb (a b : mproj) : bool := Nat.leb (mp_id a) (mp_id b).

Lemma id_sort_perm_eq l l' : NoDup (map mp_id l) -> Permutation l l' -> isort id_leb l = isort id_leb l'.
Proof.
  intros Hnd HP. apply (sorted_perm_eq_in (lebP id_leb)).
  - intros x y Hx Hy H1 H2. apply isort_In in Hx, Hy. apply (NoDup_map_inj_in mp_id l Hnd x y Hx Hy).
    unfold lebP, id_leb in H1, H2. apply Nat.leb_le in H1, H2. lia.
  - apply isort_sorted; unfold id_leb.
    + intros x y. destruct (Nat.leb (mp_id x) (mp_id y)) eqn:E; [left; reflexivity|right].
      apply Nat.leb_gt in E. apply Nat.leb_le. lia.
    + intros x y z. rewrite !Nat.leb_le. lia.
  - apply isort_sorted; unfold id_leb.
    + intros x y. destruct (Nat.leb (mp_id x) (mp_id y)) eqn:E; [left; reflexivity|right].
      apply Nat.leb_gt in E. apply Nat.leb_le. lia.
    + intros x y z. rewrite !Nat.leb_le. lia.
  - eapply Permutation_trans; [symmetry; apply isort_perm|].
    eapply Permutation_trans; [exact HP|apply isort_perm].
Qed.

(* R6 for Equal Shares: whatever order the tied projects were collected in, the tie-breaking order is the same *)
Theorem mes_pick_order_indep tb tied tied' :
  NoDup (map mp_id tied) -> Permutation tied tied' -> pick_order tb tied = pick_order tb tied'.
Proof.
  intros Hnd HP. pose proof (Permutation_length HP) as HL.
  destruct tied as [|a [|b r]].
  - apply Permutation_nil in HP. subst. reflexivity.
  - apply Permutation_length_1_inv in HP. subst. reflexivity.
  - destruct tied' as [|a' [|b' r']]; try discriminate HL.
    unfold pick_order. fold id_leb. rewrite (id_sort_perm_eq _ _ Hnd HP). reflexivity.
Qed.

(* the zero-cost supported projects that enter the allocation before the first round *)
Lemma mk_projects_zeros P costs bin enum :
  snd (mk_projects P costs bin enum)
  = filter (fun p => Qltb 0 (total_sat P p (supporters P p)) && negb (Qltb 0 (nth p costs 0))) enum.
Proof.
  induction enum as [|p r IH]; [reflexivity|]. cbn [mk_projects filter].
  destruct (mk_projects P costs bin r) as [ps zs]. cbn [snd] in IH.
  destruct (Qltb 0 (total_sat P p (supporters P p))); cbn [andb]; [|exact IH].
  destruct (Qltb 0 (nth p costs 0)); cbn [negb snd]; [exact IH|f_equal; exact IH].
Qed.

Theorem mes_zero_cost_enum P costs bin e1 e2 : Permutation e1 e2 ->
  Permutation (snd (mk_projects P costs bin e1)) (snd (mk_projects P costs bin e2)).
Proof. intros H. rewrite !mk_projects_zeros. apply Permutation_filter_. exact H. Qed.

(* the pool of positive-cost supported projects: the same records, in enumeration order *)
Lemma mk_projects_pool P costs bin enum :
  fst (mk_projects P costs bin enum)
  = map (fun p => let sups := supporters P p in let ts := total_sat P p sups in let c := nth p costs 0 in
                  mkMP p c sups (Qred ts) (if bin then unique_sat P p sups else None) (Qred (c / ts)))
        (filter (fun p => Qltb 0 (total_sat P p (supporters P p)) && Qltb 0 (nth p costs 0)) enum).
Proof.
  induction enum as [|p r IH]; [reflexivity|]. cbn [mk_projects filter].
  destruct (mk_projects P costs bin r) as [ps zs]. cbn [fst] in IH.
  destruct (Qltb 0 (total_sat P p (supporters P p))); cbn [andb]; [|exact IH].
  destruct (Qltb 0 (nth p costs 0)); cbn [fst map]; [f_equal; exact IH|exact IH].
Qed.

Theorem mes_pool_enum P costs bin e1 e2 : Permutation e1 e2 ->
  Permutation (fst (mk_projects P costs bin e1)) (fst (mk_projects P costs bin e2)).
Proof. intros H. rewrite !mk_projects_pool. apply Permutation_map, Permutation_filter_. exact H. Qed.

(* ------------------------------------------------------------------------------------------ *)
(* the code BEFORE repair R6                                                                    *)
(* ------------------------------------------------------------------------------------------ *)
(* mes_rule.py before commit cd8fe48: tie_breaking_rule.order(instance, profile, tied_projects) *)
Definition pick_order_old (tb : proj -> Q) (tied : list mproj) : list mproj :=
  match tied with
  | _ :: _ :: _ => isort (fun a b => Qleb (tb (mp_id a)) (tb (mp_id b))) tied
  | _ => tied
  end.

Fixpoint run_res_old (fuel : nat) (P : list vcls) (tb : proj -> Q) (buds : list Q)
  (projects : list mproj) (acc : list proj) : option (list proj) :=
  match fuel with
  | O => None
  | S f =>
      let '(best, tied, projects') := round_scan P buds projects in
      match best, pick_order_old tb tied with
      | Fin rho, sel :: _ =>
          run_res_old f P tb (pay P sel rho buds) (remove_proj (mp_id sel) projects') (acc ++ [mp_id sel])
      | _, _ => Some acc
      end
  end.

Definition mes_resolute_old (x : mes_in) : option (list proj) :=
  let ps := fst (built x) in
  run_res_old (S (length ps)) (mi_voters x) (mi_tb x) (repeat (share x) (length (mi_voters x))) ps
              (start_alloc x).

Definition mes_witness (enum : list proj) : mes_in :=
  mkIn [2; 2; 2; 2; 2; 2] 4 [mkV [2; 2; 2; 2; 2; 2] 1; mkV [2; 2; 2; 2; 2; 2] 1]
       (fun p => nth p [2; 2; 2; 2; 2; 2] 0) enum true [].

Theorem mes_old_enum_dep :
  exists e1 e2, Permutation e1 e2 /\ NoDup e1 /\
    option_map sort_alloc (mes_resolute_old (mes_witness e1))
    <> option_map sort_alloc (mes_resolute_old (mes_witness e2)).
Proof.
  exists [0; 1; 2; 3; 4; 5]%nat, [5; 4; 3; 2; 1; 0]%nat. split; [|split].
  - change [5; 4; 3; 2; 1; 0]%nat with (rev [0; 1; 2; 3; 4; 5]%nat). apply Permutation_rev.
  - repeat constructor; simpl; intuition lia.
  - vm_compute. discriminate.
Qed.

(* the repaired model on the same witness *)
Example mes_witness_repaired :
  option_map (fun o => sort_alloc (o_alloc o)) (mes_resolute (mes_witness [0; 1; 2; 3; 4; 5]%nat)) = Some [0; 1]%nat
  /\ option_map (fun o => sort_alloc (o_alloc o)) (mes_resolute (mes_witness [5; 4; 3; 2; 1; 0]%nat)) = Some [0; 1]%nat
  /\ option_map sort_alloc (mes_resolute_old (mes_witness [5; 4; 3; 2; 1; 0]%nat)) = Some [4; 5]%nat.
Proof. repeat split; vm_compute; reflexivity. Qed.
