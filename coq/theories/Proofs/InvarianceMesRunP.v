(* Proofs/InvarianceMesRunP.v -- C13 for whole Equal Shares runs (resolute rule of Model/MesRule.v):
     mes_enum_indep   the selected set does not depend on the iteration order of the project set
     mes_perm_voters  ... nor on the order in which the voters are listed
   Route: the model refines the textbook rule of Spec/MesSpec.v ([mes_model_refines_spec], Proofs/MesSpecRun.v,
   property C02), the textbook rule does not mention the enumeration, and it is FUNCTIONAL up to a joint
   re-ordering of voters and their money ([spec_run_functional] below): a round is determined by the functions
   "what the supporters of q pay at rho" and "what they own", which are sums over the voters. *)
From PB Require Import Spec.MesSpec Model.MesRule Proofs.MesSpecRun Proofs.MesFeasible Proofs.InvarianceP.
Open Scope Q_scope.

(* ---------- sums ---------- *)
Lemma Qsum_ext_ {A} (f g : A -> Q) l : (forall x, In x l -> f x == g x) -> Qsum (map f l) == Qsum (map g l).
Proof.
  induction l as [|a l IH]; intros H; simpl; [reflexivity|].
  rewrite (H a (or_introl eq_refl)), IH; [reflexivity|]. intros x Hx. apply H. right. exact Hx.
Qed.
Lemma Qsum_filter_ {A} (t : A -> bool) (f : A -> Q) l :
  Qsum (map f (filter t l)) == Qsum (map (fun x => if t x then f x else 0) l).
Proof. induction l as [|a l IH]; simpl; [reflexivity|]. destruct (t a); simpl; rewrite IH; ring. Qed.

Definition dv : vcls := mkV [] 0.

Lemma map_seq_combine {B} (G : vcls -> Q -> B) : forall (P : list vcls) (b : list Q), length b = length P ->
  map (fun i => G (nth i P dv) (nth i b 0)) (seq 0 (length P)) = map (fun vx => G (fst vx) (snd vx)) (combine P b).
Proof.
  induction P as [|v P IH]; intros [|x b] H; simpl in *; try discriminate; [reflexivity|].
  f_equal. rewrite <- seq_shift, map_map. apply IH. lia.
Qed.

(* ---------- payments and money as sums over (voter, money) pairs ---------- *)
Definition pg (rho : Q) (p : proj) (vx : vcls * Q) : Q :=
  if Qltb 0 (util (fst vx) p) then Qnat (vmul (fst vx)) * Qmin (snd vx) (rho * util (fst vx) p) else 0.
Definition mg (p : proj) (vx : vcls * Q) : Q :=
  if Qltb 0 (util (fst vx) p) then Qnat (vmul (fst vx)) * snd vx else 0.
Definition cg (rho : Q) (p : proj) (vx : vcls * Q) : Q :=
  if Qltb 0 (util (fst vx) p) then snd vx - Qmin (snd vx) (rho * util (fst vx) p) else snd vx.

Lemma paid_combine P b rho p : length b = length P -> paid P b rho p == Qsum (map (pg rho p) (combine P b)).
Proof.
  intros HL. unfold paid, s_supporters. rewrite Qsum_filter_.
  assert (E : map (pg rho p) (combine P b) = map (fun i => pg rho p (nth i P dv, nth i b 0)) (seq 0 (length P))).
  { rewrite (map_seq_combine (fun v x => pg rho p (v, x)) P b HL). apply map_ext. intros [v x]. reflexivity. }
  rewrite E. apply Qsum_ext_. intros i _. reflexivity.
Qed.
Lemma supp_money_combine P b p : length b = length P -> supp_money P b p == Qsum (map (mg p) (combine P b)).
Proof.
  intros HL. unfold supp_money, s_supporters. rewrite Qsum_filter_.
  assert (E : map (mg p) (combine P b) = map (fun i => mg p (nth i P dv, nth i b 0)) (seq 0 (length P))).
  { rewrite (map_seq_combine (fun v x => mg p (v, x)) P b HL). apply map_ext. intros [v x]. reflexivity. }
  rewrite E. apply Qsum_ext_. intros i _. reflexivity.
Qed.
Lemma charge_combine P b rho p : length b = length P ->
  charge P b rho p = map (cg rho p) (combine P b).
Proof.
  intros HL. unfold charge. rewrite HL.
  assert (E : map (cg rho p) (combine P b) = map (fun i => cg rho p (nth i P dv, nth i b 0)) (seq 0 (length P))).
  { rewrite (map_seq_combine (fun v x => cg rho p (v, x)) P b HL). apply map_ext. intros [v x]. reflexivity. }
  rewrite E. apply map_ext. intros i. reflexivity.
Qed.
Lemma charge_length P b rho p : length (charge P b rho p) = length b.
Proof. unfold charge. rewrite map_length, seq_length. reflexivity. Qed.

(* ---------- money lists equal up to == ---------- *)
Definition beq (b b' : list Q) : Prop := length b = length b' /\ forall i, nth i b 0 == nth i b' 0.

Lemma beq_refl b : beq b b.
Proof. split; [reflexivity|intros i; reflexivity]. Qed.

Lemma Qmin_ext_ a a' x x' : a == a' -> x == x' -> Qmin a x == Qmin a' x'.
Proof. intros -> ->. reflexivity. Qed.

Lemma paid_beq P b b' rho rho' p : beq b b' -> rho == rho' -> paid P b rho p == paid P b' rho' p.
Proof.
  intros [_ H] Hr. unfold paid. apply Qsum_ext_. intros i _. unfold s_bud.
  rewrite (Qmin_ext_ _ _ _ _ (H i) (Qmult_comp _ _ Hr _ _ (Qeq_refl (s_util P i p)))). reflexivity.
Qed.
Lemma supp_money_beq P b b' p : beq b b' -> supp_money P b p == supp_money P b' p.
Proof. intros [_ H]. unfold supp_money. apply Qsum_ext_. intros i _. unfold s_bud. rewrite (H i). reflexivity. Qed.

Lemma nth_map_seq_ (f : nat -> Q) n i : nth i (map f (seq 0 n)) 0 == if Nat.ltb i n then f i else 0.
Proof.
  destruct (Nat.ltb i n) eqn:E.
  - apply Nat.ltb_lt in E. rewrite (nth_indep _ 0 (f 0%nat)) by (rewrite map_length, seq_length; exact E).
    rewrite map_nth, seq_nth by exact E. reflexivity.
  - apply Nat.ltb_ge in E. rewrite nth_overflow by (rewrite map_length, seq_length; exact E). reflexivity.
Qed.

Lemma charge_beq P b b' rho rho' p : beq b b' -> rho == rho' -> beq (charge P b rho p) (charge P b' rho' p).
Proof.
  intros [HL H] Hr. split; [rewrite !charge_length; exact HL|].
  intros i. unfold charge. rewrite !nth_map_seq_, HL. destruct (Nat.ltb i (length b')); [|reflexivity].
  unfold s_bud. destruct (Qltb 0 (s_util P i p)); [|apply H].
  rewrite (Qmin_ext_ _ _ _ _ (H i) (Qmult_comp _ _ Hr _ _ (Qeq_refl (s_util P i p)))), (H i). reflexivity.
Qed.

Lemma beq_trans b1 b2 b3 : beq b1 b2 -> beq b2 b3 -> beq b1 b3.
Proof. intros [L1 H1] [L2 H2]. split; [congruence|]. intros i. rewrite (H1 i). apply H2. Qed.

(* ---------- two presentations of the same voters-with-money ---------- *)
Definition SRel (P : list vcls) (b : list Q) (P' : list vcls) (b' : list Q) : Prop :=
  length b = length P /\ length b' = length P' /\
  exists bm bm', beq b bm /\ beq b' bm' /\ Permutation (combine P bm) (combine P' bm').

Lemma SRel_paid P b P' b' rho p : SRel P b P' b' -> paid P b rho p == paid P' b' rho p.
Proof.
  intros (L & L' & bm & bm' & B & B' & HP).
  rewrite (paid_beq P b bm rho rho p B (Qeq_refl rho)), (paid_beq P' b' bm' rho rho p B' (Qeq_refl rho)).
  rewrite paid_combine by (destruct B as [E _]; congruence).
  rewrite paid_combine by (destruct B' as [E _]; congruence).
  apply Qsum_perm_proper, Permutation_map. exact HP.
Qed.
Lemma SRel_money P b P' b' p : SRel P b P' b' -> supp_money P b p == supp_money P' b' p.
Proof.
  intros (L & L' & bm & bm' & B & B' & HP).
  rewrite (supp_money_beq P b bm p B), (supp_money_beq P' b' bm' p B').
  rewrite supp_money_combine by (destruct B as [E _]; congruence).
  rewrite supp_money_combine by (destruct B' as [E _]; congruence).
  apply Qsum_perm_proper, Permutation_map. exact HP.
Qed.

Lemma combine_map_cg P b rho p : length b = length P ->
  combine P (map (cg rho p) (combine P b)) = map (fun vx => (fst vx, cg rho p vx)) (combine P b).
Proof. intros HL. apply combine_map_snd. symmetry. exact HL. Qed.

(* after the same purchase at (==) the same price the two presentations still describe the same voters *)
Lemma SRel_charge P b P' b' rho rho' p b1 b1' :
  SRel P b P' b' -> rho == rho' ->
  (forall i, s_bud b1 i == s_bud (charge P b rho p) i) -> length b1 = length b ->
  (forall i, s_bud b1' i == s_bud (charge P' b' rho' p) i) -> length b1' = length b' ->
  SRel P b1 P' b1'.
Proof.
  intros (L & L' & bm & bm' & B & B' & HP) Hr H1 L1 H1' L1'.
  assert (Lm : length bm = length P) by (destruct B as [E _]; congruence).
  assert (Lm' : length bm' = length P') by (destruct B' as [E _]; congruence).
  split; [congruence|]. split; [congruence|].
  exists (charge P bm rho p), (charge P' bm' rho p). split; [|split].
  - apply (beq_trans _ (charge P b rho p)); [|apply charge_beq; [exact B|reflexivity]].
    split; [rewrite charge_length; exact L1|exact H1].
  - apply (beq_trans _ (charge P' b' rho' p)); [|apply charge_beq; [exact B'|symmetry; exact Hr]].
    split; [rewrite charge_length; exact L1'|exact H1'].
  - rewrite !charge_combine by assumption. rewrite !combine_map_cg by assumption.
    apply Permutation_map. exact HP.
Qed.

(* ---------- a round is determined by the two functions ---------- *)
Section Transfer.
Variables (costs : list Q) (P P' : list vcls) (tb tb' : proj -> Q) (b b' : list Q).
Hypothesis Hpaid : forall rho q, paid P b rho q == paid P' b' rho q.
Hypothesis Hmoney : forall q, supp_money P b q == supp_money P' b' q.
Hypothesis Htb : forall q, tb q == tb' q.

Lemma aff_transfer q : affordable costs P b q <-> affordable costs P' b' q.
Proof. unfold affordable. rewrite Hmoney. reflexivity. Qed.

Lemma is_rho_transfer q r : is_rho costs P b q r <-> is_rho costs P' b' q r.
Proof.
  unfold is_rho. split; intros [H1 H2]; split.
  - rewrite <- Hpaid. exact H1.
  - intros r' Hr'. apply H2. rewrite Hpaid. exact Hr'.
  - rewrite Hpaid. exact H1.
  - intros r' Hr'. apply H2. rewrite <- Hpaid. exact Hr'.
Qed.

Lemma tie_order_transfer l : tie_order tb l = tie_order tb' l.
Proof.
  unfold tie_order. induction l as [|x t IH]; simpl; [reflexivity|]. rewrite IH.
  generalize (isort (fun p q => Qleb (tb' p) (tb' q)) t). intros s.
  induction s as [|y s IHs]; simpl; [reflexivity|].
  assert (E : Qleb (tb x) (tb y) = Qleb (tb' x) (tb' y)).
  { destruct (Qleb (tb x) (tb y)) eqn:E1, (Qleb (tb' x) (tb' y)) eqn:E2; try reflexivity.
    - apply Qleb_iff in E1. rewrite (Htb x), (Htb y) in E1. apply Qleb_iff in E1. congruence.
    - apply Qleb_iff in E2. rewrite <- (Htb x), <- (Htb y) in E2. apply Qleb_iff in E2. congruence. }
  rewrite E, IHs. reflexivity.
Qed.

Lemma spec_round_transfer rem p rho :
  spec_round costs P tb b rem p rho -> spec_round costs P' tb' b' rem p rho.
Proof.
  intros (H1 & H2 & H3 & H4 & T & HT & HS & Hh). split; [exact H1|].
  split; [apply aff_transfer; exact H2|]. split; [apply is_rho_transfer; exact H3|]. split.
  - intros q r Hq Ha Hr. apply (H4 q r Hq); [apply aff_transfer; exact Ha|apply is_rho_transfer; exact Hr].
  - exists T. split; [|split; [exact HS|rewrite <- tie_order_transfer; exact Hh]].
    intros q. rewrite (HT q), aff_transfer, is_rho_transfer. reflexivity.
Qed.
End Transfer.

(* strictly sorted lists with the same elements are equal *)
Lemma sorted_lt_ext (l1 l2 : list nat) :
  StronglySorted lt l1 -> StronglySorted lt l2 -> (forall x, In x l1 <-> In x l2) -> l1 = l2.
Proof.
  intros H1 H2 H. apply (sorted_perm_eq lt); try assumption.
  - intros x y Hxy Hyx. lia.
  - apply NoDup_Permutation; [| |exact H].
    + clear - H1. induction H1 as [|x t _ IH Hall]; constructor; [|exact IH].
      rewrite Forall_forall in Hall. intros Hx. specialize (Hall x Hx). lia.
    + clear - H2. induction H2 as [|x t _ IH Hall]; constructor; [|exact IH].
      rewrite Forall_forall in Hall. intros Hx. specialize (Hall x Hx). lia.
Qed.

(* from the same state a round buys one project at one price *)
Lemma spec_round_det costs P tb b rem p rho p2 rho2 :
  spec_round costs P tb b rem p rho -> spec_round costs P tb b rem p2 rho2 -> p = p2 /\ rho == rho2.
Proof.
  intros (H1 & H2 & H3 & H4 & T & HT & HS & Hh) (G1 & G2 & G3 & G4 & T2 & GT & GS & Gh).
  assert (Hr : rho == rho2).
  { apply Qle_antisym; [apply (H4 p2 rho2 G1 G2 G3)|apply (G4 p rho H1 H2 H3)]. }
  split; [|exact Hr].
  assert (ET : T = T2).
  { apply sorted_lt_ext; [exact HS|exact GS|]. intros q. rewrite (HT q), (GT q).
    split; intros (A & B & C); (split; [exact A|split; [exact B|]]).
    - apply (is_rho_ext costs P b q rho rho2 Hr C).
    - apply (is_rho_ext costs P b q rho2 rho (Qeq_sym _ _ Hr) C). }
  subst T2. rewrite Hh in Gh. injection Gh as ->. reflexivity.
Qed.

(* M  the textbook run is a function of the election: two runs from two presentations of the same voters *)
Theorem spec_run_functional costs P P' tb tb' : (forall q, tb q == tb' q) ->
  forall b rem W1, spec_run costs P tb b rem W1 ->
  forall b' W2, spec_run costs P' tb' b' rem W2 -> SRel P b P' b' -> W1 = W2.
Proof.
  intros Htb b rem W1 H1. induction H1 as [b rem Hna|b rem p rho b1 W Hround Hb1 Lb1 Hrun IH];
    intros b' W2 H2 HR; inversion H2 as [? ? Hna2|? ? p2 rho2 b1' W' Hround2 Hb1' Lb1' Hrun2]; subst.
  - reflexivity.
  - exfalso. destruct Hround2 as (G1 & G2 & _). apply (Hna p2 G1).
    apply (aff_transfer costs P P' b b' (fun q => SRel_money P b P' b' q HR)). exact G2.
  - exfalso. destruct Hround as (G1 & G2 & _). apply (Hna2 p G1).
    apply (aff_transfer costs P P' b b' (fun q => SRel_money P b P' b' q HR)). exact G2.
  - assert (Hround2' : spec_round costs P tb b rem p2 rho2).
    { apply (spec_round_transfer costs P' P tb' tb b' b); [| |intros q; symmetry; apply Htb|exact Hround2].
      - intros r q. symmetry. apply SRel_paid. exact HR.
      - intros q. symmetry. apply SRel_money. exact HR. }
    destruct (spec_round_det costs P tb b rem p rho p2 rho2 Hround Hround2') as [<- Hr].
    f_equal. apply (IH b1' W' Hrun2).
    apply (SRel_charge P b P' b' rho rho2 p b1 b1' HR Hr Hb1 Lb1 Hb1' Lb1').
Qed.

(* ---------- the pool and the zero-cost projects do not depend on the order of the voters ---------- *)
Lemma filter_nil_ {A} (g : A -> bool) l : (forall x, In x l -> g x = false) -> filter g l = [].
Proof.
  induction l as [|a l IH]; simpl; intros H; [reflexivity|].
  rewrite (H a (or_introl eq_refl)). apply IH. intros x Hx. apply H. right. exact Hx.
Qed.
Lemma s_supporters_nil P p : s_supporters P p = [] <-> forall v, In v P -> Qltb 0 (util v p) = false.
Proof.
  unfold s_supporters. split.
  - intros H v Hv. destruct (In_nth P v dv Hv) as [i [Hi E]].
    assert (Hin : In i (seq 0 (length P))) by (apply in_seq; lia).
    destruct (Qltb 0 (util v p)) eqn:Eu; [|reflexivity]. exfalso.
    assert (Hf : In i (filter (fun i => Qltb 0 (s_util P i p)) (seq 0 (length P)))).
    { apply filter_In. split; [exact Hin|]. unfold s_util. change (mkV [] 0) with dv. rewrite E. exact Eu. }
    rewrite H in Hf. destruct Hf.
  - intros H. apply filter_nil_. intros i Hi. apply in_seq in Hi. unfold s_util. change (mkV [] 0) with dv.
    apply H. apply nth_In. lia.
Qed.

Lemma si_supported_perm x x' p : Permutation (si_voters x) (si_voters x') -> si_supported x' p = si_supported x p.
Proof.
  intros HP. unfold si_supported.
  destruct (s_supporters (si_voters x) p) eqn:E, (s_supporters (si_voters x') p) eqn:E'; try reflexivity; exfalso.
  - assert (H : s_supporters (si_voters x') p = []).
    { apply s_supporters_nil. intros v Hv. apply (proj1 (s_supporters_nil _ p) E).
      eapply Permutation_in; [symmetry; exact HP|exact Hv]. }
    rewrite H in E'. discriminate.
  - assert (H : s_supporters (si_voters x) p = []).
    { apply s_supporters_nil. intros v Hv. apply (proj1 (s_supporters_nil _ p) E').
      eapply Permutation_in; [exact HP|exact Hv]. }
    rewrite H in E. discriminate.
Qed.

Lemma nvoters_perm P P' : Permutation P P' -> nvoters P = nvoters P'.
Proof. unfold nvoters. induction 1; simpl; lia. Qed.

Lemma combine_repeat {A} (l : list A) (s : Q) : combine l (repeat s (length l)) = map (fun v => (v, s)) l.
Proof. induction l as [|a l IH]; simpl; [reflexivity|]. f_equal. exact IH. Qed.

(* ---------- the theorems about the model ---------- *)
Definition with_enum (x : mes_in) (e : list proj) : mes_in :=
  mkIn (mi_costs x) (mi_budget x) (mi_voters x) (mi_tb x) e (mi_bin x) (mi_init x).
Definition with_voters (x : mes_in) (P' : list vcls) (tb' : proj -> Q) : mes_in :=
  mkIn (mi_costs x) (mi_budget x) P' tb' (mi_enum x) (mi_bin x) (mi_init x).

Definition valid_enum (x : mes_in) (e : list proj) : Prop :=
  NoDup e /\ forall p, In p e <-> (p < length (mi_costs x))%nat.

(* one statement for both: another enumeration, the voters in another order, keys equal up to == *)
Theorem mes_presentation_indep x e2 P' tb' o1 o2 :
  wf_voters (mi_voters x) -> tcost (mi_inst x) (mi_init x) <= mi_budget x ->
  valid_enum x (mi_enum x) -> valid_enum x e2 ->
  Permutation (mi_voters x) P' -> (forall q, mi_tb x q == tb' q) ->
  mes_resolute x = Some o1 -> mes_resolute (with_voters (with_enum x e2) P' tb') = Some o2 ->
  set_eq (o_alloc o1) (o_alloc o2).
Proof.
  intros Hv Hf [Hn1 He1] [Hn2 He2] HP Htb E1 E2.
  set (x2 := with_voters (with_enum x e2) P' tb') in *.
  assert (Hv2 : wf_voters (mi_voters x2)).
  { unfold wf_voters in *. simpl. rewrite Forall_forall in *. intros v Hin. apply Hv.
    eapply Permutation_in; [symmetry; exact HP|exact Hin]. }
  destruct (mes_model_refines_spec x o1 Hv Hf Hn1 He1 E1) as [W1 [R1 S1]].
  destruct (mes_model_refines_spec x2 o2 Hv2 Hf Hn2 He2 E2) as [W2 [R2 S2]].
  assert (Eshare : share x2 = share x).
  { unfold share. simpl. rewrite <- (nvoters_perm _ _ HP). reflexivity. }
  assert (Epool : si_pool (spec_of x2) = si_pool (spec_of x)).
  { unfold si_pool. apply filter_ext. intros p. f_equal. apply si_supported_perm. exact HP. }
  assert (Ezeros : si_zeros (spec_of x2) = si_zeros (spec_of x)).
  { unfold si_zeros. apply filter_ext. intros p. f_equal. apply si_supported_perm. exact HP. }
  rewrite Eshare, Epool in R2. rewrite Ezeros in S2. simpl in R2.
  assert (EW : W1 = W2).
  { apply (spec_run_functional (mi_costs x) (mi_voters x) P' (mi_tb x) tb' Htb _ _ _ R1 _ _ R2).
    split; [apply repeat_length|]. split; [apply repeat_length|].
    exists (repeat (share x) (length (mi_voters x))), (repeat (share x) (length P')).
    split; [apply beq_refl|]. split; [apply beq_refl|].
    rewrite !combine_repeat. apply Permutation_map. exact HP. }
  subst W2. intros p. rewrite (S1 p), (S2 p). reflexivity.
Qed.

(* M  mes_enum_indep *)
Theorem mes_enum_indep x e2 o1 o2 :
  wf_voters (mi_voters x) -> tcost (mi_inst x) (mi_init x) <= mi_budget x ->
  valid_enum x (mi_enum x) -> valid_enum x e2 ->
  mes_resolute x = Some o1 -> mes_resolute (with_enum x e2) = Some o2 ->
  set_eq (o_alloc o1) (o_alloc o2).
Proof.
  intros Hv Hf H1 H2 E1 E2.
  apply (mes_presentation_indep x e2 (mi_voters x) (mi_tb x) o1 o2 Hv Hf H1 H2 (Permutation_refl _)
           (fun q => Qeq_refl _) E1). exact E2.
Qed.

(* M  mes_perm_voters *)
Theorem mes_perm_voters x P' tb' o1 o2 :
  wf_voters (mi_voters x) -> tcost (mi_inst x) (mi_init x) <= mi_budget x ->
  valid_enum x (mi_enum x) ->
  Permutation (mi_voters x) P' -> (forall q, mi_tb x q == tb' q) ->
  mes_resolute x = Some o1 -> mes_resolute (with_voters x P' tb') = Some o2 ->
  set_eq (o_alloc o1) (o_alloc o2).
Proof.
  intros Hv Hf H1 HP Htb E1 E2.
  apply (mes_presentation_indep x (mi_enum x) P' tb' o1 o2 Hv Hf H1 H1 HP Htb E1).
  destruct x. exact E2.
Qed.

(* the rule always answers (Proofs/MesFeasible.v), so the statements are never vacuous *)
Lemma mes_answers x : exists o, mes_resolute x = Some o.
Proof. exact (proj1 (mes_total x)). Qed.

(* ------------------------------------------------------------------------------------------ *)
(* the iterated variant (voter_budget_increment): every run of the loop, hence its result       *)
(* ------------------------------------------------------------------------------------------ *)
Lemma forallb_set_eq {A} (h : A -> bool) l l' : (forall p, In p l <-> In p l') -> forallb h l = forallb h l'.
Proof.
  intros H. destruct (forallb h l) eqn:E1, (forallb h l') eqn:E2; try reflexivity.
  - rewrite forallb_forall in E1. assert (forallb h l' = true) by (apply forallb_forall; intros p Hp; apply E1, H, Hp).
    congruence.
  - rewrite forallb_forall in E2. assert (forallb h l = true) by (apply forallb_forall; intros p Hp; apply E2, H, Hp).
    congruence.
Qed.
Lemma forallb_map_ {A B} (g : A -> B) (h : B -> bool) l : forallb h (map g l) = forallb (fun a => h (g a)) l.
Proof. induction l as [|a l IH]; simpl; [reflexivity|]. rewrite IH. reflexivity. Qed.
Lemma forallb_ext_in_ {A} (g h : A -> bool) l : (forall a, In a l -> g a = h a) -> forallb g l = forallb h l.
Proof.
  induction l as [|a l IH]; simpl; intros H; [reflexivity|].
  rewrite (H a (or_introl eq_refl)), IH; [reflexivity|]. intros b Hb. apply H. right. exact Hb.
Qed.

Definition operm (a b : option mes_out) : Prop :=
  match a, b with
  | Some o1, Some o2 => Permutation (o_alloc o1) (o_alloc o2)
  | None, None => True
  | _, _ => False
  end.

Section Iter.
Variables (x : mes_in) (e2 : list proj) (P' : list vcls) (tb' : proj -> Q).
Hypothesis Hv : wf_voters (mi_voters x).
Hypothesis Hn1 : valid_enum x (mi_enum x).
Hypothesis Hn2 : valid_enum x e2.
Hypothesis HP : Permutation (mi_voters x) P'.
Hypothesis Htb : forall q, mi_tb x q == tb' q.
Let x2 := with_voters (with_enum x e2) P' tb'.

Lemma Hv2 : wf_voters (mi_voters x2).
Proof.
  unfold wf_voters in *. simpl. rewrite Forall_forall in *. intros v Hin. apply Hv.
  eapply Permutation_in; [symmetry; exact HP|exact Hin].
Qed.

Lemma pool2 : si_pool (spec_of x2) = si_pool (spec_of x).
Proof. unfold si_pool. apply filter_ext. intros p. f_equal. apply si_supported_perm. exact HP. Qed.
Lemma zeros2 : si_zeros (spec_of x2) = si_zeros (spec_of x).
Proof. unfold si_zeros. apply filter_ext. intros p. f_equal. apply si_supported_perm. exact HP. Qed.

Lemma run_once_presentation b0 o1 o2 : 0 <= b0 ->
  run_once_res x b0 = Some o1 -> run_once_res x2 b0 = Some o2 -> Permutation (o_alloc o1) (o_alloc o2).
Proof.
  intros Hb E1 E2. destruct Hn1 as [N1 C1], Hn2 as [N2 C2].
  destruct (run_once_refines_spec x b0 o1 Hv Hb N1 C1 E1) as (Z1 & W1 & R1 & A1 & PZ1).
  destruct (run_once_refines_spec x2 b0 o2 Hv2 Hb N2 C2 E2) as (Z2 & W2 & R2 & A2 & PZ2).
  rewrite pool2 in R2. rewrite zeros2 in PZ2. simpl in R2.
  assert (EW : W1 = W2).
  { apply (spec_run_functional (mi_costs x) (mi_voters x) P' (mi_tb x) tb' Htb _ _ _ R1 _ _ R2).
    split; [apply repeat_length|]. split; [apply repeat_length|].
    exists (repeat b0 (length (mi_voters x))), (repeat b0 (length P')).
    split; [apply beq_refl|]. split; [apply beq_refl|].
    rewrite !combine_repeat. apply Permutation_map. exact HP. }
  subst W2. rewrite A1, A2. simpl. apply Permutation_app_head. apply Permutation_app_tail.
  eapply Permutation_trans; [exact PZ1|symmetry; exact PZ2].
Qed.

Lemma feasible_pres W1 W2 : Permutation W1 W2 -> alloc_feasible x2 W2 = alloc_feasible x W1.
Proof.
  intros H. unfold alloc_feasible. change (mi_inst x2) with (mi_inst x). change (mi_budget x2) with (mi_budget x).
  destruct (Qleb (tcost (mi_inst x) W2) (mi_budget x)) eqn:E1, (Qleb (tcost (mi_inst x) W1) (mi_budget x)) eqn:E2;
    try reflexivity.
  - apply Qleb_iff in E1. rewrite <- (tcost_perm _ _ _ H) in E1. apply Qleb_iff in E1. congruence.
  - apply Qleb_iff in E2. rewrite (tcost_perm _ _ _ H) in E2. apply Qleb_iff in E2. congruence.
Qed.

Definition exh_test (c : Q) (W : list proj) (p : proj) : bool :=
  memb p W || negb (Qleb (nth p (mi_costs x) 0 + c) (mi_budget x)).

Lemma exhaustive_ids y W : mi_costs y = mi_costs x -> mi_budget y = mi_budget x ->
  alloc_exhaustive y W = forallb (exh_test (tcost (mi_inst x) W) W) (ids (fst (built y))).
Proof.
  intros Ec Eb. unfold alloc_exhaustive, ids. rewrite forallb_map_.
  assert (Ei : mi_inst y = mi_inst x) by (unfold mi_inst; rewrite Ec, Eb; reflexivity). rewrite Ei, Eb.
  apply forallb_ext_in_. intros mp Hmp. unfold exh_test.
  pose proof (mk_projects_wf (mi_voters y) (mi_costs y) (mi_bin y) (candidates y)) as Hw. fold (built y) in Hw.
  rewrite Forall_forall in Hw. destruct (Hw mp Hmp) as (_ & _ & Hc & _). rewrite Hc, Ec. reflexivity.
Qed.

Lemma exhaustive_pres W1 W2 : Permutation W1 W2 -> alloc_exhaustive x2 W2 = alloc_exhaustive x W1.
Proof.
  intros H. rewrite (exhaustive_ids x2 W2 eq_refl eq_refl), (exhaustive_ids x W1 eq_refl eq_refl).
  destruct Hn1 as [N1 C1], Hn2 as [N2 C2].
  rewrite (forallb_set_eq _ (ids (fst (built x2))) (ids (fst (built x)))).
  - apply forallb_ext_in_. intros p _. unfold exh_test. unfold memb.
    rewrite (existsb_perm (Nat.eqb p) W1 W2 H). f_equal. f_equal.
    destruct (Qleb (nth p (mi_costs x) 0 + tcost (mi_inst x) W2) (mi_budget x)) eqn:E1,
             (Qleb (nth p (mi_costs x) 0 + tcost (mi_inst x) W1) (mi_budget x)) eqn:E2; try reflexivity.
    + apply Qleb_iff in E1. rewrite <- (tcost_perm _ _ _ H) in E1. apply Qleb_iff in E1. congruence.
    + apply Qleb_iff in E2. rewrite (tcost_perm _ _ _ H) in E2. apply Qleb_iff in E2. congruence.
  - intros p. rewrite <- (pool_iff x2 p Hv2 C2), <- (pool_iff x p Hv C1), pool2. reflexivity.
Qed.

Theorem iter_res_presentation inc : 0 <= inc -> forall fuel b0 prev1 prev2, 0 <= b0 ->
  operm prev1 prev2 -> operm (iter_res fuel x inc b0 prev1) (iter_res fuel x2 inc b0 prev2).
Proof.
  intros Hinc. induction fuel as [|f IH]; intros b0 prev1 prev2 Hb Hprev; [exact Logic.I|].
  cbn [iter_res].
  pose proof (run_once_res_total x b0) as T1. pose proof (run_once_res_total x2 b0) as T2.
  destruct (run_once_res x b0) as [o1|] eqn:E1; [|congruence].
  destruct (run_once_res x2 b0) as [o2|] eqn:E2; [|congruence].
  pose proof (run_once_presentation b0 o1 o2 Hb E1 E2) as Hperm.
  rewrite (feasible_pres _ _ Hperm), (exhaustive_pres _ _ Hperm).
  destruct (negb (alloc_feasible x (o_alloc o1))); [exact Hprev|].
  destruct (alloc_exhaustive x (o_alloc o1)); [exact Hperm|].
  apply IH; [|exact Hperm]. rewrite Qred_correct.
  apply (Qle_trans _ (0 + 0)); [discriminate|]. apply Qplus_le_compat; assumption.
Qed.

(* M  for the iterated rule: enumeration order and voter order do not change the selected set *)
Theorem mes_iter_presentation_indep fuel inc : 0 <= inc ->
  tcost (mi_inst x) (mi_init x) <= mi_budget x ->
  operm (mes_iter_resolute fuel x inc) (mes_iter_resolute fuel x2 inc).
Proof.
  intros Hinc Hf. unfold mes_iter_resolute.
  assert (Eshare : share x2 = share x).
  { unfold share. simpl. rewrite <- (nvoters_perm _ _ HP). reflexivity. }
  rewrite Eshare. apply iter_res_presentation; [exact Hinc|apply share_nonneg; exact Hf|exact Logic.I].
Qed.
End Iter.
