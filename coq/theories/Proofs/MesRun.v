(* Proofs/MesRun.v -- runs of the Equal Shares model as sequences of steps.
   [run_res] and [run_irr] (Model/MesRule.v) are fuelled recursions over the same round function;
   this file gives (a) a friendlier unfolding of the scan, (b) structural facts about the scan that
   need no arithmetic (identifiers are preserved, the pool only shrinks), (c) the step relation,
   with the lemma that every result of [run_res] / every leaf of [run_irr] is the accumulated
   allocation of a terminal state reachable by steps, (d) totality with the model's fuel. *)
From PB Require Export Proofs.MesTrace.
Open Scope Q_scope.

(* ---------- (a) the scan, one project at a time ---------- *)

Definition scan_t := (Qx * list mproj * list (proj * option mproj))%type.
Definition addr (e : proj * option mproj) (x : scan_t) : scan_t := (fst (fst x), snd (fst x), e :: snd x).
Definition upd_best (best : Qx) (a : Q) : Qx := if Qx_ltb (Fin a) best then Fin a else best.
Definition upd_tied (best : Qx) (tied : list mproj) (a : Q) (mp' : mproj) : list mproj :=
  if Qx_ltb (Fin a) best then [mp'] else if Qx_eqb (Fin a) best then tied ++ [mp'] else tied.

Lemma addr_let e (x : scan_t) : (let '(b, t, res) := x in (b, t, e :: res)) = addr e x.
Proof. destruct x as [[b t] res]. reflexivity. Qed.

Lemma scan_step P buds mp r best tied :
  scan P buds (mp :: r) best tied =
  if Qltb (avail P buds mp) (mp_cost mp) then addr (mp_id mp, None) (scan P buds r best tied)
  else if Qx_ltb best (Fin (mp_aff mp)) then (best, tied, [])
  else match eval_rho P buds mp (sorted_sup P buds mp) with
       | Some a0 =>
           let mp' := set_aff mp (Qred a0) (sorted_sup P buds mp) in
           addr (mp_id mp, Some mp') (scan P buds r (upd_best best (Qred a0)) (upd_tied best tied (Qred a0) mp'))
       | None => addr (mp_id mp, Some (set_sup mp (sorted_sup P buds mp))) (scan P buds r best tied)
       end.
Proof.
  rewrite scan_cons.
  destruct (Qltb (avail P buds mp) (mp_cost mp)); [apply addr_let|].
  destruct (Qx_ltb best (Fin (mp_aff mp))); [reflexivity|]. cbv zeta.
  destruct (eval_rho P buds mp (sorted_sup P buds mp)) as [a0|]; [|apply addr_let].
  unfold upd_best, upd_tied. rewrite addr_let.
  destruct (Qx_ltb (Fin (Qred a0)) best); [reflexivity|].
  destruct (Qx_eqb (Fin (Qred a0)) best); reflexivity.
Qed.

(* ---------- (b) structural facts ---------- *)

Definition ids (l : list mproj) : list proj := map mp_id l.

Definition res_ids_ok (res : list (proj * option mproj)) : Prop :=
  forall k m, In (k, Some m) res -> mp_id m = k.

Lemma scan_ids P buds : forall l best tied,
  (forall x, In x (snd (fst (scan P buds l best tied))) -> In x tied \/ In (mp_id x) (ids l)) /\
  res_ids_ok (snd (scan P buds l best tied)).
Proof.
  induction l as [|mp r IH]; intros best tied.
  - simpl. split; [intros x Hx; left; exact Hx|intros ? ? []].
  - rewrite scan_step.
    destruct (Qltb (avail P buds mp) (mp_cost mp)).
    + destruct (IH best tied) as [I1 I2]. split.
      * intros x Hx. simpl in Hx. destruct (I1 x Hx) as [H|H]; [left; exact H|right; right; exact H].
      * intros k m [E|Hin]; [discriminate E|apply (I2 k m Hin)].
    + destruct (Qx_ltb best (Fin (mp_aff mp))).
      * simpl. split; [intros x Hx; left; exact Hx|intros ? ? []].
      * destruct (eval_rho P buds mp (sorted_sup P buds mp)) as [a0|].
        -- cbv zeta. set (mp' := set_aff mp (Qred a0) (sorted_sup P buds mp)).
           destruct (IH (upd_best best (Qred a0)) (upd_tied best tied (Qred a0) mp')) as [I1 I2]. split.
           ++ intros x Hx. simpl in Hx. destruct (I1 x Hx) as [H|H]; [|right; right; exact H].
              unfold upd_tied in H.
              destruct (Qx_ltb (Fin (Qred a0)) best).
              ** destruct H as [<-|[]]. right. left. reflexivity.
              ** destruct (Qx_eqb (Fin (Qred a0)) best); [|left; exact H].
                 apply in_app_or in H. destruct H as [H|[<-|[]]]; [left; exact H|right; left; reflexivity].
           ++ intros k m [E|Hin]; [injection E as <- <-; reflexivity|apply (I2 k m Hin)].
        -- destruct (IH best tied) as [I1 I2]. split.
           ++ intros x Hx. simpl in Hx. destruct (I1 x Hx) as [H|H]; [left; exact H|right; right; exact H].
           ++ intros k m [E|Hin]; [injection E as <- <-; reflexivity|apply (I2 k m Hin)].
Qed.

Lemma patch_cons mp projects res :
  patch (mp :: projects) res =
  match lookup (mp_id mp) res with
  | None => [mp]
  | Some None => []
  | Some (Some mp') => [mp']
  end ++ patch projects res.
Proof. reflexivity. Qed.

Lemma patch_ids projects res x :
  res_ids_ok res -> In x (patch projects res) -> In (mp_id x) (ids projects).
Proof.
  intros Hr. induction projects as [|mp r IH]; [intros []|].
  rewrite patch_cons. intro H. apply in_app_or in H. destruct H as [H|H]; [|right; apply IH; exact H].
  left. destruct (lookup (mp_id mp) res) as [[m|]|] eqn:E.
  - destruct H as [<-|[]]. symmetry. apply Hr. apply lookup_In. exact E.
  - destruct H.
  - destruct H as [<-|[]]. reflexivity.
Qed.

Lemma remove_proj_app id l1 l2 : remove_proj id (l1 ++ l2) = remove_proj id l1 ++ remove_proj id l2.
Proof. unfold remove_proj. apply filter_app. Qed.

Lemma remove_patch_length id projects res :
  res_ids_ok res -> (length (remove_proj id (patch projects res)) <= length (remove_proj id projects))%nat.
Proof.
  intros Hr. induction projects as [|mp r IH]; [simpl; lia|].
  rewrite patch_cons, remove_proj_app, app_length.
  change (remove_proj id (mp :: r)) with
    (if negb (Nat.eqb (mp_id mp) id) then mp :: remove_proj id r else remove_proj id r).
  destruct (lookup (mp_id mp) res) as [[m|]|] eqn:E.
  - assert (Em : mp_id m = mp_id mp) by (apply Hr; apply lookup_In; exact E).
    unfold remove_proj at 1. simpl. rewrite Em.
    destruct (negb (Nat.eqb (mp_id mp) id)); simpl; lia.
  - simpl. destruct (negb (Nat.eqb (mp_id mp) id)); simpl; lia.
  - unfold remove_proj at 1. simpl.
    destruct (negb (Nat.eqb (mp_id mp) id)); simpl; lia.
Qed.

Lemma remove_proj_In id projects x : In x (remove_proj id projects) <-> In x projects /\ mp_id x <> id.
Proof.
  unfold remove_proj. rewrite filter_In, negb_true_iff, Nat.eqb_neq. tauto.
Qed.

Lemma remove_proj_length_lt id projects :
  In id (ids projects) -> (length (remove_proj id projects) < length projects)%nat.
Proof.
  induction projects as [|mp r IH]; [intros []|].
  intros H.
  change (remove_proj id (mp :: r)) with
    (if negb (Nat.eqb (mp_id mp) id) then mp :: remove_proj id r else remove_proj id r).
  assert (Hle : (length (remove_proj id r) <= length r)%nat).
  { unfold remove_proj. clear. induction r as [|y r IH]; simpl; [lia|]. destruct (negb (Nat.eqb (mp_id y) id)); simpl; lia. }
  destruct (Nat.eqb (mp_id mp) id) eqn:E; simpl.
  - lia.
  - apply Nat.eqb_neq in E. destruct H as [H|H]; [contradiction|]. specialize (IH H). lia.
Qed.

Lemma round_scan_ids P buds projects best tied projects' :
  round_scan P buds projects = (best, tied, projects') ->
  (forall x, In x tied -> In (mp_id x) (ids projects)) /\
  (forall x, In x projects' -> In (mp_id x) (ids projects)) /\
  (forall id, (length (remove_proj id projects') <= length (remove_proj id projects))%nat).
Proof.
  unfold round_scan. intro H.
  destruct (scan_ids P buds (isort aff_leb projects) PInf []) as [I1 I2].
  destruct (scan P buds (isort aff_leb projects) PInf []) as [[b t] res]. simpl in *.
  injection H as <- <- <-. split; [|split].
  - intros x Hx. destruct (I1 x Hx) as [[]|Hin].
    unfold ids in *. apply in_map_iff in Hin. destruct Hin as [y [E Hy]]. apply isort_In in Hy.
    apply in_map_iff. exists y. split; assumption.
  - intros x Hx. apply (patch_ids projects res x I2 Hx).
  - intros id. apply remove_patch_length. exact I2.
Qed.

Lemma pick_order_nil tb tied : pick_order tb tied = [] -> tied = [].
Proof.
  destruct tied as [|a [|b r]]; [reflexivity|intro H; exact H|].
  unfold pick_order. intro H. apply (f_equal (@length mproj)) in H. rewrite !isort_length in H. discriminate H.
Qed.

Lemma pick_order_In_iff tb tied x : In x (pick_order tb tied) <-> In x tied.
Proof.
  unfold pick_order. destruct tied as [|a [|b r]]; try tauto.
  rewrite !isort_In. tauto.
Qed.

(* ---------- (c) steps ---------- *)

Record st := mkSt { s_buds : list Q; s_projs : list mproj; s_acc : list proj }.

Inductive step (P : list vcls) (tb : proj -> Q) : st -> st -> Prop :=
| step_buy buds projects acc rho tied projects' sel :
    round_scan P buds projects = (Fin rho, tied, projects') ->
    In sel (pick_order tb tied) ->
    step P tb (mkSt buds projects acc)
         (mkSt (pay P sel rho buds) (remove_proj (mp_id sel) projects') (acc ++ [mp_id sel])).

(* the round that ends the run: nothing was found *)
Definition stops (P : list vcls) (tb : proj -> Q) (s : st) (rest : list mproj) : Prop :=
  exists best tied, round_scan P (s_buds s) (s_projs s) = (best, tied, rest) /\
                    (best = PInf \/ tied = []).

Inductive steps (P : list vcls) (tb : proj -> Q) : st -> st -> Prop :=
| steps_refl s : steps P tb s s
| steps_cons s s' s'' : step P tb s s' -> steps P tb s' s'' -> steps P tb s s''.

Lemma steps_inv P tb (Inv : st -> Prop) :
  (forall s s', Inv s -> step P tb s s' -> Inv s') ->
  forall s s', steps P tb s s' -> Inv s -> Inv s'.
Proof.
  intros Hstep s s' H. induction H as [|s s' s'' H1 _ IH]; intro Hi; [exact Hi|].
  apply IH. apply (Hstep s s' Hi H1).
Qed.

(* the resolute run: the accumulated allocation / final budgets of a reachable terminal state, and
   the trace lists the purchases in order *)
Lemma run_res_steps P tb : forall fuel buds projects acc tr alloc T fin rest,
  run_res fuel P tb buds projects acc tr = Some (alloc, T, fin, rest) ->
  exists s, steps P tb (mkSt buds projects acc) s /\ stops P tb s rest /\
            alloc = s_acc s /\ fin = s_buds s /\
            exists T', T = rev tr ++ T' /\ alloc = acc ++ map r_sel T'.
Proof.
  induction fuel as [|f IH]; intros buds projects acc tr alloc T fin rest Hrun; simpl in Hrun; [discriminate|].
  destruct (round_scan P buds projects) as [[best tied] projects'] eqn:Ers.
  assert (Hstop : (best = PInf \/ tied = []) -> Some (acc, rev tr, buds, projects') = Some (alloc, T, fin, rest) ->
                  exists s, steps P tb (mkSt buds projects acc) s /\ stops P tb s rest /\
                            alloc = s_acc s /\ fin = s_buds s /\
                            exists T', T = rev tr ++ T' /\ alloc = acc ++ map r_sel T').
  { intros Hc [= <- <- <- <-]. exists (mkSt buds projects acc). split; [constructor|]. split.
    - exists best, tied. simpl. split; [exact Ers|exact Hc].
    - split; [reflexivity|]. split; [reflexivity|]. exists []. rewrite !app_nil_r. split; reflexivity. }
  destruct best as [rho|]; [|apply Hstop; [left; reflexivity|exact Hrun]].
  destruct (pick_order tb tied) as [|sel rest'] eqn:Epo.
  { apply Hstop; [right; apply (pick_order_nil tb); exact Epo|exact Hrun]. }
  apply IH in Hrun. destruct Hrun as [s [H1 [H2 [H3 [H4 [T' [H5 H6]]]]]]].
  exists s. split.
  - eapply steps_cons; [|exact H1]. apply (step_buy P tb buds projects acc rho tied projects' sel Ers).
    rewrite Epo. left. reflexivity.
  - split; [exact H2|]. split; [exact H3|]. split; [exact H4|].
    exists (mkRound (mp_id sel) rho buds (pay P sel rho buds) :: T'). split.
    + rewrite H5. simpl. rewrite <- app_assoc. reflexivity.
    + rewrite H6. rewrite <- app_assoc. reflexivity.
Qed.

Lemma fold_opt_In {A B} (g : A -> option (list B)) : forall l L0 L,
  fold_left (fun res a => match res with
                          | None => None
                          | Some L1 => match g a with None => None | Some L' => Some (L1 ++ L') end
                          end) l (Some L0) = Some L ->
  forall W, In W L -> In W L0 \/ exists a L', In a l /\ g a = Some L' /\ In W L'.
Proof.
  induction l as [|a r IH]; intros L0 L H W HW; simpl in H.
  - injection H as <-. left. exact HW.
  - destruct (g a) as [L'|] eqn:E.
    + destruct (IH _ _ H W HW) as [Hin|[a' [L'' [Ha [Eg Hin]]]]].
      * apply in_app_or in Hin. destruct Hin as [Hin|Hin]; [left; exact Hin|].
        right. exists a, L'. split; [left; reflexivity|]. split; assumption.
      * right. exists a', L''. split; [right; exact Ha|]. split; assumption.
    + exfalso. clear -H. induction r as [|b r IH]; simpl in H; [discriminate|apply IH; exact H].
Qed.

Lemma fold_opt_total {A B} (g : A -> option (list B)) : forall l L0,
  (forall a, In a l -> g a <> None) ->
  fold_left (fun res a => match res with
                          | None => None
                          | Some L1 => match g a with None => None | Some L' => Some (L1 ++ L') end
                          end) l (Some L0) <> None.
Proof.
  induction l as [|a r IH]; intros L0 H; simpl; [discriminate|].
  destruct (g a) as [L'|] eqn:E; [|exfalso; apply (H a (or_introl eq_refl)); exact E].
  apply IH. intros b Hb. apply H. right. exact Hb.
Qed.

Lemma run_irr_S f P tb buds projects acc :
  run_irr (S f) P tb buds projects acc =
  let '(best, tied, projects') := round_scan P buds projects in
  match best, pick_order tb tied with
  | Fin rho, sel0 :: rest =>
      fold_left
        (fun res sel =>
           match res with
           | None => None
           | Some L =>
               match run_irr f P tb (pay P sel rho buds) (remove_proj (mp_id sel) projects')
                             (acc ++ [mp_id sel]) with
               | None => None
               | Some L' => Some (L ++ L')
               end
           end) (sel0 :: rest) (Some [])
  | _, _ => Some [sort_alloc acc]
  end.
Proof. reflexivity. Qed.

(* the irresolute run: every leaf is the sorted allocation of a reachable terminal state *)
Lemma run_irr_steps P tb : forall fuel buds projects acc L,
  run_irr fuel P tb buds projects acc = Some L ->
  forall W, In W L ->
  exists s rest, steps P tb (mkSt buds projects acc) s /\ stops P tb s rest /\ W = sort_alloc (s_acc s).
Proof.
  induction fuel as [|f IH]; intros buds projects acc L Hrun W HW; [discriminate|].
  rewrite run_irr_S in Hrun.
  destruct (round_scan P buds projects) as [[best tied] projects'] eqn:Ers.
  assert (Hstop : (best = PInf \/ tied = []) -> Some [sort_alloc acc] = Some L ->
    exists s rest, steps P tb (mkSt buds projects acc) s /\ stops P tb s rest /\ W = sort_alloc (s_acc s)).
  { intros Hc [= <-]. destruct HW as [<-|[]]. exists (mkSt buds projects acc), projects'.
    split; [constructor|]. split; [|reflexivity]. exists best, tied. simpl. split; [exact Ers|exact Hc]. }
  destruct best as [rho|]; [|apply Hstop; [left; reflexivity|exact Hrun]].
  destruct (pick_order tb tied) as [|sel0 rest'] eqn:Epo.
  { apply Hstop; [right; apply (pick_order_nil tb); exact Epo|exact Hrun]. }
  destruct (fold_opt_In (fun sel => run_irr f P tb (pay P sel rho buds) (remove_proj (mp_id sel) projects')
                                            (acc ++ [mp_id sel])) _ _ _ Hrun W HW)
    as [[]|[sel [L' [Hsel [Hr HW']]]]].
  destruct (IH _ _ _ _ Hr W HW') as [s [rest [H1 [H2 H3]]]].
  exists s, rest. split; [|split; assumption].
  eapply steps_cons; [|exact H1]. apply (step_buy P tb buds projects acc rho tied projects' sel Ers).
  rewrite Epo. exact Hsel.
Qed.

(* ---------- (d) totality: the model's fuel (number of projects + 1) is enough ---------- *)

Lemma step_decreases P buds projects best tied projects' sel :
  round_scan P buds projects = (best, tied, projects') -> In sel tied ->
  (length (remove_proj (mp_id sel) projects') < length projects)%nat.
Proof.
  intros Hrs Hsel. destruct (round_scan_ids P buds projects best tied projects' Hrs) as [H1 [_ H3]].
  specialize (H3 (mp_id sel)). pose proof (remove_proj_length_lt (mp_id sel) projects (H1 sel Hsel)). lia.
Qed.

Theorem run_res_total P tb : forall fuel buds projects acc tr,
  (length projects < fuel)%nat -> run_res fuel P tb buds projects acc tr <> None.
Proof.
  induction fuel as [|f IH]; intros buds projects acc tr Hf; [lia|]. simpl.
  destruct (round_scan P buds projects) as [[best tied] projects'] eqn:Ers.
  destruct best as [rho|]; [|discriminate].
  destruct (pick_order tb tied) as [|sel rest'] eqn:Epo; [discriminate|].
  apply IH.
  assert (Hsel : In sel tied) by (apply (pick_order_In_iff tb); rewrite Epo; left; reflexivity).
  pose proof (step_decreases P buds projects _ _ _ sel Ers Hsel). lia.
Qed.

Theorem run_irr_total P tb : forall fuel buds projects acc,
  (length projects < fuel)%nat -> run_irr fuel P tb buds projects acc <> None.
Proof.
  induction fuel as [|f IH]; intros buds projects acc Hf; [lia|]. rewrite run_irr_S.
  destruct (round_scan P buds projects) as [[best tied] projects'] eqn:Ers.
  destruct best as [rho|]; [|discriminate].
  destruct (pick_order tb tied) as [|sel0 rest'] eqn:Epo; [discriminate|].
  apply (fold_opt_total (fun sel => run_irr f P tb (pay P sel rho buds) (remove_proj (mp_id sel) projects')
                                            (acc ++ [mp_id sel]))).
  intros sel Hin. apply IH.
  assert (Hsel : In sel tied) by (apply (pick_order_In_iff tb); rewrite Epo; exact Hin).
  pose proof (step_decreases P buds projects _ _ _ sel Ers Hsel). lia.
Qed.

Theorem run_once_res_total x b0 : run_once_res x b0 <> None.
Proof.
  unfold run_once_res.
  pose proof (run_res_total (mi_voters x) (mi_tb x) (S (length (fst (built x))))
                (repeat b0 (length (mi_voters x))) (fst (built x)) (start_alloc x) [] (Nat.lt_succ_diag_r _)) as H.
  destruct (run_res _ _ _ _ _ _ _) as [[[[alloc tr] fin] rest]|]; [discriminate|contradiction].
Qed.

Theorem run_once_irr_total x b0 : run_once_irr x b0 <> None.
Proof.
  unfold run_once_irr.
  pose proof (run_irr_total (mi_voters x) (mi_tb x) (S (length (fst (built x))))
                (repeat b0 (length (mi_voters x))) (fst (built x)) (start_alloc x) (Nat.lt_succ_diag_r _)) as H.
  destruct (run_irr _ _ _ _ _ _) as [L|]; [discriminate|contradiction].
Qed.
