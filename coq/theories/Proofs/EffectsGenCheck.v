(* Proofs/EffectsGenCheck.v -- the regenerated effect summaries (Generated/EffectSummaries.v) pass the verified
   test writes_only_fresh; evaluated by vm_compute, i.e. RE-CHECKED against what the Python source says now on
   every build.  If one of these fails, the named entry point writes into an object it was handed (or the
   translator could not show that it does not): read the offending SSetKey / SAppend (Arg i) line of the summary,
   its comment names the source line. *)
From PB Require Import Model.Effects Model.EffectsGen Proofs.EffectsGenP Generated.EffectSummaries.

Lemma ok_greedy_utilitarian_welfare : writes_only_fresh gen_progs summary_greedy_utilitarian_welfare = true.
Proof. vm_compute. reflexivity. Qed.
Lemma nw_greedy_utilitarian_welfare : no_work summary_greedy_utilitarian_welfare = true.
Proof. reflexivity. Qed.
Lemma ok_greedy_utilitarian_scheme : writes_only_fresh gen_progs summary_greedy_utilitarian_scheme = true.
Proof. vm_compute. reflexivity. Qed.
Lemma nw_greedy_utilitarian_scheme : no_work summary_greedy_utilitarian_scheme = true.
Proof. reflexivity. Qed.
Lemma ok_greedy_utilitarian_scheme_additive : writes_only_fresh gen_progs summary_greedy_utilitarian_scheme_additive = true.
Proof. vm_compute. reflexivity. Qed.
Lemma nw_greedy_utilitarian_scheme_additive : no_work summary_greedy_utilitarian_scheme_additive = true.
Proof. reflexivity. Qed.
Lemma ok_max_additive_utilitarian_welfare : writes_only_fresh gen_progs summary_max_additive_utilitarian_welfare = true.
Proof. vm_compute. reflexivity. Qed.
Lemma nw_max_additive_utilitarian_welfare : no_work summary_max_additive_utilitarian_welfare = true.
Proof. reflexivity. Qed.
Lemma ok_max_additive_utilitarian_welfare_ilp_scheme : writes_only_fresh gen_progs summary_max_additive_utilitarian_welfare_ilp_scheme = true.
Proof. vm_compute. reflexivity. Qed.
Lemma nw_max_additive_utilitarian_welfare_ilp_scheme : no_work summary_max_additive_utilitarian_welfare_ilp_scheme = true.
Proof. reflexivity. Qed.
Lemma ok_max_additive_utilitarian_welfare_primal_dual_scheme : writes_only_fresh gen_progs summary_max_additive_utilitarian_welfare_primal_dual_scheme = true.
Proof. vm_compute. reflexivity. Qed.
Lemma nw_max_additive_utilitarian_welfare_primal_dual_scheme : no_work summary_max_additive_utilitarian_welfare_primal_dual_scheme = true.
Proof. reflexivity. Qed.
Lemma ok_primal_dual_branch : writes_only_fresh gen_progs summary_primal_dual_branch = true.
Proof. vm_compute. reflexivity. Qed.
Lemma ok_primal_dual_branch_impl : writes_only_fresh gen_progs summary_primal_dual_branch_impl = true.
Proof. vm_compute. reflexivity. Qed.
Lemma ok_method_of_equal_shares : writes_only_fresh gen_progs summary_method_of_equal_shares = true.
Proof. vm_compute. reflexivity. Qed.
Lemma nw_method_of_equal_shares : no_work summary_method_of_equal_shares = true.
Proof. reflexivity. Qed.
Lemma ok_method_of_equal_shares_scheme : writes_only_fresh gen_progs summary_method_of_equal_shares_scheme = true.
Proof. vm_compute. reflexivity. Qed.
Lemma ok_mes_inner_algo : writes_only_fresh gen_progs summary_mes_inner_algo = true.
Proof. vm_compute. reflexivity. Qed.
Lemma ok_sequential_phragmen : writes_only_fresh gen_progs summary_sequential_phragmen = true.
Proof. vm_compute. reflexivity. Qed.
Lemma nw_sequential_phragmen : no_work summary_sequential_phragmen = true.
Proof. reflexivity. Qed.
Lemma ok_completion_by_rule_combination : writes_only_fresh gen_progs summary_completion_by_rule_combination = true.
Proof. vm_compute. reflexivity. Qed.
Lemma nw_completion_by_rule_combination : no_work summary_completion_by_rule_combination = true.
Proof. reflexivity. Qed.
Lemma ok_exhaustion_by_budget_increase : writes_only_fresh gen_progs summary_exhaustion_by_budget_increase = true.
Proof. vm_compute. reflexivity. Qed.
Lemma nw_exhaustion_by_budget_increase : no_work summary_exhaustion_by_budget_increase = true.
Proof. reflexivity. Qed.
Lemma ok_popularity_comparison : writes_only_fresh gen_progs summary_popularity_comparison = true.
Proof. vm_compute. reflexivity. Qed.
Lemma nw_popularity_comparison : no_work summary_popularity_comparison = true.
Proof. reflexivity. Qed.
Lemma ok_social_welfare_comparison : writes_only_fresh gen_progs summary_social_welfare_comparison = true.
Proof. vm_compute. reflexivity. Qed.
Lemma nw_social_welfare_comparison : no_work summary_social_welfare_comparison = true.
Proof. reflexivity. Qed.
Lemma ok_calculate_project_loss : writes_only_fresh gen_progs summary_calculate_project_loss = true.
Proof. vm_compute. reflexivity. Qed.
Lemma nw_calculate_project_loss : no_work summary_calculate_project_loss = true.
Proof. reflexivity. Qed.
Lemma ok_calculate_effective_support : writes_only_fresh gen_progs summary_calculate_effective_support = true.
Proof. vm_compute. reflexivity. Qed.
Lemma nw_calculate_effective_support : no_work summary_calculate_effective_support = true.
Proof. reflexivity. Qed.
Lemma ok_calculate_effective_supports : writes_only_fresh gen_progs summary_calculate_effective_supports = true.
Proof. vm_compute. reflexivity. Qed.
Lemma nw_calculate_effective_supports : no_work summary_calculate_effective_supports = true.
Proof. reflexivity. Qed.

Lemma all_summaries_ok : forallb (writes_only_fresh gen_progs) gen_summaries = true.
Proof. vm_compute. reflexivity. Qed.

(* the explicitly excluded statements are real writes into caller-owned objects: every summary that keeps them
   FAILS the test unless the target is one of its work parameters (the documented final_budget override of calculate_effective_supports, and whatever else the
   exception table of the translator currently lists) *)
Lemma all_full_summaries_rejected :
  forallb (fun p => negb (no_work p) || negb (writes_only_fresh gen_progs p)) gen_summaries_full = true.
Proof. vm_compute. reflexivity. Qed.
Lemma final_budget_override_rejected :
  writes_only_fresh gen_progs summary_calculate_effective_supports_full = false.
Proof. vm_compute. reflexivity. Qed.

(* non-vacuity on a concrete store: nine caller objects; the budget-increase wrapper allocates and writes a lot and
   leaves all nine as they were; the final_budget override changes the instance *)
Definition demo_store : store :=
  map (fun k => mkCell (T k [T 5 [Lq (3 # 1)]]) []) (seq 1 9).
Lemma demo_increase :
  let s' := run_summary 6 gen_progs summary_exhaustion_by_budget_increase demo_store (seq 0 9) in
  caller_view 9 s' = caller_view 9 demo_store /\ (9 < length s')%nat /\
  firstn 9 s' <> demo_store.
Proof. vm_compute. repeat split; try reflexivity; try lia. discriminate. Qed.
Lemma demo_override :
  caller_view 5 (run_summary 6 gen_progs summary_calculate_effective_supports_full demo_store (seq 0 5))
  <> caller_view 5 demo_store.
Proof. vm_compute. discriminate. Qed.
