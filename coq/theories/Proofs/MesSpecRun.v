(* Proofs/MesSpecRun.v -- C02 mes_model_refines_spec: the purchases of the Equal Shares model
   (lazy scan over cached affordabilities, sorted sweep, binary shortcut, removal of unaffordable
   projects, name-sort + stable tie-break sort) are a run of the textbook rule of Spec/MesSpec.v.
   Ingredients proved here:
     LB          the cached affordability of every pooled project is a lower bound of every rho
                 that covers its cost at the current budgets; preserved by the scan (re-evaluated
                 projects store their least rho) and by payments (budgets only decrease);
                 implies [cache_lb] of Proofs/MesLazy.v, hence lazy scan = eager scan;
     eager_*     the eager scan returns exactly the projects whose least rho is the minimum;
     pick_ids    name-sort + tie-break sort of the tied MESProjects = tie_order of the name-sorted
                 identifiers;
     round_refines / run_refines   assembly. *)
From PB Require Export Proofs.MesFinal Proofs.MesRefine.
Open Scope Q_scope.

(* ---------- sorting records by a key = sorting the keys ---------- *)

Lemma map_insert {A B} (f : A -> B) (leb : B -> B -> bool) x l :
  map f (insert (fun a b => leb (f a) (f b)) x l) = insert leb (f x) (map f l).
Proof.
  induction l as [|y t IH]; simpl; [reflexivity|].
  destruct (leb (f x) (f y)); simpl; [reflexivity|rewrite IH; reflexivity].
Qed.

Lemma map_isort {A B} (f : A -> B) (leb : B -> B -> bool) l :
  map f (isort (fun a b => leb (f a) (f b)) l) = isort leb (map f l).
Proof.
  induction l as [|x t IH]; simpl; [reflexivity|]. rewrite map_insert, IH. reflexivity.
Qed.

Lemma pick_ids tb tied : ids (pick_order tb tied) = tie_order tb (name_sort (ids tied)).
Proof.
  unfold pick_order, tie_order, name_sort, ids. destruct tied as [|a [|b r]]; [reflexivity|reflexivity|].
  rewrite (map_isort mp_id (fun p q => Qleb (tb p) (tb q))), (map_isort mp_id Nat.leb). reflexivity.
Qed.

Lemma name_sort_sorted l : NoDup l -> StronglySorted lt (name_sort l).
Proof.
  intro Hn. unfold name_sort.
  assert (Hs : StronglySorted (fun a b => Nat.leb a b = true) (isort Nat.leb l)).
  { apply isort_sorted.
    - intros x y. rewrite !Nat.leb_le. lia.
    - intros x y z. rewrite !Nat.leb_le. lia. }
  assert (Hnd : NoDup (isort Nat.leb l)) by (eapply Permutation_NoDup; [apply isort_perm|exact Hn]).
  induction Hs as [|x t Hs IH Hall]; [constructor|]. inversion Hnd as [|? ? Hx Ht]; subst.
  constructor; [apply IH; exact Ht|]. rewrite Forall_forall in *. intros y Hy.
  specialize (Hall y Hy). apply Nat.leb_le in Hall.
  assert (x <> y) by (intros ->; contradiction). lia.
Qed.

(* ---------- the textbook quantities: extensionality, uniqueness, monotonicity ---------- *)

Lemma paid_ext P b rho rho' p : rho == rho' -> paid P b rho p == paid P b rho' p.
Proof.
  intro E. unfold paid. apply Qsum_map_ext. intros i _.
  rewrite (Qmin_ext_r (s_bud b i) (rho * s_util P i p) (rho' * s_util P i p)); [reflexivity|rewrite E; reflexivity].
Qed.

Lemma is_rho_ext cs P b p r r' : r == r' -> is_rho cs P b p r -> is_rho cs P b p r'.
Proof.
  intros E [H1 H2]. split; [rewrite <- (paid_ext P b r r' p E); exact H1|].
  intros rho' H. specialize (H2 rho' H). lra.
Qed.

Lemma is_rho_unique cs P b p r1 r2 : is_rho cs P b p r1 -> is_rho cs P b p r2 -> r1 == r2.
Proof. intros [A1 A2] [B1 B2]. apply Qle_antisym; [apply A2; exact B1|apply B2; exact A1]. Qed.

Lemma Qmin_mono_l a a' x : a' <= a -> Qmin a' x <= Qmin a x.
Proof.
  intro H. apply Q.min_glb; [eapply Qle_trans; [apply Q.le_min_l|exact H]|apply Q.le_min_r].
Qed.

Lemma paid_mono_buds P b b' rho p :
  (forall i, (i < length P)%nat -> vbud b' i <= vbud b i) -> paid P b' rho p <= paid P b rho p.
Proof.
  intro H. unfold paid. apply Qsum_map_le. intros i Hi. apply supporters_spec in Hi. destruct Hi as [Hi _].
  pose proof (Qnat_nonneg (vmul (nth i P (mkV [] 0)))) as Hm.
  pose proof (Qmin_mono_l (s_bud b i) (s_bud b' i) (rho * s_util P i p) (H i Hi)). unfold s_mul. nra.
Qed.

Lemma Qsum_map_nonpos {A} (f : A -> Q) l : (forall a, In a l -> f a <= 0) -> Qsum (map f l) <= 0.
Proof.
  induction l as [|a l IH]; simpl; intros H; [lra|].
  pose proof (H a (or_introl eq_refl)). assert (Qsum (map f l) <= 0) by (apply IH; intros; apply H; right; assumption). lra.
Qed.

Lemma paid_neg P b rho p : rho < 0 -> paid P b rho p <= 0.
Proof.
  intro Hr. unfold paid. apply Qsum_map_nonpos. intros i Hi. apply supporters_spec in Hi. destruct Hi as [Hi Hu].
  pose proof (Qnat_nonneg (vmul (nth i P (mkV [] 0)))) as Hm.
  pose proof (Q.le_min_r (s_bud b i) (rho * s_util P i p)) as Hmin.
  change (vutil P i p) with (s_util P i p) in Hu. unfold s_mul.
  assert (Hneg : rho * s_util P i p <= 0) by nra.
  assert (Hq : Qmin (s_bud b i) (rho * s_util P i p) <= 0) by lra. nra.
Qed.

Lemma affordable_iff P cs b p : affordable cs P b p <-> ~ smoney P b p < nth p cs 0.
Proof.
  unfold affordable. change (supp_money P b p) with (smoney P b p). change (s_cost cs p) with (nth p cs 0).
  split; intro H; lra.
Qed.

(* ---------- LB: the cache is a lower bound ---------- *)

Definition LB (P : list vcls) (cs b : list Q) (mp : mproj) : Prop :=
  forall rho', nth (mp_id mp) cs 0 <= paid P b rho' (mp_id mp) -> mp_aff mp <= rho'.

Lemma LB_mono P cs b b' mp :
  0 < nth (mp_id mp) cs 0 -> (forall i, (i < length P)%nat -> vbud b' i <= vbud b i) ->
  LB P cs b mp -> LB P cs b' mp.
Proof.
  intros Hc Hle H rho' Hcov. apply H.
  eapply Qle_trans; [exact Hcov|apply paid_mono_buds; exact Hle].
Qed.

Lemma LB_cache P cs buds l :
  wf_voters P -> wf_buds P buds -> Forall (wf_mp P cs) l -> Forall (LB P cs buds) l -> cache_lb P buds l.
Proof.
  intros Hv Hb Hw Hl mp a0 Hin Haff Hev. rewrite Forall_forall in *.
  pose proof (Hw mp Hin) as Hwm.
  destruct (eval_rho_spec P cs buds mp Hv Hb Hwm Haff) as [a1 [E [_ [Hp _]]]].
  rewrite Hev in E. injection E as <-.
  apply (Hl mp Hin). rewrite <- (paidl_is_paid P cs buds mp a0 Hwm), <- (wf_mp_cost P cs mp Hwm). lra.
Qed.

(* the initial affordability cost / total_sat *)
Lemma mk_projects_cons P cs bin p r :
  mk_projects P cs bin (p :: r) =
  let '(ps, zs) := mk_projects P cs bin r in
  let sups := supporters P p in
  let ts := total_sat P p sups in
  if Qltb 0 ts then
    let c := nth p cs 0 in
    if Qltb 0 c then
      (mkMP p c sups (Qred ts) (if bin then unique_sat P p sups else None) (Qred (c / ts)) :: ps, zs)
    else (ps, p :: zs)
  else (ps, zs).
Proof. reflexivity. Qed.

Lemma mk_projects_aff P cs bin : forall enum,
  Forall (fun mp => 0 < mp_tsat mp /\ mp_aff mp * mp_tsat mp == mp_cost mp) (fst (mk_projects P cs bin enum)).
Proof.
  induction enum as [|p r IH]; [constructor|]. rewrite mk_projects_cons.
  destruct (mk_projects P cs bin r) as [ps zs]. cbn [fst] in IH. cbv zeta.
  destruct (Qltb 0 (total_sat P p (supporters P p))) eqn:Et; [|exact IH].
  destruct (Qltb 0 (nth p cs 0)) eqn:Ec; [|exact IH].
  cbn [fst]. constructor; [|exact IH]. cbn [mp_tsat mp_aff mp_cost]. apply Qltb_iff in Et. rewrite !Qred_correct.
  split; [exact Et|]. field. lra.
Qed.

Lemma LB_init P cs buds mp :
  wf_voters P -> wf_buds P buds -> wf_mp P cs mp ->
  0 < mp_tsat mp -> mp_aff mp * mp_tsat mp == mp_cost mp -> LB P cs buds mp.
Proof.
  intros Hv Hb Hw Ht Ha rho' Hcov.
  rewrite <- (paidl_is_paid P cs buds mp rho' Hw), <- (wf_mp_cost P cs mp Hw) in Hcov.
  assert (Hwfs : Forall wfs (map (sup_of P buds mp) (mp_sup mp))).
  { apply (sup_list_wfs P cs); try assumption. reflexivity. }
  pose proof (rho_ge_initial _ _ _ Hwfs Hcov) as H.
  rewrite (tu_sup_of P cs buds mp (mp_sup mp) Hw (Permutation_refl _)) in H. nra.
Qed.

Definition res_LB (P : list vcls) (cs b : list Q) (res : list (proj * option mproj)) : Prop :=
  forall k m, In (k, Some m) res -> LB P cs b m.

Lemma scan_LB P cs buds : wf_voters P -> wf_buds P buds -> forall l best tied,
  Forall (wf_mp P cs) l -> Forall (LB P cs buds) l -> res_LB P cs buds (snd (scan P buds l best tied)).
Proof.
  intros Hv Hb. induction l as [|mp r IH]; intros best tied Hw Hl; [intros ? ? []|].
  inversion Hw as [|? ? Hwm Hwr]; subst. inversion Hl as [|? ? Hlm Hlr]; subst.
  rewrite scan_step.
  destruct (Qltb (avail P buds mp) (mp_cost mp)) eqn:Ea.
  - intros k m [E|Hin]; [discriminate E|apply (IH best tied Hwr Hlr k m Hin)].
  - destruct (Qx_ltb best (Fin (mp_aff mp))); [intros ? ? []|].
    destruct (eval_rho P buds mp (sorted_sup P buds mp)) as [a0|] eqn:Ee.
    + cbv zeta. intros k m [E|Hin]; [|apply (IH _ _ Hwr Hlr k m Hin)].
      injection E as _ <-. intros rho' Hcov. simpl in *. rewrite Qred_correct.
      destruct (eval_rho_spec P cs buds mp Hv Hb Hwm Ea) as [a1 [E1 [_ [_ Hl1]]]].
      rewrite Ee in E1. injection E1 as <-. apply Hl1.
      rewrite (paidl_is_paid P cs buds mp rho' Hwm), (wf_mp_cost P cs mp Hwm). exact Hcov.
    + intros k m [E|Hin]; [|apply (IH _ _ Hwr Hlr k m Hin)].
      injection E as _ <-. exact Hlm.
Qed.

Lemma patch_LB P cs b projects res :
  Forall (LB P cs b) projects -> res_LB P cs b res -> Forall (LB P cs b) (patch projects res).
Proof.
  intros Hp Hr. unfold patch. rewrite Forall_forall in *. intros x Hx.
  apply in_flat_map in Hx. destruct Hx as [mp [Hmp Hx]].
  destruct (lookup (mp_id mp) res) as [[mp'|]|] eqn:E; simpl in Hx.
  - destruct Hx as [<-|[]]. apply (Hr (mp_id mp) mp'). apply lookup_In. exact E.
  - contradiction.
  - destruct Hx as [<-|[]]. apply Hp. exact Hmp.
Qed.

Lemma round_scan_LB P cs buds projects best tied projects' :
  wf_voters P -> wf_buds P buds -> Forall (wf_mp P cs) projects -> Forall (LB P cs buds) projects ->
  round_scan P buds projects = (best, tied, projects') -> Forall (LB P cs buds) projects'.
Proof.
  intros Hv Hb Hw Hl Hrs. unfold round_scan in Hrs.
  assert (Hs : Forall (wf_mp P cs) (isort aff_leb projects)) by (apply (perm_Forall _ projects); [apply isort_perm|exact Hw]).
  assert (Hs2 : Forall (LB P cs buds) (isort aff_leb projects)) by (apply (perm_Forall _ projects); [apply isort_perm|exact Hl]).
  pose proof (scan_LB P cs buds Hv Hb (isort aff_leb projects) PInf [] Hs Hs2) as H.
  destruct (scan P buds (isort aff_leb projects) PInf []) as [[b t] res]. simpl in H.
  injection Hrs as _ _ <-. apply patch_LB; assumption.
Qed.

Lemma patch_NoDup projects res : res_ids_ok res -> NoDup (ids projects) -> NoDup (ids (patch projects res)).
Proof.
  intros Hr. induction projects as [|mp r IH]; intro Hn; [constructor|].
  simpl in Hn. inversion Hn as [|? ? Hx Hn']; subst. rewrite patch_cons. unfold ids. rewrite map_app.
  apply NoDup_app_intro; [| apply IH; exact Hn'|].
  - destruct (lookup (mp_id mp) res) as [[m|]|]; simpl; repeat constructor; intros [].
  - intros p Hp Hq. apply in_map_iff in Hq. destruct Hq as [y [<- Hy]].
    apply (patch_ids r res y Hr) in Hy.
    destruct (lookup (mp_id mp) res) as [[m|]|] eqn:E; simpl in Hp.
    + destruct Hp as [Hp|[]]. apply lookup_In in E. rewrite (Hr _ _ E) in Hp. rewrite <- Hp in Hy. contradiction.
    + destruct Hp.
    + destruct Hp as [Hp|[]]. rewrite <- Hp in Hy. contradiction.
Qed.

Lemma remove_proj_NoDup id l : NoDup (ids l) -> NoDup (ids (remove_proj id l)).
Proof.
  induction l as [|mp r IH]; intro Hn; [constructor|]. simpl in Hn. inversion Hn as [|? ? Hx Hn']; subst.
  unfold remove_proj. simpl. destruct (negb (Nat.eqb (mp_id mp) id)); [|apply IH; exact Hn'].
  simpl. constructor; [|apply IH; exact Hn']. intro Hin. apply Hx.
  unfold ids in *. apply in_map_iff in Hin. destruct Hin as [y [E Hy]]. apply filter_In in Hy.
  apply in_map_iff. exists y. tauto.
Qed.

Lemma round_scan_NoDup P buds projects best tied projects' :
  round_scan P buds projects = (best, tied, projects') -> NoDup (ids projects) -> NoDup (ids projects').
Proof.
  unfold round_scan. intros H Hn.
  destruct (scan_ids P buds (isort aff_leb projects) PInf []) as [_ I2].
  destruct (scan P buds (isort aff_leb projects) PInf []) as [[b t] res]. simpl in *.
  injection H as _ _ <-. apply patch_NoDup; assumption.
Qed.

(* ---------- what the eager scan returns ---------- *)

Definition Qx_eq (a b : Qx) : Prop :=
  match a, b with Fin x, Fin y => x == y | PInf, PInf => True | _, _ => False end.

Definition tmk (P : list vcls) (buds : list Q) (mp : mproj) (a0 : Q) : mproj :=
  set_aff mp (Qred a0) (sorted_sup P buds mp).

Lemma Qx_ltb_Fin a b : Qx_ltb (Fin a) (Fin b) = true <-> a < b.
Proof. unfold Qx_ltb. simpl. rewrite negb_true_iff. apply Qleb_false_iff. Qed.
Lemma Qx_ltb_Fin_false a b : Qx_ltb (Fin a) (Fin b) = false <-> b <= a.
Proof. unfold Qx_ltb. simpl. rewrite negb_false_iff. apply Qleb_iff. Qed.
Lemma Qx_le_Fin a b : Qx_le (Fin a) (Fin b) <-> a <= b.
Proof. unfold Qx_le. simpl. apply Qleb_iff. Qed.

(* every returned project was evaluated and its rho is the returned best *)
Lemma eager_sound P buds (L : list mproj) : forall l best tied,
  incl l L ->
  (forall x, In x tied -> exists mp a0, In mp L /\ cur_rho P buds mp = Some a0 /\ x = tmk P buds mp a0 /\ Qx_eq (Fin a0) best) ->
  forall x, In x (snd (eager P buds l best tied)) ->
    exists mp a0, In mp L /\ cur_rho P buds mp = Some a0 /\ x = tmk P buds mp a0 /\
                  Qx_eq (Fin a0) (fst (eager P buds l best tied)).
Proof.
  induction l as [|mp r IH]; intros best tied Hincl Ht; [exact Ht|].
  assert (Hr : incl r L) by (intros y Hy; apply Hincl; right; exact Hy).
  rewrite eager_unfold. destruct (cur_rho P buds mp) as [a0|] eqn:Ec; [|apply IH; assumption].
  cbv zeta. pose proof (Qred_correct a0) as Hred.
  assert (Hself : forall b', Qx_eq (Fin a0) b' ->
            exists mp0 a1, In mp0 L /\ cur_rho P buds mp0 = Some a1 /\
                           set_aff mp (Qred a0) (sorted_sup P buds mp) = tmk P buds mp0 a1 /\ Qx_eq (Fin a1) b').
  { intros b' Hb'. exists mp, a0. split; [apply Hincl; left; reflexivity|]. split; [exact Ec|]. split; [reflexivity|exact Hb']. }
  destruct (Qx_ltb (Fin (Qred a0)) best) eqn:E1.
  - apply IH; [exact Hr|]. intros x [<-|[]]. apply Hself. simpl. lra.
  - destruct (Qx_eqb (Fin (Qred a0)) best) eqn:E2.
    + apply IH; [exact Hr|]. intros x Hx. apply in_app_or in Hx. destruct Hx as [Hx|[<-|[]]]; [apply Ht; exact Hx|].
      apply Hself. destruct best as [b|]; [|discriminate E2]. simpl in *. apply Qeqb_iff in E2. lra.
    + apply IH; assumption.
Qed.

(* every project whose rho equals the returned best is returned *)
Lemma eager_complete P buds : forall l best tied,
  (forall x, In x tied -> Qx_eq best (fst (eager P buds l best tied)) -> In x (snd (eager P buds l best tied))) /\
  (forall mp a0, In mp l -> cur_rho P buds mp = Some a0 -> Qx_eq (Fin a0) (fst (eager P buds l best tied)) ->
     In (tmk P buds mp a0) (snd (eager P buds l best tied))).
Proof.
  induction l as [|mp r IH]; intros best tied.
  - simpl. split; [intros x Hx _; exact Hx|intros ? ? []].
  - pose proof (eager_best_le P buds (mp :: r) best tied) as [Hle1 Hle2].
    rewrite eager_unfold in *.
    destruct (cur_rho P buds mp) as [a0|] eqn:Ec.
    + cbv zeta in *. pose proof (Qred_correct a0) as Hred.
      set (mp' := set_aff mp (Qred a0) (sorted_sup P buds mp)) in *.
      destruct (Qx_ltb (Fin (Qred a0)) best) eqn:E1.
      * destruct (IH (Fin (Qred a0)) [mp']) as [I1 I2].
        pose proof (eager_best_le P buds r (Fin (Qred a0)) [mp']) as [Hb _].
        set (R := eager P buds r (Fin (Qred a0)) [mp']) in *.
        split.
        -- intros x Hx Heq. exfalso. destruct (fst R) as [q|]; [|discriminate Hb].
           apply Qx_le_Fin in Hb. destruct best as [b|]; [|exact Heq]. simpl in Heq.
           apply Qx_ltb_Fin in E1. lra.
        -- intros m b0 [<-|Hin] Hc Heq.
           ++ rewrite Ec in Hc. injection Hc as <-. apply I1; [left; reflexivity|].
              destruct (fst R) as [q|]; simpl in *; [lra|exact Heq].
           ++ apply (I2 m b0 Hin Hc Heq).
      * destruct (Qx_eqb (Fin (Qred a0)) best) eqn:E2.
        -- destruct (IH best (tied ++ [mp'])) as [I1 I2].
           set (R := eager P buds r best (tied ++ [mp'])) in *.
           split.
           ++ intros x Hx Heq. apply I1; [apply in_or_app; left; exact Hx|exact Heq].
           ++ intros m b0 [<-|Hin] Hc Heq.
              ** rewrite Ec in Hc. injection Hc as <-. apply I1; [apply in_or_app; right; left; reflexivity|].
                 destruct best as [b|]; [|discriminate E2]. simpl in E2. apply Qeqb_iff in E2.
                 destruct (fst R) as [q|]; simpl in *; [lra|exact Heq].
              ** apply (I2 m b0 Hin Hc Heq).
        -- destruct (IH best tied) as [I1 I2].
           pose proof (eager_best_le P buds r best tied) as [Hb _].
           set (R := eager P buds r best tied) in *.
           split; [exact I1|].
           intros m b0 [<-|Hin] Hc Heq; [|apply (I2 m b0 Hin Hc Heq)].
           exfalso. rewrite Ec in Hc. injection Hc as <-.
           destruct (fst R) as [q|]; [|exact Heq]. simpl in Heq.
           destruct best as [b|]; [|discriminate E1].
           apply Qx_le_Fin in Hb. apply Qx_ltb_Fin_false in E1. simpl in E2. apply Qeqb_false_iff in E2.
           apply E2. lra.
    + destruct (IH best tied) as [I1 I2]. split; [exact I1|].
      intros m b0 [<-|Hin] Hc Heq; [rewrite Ec in Hc; discriminate Hc|apply (I2 m b0 Hin Hc Heq)].
Qed.

Lemma NoDup_app_r {A} (l1 l2 : list A) : NoDup (l1 ++ l2) -> NoDup l2.
Proof.
  induction l1 as [|y r IH]; simpl; intro H; [exact H|]. inversion H; subst. apply IH. assumption.
Qed.

Lemma eager_NoDup P buds : forall l best tied,
  NoDup (ids tied ++ ids l) -> NoDup (ids (snd (eager P buds l best tied))).
Proof.
  induction l as [|mp r IH]; intros best tied Hn.
  - simpl in *. rewrite app_nil_r in Hn. exact Hn.
  - assert (Hdrop : NoDup (ids tied ++ ids r)) by (apply NoDup_remove_1 in Hn; exact Hn).
    rewrite eager_unfold. destruct (cur_rho P buds mp) as [a0|]; [|apply IH; exact Hdrop].
    cbv zeta. destruct (Qx_ltb (Fin (Qred a0)) best).
    + apply IH. simpl. apply NoDup_app_r in Hn. exact Hn.
    + destruct (Qx_eqb (Fin (Qred a0)) best); [|apply IH; exact Hdrop].
      apply IH. unfold ids in *. rewrite map_app, <- app_assoc. exact Hn.
Qed.

(* ---------- one evaluated project, in the words of the spec ---------- *)

Lemma cur_rho_Some P cs buds mp a0 :
  wf_voters P -> wf_buds P buds -> wf_mp P cs mp -> cur_rho P buds mp = Some a0 ->
  affordable cs P buds (mp_id mp) /\ is_rho cs P buds (mp_id mp) a0.
Proof.
  intros Hv Hb Hw Hc. apply cur_rho_some in Hc. destruct Hc as [Ha He].
  assert (Haff : affordable cs P buds (mp_id mp)).
  { apply affordable_iff. intro Hlt. apply (unaff_iff P cs buds mp Hw) in Hlt. congruence. }
  split; [exact Haff|].
  destruct (eval_rho_is_rho P cs buds mp Hv Hb Hw Haff) as [a1 [E1 Hr]]. rewrite He in E1. injection E1 as <-. exact Hr.
Qed.

Lemma cur_rho_affordable P cs buds mp :
  wf_voters P -> wf_buds P buds -> wf_mp P cs mp -> affordable cs P buds (mp_id mp) ->
  exists a0, cur_rho P buds mp = Some a0 /\ is_rho cs P buds (mp_id mp) a0.
Proof.
  intros Hv Hb Hw Haff.
  destruct (eval_rho_is_rho P cs buds mp Hv Hb Hw Haff) as [a1 [E1 Hr]]. exists a1. split; [|exact Hr].
  apply cur_rho_some. split; [|exact E1].
  destruct (Qltb (avail P buds mp) (mp_cost mp)) eqn:E; [|reflexivity].
  apply (unaff_iff P cs buds mp Hw) in E. apply affordable_iff in Haff. contradiction.
Qed.

(* ---------- the invariant linking the model's pool to the spec's candidate list ---------- *)

Definition Ref (P : list vcls) (cs buds : list Q) (projects : list mproj) (rem : list proj) : Prop :=
  wf_buds P buds /\ Forall (wf_mp P cs) projects /\ NoDup (ids projects) /\ Forall (LB P cs buds) projects /\
  (forall q, In q (ids projects) -> In q rem) /\
  (forall q, In q rem -> In q (ids projects) \/ ~ affordable cs P buds q).

Lemma StronglySorted_weaken {A} (R S : A -> A -> Prop) l :
  (forall x y, R x y -> S x y) -> StronglySorted R l -> StronglySorted S l.
Proof.
  intros H Hs. induction Hs as [|x t Hs IH Hall]; constructor; [exact IH|].
  rewrite Forall_forall in *. intros y Hy. apply H. apply Hall. exact Hy.
Qed.

Lemma aff_sorted projects : StronglySorted aff_le (isort aff_leb projects).
Proof.
  apply (StronglySorted_weaken (fun a b => aff_leb a b = true)).
  - intros x y H. unfold aff_leb in H. apply Qleb_iff in H. exact H.
  - apply isort_sorted.
    + intros x y. unfold aff_leb. rewrite !Qleb_iff. destruct (Qlt_le_dec (mp_aff y) (mp_aff x)); [right|left]; lra.
    + intros x y z. unfold aff_leb. rewrite !Qleb_iff. lra.
Qed.

Lemma round_eager P cs buds projects rem best tied projects' :
  wf_voters P -> Ref P cs buds projects rem -> round_scan P buds projects = (best, tied, projects') ->
  eager P buds (isort aff_leb projects) PInf [] = (best, tied).
Proof.
  intros Hv [Hb [Hw [_ [Hl _]]]] Hrs. unfold round_scan in Hrs.
  assert (Hs : Forall (wf_mp P cs) (isort aff_leb projects)) by (apply (perm_Forall _ projects); [apply isort_perm|exact Hw]).
  assert (Hs2 : Forall (LB P cs buds) (isort aff_leb projects)) by (apply (perm_Forall _ projects); [apply isort_perm|exact Hl]).
  pose proof (lazy_scan_eq_eager P buds (isort aff_leb projects) PInf [] (aff_sorted projects)
                (LB_cache P cs buds _ Hv Hb Hs Hs2)) as He.
  destruct (scan P buds (isort aff_leb projects) PInf []) as [[b t] res]. unfold st2 in He. simpl in He.
  injection Hrs as <- <- _. symmetry. exact He.
Qed.

Lemma nth_map_seq0 (f : nat -> Q) n i : (i < n)%nat -> nth i (map f (seq 0 n)) 0 = f i.
Proof.
  intros H. rewrite (nth_indep _ 0 (f 0%nat)) by (rewrite map_length, seq_length; exact H).
  rewrite map_nth. rewrite seq_nth by exact H. reflexivity.
Qed.

(* the model's payment = the spec's charge *)
Lemma pay_is_charge P cs buds sel rho :
  wf_buds P buds -> wf_mp P cs sel ->
  forall i, s_bud (pay P sel rho buds) i == s_bud (charge P buds rho (mp_id sel)) i.
Proof.
  intros [Hlen _] Hw i. unfold s_bud.
  destruct (Nat.lt_ge_cases i (length buds)) as [Hi|Hi].
  - change (nth i (pay P sel rho buds) 0) with (vbud (pay P sel rho buds) i). rewrite pay_nth by exact Hi.
    unfold charge. rewrite nth_map_seq0 by exact Hi.
    change (s_util P i (mp_id sel)) with (vutil P i (mp_id sel)). change (s_bud buds i) with (vbud buds i).
    destruct (Qltb 0 (vutil P i (mp_id sel))) eqn:Eu.
    + assert (Hin : In i (supporters P (mp_id sel))) by (apply supporters_spec; split; [lia|apply Qltb_iff; exact Eu]).
      rewrite (proj2 (memb_sup P cs sel i Hw) Hin), pay_one_eq.
      rewrite (Qmin_ext_r (vbud buds i) (rho * supporters_sat P sel i) (rho * vutil P i (mp_id sel)));
        [reflexivity|rewrite (supporters_sat_eq P cs sel i Hw Hin); reflexivity].
    + destruct (memb i (mp_sup sel)) eqn:Em; [|reflexivity].
      apply (memb_sup P cs sel i Hw) in Em. apply supporters_spec in Em. destruct Em as [_ Hu].
      apply Qltb_false_iff in Eu. lra.
  - rewrite !nth_overflow; [reflexivity| |].
    + unfold charge. rewrite map_length, seq_length. exact Hi.
    + unfold pay. rewrite pay_from_length. exact Hi.
Qed.

(* ---------- one round of the model is one round of the spec ---------- *)

Lemma round_any P cs buds projects rem rho tied projects' :
  wf_voters P -> Ref P cs buds projects rem ->
  round_scan P buds projects = (Fin rho, tied, projects') ->
  NoDup (ids tied) /\
  (forall x, In x tied -> In (mp_id x) rem /\ affordable cs P buds (mp_id x) /\ is_rho cs P buds (mp_id x) rho) /\
  (forall q r, In q rem -> affordable cs P buds q -> is_rho cs P buds q r ->
     rho <= r /\ (r == rho -> In q (ids tied))) /\
  (forall sel, In sel tied ->
     wf_mp P cs sel /\
     Ref P cs (pay P sel rho buds) (remove_proj (mp_id sel) projects')
         (filter (fun q => negb (Nat.eqb q (mp_id sel))) rem)).
Proof.
  intros Hv HRef Hrs. pose proof (round_eager P cs buds projects rem _ _ _ Hv HRef Hrs) as He.
  destruct HRef as [Hb [Hw [Hnd [Hlb [Hsub Hrem]]]]].
  set (l := isort aff_leb projects) in *.
  assert (Hwl : forall mp, In mp l -> wf_mp P cs mp).
  { intros mp Hmp. rewrite Forall_forall in Hw. apply Hw. apply (isort_In aff_leb projects mp). exact Hmp. }
  (* facts about the eager scan *)
  pose proof (eager_sound P buds l l PInf [] (fun y Hy => Hy) (fun x (Hx : In x []) => match Hx with end)) as Hsound.
  destruct (eager_complete P buds l PInf []) as [_ Hcompl].
  destruct (eager_best_le P buds l PInf []) as [_ Hmin].
  rewrite He in Hsound, Hcompl, Hmin. simpl in Hsound, Hcompl, Hmin.
  assert (Htied : forall x, In x tied -> In (mp_id x) rem /\ affordable cs P buds (mp_id x) /\ is_rho cs P buds (mp_id x) rho).
  { intros x Hx. destruct (Hsound x Hx) as [mp [a0 [Hmp [Hc [-> Ea]]]]]. simpl.
    destruct (cur_rho_Some P cs buds mp a0 Hv Hb (Hwl mp Hmp) Hc) as [A B]. split; [|split; [exact A|]].
    - apply Hsub. unfold ids. apply in_map_iff. exists mp. split; [reflexivity|apply (isort_In aff_leb projects mp); exact Hmp].
    - apply (is_rho_ext cs P buds (mp_id mp) a0 rho Ea B). }
  assert (Hpool : forall q, In q rem -> affordable cs P buds q ->
            exists mp a0, In mp l /\ mp_id mp = q /\ cur_rho P buds mp = Some a0 /\ is_rho cs P buds q a0).
  { intros q Hq Haff. destruct (Hrem q Hq) as [Hin|Hn]; [|contradiction].
    unfold ids in Hin. apply in_map_iff in Hin. destruct Hin as [mp [<- Hmp]].
    apply (isort_In aff_leb projects mp) in Hmp. fold l in Hmp.
    destruct (cur_rho_affordable P cs buds mp Hv Hb (Hwl mp Hmp) Haff) as [a0 [Hc Hr]].
    exists mp, a0. split; [exact Hmp|]. split; [reflexivity|]. split; [exact Hc|exact Hr]. }
  destruct (round_scan_inv P cs buds projects Hv Hb Hw) as [I1 I2]. rewrite Hrs in I1, I2. simpl in I1, I2.
  split; [|split; [exact Htied|split]].
  - pose proof (eager_NoDup P buds l PInf []) as Hn. rewrite He in Hn. simpl in Hn. apply Hn.
    eapply Permutation_NoDup; [|exact Hnd]. unfold ids. apply Permutation_map. apply isort_perm.
  - intros q r Hq Haff Hr. destruct (Hpool q Hq Haff) as [mp [a0 [Hmp [Eq [Hc Hr0]]]]].
    pose proof (is_rho_unique cs P buds q a0 r Hr0 Hr) as E. split.
    + specialize (Hmin mp a0 Hmp Hc). apply Qx_le_Fin in Hmin. lra.
    + intro Er. unfold ids. apply in_map_iff. exists (tmk P buds mp a0). split; [exact Eq|].
      apply (Hcompl mp a0 Hmp Hc). lra.
  - intros sel Hsel.
    assert (Hok : tied_ok P cs buds (Fin rho) sel) by (rewrite Forall_forall in I1; apply I1; exact Hsel).
    pose proof Hok as [Hwsel _]. split; [exact Hwsel|].
    pose proof (tied_round_ok P cs buds rho sel Hb Hok) as Hr.
    assert (Hdec : forall i, (i < length P)%nat -> vbud (pay P sel rho buds) i <= vbud buds i).
    { intros i Hi. apply (round_no_overpay P cs _ Hr i Hi). }
    destruct (round_scan_ids P buds projects _ _ _ Hrs) as [_ [J2 _]].
    split; [apply pay_wf_buds; exact Hb|]. split; [apply remove_proj_wf; exact I2|].
    split; [apply remove_proj_NoDup; apply (round_scan_NoDup P buds projects _ _ _ Hrs Hnd)|].
    split; [|split].
    + pose proof (round_scan_LB P cs buds projects _ _ _ Hv Hb Hw Hlb Hrs) as Hlb'.
      rewrite Forall_forall in *. intros y Hy. apply remove_proj_In in Hy. destruct Hy as [Hy _].
      apply (LB_mono P cs buds); [|exact Hdec|apply Hlb'; exact Hy].
      pose proof (I2 y Hy) as [_ [_ [Ec [Hpos _]]]]. rewrite <- Ec. exact Hpos.
    + intros q Hq. unfold ids in Hq. apply in_map_iff in Hq. destruct Hq as [y [<- Hy]].
      apply remove_proj_In in Hy. destruct Hy as [Hy Hne]. apply filter_In. split.
      * apply Hsub. apply J2. exact Hy.
      * apply negb_true_iff. apply Nat.eqb_neq. exact Hne.
    + intros q Hq. apply filter_In in Hq. destruct Hq as [Hq Hne]. apply negb_true_iff in Hne. apply Nat.eqb_neq in Hne.
      assert (Hstay : ~ affordable cs P buds q -> ~ affordable cs P (pay P sel rho buds) q).
      { intros Hn Ha. apply Hn. apply affordable_iff. apply affordable_iff in Ha. intro Hlt. apply Ha.
        pose proof (smoney_mono P buds (pay P sel rho buds) q Hdec). lra. }
      destruct (Hrem q Hq) as [Hin|Hn]; [|right; apply Hstay; exact Hn].
      destruct (round_scan_keeps P cs buds projects _ _ _ Hw Hrs q Hin) as [Hk|Hk].
      * left. unfold ids in *. apply in_map_iff in Hk. destruct Hk as [y [<- Hy]].
        apply in_map_iff. exists y. split; [reflexivity|]. apply remove_proj_In. split; assumption.
      * right. apply Hstay. intro Ha. apply affordable_iff in Ha. apply Ha. exact Hk.
Qed.

Lemma round_refines P cs tb buds projects rem rho tied projects' sel rest :
  wf_voters P -> Ref P cs buds projects rem ->
  round_scan P buds projects = (Fin rho, tied, projects') -> pick_order tb tied = sel :: rest ->
  spec_round cs P tb buds rem (mp_id sel) rho /\
  Ref P cs (pay P sel rho buds) (remove_proj (mp_id sel) projects')
      (filter (fun q => negb (Nat.eqb q (mp_id sel))) rem).
Proof.
  intros Hv HRef Hrs Hpo. destruct (round_any P cs buds projects rem rho tied projects' Hv HRef Hrs) as [Hnd [Htied [Hmin Hnext]]].
  assert (Hsel : In sel tied) by (apply (pick_order_In_iff tb); rewrite Hpo; left; reflexivity).
  split; [|apply (Hnext sel Hsel)].
  destruct (Htied sel Hsel) as [T1 [T2 T3]].
  split; [exact T1|]. split; [exact T2|]. split; [exact T3|]. split.
  - intros q r Hq Haff Hr. apply (Hmin q r Hq Haff Hr).
  - exists (name_sort (ids tied)). split; [|split].
    + intro q. unfold name_sort. rewrite (isort_In Nat.leb (ids tied) q). split.
      * intro Hq. unfold ids in Hq. apply in_map_iff in Hq. destruct Hq as [y [<- Hy]]. apply Htied. exact Hy.
      * intros [Hq [Haff Hr]]. apply (Hmin q rho Hq Haff Hr). reflexivity.
    + apply name_sort_sorted. exact Hnd.
    + rewrite <- pick_ids, Hpo. reflexivity.
Qed.

(* ---------- a whole run ---------- *)

Theorem run_refines P cs tb : wf_voters P -> forall fuel buds projects acc tr rem alloc T fin rest,
  Ref P cs buds projects rem ->
  run_res fuel P tb buds projects acc tr = Some (alloc, T, fin, rest) ->
  exists W, spec_run cs P tb buds rem W /\ alloc = acc ++ W.
Proof.
  intros Hv. induction fuel as [|f IH]; intros buds projects acc tr rem alloc T fin rest HRef Hrun;
    simpl in Hrun; [discriminate|].
  destruct (round_scan P buds projects) as [[best tied] projects'] eqn:Ers.
  assert (Hstop : (best = PInf \/ tied = []) -> Some (acc, rev tr, buds, projects') = Some (alloc, T, fin, rest) ->
                  exists W, spec_run cs P tb buds rem W /\ alloc = acc ++ W).
  { intros Hc [= <- <- <- <-]. exists []. split; [|rewrite app_nil_r; reflexivity].
    apply spec_stop. intros q Hq.
    destruct HRef as [Hb [Hw [_ [_ [_ Hrem]]]]].
    destruct (Hrem q Hq) as [Hin|Hn]; [|exact Hn].
    assert (Hst : stops P tb (mkSt buds projects acc) projects') by (exists best, tied; split; [exact Ers|exact Hc]).
    destruct (stops_unaffordable P tb cs (mkSt buds projects acc) projects' Hv Hb Hw Hst) as [U _].
    intro Ha. apply affordable_iff in Ha. apply Ha. apply (U q Hin). }
  destruct best as [rho|]; [|apply Hstop; [left; reflexivity|exact Hrun]].
  destruct (pick_order tb tied) as [|sel rest'] eqn:Epo.
  { apply Hstop; [right; apply (pick_order_nil tb); exact Epo|exact Hrun]. }
  destruct (round_refines P cs tb buds projects rem rho tied projects' sel rest' Hv HRef Ers Epo) as [Hround HRef'].
  destruct (IH _ _ _ _ _ _ _ _ _ HRef' Hrun) as [W [Hspec ->]].
  exists (mp_id sel :: W). split; [|rewrite <- app_assoc; reflexivity].
  destruct HRef as [Hb [Hw _]].
  assert (Hsel : In sel tied) by (apply (pick_order_In_iff tb); rewrite Epo; left; reflexivity).
  destruct (round_scan_inv P cs buds projects Hv Hb Hw) as [I1 _]. rewrite Ers in I1. simpl in I1.
  assert (Hwsel : wf_mp P cs sel) by (rewrite Forall_forall in I1; destruct (I1 sel Hsel) as [H _]; exact H).
  apply (spec_buy cs P tb buds rem (mp_id sel) rho (pay P sel rho buds) W Hround).
  - apply (pay_is_charge P cs buds sel rho Hb Hwsel).
  - unfold pay. apply pay_from_length.
  - exact Hspec.
Qed.

(* ---------- the scheme: pool and zero-cost projects of the model = those of the spec ---------- *)

Definition spec_of (x : mes_in) : spec_in :=
  mkSpecIn (mi_costs x) (mi_budget x) (mi_voters x) (mi_tb x) (mi_init x).

Lemma mk_projects_sound P cs bin : forall enum,
  (forall mp, In mp (fst (mk_projects P cs bin enum)) ->
     In (mp_id mp) enum /\ Qltb 0 (total_sat P (mp_id mp) (supporters P (mp_id mp))) = true /\ 0 < nth (mp_id mp) cs 0) /\
  (forall z, In z (snd (mk_projects P cs bin enum)) ->
     In z enum /\ Qltb 0 (total_sat P z (supporters P z)) = true /\ nth z cs 0 <= 0) /\
  (NoDup enum -> NoDup (ids (fst (mk_projects P cs bin enum)))).
Proof.
  induction enum as [|p r [I1 [I2 I3]]].
  - simpl. split; [intros ? []|]. split; [intros ? []|]. intros _. constructor.
  - rewrite mk_projects_cons. destruct (mk_projects P cs bin r) as [ps zs]. cbn [fst snd] in *. cbv zeta.
    assert (K1 : forall mp, In mp ps -> In (mp_id mp) (p :: r) /\
              Qltb 0 (total_sat P (mp_id mp) (supporters P (mp_id mp))) = true /\ 0 < nth (mp_id mp) cs 0).
    { intros mp H. destruct (I1 mp H) as [A B]. split; [right; exact A|exact B]. }
    assert (K2 : forall z, In z zs -> In z (p :: r) /\ Qltb 0 (total_sat P z (supporters P z)) = true /\ nth z cs 0 <= 0).
    { intros z H. destruct (I2 z H) as [A B]. split; [right; exact A|exact B]. }
    assert (K3 : NoDup (p :: r) -> NoDup (ids ps)) by (intro H; inversion H; subst; auto).
    destruct (Qltb 0 (total_sat P p (supporters P p))) eqn:Et; [|split; [exact K1|split; [exact K2|exact K3]]].
    destruct (Qltb 0 (nth p cs 0)) eqn:Ec; cbn [fst snd].
    + split; [|split; [exact K2|]].
      * intros mp [<-|H]; [|apply K1; exact H]. cbn [mp_id]. split; [left; reflexivity|]. split; [exact Et|apply Qltb_iff; exact Ec].
      * intro H. inversion H as [|? ? Hn Hr]; subst. simpl. constructor; [|apply I3; exact Hr].
        intro Hin. apply Hn. unfold ids in Hin. apply in_map_iff in Hin. destruct Hin as [y [<- Hy]]. apply (I1 y Hy).
    + split; [exact K1|]. split; [|exact K3].
      intros z [<-|H]; [|apply K2; exact H]. split; [left; reflexivity|]. split; [exact Et|apply Qltb_false_iff; exact Ec].
Qed.

Lemma supported_iff P p : wf_voters P ->
  Qltb 0 (total_sat P p (supporters P p)) = true <-> supporters P p <> [].
Proof.
  intro Hv. split.
  - intros H E. rewrite E in H. discriminate H.
  - intro H. apply Qltb_iff. apply total_sat_pos; assumption.
Qed.

Lemma si_supported_iff x p : si_supported (spec_of x) p = true <-> supporters (mi_voters x) p <> [].
Proof.
  unfold si_supported. change (s_supporters (si_voters (spec_of x)) p) with (supporters (mi_voters x) p).
  destruct (supporters (mi_voters x) p); split; congruence.
Qed.

Lemma si_cands_iff x p : (forall q, In q (mi_enum x) <-> (q < length (mi_costs x))%nat) ->
  In p (si_cands (spec_of x)) <-> In p (candidates x).
Proof.
  intro He. unfold si_cands. rewrite filter_In, candidates_In, in_seq, negb_true_iff, memb_false_In, He.
  change (si_n (spec_of x)) with (length (mi_costs x)). change (si_init (spec_of x)) with (mi_init x).
  split; intros [A B]; split; try assumption; lia.
Qed.

Lemma pool_iff x p : wf_voters (mi_voters x) -> (forall q, In q (mi_enum x) <-> (q < length (mi_costs x))%nat) ->
  In p (si_pool (spec_of x)) <-> In p (ids (fst (built x))).
Proof.
  intros Hv He. unfold si_pool. rewrite filter_In, (si_cands_iff x p He), andb_true_iff, si_supported_iff.
  change (s_cost (si_costs (spec_of x)) p) with (nth p (mi_costs x) 0).
  destruct (mk_projects_sound (mi_voters x) (mi_costs x) (mi_bin x) (candidates x)) as [S1 _]. fold (built x) in S1.
  split.
  - intros [Hc [Hs Hpos]]. apply Qltb_iff in Hpos. apply (supported_iff _ p Hv) in Hs.
    apply (mk_projects_complete _ _ _ _ p Hc Hs). exact Hpos.
  - intro Hin. unfold ids in Hin. apply in_map_iff in Hin. destruct Hin as [mp [<- Hmp]].
    destruct (S1 mp Hmp) as [A [B C]]. split; [exact A|]. split; [apply (supported_iff _ _ Hv); exact B|apply Qltb_iff; exact C].
Qed.

Lemma zeros_iff x p : wf_voters (mi_voters x) -> (forall q, In q (mi_enum x) <-> (q < length (mi_costs x))%nat) ->
  In p (si_zeros (spec_of x)) <-> In p (snd (built x)).
Proof.
  intros Hv He. unfold si_zeros. rewrite filter_In, (si_cands_iff x p He), andb_true_iff, si_supported_iff.
  change (s_cost (si_costs (spec_of x)) p) with (nth p (mi_costs x) 0).
  destruct (mk_projects_sound (mi_voters x) (mi_costs x) (mi_bin x) (candidates x)) as [_ [S2 _]]. fold (built x) in S2.
  split.
  - intros [Hc [Hs Hz]]. apply Qleb_iff in Hz. apply (supported_iff _ p Hv) in Hs.
    apply (mk_projects_complete _ _ _ _ p Hc Hs). exact Hz.
  - intro Hin. destruct (S2 p Hin) as [A [B C]]. split; [exact A|].
    split; [apply (supported_iff _ _ Hv); exact B|apply Qleb_iff; exact C].
Qed.

Lemma state0_Ref x b0 :
  wf_voters (mi_voters x) -> 0 <= b0 -> NoDup (mi_enum x) ->
  (forall q, In q (mi_enum x) <-> (q < length (mi_costs x))%nat) ->
  Ref (mi_voters x) (mi_costs x) (repeat b0 (length (mi_voters x))) (fst (built x)) (si_pool (spec_of x)).
Proof.
  intros Hv Hb Hn He.
  pose proof (repeat_wf_buds (mi_voters x) b0 Hb) as Hwb.
  pose proof (mk_projects_wf (mi_voters x) (mi_costs x) (mi_bin x) (candidates x)) as Hw. fold (built x) in Hw.
  split; [exact Hwb|]. split; [exact Hw|]. split; [|split; [|split]].
  - destruct (mk_projects_sound (mi_voters x) (mi_costs x) (mi_bin x) (candidates x)) as [_ [_ S3]]. fold (built x) in S3.
    apply S3. unfold candidates. apply NoDup_filter. exact Hn.
  - pose proof (mk_projects_aff (mi_voters x) (mi_costs x) (mi_bin x) (candidates x)) as Ha. fold (built x) in Ha.
    rewrite Forall_forall in *. intros mp Hmp. destruct (Ha mp Hmp) as [A B].
    apply LB_init; try assumption. apply Hw. exact Hmp.
  - intros q Hq. apply (pool_iff x q Hv He). exact Hq.
  - intros q Hq. left. apply (pool_iff x q Hv He). exact Hq.
Qed.

(* the endowment of the model is the spec's *)
Lemma share_is_si_share x : share x == si_share (spec_of x).
Proof. unfold share. rewrite Qred_correct. reflexivity. Qed.

(* every run of the inner algorithm from a common endowment b0 >= 0 *)
Theorem run_once_refines_spec x b0 o :
  wf_voters (mi_voters x) -> 0 <= b0 -> NoDup (mi_enum x) ->
  (forall p, In p (mi_enum x) <-> (p < length (mi_costs x))%nat) ->
  run_once_res x b0 = Some o ->
  exists Z W, spec_run (mi_costs x) (mi_voters x) (mi_tb x)
                       (repeat b0 (length (mi_voters x))) (si_pool (spec_of x)) W /\
              o_alloc o = mi_init x ++ Z ++ W /\ Permutation Z (si_zeros (spec_of x)).
Proof.
  intros Hv Hb Hn He Hrun. unfold run_once_res in Hrun.
  destruct (run_res _ _ _ _ _ _ _) as [[[[alloc tr] fin] rest]|] eqn:E; [|discriminate].
  injection Hrun as <-. simpl.
  destruct (run_refines _ (mi_costs x) _ Hv _ _ _ _ _ _ _ _ _ _ (state0_Ref x b0 Hv Hb Hn He) E) as [W [Hs ->]].
  exists (snd (built x)), W. split; [exact Hs|]. split; [unfold start_alloc; rewrite <- app_assoc; reflexivity|].
  apply NoDup_Permutation.
  - destruct (mk_projects_spec (mi_voters x) (mi_costs x) (mi_bin x) (candidates x)) as [_ [_ M3]]. fold (built x) in M3.
    apply M3. unfold candidates. apply NoDup_filter. exact Hn.
  - unfold si_zeros, si_cands. apply NoDup_filter. apply NoDup_filter. apply seq_NoDup.
  - intro p. symmetry. apply (zeros_iff x p Hv He).
Qed.

(* M mes_model_refines_spec *)
Theorem mes_model_refines_spec x o :
  wf_voters (mi_voters x) -> tcost (mi_inst x) (mi_init x) <= mi_budget x -> NoDup (mi_enum x) ->
  (forall p, In p (mi_enum x) <-> (p < length (mi_costs x))%nat) ->
  mes_resolute x = Some o ->
  exists W, spec_run (mi_costs x) (mi_voters x) (mi_tb x)
                     (repeat (share x) (length (mi_voters x))) (si_pool (spec_of x)) W /\
            set_eq (o_alloc o) (mi_init x ++ si_zeros (spec_of x) ++ W).
Proof.
  intros Hv Hf Hn He Hrun.
  destruct (run_once_refines_spec x (share x) o Hv (share_nonneg x Hf) Hn He Hrun) as [Z [W [Hs [-> HP]]]].
  exists W. split; [exact Hs|]. intro p. rewrite !in_app_iff.
  assert (In p Z <-> In p (si_zeros (spec_of x))).
  { split; intro H; [eapply Permutation_in; [exact HP|exact H]|eapply Permutation_in; [symmetry; exact HP|exact H]]. }
  tauto.
Qed.
