(* Proofs/PyGenPriceP.v -- utils.round_cmp and analysis/priceability.validate_price_system, REGENERATED from the Python
   source on every run (Generated/PyFuncs.v, harness/vharness/pytrans.py), are [round_cmp] and the validator
   [validate_ps_g] of Model/Priceability.v that the C12 theorems (Props/C12.v, C12relax.v) are about.
   The error collector of the source (a defaultdict of message lists, `return not errors`) is a flag; every loop
   that only sets it becomes flag || exists ([fold_flag]); the conjuncts are then compared one by one by descending
   into the quantifiers ([py_descend]): the bodies are compared for an element of the list, sums are compared
   summand by summand, and `enumerate(profile)` is the list of positions. *)
From Coq Require Import String.
From PB Require Import Model.PyPrims Generated.PyFuncs Proofs.InstanceP Proofs.SatisfactionP Proofs.PyGenLib.
From PB Require Spec.PriceSystem Model.Priceability.
Open Scope Q_scope.

Lemma if_true_false (c : bool) : (if c then true else false) = c.
Proof. destruct c; reflexivity. Qed.
Lemma if_false_true (c : bool) : (if c then false else true) = negb c.
Proof. destruct c; reflexivity. Qed.
Lemma if_true_else (c d : bool) : (if c then true else d) = (c || d)%bool.
Proof. destruct c; reflexivity. Qed.
Lemma if_else_true (c d : bool) : (if c then d else true) = (negb c || d)%bool.
Proof. destruct c; reflexivity. Qed.

(* max(a, b) and max(xs, default=0) of the source are Qmax / the running maximum of the model *)
Lemma Qmax_if a b : Qmax a b == (if Qltb a b then b else a).
Proof.
  destruct (Qltb a b) eqn:E.
  - apply Qltb_iff in E. apply Q.max_r. lra.
  - apply Qltb_false_iff in E. apply Q.max_l. exact E.
Qed.
Lemma fold_max_Qmax r : forall x y, x == y -> fold_left Qmax r x == fold_left py_max2 r y.
Proof.
  induction r as [|z r IH]; intros x y H; simpl; [exact H|]. apply IH.
  rewrite Qmax_if. unfold py_max2.
  destruct (Qltb x z) eqn:E1, (Qltb y z) eqn:E2; try reflexivity; try exact H;
    try apply Qltb_iff in E1; try apply Qltb_false_iff in E1; try apply Qltb_iff in E2; try apply Qltb_false_iff in E2; lra.
Qed.
Lemma maxpay_py I (pay : PriceSystem.payfun) i :
  PriceSystem.maxpay I pay i == py_max_list (map (pay i) (all_projects I)) 0.
Proof.
  unfold PriceSystem.maxpay, py_max_list. destruct (map (pay i) (all_projects I)); [reflexivity|].
  apply fold_max_Qmax. reflexivity.
Qed.

Lemma existsb_const_false {A} (l : list A) : existsb (fun _ => false) l = false.
Proof. induction l; simpl; auto. Qed.
Lemma forallb_const_true {A} (l : list A) : forallb (fun _ => true) l = true.
Proof. induction l; simpl; auto. Qed.

(* enumerate(l) -> positions, comprehensions over it -> comprehensions over the positions *)
Ltac py_enum_norm :=
  repeat first
  [ match goal with
    | |- context [combine (map Qnat (seq 0 (length ?l))) ?l] =>
        first [ rewrite (enumerate_seq l (@nil proj)) | rewrite (enumerate_seq l 0) ]
    end
  | rewrite fold_sum | rewrite fold_sum_l | rewrite fold_sum_if | rewrite Qplus_0_l
  | rewrite map_length | rewrite seq_length | rewrite py_range_Qnat | rewrite py_range_Qnat_succ
  | match goal with
    | H : In ?k (seq 0 ?n) |- context [nth ?k (map ?G (seq 0 ?n)) ?d] =>
        rewrite (nth_map_seq G n k d) by (apply in_seq in H; lia)
    end
  | rewrite map_map | rewrite filter_map_comm | rewrite existsb_map | rewrite forallb_map
  | rewrite existsb_flat_map | rewrite forallb_flat_map | rewrite Qsum_flat_map
  | rewrite existsb_const_false | rewrite forallb_const_true
  | rewrite if_true_false | rewrite if_true_else | rewrite if_else_true | rewrite py_nat_Qnat
  | rewrite maxpay_py | rewrite Qmax_if
  | rewrite py_list_get_seq by assumption ];
  cbv beta; cbn [fst snd].

Ltac py_in_facts :=
  repeat match goal with
  | H : In _ (filter _ _) |- _ => apply filter_In in H; destruct H
  end.

(* sums over the same list: summand by summand *)
Ltac py_sum_unify tac :=
  repeat match goal with
  | |- context [Qsum (map ?f ?l)] =>
      match goal with
      | |- context [Qsum (map ?g l)] =>
          lazymatch f with
          | g => fail
          | _ => setoid_replace (Qsum (map f l)) with (Qsum (map g l))
                   by (apply Qsum_map_ext; intros; py_in_facts; cbv beta; tac)
          end
      end
  end.

Ltac py_bool_atoms :=
  py_safe_atoms; py_simpl; py_bool_to_prop;
  first [ reflexivity | exfalso; lra | exfalso; congruence | congruence ].

(* split on the membership tests that guard a summand / a branch (not on arithmetic comparisons) *)
Ltac py_split_memb :=
  repeat match goal with
  | |- context [if memb ?a ?b then _ else _] => let E := fresh "E" in destruct (memb a b) eqn:E
  | |- context [if inb ?a ?b then _ else _] => let E := fresh "E" in destruct (inb a b) eqn:E
  | |- context [if negb (memb ?a ?b) then _ else _] => let E := fresh "E" in destruct (memb a b) eqn:E; cbn [negb]
  end.

Ltac py_descend :=
  py_in_facts; py_enum_norm;
  first
  [ reflexivity
  | apply negb_existsb_forallb_in; intros; py_descend
  | apply negb_forallb_existsb_in; intros; py_descend
  | apply existsb_ext_in; intros; py_descend
  | apply forallb_ext_in; intros; py_descend
  | progress (rewrite ?Qsum_map_filter; py_sum_unify ltac:(py_descend)); first [ reflexivity | py_bool_atoms ]
  | progress py_split_memb; py_descend
  | py_bool_atoms
  | timeout 20 py_cases ].

(* ---------- utils.round_cmp ---------- *)
(* round(a, p) - round(b, p), or round(a - b, p): whichever the source has now is also what the model has
   (Generated/Anchors.v ANCHOR_ROUND_CMP_MODE) *)
Lemma gen_round_cmp_ok : forall a b,
  gen_round_cmp a b (inject_Z Anchors.CHECK_ROUND_PRECISION) == Priceability.round_cmp a b.
Proof.
  intros. unfold gen_round_cmp, Priceability.round_cmp.
  first [ reflexivity
        | change Priceability.rnd with (fun x => py_round x 2); cbv beta; py_cases ].
Qed.

(* ---------- validate_price_system ---------- *)
Ltac py_validator :=
  intros;
  unfold gen_validate_price_system, gen_validate_price_system_relax, Priceability.validate_ps, Priceability.validate_ps_g;
  unfold Priceability.round_cmp;
  first [ change (Anchors.ANCHOR_ROUND_CMP_MODE =? 1)%Z with false | change (Anchors.ANCHOR_ROUND_CMP_MODE =? 1)%Z with true ];
  cbv iota;
  change Priceability.rnd with (fun x => py_round x 2); unfold gen_round_cmp;
  unfold Priceability.not_selected, PriceSystem.supporters, PriceSystem.voters, PriceSystem.appr, Priceability.pay_of,
    Priceability.rcost;
  py_unfold; rewrite ?fold_collect_if, ?app_nil_l; py_flags; rewrite ?if_false_true;
  (* the flags of the call (exhaustive, stable) *)
  repeat match goal with
  | |- context [if ?c then _ else _] => is_var c; destruct c
  | |- context [negb ?c] => is_var c; destruct c
  end;
  cbn [negb orb andb]; rewrite ?negb_orb;
  (* one conjunct per error list, in source order (a conjunct that the flags made trivially true may be absent on
     one side) *)
  first [ timeout 60 solve [ repeat apply (f_equal2 andb); cbv beta; cbn [andb]; py_descend ]
        | timeout 60 solve [ rewrite ?andb_true_r; repeat apply (f_equal2 andb); cbv beta; py_descend ] ].

Lemma gen_validate_price_system_ok : forall I A W b P stable exh,
  gen_validate_price_system I A W b P stable exh = Priceability.validate_ps I A W b P stable exh.
Proof. py_validator. Qed.

(* with a relaxation object: only the right-hand side of the stability condition changes *)
Lemma gen_validate_price_system_relax_ok : forall I A W b P stable exh R,
  gen_validate_price_system_relax I A W b P stable exh R = Priceability.validate_ps_g I A W b P stable exh (Some R).
Proof. py_validator. Qed.

Lemma gen_round_cmp_safe_ok : forall a b p, gen_round_cmp_safe a b p = true.
Proof. intros; repeat autounfold with pygen; py_safe. Qed.
Lemma gen_validate_price_system_safe_ok : forall I A W b P stable exh,
  gen_validate_price_system_safe I A W b P stable exh = true.
Proof. intros; repeat autounfold with pygen; py_safe. Qed.

Lemma gen_price_all_translated : gen_untranslated_price = [].
Proof. reflexivity. Qed.
