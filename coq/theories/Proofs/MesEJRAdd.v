(* Proofs/MesEJRAdd.v -- Equal Shares satisfies EJR up to one project for GENERAL additive utilities
   (Peters-Pierczynski-Skowron 2021), in the cardinal-ballot vocabulary of Spec/JR.v ([EJR_card ... UpToOne],
   satisfaction = score: Additive_Cardinal_Sat), on the declarative rule; strict form
       exists i in S, exists p in T outside the outcome:   alpha(T) < sat_i(outcome) + u_i(p)
   (or T-projects with positive alpha are all selected and alpha(T) <= sat_i(outcome)).

   S is (alpha,T)-cohesive: every member scores p in T at least alpha p.  pstar: the project of T outside
   the outcome with alpha > 0 minimising cost/alpha; kappa = cost(pstar)/alpha(pstar); |S| = mS.  While all
   of S hold cost(pstar)/|S| every purchase is at price-per-utility <= kappa/|S|.  A purchase of q in T at
   rate r: if r*|S|*alpha(q) <= cost(q), member i pays r*u_i(q) <= cost(q)/|S| + (kappa/|S|)(u_i(q)-alpha(q));
   otherwise S cannot cover q at rate cost(q)/(|S| alpha(q)), so some member holds less than cost(q)/|S|,
   pays all of it and is left with nothing.  This is the disjunctive payment bound of
   Proofs/MesEJRAddCore.v ([ejr_core2]).  [ej_add_account] is the counting step. *)
From PB Require Export Proofs.MesEJRAddCore Proofs.MesEJR.
From PB Require Import Spec.JR.
Open Scope Q_scope.

(* ---------- the group bound ---------- *)

Section Group.
Variable cs : list Q.
Variable P : list vcls.
Variable tb : proj -> Q.
Hypothesis Hv : wf_voters P.
Variable S : list nat.
Hypothesis HSnd : NoDup S.
Hypothesis HSne : S <> [].
Hypothesis HSlt : forall i, In i S -> (i < length P)%nat.

Definition ej_awt (T : list proj) (alpha : proj -> Q) (kappa : Q) (i : nat) (q : proj) : Q :=
  if memb q T then s_cost cs q + kappa * (s_util P i q - alpha q) else kappa * s_util P i q.

Theorem ej_add_group T alpha b0 rem W pstar :
  (forall i q, In i S -> 0 <= s_util P i q) ->
  (forall i p, In i S -> In p T -> alpha p <= s_util P i p) ->
  (forall p, 0 <= s_cost cs p) -> In pstar T -> 0 < alpha pstar ->
  0 <= b0 -> spec_run cs P tb (repeat b0 (length P)) rem W ->
  (forall p, In p rem -> 0 < s_cost cs p) -> In pstar rem -> ~ In pstar W ->
  s_cost cs pstar <= mS P S * b0 ->
  exists i, In i S /\
    mS P S * b0 - s_cost cs pstar
    < Qsum (map (ej_awt T alpha (s_cost cs pstar / alpha pstar) i) W).
Proof.
  intros Hu0 HuT Hcs HpT Ha Hb0 Hrun Hpos Hin Hnot Hle.
  pose proof (mS_pos P Hv S HSnd HSne HSlt) as Hm. pose proof (Hpos pstar Hin) as Hc.
  set (m := mS P S) in *. set (c := s_cost cs pstar) in *. set (a := alpha pstar) in *.
  set (kappa := c / a).
  assert (Hshare : forall c', Qsum (map (fun i => s_mul P i * (c' / m)) S) == c')
    by (intro c'; unfold m; apply (mS_share P Hv S HSnd HSne HSlt)).
  assert (Hinv : 0 < / m) by (apply Qinv_lt_0_compat; exact Hm).
  assert (Hk : 0 < kappa) by (unfold kappa, Qdiv; apply Qmult_lt_0_compat; [exact Hc|apply Qinv_lt_0_compat; exact Ha]).
  assert (Eka : kappa * a == c) by (unfold kappa; field; lra).
  assert (HsupT : forall q, In q T -> 0 < alpha q -> forall i, In i S -> In i (s_supporters P q)).
  { intros q Hq Haq i Hi. apply ej_supp_spec. split; [apply HSlt; exact Hi|].
    pose proof (HuT i q Hi Hq). lra. }
  pose proof (HsupT pstar HpT Ha) as HSsup.
  assert (Hwnn : forall i q, In i S -> 0 <= ej_awt T alpha kappa i q).
  { intros i q Hi. unfold ej_awt. destruct (memb q T) eqn:M.
    - apply memb_In in M. pose proof (HuT i q Hi M). pose proof (Hcs q). nra.
    - pose proof (Hu0 i q Hi). nra. }
  destruct (ejr_core2 cs P tb Hv S pstar (c / m) (fun i q => ej_awt T alpha kappa i q * / m) HSnd HSsup) with
    (b := repeat b0 (length P)) (rem := rem) (W := W) as [i [Hi Hlt]].
  - fold c. rewrite Hshare. apply Qle_refl.
  - intros i q Hi. pose proof (Hwnn i q Hi). nra.
  - intros b q r Hb Hth Hcq [Hcov Hleast] Hr.
    (* the rate is non-negative and at most kappa/m *)
    assert (Hr0 : 0 <= r).
    { destruct (Qlt_le_dec r 0) as [Hneg|Hge]; [|exact Hge]. pose proof (paid_neg P b r q Hneg). lra. }
    assert (Hr1 : r <= kappa * / m).
    { apply Hr. fold c.
      apply (ej_group_paid cs P Hv S (c / m) HSnd b pstar (kappa * / m) Hb HSsup).
      - fold c. rewrite Hshare. apply Qle_refl.
      - nra.
      - exact Hth.
      - intros j Hj. pose proof (HuT j pstar Hj HpT) as Hge. fold a in Hge.
        assert (E : c / m == kappa * / m * a) by (rewrite <- Eka; unfold Qdiv; ring).
        rewrite E. apply Qmult_le_l; [nra|exact Hge]. }
    destruct (memb q T) eqn:M.
    2:{ left. intros i Hi Hu. eapply Qle_trans; [apply Q.le_min_r|]. unfold ej_awt. rewrite M. nra. }
    apply memb_In in M.
    destruct (Qlt_le_dec (s_cost cs q) (r * m * alpha q)) as [Hbig|Hsmall].
    + (* S cannot cover q at rate cost(q)/(m alpha(q)): somebody holds less than cost(q)/m *)
      right.
      assert (Haq : 0 < alpha q).
      { destruct (Qlt_le_dec 0 (alpha q)) as [Hp|Hn]; [exact Hp|]. exfalso.
        assert (Hrm : 0 <= r * m) by (apply Qmult_le_0_compat; lra).
        assert (r * m * alpha q <= 0) by nra. pose proof (Hcs q). lra. }
      destruct (ej_all_or_some (s_cost cs q / m) b S) as [Hall|[j [Hj Hlow]]].
      * exfalso.
        assert (Hcov' : s_cost cs q <= paid P b (s_cost cs q / (m * alpha q)) q).
        { apply (ej_group_paid cs P Hv S (s_cost cs q / m) HSnd b q _ Hb (HsupT q M Haq)).
          - rewrite Hshare. apply Qle_refl.
          - apply Qle_shift_div_l; [nra|]. pose proof (Hcs q). lra.
          - exact Hall.
          - intros j Hj. pose proof (HuT j q Hj M) as Hge.
            assert (E : s_cost cs q / m == s_cost cs q / (m * alpha q) * alpha q) by (field; lra).
            rewrite E. apply Qmult_le_l; [|exact Hge].
            apply Qlt_shift_div_l; [nra|]. lra. }
        pose proof (Hleast _ Hcov') as Hle'.
        assert (r * (m * alpha q) <= s_cost cs q).
        { assert (Hp : 0 < m * alpha q) by nra.
          assert (E : s_cost cs q / (m * alpha q) * (m * alpha q) == s_cost cs q) by (field; lra).
          rewrite <- E. apply Qmult_le_compat_r; [exact Hle'|lra]. }
        lra.
      * exists j. pose proof (HuT j q Hj M) as Hge.
        assert (Huj : 0 < s_util P j q) by lra.
        assert (Hcm : s_cost cs q / m * m == s_cost cs q) by (field; lra).
        assert (Hrich : s_bud b j < r * s_util P j q).
        { assert (s_cost cs q / m * m < r * s_util P j q * m) by nra.
          assert (s_cost cs q / m < r * s_util P j q) by nra. lra. }
        split; [exact Hj|]. split; [exact Huj|].
        rewrite (Q.min_l (s_bud b j) (r * s_util P j q)) by lra. split.
        -- unfold ej_awt. rewrite (proj2 (memb_In q T) M).
           assert (s_bud b j <= s_cost cs q * / m) by (unfold Qdiv in Hlow; lra).
           assert (0 <= kappa * (s_util P j q - alpha q) * / m) by nra.
           lra.
        -- assert (0 < c / m) by (unfold Qdiv; nra). lra.
    + (* every member pays at most her share of the cost plus kappa per extra unit of utility *)
      left. intros i Hi Hu. eapply Qle_trans; [apply Q.le_min_r|].
      unfold ej_awt. rewrite (proj2 (memb_In q T) M).
      pose proof (HuT i q Hi M) as Hge.
      assert (H1 : r * alpha q <= s_cost cs q * / m).
      { assert (r * alpha q * m <= s_cost cs q * / m * m) by (assert (E : s_cost cs q * / m * m == s_cost cs q) by (field; lra); lra).
        nra. }
      assert (H2 : r * (s_util P i q - alpha q) <= kappa * / m * (s_util P i q - alpha q)) by (apply Qmult_le_compat_r; lra).
      lra.
  - exact Hrun.
  - apply repeat_wf_buds. exact Hb0.
  - exact Hpos.
  - exact Hin.
  - exact Hnot.
  - intros j Hj. rewrite (ej_start_bud P S HSlt b0 j Hj). apply Qle_shift_div_r; [exact Hm|]. lra.
  - exists i. split; [exact Hi|]. rewrite (ej_start_bud P S HSlt b0 i Hi) in Hlt.
    rewrite (ej_sum_scal (ej_awt T alpha kappa i)) in Hlt.
    set (s := Qsum (map (ej_awt T alpha kappa i) W)) in *.
    assert (E : (b0 - c / m) * m == m * b0 - c) by (field; lra).
    assert ((b0 - c / m) * m < s * / m * m) by (apply Qmult_lt_compat_r; assumption).
    assert (E2 : s * / m * m == s) by (field; lra).
    lra.
Qed.

End Group.

(* ---------- the counting step ---------- *)
Lemma ej_add_account (c u alpha wt : proj -> Q) (T O : list proj) (kappa cstar astar : Q) :
  NoDup T -> NoDup O ->
  0 < kappa -> cstar == kappa * astar ->
  (forall q, In q T -> ~ In q O -> kappa * alpha q <= c q) ->
  (forall q, In q T -> wt q == c q + kappa * (u q - alpha q)) ->
  (forall q, ~ In q T -> wt q == kappa * u q) ->
  Qsum (map c T) - cstar < Qsum (map wt O) ->
  Qsum (map alpha T) < Qsum (map u O) + astar.
Proof.
  intros HT HO Hk Ecs Hmin HwT HwN Hlt.
  set (inO := fun q => memb q O). set (inT := fun q => memb q T).
  pose proof (ej_sum_split c inO T) as EcT. pose proof (ej_sum_split alpha inO T) as EaT.
  pose proof (ej_sum_split wt inT O) as EwO. pose proof (ej_sum_split u inT O) as EuO.
  assert (HP : Permutation (filter inT O) (filter inO T)).
  { apply NoDup_Permutation; [apply NoDup_filter; exact HO|apply NoDup_filter; exact HT|].
    intro q. unfold inT, inO. rewrite !filter_In, !memb_In. tauto. }
  pose proof (ej_sum_perm c _ _ HP) as Ec. pose proof (ej_sum_perm alpha _ _ HP) as Ea.
  (* inside T *)
  assert (H1 : Qsum (map wt (filter inT O))
               == Qsum (map c (filter inT O))
                  + (Qsum (map u (filter inT O)) - Qsum (map alpha (filter inT O))) * kappa).
  { assert (Hall : forall q, In q (filter inT O) -> wt q == c q + kappa * (u q - alpha q)).
    { intros q Hq. apply filter_In in Hq. destruct Hq as [_ Hq]. apply memb_In in Hq. apply (HwT q Hq). }
    revert Hall. generalize (filter inT O). intro l. induction l as [|y l IH]; intro Hall; simpl; [ring|].
    rewrite (Hall y (or_introl eq_refl)), IH by (intros q Hq; apply Hall; right; exact Hq). ring. }
  (* outside T *)
  assert (H2 : Qsum (map wt (filter (fun q => negb (inT q)) O))
               == Qsum (map u (filter (fun q => negb (inT q)) O)) * kappa).
  { rewrite <- ej_sum_scal. apply ej_sum_ext. intros q Hq. apply filter_In in Hq. destruct Hq as [_ Hq].
    apply negb_true_iff in Hq. apply memb_false_In in Hq. rewrite (HwN q Hq). ring. }
  (* the projects of T outside O *)
  assert (H3 : Qsum (map alpha (filter (fun q => negb (inO q)) T)) * kappa
               <= Qsum (map c (filter (fun q => negb (inO q)) T))).
  { rewrite <- ej_sum_scal. apply ej_sum_le. intros q Hq. apply filter_In in Hq. destruct Hq as [HqT Hq].
    apply negb_true_iff in Hq. apply memb_false_In in Hq. pose proof (Hmin q HqT Hq). lra. }
  set (aX := Qsum (map alpha (filter (fun q => negb (inO q)) T))) in *.
  set (aD := Qsum (map alpha (filter inT O))) in *.
  set (uD := Qsum (map u (filter inT O))) in *.
  set (uE := Qsum (map u (filter (fun q => negb (inT q)) O))) in *.
  assert (H4 : aX * kappa - astar * kappa < (uD - aD) * kappa + uE * kappa) by lra.
  assert (H5 : aX - astar < uD - aD + uE) by nra.
  lra.
Qed.

(* ---------- on a run of the declarative rule, in the words of Spec/JR.v ---------- *)

Section RunCard.
Variable x : spec_in.
Variable voters : list nat.
Variable score : nat -> proj -> Q.
Variable b0 : Q.
Variable W O : list proj.

Let I := ej_inst x.
Let P := si_voters x.
Let cs := si_costs x.

Hypothesis Hinit : si_init x = [].
Hypothesis Hcs : Forall (fun c => 0 <= c) (si_costs x).
Hypothesis Hv : wf_voters P.
Hypothesis Hg : group_ok P voters.
Hypothesis Hb0 : si_share x <= b0.
Hypothesis HB : 0 <= si_budget x.
Hypothesis Hrun : spec_run (si_costs x) (si_voters x) (si_tb x)
                           (repeat b0 (length (si_voters x))) (si_pool x) W.
Hypothesis HO : forall q, In q (si_zeros x) \/ In q W -> In q O.
Hypothesis HOnd : NoDup O.
(* Additive_Cardinal_Sat: the utility the rule runs with is the score; scores are non-negative *)
Hypothesis Hus : ut_is_score nat voters score (ej_ut x).
Hypothesis Hs0 : score_nonneg nat voters score.

Theorem ej_add_run S T alpha :
  cohesive_card I nat voters score S T alpha ->
  exists i, In i S /\
    (asum alpha T <= sat nat (ej_ut x) i O \/
     exists p, In p T /\ ~ In p O /\ asum alpha T < sat nat (ej_ut x) i O + ej_ut x i p).
Proof.
  intros [HG [HPs [HTne [Hlarge Hal]]]].
  assert (HC : cohesive_app I nat voters (fun _ _ => true) S T).
  { split; [exact HG|]. split; [exact HPs|]. split; [exact HTne|]. split; [exact Hlarge|]. reflexivity. }
  destruct (ej_cohesive_facts x voters (fun _ _ => true) b0 Hinit Hg Hb0 HB S T HC)
    as [S' [HSnd [HSne [HSlt [HSS [HinV [HT [HTn [_ [Hb0' Hlarge']]]]]]]]]].
  assert (Hu0 : forall i q, In i S' -> 0 <= ej_ut x i q).
  { intros i q Hi. rewrite (Hus i q (HinV i (HSS i Hi))). apply Hs0. apply HinV. apply HSS. exact Hi. }
  assert (HuT : forall i p, In i S' -> In p T -> alpha p <= ej_ut x i p).
  { intros i p Hi Hp. rewrite (Hus i p (HinV i (HSS i Hi))). apply Hal; [apply HSS; exact Hi|exact Hp]. }
  assert (Hcnn : forall p, 0 <= s_cost cs p) by (intro p; apply (ej_cost_nonneg x p Hcs)).
  destruct S' as [|i0 S0] eqn:ES; [congruence|]. rewrite <- ES in *.
  assert (Hi0 : In i0 S') by (rewrite ES; left; reflexivity).
  (* the projects of T outside O with positive alpha *)
  set (Xp := filter (fun p => Qltb 0 (alpha p)) (outside O T)).
  assert (HXp : forall p, In p Xp <-> In p T /\ ~ In p O /\ 0 < alpha p).
  { intro p. unfold Xp. rewrite filter_In, outside_In, Qltb_iff. tauto. }
  destruct Xp as [|px Xr] eqn:EX.
  - (* none: alpha(T) <= alpha(T inside O) <= sat_i(O) *)
    exists i0. split; [apply HSS; exact Hi0|]. left.
    unfold asum, sat.
    rewrite (ej_sum_split alpha (fun q => memb q O) T).
    assert (H1 : Qsum (map alpha (filter (fun q => negb (memb q O)) T)) <= 0).
    { apply Qle_trans with (Qsum (map (fun _ => 0) (filter (fun q => negb (memb q O)) T))).
      - apply ej_sum_le. intros q Hq. apply filter_In in Hq. destruct Hq as [HqT Hq].
        apply negb_true_iff in Hq. apply memb_false_In in Hq.
        destruct (Qlt_le_dec 0 (alpha q)) as [Hpos|Hle]; [|exact Hle].
        exfalso. assert (Hin : In q []) by (apply HXp; tauto). destruct Hin.
      - generalize (filter (fun q => negb (memb q O)) T). intro l. induction l; simpl; lra. }
    assert (H2 : Qsum (map alpha (filter (fun q => memb q O) T)) <= Qsum (map (ej_ut x i0) (filter (fun q => memb q O) T))).
    { apply ej_sum_le. intros q Hq. apply filter_In in Hq. apply HuT; tauto. }
    assert (H3 : Qsum (map (ej_ut x i0) (filter (fun q => memb q O) T)) <= Qsum (map (ej_ut x i0) O)).
    { apply ej_sum_incl_le; [apply NoDup_filter; exact HT| |intros q _; apply Hu0; exact Hi0].
      intros q Hq. apply filter_In in Hq. apply memb_In. tauto. }
    lra.
  - (* pstar minimises cost/alpha there *)
    assert (Hne : Xp <> []) by (rewrite EX; discriminate).
    rewrite <- EX in HXp. clear EX.
    destruct (ej_argmin (fun p => s_cost cs p / alpha p) Xp Hne) as [ps [Hps Hmin]].
    apply HXp in Hps. destruct Hps as [HpT [HpO Hap]].
    set (kappa := s_cost cs ps / alpha ps).
    assert (Hups : 0 < ej_ut x i0 ps) by (pose proof (HuT i0 ps Hi0 HpT); lra).
    destruct (ej_pool_zeros x ps i0 Hinit (HTn ps HpT) (HSlt i0 Hi0) Hups) as [Hpool Hzero].
    assert (Hcpos : 0 < s_cost cs ps).
    { destruct (Qlt_le_dec 0 (s_cost cs ps)) as [Hpos|Hle]; [exact Hpos|].
      exfalso. apply HpO. apply HO. left. apply Hzero. exact Hle. }
    assert (HpW : ~ In ps W) by (intro Hw; apply HpO; apply HO; right; exact Hw).
    assert (Hk : 0 < kappa) by (unfold kappa, Qdiv; apply Qmult_lt_0_compat; [exact Hcpos|apply Qinv_lt_0_compat; exact Hap]).
    assert (Hmin' : forall q, In q T -> ~ In q O -> kappa * alpha q <= s_cost cs q).
    { intros q Hq HqO. destruct (Qlt_le_dec 0 (alpha q)) as [Hpos|Hle].
      - assert (Hle : kappa <= s_cost cs q / alpha q) by (apply Hmin; apply HXp; tauto).
        assert (E : s_cost cs q / alpha q * alpha q == s_cost cs q) by (field; lra).
        rewrite <- E. apply Qmult_le_compat_r; lra.
      - pose proof (Hcnn q). nra. }
    assert (HcT : s_cost cs ps <= tcost I T).
    { apply (ej_le_sum (cost I) T ps); [|exact HpT]. intros y _. apply Hcnn. }
    destruct (ej_add_group cs P (si_tb x) Hv S' HSnd HSne HSlt T alpha b0 (si_pool x) W ps)
      as [i [Hi Hlt]]; try assumption.
    + intros p Hp. apply ej_pool_pos. exact Hp.
    + apply Hpool. exact Hcpos.
    + eapply Qle_trans; [exact HcT|exact Hlarge'].
    + exists i. split; [apply HSS; exact Hi|]. right. exists ps. split; [exact HpT|]. split; [exact HpO|].
      fold kappa in Hlt.
      assert (Hacc : asum alpha T < sat nat (ej_ut x) i O + alpha ps).
      { apply (ej_add_account (s_cost cs) (ej_ut x i) alpha (ej_awt cs P T alpha kappa i) T O kappa
                 (s_cost cs ps) (alpha ps) HT HOnd Hk).
        - unfold kappa. field. lra.
        - exact Hmin'.
        - intros q Hq. unfold ej_awt. apply memb_In in Hq. rewrite Hq. reflexivity.
        - intros q Hq. unfold ej_awt. apply memb_false_In in Hq. rewrite Hq. reflexivity.
        - assert (HWO : Qsum (map (ej_awt cs P T alpha kappa i) W) <= Qsum (map (ej_awt cs P T alpha kappa i) O)).
          { apply (ej_W_le_O x b0 W O Hrun HO). intro q. unfold ej_awt. destruct (memb q T) eqn:M.
            - apply memb_In in M. pose proof (HuT i q Hi M). pose proof (Hcnn q).
              change (s_util P i q) with (ej_ut x i q). nra.
            - pose proof (Hu0 i q Hi). change (s_util P i q) with (ej_ut x i q). nra. }
          change (Qsum (map (s_cost cs) T)) with (tcost I T). fold I P in Hlarge'. lra. }
      pose proof (HuT i ps Hi HpT). lra.
Qed.

(* EJR up to one project, cardinal form *)
Theorem ej_add_run_EJR_one : EJR_card I nat voters score (ej_ut x) UpToOne O.
Proof.
  intros S T alpha HC. destruct (ej_add_run S T alpha HC) as [i [Hi [H|[p [Hp [Hn H]]]]]].
  - exists i. split; [exact Hi|]. left. exact H.
  - exists i. split; [exact Hi|]. right. exists p. split; [exact Hp|]. split; [exact Hn|].
    apply Qlt_le_weak. exact H.
Qed.

End RunCard.
