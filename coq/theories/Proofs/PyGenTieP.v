(* Proofs/PyGenTieP.v -- the tie-breaking keys and TieBreakingRule.order / untie, REGENERATED from
   pabutools/tiebreaking.py (Generated/PyFuncs.v), are the keys and the order the rule models are run with:
   [tie_order key] / [untie key] of Base/Election.v with the keys [tb_lexico], [tb_app_score P], [tb_min_cost I],
   [tb_max_cost I] of Model/Phragmen.v (Model/GreedyRule.v, Model/MesRule.v and Model/Phragmen.v all take the key as
   a [proj -> Q] and call [tie_order]).  Generic tactic first, specific script second. *)
From Coq Require Import String.
From PB Require Import Model.PyPrims Generated.PyFuncs Proofs.InstanceP Proofs.SatisfactionP Proofs.PyGenLib.
From PB Require Model.Phragmen.
From PB Require Proofs.GreedyAddP.
Open Scope Q_scope.

Ltac py_open := intros; repeat autounfold with pygen in *.
Ltac py_tie :=
  timeout 20 solve [ py_open; unfold Phragmen.tb_lexico, Phragmen.tb_app_score, Phragmen.tb_min_cost, Phragmen.tb_max_cost,
            tb_order_of_key, tb_untie_of_key, untie, tie_order in *;
          py_unfold; first [ reflexivity | py_cases ] ].

(* ---------- the order depends on the key only through its values ---------- *)
Lemma isort_leb_ext {A} (f g : A -> A -> bool) l : (forall x y, f x y = g x y) -> isort f l = isort g l.
Proof.
  intro H. induction l as [|x l IH]; simpl; [reflexivity|]. rewrite IH.
  generalize (isort g l). intro s. induction s as [|y s IHs]; simpl; [reflexivity|].
  rewrite H, IHs. reflexivity.
Qed.

Lemma tie_order_ext (k1 k2 : proj -> Q) l : (forall p, k1 p == k2 p) -> tie_order k1 l = tie_order k2 l.
Proof.
  intro H. unfold tie_order. apply isort_leb_ext. intros x y. rewrite (H x), (H y). reflexivity.
Qed.

Lemma untie_ext (k1 k2 : proj -> Q) l : (forall p, k1 p == k2 p) -> untie k1 l = untie k2 l.
Proof. intro H. unfold untie. rewrite (tie_order_ext k1 k2 l H). reflexivity. Qed.

(* ---------- the four shipped keys ---------- *)
Lemma gen_lexico_key_ok : forall I P p, gen_lexico_tie_breaking_key I P p == Phragmen.tb_lexico p.
Proof. first [ py_tie | intros; reflexivity ]. Qed.

Lemma gen_app_score_key_ok : forall I P p, gen_app_score_tie_breaking_key I P p == Phragmen.tb_app_score P p.
Proof. first [ py_tie | intros; reflexivity ]. Qed.

Lemma gen_min_cost_key_ok : forall I P p, gen_min_cost_tie_breaking_key I P p == Phragmen.tb_min_cost I p.
Proof. first [ py_tie | intros; reflexivity ]. Qed.

Lemma gen_max_cost_key_ok : forall I P p, gen_max_cost_tie_breaking_key I P p == Phragmen.tb_max_cost I p.
Proof. first [ py_tie | intros; reflexivity ]. Qed.

(* refuse_tie_breaking: the key raises on every call *)
Lemma gen_refuse_key_ok : forall I P p, gen_refuse_tie_breaking_key I P p = None.
Proof. first [ solve [py_open; reflexivity] | py_tie ]. Qed.

(* ---------- TieBreakingRule.order / untie ---------- *)
Lemma gen_order_ok : forall (f : inst -> list aballot -> proj -> Q) I P l,
  gen_TieBreakingRule_order f I P l = tb_order_of_key (f I P) l.
Proof. first [ py_tie | intros; reflexivity ]. Qed.

Lemma gen_order_key_ok : forall (f : inst -> list aballot -> proj -> Q) I P l k,
  gen_TieBreakingRule_order_key f I P l k = tb_order_of_key (fun x => f I P (k x)) l.
Proof. first [ py_tie | intros; reflexivity ]. Qed.

Lemma gen_untie_ok : forall (f : inst -> list aballot -> proj -> Q) I P l,
  gen_TieBreakingRule_untie f I P l = tb_untie_of_key (f I P) l.
Proof.
  first [ py_tie
        | timeout 60 (intros; py_open; unfold tb_untie_of_key, untie, tie_order; py_unfold; destruct (isort _ l); reflexivity) ].
Qed.

Lemma gen_untie_key_ok : forall (f : inst -> list aballot -> proj -> Q) I P l k,
  gen_TieBreakingRule_untie_key f I P l k = hd_error (tb_order_of_key (fun x => f I P (k x)) l).
Proof.
  first [ py_tie
        | timeout 60 (intros; py_open; unfold tb_order_of_key, tie_order; py_unfold; destruct (isort _ l); reflexivity) ].
Qed.

(* first of the order = untie *)
Lemma gen_untie_is_first : forall (f : inst -> list aballot -> proj -> Q) I P l,
  gen_TieBreakingRule_untie f I P l = hd_error (gen_TieBreakingRule_order f I P l).
Proof. intros. rewrite gen_untie_ok, gen_order_ok. reflexivity. Qed.

(* the order is a permutation of its input, sorted by the key, and STABLE: projects with equal keys keep the
   order R in which they were handed over (the rules hand over name-sorted lists) *)
Lemma gen_order_perm : forall (f : inst -> list aballot -> proj -> Q) I P l,
  Permutation l (gen_TieBreakingRule_order f I P l).
Proof. intros. rewrite gen_order_ok. unfold tb_order_of_key, tie_order. apply isort_perm. Qed.

Lemma gen_order_stable : forall (f : inst -> list aballot -> proj -> Q) I P (R : proj -> proj -> Prop) l,
  StronglySorted R l ->
  StronglySorted (fun x y => f I P x <= f I P y /\ (f I P y <= f I P x -> R x y)) (gen_TieBreakingRule_order f I P l).
Proof.
  intros f I P R l HS. rewrite gen_order_ok. unfold tb_order_of_key, tie_order.
  set (kleb := fun p q : proj => Qleb (f I P p) (f I P q)).
  assert (Ht : forall x y, kleb x y = true \/ kleb y x = true).
  { intros x y. unfold kleb. destruct (Qleb (f I P x) (f I P y)) eqn:E; [left; reflexivity|right].
    apply Qleb_false_iff in E. apply Qleb_iff. lra. }
  assert (Htr : forall x y z, kleb x y = true -> kleb y z = true -> kleb x z = true).
  { intros x y z. unfold kleb. rewrite !Qleb_iff. lra. }
  pose proof (GreedyAddP.isort_stable Ht Htr HS) as H.
  eapply GreedyAddP.StronglySorted_impl_in; [|exact H].
  intros x y _ _ [H1 H2]. unfold kleb in *. rewrite Qleb_iff in H1. split; [exact H1|].
  intro H3. apply H2. apply Qleb_iff. exact H3.
Qed.

(* ---------- the shipped rules: order / untie = the model's tie_order / untie with the model's key ---------- *)
Lemma gen_lexico_order_ok : forall I P l, gen_lexico_tie_breaking_order I P l = tie_order Phragmen.tb_lexico l.
Proof.
  first [ solve [intros; unfold gen_lexico_tie_breaking_order; rewrite gen_order_ok; apply tie_order_ext;
                 intro; apply gen_lexico_key_ok]
        | py_tie ].
Qed.
Lemma gen_lexico_untie_ok : forall I P l, gen_lexico_tie_breaking_untie I P l = untie Phragmen.tb_lexico l.
Proof.
  first [ solve [intros; unfold gen_lexico_tie_breaking_untie; rewrite gen_untie_ok; apply untie_ext;
                 intro; apply gen_lexico_key_ok]
        | py_tie ].
Qed.

Lemma gen_app_score_order_ok : forall I P l,
  gen_app_score_tie_breaking_order I P l = tie_order (Phragmen.tb_app_score P) l.
Proof.
  first [ solve [intros; unfold gen_app_score_tie_breaking_order; rewrite gen_order_ok; apply tie_order_ext;
                 intro; apply gen_app_score_key_ok]
        | py_tie ].
Qed.
Lemma gen_app_score_untie_ok : forall I P l,
  gen_app_score_tie_breaking_untie I P l = untie (Phragmen.tb_app_score P) l.
Proof.
  first [ solve [intros; unfold gen_app_score_tie_breaking_untie; rewrite gen_untie_ok; apply untie_ext;
                 intro; apply gen_app_score_key_ok]
        | py_tie ].
Qed.

Lemma gen_min_cost_order_ok : forall I P l,
  gen_min_cost_tie_breaking_order I P l = tie_order (Phragmen.tb_min_cost I) l.
Proof.
  first [ solve [intros; unfold gen_min_cost_tie_breaking_order; rewrite gen_order_ok; apply tie_order_ext;
                 intro; apply gen_min_cost_key_ok]
        | py_tie ].
Qed.
Lemma gen_min_cost_untie_ok : forall I P l,
  gen_min_cost_tie_breaking_untie I P l = untie (Phragmen.tb_min_cost I) l.
Proof.
  first [ solve [intros; unfold gen_min_cost_tie_breaking_untie; rewrite gen_untie_ok; apply untie_ext;
                 intro; apply gen_min_cost_key_ok]
        | py_tie ].
Qed.

Lemma gen_max_cost_order_ok : forall I P l,
  gen_max_cost_tie_breaking_order I P l = tie_order (Phragmen.tb_max_cost I) l.
Proof.
  first [ solve [intros; unfold gen_max_cost_tie_breaking_order; rewrite gen_order_ok; apply tie_order_ext;
                 intro; apply gen_max_cost_key_ok]
        | py_tie ].
Qed.
Lemma gen_max_cost_untie_ok : forall I P l,
  gen_max_cost_tie_breaking_untie I P l = untie (Phragmen.tb_max_cost I) l.
Proof.
  first [ solve [intros; unfold gen_max_cost_tie_breaking_untie; rewrite gen_untie_ok; apply untie_ext;
                 intro; apply gen_max_cost_key_ok]
        | py_tie ].
Qed.

(* the rules the source ships, and nothing about tie-breaking fell out of the fragment *)
Lemma gen_tie_rules_ok :
  gen_tie_rules = ["lexico_tie_breaking"; "app_score_tie_breaking"; "min_cost_tie_breaking"; "max_cost_tie_breaking";
                   "refuse_tie_breaking"]%string.
Proof. reflexivity. Qed.

Lemma gen_tie_all_translated : gen_untranslated_tie = [].
Proof. reflexivity. Qed.
