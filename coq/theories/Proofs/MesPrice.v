(* Proofs/MesPrice.v -- C07 mes_price_system: the payments read off the trace of a run of the Equal
   Shares model form a price system (Spec/PriceSystem.v, conditions C0a, P0, C1..C5, without
   exhaustiveness) for the returned allocation, with voter budget = the common endowment b0; hence
   the mirror of validate_price_system and the exact witness checker accept them.
   Setting: multiplicities 1 (a Profile, or an expanded MultiProfile), empty initial allocation,
   "voter i approves c" := "voter i has positive utility for c" (for the approval measures with
   positive utilities on approved positive-cost... projects this is the ballot itself). *)
From PB Require Export Proofs.MesFinal.
From PB Require Spec.PriceSystem Model.Priceability Proofs.PriceabilityP.
Open Scope Q_scope.

(* ---------- the price system read off a trace ---------- *)

Definition rterm (i : nat) (c : proj) (r : round) : Q :=
  if Nat.eqb (r_sel r) c then vbud (r_before r) i - vbud (r_after r) i else 0.
Definition trace_pay (T : list round) (i : nat) (c : proj) : Q := Qsum (map (rterm i c) T).

Definition pay_table (nv np : nat) (T : list round) : list (list Q) :=
  map (fun i => map (fun c => trace_pay T i c) (seq 0 np)) (seq 0 nv).

Definition approvals (x : mes_in) : PriceSystem.profile :=
  map (fun v => filter (fun c => Qltb 0 (util v c)) (seq 0 (length (mi_costs x)))) (mi_voters x).

Lemma pay_table_eq nv np T i c : (i < nv)%nat -> (c < np)%nat ->
  Priceability.pay_of (pay_table nv np T) i c = trace_pay T i c.
Proof.
  intros Hi Hc. unfold Priceability.pay_of, pay_table.
  rewrite (PriceabilityP.nth_map_seq _ nv i [] Hi). apply (PriceabilityP.nth_map_seq _ np c 0 Hc).
Qed.

(* ---------- sums ---------- *)



Lemma Qsum_indicator_in (sel : nat) (d : Q) l : NoDup l -> In sel l ->
  Qsum (map (fun c => if Nat.eqb sel c then d else 0) l) == d.
Proof.
  induction l as [|y r IH]; intros Hn Hin; [destruct Hin|]. inversion Hn as [|? ? Hy Hr]; subst. simpl.
  destruct (Nat.eqb sel y) eqn:E.
  - apply Nat.eqb_eq in E. subst y.
    rewrite Qsum_map_zero; [ring|]. intros c Hc. destruct (Nat.eqb sel c) eqn:E2; [|reflexivity].
    apply Nat.eqb_eq in E2. subst c. contradiction.
  - apply Nat.eqb_neq in E. destruct Hin as [->|Hin]; [contradiction|]. rewrite IH by assumption. ring.
Qed.

Lemma wf_mp_range P cs mp : wf_mp P cs mp -> (mp_id mp < length cs)%nat.
Proof.
  intros [_ [_ [E [Hpos _]]]]. destruct (Nat.lt_ge_cases (mp_id mp) (length cs)) as [H|H]; [exact H|].
  rewrite E, nth_overflow in Hpos by exact H. lra.
Qed.

Lemma round_sel_range P cs r : round_ok P cs r -> (r_sel r < length cs)%nat.
Proof. intros [_ [sel [Hw [-> _]]]]. apply (wf_mp_range P cs sel Hw). Qed.

(* ---------- what a voter spends: the difference between endowment and final money ---------- *)

Lemma trace_pay_cons r T i c : trace_pay (r :: T) i c = rterm i c r + trace_pay T i c.
Proof. reflexivity. Qed.

Lemma spent_trace P cs i : forall T b fin,
  Forall (round_ok P cs) T -> chain b T fin ->
  Qsum (map (trace_pay T i) (seq 0 (length cs))) == vbud b i - vbud fin i.
Proof.
  induction T as [|r T IH]; intros b fin Hok Hch.
  - simpl in Hch. subst fin. rewrite Qsum_map_zero; [ring|]. intros; reflexivity.
  - inversion Hok as [|? ? Hr HT]; subst. destruct Hch as [Eb Hch].
    rewrite (Qsum_map_ext _ (fun c => rterm i c r + trace_pay T i c)) by (intros; rewrite trace_pay_cons; reflexivity).
    rewrite Qsum_map_plus, (IH _ _ HT Hch). unfold rterm.
    rewrite (Qsum_indicator_in (r_sel r) _ (seq 0 (length cs)) (seq_NoDup _ _)).
    + rewrite Eb. ring.
    + apply in_seq. pose proof (round_sel_range P cs r Hr). lia.
Qed.

Lemma trace_pay_nonneg P cs i c : forall T, Forall (round_ok P cs) T -> (i < length P)%nat -> 0 <= trace_pay T i c.
Proof.
  intros T Hok Hi. unfold trace_pay. apply Qsum_nonneg. rewrite Forall_forall. intros y Hy.
  apply in_map_iff in Hy. destruct Hy as [r [<- Hr]]. rewrite Forall_forall in Hok.
  unfold rterm. destruct (Nat.eqb (r_sel r) c); [|lra].
  destruct (round_no_overpay P cs r (Hok r Hr) i Hi). lra.
Qed.

Lemma trace_pay_nonsupp P cs i c : forall T, Forall (round_ok P cs) T -> (i < length P)%nat ->
  ~ In i (supporters P c) -> trace_pay T i c == 0.
Proof.
  intros T Hok Hi Hn. unfold trace_pay. apply Qsum_map_zero. intros r Hr. rewrite Forall_forall in Hok.
  unfold rterm. destruct (Nat.eqb (r_sel r) c) eqn:E; [|reflexivity]. apply Nat.eqb_eq in E. subst c.
  rewrite (round_only_supporters P cs r (Hok r Hr) i Hi Hn). ring.
Qed.

(* ---------- what a project collects ---------- *)

Definition all_ones (P : list vcls) : Prop := Forall (fun v => vmul v = 1%nat) P.

Lemma all_ones_wf P : all_ones P -> wf_voters P.
Proof. intro H. unfold wf_voters, all_ones in *. rewrite Forall_forall in *. intros v Hv. rewrite (H v Hv). lia. Qed.

Lemma all_ones_vmulQ P i : all_ones P -> (i < length P)%nat -> vmulQ P i = 1.
Proof.
  intros H Hi. unfold vmulQ. unfold all_ones in H. rewrite Forall_forall in H.
  rewrite (H (nth i P dummy_voter) (nth_In _ _ Hi)). reflexivity.
Qed.

Lemma paid_trace P cs c : all_ones P -> forall T, Forall (round_ok P cs) T ->
  Qsum (map (fun i => trace_pay T i c) (seq 0 (length P)))
  == Qsum (map (fun r => if Nat.eqb (r_sel r) c then nth c cs 0 else 0) T).
Proof.
  intros H1. induction T as [|r T IH]; intros Hok.
  - simpl. apply Qsum_map_zero. intros; reflexivity.
  - inversion Hok as [|? ? Hr HT]; subst.
    rewrite (Qsum_map_ext _ (fun i => rterm i c r + trace_pay T i c)) by (intros; rewrite trace_pay_cons; reflexivity).
    rewrite Qsum_map_plus, (IH HT). simpl. unfold rterm.
    destruct (Nat.eqb (r_sel r) c) eqn:E.
    + apply Nat.eqb_eq in E. subst c. rewrite <- (round_conservation P cs r Hr).
      rewrite (Qsum_map_ext (fun i => vmulQ P i * (vbud (r_before r) i - vbud (r_after r) i))
                            (fun i => vbud (r_before r) i - vbud (r_after r) i)); [reflexivity|].
      intros i Hi. apply in_seq in Hi. rewrite (all_ones_vmulQ P i H1) by lia. ring.
    + rewrite Qsum_map_zero by (intros; reflexivity). reflexivity.
Qed.

Lemma sel_sum_notin (k : Q) c : forall T, ~ In c (map r_sel T) ->
  Qsum (map (fun r => if Nat.eqb (r_sel r) c then k else 0) T) == 0.
Proof.
  intros T Hn. apply Qsum_map_zero. intros r Hr. destruct (Nat.eqb (r_sel r) c) eqn:E; [|reflexivity].
  apply Nat.eqb_eq in E. exfalso. apply Hn. apply in_map_iff. exists r. split; assumption.
Qed.

Lemma sel_sum_in (k : Q) c : forall T, NoDup (map r_sel T) -> In c (map r_sel T) ->
  Qsum (map (fun r => if Nat.eqb (r_sel r) c then k else 0) T) == k.
Proof.
  induction T as [|r T IH]; intros Hn Hin; [destruct Hin|]. simpl in *. inversion Hn as [|? ? Hy Hr]; subst.
  destruct (Nat.eqb (r_sel r) c) eqn:E.
  - apply Nat.eqb_eq in E. subst c. rewrite (sel_sum_notin k (r_sel r) T Hy). ring.
  - apply Nat.eqb_neq in E. destruct Hin as [Hin|Hin]; [contradiction|]. rewrite (IH Hr Hin). ring.
Qed.

(* ---------- approvals = positive utility ---------- *)

Lemma memb_filter_seq (f : nat -> bool) n c : memb c (filter f (seq 0 n)) = (Nat.ltb c n && f c)%bool.
Proof.
  destruct (memb c (filter f (seq 0 n))) eqn:E.
  - apply memb_In in E. apply filter_In in E. destruct E as [E1 E2]. apply in_seq in E1.
    rewrite E2. symmetry. apply andb_true_iff. split; [apply Nat.ltb_lt; lia|reflexivity].
  - apply memb_false_In in E. symmetry. apply andb_false_iff.
    destruct (Nat.ltb c n) eqn:E1; [|left; reflexivity]. right. apply Nat.ltb_lt in E1.
    destruct (f c) eqn:E2; [|reflexivity]. exfalso. apply E. apply filter_In. split; [apply in_seq; lia|exact E2].
Qed.

Lemma approvals_length x : length (approvals x) = length (mi_voters x).
Proof. unfold approvals. apply map_length. Qed.

Lemma appr_approvals x i c : (i < length (mi_voters x))%nat -> (c < length (mi_costs x))%nat ->
  PriceSystem.appr (approvals x) i c = Qltb 0 (vutil (mi_voters x) i c).
Proof.
  intros Hi Hc. unfold PriceSystem.appr, approvals.
  set (f := fun v => filter (fun c0 => Qltb 0 (util v c0)) (seq 0 (length (mi_costs x)))).
  rewrite (nth_indep _ [] (f dummy_voter)) by (rewrite map_length; exact Hi).
  rewrite (map_nth f). unfold f. rewrite memb_filter_seq. apply Nat.ltb_lt in Hc. rewrite Hc. reflexivity.
Qed.

Lemma supporters_approvals x c : (c < length (mi_costs x))%nat ->
  PriceSystem.supporters (approvals x) c = supporters (mi_voters x) c.
Proof.
  intro Hc. unfold PriceSystem.supporters, PriceSystem.voters, supporters. rewrite approvals_length.
  apply filter_ext_in. intros i Hi. apply in_seq in Hi. apply appr_approvals; [lia|exact Hc].
Qed.

(* ---------- the construction of the pool is complete ---------- *)




(* ---------- the theorem ---------- *)

Definition price_hyps (x : mes_in) : Prop :=
  wf_inst (mi_inst x) /\ all_ones (mi_voters x) /\ mi_init x = [] /\
  NoDup (mi_enum x) /\ (forall p, In p (mi_enum x) <-> (p < length (mi_costs x))%nat).

Definition out_table (x : mes_in) (o : mes_out) : list (list Q) :=
  pay_table (length (mi_voters x)) (length (mi_costs x)) (o_trace o).

Lemma run_facts x b0 o : price_hyps x -> 0 <= b0 -> run_once_res x b0 = Some o ->
  Forall (round_ok (mi_voters x) (mi_costs x)) (o_trace o) /\
  chain (repeat b0 (length (mi_voters x))) (o_trace o) (o_final o) /\
  wf_buds (mi_voters x) (o_final o) /\
  o_alloc o = snd (built x) ++ map r_sel (o_trace o) /\
  NoDup (o_alloc o) /\ (forall p, In p (o_alloc o) -> (p < length (mi_costs x))%nat).
Proof.
  intros [Hwf [H1 [Hinit [He Her]]]] Hb Hrun.
  destruct (run_once_inv x b0 o (all_ones_wf _ H1) Hb Hrun) as [_ [A [B C]]].
  assert (Hn0 : NoDup (mi_init x)) by (rewrite Hinit; constructor).
  assert (Hr0 : forall p, In p (mi_init x) -> (p < length (mi_costs x))%nat) by (rewrite Hinit; intros ? []).
  destruct (run_once_res_Str x b0 o Hn0 Hr0 He (fun p Hp => proj1 (Her p) Hp) Hrun) as [D [E _]].
  split; [exact A|]. split; [exact B|]. split; [exact C|]. split; [|split; assumption].
  unfold run_once_res in Hrun.
  destruct (run_res _ _ _ _ _ _ _) as [[[[alloc tr] fin] rest]|] eqn:Er; [|discriminate].
  injection Hrun as <-. simpl.
  apply run_res_steps in Er. destruct Er as [s [_ [_ [_ [_ [T' [E1 E2]]]]]]]. simpl in E1. subst T'.
  rewrite E2. unfold start_alloc. rewrite Hinit. reflexivity.
Qed.

Theorem mes_price_system_run x b0 o :
  price_hyps x -> 0 <= b0 -> run_once_res x b0 = Some o ->
  tcost (mi_inst x) (o_alloc o) <= mi_budget x ->
  PriceSystem.price_system (mi_inst x) (approvals x) (o_alloc o) b0
    (Priceability.pay_of (out_table x o)) false false.
Proof.
  intros Hh Hb Hrun Hfeas. pose proof Hh as [[Hcost _] [H1 [Hinit [He Her]]]].
  destruct (run_facts x b0 o Hh Hb Hrun) as [Hok [Hch [Hfin [Halloc [Hnd Hrange]]]]].
  pose proof (all_ones_wf _ H1) as Hv.
  set (P := mi_voters x) in *. set (cs := mi_costs x) in *. set (T := o_trace o) in *.
  set (pay := Priceability.pay_of (out_table x o)).
  assert (Hpay : forall i c, (i < length P)%nat -> (c < length cs)%nat -> pay i c = trace_pay T i c).
  { intros i c Hi Hc. apply pay_table_eq; assumption. }
  assert (Hlen : length (approvals x) = length P) by apply approvals_length.
  assert (Hnp : all_projects (mi_inst x) = seq 0 (length cs)) by reflexivity.
  (* spent and leftover *)
  assert (Hspent : forall i, (i < length P)%nat ->
            PriceSystem.spent (mi_inst x) pay i == b0 - vbud (o_final o) i).
  { intros i Hi. unfold PriceSystem.spent. rewrite Hnp.
    rewrite (map_ext_in (pay i) (trace_pay T i)) by (intros c Hc; apply in_seq in Hc; apply Hpay; [exact Hi|lia]).
    rewrite (spent_trace P cs i T _ _ Hok Hch). unfold vbud at 1. rewrite nth_repeat_lt by exact Hi. reflexivity. }
  (* what a project collects *)
  assert (Hpaid : forall c, (c < length cs)%nat ->
            PriceSystem.paid_for (approvals x) pay c
            == Qsum (map (fun r => if Nat.eqb (r_sel r) c then nth c cs 0 else 0) T)).
  { intros c Hc. unfold PriceSystem.paid_for, PriceSystem.voters. rewrite Hlen.
    rewrite (map_ext_in (fun i => pay i c) (fun i => trace_pay T i c))
      by (intros i Hi; apply in_seq in Hi; apply Hpay; [lia|exact Hc]).
    apply (paid_trace P cs c H1 T Hok). }
  assert (HndT : NoDup (map r_sel T)).
  { rewrite Halloc in Hnd. apply NoDup_app_split in Hnd. tauto. }
  destruct (mk_projects_spec P cs (mi_bin x) (candidates x)) as [_ [Mz _]]. fold (built x) in Mz.
  split; [exact Hfeas|]. split; [discriminate|]. split; [|split; [|split; [|split; [|split]]]].
  - (* P0 *) intros i c Hi Hc. rewrite Hlen in Hi. change (nproj (mi_inst x)) with (length cs) in Hc.
    fold pay. rewrite (Hpay i c Hi Hc). apply (trace_pay_nonneg P cs); assumption.
  - (* C1 *) intros i c Hi Hc Ha. rewrite Hlen in Hi. change (nproj (mi_inst x)) with (length cs) in Hc.
    fold pay. rewrite (Hpay i c Hi Hc). apply (trace_pay_nonsupp P cs); try assumption.
    rewrite (appr_approvals x i c Hi Hc) in Ha. intro Hin. apply supporters_spec in Hin.
    apply Qltb_false_iff in Ha. fold P in Ha. lra.
  - (* C2 *) intros i Hi. rewrite Hlen in Hi. fold pay. rewrite (Hspent i Hi).
    pose proof (vbud_nonneg P (o_final o) i Hfin). lra.
  - (* C3 *) intros c Hc. fold pay. rewrite (Hpaid c (Hrange c Hc)).
    change (cost (mi_inst x) c) with (nth c cs 0).
    rewrite Halloc in Hc. apply in_app_or in Hc. destruct Hc as [Hc|Hc].
    + rewrite sel_sum_notin.
      * destruct (Mz c Hc) as [_ Hle]. pose proof (cost_nonneg (mi_inst x) c Hcost) as Hge.
        change (cost (mi_inst x) c) with (nth c cs 0) in Hge. fold cs in Hle. lra.
      * intro Hin. rewrite Halloc in Hnd. apply NoDup_app_split in Hnd. destruct Hnd as [_ Hd]. apply (Hd c Hc Hin).
    + apply sel_sum_in; assumption.
  - (* C4 *) intros c Hc Hn. change (nproj (mi_inst x)) with (length cs) in Hc.
    fold pay. rewrite (Hpaid c Hc). apply sel_sum_notin. intro Hin. apply Hn. rewrite Halloc.
    apply in_or_app. right. exact Hin.
  - (* C5 *) intros c Hc Hn. change (nproj (mi_inst x)) with (length cs) in Hc.
    rewrite (supporters_approvals x c Hc). fold P. fold pay.
    change (cost (mi_inst x) c) with (nth c cs 0).
    rewrite (Qsum_map_ext (PriceSystem.leftover (mi_inst x) b0 pay) (fun i => vmulQ P i * vbud (o_final o) i)).
    2:{ intros i Hi. apply supporters_spec in Hi. destruct Hi as [Hi _].
        unfold PriceSystem.leftover. rewrite (Hspent i Hi), (all_ones_vmulQ P i H1 Hi). ring. }
    fold (smoney P (o_final o) c).
    destruct (supporters P c) as [|i0 sr] eqn:Es.
    + unfold smoney. rewrite Es. simpl. pose proof (cost_nonneg (mi_inst x) c Hcost) as Hge. exact Hge.
    + assert (Hts : Qltb 0 (total_sat P c (supporters P c)) = true).
      { apply Qltb_iff. apply total_sat_pos; [exact Hv|rewrite Es; discriminate]. }
      assert (Hcand : In c (candidates x)).
      { apply candidates_In. split; [apply Her; exact Hc|rewrite Hinit; intros []]. }
      destruct (mk_projects_complete P cs (mi_bin x) (candidates x) c Hcand Hts) as [K1 K2].
      fold (built x) in K1, K2.
      destruct (Qlt_le_dec 0 (nth c cs 0)) as [Hpos|Hz].
      * specialize (K1 Hpos). unfold ids in K1. apply in_map_iff in K1. destruct K1 as [mp [Eid Hmp]].
        destruct (trace_final_unaffordable x b0 o Hv Hb Hrun) as [U _].
        assert (Hnin : ~ In (mp_id mp) (o_alloc o)) by (rewrite Eid; exact Hn).
        pose proof (U mp Hmp Hnin) as Hlt.
        assert (Hw : wf_mp P cs mp).
        { pose proof (mk_projects_wf P cs (mi_bin x) (candidates x)) as Hall.
          rewrite Forall_forall in Hall. apply Hall. exact Hmp. }
        fold P in Hlt. rewrite (avail_smoney P cs _ mp Hw), (wf_mp_cost P cs mp Hw), Eid in Hlt. fold cs. lra.
      * exfalso. apply Hn. rewrite Halloc. apply in_or_app. left. apply K2. exact Hz.
Qed.

Lemma init_nil_ok x : wf_inst (mi_inst x) -> mi_init x = [] -> tcost (mi_inst x) (mi_init x) <= mi_budget x.
Proof. intros [_ Hb] ->. unfold tcost. simpl in *. lra. Qed.

(* the plain rule: endowment = budget / n *)
Theorem mes_price_system x o :
  price_hyps x -> (1 <= nvoters (mi_voters x))%nat -> mes_resolute x = Some o ->
  PriceSystem.price_system (mi_inst x) (approvals x) (o_alloc o) (share x)
    (Priceability.pay_of (out_table x o)) false false.
Proof.
  intros Hh Hn Hrun. pose proof Hh as [Hwf [H1 [Hinit [He Her]]]].
  assert (Hf0 : feasible (mi_inst x) (mi_init x)).
  { pose proof (init_nil_ok x Hwf Hinit) as Hle. rewrite Hinit in *. split; [constructor|]. split; [intros ? []|exact Hle]. }
  assert (Hm : mes_hyps x).
  { split; [exact Hwf|]. split; [apply all_ones_wf; exact H1|]. split; [exact Hn|]. split; [exact Hf0|].
    split; [exact He|]. intros p Hp. apply Her. exact Hp. }
  destruct (mes_feasible x o Hm Hrun) as [[_ [_ Hc]] _].
  apply mes_price_system_run; try assumption.
  apply share_nonneg. destruct Hf0 as [_ [_ H]]. exact H.
Qed.

(* the iterated variant: the run that is reported *)
Theorem mes_iter_price_system fuel x inc o :
  price_hyps x -> (1 <= nvoters (mi_voters x))%nat -> 0 <= inc -> mes_iter_resolute fuel x inc = Some o ->
  PriceSystem.price_system (mi_inst x) (approvals x) (o_alloc o) (o_b0 o)
    (Priceability.pay_of (out_table x o)) false false.
Proof.
  intros Hh Hn Hinc Hrun. pose proof Hh as [Hwf [H1 [Hinit _]]].
  assert (Hs : 0 <= share x) by (apply share_nonneg; apply init_nil_ok; assumption).
  unfold mes_iter_resolute in Hrun.
  destruct (iter_res_from _ _ _ _ _ _ Hrun) as [E|[b [Hr Hf]]]; [discriminate|].
  destruct (iter_res_inv x inc Hinc fuel (share x) None o (share x) (Qle_refl _)) as [b' [Hb' Hr']];
    [intros p Hp; discriminate Hp|exact Hrun|].
  assert (Hb0 : 0 <= b') by lra.
  destruct (run_once_inv x b' o (all_ones_wf _ H1) Hb0 Hr') as [-> _].
  apply mes_price_system_run; try assumption.
  unfold alloc_feasible in Hf. apply Qleb_iff in Hf. exact Hf.
Qed.

(* ... hence the mirror of validate_price_system and the exact witness checker accept them *)
Theorem mes_validate_ps x o :
  price_hyps x -> (1 <= nvoters (mi_voters x))%nat -> mes_resolute x = Some o ->
  Priceability.validate_ps (mi_inst x) (approvals x) (o_alloc o) (share x) (out_table x o) false false = true /\
  Priceability.check_witness (mi_inst x) (approvals x) (o_alloc o) (share x) (out_table x o) false false = true.
Proof.
  intros Hh Hn Hrun. pose proof (mes_price_system x o Hh Hn Hrun) as Hps. split.
  - apply PriceabilityP.validate_complete. exact Hps.
  - apply PriceabilityP.witness_checker_complete; [|exact Hps].
    pose proof Hh as [Hwf [H1 [Hinit _]]].
    assert (Hs : 0 <= share x) by (apply share_nonneg; apply init_nil_ok; assumption).
    destruct (run_facts x (share x) o Hh Hs Hrun) as [_ [_ [_ [_ [A B]]]]]. split; assumption.
Qed.

Theorem mes_iter_validate_ps fuel x inc o :
  price_hyps x -> (1 <= nvoters (mi_voters x))%nat -> 0 <= inc -> mes_iter_resolute fuel x inc = Some o ->
  Priceability.validate_ps (mi_inst x) (approvals x) (o_alloc o) (o_b0 o) (out_table x o) false false = true.
Proof.
  intros Hh Hn Hinc Hrun. apply PriceabilityP.validate_complete.
  apply (mes_iter_price_system fuel x inc o); assumption.
Qed.
