(* Proofs/GreedyReplayP.v -- the boolean replay used by Oracle/C03.v is sound and complete for the spec:
   it accepts a purchase order iff that order is the run of Spec/GreedySpec.v. *)
From PB Require Import Model.GreedyRule Spec.GreedySpec Proofs.GreedyP Oracle.C03.
Open Scope Q_scope.

Section Replay.
Variables (I : inst) (sat : list proj -> Q) (tb : proj -> Q).

Lemma fitsb_iff alloc p : fitsb I alloc p = true <-> GreedySpec.fits I alloc p.
Proof.
  unfold fitsb, GreedySpec.fits. rewrite !andb_true_iff, Nat.ltb_lt, negb_true_iff, memb_false_In, Qleb_iff. tauto.
Qed.

Lemma cands_iff alloc q : In q (filter (fitsb I alloc) (all_projects I)) <-> GreedySpec.fits I alloc q.
Proof.
  rewrite filter_In, fitsb_iff. unfold all_projects. rewrite in_seq. split; [tauto|].
  intros H. split; [|exact H]. destruct H as [H _]. lia.
Qed.

Lemma tb_firstb_iff alloc p : tb_firstb I sat tb alloc p = true <-> tb_first I sat tb alloc p.
Proof.
  unfold tb_firstb. rewrite !andb_true_iff, !forallb_forall, fitsb_iff. split.
  - intros [[Hf H1] H2].
    assert (Hb : best I sat alloc p).
    { split; [exact Hf|]. intros q Hq. rewrite <- !mdens_density. apply Qx_leb_le. apply H1. apply cands_iff. exact Hq. }
    split; [exact Hb|]. intros q [Hq Hqmax].
    specialize (H2 q (proj2 (cands_iff alloc q) Hq)).
    assert (E : Qx_leb (mdens I sat alloc p) (mdens I sat alloc q) = true).
    { apply Qx_leb_le. rewrite !mdens_density. apply Hqmax. exact Hf. }
    rewrite E in H2. simpl in H2. apply orb_true_iff in H2. destruct H2 as [H2|H2].
    + left. apply Qltb_iff. exact H2.
    + right. apply andb_true_iff in H2. destruct H2 as [H2 H3]. split; [apply Qeqb_iff; exact H2|apply Nat.leb_le; exact H3].
  - intros [[Hf Hmax] Hfirst]. split; [split; [exact Hf|]|].
    + intros q Hq. apply cands_iff in Hq. apply Qx_leb_le. rewrite !mdens_density. apply Hmax. exact Hq.
    + intros q Hq. apply cands_iff in Hq.
      destruct (Qx_leb (mdens I sat alloc p) (mdens I sat alloc q)) eqn:E; [|reflexivity]. simpl.
      assert (Hb : best I sat alloc q).
      { split; [exact Hq|]. intros r Hr. apply Qx_leb_le in E. rewrite !mdens_density in E.
        specialize (Hmax r Hr).
        destruct (density I sat alloc r), (density I sat alloc p), (density I sat alloc q); simpl in *; try tauto.
        eapply Qle_trans; eassumption. }
      destruct (Hfirst q Hb) as [H|[H H']].
      * apply Qltb_iff in H. rewrite H. reflexivity.
      * apply Qeqb_iff in H. apply Nat.leb_le in H'. rewrite H, H'. apply orb_true_r.
Qed.

Theorem replayb_iff : forall rest alloc,
  replayb I sat tb alloc rest = true <-> greedy_run I (tb_first I sat tb) alloc (alloc ++ rest).
Proof.
  induction rest as [|p r IH]; intros alloc; simpl.
  - rewrite app_nil_r, forallb_forall. split.
    + intros H. apply gr_stop. intros q Hq.
      assert (Hin : In q (all_projects I)) by (unfold all_projects; apply in_seq; destruct Hq; lia).
      specialize (H q Hin). apply negb_true_iff in H. apply fitsb_iff in Hq. congruence.
    + intros H q _. apply negb_true_iff. destruct (fitsb I alloc q) eqn:E; [|reflexivity].
      apply fitsb_iff in E. exfalso.
      inversion H as [a Hstop|a p' W Hc Hrun]; subst.
      * exact (Hstop q E).
      * (* a run that makes a step strictly extends the allocation *)
        assert (Hext : forall a W, greedy_run I (tb_first I sat tb) a W -> exists ext, W = a ++ ext).
        { clear. induction 1 as [a _|a p W _ _ [ext IH]]; [exists []; rewrite app_nil_r; reflexivity|].
          exists (p :: ext). rewrite IH, <- app_assoc. reflexivity. }
        destruct (Hext _ _ Hrun) as [ext Hx]. rewrite <- app_assoc in Hx. simpl in Hx.
        apply (f_equal (@length proj)) in Hx. rewrite !app_length in Hx. simpl in Hx. lia.
  - rewrite andb_true_iff, tb_firstb_iff, IH, <- app_assoc. simpl. split.
    + intros [H1 H2]. eapply gr_step; eassumption.
    + intros H. remember (alloc ++ p :: r) as W eqn:EW.
      destruct H as [a Hstop|a p' W Hc Hrun].
      * exfalso. apply (f_equal (@length proj)) in EW. rewrite app_length in EW. simpl in EW. lia.
      * assert (Hext : forall a W, greedy_run I (tb_first I sat tb) a W -> exists ext, W = a ++ ext).
        { clear. induction 1 as [a _|a p W _ _ [ext IH]]; [exists []; rewrite app_nil_r; reflexivity|].
          exists (p :: ext). rewrite IH, <- app_assoc. reflexivity. }
        destruct (Hext _ _ Hrun) as [ext Hx]. rewrite <- app_assoc in Hx. simpl in Hx.
        rewrite Hx in EW. apply app_inv_head in EW. injection EW as -> _. split; [exact Hc|exact Hrun].
Qed.

End Replay.
