(* Proofs/C13OracleP.v -- the case-file oracle of C13 decides what it is meant to decide: when [check] returns no
   failure code, ALL recorded outcomes of a (cross-compared) call -- every interpreter, every presentation,
   every repetition -- are the same set of projects with the same welfare value. *)
From PB Require Import Oracle.C13.
Open Scope Q_scope.

Definition outv_eq (a b : outv) : Prop := canon (o_set a) = canon (o_set b) /\ o_val a == o_val b.

Lemma outv_eqb_iff a b : outv_eqb a b = true <-> outv_eq a b.
Proof.
  unfold outv_eqb, outv_eq, set_eqb. rewrite andb_true_iff, list_eqb_nat_eq, Qeqb_iff. reflexivity.
Qed.
Lemma outv_eq_refl a : outv_eq a a.
Proof. split; reflexivity. Qed.
Lemma outv_eq_sym a b : outv_eq a b -> outv_eq b a.
Proof. intros [H1 H2]. split; [congruence|symmetry; exact H2]. Qed.
Lemma outv_eq_trans a b c : outv_eq a b -> outv_eq b c -> outv_eq a c.
Proof. intros [H1 H2] [H3 H4]. split; [congruence|rewrite H2; exact H4]. Qed.

Definition outs_of_row (r : list (outv * option outv)) : list outv :=
  flat_map (fun xy => fst xy :: match snd xy with Some y => [y] | None => [] end) r.
Definition all_outs (k : call) : list outv := flat_map outs_of_row (k_runs k).

Lemma flag_nil b code : flag b code = [] -> b = true.
Proof. destruct b; [reflexivity|discriminate]. Qed.

Lemma check_flags c : check c = [] ->
  forallb twice_ok (c_calls c) = true /\ forallb seeds_ok (c_calls c) = true /\
  (forall kd, (1 <= kd <= 5)%nat -> forallb (pres_ok kd (c_pk c)) (c_calls c) = true) /\
  forallb (shape_ok (c_pk c)) (c_calls c) = true.
Proof.
  unfold check. intros H.
  repeat (apply app_eq_nil in H; destruct H as [?H H]).
  repeat match goal with Hf : flag _ _ = [] |- _ => apply flag_nil in Hf end.
  split; [assumption|]. split; [assumption|]. split; [|assumption].
  intros kd Hkd. assert (kd = 1 \/ kd = 2 \/ kd = 3 \/ kd = 4 \/ kd = 5)%nat as [->|[->|[->|[->| ->]]]] by lia; assumption.
Qed.

(* entry j of a row *)
Lemma combine_nth_in {A B} (l : list A) (m : list B) j a b :
  length l = length m -> nth_error l j = Some a -> nth_error m j = Some b -> In (a, b) (combine l m).
Proof.
  revert m j. induction l as [|x l IH]; intros [|y m] [|j] HL Ha Hb; simpl in *; try discriminate.
  - injection Ha as ->. injection Hb as ->. left. reflexivity.
  - right. apply (IH m j); [lia|assumption|assumption].
Qed.

Section Sound.
Variable c : case.
Variable k : call.
Hypothesis Hcheck : check c = [].
Hypothesis Hk : In k (c_calls c).
Hypothesis Hcross : k_cross k = true.
(* the first presentation is the reference, all others are of one of the five compared kinds *)
Hypothesis Hkinds : forall j kd, nth_error (c_pk c) (S j) = Some kd -> (1 <= kd <= 5)%nat.

Let Htw : twice_ok k = true.
Proof. destruct (check_flags c Hcheck) as (H & _). rewrite forallb_forall in H. apply H. exact Hk. Qed.
Let Hse : seeds_ok k = true.
Proof. destruct (check_flags c Hcheck) as (_ & H & _). rewrite forallb_forall in H. apply H. exact Hk. Qed.
Let Hpr : forall kd, (1 <= kd <= 5)%nat -> pres_ok kd (c_pk c) k = true.
Proof.
  intros kd Hkd. destruct (check_flags c Hcheck) as (_ & _ & H & _). specialize (H kd Hkd).
  rewrite forallb_forall in H. apply H. exact Hk.
Qed.
Let Hsh : shape_ok (c_pk c) k = true.
Proof. destruct (check_flags c Hcheck) as (_ & _ & _ & H). rewrite forallb_forall in H. apply H. exact Hk. Qed.

(* within one row every first outcome equals the row's first *)
Lemma row_to_head r b rest : In r (k_runs k) -> r = b :: rest ->
  forall x, In x r -> outv_eq (fst b) (fst x).
Proof.
  intros Hr -> x Hx.
  assert (Hlen : length (b :: rest) = length (c_pk c)).
  { apply andb_true_iff in Hsh. destruct Hsh as [_ H]. rewrite forallb_forall in H.
    apply Nat.eqb_eq. apply H. exact Hr. }
  destruct (In_nth_error _ _ Hx) as [jx Hjx].
  destruct jx as [|jx].
  - simpl in Hjx. injection Hjx as <-. apply outv_eq_refl.
  - assert (Hjlt : (S jx < length (c_pk c))%nat).
    { rewrite <- Hlen. apply nth_error_Some. rewrite Hjx. discriminate. }
    destruct (nth_error (c_pk c) (S jx)) as [kd|] eqn:Ekd; [|apply nth_error_None in Ekd; lia].
    pose proof (Hkinds jx kd Ekd) as Hkd.
    pose proof (Hpr kd Hkd) as H. unfold pres_ok in H. rewrite Hcross in H. simpl in H.
    rewrite forallb_forall in H. specialize (H _ Hr). cbv beta iota in H. rewrite forallb_forall in H.
    assert (Hin : In (kd, x) (combine (c_pk c) (b :: rest))).
    { apply (combine_nth_in _ _ (S jx)); [symmetry; exact Hlen|exact Ekd|exact Hjx]. }
    specialize (H _ Hin). simpl in H. rewrite Nat.eqb_refl in H. simpl in H. apply outv_eqb_iff. exact H.
Qed.

Theorem check_sound : forall a b, In a (all_outs k) -> In b (all_outs k) -> outv_eq a b.
Proof.
  (* the reference outcome: first presentation in the first interpreter *)
  destruct (k_runs k) as [|r0 rs] eqn:Eruns.
  { intros a b Ha. unfold all_outs in Ha. rewrite Eruns in Ha. destruct Ha. }
  assert (Hr0 : In r0 (k_runs k)) by (rewrite Eruns; left; reflexivity).
  assert (Hlen0 : length r0 = length (c_pk c)).
  { apply andb_true_iff in Hsh. destruct Hsh as [_ H]. rewrite forallb_forall in H.
    apply Nat.eqb_eq. apply H. exact Hr0. }
  assert (Hall : forall a, In a (all_outs k) -> forall b0 rest0, r0 = b0 :: rest0 -> outv_eq (fst b0) a).
  { intros a Ha b0 rest0 E0. unfold all_outs in Ha. apply in_flat_map in Ha. destruct Ha as [r [Hr Ha]].
    unfold outs_of_row in Ha. apply in_flat_map in Ha. destruct Ha as [xy [Hxy Ha]].
    (* the first outcome of the entry *)
    assert (Hfst : outv_eq (fst b0) (fst xy)).
    { destruct r as [|b rest]; [destruct Hxy|].
      apply (outv_eq_trans _ (fst b)); [|apply (row_to_head (b :: rest) b rest Hr eq_refl); exact Hxy].
      (* heads of the rows agree between interpreters *)
      rewrite Eruns in Hr. destruct Hr as [E|Hr].
      - rewrite E0 in E. injection E as <- <-. apply outv_eq_refl.
      - pose proof Hse as H. unfold seeds_ok in H. rewrite Eruns in H. rewrite forallb_forall in H.
        specialize (H _ Hr). unfold row_eqb in H. apply andb_true_iff in H. destruct H as [_ H].
        rewrite forallb_forall in H. subst r0. simpl in H. specialize (H (b0, b) (or_introl eq_refl)).
        simpl in H. apply outv_eqb_iff. exact H. }
    destruct Ha as [<-|Ha]; [exact Hfst|].
    destruct (snd xy) as [y|] eqn:Ey; [|destruct Ha]. destruct Ha as [<-|[]].
    apply (outv_eq_trans _ (fst xy)); [exact Hfst|].
    pose proof Htw as H. unfold twice_ok in H. rewrite forallb_forall in H. specialize (H _ Hr).
    rewrite forallb_forall in H. specialize (H _ Hxy). rewrite Ey in H. apply outv_eqb_iff. exact H. }
  intros a b Ha Hb. destruct r0 as [|b0 rest0].
  { (* an empty first row: then there are no presentations, hence no outcomes at all *)
    exfalso. unfold all_outs in Ha. apply in_flat_map in Ha. destruct Ha as [r [Hr Ha]].
    assert (Hlen : length r = length (c_pk c)).
    { apply andb_true_iff in Hsh. destruct Hsh as [_ H]. rewrite forallb_forall in H.
      apply Nat.eqb_eq. apply H. exact Hr. }
    simpl in Hlen0. rewrite <- Hlen0 in Hlen. destruct r; [destruct Ha|discriminate]. }
  apply (outv_eq_trans _ (fst b0)); [apply outv_eq_sym|]; eapply Hall; try eassumption; reflexivity.
Qed.
End Sound.
