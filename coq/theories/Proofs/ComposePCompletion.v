(* Proofs/ComposePCompletion.v -- completion_by_rule_combination over CONCRETE rule models: each rule is the
   model applied to the original instance with the outcome so far as initial allocation.
   Abstract theorems used: ComposeP.complete_res_spec_rel / completion_irr_sound_rel (the relative-contract forms of
   C09_completion_spec_resolute, _irresolute), ExhaustionP.complete_res_exhaustive / completion_irr_exhaustive. *)
From PB Require Import Model.Compose Proofs.InstanceP Proofs.ExhaustionP Proofs.ComposeP Proofs.ComposePRules
  Proofs.ComposePIncrease.
Open Scope Q_scope.

Lemma fold_left_map_rule {A B C} (f : A -> B -> A) (g : C -> B) l : forall a,
  fold_left f (map g l) a = fold_left (fun a c => f a (g c)) l a.
Proof. induction l as [|c r IH]; intros a; simpl; [reflexivity|apply IH]. Qed.

Section CompletionRules.
  Variables (cs : list Q) (B : Q).
  Let I := mkInst cs B.

  (* the contract a rule model meets on the original instance *)
  Definition completes_ok (r : Q -> alloc -> alloc) : Prop :=
    forall a, feasible I a -> feasible I (r B a) /\ incl a (r B a).
  Definition completes_ok_irr (r : Q -> alloc -> list alloc) : Prop :=
    forall a, feasible I a -> forall W, In W (r B a) -> feasible I W /\ incl a W.

  Theorem completion_rules_res_spec (rules : list (Q -> alloc -> alloc)) (init : alloc) :
    (forall r, In r rules -> completes_ok r) -> feasible I init ->
    let W := completion_rules_res cs B rules init in
    incl init W /\ feasible I W /\
    match rules with [] => W = init | r1 :: _ => incl (r1 B init) W end /\
    (exhaustive I W \/ W = fold_left (fun a r => r B a) rules init).
  Proof.
    intros Hc Hinit W.
    assert (Hrel : forall r' a, In r' (map (fun r : Q -> alloc -> alloc => r B) rules) -> feasible I a ->
                     incl a (r' a) /\ feasible I (r' a)).
    { intros r' a Hr' Ha. apply in_map_iff in Hr'. destruct Hr' as [r [<- Hr]].
      destruct (Hc r Hr a Ha) as [X Y]. split; assumption. }
    pose proof (complete_res_spec_rel I (map (fun r : Q -> alloc -> alloc => r B) rules) Hrel init Hinit) as H.
    cbv zeta in H. destruct H as [H1 [H2 [H3 H4]]].
    unfold W, completion_rules_res. fold I.
    split; [exact H1|]. split; [exact H2|]. split.
    - destruct rules as [|r1 rest]; exact H3.
    - destruct H4 as [H4|H4].
      + left. apply is_exhaustive_default. exact H4.
      + right. rewrite H4. apply fold_left_map_rule.
  Qed.

  (* the last rule only returns exhaustive allocations (greedy): so does the completion *)
  Theorem completion_rules_res_exhaustive (pre : list (Q -> alloc -> alloc)) (rl : Q -> alloc -> alloc) init :
    (forall a, exhaustive I (rl B a)) -> exhaustive I (completion_rules_res cs B (pre ++ [rl]) init).
  Proof.
    intros Hl. apply is_exhaustive_default. unfold completion_rules_res. rewrite map_app. simpl.
    apply (complete_res_exhaustive I (map (fun r => r B) pre) (rl B)).
    intros a. apply is_exhaustive_default. apply Hl.
  Qed.

  Theorem completion_rules_irr_sound (r1 : Q -> alloc -> list alloc) (rest : list (Q -> alloc -> list alloc)) init :
    (forall r, In r (r1 :: rest) -> completes_ok_irr r) -> feasible I init ->
    forall W, In W (completion_rules_irr cs B (r1 :: rest) init) ->
      incl init W /\ feasible I W /\ exists a, In a (r1 B init) /\ incl a W.
  Proof.
    intros Hc Hinit. unfold completion_rules_irr. cbn [map].
    apply (completion_irr_sound_rel I (r1 B) (map (fun r => r B) rest) init); [|exact Hinit].
    intros r' a W Hr' Ha HW.
    assert (Hr : exists r, In r (r1 :: rest) /\ r' = r B).
    { destruct Hr' as [<-|Hr']; [exists r1; split; [left|]; reflexivity|].
      apply in_map_iff in Hr'. destruct Hr' as [r [<- Hr]]. exists r. split; [right; exact Hr|reflexivity]. }
    destruct Hr as [r [Hr ->]]. destruct (Hc r Hr a Ha W HW) as [X Y]. split; assumption.
  Qed.

  Theorem completion_rules_irr_exhaustive (pre : list (Q -> alloc -> list alloc)) (rl : Q -> alloc -> list alloc) init :
    (forall a W, In W (rl B a) -> exhaustive I W) ->
    forall W, In W (completion_rules_irr cs B (pre ++ [rl]) init) -> exhaustive I W.
  Proof.
    intros Hl W HW. apply is_exhaustive_default. unfold completion_rules_irr in HW. rewrite map_app in HW.
    simpl in HW. apply (completion_irr_exhaustive I (map (fun r => r B) pre) (rl B) init); [|exact HW].
    intros a W0 H0. apply is_exhaustive_default. apply (Hl a). exact H0.
  Qed.
End CompletionRules.

(* ---------- the three rule models meet the contract ---------- *)
Lemma mes_completes_ok cs B P tb enum bin : mes_side cs P enum -> 0 < B ->
  completes_ok cs B (mes_rule_res cs P tb enum bin).
Proof. intros Hs HB a Ha. apply (mes_contract_of_side cs P tb enum bin Hs B a HB Ha). Qed.

Lemma greedy_completes_ok cs B sat sp tb additive : Forall (fun c => 0 <= c) cs ->
  completes_ok cs B (greedy_rule_res cs sat sp tb additive).
Proof. intros Hc a Ha. apply (greedy_rule_res_contract cs sat sp tb Hc additive B a Ha). Qed.

Lemma phr_completes_ok cs B A tb enum loads : NoDup enum -> (forall p, In p enum -> (p < length cs)%nat) ->
  completes_ok cs B (phr_rule_res cs A tb enum loads).
Proof. intros He Her a Ha. apply (phr_rule_res_contract cs A tb enum loads He Her B a Ha). Qed.

Lemma mes_completes_ok_irr cs B P tb enum bin : mes_side cs P enum -> 0 < B ->
  completes_ok_irr cs B (mes_rule_irr cs P tb enum bin).
Proof. intros Hs HB a Ha. apply (mes_contract_irr_of_side cs P tb enum bin Hs B a HB Ha). Qed.

Lemma greedy_completes_ok_irr cs B sat tb additive : Forall (fun c => 0 <= c) cs ->
  completes_ok_irr cs B (greedy_rule_irr cs sat tb additive).
Proof. intros Hc a Ha. apply (greedy_rule_irr_contract cs sat (fun _ => 0) tb Hc additive B a Ha). Qed.

Lemma phr_completes_ok_irr cs B A tb enum loads : NoDup enum -> (forall p, In p enum -> (p < length cs)%nat) ->
  completes_ok_irr cs B (phr_rule_irr cs A tb enum loads).
Proof. intros He Her a Ha. apply (phr_rule_irr_contract cs A tb enum loads He Her B a Ha). Qed.

(* the two hypotheses of C09_completion_spec_resolute for a rule model, in the form they can be proved:
   from a FEASIBLE starting allocation *)
Theorem rule_models_completion_contract cs B P tb enum bin sat sp gtb additive A ptb penum loads :
  mes_side cs P enum -> Forall (fun c => 0 <= c) cs ->
  NoDup penum -> (forall p, In p penum -> (p < length cs)%nat) -> 0 < B ->
  let I := mkInst cs B in
  forall r, In r [mes_rule_res cs P tb enum bin B; greedy_rule_res cs sat sp gtb additive B;
                  phr_rule_res cs A ptb penum loads B] ->
  forall a, feasible I a -> incl a (r a) /\ feasible I (r a).
Proof.
  intros Hs Hc Hpe Hper HB I r Hr a Ha.
  destruct Hr as [<-|[<-|[<-|[]]]].
  - destruct (mes_completes_ok cs B P tb enum bin Hs HB a Ha); split; assumption.
  - destruct (greedy_completes_ok cs B sat sp gtb additive Hc a Ha); split; assumption.
  - destruct (phr_completes_ok cs B A ptb penum loads Hpe Hper a Ha); split; assumption.
Qed.

(* ---------- the concrete sequences ---------- *)

(* [Equal Shares; greedy] *)
Theorem completion_mes_greedy cs B P tb enum bin sat sp gtb additive init :
  mes_side cs P enum -> 0 < B -> feasible (mkInst cs B) init ->
  let I := mkInst cs B in
  let W := completion_rules_res cs B [mes_rule_res cs P tb enum bin; greedy_rule_res cs sat sp gtb additive] init in
  feasible I W /\ incl init W /\ incl (mes_rule_res cs P tb enum bin B init) W /\ exhaustive I W.
Proof.
  intros Hs HB Hinit I W.
  assert (Hc : Forall (fun c => 0 <= c) cs) by apply Hs.
  destruct (completion_rules_res_spec cs B [mes_rule_res cs P tb enum bin; greedy_rule_res cs sat sp gtb additive] init)
    as [H1 [H2 [H3 _]]].
  - intros r [<-|[<-|[]]]; [apply mes_completes_ok; assumption|apply greedy_completes_ok; exact Hc].
  - exact Hinit.
  - split; [exact H2|]. split; [exact H1|]. split; [exact H3|].
    apply (completion_rules_res_exhaustive cs B [mes_rule_res cs P tb enum bin] (greedy_rule_res cs sat sp gtb additive)).
    intros a. apply greedy_rule_res_exhaustive. exact Hc.
Qed.

(* [Equal Shares; sequential Phragmen] *)
Theorem completion_mes_phr cs B P tb enum bin A ptb penum loads init :
  mes_side cs P enum -> NoDup penum -> (forall p, In p penum -> (p < length cs)%nat) ->
  0 < B -> feasible (mkInst cs B) init ->
  let I := mkInst cs B in
  let W := completion_rules_res cs B [mes_rule_res cs P tb enum bin; phr_rule_res cs A ptb penum loads] init in
  feasible I W /\ incl init W /\ incl (mes_rule_res cs P tb enum bin B init) W /\
  (exhaustive I W \/ W = phr_rule_res cs A ptb penum loads B (mes_rule_res cs P tb enum bin B init)).
Proof.
  intros Hs Hpe Hper HB Hinit I W.
  destruct (completion_rules_res_spec cs B [mes_rule_res cs P tb enum bin; phr_rule_res cs A ptb penum loads] init)
    as [H1 [H2 [H3 H4]]].
  - intros r [<-|[<-|[]]]; [apply mes_completes_ok; assumption|apply phr_completes_ok; assumption].
  - exact Hinit.
  - split; [exact H2|]. split; [exact H1|]. split; [exact H3|exact H4].
Qed.

(* [Equal Shares; Equal Shares] (the second run may use another satisfaction / tie-breaking) *)
Theorem completion_mes_mes cs B P tb enum bin P' tb' enum' bin' init :
  mes_side cs P enum -> mes_side cs P' enum' -> 0 < B -> feasible (mkInst cs B) init ->
  let I := mkInst cs B in
  let W := completion_rules_res cs B [mes_rule_res cs P tb enum bin; mes_rule_res cs P' tb' enum' bin'] init in
  feasible I W /\ incl init W /\ incl (mes_rule_res cs P tb enum bin B init) W /\
  (exhaustive I W \/ W = mes_rule_res cs P' tb' enum' bin' B (mes_rule_res cs P tb enum bin B init)).
Proof.
  intros Hs Hs' HB Hinit I W.
  destruct (completion_rules_res_spec cs B [mes_rule_res cs P tb enum bin; mes_rule_res cs P' tb' enum' bin'] init)
    as [H1 [H2 [H3 H4]]].
  - intros r [<-|[<-|[]]]; apply mes_completes_ok; assumption.
  - exact Hinit.
  - split; [exact H2|]. split; [exact H1|]. split; [exact H3|exact H4].
Qed.

(* irresolute [Equal Shares; greedy]: every returned allocation *)
Theorem completion_mes_greedy_irr cs B P tb enum bin sat gtb additive init :
  mes_side cs P enum -> 0 < B -> feasible (mkInst cs B) init ->
  let I := mkInst cs B in
  forall W, In W (completion_rules_irr cs B [mes_rule_irr cs P tb enum bin; greedy_rule_irr cs sat gtb additive] init) ->
  feasible I W /\ incl init W /\ (exists a, In a (mes_rule_irr cs P tb enum bin B init) /\ incl a W) /\ exhaustive I W.
Proof.
  intros Hs HB Hinit I W HW.
  assert (Hc : Forall (fun c => 0 <= c) cs) by apply Hs.
  destruct (completion_rules_irr_sound cs B (mes_rule_irr cs P tb enum bin) [greedy_rule_irr cs sat gtb additive] init)
    with (W := W) as [H1 [H2 H3]].
  - intros r [<-|[<-|[]]]; [apply mes_completes_ok_irr; assumption|apply greedy_completes_ok_irr; exact Hc].
  - exact Hinit.
  - exact HW.
  - split; [exact H2|]. split; [exact H1|]. split; [exact H3|].
    apply (completion_rules_irr_exhaustive cs B [mes_rule_irr cs P tb enum bin] (greedy_rule_irr cs sat gtb additive) init);
      [|exact HW].
    intros a W0. apply (greedy_rule_irr_exhaustive cs sat (fun _ => 0) gtb Hc additive B a W0).
Qed.

Theorem completion_mes_phr_irr cs B P tb enum bin A ptb penum loads init :
  mes_side cs P enum -> NoDup penum -> (forall p, In p penum -> (p < length cs)%nat) ->
  0 < B -> feasible (mkInst cs B) init ->
  let I := mkInst cs B in
  forall W, In W (completion_rules_irr cs B [mes_rule_irr cs P tb enum bin; phr_rule_irr cs A ptb penum loads] init) ->
  feasible I W /\ incl init W /\ exists a, In a (mes_rule_irr cs P tb enum bin B init) /\ incl a W.
Proof.
  intros Hs Hpe Hper HB Hinit I W HW.
  destruct (completion_rules_irr_sound cs B (mes_rule_irr cs P tb enum bin) [phr_rule_irr cs A ptb penum loads] init)
    with (W := W) as [H1 [H2 H3]].
  - intros r [<-|[<-|[]]]; [apply mes_completes_ok_irr; assumption|apply phr_completes_ok_irr; assumption].
  - exact Hinit.
  - exact HW.
  - split; [exact H2|]. split; [exact H1|exact H3].
Qed.

Theorem completion_mes_mes_irr cs B P tb enum bin P' tb' enum' bin' init :
  mes_side cs P enum -> mes_side cs P' enum' -> 0 < B -> feasible (mkInst cs B) init ->
  let I := mkInst cs B in
  forall W, In W (completion_rules_irr cs B [mes_rule_irr cs P tb enum bin; mes_rule_irr cs P' tb' enum' bin'] init) ->
  feasible I W /\ incl init W /\ exists a, In a (mes_rule_irr cs P tb enum bin B init) /\ incl a W.
Proof.
  intros Hs Hs' HB Hinit I W HW.
  destruct (completion_rules_irr_sound cs B (mes_rule_irr cs P tb enum bin) [mes_rule_irr cs P' tb' enum' bin'] init)
    with (W := W) as [H1 [H2 H3]].
  - intros r [<-|[<-|[]]]; apply mes_completes_ok_irr; assumption.
  - exact Hinit.
  - exact HW.
  - split; [exact H2|]. split; [exact H1|exact H3].
Qed.
