(* Proofs/InvarianceGreedyP.v -- C13 for the greedy welfare rule (Model/GreedyRule.v).
   [greedy_sim_*]: two elections whose costs and budget differ by a factor k > 0 and whose satisfactions
   differ by a factor j > 0 (k = j = 1: the same election with the voters listed in another order, j = k:
   cost-proportional measures under scaling, j = 1: cost-independent measures under scaling), with
   tie-breaking keys ordered alike, get the same outcome from both schemes, resolute and irresolute.
   [greedy_enum_indep]: `sorted(...)` makes the candidate lists independent of the iteration order of the
   instance. *)
From PB Require Import Model.GreedyRule Proofs.InvarianceP.
Open Scope Q_scope.

(* ------------------------------------------------------------------------------------------ *)
(* comparisons under a positive factor                                                          *)
(* ------------------------------------------------------------------------------------------ *)
Lemma Qleb_ext a b x y : a == b -> x == y -> Qleb a x = Qleb b y.
Proof.
  intros E F. destruct (Qleb a x) eqn:E1, (Qleb b y) eqn:E2; try reflexivity.
  - apply Qleb_iff in E1. rewrite E, F in E1. apply Qleb_iff in E1. congruence.
  - apply Qleb_iff in E2. rewrite <- E, <- F in E2. apply Qleb_iff in E2. congruence.
Qed.

Lemma Qleb_mul m a b a' b' : 0 < m -> a' == m * a -> b' == m * b -> Qleb a' b' = Qleb a b.
Proof.
  intros Hm Ha Hb. rewrite (Qleb_ext a' (m * a) b' (m * b) Ha Hb). destruct (Qleb a b) eqn:E.
  - apply Qleb_iff. apply Qleb_iff in E. apply Qmult_le_l; assumption.
  - apply Qleb_false_iff. apply Qleb_false_iff in E. apply Qmult_lt_l; assumption.
Qed.

Lemma Qltb_mul m a b a' b' : 0 < m -> a' == m * a -> b' == m * b -> Qltb a' b' = Qltb a b.
Proof. intros Hm Ha Hb. unfold Qltb. f_equal. apply (Qleb_mul m); assumption. Qed.

Definition Qx_mul (m : Q) (a a' : Qx) : Prop :=
  match a, a' with
  | Fin x, Fin x' => x' == m * x
  | PInf, PInf => True
  | _, _ => False
  end.

Lemma Qx_leb_mul m a b a' b' : 0 < m -> Qx_mul m a a' -> Qx_mul m b b' -> Qx_leb a' b' = Qx_leb a b.
Proof.
  intros Hm. destruct a, a', b, b'; simpl; try tauto. apply Qleb_mul. exact Hm.
Qed.

Lemma insert_ext {A} (leb leb' : A -> A -> bool) x l :
  (forall a b, leb a b = leb' a b) -> insert leb x l = insert leb' x l.
Proof. intros H. induction l as [|y t IH]; simpl; [reflexivity|]. rewrite H, IH. reflexivity. Qed.
Lemma isort_ext {A} (leb leb' : A -> A -> bool) l :
  (forall a b, leb a b = leb' a b) -> isort leb l = isort leb' l.
Proof.
  intros H. induction l as [|x t IH]; simpl; [reflexivity|]. rewrite IH. apply insert_ext. exact H.
Qed.

Lemma forallb_ext_in {A} (g h : A -> bool) l : (forall x, In x l -> g x = h x) -> forallb g l = forallb h l.
Proof.
  induction l as [|a l IH]; simpl; intros H; [reflexivity|].
  rewrite (H a (or_introl eq_refl)), IH; [reflexivity|]. intros x Hx. apply H. right. exact Hx.
Qed.

Lemma argmax_all_alike (f g : proj -> Qx) l :
  (forall p q, Qx_leb (f p) (f q) = Qx_leb (g p) (g q)) ->
  argmax_all Qx_leb f l = argmax_all Qx_leb g l.
Proof.
  intros H. rewrite !(argmax_all_filter _ _ Qx_leb) by (try apply Qx_leb_total; apply Qx_leb_trans).
  apply filter_ext. intros x. unfold is_max. apply forallb_ext_in. intros y _. apply H.
Qed.

(* ------------------------------------------------------------------------------------------ *)
(* the simulation                                                                               *)
(* ------------------------------------------------------------------------------------------ *)
Section GreedySim.
Variables (k j : Q) (I I' : inst) (sat sat' : list proj -> Q) (sp sp' tb tb' : proj -> Q).
Hypothesis Hk : 0 < k.
Hypothesis Hj : 0 < j.
Hypothesis Hcost : forall p, cost I' p == k * cost I p.
Hypothesis Hbud : budget I' == k * budget I.
Hypothesis Hn : nproj I' = nproj I.
Hypothesis Hsat : forall W, sat' W == j * sat W.
Hypothesis Hsp : forall p, sp' p == j * sp p.
Hypothesis Htb : forall p q, Qleb (tb p) (tb q) = Qleb (tb' p) (tb' q).

Lemma sim_tcost W : tcost I' W == k * tcost I W.
Proof. unfold tcost. induction W as [|p W IH]; simpl; [ring|]. rewrite IH, Hcost. ring. Qed.

Lemma sim_all : all_projects I' = all_projects I.
Proof. unfold all_projects. rewrite Hn. reflexivity. Qed.

Lemma sim_fits W p : Qleb (tcost I' W + cost I' p) (budget I') = Qleb (tcost I W + cost I p) (budget I).
Proof. apply (Qleb_mul k); [exact Hk| |exact Hbud]. rewrite sim_tcost, Hcost. ring. Qed.

Lemma sim_cost_pos p : Qltb 0 (cost I' p) = Qltb 0 (cost I p).
Proof. apply (Qltb_mul k); [exact Hk|ring|apply Hcost]. Qed.

Lemma jk_pos : 0 < j / k.
Proof. apply Qlt_shift_div_l; [exact Hk|]. rewrite Qmult_0_l. exact Hj. Qed.

Lemma sim_mdens alloc p : Qx_mul (j / k) (mdens I sat alloc p) (mdens I' sat' alloc p).
Proof.
  unfold mdens. rewrite sim_cost_pos. destruct (Qltb 0 (cost I p)) eqn:E; simpl; [|exact Logic.I].
  apply Qltb_iff in E. rewrite !Hsat, Hcost. field. split; intros H0.
  - rewrite H0 in E. apply (Qlt_irrefl 0). exact E.
  - rewrite H0 in Hk. apply (Qlt_irrefl 0). exact Hk.
Qed.

Lemma sim_tied feas alloc : tied_projects I' sat' tb' feas alloc = tied_projects I sat tb feas alloc.
Proof.
  unfold tied_projects.
  rewrite (argmax_all_alike (mdens I' sat' alloc) (mdens I sat alloc)).
  - unfold tie_order. apply isort_ext. intros a b. symmetry. apply Htb.
  - intros p q. apply (Qx_leb_mul (j / k)); [apply jk_pos|apply sim_mdens|apply sim_mdens].
Qed.

Lemma sim_next feas alloc s : next_feasible I' feas alloc s = next_feasible I feas alloc s.
Proof.
  unfold next_feasible. apply filter_ext. intros p. f_equal. apply sim_fits.
Qed.

Lemma sim_leaves resolute : forall fuel feas alloc,
  gen_leaves I' sat' tb' resolute fuel feas alloc = gen_leaves I sat tb resolute fuel feas alloc.
Proof.
  induction fuel as [|f IH]; intros feas alloc; destruct feas as [|a r]; try reflexivity.
  cbn [gen_leaves]. rewrite sim_tied. f_equal. apply map_ext. intros s. rewrite sim_next. apply IH.
Qed.

Lemma sim_initial init : initial_feasible I' init = initial_feasible I init.
Proof.
  unfold initial_feasible. rewrite sim_all. apply filter_ext. intros p. f_equal. apply sim_fits.
Qed.

Theorem greedy_sim_gen_res init : greedy_gen_res I' sat' tb' init = greedy_gen_res I sat tb init.
Proof. unfold greedy_gen_res. rewrite sim_initial, sim_leaves. reflexivity. Qed.

Theorem greedy_sim_gen_irr init : greedy_gen_irr I' sat' tb' init = greedy_gen_irr I sat tb init.
Proof. unfold greedy_gen_irr. rewrite sim_initial, sim_leaves. reflexivity. Qed.

(* additive fast path *)
Lemma sim_sdens p : Qx_mul (j / k) (sdens I sp p) (sdens I' sp' p).
Proof.
  unfold sdens. rewrite sim_cost_pos.
  assert (E : Qltb 0 (sp' p) = Qltb 0 (sp p)) by (apply (Qltb_mul j); [exact Hj|ring|apply Hsp]).
  rewrite E. destruct (Qltb 0 (sp p)); simpl; [|ring].
  destruct (Qltb 0 (cost I p)) eqn:Ec; simpl; [|exact Logic.I].
  apply Qltb_iff in Ec. rewrite Hsp, Hcost. field. split; intros H0.
  - rewrite H0 in Ec. apply (Qlt_irrefl 0). exact Ec.
  - rewrite H0 in Hk. apply (Qlt_irrefl 0). exact Hk.
Qed.

Lemma sim_candidates init : add_candidates I' sp' tb' init = add_candidates I sp tb init.
Proof.
  unfold add_candidates, dens_order. rewrite sim_all.
  assert (Et : forall l, tie_order tb' l = tie_order tb l)
    by (intros l; unfold tie_order; apply isort_ext; intros a b; symmetry; apply Htb).
  rewrite Et. apply isort_ext. intros a b.
  apply (Qx_leb_mul (j / k)); [apply jk_pos|apply sim_sdens|apply sim_sdens].
Qed.

Lemma sim_pass l : forall r r', r' == k * r -> add_pass I' l r' = add_pass I l r.
Proof.
  induction l as [|p l IH]; intros r r' Hr; simpl; [reflexivity|].
  rewrite (Qleb_mul k (cost I p) r (cost I' p) r' Hk (Hcost p) Hr).
  destruct (Qleb (cost I p) r); [f_equal|]; apply IH; [rewrite Hr, Hcost; ring|exact Hr].
Qed.

Theorem greedy_sim_add_res init : greedy_add_res I' sp' tb' init = greedy_add_res I sp tb init.
Proof.
  unfold greedy_add_res. rewrite sim_candidates. f_equal. apply sim_pass.
  rewrite Hbud, sim_tcost. ring.
Qed.

Theorem greedy_sim_welfare_res additive init :
  greedy_welfare_res I' sat' sp' tb' additive init = greedy_welfare_res I sat sp tb additive init.
Proof.
  unfold greedy_welfare_res. destruct additive; [rewrite greedy_sim_add_res; reflexivity|apply greedy_sim_gen_res].
Qed.

Theorem greedy_sim_welfare_irr additive init :
  greedy_welfare_irr I' sat' tb' additive init = greedy_welfare_irr I sat tb additive init.
Proof. unfold greedy_welfare_irr. apply greedy_sim_gen_irr. Qed.
End GreedySim.

(* ------------------------------------------------------------------------------------------ *)
(* M  greedy_perm_voters                                                                        *)
(* ------------------------------------------------------------------------------------------ *)
(* GroupSatisfactionMeasure.total_satisfaction / total_satisfaction_project: the sum over the entries of the
   satisfaction profile of multiplicity * individual satisfaction.  [X] = what is measured (a list of projects,
   a project). *)
Definition group_sat {X} (vs : list (nat * (X -> Q))) (x : X) : Q :=
  Qsum (map (fun v => Qnat (fst v) * snd v x) vs).

Lemma group_sat_perm {X} (vs vs' : list (nat * (X -> Q))) x :
  Permutation vs vs' -> group_sat vs x == group_sat vs' x.
Proof. intros H. unfold group_sat. apply Qsum_perm_proper, Permutation_map. exact H. Qed.

Theorem greedy_perm_voters I (vs vs' : list (nat * (list proj -> Q))) (ws ws' : list (nat * (proj -> Q)))
        tb tb' additive init :
  Permutation vs vs' -> Permutation ws ws' -> (forall p, tb p == tb' p) ->
  greedy_welfare_res I (group_sat vs') (group_sat ws') tb' additive init
  = greedy_welfare_res I (group_sat vs) (group_sat ws) tb additive init
  /\ greedy_welfare_irr I (group_sat vs') tb' additive init
     = greedy_welfare_irr I (group_sat vs) tb additive init.
Proof.
  intros Hv Hw Htb.
  assert (H1 : 0 < 1) by reflexivity.
  split; [apply (greedy_sim_welfare_res 1 1)|apply (greedy_sim_welfare_irr 1 1)]; try exact H1;
    try (intros; ring); try reflexivity;
    try (intros W; rewrite Qmult_1_l; symmetry; apply group_sat_perm; assumption);
    try (intros p q; apply Qleb_ext; apply Htb).
Qed.

(* ------------------------------------------------------------------------------------------ *)
(* M  greedy_scale                                                                              *)
(* ------------------------------------------------------------------------------------------ *)
Theorem greedy_scale k j I sat sat' sp sp' tb tb' additive init :
  0 < k -> 0 < j -> (forall W, sat' W == j * sat W) -> (forall p, sp' p == j * sp p) ->
  (forall p q, Qleb (tb p) (tb q) = Qleb (tb' p) (tb' q)) ->
  greedy_welfare_res (scale_inst k I) sat' sp' tb' additive init = greedy_welfare_res I sat sp tb additive init
  /\ greedy_welfare_irr (scale_inst k I) sat' tb' additive init = greedy_welfare_irr I sat tb additive init.
Proof.
  intros Hk Hj Hsat Hsp Htb.
  split; [apply (greedy_sim_welfare_res k j)|apply (greedy_sim_welfare_irr k j)]; try assumption;
    try (intros p; apply cost_scale); try reflexivity;
    try (unfold nproj, scale_inst; simpl; apply map_length).
Qed.

(* ------------------------------------------------------------------------------------------ *)
(* M  greedy_enum_indep                                                                         *)
(* ------------------------------------------------------------------------------------------ *)
Lemma nat_leb_total_ x y : Nat.leb x y = true \/ Nat.leb y x = true.
Proof. destruct (Nat.leb x y) eqn:E; [left; reflexivity|right]. apply Nat.leb_gt in E. apply Nat.leb_le. lia. Qed.
Lemma nat_leb_trans_ x y z : Nat.leb x y = true -> Nat.leb y z = true -> Nat.leb x z = true.
Proof. rewrite !Nat.leb_le. lia. Qed.

Lemma seq_sorted n : forall a, StronglySorted (lebP Nat.leb) (seq a n).
Proof.
  induction n as [|n IH]; intros a; simpl; constructor; [apply IH|].
  rewrite Forall_forall. intros x Hx. apply in_seq in Hx. unfold lebP. apply Nat.leb_le. lia.
Qed.

Lemma filter_sorted {A} (R : A -> A -> Prop) (g : A -> bool) l :
  StronglySorted R l -> StronglySorted R (filter g l).
Proof.
  induction 1 as [|x t Hs IH Hall]; simpl; [constructor|].
  destruct (g x); [|exact IH]. constructor; [exact IH|].
  rewrite Forall_forall in *. intros y Hy. apply filter_In in Hy. apply Hall. tauto.
Qed.

Lemma name_sort_sorted_id l : StronglySorted (lebP Nat.leb) l -> name_sort l = l.
Proof.
  intros H. apply (sorted_perm_eq (lebP Nat.leb)).
  - unfold lebP. intros x y H1 H2. apply Nat.leb_le in H1, H2. lia.
  - apply isort_sorted; [apply nat_leb_total_|apply nat_leb_trans_].
  - exact H.
  - symmetry. unfold name_sort. apply isort_perm.
Qed.

(* greedywelfare_rule.py: `for p in instance: if ...: feasible.append(p)` then `sorted(feasible)` (general
   scheme) and `sorted(instance)` minus the initial allocation (fast path): whatever order the set is iterated
   in, the lists are the ones the model starts from *)
Theorem greedy_enum_indep I init enum : Permutation enum (all_projects I) ->
  name_sort (filter (fun p => negb (memb p init) && Qleb (tcost I init + cost I p) (budget I)) enum)
  = initial_feasible I init
  /\ filter (fun p => negb (memb p init)) (name_sort enum)
     = filter (fun p => negb (memb p init)) (all_projects I).
Proof.
  intros HP. split.
  - unfold initial_feasible.
    rewrite (name_sort_perm_eq _ _ (Permutation_filter_ _ _ _ HP)).
    apply name_sort_sorted_id, filter_sorted. unfold all_projects. apply seq_sorted.
  - rewrite (name_sort_perm_eq _ _ HP). f_equal. apply name_sort_sorted_id. unfold all_projects. apply seq_sorted.
Qed.
