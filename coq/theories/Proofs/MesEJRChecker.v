(* Proofs/MesEJRChecker.v -- "always pass": the model of the module's checkers (Model/Cohesive.v
   [is_EJR_approval]: is_EJR_any_approval for UpToAny, is_EJR_one_approval for UpToOne, is_EJR_approval
   for Plain) answers True on every Equal Shares outcome.  Combination of Proofs/MesEJRRule.v with
   "checker = definition" (Proofs/JRP.v, is_EJR_approval_iff). *)
From PB Require Import Spec.JR Model.Cohesive Proofs.JRP Proofs.MesEJRRule.
Open Scope Q_scope.

Section Checker.
Variable x : mes_in.
Variable approves : nat -> proj -> bool.
Variable o : mes_out.
Hypothesis Hinit : mi_init x = [].
Hypothesis Hv : wf_voters (mi_voters x).
Hypothesis HB : 0 <= mi_budget x.
Hypothesis Henum_nd : NoDup (mi_enum x).
Hypothesis Henum : forall p, In p (mi_enum x) <-> (p < length (mi_costs x))%nat.
Hypothesis Hmes : mes_outcome x o.

Let voters := class_voters (mi_voters x).

Lemma ej_enum_ok : enum_ok (mi_inst x) (mi_enum x).
Proof. split; [exact Henum_nd|exact Henum]. Qed.

Lemma ej_ut_nonneg pv : (forall p, 0 <= pv p) ->
  ut_approval nat voters approves (mi_ut x) pv -> ut_nonneg nat voters (mi_ut x).
Proof.
  intros Hpv Hut i p Hi. rewrite (Hut i p Hi). destruct (approves i p); [apply Hpv|apply Qle_refl].
Qed.

Theorem mes_cost_passes_EJR_any :
  Forall (fun c => 0 < c) (mi_costs x) ->
  ut_approval nat voters approves (mi_ut x) (cost (mi_inst x)) ->
  is_EJR_approval (mi_inst x) nat voters approves (mi_ut x) (mi_enum x) UpToAny (o_alloc o) = true.
Proof.
  intros Hcs Hut. apply is_EJR_approval_iff; [exact ej_enum_ok| |].
  - apply (ej_ut_nonneg (cost (mi_inst x))); [|exact Hut]. intro p. apply cost_nonneg.
    eapply Forall_impl; [|exact Hcs]. intros c Hc. apply Qlt_le_weak. exact Hc.
  - exact (mes_cost_EJR_any x approves o Hinit Hv HB Henum_nd Henum Hmes Hcs Hut).
Qed.

Theorem mes_card_passes_EJR_one :
  Forall (fun c => 0 <= c) (mi_costs x) ->
  ut_approval nat voters approves (mi_ut x) (fun _ => 1) ->
  is_EJR_approval (mi_inst x) nat voters approves (mi_ut x) (mi_enum x) UpToOne (o_alloc o) = true /\
  is_EJR_approval (mi_inst x) nat voters approves (mi_ut x) (mi_enum x) Plain (o_alloc o) = true.
Proof.
  intros Hcs Hut.
  assert (Hnn : ut_nonneg nat voters (mi_ut x)).
  { apply (ej_ut_nonneg (fun _ => 1)); [|exact Hut]. intros _. discriminate. }
  split; apply is_EJR_approval_iff; try exact ej_enum_ok; try exact Hnn.
  - exact (mes_card_EJR_one x approves o Hinit Hv HB Henum_nd Henum Hmes Hcs Hut).
  - exact (mes_card_EJR x approves o Hinit Hv HB Henum_nd Henum Hmes Hcs Hut).
Qed.

End Checker.
