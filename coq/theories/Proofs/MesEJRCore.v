(* Proofs/MesEJRCore.v -- the price-system argument behind the proportionality guarantees of the
   Method of Equal Shares (Peters-Pierczynski-Skowron 2021, Thm "EJR up to one project"), on the
   DECLARATIVE rule of Spec/MesSpec.v ([spec_run]), for arbitrary additive utilities and multiplicities.

   Setting: a group S of voter classes that all support a project [pstar] which is a candidate of the
   run but is never bought; a money threshold [theta] such that the members of S, holding theta each,
   cover the cost of pstar.  As long as every member of S holds at least theta, pstar is affordable and
   its least price-per-utility is at most the one at which S alone pays for it; the rule buys at the
   least price-per-utility of all candidates, so every purchase made in such a state is at least as
   cheap per unit of utility.  [w i q] is any bound on what member i pays for project q in such a state.
   Since pstar is never bought and the rule only stops when nothing is affordable, some member of S
   must drop below theta, and the first one to do so has paid more than (her money - theta), all of it
   in purchases bounded by w:

     ejr_core :  exists i in S,  b_i - theta  <  sum over the purchases q of  w i q.

   The instances for Cost_Sat and Cardinality_Sat are in Proofs/MesEJR.v. *)
From PB Require Export Proofs.MesSpecExec.
Open Scope Q_scope.

(* ---------- generic sums ---------- *)

Lemma ej_sum_le {A} (f g : A -> Q) l :
  (forall x, In x l -> f x <= g x) -> Qsum (map f l) <= Qsum (map g l).
Proof.
  induction l as [|x t IH]; intros H; simpl; [apply Qle_refl|].
  apply Qplus_le_compat; [apply H; left; reflexivity|].
  apply IH. intros y Hy. apply H. right. exact Hy.
Qed.

Lemma ej_sum_nonneg {A} (f : A -> Q) l : (forall x, In x l -> 0 <= f x) -> 0 <= Qsum (map f l).
Proof.
  induction l as [|x t IH]; intros H; simpl; [apply Qle_refl|].
  assert (0 <= f x) by (apply H; left; reflexivity).
  assert (0 <= Qsum (map f t)) by (apply IH; intros y Hy; apply H; right; exact Hy). lra.
Qed.

Lemma ej_sum_perm {A} (f : A -> Q) l l' : Permutation l l' -> Qsum (map f l) == Qsum (map f l').
Proof. intros H. apply Qsum_perm_proper. apply Permutation_map. exact H. Qed.

(* a duplicate-free sub-collection sums to at most the whole (non-negative terms) *)
Lemma ej_sum_incl_le {A} (f : A -> Q) (T : list A) : forall W,
  NoDup T -> (forall p, In p T -> In p W) -> (forall p, In p W -> 0 <= f p) ->
  Qsum (map f T) <= Qsum (map f W).
Proof.
  induction T as [|p T IH]; intros W Hnd Hincl Hnn; simpl.
  - apply ej_sum_nonneg. exact Hnn.
  - inversion Hnd as [|q l Hp HT]; subst.
    assert (Hin : In p W) by (apply Hincl; left; reflexivity).
    destruct (in_split _ _ Hin) as [W1 [W2 ->]].
    assert (HP : Permutation (W1 ++ p :: W2) (p :: W1 ++ W2))
      by (symmetry; apply Permutation_middle).
    rewrite (ej_sum_perm f _ _ HP). simpl.
    apply Qplus_le_compat; [apply Qle_refl|].
    apply IH; [exact HT| |].
    + intros q Hq. assert (Hq' : In q (W1 ++ p :: W2)) by (apply Hincl; right; exact Hq).
      rewrite in_app_iff in *. simpl in Hq'. destruct Hq' as [H|[H|H]]; auto.
      subst. contradiction.
    + intros q Hq. apply Hnn. rewrite in_app_iff in *. simpl. tauto.
Qed.

(* the members of a duplicate-free sub-collection S of L hold at least theta of a quantity g that is
   non-negative on L: the weighted total over L is at least the weighted theta over S *)
Lemma ej_group_sum (m g : nat -> Q) (S L : list nat) theta :
  NoDup S -> (forall i, In i S -> In i L) ->
  (forall i, In i L -> 0 <= m i) -> (forall i, In i L -> 0 <= g i) ->
  (forall j, In j S -> theta <= g j) ->
  Qsum (map (fun i => m i * theta) S) <= Qsum (map (fun i => m i * g i) L).
Proof.
  intros Hnd Hincl Hm Hg Hth.
  apply Qle_trans with (Qsum (map (fun i => m i * g i) S)).
  - apply ej_sum_le. intros i Hi.
    pose proof (Hm i (Hincl i Hi)). pose proof (Hth i Hi). nra.
  - apply ej_sum_incl_le; [exact Hnd|exact Hincl|].
    intros i Hi. pose proof (Hm i Hi). pose proof (Hg i Hi). nra.
Qed.

(* ---------- one textbook round keeps the money well-formed ---------- *)

Lemma ej_supp_spec P p i : In i (s_supporters P p) <-> (i < length P)%nat /\ 0 < s_util P i p.
Proof. exact (supporters_spec P p i). Qed.

Lemma ej_buy_wf P b rho p b' :
  wf_buds P b -> (forall i, s_bud b' i == s_bud (charge P b rho p) i) -> length b' = length b ->
  wf_buds P b'.
Proof.
  intros [Hl Hn] E L. split; [congruence|].
  rewrite Forall_forall. intros y Hy. apply (In_nth _ _ 0) in Hy. destruct Hy as [i [Hi <-]].
  change (0 <= s_bud b' i). rewrite (E i), charge_nth.
  rewrite L in Hi. apply Nat.ltb_lt in Hi. rewrite Hi.
  assert (Hb : 0 <= s_bud b i) by (apply (vbud_nonneg P b i); split; assumption).
  destruct (Qltb 0 (s_util P i p)); [|exact Hb].
  pose proof (Q.le_min_l (s_bud b i) (rho * s_util P i p)). lra.
Qed.

(* ---------- a group whose members hold theta each ---------- *)

Section Group.
Variable cs : list Q.
Variable P : list vcls.
Hypothesis Hv : wf_voters P.
Variable S : list nat.
Variable theta : Q.
Hypothesis HSnd : NoDup S.

Lemma ej_mul_nonneg i : (i < length P)%nat -> 0 <= s_mul P i.
Proof. intro Hi. apply Qlt_le_weak. exact (vmulQ_pos P i Hv Hi). Qed.

(* the group can afford p *)
Lemma ej_group_affordable b p :
  wf_buds P b -> (forall i, In i S -> In i (s_supporters P p)) ->
  s_cost cs p <= Qsum (map (fun i => s_mul P i * theta) S) ->
  (forall j, In j S -> theta <= s_bud b j) -> affordable cs P b p.
Proof.
  intros Hb Hsup Hc Hth. unfold affordable, supp_money.
  eapply Qle_trans; [exact Hc|].
  apply (ej_group_sum (s_mul P) (s_bud b) S (s_supporters P p) theta HSnd Hsup).
  - intros i Hi. apply ej_supp_spec in Hi. apply ej_mul_nonneg. tauto.
  - intros i _. apply (vbud_nonneg P b i Hb).
  - exact Hth.
Qed.

(* at a price-per-utility r at which every member can and does contribute theta, p is covered *)
Lemma ej_group_paid b p r :
  wf_buds P b -> (forall i, In i S -> In i (s_supporters P p)) ->
  s_cost cs p <= Qsum (map (fun i => s_mul P i * theta) S) ->
  0 <= r ->
  (forall j, In j S -> theta <= s_bud b j) -> (forall j, In j S -> theta <= r * s_util P j p) ->
  s_cost cs p <= paid P b r p.
Proof.
  intros Hb Hsup Hc Hr Hth Hru. unfold paid.
  eapply Qle_trans; [exact Hc|].
  apply (ej_group_sum (s_mul P) (fun i => Qmin (s_bud b i) (r * s_util P i p)) S (s_supporters P p) theta HSnd Hsup).
  - intros i Hi. apply ej_supp_spec in Hi. apply ej_mul_nonneg. tauto.
  - intros i Hi. apply ej_supp_spec in Hi. destruct Hi as [_ Hu].
    apply Q.min_glb; [apply (vbud_nonneg P b i Hb)|nra].
  - intros j Hj. apply Q.min_glb; [apply Hth; exact Hj|apply Hru; exact Hj].
Qed.

End Group.

(* ---------- the core ---------- *)

Section Core.
Variable cs : list Q.
Variable P : list vcls.
Variable tb : proj -> Q.
Hypothesis Hv : wf_voters P.

Variable S : list nat.          (* the group: indices of voter classes *)
Variable pstar : proj.          (* a project all of S support, never bought *)
Variable theta : Q.             (* what each member would have to hold for S to buy pstar alone *)
Variable w : nat -> proj -> Q.  (* bound on a member's payment for a project *)

Hypothesis HSnd : NoDup S.
Hypothesis HSsup : forall i, In i S -> In i (s_supporters P pstar).
Hypothesis Htheta : s_cost cs pstar <= Qsum (map (fun i => s_mul P i * theta) S).
Hypothesis Hw0 : forall i q, In i S -> 0 <= w i q.
(* in a state in which every member holds theta, a purchase (q at its least price-per-utility r) that
   is at least as cheap per utility as every price covering pstar costs member i at most w i q *)
Hypothesis Hw : forall b q r i,
  wf_buds P b -> (forall j, In j S -> theta <= s_bud b j) ->
  0 < s_cost cs q -> is_rho cs P b q r ->
  (forall r', s_cost cs pstar <= paid P b r' pstar -> r <= r') ->
  In i S -> 0 < s_util P i q ->
  Qmin (s_bud b i) (r * s_util P i q) <= w i q.

Lemma ej_all_or_some (b : list Q) : forall l : list nat,
  (forall j, In j l -> theta <= s_bud b j) \/ (exists j, In j l /\ s_bud b j < theta).
Proof.
  induction l as [|x t IH]; [left; intros j []|].
  destruct IH as [IH|[j [Hj Hlt]]]; [|right; exists j; split; [right; exact Hj|exact Hlt]].
  destruct (Qlt_le_dec (s_bud b x) theta) as [Hlt|Hle].
  - right. exists x. split; [left; reflexivity|exact Hlt].
  - left. intros j [<-|Hj]; [exact Hle|apply IH; exact Hj].
Qed.

Theorem ejr_core : forall b rem W, spec_run cs P tb b rem W ->
  wf_buds P b -> (forall p, In p rem -> 0 < s_cost cs p) ->
  In pstar rem -> ~ In pstar W -> (forall j, In j S -> theta <= s_bud b j) ->
  exists i, In i S /\ s_bud b i - theta < Qsum (map (w i) W).
Proof.
  induction 1 as [b rem Hst|b rem p rho b' W Hround Hb' Hl Hrun IH]; intros Hb Hpos Hin Hnot Hth.
  - exfalso. apply (Hst pstar Hin).
    apply (ej_group_affordable cs P Hv S theta HSnd b pstar Hb HSsup Htheta Hth).
  - assert (Hne : pstar <> p) by (intro E; apply Hnot; left; symmetry; exact E).
    assert (Hnot' : ~ In pstar W) by (intro H; apply Hnot; right; exact H).
    assert (Hwf' : wf_buds P b') by (apply (ej_buy_wf P b rho p b' Hb Hb' Hl)).
    assert (Hin' : In pstar (filter (fun q => negb (Nat.eqb q p)) rem)).
    { apply filter_In. split; [exact Hin|]. apply negb_true_iff. apply Nat.eqb_neq. exact Hne. }
    assert (Hpos' : forall q, In q (filter (fun q => negb (Nat.eqb q p)) rem) -> 0 < s_cost cs q).
    { intros q Hq. apply filter_In in Hq. apply Hpos. tauto. }
    destruct Hround as [Hp [Hpa [Hpr [Hmin _]]]].
    (* pstar is affordable and has a least price-per-utility, which bounds rho *)
    assert (Haff : affordable cs P b pstar)
      by (apply (ej_group_affordable cs P Hv S theta HSnd b pstar Hb HSsup Htheta Hth)).
    destruct (rho_interp_is_rho cs P b pstar Hv Hb (Hpos pstar Hin) Haff) as [rs [_ Hrs]].
    assert (Hrho : forall r', s_cost cs pstar <= paid P b r' pstar -> rho <= r').
    { intros r' Hr'. apply Qle_trans with rs; [apply (Hmin pstar rs Hin Haff Hrs)|].
      destruct Hrs as [_ Hleast]. apply Hleast. exact Hr'. }
    (* what a member pays in this round *)
    assert (Hpay : forall i, In i S -> s_bud b i - s_bud b' i <= w i p).
    { intros i Hi. pose proof (HSsup i Hi) as Hs. apply ej_supp_spec in Hs. destruct Hs as [HiP _].
      rewrite (Hb' i), charge_nth. destruct Hb as [HlenB HnnB].
      assert (Hlt : Nat.ltb i (length b) = true) by (apply Nat.ltb_lt; rewrite HlenB; exact HiP).
      rewrite Hlt. destruct (Qltb 0 (s_util P i p)) eqn:Eu.
      - apply Qltb_iff in Eu.
        pose proof (Hw b p rho i (conj HlenB HnnB) Hth (Hpos p Hp) Hpr Hrho Hi Eu). lra.
      - pose proof (Hw0 i p Hi). lra. }
    destruct (ej_all_or_some b' S) as [Hall|[j [Hj Hlt]]].
    + destruct (IH Hwf' Hpos' Hin' Hnot' Hall) as [i [Hi Hlt]].
      exists i. split; [exact Hi|]. simpl. pose proof (Hpay i Hi). lra.
    + exists j. split; [exact Hj|]. simpl. pose proof (Hpay j Hj).
      assert (0 <= Qsum (map (w j) W)) by (apply ej_sum_nonneg; intros q _; apply Hw0; exact Hj).
      lra.
Qed.

End Core.
