(* Proofs/PriceabilityRelaxP.v -- the relaxations of stable priceability (priceability_relaxation.py):
   what the general theorems of PriceabilityP.v say for relaxation = Some R, plus neutrality, monotonicity
   in beta, and the certified lower bound on the objective of the relaxed MIP. *)
From PB Require Import Model.Priceability Proofs.PriceabilityP.
Open Scope Q_scope.

(* ---------- the relaxed cost ---------- *)

Lemma beta_at_nil c : beta_at [] c = 0.
Proof. unfold beta_at. destruct c; reflexivity. Qed.

Lemma relaxed_cost_neutral I k c : relaxed_cost I (relax_neutral k) c == cost I c.
Proof. destruct k; simpl; rewrite ?beta_at_nil; ring. Qed.

Lemma relaxed_cost_mono I R R' c :
  0 <= cost I c -> relax_le R R' -> relaxed_cost I R c <= relaxed_cost I R' c.
Proof.
  intros Hc H. destruct R, R'; simpl in H; try contradiction; simpl.
  - nra.
  - lra.
  - specialize (H c). lra.
  - specialize (H c). lra.
  - destruct H as [Hg H]. specialize (H c). lra.
Qed.

(* the stability condition, hence the price system, is monotone in the right-hand side *)
Lemma price_system_g_mono I A W b pay rc rc' stable exh :
  (forall c, (c < nproj I)%nat -> rc c <= rc' c) ->
  price_system_g I A W b pay rc stable exh -> price_system_g I A W b pay rc' stable exh.
Proof.
  intros Hle (H0a & H0b & HP0 & HC1 & HC2 & HC3 & HC4 & HC5).
  refine (conj H0a (conj H0b (conj HP0 (conj HC1 (conj HC2 (conj HC3 (conj HC4 _))))))).
  destruct stable; [|exact HC5]. intros c Hc Hn. specialize (HC5 c Hc Hn). specialize (Hle c Hc). lra.
Qed.

(* beta = 1 (MinMul) / beta = 0 (MinAdd, the vectors, the offset): exactly stable priceability *)
Theorem relax_neutral_iff I A W b pay k exh :
  relaxed_price_system I A W b pay (relax_neutral k) exh <-> price_system I A W b pay true exh.
Proof.
  unfold relaxed_price_system. split; apply price_system_g_mono; intros c _;
    rewrite relaxed_cost_neutral; apply Qle_refl.
Qed.

(* a price system valid for beta is valid for every beta' >= beta (pointwise for the vectors):
   the set of feasible parameters is upward closed *)
Theorem relax_monotone I A W b pay R R' exh :
  Forall (fun c => 0 <= c) (costs I) -> relax_le R R' ->
  relaxed_price_system I A W b pay R exh -> relaxed_price_system I A W b pay R' exh.
Proof.
  intros Hc Hle. apply price_system_g_mono. intros c _.
  apply relaxed_cost_mono; [apply cost_nonneg; exact Hc|exact Hle].
Qed.

(* in particular a stable-priceable allocation is relaxed-priceable for every parameter above the neutral one *)
Corollary stable_is_relaxed I A W b pay R exh :
  Forall (fun c => 0 <= c) (costs I) -> relax_le (relax_neutral (kind_of R)) R ->
  price_system I A W b pay true exh -> relaxed_price_system I A W b pay R exh.
Proof.
  intros Hc Hle Hps. apply (relax_monotone I A W b pay _ R exh Hc Hle). apply relax_neutral_iff. exact Hps.
Qed.

(* ---------- the validator with relaxation=R ---------- *)

Theorem validate_relaxed_complete I A W b P R exh :
  relaxed_price_system I A W b (pay_of P) R exh ->
  validate_ps_g I A W b P true exh (Some R) = true.
Proof. exact (validate_complete_g I A W b P true exh (Some R)). Qed.

Theorem validate_relaxed_sound_tol I A W b P R exh :
  validate_ps_g I A W b P true exh (Some R) = true ->
  price_system_g_tol I A W b (pay_of P) (relaxed_cost I R) (1 # 100) true exh.
Proof. exact (validate_sound_tol_g I A W b P true exh (Some R)). Qed.

Theorem validate_relaxed_sound_margin I A W b P R exh :
  ~ price_system_g_tol I A W b (pay_of P) (relaxed_cost I R) (1 # 100) true exh ->
  validate_ps_g I A W b P true exh (Some R) = false.
Proof. exact (validate_sound_margin_g I A W b P true exh (Some R)). Qed.

(* with stable=False the validator ignores the relaxation altogether *)
Theorem validate_plain_ignores_relaxation I A W b P exh rel :
  validate_ps_g I A W b P false exh rel = validate_ps I A W b P false exh.
Proof. reflexivity. Qed.

(* the validator's verdict is monotone in beta as well *)
Theorem relaxed_witness_checker_sound I A W b P R exh :
  check_witness_g I A W b P true exh (Some R) = true ->
  feasible I W /\ relaxed_price_system I A W b (pay_of P) R exh.
Proof. exact (witness_checker_g_sound I A W b P true exh (Some R)). Qed.

Theorem relaxed_witness_checker_complete I A W b P R exh :
  wf_alloc I W -> relaxed_price_system I A W b (pay_of P) R exh ->
  check_witness_g I A W b P true exh (Some R) = true.
Proof. exact (witness_checker_g_complete I A W b P true exh (Some R)). Qed.

(* ---------- the MIP with a relaxation ---------- *)

Theorem encoding_relaxed_sound I A alloc exh R a :
  ps_constraints_g I A alloc true exh (Some R) a = true -> binary I a ->
  feasible I (alloc_of I a)
  /\ relaxed_price_system I A (alloc_of I a) (a_b a) (pv a) R exh
  /\ (forall W0, alloc = Some W0 -> forall c, (c < nproj I)%nat -> (In c (alloc_of I a) <-> In c W0))
  /\ (alloc = None -> exh = false -> budget I <= a_b a * Qnat (length A))
  /\ relax_range I A (alloc_of I a) (a_b a) (pv a) R.
Proof.
  intros H Hbin.
  destruct (encoding_sound_g I A alloc true exh (Some R) a H Hbin) as (H1 & H2 & H3 & H4 & H5).
  exact (conj H1 (conj H2 (conj H3 (conj H4 (H5 R eq_refl eq_refl))))).
Qed.

(* every solution of the relaxed MIP is accepted by the relaxed validator (exact arithmetic) *)
Corollary relaxed_solution_validates I A alloc exh R a :
  ps_constraints_g I A alloc true exh (Some R) a = true -> binary I a ->
  validate_ps_g I A (alloc_of I a) (a_b a) (a_p a) true exh (Some R) = true.
Proof.
  intros H Hbin. apply validate_relaxed_complete.
  destruct (encoding_relaxed_sound I A alloc exh R a H Hbin) as (_ & Hps & _). exact Hps.
Qed.

(* completeness: a relaxed price system whose parameters lie in the ranges the rows impose (relax_range)
   extends to a solution, under the integrality / budget >= 1 side conditions of the unrelaxed theorem *)
Theorem encoding_relaxed_complete I A W b pay R exh alloc :
  Forall (fun c => 0 <= c) (costs I) -> integral (budget I) -> Forall integral (costs I) ->
  1 <= budget I -> (0 < length A)%nat -> wf_alloc I W ->
  relaxed_price_system I A W b pay R exh ->
  relax_range I A W b pay R ->
  alloc = None \/ alloc = Some W ->
  (alloc = None -> exh = false -> budget I <= b * Qnat (length A)) ->
  let a := asg_of I A W b pay true in
  ps_constraints_g I A alloc true exh (Some R) a = true /\ binary I a
  /\ (forall c, (c < nproj I)%nat -> (In c (alloc_of I a) <-> In c W)).
Proof.
  intros Hcost HBi Hci HB1 Hn Hwf Hps Hrange Halloc Hlb.
  pose proof (budget_nonneg_of_ps I A W b pay _ true exh Hn Hps) as Hb.
  apply (encoding_complete_g I A W b pay true exh alloc (Some R) Hcost Hwf Hps Hb Halloc).
  - intros He. split; [exact HB1|]. destruct Hps as (_ & H0b & _).
    apply exhaustive_gap; [exact HBi|exact Hci|apply H0b; exact He].
  - exact Hlb.
  - discriminate.
  - intros R' [= <-]. split; [reflexivity|exact Hrange].
Qed.

(* when do the stability rows of the SELECTED projects (big-M slack relax_INF) not bite: as soon as
   n * b <= relaxed cost + relax_INF for every selected project *)
Lemma claim_le_budget I A b pay i :
  P0 I A pay -> C2 I A b pay -> 0 <= b -> (i < length A)%nat -> stable_claim I b pay i <= b.
Proof.
  intros HP0 HC2 Hb Hi. unfold stable_claim. apply Q.max_lub.
  - apply maxpay_le; [exact Hb|]. intros c Hc.
    eapply Qle_trans; [|apply HC2; exact Hi]. unfold spent.
    apply (Qsum_map_ge_term (pay i)).
    + intros c' Hc'. apply HP0; [exact Hi|apply in_all_projects; exact Hc'].
    + apply in_all_projects. exact Hc.
  - unfold leftover. pose proof (spent_nonneg I A pay i HP0 Hi). lra.
Qed.

Lemma selected_rows_slack I A W b pay R exh :
  relaxed_price_system I A W b pay R exh -> 0 <= b ->
  (forall c, In c W -> Qnat (length A) * b <= relaxed_cost I R c + relax_INF I) ->
  forall c, In c W ->
    Qsum (map (stable_claim I b pay) (supporters A c)) <= relaxed_cost I R c + relax_INF I.
Proof.
  intros (_ & _ & HP0 & _ & HC2 & _) Hb H c Hc.
  eapply Qle_trans; [|apply (H c Hc)].
  eapply Qle_trans; [apply (Qsum_map_bound (stable_claim I b pay) (supporters A c) b)|].
  - intros i Hi. apply in_supporters in Hi. apply (claim_le_budget I A b pay i HP0 HC2 Hb). tauto.
  - apply Qmult_le_compat_r; [|exact Hb]. apply Qnat_le.
    unfold supporters. eapply Nat.le_trans; [apply filter_len_le|].
    unfold voters. rewrite seq_length. apply Nat.le_refl.
Qed.

(* MinAdd: the rows of the MIP cut off only betas below (n - 10) * budget (and below -10 * budget):
   with b <= budget, any beta >= (n - RELAX_INF_FACTOR) * budget is within range *)
Theorem minadd_range I A W b pay g exh :
  Forall (fun c => 0 <= c) (costs I) ->
  relaxed_price_system I A W b pay (RAdd g) exh -> 0 <= b -> b <= budget I ->
  (Qnat (length A) - RELAX_INF_FACTOR) * budget I <= g -> - relax_INF I <= g ->
  relax_range I A W b pay (RAdd g).
Proof.
  intros Hcost Hps Hb HbB Hg Hlo. split; [|exact Hlo].
  apply (selected_rows_slack I A W b pay (RAdd g) exh Hps Hb).
  intros c _. simpl. unfold relax_INF in *. pose proof (cost_nonneg I c Hcost).
  pose proof (Qnat_nonneg (length A)). nra.
Qed.

(* lowering the voter budget keeps a relaxed price system *)
Theorem relaxed_ps_shrink I A W b pay R exh b' :
  relaxed_price_system I A W b pay R exh -> b' <= b ->
  (forall i, (i < length A)%nat -> spent I pay i <= b') ->
  relaxed_price_system I A W b' pay R exh.
Proof. exact (ps_shrink_g I A W b pay (relaxed_cost I R) true exh b'). Qed.

(* ---------- the certified lower bound on the objective of the relaxed MIP ---------- *)

Definition canonical (I : inst) (W : list proj) : Prop :=
  W = filter (fun c => memb c W) (all_projects I).

Lemma alloc_of_canonical I a W :
  canonical I W -> (forall c, (c < nproj I)%nat -> (In c (alloc_of I a) <-> In c W)) -> alloc_of I a = W.
Proof.
  intros Hcan H. rewrite Hcan. unfold alloc_of. apply filter_ext_in. intros c Hc.
  apply in_all_projects in Hc. specialize (H c Hc). rewrite in_alloc_of in H.
  destruct (memb c W) eqn:Em.
  - apply memb_In in Em. apply H in Em. tauto.
  - apply memb_false_In in Em. destruct (Qleb (99 # 100) (xv a c)) eqn:E; [|reflexivity].
    exfalso. apply Em. apply H. tauto.
Qed.

Lemma alloc_of_sublist I a : sublist (alloc_of I a) (all_projects I).
Proof.
  unfold alloc_of. induction (all_projects I) as [|c l IH]; simpl; [constructor|].
  destruct (Qleb (99 # 100) (xv a c)); constructor; exact IH.
Qed.

(* given allocation: an accepted certificate bounds the objective of every solution of the MIP from below *)
Theorem mip_objective_lower_bound_given I A W exh R t ys a :
  canonical I W ->
  check_objective_lower I A W exh false (kind_of R) t ys = true ->
  ps_constraints_g I A (Some W) true exh (Some R) a = true -> binary I a ->
  t < relax_objective I R.
Proof.
  intros Hcan Hchk Ha Hbin.
  destruct (encoding_relaxed_sound I A (Some W) exh R a Ha Hbin) as (_ & Hps & Heq & _ & Hrange).
  rewrite (alloc_of_canonical I a W Hcan (Heq W eq_refl)) in *.
  apply Qnot_le_lt. intros Hle.
  apply (check_objective_lower_sound I A W exh false (kind_of R) t ys Hchk).
  exists (a_b a), (pv a), R. refine (conj eq_refl (conj Hps (conj _ (conj Hrange Hle)))). discriminate.
Qed.

(* searched allocation: one certificate per subset (the "no empty allocation" row is present exactly when
   the call is non-exhaustive) *)
Theorem mip_objective_lower_bound_searched I A exh R t a :
  (forall W, In W (powerset (all_projects I)) ->
     exists ys, check_objective_lower I A W exh (negb exh) (kind_of R) t ys = true) ->
  ps_constraints_g I A None true exh (Some R) a = true -> binary I a ->
  t < relax_objective I R.
Proof.
  intros Hall Ha Hbin.
  destruct (encoding_relaxed_sound I A None exh R a Ha Hbin) as (_ & Hps & _ & Hlb & Hrange).
  destruct (Hall (alloc_of I a)) as [ys Hchk].
  { apply powerset_spec. apply alloc_of_sublist. }
  apply Qnot_le_lt. intros Hle.
  apply (check_objective_lower_sound I A _ exh (negb exh) (kind_of R) t ys Hchk).
  exists (a_b a), (pv a), R. refine (conj eq_refl (conj Hps (conj _ (conj Hrange Hle)))).
  intros He. apply negb_true_iff in He. specialize (Hlb eq_refl He).
  rewrite Qmult_comm. exact Hlb.
Qed.
