(* Proofs/MesFinal.v -- C07 trace_final_unaffordable: when a run of the Equal Shares model stops,
   no supported positive-cost candidate outside the allocation can be paid by its supporters, and
   the pool is empty (o_left = []).
   Reasons: the scan that ends a run found nothing, and an affordable project always yields a
   candidate (the sweep never fails on an affordable project: eval_rho_spec); projects removed in
   earlier rounds stay unaffordable because budgets only decrease. *)
From PB Require Export Proofs.MesFeasible.
Open Scope Q_scope.

(* money of the supporters of project p (by identifier: independent of the MESProject record) *)
Definition smoney (P : list vcls) (buds : list Q) (p : proj) : Q :=
  Qsum (map (fun i => vmulQ P i * vbud buds i) (supporters P p)).

Lemma avail_smoney P cs buds mp : wf_mp P cs mp -> avail P buds mp == smoney P buds (mp_id mp).
Proof. intros [HP _]. unfold avail, smoney. apply Qsum_perm_proper. apply Permutation_map. exact HP. Qed.

Lemma wf_mp_cost P cs mp : wf_mp P cs mp -> mp_cost mp = nth (mp_id mp) cs 0.
Proof. intros [_ [_ [E _]]]. exact E. Qed.

Lemma unaff_iff P cs buds mp : wf_mp P cs mp ->
  Qltb (avail P buds mp) (mp_cost mp) = true <-> smoney P buds (mp_id mp) < nth (mp_id mp) cs 0.
Proof.
  intro Hw. rewrite Qltb_iff, (avail_smoney P cs buds mp Hw), (wf_mp_cost P cs mp Hw). tauto.
Qed.

Lemma Qsum_map_le {A} (f g : A -> Q) l : (forall x, In x l -> f x <= g x) -> Qsum (map f l) <= Qsum (map g l).
Proof.
  induction l as [|x r IH]; intros H; simpl; [lra|].
  pose proof (H x (or_introl eq_refl)). assert (Qsum (map f r) <= Qsum (map g r)) by (apply IH; intros y Hy; apply H; right; exact Hy).
  lra.
Qed.

Lemma smoney_mono P b b' p :
  (forall i, (i < length P)%nat -> vbud b' i <= vbud b i) -> smoney P b' p <= smoney P b p.
Proof.
  intro H. unfold smoney. apply Qsum_map_le. intros i Hi. apply supporters_spec in Hi. destruct Hi as [Hi _].
  specialize (H i Hi). pose proof (Qnat_nonneg (vmul (nth i P dummy_voter))). unfold vmulQ. nra.
Qed.

Lemma tied_round_ok P cs buds rho sel :
  wf_buds P buds -> tied_ok P cs buds (Fin rho) sel ->
  round_ok P cs (mkRound (mp_id sel) rho buds (pay P sel rho buds)).
Proof.
  intros Hb [Hw [rho' [E [Hpos Hpaid]]]]. injection E as <-.
  split; [exact Hb|]. exists sel. simpl.
  split; [exact Hw|]. split; [reflexivity|]. split; [exact Hpos|]. split; [reflexivity|exact Hpaid].
Qed.

(* ---------- what the scan does to the pool ---------- *)

(* a project dropped by the scan is unaffordable at the current budgets *)
Lemma scan_removed P cs buds : forall l best tied id,
  Forall (wf_mp P cs) l -> In (id, None) (snd (scan P buds l best tied)) -> smoney P buds id < nth id cs 0.
Proof.
  induction l as [|mp r IH]; intros best tied id Hl Hin; [destruct Hin|].
  inversion Hl as [|? ? Hw Hr]; subst. rewrite scan_step in Hin.
  destruct (Qltb (avail P buds mp) (mp_cost mp)) eqn:Ea.
  - simpl in Hin. destruct Hin as [E|Hin]; [|apply (IH _ _ _ Hr Hin)].
    injection E as <-. apply (unaff_iff P cs buds mp Hw). exact Ea.
  - destruct (Qx_ltb best (Fin (mp_aff mp))); [destruct Hin|].
    destruct (eval_rho P buds mp (sorted_sup P buds mp)) as [a0|]; simpl in Hin;
      (destruct Hin as [E|Hin]; [discriminate E|apply (IH _ _ _ Hr Hin)]).
Qed.

Lemma lookup_not_In id res : ~ In id (map fst res) -> lookup id res = None.
Proof.
  induction res as [|[k v] r IH]; simpl; [reflexivity|]. intro H.
  destruct (Nat.eqb k id) eqn:E; [apply Nat.eqb_eq in E; subst; tauto|]. apply IH. tauto.
Qed.

(* every project of the pool survives the round (same identifier) or is unaffordable now *)
Lemma round_scan_keeps P cs buds projects best tied projects' :
  Forall (wf_mp P cs) projects -> round_scan P buds projects = (best, tied, projects') ->
  forall p, In p (ids projects) -> In p (ids projects') \/ smoney P buds p < nth p cs 0.
Proof.
  intros Hp Hrs p Hin. unfold round_scan in Hrs.
  assert (Hs : Forall (wf_mp P cs) (isort aff_leb projects)).
  { apply (perm_Forall _ projects); [apply isort_perm|exact Hp]. }
  pose proof (scan_removed P cs buds (isort aff_leb projects) PInf [] p Hs) as Hrem.
  destruct (scan_ids P buds (isort aff_leb projects) PInf []) as [_ Hids].
  destruct (scan P buds (isort aff_leb projects) PInf []) as [[b t] res]. simpl in *.
  injection Hrs as _ _ <-.
  unfold ids in Hin. apply in_map_iff in Hin. destruct Hin as [mp [<- Hmp]].
  destruct (lookup (mp_id mp) res) as [[m|]|] eqn:E.
  - left. unfold ids. apply in_map_iff. exists m. split.
    + apply Hids. apply lookup_In. exact E.
    + unfold patch. apply in_flat_map. exists mp. split; [exact Hmp|]. rewrite E. left. reflexivity.
  - right. apply Hrem. apply lookup_In. exact E.
  - left. unfold ids. apply in_map_iff. exists mp. split; [reflexivity|].
    unfold patch. apply in_flat_map. exists mp. split; [exact Hmp|]. rewrite E. left. reflexivity.
Qed.

(* ---------- the scan that finds nothing ---------- *)

Definition found (best : Qx) (tied : list mproj) : Prop := (exists r, best = Fin r) /\ tied <> [].

Lemma upd_found best tied a mp' : found best tied -> found (upd_best best a) (upd_tied best tied a mp').
Proof.
  intros [[r ->] Ht]. unfold upd_best, upd_tied.
  destruct (Qx_ltb (Fin a) (Fin r)); [split; [exists a; reflexivity|discriminate]|].
  destruct (Qx_eqb (Fin a) (Fin r)); split; try (exists r; reflexivity); try exact Ht.
  intro E. apply app_eq_nil in E. destruct E as [_ E]. discriminate E.
Qed.

Lemma scan_found P buds : forall l best tied,
  found best tied -> found (fst (fst (scan P buds l best tied))) (snd (fst (scan P buds l best tied))).
Proof.
  induction l as [|mp r IH]; intros best tied Hf; [exact Hf|].
  rewrite scan_step.
  destruct (Qltb (avail P buds mp) (mp_cost mp)); [apply IH; exact Hf|].
  destruct (Qx_ltb best (Fin (mp_aff mp))); [exact Hf|].
  destruct (eval_rho P buds mp (sorted_sup P buds mp)) as [a0|]; [|apply IH; exact Hf].
  cbv zeta. simpl. apply IH. apply upd_found. exact Hf.
Qed.

Lemma scan_nothing P cs buds : wf_voters P -> wf_buds P buds -> forall l,
  Forall (wf_mp P cs) l ->
  (fst (fst (scan P buds l PInf [])) = PInf \/ snd (fst (scan P buds l PInf [])) = []) ->
  (forall mp, In mp l -> Qltb (avail P buds mp) (mp_cost mp) = true) /\
  scan P buds l PInf [] = (PInf, [], map (fun mp => (mp_id mp, None)) l).
Proof.
  intros Hv Hb. induction l as [|mp r IH]; intros Hl Hnf.
  - split; [intros ? []|reflexivity].
  - inversion Hl as [|? ? Hw Hr]; subst. rewrite scan_step in Hnf. rewrite scan_step.
    destruct (Qltb (avail P buds mp) (mp_cost mp)) eqn:Ea.
    + simpl in Hnf. destruct (IH Hr Hnf) as [I1 I2]. split.
      * intros m [<-|Hm]; [exact Ea|apply I1; exact Hm].
      * rewrite I2. reflexivity.
    + exfalso. change (Qx_ltb PInf (Fin (mp_aff mp))) with false in Hnf.
      destruct (eval_rho_spec P cs buds mp Hv Hb Hw Ea) as [a0 [E _]]. rewrite E in Hnf.
      cbv zeta in Hnf. simpl in Hnf.
      set (mp' := set_aff mp (Qred a0) (sorted_sup P buds mp)) in *.
      assert (Hf : found (upd_best PInf (Qred a0)) (upd_tied PInf [] (Qred a0) mp')).
      { unfold upd_best, upd_tied. change (Qx_ltb (Fin (Qred a0)) PInf) with true. cbv iota.
        split; [exists (Qred a0); reflexivity|discriminate]. }
      destruct (scan_found P buds r _ _ Hf) as [[q Hq] Hne].
      destruct Hnf as [H|H]; [rewrite Hq in H; discriminate H|contradiction].
Qed.

Lemma lookup_map_none id l :
  In id (ids l) -> lookup id (map (fun mp => (mp_id mp, @None mproj)) l) = Some None.
Proof.
  induction l as [|mp r IH]; [intros []|]. simpl.
  destruct (Nat.eqb (mp_id mp) id) eqn:E; [reflexivity|].
  apply Nat.eqb_neq in E. intros [H|H]; [contradiction|apply IH; exact H].
Qed.

(* a state in which the run stops: nothing in the pool is affordable, and the pool is emptied *)
Lemma stops_unaffordable P tb cs s rest :
  wf_voters P -> wf_buds P (s_buds s) -> Forall (wf_mp P cs) (s_projs s) -> stops P tb s rest ->
  (forall p, In p (ids (s_projs s)) -> smoney P (s_buds s) p < nth p cs 0) /\ rest = [].
Proof.
  intros Hv Hb Hp [best [tied [Hrs Hc]]]. unfold round_scan in Hrs.
  assert (Hs : Forall (wf_mp P cs) (isort aff_leb (s_projs s))).
  { apply (perm_Forall _ (s_projs s)); [apply isort_perm|exact Hp]. }
  pose proof (scan_nothing P cs (s_buds s) Hv Hb (isort aff_leb (s_projs s)) Hs) as Hn.
  destruct (scan P (s_buds s) (isort aff_leb (s_projs s)) PInf []) as [[b t] res]. simpl in Hn.
  injection Hrs as -> -> <-. destruct (Hn Hc) as [H1 H2]. split.
  - intros p Hin. unfold ids in Hin. apply in_map_iff in Hin. destruct Hin as [mp [<- Hmp]].
    rewrite Forall_forall in Hp. apply (unaff_iff P cs (s_buds s) mp (Hp mp Hmp)).
    apply H1. apply isort_In. exact Hmp.
  - injection H2 as _ _ ->. unfold patch.
    assert (Hall : forall mp, In mp (s_projs s) ->
              lookup (mp_id mp) (map (fun mp0 => (mp_id mp0, @None mproj)) (isort aff_leb (s_projs s))) = Some None).
    { intros mp Hmp. apply lookup_map_none. unfold ids. apply in_map_iff. exists mp. split; [reflexivity|].
      apply isort_In. exact Hmp. }
    revert Hall. generalize (map (fun mp0 => (mp_id mp0, @None mproj)) (isort aff_leb (s_projs s))).
    intros res. generalize (s_projs s). intros l Hall. induction l as [|mp r IH]; [reflexivity|].
    simpl. rewrite (Hall mp (or_introl eq_refl)). simpl. apply IH. intros m Hm. apply Hall. right. exact Hm.
Qed.

(* ---------- the invariant: every candidate is bought, still in the pool, or unaffordable ---------- *)

Definition Acc (P : list vcls) (cs : list Q) (ids0 : list proj) (s : st) : Prop :=
  wf_buds P (s_buds s) /\ Forall (wf_mp P cs) (s_projs s) /\
  forall p, In p ids0 -> In p (s_acc s) \/ In p (ids (s_projs s)) \/ smoney P (s_buds s) p < nth p cs 0.

Lemma step_Acc P tb cs ids0 s s' : wf_voters P -> Acc P cs ids0 s -> step P tb s s' -> Acc P cs ids0 s'.
Proof.
  intros Hv [H1 [H2 H3]] Hs. destruct Hs as [buds projects acc rho tied projects' sel Ers Hsel]. simpl in *.
  destruct (round_scan_inv P cs buds projects Hv H1 H2) as [I1 I2]. rewrite Ers in I1, I2. simpl in I1, I2.
  apply pick_order_In_iff in Hsel.
  assert (Hok : tied_ok P cs buds (Fin rho) sel) by (rewrite Forall_forall in I1; apply I1; exact Hsel).
  pose proof (tied_round_ok P cs buds rho sel H1 Hok) as Hr.
  assert (Hdec : forall p, smoney P (pay P sel rho buds) p <= smoney P buds p).
  { intro p. apply smoney_mono. intros i Hi. apply (round_no_overpay P cs _ Hr i Hi). }
  split; [apply pay_wf_buds; exact H1|]. split; [apply remove_proj_wf; exact I2|].
  intros p Hp. cbn [s_buds s_acc s_projs]. destruct (H3 p Hp) as [A|[A|A]].
  - left. apply in_or_app. left. exact A.
  - destruct (round_scan_keeps P cs buds projects _ _ _ H2 Ers p A) as [B|B].
    + destruct (Nat.eq_dec p (mp_id sel)) as [->|Hne].
      * left. apply in_or_app. right. left. reflexivity.
      * right. left. unfold ids in *. apply in_map_iff in B. destruct B as [y [<- Hy]].
        apply in_map_iff. exists y. split; [reflexivity|]. apply remove_proj_In. split; assumption.
    + right. right. specialize (Hdec p). lra.
  - right. right. specialize (Hdec p). lra.
Qed.

Theorem trace_final_unaffordable x b0 o :
  wf_voters (mi_voters x) -> 0 <= b0 -> run_once_res x b0 = Some o ->
  (forall mp, In mp (fst (built x)) -> ~ In (mp_id mp) (o_alloc o) ->
     avail (mi_voters x) (o_final o) mp < mp_cost mp) /\
  o_left o = [].
Proof.
  intros Hv Hb Hrun. unfold run_once_res in Hrun.
  destruct (run_res _ _ _ _ _ _ _) as [[[[alloc tr] fin] rest]|] eqn:E; [|discriminate].
  injection Hrun as <-. simpl.
  apply run_res_steps in E. destruct E as [s [Hs [Hstop [-> [-> _]]]]].
  fold (state0 x b0) in Hs.
  assert (H0 : Acc (mi_voters x) (mi_costs x) (ids (fst (built x))) (state0 x b0)).
  { split; [apply repeat_wf_buds; exact Hb|]. split; [unfold built; apply mk_projects_wf|].
    intros p Hp. right. left. exact Hp. }
  pose proof (steps_inv _ _ (Acc (mi_voters x) (mi_costs x) (ids (fst (built x))))
                (fun a b Ha Hab => step_Acc _ _ _ _ a b Hv Ha Hab) _ _ Hs H0) as [A1 [A2 A3]].
  destruct (stops_unaffordable _ _ (mi_costs x) s rest Hv A1 A2 Hstop) as [U1 U2].
  split; [|exact U2].
  intros mp Hmp Hnin.
  assert (Hw : wf_mp (mi_voters x) (mi_costs x) mp).
  { pose proof (mk_projects_wf (mi_voters x) (mi_costs x) (mi_bin x) (candidates x)) as Hall.
    rewrite Forall_forall in Hall. apply Hall. exact Hmp. }
  apply Qltb_iff. apply (unaff_iff _ _ _ mp Hw).
  destruct (A3 (mp_id mp)) as [B|[B|B]].
  - unfold ids. apply in_map_iff. exists mp. split; [reflexivity|exact Hmp].
  - contradiction.
  - apply U1. exact B.
  - exact B.
Qed.
