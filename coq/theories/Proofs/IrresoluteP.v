(* Proofs/IrresoluteP.v -- C08: the three sequential rules as instances of the generic choice process
   (Proofs/ChoiceProcess.v): for the Gallina models of sequential Phragmen, the greedy welfare rule and the
   Method of Equal Shares,
     * the irresolute list is EXACTLY the set of (name-sorted) resolute outcomes under the keys [rank_in pi],
       pi ranging over the permutations of the projects          (..._irr_eq_orders)
     * it has no duplicates                                       (..._irr_nodup)
     * the resolute outcome under ANY tie-breaking key is in it   (..._resolute_in_irresolute)
     * as a set it does not depend on the key handed to the irresolute call (..._irr_key_irrelevant)
   Also: the meaning of the boolean the oracle evaluates on the implementation's lists ([oracle_ok_iff]). *)
From PB Require Import Proofs.ChoiceProcess.
From PB Require Import Model.Phragmen Proofs.PhragmenP.
Open Scope Q_scope.

(* ------------------------------------------------------------------------------------------ *)
(* small list facts                                                                             *)
(* ------------------------------------------------------------------------------------------ *)
Lemma map_id' {A} (l : list A) : map (fun x => x) l = l.
Proof. induction l as [|a r IH]; simpl; [reflexivity|rewrite IH; reflexivity]. Qed.

Lemma option_map_Some {A B} (f : A -> B) o y : option_map f o = Some y <-> exists x, o = Some x /\ f x = y.
Proof.
  destruct o as [x|]; simpl; split.
  - intros [= <-]. exists x. auto.
  - intros [x' [[= <-] <-]]. reflexivity.
  - discriminate.
  - intros [x' [H _]]. discriminate.
Qed.

(* ------------------------------------------------------------------------------------------ *)
(* sequential Phragmen                                                                          *)
(* ------------------------------------------------------------------------------------------ *)
Section PhragmenInstance.
Variables (I : inst) (P : list aballot).

Record pst := mkPst { ps_projs : list proj; ps_loads : list Q; ps_alloc : list proj; ps_c : Q }.

Definition phr_scan (s : pst) : option Qx * list proj :=
  argmin_loop (new_maxload I P (ps_loads s)) (ps_projs s) None [].

(* the name-sorted projects attaining the least new maximum load; [] when the run stops *)
Definition phr_ties (s : pst) : list proj :=
  match ps_projs s with
  | [] => []
  | _ :: _ => if existsb (overshoots I (ps_c s)) (snd (phr_scan s)) then [] else name_sort (snd (phr_scan s))
  end.

Definition phr_time (s : pst) : Qx := match fst (phr_scan s) with Some t => t | None => PInf end.

Definition phr_next (s : pst) (p : proj) : pst :=
  mkPst (remove_proj p (ps_projs s)) (apply_load P (ps_loads s) p (phr_time s)) (ps_alloc s ++ [p])
        (Qred (ps_c s + cost I p)).

Definition pid (p : proj) : proj := p.

Lemma phr_scan_spec s : ps_projs s <> [] ->
  exists m, phr_scan s = (Some m, filter (fun q => Qx_eqb m (new_maxload I P (ps_loads s) q)) (ps_projs s))
            /\ snd (phr_scan s) <> [].
Proof.
  intros Hne. unfold phr_scan. destruct (ps_projs s) as [|p0 r]; [congruence|].
  destruct (argmin_loop_spec (new_maxload I P (ps_loads s)) p0 r) as [m [E [_ [p' [Hp' Hm]]]]].
  exists m. split; [exact E|]. rewrite E. cbn [snd]. intros Hnil.
  assert (Hin : In p' (filter (fun q => Qx_eqb m (new_maxload I P (ps_loads s) q)) (p0 :: r))).
  { apply filter_In. split; [exact Hp'|]. rewrite Hm. apply Qx_eqb_iff, Qx_eq_refl. }
  rewrite Hnil in Hin. exact Hin.
Qed.

Lemma name_sort_nonempty l : l <> [] -> name_sort l <> [].
Proof.
  intros Hne E. apply Hne. apply (f_equal (@length nat)) in E. unfold name_sort in E.
  rewrite isort_length in E. destruct l; [reflexivity|discriminate].
Qed.

(* the model's round in terms of [phr_ties] / [phr_time] *)
Lemma phr_round_ties tb s : ps_projs s <> [] ->
  phr_round I P tb (ps_loads s) (ps_projs s) (ps_c s) =
  match phr_ties s with
  | [] => RStop
  | _ :: _ => RPick (tie_order tb (phr_ties s)) (phr_time s)
  end.
Proof.
  intros Hne. destruct (phr_scan_spec s Hne) as [m [E Hnil]].
  unfold phr_round, phr_ties, phr_time. fold (phr_scan s).
  destruct (ps_projs s) as [|p0 r] eqn:Ep; [congruence|].
  destruct (phr_scan s) as [m' arg] eqn:Es. cbn [fst] in *. cbn [snd] in *.
  destruct (existsb (overshoots I (ps_c s)) arg); [reflexivity|].
  pose proof (name_sort_nonempty arg Hnil) as Hn.
  destruct (name_sort arg) eqn:En; [congruence|]. reflexivity.
Qed.

Lemma phr_ties_In s p : In p (phr_ties s) -> In p (ps_projs s).
Proof.
  unfold phr_ties. destruct (ps_projs s) as [|p0 r] eqn:Ep; [intros []|]. rewrite <- Ep.
  destruct (phr_scan_spec s) as [m [E _]]; [rewrite Ep; discriminate|].
  rewrite E. cbn [snd]. destruct (existsb _ _); [intros []|].
  rewrite name_sort_In, filter_In. tauto.
Qed.

Lemma phr_ties_NoDup s : NoDup (ps_projs s) -> NoDup (phr_ties s).
Proof.
  intros Hnd. unfold phr_ties. destruct (ps_projs s) as [|p0 r] eqn:Ep; [constructor|]. rewrite <- Ep in *.
  destruct (phr_scan_spec s) as [m [E _]]; [rewrite Ep; discriminate|].
  rewrite E. cbn [snd]. destruct (existsb _ _); [constructor|].
  eapply Permutation_NoDup; [apply name_sort_perm|]. apply NoDup_filter. exact Hnd.
Qed.

Notation prun := (run pid phr_ties phr_next ps_alloc).
Notation pbranch := (branch pid phr_ties phr_next ps_alloc).

Lemma corder_pid tb l : corder pid tb l = tie_order tb l.
Proof. reflexivity. Qed.

(* the model's recursions ARE the generic run / branch of this process *)
Lemma phr_res_cons fuel tb projs loads alloc c : projs <> [] ->
  phr_res fuel I P tb projs loads alloc c =
  match phr_round I P tb loads projs c with
  | RStop => Some alloc
  | RPick tied t =>
      match fuel with
      | O => None
      | S f => match tied with
               | [] => None
               | p :: _ => phr_res f I P tb (remove_proj p projs) (apply_load P loads p t) (alloc ++ [p])
                                   (Qred (c + cost I p))
               end
      end
  end.
Proof. destruct projs; [congruence|]. destruct fuel; reflexivity. Qed.

Lemma phr_irr_cons fuel tb projs loads alloc c : projs <> [] ->
  phr_irr fuel I P tb projs loads alloc c =
  match phr_round I P tb loads projs c with
  | RStop => Some [alloc]
  | RPick tied t =>
      match fuel with
      | O => None
      | S f => Phragmen.opt_concat
                 (map (fun p => phr_irr f I P tb (remove_proj p projs) (apply_load P loads p t) (alloc ++ [p])
                                        (Qred (c + cost I p))) tied)
      end
  end.
Proof. destruct projs; [congruence|]. destruct fuel; reflexivity. Qed.

Lemma phr_ties_nil s : ps_projs s = [] -> phr_ties s = [].
Proof. intros E. unfold phr_ties. rewrite E. reflexivity. Qed.

(* the model's recursions ARE the generic run / branch of this process *)
Lemma phr_res_run tb : forall fuel s,
  phr_res fuel I P tb (ps_projs s) (ps_loads s) (ps_alloc s) (ps_c s) = prun tb fuel s.
Proof.
  induction fuel as [|f IH]; intros s; rewrite run_unfold.
  - destruct (list_eq_dec Nat.eq_dec (ps_projs s) []) as [E|Hne].
    + rewrite (phr_ties_nil s E), E. reflexivity.
    + rewrite phr_res_cons, phr_round_ties by exact Hne. destruct (phr_ties s); reflexivity.
  - destruct (list_eq_dec Nat.eq_dec (ps_projs s) []) as [E|Hne].
    + rewrite (phr_ties_nil s E), E. reflexivity.
    + rewrite phr_res_cons, phr_round_ties by exact Hne.
      destruct (phr_ties s) as [|x t] eqn:Et; [reflexivity|]. rewrite <- Et. change (corder pid tb (phr_ties s)) with (tie_order tb (phr_ties s)).
      destruct (tie_order tb (phr_ties s)) as [|p tl]; [reflexivity|].
      apply (IH (phr_next s p)).
Qed.

Lemma opt_concat_oconcat' {A} (l : list (option (list A))) :
  Phragmen.opt_concat l = ChoiceProcess.oconcat l.
Proof.
  induction l as [|x r IH]; simpl; [reflexivity|]. rewrite IH. destruct x; [|reflexivity].
  destruct (ChoiceProcess.oconcat r); reflexivity.
Qed.

Lemma phr_irr_branch tb : forall fuel s,
  phr_irr fuel I P tb (ps_projs s) (ps_loads s) (ps_alloc s) (ps_c s) = pbranch tb fuel s.
Proof.
  induction fuel as [|f IH]; intros s; rewrite branch_unfold.
  - destruct (list_eq_dec Nat.eq_dec (ps_projs s) []) as [E|Hne].
    + rewrite (phr_ties_nil s E), E. reflexivity.
    + rewrite phr_irr_cons, phr_round_ties by exact Hne. destruct (phr_ties s); reflexivity.
  - destruct (list_eq_dec Nat.eq_dec (ps_projs s) []) as [E|Hne].
    + rewrite (phr_ties_nil s E), E. reflexivity.
    + rewrite phr_irr_cons, phr_round_ties by exact Hne.
      destruct (phr_ties s) as [|x t] eqn:Et; [reflexivity|]. rewrite <- Et. change (corder pid tb (phr_ties s)) with (tie_order tb (phr_ties s)).
      rewrite opt_concat_oconcat'. f_equal. apply map_ext. intros p. apply (IH (phr_next s p)).
Qed.

(* the side condition *)
Definition pinv (s : pst) : Prop := NoDup (ps_projs s).

Lemma p_inv_next s c : pinv s -> In c (phr_ties s) -> pinv (phr_next s c).
Proof. intros H _. apply remove_proj_NoDup. exact H. Qed.
Lemma p_ties_avail s c : pinv s -> In c (phr_ties s) -> In (pid c) (ps_projs s).
Proof. intros _. apply phr_ties_In. Qed.
Lemma p_ties_inj s : pinv s -> NoDup (map pid (phr_ties s)).
Proof. intros H. unfold pid. rewrite map_id'. apply phr_ties_NoDup. exact H. Qed.
Lemma p_chosen_gone s c q : pinv s -> In c (phr_ties s) ->
  In q (ps_projs (phr_next s c)) -> In q (ps_projs s) /\ q <> pid c.
Proof. intros _ _ H. apply remove_proj_In in H. exact H. Qed.

(* "alloc.sort(); if alloc not in allocs: allocs.append(alloc)" keeps exactly the distinct lists *)
Lemma nl_eqb_eq' a : forall b, Phragmen.nl_eqb a b = true <-> a = b.
Proof.
  induction a as [|x r IH]; intros [|y t]; simpl; try (split; [discriminate|discriminate]); [tauto|].
  rewrite andb_true_iff, Nat.eqb_eq, IH. split; [intros [-> ->]; reflexivity|intros [= -> ->]; auto].
Qed.

Lemma memb_nl_In W Ws : memb_nl W Ws = true <-> In W Ws.
Proof.
  unfold memb_nl. rewrite existsb_exists. split.
  - intros [x [Hx E]]. apply nl_eqb_eq' in E. subst. exact Hx.
  - intros H. exists W. split; [exact H|]. apply nl_eqb_eq'. reflexivity.
Qed.

Lemma dedup_nl_spec : forall l seen,
  NoDup (dedup_nl seen l) /\ forall W, In W (dedup_nl seen l) <-> In W l /\ ~ In W seen.
Proof.
  induction l as [|a r IH]; intros seen; simpl.
  - split; [constructor|]. intros W. tauto.
  - destruct (memb_nl a seen) eqn:E.
    + apply memb_nl_In in E. destruct (IH seen) as [H1 H2]. split; [exact H1|].
      intros W. rewrite H2. split; [tauto|]. intros [[<-|H] Hn]; [contradiction|tauto].
    + assert (Hn : ~ In a seen) by (intros H; apply memb_nl_In in H; congruence).
      destruct (IH (a :: seen)) as [H1 H2]. split.
      * constructor; [|exact H1]. intros H. apply H2 in H. apply (proj2 H). left. reflexivity.
      * intros W. simpl. rewrite H2. simpl. split.
        -- intros [<-|[H3 H4]]; [tauto|]. split; [tauto|]. intros H. apply H4. right. exact H.
        -- intros [[<-|H3] H4]; [left; reflexivity|].
           destruct (list_eq_dec Nat.eq_dec a W) as [->|Hne]; [left; reflexivity|].
           right. split; [exact H3|]. intros [H|H]; [contradiction|contradiction].
Qed.

Section Top.
Variables (enum : list proj) (loads : list Q) (init : list proj).
Hypothesis enum_nodup : NoDup enum.

Let s0 : pst := mkPst (phr_projects I enum init) loads init (tcost I init).
Let fuel0 : nat := S (length (phr_projects I enum init)).

Lemma s0_inv : pinv s0.
Proof. unfold pinv, s0. simpl. unfold phr_projects. apply NoDup_filter. exact enum_nodup. Qed.

Lemma s0_univ : incl (ps_projs s0) enum.
Proof. intros x H. unfold s0, phr_projects in H. simpl in H. apply filter_In in H. tauto. Qed.

Lemma phragmen_res_run tb : phragmen_res I P tb enum loads init = option_map name_sort (prun tb fuel0 s0).
Proof. unfold phragmen_res. rewrite <- phr_res_run. reflexivity. Qed.

Lemma phragmen_irr_branch tb :
  phragmen_irr I P tb enum loads init =
  option_map (fun ls => dedup_nl [] (map name_sort ls)) (pbranch tb fuel0 s0).
Proof. unfold phragmen_irr. rewrite <- phr_irr_branch. reflexivity. Qed.

(* M: irresolute = the outcomes of all strict orders *)
Theorem phragmen_irr_eq_orders tb0 Ws :
  phragmen_irr I P tb0 enum loads init = Some Ws ->
  forall X, In X Ws <->
    exists pi, Permutation pi enum /\ phragmen_res I P (rank_in pi) enum loads init = Some X.
Proof.
  rewrite phragmen_irr_branch. intros H X. apply option_map_Some in H. destruct H as [L [HL <-]].
  destruct (dedup_nl_spec (map name_sort L) []) as [_ Hd]. rewrite Hd.
  pose proof (leaves_eq_orders pst proj (list proj) pid phr_ties phr_next ps_alloc pinv ps_projs
                p_inv_next p_ties_avail p_ties_inj p_chosen_gone enum enum_nodup tb0 fuel0 s0 L
                s0_inv s0_univ HL) as Hleaves.
  split.
  - intros [HX _]. apply in_map_iff in HX. destruct HX as [Y [<- HY]].
    apply Hleaves in HY. destruct HY as [pi [Hpi Hrun]]. exists pi. split; [exact Hpi|].
    rewrite phragmen_res_run, Hrun. reflexivity.
  - intros [pi [Hpi Hres]]. rewrite phragmen_res_run in Hres. apply option_map_Some in Hres.
    destruct Hres as [Y [Hrun <-]]. split; [|intros []].
    apply in_map. apply Hleaves. exists pi. split; assumption.
Qed.

(* M: no allocation is listed twice *)
Theorem phragmen_irr_nodup tb0 Ws : phragmen_irr I P tb0 enum loads init = Some Ws -> NoDup Ws.
Proof.
  unfold phragmen_irr. intros H. apply option_map_Some in H. destruct H as [L [_ <-]].
  apply (dedup_nl_spec (map name_sort L) []).
Qed.

(* M: the resolute outcome under ANY tie-breaking key is one of the irresolute outcomes
   (no hypothesis on the key: it need not be injective, nor on enum) *)
Theorem phragmen_resolute_in_irresolute tb tb0 X Ws :
  phragmen_res I P tb enum loads init = Some X ->
  phragmen_irr I P tb0 enum loads init = Some Ws -> In X Ws.
Proof.
  rewrite phragmen_res_run, phragmen_irr_branch. intros Hr Hb.
  apply option_map_Some in Hr. destruct Hr as [Y [Hrun <-]].
  apply option_map_Some in Hb. destruct Hb as [L [HL <-]].
  destruct (dedup_nl_spec (map name_sort L) []) as [_ Hd]. apply Hd. split; [|intros []].
  apply in_map. eapply (run_in_branch pst proj (list proj) pid phr_ties phr_next ps_alloc tb tb0); eassumption.
Qed.

(* the set of irresolute outcomes does not depend on the key handed to the irresolute call *)
Theorem phragmen_irr_key_irrelevant tb0 tb1 Ws0 Ws1 :
  phragmen_irr I P tb0 enum loads init = Some Ws0 ->
  phragmen_irr I P tb1 enum loads init = Some Ws1 -> forall X, In X Ws0 <-> In X Ws1.
Proof.
  intros H0 H1 X. rewrite (phragmen_irr_eq_orders tb0 Ws0 H0), (phragmen_irr_eq_orders tb1 Ws1 H1). reflexivity.
Qed.

(* the hypotheses "= Some ..." of the theorems above are always satisfiable: the internal fuel suffices *)
Theorem phragmen_irr_res_total tb :
  (exists Ws, phragmen_irr I P tb enum loads init = Some Ws /\ Ws <> []) /\
  (exists X, phragmen_res I P tb enum loads init = Some X).
Proof.
  assert (Hlen : (length (ps_projs s0) <= fuel0)%nat) by (unfold s0, fuel0; simpl; lia).
  split.
  - destruct (branch_total pst proj (list proj) pid phr_ties phr_next ps_alloc pinv ps_projs
                p_inv_next p_ties_avail p_chosen_gone (fun s H => H) tb fuel0 s0 s0_inv Hlen) as [L [HL Hne]].
    rewrite phragmen_irr_branch, HL. eexists. split; [reflexivity|].
    destruct L as [|Y L']; [congruence|]. intros E.
    assert (Hin : In (name_sort Y) (dedup_nl [] (map name_sort (Y :: L')))).
    { apply dedup_nl_spec. split; [left; reflexivity|intros []]. }
    rewrite E in Hin. exact Hin.
  - destruct (run_total pst proj (list proj) pid phr_ties phr_next ps_alloc pinv ps_projs
                p_inv_next p_ties_avail p_chosen_gone (fun s H => H) tb fuel0 s0 s0_inv Hlen) as [Y HY].
    rewrite phragmen_res_run, HY. eexists. reflexivity.
Qed.

End Top.
End PhragmenInstance.

(* ------------------------------------------------------------------------------------------ *)
(* greedy welfare rule                                                                          *)
(* ------------------------------------------------------------------------------------------ *)
From PB Require Import Model.GreedyRule Spec.GreedySpec Proofs.GreedyP Proofs.GreedyAddP.

Section GreedyInstance.
Variables (I : inst) (sat : list proj -> Q).

Definition gst : Type := (list proj * list proj)%type.       (* feasible candidates, allocation so far *)

Definition g_ties (s : gst) : list proj := argmax_all Qx_leb (mdens I sat (snd s)) (fst s).
Definition g_next (s : gst) (p : proj) : gst := (next_feasible I (fst s) (snd s) p, snd s ++ [p]).
Definition g_out (s : gst) : list proj := snd s.

Notation grun := (run pid g_ties g_next g_out).
Notation gbranch := (branch pid g_ties g_next g_out).

Lemma g_ties_nil s : fst s = [] -> g_ties s = [].
Proof. intros E. unfold g_ties. rewrite E. reflexivity. Qed.

Lemma g_ties_nonempty s : fst s <> [] -> g_ties s <> [].
Proof. apply argmax_all_nonempty; [apply Qx_leb_total|apply Qx_leb_trans]. Qed.

Lemma gopt_concat_oconcat {A} (l : list (option (list A))) :
  GreedyRule.opt_concat l = ChoiceProcess.oconcat l.
Proof.
  induction l as [|x r IH]; simpl; [reflexivity|]. rewrite IH. reflexivity.
Qed.

Lemma gen_leaves_unfold tb resolute fuel feas alloc : feas <> [] ->
  gen_leaves I sat tb resolute fuel feas alloc =
  match fuel with
  | O => None
  | S f =>
      let tied := tie_order tb (g_ties (feas, alloc)) in
      let tied := if resolute then firstn 1 tied else tied in
      GreedyRule.opt_concat
        (map (fun s => gen_leaves I sat tb resolute f (next_feasible I feas alloc s) (alloc ++ [s])) tied)
  end.
Proof. intros Hne. destruct feas; [congruence|]. destruct fuel; reflexivity. Qed.

Lemma gen_leaves_nil tb resolute fuel alloc : gen_leaves I sat tb resolute fuel [] alloc = Some [alloc].
Proof. destruct fuel; reflexivity. Qed.

Lemma gen_leaves_branch tb : forall fuel s,
  gen_leaves I sat tb false fuel (fst s) (snd s) = gbranch tb fuel s.
Proof.
  induction fuel as [|f IH]; intros [feas alloc]; rewrite branch_unfold; cbn [fst snd].
  - destruct (list_eq_dec Nat.eq_dec feas []) as [->|Hne].
    + rewrite gen_leaves_nil, g_ties_nil by reflexivity. reflexivity.
    + rewrite gen_leaves_unfold by exact Hne.
      pose proof (g_ties_nonempty (feas, alloc) Hne) as Hn. destruct (g_ties (feas, alloc)); [congruence|reflexivity].
  - destruct (list_eq_dec Nat.eq_dec feas []) as [->|Hne].
    + rewrite gen_leaves_nil, g_ties_nil by reflexivity. reflexivity.
    + rewrite gen_leaves_unfold by exact Hne.
      pose proof (g_ties_nonempty (feas, alloc) Hne) as Hn.
      destruct (g_ties (feas, alloc)) as [|x t] eqn:Et; [congruence|]. rewrite <- Et.
      cbv zeta. change (corder pid tb (g_ties (feas, alloc))) with (tie_order tb (g_ties (feas, alloc))).
      rewrite gopt_concat_oconcat. f_equal. apply map_ext. intros p.
      apply (IH (g_next (feas, alloc) p)).
Qed.

Lemma gen_leaves_run tb : forall fuel s,
  gen_leaves I sat tb true fuel (fst s) (snd s) = option_map (fun W => [W]) (grun tb fuel s).
Proof.
  induction fuel as [|f IH]; intros [feas alloc]; rewrite run_unfold; cbn [fst snd].
  - destruct (list_eq_dec Nat.eq_dec feas []) as [->|Hne].
    + rewrite gen_leaves_nil, g_ties_nil by reflexivity. reflexivity.
    + rewrite gen_leaves_unfold by exact Hne.
      pose proof (g_ties_nonempty (feas, alloc) Hne) as Hn. destruct (g_ties (feas, alloc)); [congruence|reflexivity].
  - destruct (list_eq_dec Nat.eq_dec feas []) as [->|Hne].
    + rewrite gen_leaves_nil, g_ties_nil by reflexivity. reflexivity.
    + rewrite gen_leaves_unfold by exact Hne.
      pose proof (g_ties_nonempty (feas, alloc) Hne) as Hn.
      destruct (g_ties (feas, alloc)) as [|x t] eqn:Et; [congruence|]. rewrite <- Et.
      cbv zeta. change (corder pid tb (g_ties (feas, alloc))) with (tie_order tb (g_ties (feas, alloc))).
      destruct (tie_order tb (g_ties (feas, alloc))) as [|p tl] eqn:Eo.
      * exfalso. apply Hn. rewrite <- Et.
        apply (f_equal (@length proj)) in Eo. unfold tie_order in Eo. rewrite isort_length in Eo.
        destruct (g_ties (feas, alloc)); [reflexivity|discriminate].
      * cbn [firstn map GreedyRule.opt_concat].
        pose proof (IH (g_next (feas, alloc) p)) as IHp. cbn [g_next fst snd] in IHp. rewrite IHp.
        destruct (grun tb f (g_next (feas, alloc) p)); simpl; reflexivity.
Qed.

(* the side condition *)
Definition ginv (s : gst) : Prop := NoDup (fst s).

Lemma g_inv_next s c : ginv s -> In c (g_ties s) -> ginv (g_next s c).
Proof. intros H _. unfold ginv, g_next, next_feasible. cbn [fst]. apply NoDup_filter. exact H. Qed.
Lemma g_ties_avail s c : ginv s -> In c (g_ties s) -> In (pid c) (fst s).
Proof. intros _ H. unfold g_ties in H. apply argmax_all_In in H; [tauto|apply Qx_leb_total|apply Qx_leb_trans]. Qed.
Lemma g_ties_inj s : ginv s -> NoDup (map pid (g_ties s)).
Proof.
  intros H. unfold pid. rewrite map_id'. apply argmax_all_NoDup; [apply Qx_leb_total|apply Qx_leb_trans|exact H].
Qed.
Lemma g_chosen_gone s c q : ginv s -> In c (g_ties s) ->
  In q (fst (g_next s c)) -> In q (fst s) /\ q <> pid c.
Proof.
  intros _ _ H. unfold g_next, next_feasible in H. cbn [fst] in H. apply filter_In in H.
  destruct H as [H1 H2]. apply andb_true_iff in H2. destruct H2 as [H2 _].
  apply negb_true_iff, Nat.eqb_neq in H2. split; assumption.
Qed.

(* dedup_sorted: exactly the distinct name-sorted leaves *)
Lemma dedup_sorted_spec : forall ls seen,
  NoDup seen -> NoDup (dedup_sorted seen ls) /\
  forall X, In X (dedup_sorted seen ls) <-> In X seen \/ exists W, In W ls /\ X = name_sort W.
Proof.
  induction ls as [|a r IH]; intros seen Hnd; simpl.
  - split; [exact Hnd|]. intros X. split; [auto|intros [H|[W [[] _]]]; exact H].
  - destruct (existsb (GreedyRule.nl_eqb (name_sort a)) seen) eqn:E.
    + destruct (IH seen Hnd) as [H1 H2]. split; [exact H1|]. intros X. rewrite H2.
      apply existsb_exists in E. destruct E as [b [Hb Eb]]. apply nl_eqb_eq in Eb. subst b.
      split.
      * intros [H|[W [HW HX]]]; [left; exact H|right; exists W; auto].
      * intros [H|[W [[<-|HW] HX]]]; [left; exact H|left; subst; exact Hb|right; exists W; auto].
    + assert (Hn : ~ In (name_sort a) seen).
      { intros H. assert (existsb (GreedyRule.nl_eqb (name_sort a)) seen = true).
        { apply existsb_exists. exists (name_sort a). split; [exact H|apply nl_eqb_eq; reflexivity]. }
        congruence. }
      assert (Hnd' : NoDup (seen ++ [name_sort a])).
      { apply NoDup_app_intro; [exact Hnd|constructor; [intros []|constructor]|].
        intros x H1 [<-|[]]. contradiction. }
      destruct (IH (seen ++ [name_sort a]) Hnd') as [H1 H2]. split; [exact H1|]. intros X.
      rewrite H2, in_app_iff. simpl. split.
      * intros [[H|[<-|[]]]|[W [HW HX]]]; [left; exact H|right; exists a; auto|right; exists W; auto].
      * intros [H|[W [[<-|HW] HX]]]; [left; left; exact H|left; right; left; auto|right; exists W; auto].
Qed.

Section GTop.
Variable init : list proj.
Let s0 : gst := (initial_feasible I init, init).
Let fuel0 : nat := length (initial_feasible I init).

Lemma all_projects_NoDup : NoDup (all_projects I).
Proof. apply seq_NoDup. Qed.

Lemma gs0_inv : ginv s0.
Proof. unfold ginv, s0, initial_feasible. cbn [fst]. apply NoDup_filter, all_projects_NoDup. Qed.

Lemma gs0_univ : incl (fst s0) (all_projects I).
Proof. intros x H. unfold s0, initial_feasible in H. cbn [fst] in H. apply filter_In in H. tauto. Qed.

Lemma greedy_gen_res_run tb : greedy_gen_res I sat tb init = grun tb fuel0 s0.
Proof.
  unfold greedy_gen_res. change (initial_feasible I init) with (fst s0) at 2. change init with (snd s0) at 2.
  fold fuel0. rewrite gen_leaves_run. destruct (grun tb fuel0 s0); reflexivity.
Qed.

Lemma greedy_gen_irr_branch tb :
  greedy_gen_irr I sat tb init = option_map (dedup_sorted []) (gbranch tb fuel0 s0).
Proof.
  unfold greedy_gen_irr. change (initial_feasible I init) with (fst s0) at 2. change init with (snd s0) at 2.
  fold fuel0. rewrite gen_leaves_branch. destruct (gbranch tb fuel0 s0); reflexivity.
Qed.

(* M: irresolute = the (name-sorted) outcomes of all strict orders -- general scheme, any satisfaction function *)
Theorem greedy_gen_irr_eq_orders tb0 Ws :
  greedy_gen_irr I sat tb0 init = Some Ws ->
  forall X, In X Ws <->
    exists pi W, Permutation pi (all_projects I) /\ greedy_gen_res I sat (rank_in pi) init = Some W /\ X = name_sort W.
Proof.
  rewrite greedy_gen_irr_branch. intros H X. apply option_map_Some in H. destruct H as [L [HL <-]].
  destruct (dedup_sorted_spec L [] (NoDup_nil _)) as [_ Hd]. rewrite Hd.
  pose proof (leaves_eq_orders gst proj (list proj) pid g_ties g_next g_out ginv (@fst _ _)
                g_inv_next g_ties_avail g_ties_inj g_chosen_gone (all_projects I) all_projects_NoDup
                tb0 fuel0 s0 L gs0_inv gs0_univ HL) as Hleaves.
  split.
  - intros [[]|[W [HW ->]]]. apply Hleaves in HW. destruct HW as [pi [Hpi Hrun]].
    exists pi, W. rewrite greedy_gen_res_run. auto.
  - intros [pi [W [Hpi [Hres ->]]]]. right. exists W. split; [|reflexivity].
    apply Hleaves. exists pi. rewrite <- greedy_gen_res_run. auto.
Qed.

Theorem greedy_gen_irr_nodup tb0 Ws : greedy_gen_irr I sat tb0 init = Some Ws -> NoDup Ws.
Proof.
  rewrite greedy_gen_irr_branch. intros H. apply option_map_Some in H. destruct H as [L [_ <-]].
  apply (dedup_sorted_spec L [] (NoDup_nil _)).
Qed.

Theorem greedy_gen_resolute_in_irresolute tb tb0 W Ws :
  greedy_gen_res I sat tb init = Some W -> greedy_gen_irr I sat tb0 init = Some Ws -> In (name_sort W) Ws.
Proof.
  rewrite greedy_gen_res_run, greedy_gen_irr_branch. intros Hr Hb.
  apply option_map_Some in Hb. destruct Hb as [L [HL <-]].
  destruct (dedup_sorted_spec L [] (NoDup_nil _)) as [_ Hd]. apply Hd. right. exists W. split; [|reflexivity].
  eapply (run_in_branch gst proj (list proj) pid g_ties g_next g_out tb tb0); eassumption.
Qed.

Theorem greedy_gen_irr_res_total tb :
  (exists Ws, greedy_gen_irr I sat tb init = Some Ws /\ Ws <> []) /\
  (exists W, greedy_gen_res I sat tb init = Some W).
Proof.
  assert (Hlen : (length (fst s0) <= fuel0)%nat) by (unfold s0, fuel0; simpl; lia).
  split.
  - destruct (branch_total gst proj (list proj) pid g_ties g_next g_out ginv (@fst _ _)
                g_inv_next g_ties_avail g_chosen_gone (fun s H => H) tb fuel0 s0 gs0_inv Hlen) as [L [HL Hne]].
    rewrite greedy_gen_irr_branch, HL. eexists. split; [reflexivity|].
    destruct L as [|Y L']; [congruence|]. intros E.
    assert (Hin : In (name_sort Y) (dedup_sorted [] (Y :: L'))).
    { apply (dedup_sorted_spec (Y :: L') [] (NoDup_nil _)). right. exists Y. split; [left; reflexivity|reflexivity]. }
    rewrite E in Hin. exact Hin.
  - destruct (run_total gst proj (list proj) pid g_ties g_next g_out ginv (@fst _ _)
                g_inv_next g_ties_avail g_chosen_gone (fun s H => H) tb fuel0 s0 gs0_inv Hlen) as [Y HY].
    rewrite greedy_gen_res_run, HY. eexists. reflexivity.
Qed.

End GTop.
End GreedyInstance.

(* ----- greedy_utilitarian_welfare: the dispatch on is_sat_additive ----- *)
Lemma leb_nat_total x y : Nat.leb x y = true \/ Nat.leb y x = true.
Proof. destruct (Nat.le_ge_cases x y) as [H|H]; [left|right]; apply Nat.leb_le; exact H. Qed.
Lemma leb_nat_trans x y z : Nat.leb x y = true -> Nat.leb y z = true -> Nat.leb x z = true.
Proof. rewrite !Nat.leb_le. lia. Qed.

(* two duplicate-free lists with the same elements have the same name-sorted form *)
Lemma name_sort_set_eq l l' : NoDup l -> NoDup l' -> set_eq l l' -> name_sort l = name_sort l'.
Proof.
  intros H1 H2 Hs. apply (sorted_perm_unique (lebP Nat.leb)).
  - unfold lebP. intros x y Hxy Hyx. apply Nat.leb_le in Hxy, Hyx. lia.
  - apply isort_sorted; [apply leb_nat_total|apply leb_nat_trans].
  - apply isort_sorted; [apply leb_nat_total|apply leb_nat_trans].
  - eapply Permutation_trans; [symmetry; apply isort_perm|].
    eapply Permutation_trans; [|apply isort_perm].
    apply NoDup_Permutation; assumption.
Qed.

Section GreedyWelfare.
Variables (I : inst) (sat : list proj -> Q) (sp : proj -> Q).
Hypothesis costs_nonneg : Forall (fun c => 0 <= c) (costs I).

(* general scheme (is_sat_additive = False): nothing to assume about the satisfaction function *)
Theorem greedy_irr_eq_orders_general tb0 init Ws :
  greedy_welfare_irr I sat tb0 false init = Some Ws ->
  forall X, In X Ws <->
    exists pi W, Permutation pi (all_projects I) /\
                 greedy_welfare_res I sat sp (rank_in pi) false init = Some W /\ X = name_sort W.
Proof. apply greedy_gen_irr_eq_orders. Qed.

(* fast path (is_sat_additive = True): resolute calls run the sort-once pass, irresolute calls the general
   scheme; for a satisfaction function that really is additive and non-negative they still correspond *)
Hypothesis sat_additive : forall W, sat W == Qsum (map sp W).
Hypothesis sp_nonneg : forall p, 0 <= sp p.

Lemma add_res_sorted_eq_gen tb init : feasible I init ->
  exists W, greedy_gen_res I sat tb init = Some W /\ name_sort W = name_sort (greedy_add_res I sp tb init).
Proof.
  intros Hf. destruct Hf as [Hnd [Hin Hc]].
  destruct (greedy_add_eq_gen I sp tb costs_nonneg sat sat_additive sp_nonneg init Hc) as [W [HW Hs]].
  exists W. split; [exact HW|].
  assert (Hf : feasible I init) by (repeat split; assumption).
  apply name_sort_set_eq; [| |exact Hs].
  - destruct (greedy_feasible I sat sp tb costs_nonneg init Hf) as [H _].
    destruct (H false W HW) as [[Hn _] _]. exact Hn.
  - destruct (greedy_add_feasible I sp tb init Hf) as [[Hn _] _]. exact Hn.
Qed.

Theorem greedy_irr_eq_orders_additive tb0 init Ws :
  feasible I init ->
  greedy_welfare_irr I sat tb0 true init = Some Ws ->
  forall X, In X Ws <->
    exists pi W, Permutation pi (all_projects I) /\
                 greedy_welfare_res I sat sp (rank_in pi) true init = Some W /\ X = name_sort W.
Proof.
  intros Hf H X. unfold greedy_welfare_irr in H. rewrite (greedy_gen_irr_eq_orders I sat init tb0 Ws H).
  unfold greedy_welfare_res. split.
  - intros [pi [W [Hpi [HW ->]]]].
    destruct (add_res_sorted_eq_gen (rank_in pi) init Hf) as [W' [HW' E]].
    rewrite HW in HW'. injection HW' as <-. exists pi, (greedy_add_res I sp (rank_in pi) init). auto.
  - intros [pi [W [Hpi [[= <-] ->]]]].
    destruct (add_res_sorted_eq_gen (rank_in pi) init Hf) as [W' [HW' E]].
    exists pi, W'. auto.
Qed.

Theorem greedy_resolute_in_irresolute additive tb tb0 init W Ws :
  (additive = true -> feasible I init) ->
  greedy_welfare_res I sat sp tb additive init = Some W ->
  greedy_welfare_irr I sat tb0 additive init = Some Ws -> In (name_sort W) Ws.
Proof.
  intros Hf Hr Hb. unfold greedy_welfare_irr in Hb. destruct additive; simpl in Hr.
  - injection Hr as <-. destruct (add_res_sorted_eq_gen tb init (Hf eq_refl)) as [W' [HW' <-]].
    eapply greedy_gen_resolute_in_irresolute; eassumption.
  - eapply greedy_gen_resolute_in_irresolute; eassumption.
Qed.

End GreedyWelfare.

(* ------------------------------------------------------------------------------------------ *)
(* Method of Equal Shares                                                                       *)
(* ------------------------------------------------------------------------------------------ *)
From PB Require Import Model.MesRule.

(* ----- subsequences ----- *)
Lemma sublist_app_l {A} (a s l : list A) : sublist s l -> sublist s (a ++ l).
Proof. intros H. induction a as [|x a IH]; simpl; [exact H|apply sl_skip; exact IH]. Qed.

Lemma sublist_app_mid {A} (a : list A) x s l : sublist s (a ++ l) -> sublist s (a ++ x :: l).
Proof.
  revert s. induction a as [|y a IH]; simpl; intros s H.
  - apply sl_skip. exact H.
  - inversion H as [|? ? ? H'|? ? ? H']; subst.
    + apply sl_skip. apply IH. exact H'.
    + apply sl_take. apply IH. exact H'.
Qed.

Lemma sublist_app_self {A} (a l : list A) : sublist a (a ++ l).
Proof. induction a as [|x a IH]; simpl; [apply sublist_nil_l|apply sl_take; exact IH]. Qed.

Lemma sublist_map_filter {A B} (f : A -> B) (g : A -> bool) l : sublist (map f (filter g l)) (map f l).
Proof.
  induction l as [|x l IH]; simpl; [constructor|]. destruct (g x); simpl; [apply sl_take|apply sl_skip]; exact IH.
Qed.

Lemma sublist_trans {A} (a b c : list A) : sublist a b -> sublist b c -> sublist a c.
Proof.
  intros Hab Hbc. revert a Hab. induction Hbc as [|x s l Hsl IH|x s l Hsl IH]; intros a Hab.
  - exact Hab.
  - apply sl_skip. apply IH. exact Hab.
  - inversion Hab as [|? ? ? H'|? ? ? H']; subst.
    + apply sl_skip. apply IH. exact H'.
    + apply sl_take. apply IH. exact H'.
Qed.

(* sorting by a key of the image commutes with the image *)
Lemma insert_map {A B} (f : A -> B) (leb : B -> B -> bool) x l :
  map f (insert (fun a b => leb (f a) (f b)) x l) = insert leb (f x) (map f l).
Proof.
  induction l as [|y t IH]; simpl; [reflexivity|]. destruct (leb (f x) (f y)); simpl; [reflexivity|].
  rewrite IH. reflexivity.
Qed.

Section MesInstance.
Variable P : list vcls.

Record mst := mkMst { ms_buds : list Q; ms_projs : list mproj; ms_acc : list proj }.

Definition idleb (a b : mproj) : bool := Nat.leb (mp_id a) (mp_id b).
Definition ids (l : list mproj) : list proj := map mp_id l.

Definition m_scan (s : mst) : Qx * list mproj * list mproj := round_scan P (ms_buds s) (ms_projs s).

(* the name-sorted projects attaining the least affordability factor; [] when the run stops *)
Definition m_ties (s : mst) : list mproj :=
  match fst (fst (m_scan s)) with
  | Fin _ => isort idleb (snd (fst (m_scan s)))
  | PInf => []
  end.
Definition m_rho (s : mst) : Q := match fst (fst (m_scan s)) with Fin rho => rho | PInf => 0 end.
Definition m_next (s : mst) (sel : mproj) : mst :=
  mkMst (pay P sel (m_rho s) (ms_buds s)) (MesRule.remove_proj (mp_id sel) (snd (m_scan s)))
        (ms_acc s ++ [mp_id sel]).

Notation mrun := (run mp_id m_ties m_next ms_acc).
Notation mbranch := (branch mp_id m_ties m_next ms_acc).

Lemma pick_order_corder tb tied : pick_order tb tied = corder mp_id tb (isort idleb tied).
Proof. destruct tied as [|x [|y t]]; reflexivity. Qed.

Lemma corder_nonempty {C} (cid : C -> proj) tb (l : list C) : l <> [] -> corder cid tb l <> [].
Proof.
  intros Hne E. apply Hne. apply (f_equal (@length C)) in E. unfold corder in E. rewrite isort_length in E.
  destruct l; [reflexivity|discriminate].
Qed.

(* one unfolding of the resolute recursion in terms of the process *)
Lemma run_res_S f tb s tr :
  run_res (S f) P tb (ms_buds s) (ms_projs s) (ms_acc s) tr =
  match m_ties s with
  | [] => Some (ms_acc s, rev tr, ms_buds s, snd (m_scan s))
  | _ :: _ =>
      match corder mp_id tb (m_ties s) with
      | [] => Some (ms_acc s, rev tr, ms_buds s, snd (m_scan s))
      | sel :: _ =>
          run_res f P tb (ms_buds (m_next s sel)) (ms_projs (m_next s sel)) (ms_acc (m_next s sel))
                  (mkRound (mp_id sel) (m_rho s) (ms_buds s) (ms_buds (m_next s sel)) :: tr)
      end
  end.
Proof.
  cbn [run_res]. unfold m_next, m_ties, m_rho, m_scan.
  destruct (round_scan P (ms_buds s) (ms_projs s)) as [[best tied] projects'].
  cbn [fst snd]. rewrite pick_order_corder.
  destruct best as [rho|].
  - destruct (isort idleb tied) as [|x t] eqn:Ei; [reflexivity|].
    destruct (corder mp_id tb (x :: t)) as [|sel rest]; reflexivity.
  - destruct (corder mp_id tb (isort idleb tied)); reflexivity.
Qed.

Lemma run_res_run tb : forall f s tr,
  option_map (fun r => fst (fst (fst r))) (run_res (S f) P tb (ms_buds s) (ms_projs s) (ms_acc s) tr)
  = mrun tb f s.
Proof.
  induction f as [|f IH]; intros s tr; rewrite run_res_S, run_unfold.
  - destruct (m_ties s) as [|x t] eqn:Et; [reflexivity|]. rewrite <- Et.
    destruct (corder mp_id tb (m_ties s)) as [|sel rest] eqn:Ec; [|reflexivity].
    exfalso. apply (corder_nonempty mp_id tb (m_ties s)); [rewrite Et; discriminate|exact Ec].
  - destruct (m_ties s) as [|x t] eqn:Et; [reflexivity|]. rewrite <- Et.
    destruct (corder mp_id tb (m_ties s)) as [|sel rest] eqn:Ec.
    + exfalso. apply (corder_nonempty mp_id tb (m_ties s)); [rewrite Et; discriminate|exact Ec].
    + apply (IH (m_next s sel)).
Qed.

(* the accumulating fold of run_irr is a concatenation *)
Lemma fold_concat {A B} (g : A -> option (list B)) : forall l acc,
  fold_left (fun res sel => match res with
                            | None => None
                            | Some L => match g sel with None => None | Some L' => Some (L ++ L') end
                            end) l (Some acc)
  = option_map (app acc) (oconcat (map g l)).
Proof.
  induction l as [|x r IH]; intros acc; simpl.
  - rewrite app_nil_r. reflexivity.
  - destruct (g x) as [L'|].
    + rewrite IH. destruct (oconcat (map g r)); simpl; [rewrite app_assoc|]; reflexivity.
    + clear IH. induction r as [|y r IHr]; simpl; [reflexivity|exact IHr].
Qed.

Lemma oconcat_option_map {A B C} (h : B -> C) (g : A -> option (list B)) l :
  oconcat (map (fun c => option_map (map h) (g c)) l) = option_map (map h) (oconcat (map g l)).
Proof.
  induction l as [|x r IH]; simpl; [reflexivity|]. rewrite IH.
  destruct (g x); simpl; [|reflexivity]. destruct (oconcat (map g r)); simpl; [rewrite map_app|]; reflexivity.
Qed.

Lemma run_irr_S f tb s :
  run_irr (S f) P tb (ms_buds s) (ms_projs s) (ms_acc s) =
  match m_ties s with
  | [] => Some [sort_alloc (ms_acc s)]
  | _ :: _ =>
      oconcat (map (fun sel => run_irr f P tb (ms_buds (m_next s sel)) (ms_projs (m_next s sel))
                                       (ms_acc (m_next s sel)))
                   (corder mp_id tb (m_ties s)))
  end.
Proof.
  cbn [run_irr]. unfold m_next, m_ties, m_rho, m_scan.
  destruct (round_scan P (ms_buds s) (ms_projs s)) as [[best tied] projects'].
  cbn [fst snd]. rewrite pick_order_corder.
  destruct best as [rho|].
  - destruct (isort idleb tied) as [|x t] eqn:Ei; [reflexivity|].
    pose proof (corder_nonempty mp_id tb (x :: t)) as Hn.
    destruct (corder mp_id tb (x :: t)) as [|sel rest] eqn:Ec; [exfalso; apply Hn; [discriminate|reflexivity]|].
    rewrite (fold_concat (fun sel => run_irr f P tb (pay P sel rho (ms_buds s))
                                             (MesRule.remove_proj (mp_id sel) projects') (ms_acc s ++ [mp_id sel]))).
    destruct (oconcat _); reflexivity.
  - destruct (corder mp_id tb (isort idleb tied)); reflexivity.
Qed.

Lemma run_irr_branch tb : forall f s,
  run_irr (S f) P tb (ms_buds s) (ms_projs s) (ms_acc s) = option_map (map sort_alloc) (mbranch tb f s).
Proof.
  induction f as [|f IH]; intros s; rewrite run_irr_S, branch_unfold.
  - destruct (m_ties s) as [|x t] eqn:Et; [reflexivity|]. rewrite <- Et.
    pose proof (corder_nonempty mp_id tb (m_ties s)) as Hn.
    destruct (corder mp_id tb (m_ties s)) as [|sel rest]; [exfalso; apply Hn; [rewrite Et; discriminate|reflexivity]|].
    reflexivity.
  - destruct (m_ties s) as [|x t] eqn:Et; [reflexivity|]. rewrite <- Et.
    rewrite <- oconcat_option_map. f_equal. apply map_ext. intros sel. apply (IH (m_next s sel)).
Qed.

(* ----- what the scan does to project identities ----- *)
Lemma scan_tied_ids buds : forall l best tied b t res,
  scan P buds l best tied = (b, t, res) -> sublist (ids t) (ids tied ++ ids l).
Proof.
  induction l as [|mp r IH]; intros best tied b t res H; cbn [scan] in H.
  - injection H as <- <- <-. rewrite app_nil_r. apply sublist_refl.
  - destruct (Qltb (avail P buds mp) (mp_cost mp)).
    { destruct (scan P buds r best tied) as [[b' t'] res'] eqn:E. injection H as <- <- <-.
      simpl. apply sublist_app_mid. eapply IH. exact E. }
    destruct (Qx_ltb best (Fin (mp_aff mp))).
    { injection H as <- <- <-. apply sublist_app_self. }
    destruct (eval_rho P buds mp (sorted_sup P buds mp)) as [a0|].
    + destruct (Qx_ltb (Fin (Qred a0)) best); cbv iota in H.
      * destruct (scan P buds r (Fin (Qred a0)) _) as [[b' t'] res'] eqn:E. injection H as <- <- <-.
        apply IH in E. simpl in E. simpl. apply sublist_app_l. exact E.
      * destruct (Qx_eqb (Fin (Qred a0)) best); cbv iota in H.
        -- destruct (scan P buds r best _) as [[b' t'] res'] eqn:E. injection H as <- <- <-.
           apply IH in E. unfold ids in *. rewrite map_app, <- app_assoc in E. exact E.
        -- destruct (scan P buds r best tied) as [[b' t'] res'] eqn:E. injection H as <- <- <-.
           simpl. apply sublist_app_mid. eapply IH. exact E.
    + destruct (scan P buds r best tied) as [[b' t'] res'] eqn:E. injection H as <- <- <-.
      simpl. apply sublist_app_mid. eapply IH. exact E.
Qed.

Definition res_ids_ok (res : list (proj * option mproj)) : Prop :=
  forall k mp', In (k, Some mp') res -> mp_id mp' = k.

Lemma scan_res_ids buds : forall l best tied b t res,
  scan P buds l best tied = (b, t, res) -> res_ids_ok res.
Proof.
  unfold res_ids_ok.
  induction l as [|mp r IH]; intros best tied b t res H k mp' Hin; cbn [scan] in H.
  - injection H as <- <- <-. destruct Hin.
  - destruct (Qltb (avail P buds mp) (mp_cost mp)).
    { destruct (scan P buds r best tied) as [[b' t'] res'] eqn:E. injection H as <- <- <-.
      destruct Hin as [Hd|Hin]; [discriminate|]. eapply IH; eassumption. }
    destruct (Qx_ltb best (Fin (mp_aff mp))).
    { injection H as <- <- <-. destruct Hin. }
    destruct (eval_rho P buds mp (sorted_sup P buds mp)) as [a0|].
    + destruct (Qx_ltb (Fin (Qred a0)) best); cbv iota in H.
      * destruct (scan P buds r (Fin (Qred a0)) _) as [[b' t'] res'] eqn:E. injection H as <- <- <-.
        destruct Hin as [[= <- <-]|Hin]; [reflexivity|]. eapply IH; eassumption.
      * destruct (Qx_eqb (Fin (Qred a0)) best); cbv iota in H.
        -- destruct (scan P buds r best _) as [[b' t'] res'] eqn:E. injection H as <- <- <-.
           destruct Hin as [[= <- <-]|Hin]; [reflexivity|]. eapply IH; eassumption.
        -- destruct (scan P buds r best tied) as [[b' t'] res'] eqn:E. injection H as <- <- <-.
           destruct Hin as [[= <- <-]|Hin]; [reflexivity|]. eapply IH; eassumption.
    + destruct (scan P buds r best tied) as [[b' t'] res'] eqn:E. injection H as <- <- <-.
      destruct Hin as [[= <- <-]|Hin]; [reflexivity|]. eapply IH; eassumption.
Qed.

Lemma lookup_In' id res v : lookup id res = Some v -> In (id, v) res.
Proof.
  induction res as [|[k w] r IH]; simpl; [discriminate|].
  destruct (Nat.eqb k id) eqn:E.
  - intros [= <-]. apply Nat.eqb_eq in E. subst. left. reflexivity.
  - intros H. right. apply IH. exact H.
Qed.

Lemma patch_ids projects res : res_ids_ok res -> sublist (ids (patch projects res)) (ids projects).
Proof.
  intros Hok. unfold patch. induction projects as [|mp r IH]; simpl; [constructor|].
  destruct (lookup (mp_id mp) res) as [[mp'|]|] eqn:E; simpl.
  - apply lookup_In' in E. apply Hok in E. unfold ids in *. simpl. rewrite E. apply sl_take. exact IH.
  - apply sl_skip. exact IH.
  - apply sl_take. exact IH.
Qed.

Lemma ids_perm l l' : Permutation l l' -> Permutation (ids l) (ids l').
Proof. apply Permutation_map. Qed.

Lemma round_scan_spec buds projects best tied projects' :
  round_scan P buds projects = (best, tied, projects') ->
  NoDup (ids projects) ->
  NoDup (ids tied) /\ incl (ids tied) (ids projects) /\ sublist (ids projects') (ids projects).
Proof.
  unfold round_scan. intros H Hnd.
  destruct (scan P buds (isort aff_leb projects) PInf []) as [[b t] res] eqn:E. injection H as <- <- <-.
  pose proof (scan_tied_ids _ _ _ _ _ _ _ E) as Hsub. simpl in Hsub.
  pose proof (scan_res_ids _ _ _ _ _ _ _ E) as Hres.
  assert (Hp : Permutation (ids projects) (ids (isort aff_leb projects))) by (apply ids_perm, isort_perm).
  split; [|split].
  - eapply sublist_NoDup; [exact Hsub|]. eapply Permutation_NoDup; [exact Hp|exact Hnd].
  - intros x Hx. eapply Permutation_in; [symmetry; exact Hp|]. eapply sublist_In; eassumption.
  - apply patch_ids. exact Hres.
Qed.

(* ----- the side condition ----- *)
Definition minv (s : mst) : Prop := NoDup (ids (ms_projs s)).
Definition mavail (s : mst) : list proj := ids (ms_projs s).

Lemma m_ties_spec s : minv s ->
  NoDup (ids (m_ties s)) /\ incl (ids (m_ties s)) (mavail s).
Proof.
  intros Hi. unfold m_ties, m_scan.
  destruct (round_scan P (ms_buds s) (ms_projs s)) as [[best tied] projects'] eqn:E. cbn [fst snd].
  destruct (round_scan_spec _ _ _ _ _ E Hi) as [H1 [H2 _]].
  destruct best; [|split; [constructor|intros x []]].
  assert (Hp : Permutation (ids tied) (ids (isort idleb tied))) by (apply ids_perm, isort_perm).
  split.
  - eapply Permutation_NoDup; [exact Hp|exact H1].
  - intros x Hx. apply H2. eapply Permutation_in; [symmetry; exact Hp|exact Hx].
Qed.

Lemma m_next_ids s c : minv s -> sublist (ids (ms_projs (m_next s c))) (ids (ms_projs s)).
Proof.
  intros Hi. unfold m_next, m_scan. cbn [ms_projs].
  destruct (round_scan P (ms_buds s) (ms_projs s)) as [[best tied] projects'] eqn:E. cbn [fst snd].
  destruct (round_scan_spec _ _ _ _ _ E Hi) as [_ [_ H3]].
  eapply sublist_trans; [|exact H3]. unfold MesRule.remove_proj. apply sublist_map_filter.
Qed.

Lemma m_inv_next s c : minv s -> In c (m_ties s) -> minv (m_next s c).
Proof. intros Hi _. unfold minv. eapply sublist_NoDup; [apply m_next_ids; exact Hi|exact Hi]. Qed.

Lemma m_ties_avail s c : minv s -> In c (m_ties s) -> In (mp_id c) (mavail s).
Proof. intros Hi Hc. apply (proj2 (m_ties_spec s Hi)). apply in_map. exact Hc. Qed.

Lemma m_ties_inj s : minv s -> NoDup (map mp_id (m_ties s)).
Proof. intros Hi. apply (proj1 (m_ties_spec s Hi)). Qed.

Lemma m_chosen_gone s c q : minv s -> In c (m_ties s) ->
  In q (mavail (m_next s c)) -> In q (mavail s) /\ q <> mp_id c.
Proof.
  intros Hi _ Hq. split.
  - eapply sublist_In; [apply m_next_ids; exact Hi|exact Hq].
  - unfold mavail, m_next, ids in Hq. cbn [ms_projs] in Hq. apply in_map_iff in Hq.
    destruct Hq as [mp [<- Hmp]]. unfold MesRule.remove_proj in Hmp. apply filter_In in Hmp.
    destruct Hmp as [_ H]. apply negb_true_iff, Nat.eqb_neq in H. exact H.
Qed.

(* `if current_alloc not in all_allocs: all_allocs.append(current_alloc)`: exactly the distinct lists *)
Lemma natl_eqb_eq a : forall b, natl_eqb a b = true <-> a = b.
Proof.
  induction a as [|x r IH]; intros [|y t]; simpl; try (split; [discriminate|discriminate]); [tauto|].
  rewrite andb_true_iff, Nat.eqb_eq, IH. split; [intros [-> ->]; reflexivity|intros [= -> ->]; auto].
Qed.

Lemma dedup_spec l : NoDup (dedup l) /\ forall X, In X (dedup l) <-> In X l.
Proof.
  induction l as [|x r [IH1 IH2]]; simpl; [split; [constructor|tauto]|]. split.
  - constructor.
    + rewrite filter_In. intros [_ H]. apply negb_true_iff in H.
      assert (natl_eqb x x = true) by (apply natl_eqb_eq; reflexivity). congruence.
    + apply NoDup_filter. exact IH1.
  - intros X. rewrite filter_In, IH2, negb_true_iff. split.
    + intros [<-|[H _]]; auto.
    + intros [<-|H]; [left; reflexivity|].
      destruct (list_eq_dec Nat.eq_dec x X) as [->|Hne]; [left; reflexivity|].
      right. split; [exact H|]. destruct (natl_eqb x X) eqn:E; [|reflexivity].
      apply natl_eqb_eq in E. contradiction.
Qed.

End MesInstance.

(* ----- top level: method_of_equal_shares ----- *)
Definition with_tb (x : mes_in) (tb : proj -> Q) : mes_in :=
  mkIn (mi_costs x) (mi_budget x) (mi_voters x) tb (mi_enum x) (mi_bin x) (mi_init x).

Lemma mk_projects_ids P costs bin : forall enum, sublist (ids (fst (mk_projects P costs bin enum))) enum.
Proof.
  induction enum as [|p r IH]; simpl; [constructor|].
  destruct (mk_projects P costs bin r) as [ps zs]. simpl in IH.
  destruct (Qltb 0 (total_sat P p (supporters P p))); [|simpl; apply sl_skip; exact IH].
  destruct (Qltb 0 (nth p costs 0)); simpl; [apply sl_take|apply sl_skip]; exact IH.
Qed.

Section MesTop.
Variable x : mes_in.
Hypothesis enum_nodup : NoDup (mi_enum x).

Let P := mi_voters x.
Let b0 := share x.
Let s0 : mst := mkMst (repeat b0 (length P)) (fst (built x)) (start_alloc x).
Let f0 : nat := length (fst (built x)).

Lemma built_tb tb : built (with_tb x tb) = built x.
Proof. reflexivity. Qed.

Lemma ms0_ids : sublist (ids (fst (built x))) (mi_enum x).
Proof.
  unfold built. eapply sublist_trans; [apply mk_projects_ids|].
  unfold candidates. apply filter_sublist.
Qed.

Lemma ms0_inv : minv s0.
Proof. unfold minv, s0. cbn [ms_projs]. eapply sublist_NoDup; [apply ms0_ids|exact enum_nodup]. Qed.

Lemma ms0_univ : incl (mavail s0) (mi_enum x).
Proof. intros q Hq. eapply sublist_In; [apply ms0_ids|exact Hq]. Qed.

Lemma mes_resolute_run tb :
  option_map o_alloc (mes_resolute (with_tb x tb)) = run mp_id (m_ties P) (m_next P) ms_acc tb f0 s0.
Proof.
  unfold mes_resolute, run_once_res. rewrite built_tb.
  change (share (with_tb x tb)) with b0. change (mi_voters (with_tb x tb)) with P.
  change (mi_tb (with_tb x tb)) with tb. change (start_alloc (with_tb x tb)) with (start_alloc x).
  rewrite <- (run_res_run P tb f0 s0 []). unfold s0, f0. cbn [ms_buds ms_projs ms_acc].
  destruct (run_res _ _ _ _ _ _ _) as [[[[alloc tr] fin] rest]|]; reflexivity.
Qed.

Lemma mes_irresolute_branch tb :
  mes_irresolute (with_tb x tb) =
  option_map (fun L => dedup (map sort_alloc L)) (branch mp_id (m_ties P) (m_next P) ms_acc tb f0 s0).
Proof.
  unfold mes_irresolute, run_once_irr. rewrite built_tb.
  change (share (with_tb x tb)) with b0. change (mi_voters (with_tb x tb)) with P.
  change (mi_tb (with_tb x tb)) with tb. change (start_alloc (with_tb x tb)) with (start_alloc x).
  pose proof (run_irr_branch P tb f0 s0) as H. unfold s0, f0 in *. cbn [ms_buds ms_projs ms_acc] in H.
  rewrite H. destruct (branch _ _ _ _ _ _ _); reflexivity.
Qed.

(* M: irresolute = the (sorted) outcomes of all strict orders *)
Theorem mes_irr_eq_orders tb0 Ws :
  mes_irresolute (with_tb x tb0) = Some Ws ->
  forall X, In X Ws <->
    exists pi o, Permutation pi (mi_enum x) /\ mes_resolute (with_tb x (rank_in pi)) = Some o /\
                 X = sort_alloc (o_alloc o).
Proof.
  rewrite mes_irresolute_branch. intros H X. apply option_map_Some in H. destruct H as [L [HL <-]].
  rewrite (proj2 (dedup_spec (map sort_alloc L))).
  pose proof (leaves_eq_orders mst mproj (list proj) mp_id (m_ties P) (m_next P) ms_acc (minv) (mavail)
                (m_inv_next P) (m_ties_avail P) (m_ties_inj P) (m_chosen_gone P) (mi_enum x) enum_nodup
                tb0 f0 s0 L ms0_inv ms0_univ HL) as Hleaves.
  split.
  - intros HX. apply in_map_iff in HX. destruct HX as [Y [<- HY]].
    apply Hleaves in HY. destruct HY as [pi [Hpi Hrun]].
    rewrite <- mes_resolute_run in Hrun. apply option_map_Some in Hrun. destruct Hrun as [o [Ho <-]].
    exists pi, o. auto.
  - intros [pi [o [Hpi [Ho ->]]]]. apply in_map. apply Hleaves. exists pi. split; [exact Hpi|].
    rewrite <- mes_resolute_run, Ho. reflexivity.
Qed.

Theorem mes_irr_nodup tb0 Ws : mes_irresolute (with_tb x tb0) = Some Ws -> NoDup Ws.
Proof.
  rewrite mes_irresolute_branch. intros H. apply option_map_Some in H. destruct H as [L [_ <-]].
  apply (proj1 (dedup_spec (map sort_alloc L))).
Qed.

Theorem mes_resolute_in_irresolute tb tb0 o Ws :
  mes_resolute (with_tb x tb) = Some o -> mes_irresolute (with_tb x tb0) = Some Ws ->
  In (sort_alloc (o_alloc o)) Ws.
Proof.
  intros Hr Hb. rewrite mes_irresolute_branch in Hb. apply option_map_Some in Hb. destruct Hb as [L [HL <-]].
  apply (proj2 (dedup_spec (map sort_alloc L))). apply in_map.
  eapply (run_in_branch mst mproj (list proj) mp_id (m_ties P) (m_next P) ms_acc tb tb0); [|exact HL].
  rewrite <- mes_resolute_run, Hr. reflexivity.
Qed.

Theorem mes_irr_res_total tb :
  (exists Ws, mes_irresolute (with_tb x tb) = Some Ws /\ Ws <> []) /\
  (exists o, mes_resolute (with_tb x tb) = Some o).
Proof.
  assert (Hlen : (length (mavail s0) <= f0)%nat).
  { unfold mavail, ids, s0, f0. cbn [ms_projs]. rewrite map_length. lia. }
  split.
  - destruct (branch_total mst mproj (list proj) mp_id (m_ties P) (m_next P) ms_acc minv mavail
                (m_inv_next P) (m_ties_avail P) (m_chosen_gone P) (fun s H => H) tb f0 s0 ms0_inv Hlen)
      as [L [HL Hne]].
    rewrite mes_irresolute_branch, HL. eexists. split; [reflexivity|].
    destruct L as [|Y L']; [congruence|]. intros E.
    assert (Hin : In (sort_alloc Y) (dedup (map sort_alloc (Y :: L')))).
    { apply (proj2 (dedup_spec (map sort_alloc (Y :: L')))). left. reflexivity. }
    rewrite E in Hin. exact Hin.
  - destruct (run_total mst mproj (list proj) mp_id (m_ties P) (m_next P) ms_acc minv mavail
                (m_inv_next P) (m_ties_avail P) (m_chosen_gone P) (fun s H => H) tb f0 s0 ms0_inv Hlen) as [Y HY].
    pose proof (mes_resolute_run tb) as Hr. rewrite HY in Hr.
    destruct (mes_resolute (with_tb x tb)) as [o|]; [exists o; reflexivity|discriminate].
Qed.

End MesTop.

(* ------------------------------------------------------------------------------------------ *)
(* the boolean evaluated on the implementation's own lists (Oracle/C08.v)                       *)
(* ------------------------------------------------------------------------------------------ *)
From PB Require Import Oracle.C08.

Lemma memb_list_In W Ws : memb_list W Ws = true <-> In W Ws.
Proof.
  unfold memb_list. rewrite existsb_exists. split.
  - intros [Y [HY E]]. apply list_eqb_nat_eq in E. subst. exact HY.
  - intros H. exists W. split; [exact H|apply list_eqb_nat_eq; reflexivity].
Qed.

Lemma nodupb_list_NoDup l : nodupb_list l = true <-> NoDup l.
Proof.
  induction l as [|x r IH]; simpl.
  - split; [constructor|reflexivity].
  - rewrite andb_true_iff, negb_true_iff, IH. split.
    + intros [H1 H2]. constructor; [|exact H2]. intros Hin. apply memb_list_In in Hin. congruence.
    + inversion 1 as [|? ? Hx Hr]; subst. split; [|exact Hr].
      destruct (memb_list x r) eqn:E; [|reflexivity]. apply memb_list_In in E. contradiction.
Qed.

(* [irr] = the list returned with resoluteness=False, [perm] = the resolute returns over all orders:
   the oracle accepts exactly when, as sets of projects, no allocation is listed twice and the two lists
   contain the same allocations *)
Theorem oracle_ok_iff irr perm :
  oracle_ok irr perm = true <->
  NoDup (map canon irr) /\ forall X, In X (map canon irr) <-> In X (map canon perm).
Proof.
  unfold oracle_ok, irr_nodup, irr_sub, perm_sub.
  rewrite !andb_true_iff, nodupb_list_NoDup, !forallb_forall. split.
  - intros [[H1 H2] H3]. split; [exact H1|]. intros X. split; intros H.
    + apply memb_list_In, H2, H.
    + apply memb_list_In, H3, H.
  - intros [H1 H2]. repeat split; [exact H1| |]; intros X HX; apply memb_list_In, H2, HX.
Qed.
