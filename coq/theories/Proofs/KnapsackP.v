(* Proofs/KnapsackP.v -- the primal/dual knapsack search of Model/MaxWelfare.v: bound validity, completeness
   of the search, reconstruction of the incumbent, optimality of [pd_branch], and the refutation of the
   pre-repair floored bound. *)
From PB Require Import Model.MaxWelfare.
Open Scope Q_scope.

Definition kweight (l : list kitem) : Q := Qsum (map kw l).
Definition kprofit (l : list kitem) : Q := Qsum (map kp l).

(* ---------------------------------------------------------------------------------------------- *)
(* generic facts about sums over a list of indices                                                 *)
(* ---------------------------------------------------------------------------------------------- *)
Lemma Qsum_map_ext {A} (f g : A -> Q) l :
  (forall x, In x l -> f x == g x) -> Qsum (map f l) == Qsum (map g l).
Proof.
  induction l as [|x r IH]; intros H; simpl; [reflexivity|].
  rewrite (H x (or_introl eq_refl)), IH; [reflexivity|]. intros y Hy. apply H. right. exact Hy.
Qed.

Lemma Qsum_map_le {A} (f g : A -> Q) l :
  (forall x, In x l -> f x <= g x) -> Qsum (map f l) <= Qsum (map g l).
Proof.
  induction l as [|x r IH]; intros H; simpl; [apply Qle_refl|].
  apply Qplus_le_compat; [apply H; left; reflexivity|apply IH; intros y Hy; apply H; right; exact Hy].
Qed.

Lemma Qsum_map_lin {A} (f g : A -> Q) e l :
  Qsum (map (fun x => f x - e * g x) l) == Qsum (map f l) - e * Qsum (map g l).
Proof. induction l as [|x r IH]; simpl; [ring|rewrite IH; ring]. Qed.

Lemma Qsum_map_zero {A} (f : A -> Q) l : (forall x, In x l -> f x == 0) -> Qsum (map f l) == 0.
Proof.
  induction l as [|x r IH]; intros H; simpl; [reflexivity|].
  rewrite (H x (or_introl eq_refl)), IH; [ring|]. intros y Hy. apply H. right. exact Hy.
Qed.

(* two families that agree off k have the same sum up to their values at k *)
Lemma Qsum_map_upd (f g : nat -> Q) (k : nat) l :
  NoDup l -> In k l -> (forall i, In i l -> i <> k -> f i == g i) ->
  Qsum (map f l) - f k == Qsum (map g l) - g k.
Proof.
  induction l as [|x r IH]; intros Hnd Hin H; [destruct Hin|].
  inversion Hnd as [|y l0 Hx Hr]; subst. simpl.
  destruct (Nat.eq_dec x k) as [->|Hne].
  - rewrite (Qsum_map_ext f g r); [ring|].
    intros i Hi. apply H; [right; exact Hi|]. intros ->. contradiction.
  - destruct Hin as [->|Hin]; [congruence|].
    rewrite (H x (or_introl eq_refl) Hne).
    assert (E := IH Hr Hin (fun i Hi => H i (or_intror Hi))). lra.
Qed.

(* ---------------------------------------------------------------------------------------------- *)
(* picking items by an index predicate                                                             *)
(* ---------------------------------------------------------------------------------------------- *)
Fixpoint pick (l : list kitem) (i : nat) (f : nat -> bool) : list kitem :=
  match l with
  | [] => []
  | it :: r => if f i then it :: pick r (S i) f else pick r (S i) f
  end.

Lemma pick_ext l : forall i f g, (forall j, (i <= j)%nat -> f j = g j) -> pick l i f = pick l i g.
Proof.
  induction l as [|it r IH]; intros i f g H; simpl; [reflexivity|].
  rewrite (H i (le_n i)), (IH (S i) f g); [reflexivity|]. intros j Hj. apply H. lia.
Qed.

Lemma pick_sublist l : forall i f, sublist (pick l i f) l.
Proof.
  induction l as [|it r IH]; intros i f; simpl; [constructor|].
  destruct (f i); constructor; apply IH.
Qed.

Lemma sublist_pick S l : sublist S l -> forall i, exists f, S = pick l i f.
Proof.
  induction 1 as [|x s l _ IH|x s l _ IH]; intros i.
  - exists (fun _ => false). reflexivity.
  - destruct (IH (Datatypes.S i)) as [f' ->].
    exists (fun j => if Nat.eqb j i then false else f' j). simpl. rewrite Nat.eqb_refl.
    apply pick_ext. intros j Hj. destruct (Nat.eqb_spec j i); [lia|reflexivity].
  - destruct (IH (Datatypes.S i)) as [f' ->].
    exists (fun j => if Nat.eqb j i then true else f' j). simpl. rewrite Nat.eqb_refl. f_equal.
    apply pick_ext. intros j Hj. destruct (Nat.eqb_spec j i); [lia|reflexivity].
Qed.

Lemma pick_sum (val : kitem -> Q) l : forall i f,
  Qsum (map val (pick l i f)) ==
  Qsum (map (fun j => if f j then val (nth (j - i) l dummy_item) else 0) (seq i (length l))).
Proof.
  induction l as [|it r IH]; intros i f; simpl; [reflexivity|].
  rewrite Nat.sub_diag.
  assert (E : Qsum (map (fun j => if f j then val (nth (j - i) (it :: r) dummy_item) else 0) (seq (S i) (length r)))
              == Qsum (map (fun j => if f j then val (nth (j - S i) r dummy_item) else 0) (seq (S i) (length r)))).
  { apply Qsum_map_ext. intros j Hj. apply in_seq in Hj.
    replace (j - i)%nat with (S (j - S i)) by lia. reflexivity. }
  destruct (f i); simpl; rewrite IH, E; ring.
Qed.

Lemma decode_from_pick l : forall i a1s bs x,
  decode_from l i a1s bs x = pick l i (fun j => Nat.ltb j bs && (Nat.ltb j a1s || nth j x false)).
Proof.
  induction l as [|it r IH]; intros i a1s bs x; simpl; [reflexivity|].
  rewrite IH. reflexivity.
Qed.

(* ---------------------------------------------------------------------------------------------- *)
(* set_nth                                                                                         *)
(* ---------------------------------------------------------------------------------------------- *)
Lemma set_nth_length l : forall i v, length (set_nth l i v) = length l.
Proof. induction l as [|y r IH]; intros [|i] v; simpl; auto. Qed.

Lemma nth_set_nth_eq l : forall i v d, (i < length l)%nat -> nth i (set_nth l i v) d = v.
Proof.
  induction l as [|y r IH]; intros [|i] v d H; simpl in *; try lia; [reflexivity|].
  apply IH. lia.
Qed.

Lemma nth_set_nth_neq l : forall i k v d, i <> k -> nth i (set_nth l k v) d = nth i l d.
Proof.
  induction l as [|y r IH]; intros i k v d H; simpl; [destruct k; reflexivity|].
  destruct k as [|k]; destruct i as [|i]; simpl; try reflexivity; try lia.
  apply IH. lia.
Qed.

(* ---------------------------------------------------------------------------------------------- *)
(* the search on a fixed, sorted item list                                                         *)
(* ---------------------------------------------------------------------------------------------- *)
Section PD.
Variable items : list kitem.
Variable cap : Q.
Notation n := (length items).
Hypothesis Hwf : forall i, (i < n)%nat -> 0 < kw (item_at items i) /\ 0 <= kp (item_at items i).
Hypothesis Hsorted : forall i j, (i <= j)%nat -> (j < n)%nat ->
  eff (item_at items j) <= eff (item_at items i).

(* a selection is a predicate on indices; its profit / weight are sums over 0..n-1 *)
Definition tp (sel : nat -> bool) (i : nat) : Q := if sel i then kp (item_at items i) else 0.
Definition tw (sel : nat -> bool) (i : nat) : Q := if sel i then kw (item_at items i) else 0.
Definition prof (sel : nat -> bool) : Q := Qsum (map (tp sel) (seq 0 n)).
Definition wgt (sel : nat -> bool) : Q := Qsum (map (tw sel) (seq 0 n)).

Lemma eff_facts i : (i < n)%nat ->
  0 <= eff (item_at items i) /\ kp (item_at items i) == eff (item_at items i) * kw (item_at items i).
Proof.
  intros Hi. destruct (Hwf i Hi) as [Hw Hp]. unfold eff.
  assert (Hne : ~ kw (item_at items i) == 0) by (intro E; rewrite E in Hw; apply (Qlt_irrefl 0); exact Hw).
  destruct (Qeqb (kw (item_at items i)) 0) eqn:E; [apply Qeqb_iff in E; contradiction|].
  split.
  - apply Qle_shift_div_l; [exact Hw|]. lra.
  - field. exact Hne.
Qed.

Lemma prof_ext s s' : (forall i, (i < n)%nat -> s i = s' i) -> prof s == prof s'.
Proof.
  intros H. apply Qsum_map_ext. intros i Hi. apply in_seq in Hi. unfold tp. rewrite H by lia. reflexivity.
Qed.
Lemma wgt_ext s s' : (forall i, (i < n)%nat -> s i = s' i) -> wgt s == wgt s'.
Proof.
  intros H. apply Qsum_map_ext. intros i Hi. apply in_seq in Hi. unfold tw. rewrite H by lia. reflexivity.
Qed.

(* exchange argument, summed pointwise *)
Lemma exchange (e : Q) (S N : nat -> bool) :
  (forall i, (i < n)%nat -> tp S i - e * tw S i <= tp N i - e * tw N i) ->
  prof S - e * wgt S <= prof N - e * wgt N.
Proof.
  intros H. unfold prof, wgt. rewrite <- !Qsum_map_lin. apply Qsum_map_le.
  intros i Hi. apply in_seq in Hi. apply H. lia.
Qed.

(* flipping one index *)
Lemma prof_flip s s' k : (k < n)%nat -> s k = false -> s' k = true ->
  (forall i, i <> k -> s' i = s i) -> prof s' == prof s + kp (item_at items k).
Proof.
  intros Hk H0 H1 H.
  assert (E : Qsum (map (tp s') (seq 0 n)) - tp s' k == Qsum (map (tp s) (seq 0 n)) - tp s k).
  { apply Qsum_map_upd; [apply seq_NoDup|apply in_seq; lia|].
    intros i _ Hi. unfold tp. rewrite H by exact Hi. reflexivity. }
  assert (E1 : tp s' k == kp (item_at items k)) by (unfold tp; rewrite H1; reflexivity).
  assert (E0 : tp s k == 0) by (unfold tp; rewrite H0; reflexivity).
  unfold prof. lra.
Qed.
Lemma wgt_flip s s' k : (k < n)%nat -> s k = false -> s' k = true ->
  (forall i, i <> k -> s' i = s i) -> wgt s' == wgt s + kw (item_at items k).
Proof.
  intros Hk H0 H1 H.
  assert (E : Qsum (map (tw s') (seq 0 n)) - tw s' k == Qsum (map (tw s) (seq 0 n)) - tw s k).
  { apply Qsum_map_upd; [apply seq_NoDup|apply in_seq; lia|].
    intros i _ Hi. unfold tw. rewrite H by exact Hi. reflexivity. }
  assert (E1 : tw s' k == kw (item_at items k)) by (unfold tw; rewrite H1; reflexivity).
  assert (E0 : tw s k == 0) by (unfold tw; rewrite H0; reflexivity).
  unfold wgt. lra.
Qed.

(* the node (a1, b, D): indices < a1 are in, a1 <= i < b as decided by D, >= b are out *)
Definition node_sel (a1 b : nat) (D : nat -> bool) (i : nat) : bool :=
  if Nat.ltb i a1 then true else if Nat.ltb i b then D i else false.

(* ---------- pd_bound_valid ---------- *)
Lemma bound_k a1 b D S k :
  (a1 <= Datatypes.S k)%nat -> (k <= b)%nat -> (k < n)%nat ->
  (forall i, (a1 <= i < b)%nat -> S i = D i) -> wgt S <= cap ->
  prof S <= prof (node_sel a1 b D) + (cap - wgt (node_sel a1 b D)) * eff (item_at items k).
Proof.
  intros Hak Hkb Hkn Hag Hfeas.
  destruct (eff_facts k Hkn) as [He _].
  set (e := eff (item_at items k)) in *.
  assert (X : prof S - e * wgt S <= prof (node_sel a1 b D) - e * wgt (node_sel a1 b D)).
  { apply exchange. intros i Hi. unfold tp, tw, node_sel.
    destruct (eff_facts i Hi) as [Hei Hpi]. destruct (Hwf i Hi) as [Hwi _].
    destruct (Nat.ltb_spec i a1) as [Hia|Hia].
    - destruct (S i); [apply Qle_refl|].
      assert (Hs : e <= eff (item_at items i)) by (apply Hsorted; lia).
      rewrite Hpi. nra.
    - destruct (Nat.ltb_spec i b) as [Hib|Hib].
      + rewrite Hag by lia. apply Qle_refl.
      + destruct (S i); [|lra].
        assert (Hs : eff (item_at items i) <= e) by (apply Hsorted; lia).
        rewrite Hpi. nra. }
  assert (Y : e * wgt S <= e * cap) by (apply Qmult_le_l' || nra).
  nra.
Qed.

Lemma leaf_b a1 b D S : (n <= b)%nat ->
  (forall i, (a1 <= i < b)%nat -> S i = D i) -> prof S <= prof (node_sel a1 b D).
Proof.
  intros Hb Hag.
  assert (X := exchange 0 S (node_sel a1 b D)).
  assert (Y : prof S - 0 * wgt S <= prof (node_sel a1 b D) - 0 * wgt (node_sel a1 b D)).
  { apply X. intros i Hi. unfold tp, tw, node_sel. destruct (Hwf i Hi) as [_ Hp].
    destruct (Nat.ltb_spec i a1) as [Hia|Hia].
    - destruct (S i); lra.
    - destruct (Nat.ltb_spec i b) as [Hib|Hib]; [|lia]. rewrite Hag by lia. apply Qle_refl. }
  lra.
Qed.

Lemma leaf_a b D S :
  (forall i, (0 <= i < b)%nat -> S i = D i) -> wgt (node_sel 0 b D) <= wgt S.
Proof.
  intros Hag. apply Qsum_map_le. intros i Hi. apply in_seq in Hi. unfold tw, node_sel.
  destruct (Hwf i) as [Hw _]; [lia|]. destruct (Nat.ltb_spec i 0); [lia|].
  destruct (Nat.ltb_spec i b) as [Hib|Hib].
  - rewrite Hag by lia. apply Qle_refl.
  - destruct (S i); lra.
Qed.

(* ---------- decoding the state ---------- *)
(* the selection encoded by (a_star, b_star, x) as seen from the node (a1, b, D) that is being searched:
   x is read only on the indices decided BELOW this node, i.e. a_star < i < a1 and b <= i < b_star *)
Definition sol_of (a1 b : nat) (D : nat -> bool) (st : pdst) (i : nat) : bool :=
  if Nat.ltb i (astar1 st) then true
  else if Nat.ltb i a1 then nth i (xs st) false
  else if Nat.ltb i b then D i
  else if Nat.ltb i (bstar st) then nth i (xs st) false
  else false.

Definition good_state (a1 b : nat) (D : nat -> bool) (st : pdst) : Prop :=
  (astar1 st <= a1)%nat /\ (b <= bstar st)%nat /\
  prof (sol_of a1 b D st) == lb st /\ wgt (sol_of a1 b D st) <= cap.

Definition updD (D : nat -> bool) (k : nat) (v : bool) (i : nat) : bool := if Nat.eqb i k then v else D i.

Lemma sol_setx_b a1 b D st v i : (a1 <= b)%nat -> (b < length (xs st))%nat ->
  (astar1 st <= a1)%nat -> (Datatypes.S b <= bstar st)%nat ->
  sol_of a1 b D (setx st b v) i = sol_of a1 (Datatypes.S b) (updD D b v) st i.
Proof.
  intros Hab Hlen Has Hbs. unfold sol_of, setx, updD. cbn [astar1 bstar xs].
  destruct (Nat.ltb_spec i (astar1 st)); [reflexivity|].
  destruct (Nat.eqb_spec i b) as [->|Hne].
  - destruct (Nat.ltb_spec b a1); [lia|]. destruct (Nat.ltb_spec b b); [lia|].
    destruct (Nat.ltb_spec b (bstar st)); [|lia]. destruct (Nat.ltb_spec b (Datatypes.S b)); [|lia].
    apply nth_set_nth_eq. exact Hlen.
  - rewrite nth_set_nth_neq by exact Hne.
    destruct (Nat.ltb_spec i a1); [reflexivity|].
    destruct (Nat.ltb_spec i b); destruct (Nat.ltb_spec i (Datatypes.S b)); try lia; reflexivity.
Qed.

Lemma sol_setx_a a b D st v i : (Datatypes.S a <= b)%nat -> (a < length (xs st))%nat ->
  (astar1 st <= a)%nat -> (b <= bstar st)%nat ->
  sol_of (Datatypes.S a) b D (setx st a v) i = sol_of a b (updD D a v) st i.
Proof.
  intros Hab Hlen Has Hbs. unfold sol_of, setx, updD. cbn [astar1 bstar xs].
  destruct (Nat.ltb_spec i (astar1 st)); [reflexivity|].
  destruct (Nat.eqb_spec i a) as [->|Hne].
  - destruct (Nat.ltb_spec a (Datatypes.S a)); [|lia]. destruct (Nat.ltb_spec a a); [lia|].
    destruct (Nat.ltb_spec a b); [|lia]. apply nth_set_nth_eq. exact Hlen.
  - rewrite nth_set_nth_neq by exact Hne.
    destruct (Nat.ltb_spec i (Datatypes.S a)); destruct (Nat.ltb_spec i a); try lia; reflexivity.
Qed.

Lemma good_setx_b a1 b D st v : (a1 <= b)%nat -> (b < n)%nat -> length (xs st) = n ->
  good_state a1 (Datatypes.S b) (updD D b v) st -> good_state a1 b D (setx st b v).
Proof.
  intros Hab Hb Hlen (Ha & Hbs & Hp & Hw). unfold good_state. cbn [setx astar1 bstar lb].
  split; [exact Ha|]. split; [lia|]. split.
  - rewrite <- Hp. apply prof_ext. intros i _. apply sol_setx_b; try lia.
  - eapply Qle_trans; [|exact Hw]. apply Qle_lteq. right.
    apply wgt_ext. intros i _. apply sol_setx_b; try lia.
Qed.

Lemma good_setx_a a b D st v : (Datatypes.S a <= b)%nat -> (b <= n)%nat -> length (xs st) = n ->
  good_state a b (updD D a v) st -> good_state (Datatypes.S a) b D (setx st a v).
Proof.
  intros Hab Hb Hlen (Ha & Hbs & Hp & Hw). unfold good_state. cbn [setx astar1 bstar lb].
  split; [lia|]. split; [exact Hbs|]. split.
  - rewrite <- Hp. apply prof_ext. intros i _. apply sol_setx_a; try lia.
  - eapply Qle_trans; [|exact Hw]. apply Qle_lteq. right.
    apply wgt_ext. intros i _. apply sol_setx_a; try lia.
Qed.

(* node bookkeeping for the four recursive calls *)
Lemma node_insert_prof a1 b D : (a1 <= b)%nat -> (b < n)%nat ->
  prof (node_sel a1 (Datatypes.S b) (updD D b true)) == prof (node_sel a1 b D) + kp (item_at items b) /\
  wgt (node_sel a1 (Datatypes.S b) (updD D b true)) == wgt (node_sel a1 b D) + kw (item_at items b).
Proof.
  intros Hab Hb.
  assert (H0 : node_sel a1 b D b = false).
  { unfold node_sel. destruct (Nat.ltb_spec b a1); [lia|]. destruct (Nat.ltb_spec b b); [lia|reflexivity]. }
  assert (H1 : node_sel a1 (Datatypes.S b) (updD D b true) b = true).
  { unfold node_sel, updD. destruct (Nat.ltb_spec b a1); [lia|].
    destruct (Nat.ltb_spec b (Datatypes.S b)); [|lia]. rewrite Nat.eqb_refl. reflexivity. }
  assert (H : forall i, i <> b -> node_sel a1 (Datatypes.S b) (updD D b true) i = node_sel a1 b D i).
  { intros i Hi. unfold node_sel, updD. destruct (Nat.ltb_spec i a1); [reflexivity|].
    destruct (Nat.eqb_spec i b); [contradiction|].
    destruct (Nat.ltb_spec i b); destruct (Nat.ltb_spec i (Datatypes.S b)); try lia; reflexivity. }
  split; [apply prof_flip|apply wgt_flip]; assumption.
Qed.

Lemma node_skip_eq a1 b D i : (a1 <= b)%nat ->
  node_sel a1 (Datatypes.S b) (updD D b false) i = node_sel a1 b D i.
Proof.
  intros Hab. unfold node_sel, updD. destruct (Nat.ltb_spec i a1); [reflexivity|].
  destruct (Nat.eqb_spec i b) as [->|Hne].
  - destruct (Nat.ltb_spec b (Datatypes.S b)); [|lia]. destruct (Nat.ltb_spec b b); [lia|reflexivity].
  - destruct (Nat.ltb_spec i b); destruct (Nat.ltb_spec i (Datatypes.S b)); try lia; reflexivity.
Qed.

Lemma node_remove_prof a b D : (Datatypes.S a <= b)%nat -> (b <= n)%nat ->
  prof (node_sel (Datatypes.S a) b D) == prof (node_sel a b (updD D a false)) + kp (item_at items a) /\
  wgt (node_sel (Datatypes.S a) b D) == wgt (node_sel a b (updD D a false)) + kw (item_at items a).
Proof.
  intros Hab Hb.
  assert (H0 : node_sel a b (updD D a false) a = false).
  { unfold node_sel, updD. destruct (Nat.ltb_spec a a); [lia|]. destruct (Nat.ltb_spec a b); [|lia].
    rewrite Nat.eqb_refl. reflexivity. }
  assert (H1 : node_sel (Datatypes.S a) b D a = true).
  { unfold node_sel. destruct (Nat.ltb_spec a (Datatypes.S a)); [reflexivity|lia]. }
  assert (H : forall i, i <> a -> node_sel (Datatypes.S a) b D i = node_sel a b (updD D a false) i).
  { intros i Hi. unfold node_sel, updD.
    destruct (Nat.ltb_spec i (Datatypes.S a)); destruct (Nat.ltb_spec i a); try lia; try reflexivity.
    destruct (Nat.eqb_spec i a); [contradiction|]. reflexivity. }
  split; [apply prof_flip|apply wgt_flip]; try assumption; lia.
Qed.

Lemma node_keep_eq a b D i : (Datatypes.S a <= b)%nat ->
  node_sel a b (updD D a true) i = node_sel (Datatypes.S a) b D i.
Proof.
  intros Hab. unfold node_sel, updD.
  destruct (Nat.eqb_spec i a) as [->|Hne].
  - destruct (Nat.ltb_spec a a); [lia|]. destruct (Nat.ltb_spec a b); [|lia].
    destruct (Nat.ltb_spec a (Datatypes.S a)); [reflexivity|lia].
  - destruct (Nat.ltb_spec i (Datatypes.S a)); destruct (Nat.ltb_spec i a); try lia; reflexivity.
Qed.

Lemma agree_upd (S D : nat -> bool) lo k v hi :
  (forall i, (lo <= i < hi)%nat -> i <> k -> S i = D i) -> S k = v ->
  forall i, (lo <= i < hi)%nat -> S i = updD D k v i.
Proof.
  intros H Hk i Hi. unfold updD. destruct (Nat.eqb_spec i k) as [->|Hne]; [exact Hk|apply H; assumption].
Qed.

(* ---------- pd_search_complete + pd_reconstruct, in one induction over the run ---------- *)
Lemma pd_impl_spec : forall fuel a1 b P W st D,
  (a1 <= b)%nat -> (b <= n)%nat -> (a1 + (n - b) < fuel)%nat ->
  length (xs st) = n ->
  P == prof (node_sel a1 b D) -> W == wgt (node_sel a1 b D) ->
  exists imp st', pd_impl fuel items cap a1 b P W st = Some (imp, st') /\
    length (xs st') = n /\
    lb st <= lb st' /\
    (imp = false -> st' = st) /\
    (imp = true -> lb st < lb st' /\ good_state a1 b D st') /\
    (forall S, (forall i, (a1 <= i < b)%nat -> S i = D i) -> wgt S <= cap -> prof S <= lb st').
Proof.
  induction fuel as [|f IH]; intros a1 b P W st D Hab Hbn Hfuel Hlen HP HW; [lia|].
  cbn [pd_impl].
  destruct (Qleb W cap) eqn:HWc.
  - apply Qleb_iff in HWc.
    set (r := if Qltb (lb st) P then (true, mkSt P a1 b (xs st)) else (false, st)).
    assert (Hr : exists imp0 stn, r = (imp0, stn) /\ length (xs stn) = n /\ lb st <= lb stn /\
               P <= lb stn /\ (imp0 = false -> stn = st) /\
               (imp0 = true -> lb st < lb stn /\ good_state a1 b D stn)).
    { unfold r. destruct (Qltb (lb st) P) eqn:E.
      - apply Qltb_iff in E. exists true, (mkSt P a1 b (xs st)). cbn [lb xs].
        split; [reflexivity|]. split; [exact Hlen|]. split; [lra|]. split; [lra|].
        split; [discriminate|]. intros _. split; [exact E|].
        assert (Hs : forall i, sol_of a1 b D (mkSt P a1 b (xs st)) i = node_sel a1 b D i).
        { intros i. unfold sol_of, node_sel. cbn [astar1 bstar xs].
          destruct (Nat.ltb_spec i a1); [reflexivity|]. destruct (Nat.ltb_spec i b); reflexivity. }
        unfold good_state. cbn [astar1 bstar lb]. split; [lia|]. split; [lia|]. split.
        + transitivity (prof (node_sel a1 b D)); [apply prof_ext; intros i _; apply Hs|symmetry; exact HP].
        + assert (Ew : wgt (sol_of a1 b D (mkSt P a1 b (xs st))) == wgt (node_sel a1 b D))
            by (apply wgt_ext; intros i _; apply Hs).
          rewrite Ew, <- HW. exact HWc.
      - apply Qltb_false_iff in E. exists false, st.
        split; [reflexivity|]. split; [exact Hlen|]. split; [lra|]. split; [exact E|].
        split; [reflexivity|discriminate]. }
    clearbody r. destruct Hr as (imp0 & stn & -> & Hlenn & Hmono & HPn & Hun & Hgn).
    cbv beta iota.
    destruct (Nat.leb n b) eqn:Hleb.
    + (* b beyond the last item *)
      apply Nat.leb_le in Hleb. exists imp0, stn.
      split; [reflexivity|]. split; [exact Hlenn|]. split; [exact Hmono|]. split; [exact Hun|].
      split; [exact Hgn|]. intros S Hag _.
      eapply Qle_trans; [apply (leaf_b a1 b D S Hleb Hag)|]. rewrite <- HP. exact HPn.
    + apply Nat.leb_gt in Hleb.
      destruct (Qleb (P + (cap - W) * eff (item_at items b)) (lb stn)) eqn:Hprune.
      * (* pruned by the bound *)
        apply Qleb_iff in Hprune. exists imp0, stn.
        split; [reflexivity|]. split; [exact Hlenn|]. split; [exact Hmono|]. split; [exact Hun|].
        split; [exact Hgn|]. intros S Hag Hfeas.
        assert (Hb := bound_k a1 b D S b ltac:(lia) ltac:(lia) Hleb Hag Hfeas).
        rewrite <- HP, <- HW in Hb. lra.
      * (* branch on item b *)
        destruct (node_insert_prof a1 b D Hab Hleb) as [Ep Ew].
        destruct (IH a1 (Datatypes.S b) (Qred (P + kp (item_at items b))) (Qred (W + kw (item_at items b)))
                     stn (updD D b true)) as (i1 & st1 & E1 & L1 & M1 & U1 & G1 & C1);
          [lia|lia|lia|exact Hlenn|rewrite Qred_correct, Ep, HP; reflexivity
          |rewrite Qred_correct, Ew, HW; reflexivity|].
        rewrite E1.
        set (r1 := if i1 then (true, setx st1 b true) else (imp0, st1)).
        assert (Hr1 : exists imp1 st1', r1 = (imp1, st1') /\ length (xs st1') = n /\ lb stn <= lb st1' /\
                   (imp1 = false -> st1' = st) /\
                   (imp1 = true -> lb st < lb st1' /\ good_state a1 b D st1') /\
                   (forall S, (forall i, (a1 <= i < b)%nat -> S i = D i) -> S b = true ->
                              wgt S <= cap -> prof S <= lb st1')).
        { unfold r1. destruct i1.
          - exists true, (setx st1 b true). destruct (G1 eq_refl) as [Hlt Hg].
            split; [reflexivity|]. split; [cbn [setx xs]; rewrite set_nth_length; exact L1|].
            split; [cbn [setx lb]; lra|]. split; [discriminate|]. split.
            + intros _. split; [cbn [setx lb]; lra|]. apply good_setx_b; assumption.
            + intros S Hag Hb Hfeas. cbn [setx lb]. apply C1; [|exact Hfeas].
              apply agree_upd; [|exact Hb]. intros i Hi Hne. apply Hag. lia.
          - exists imp0, st1. rewrite (U1 eq_refl) in *.
            split; [reflexivity|]. split; [exact Hlenn|]. split; [lra|]. split; [exact Hun|].
            split; [exact Hgn|]. intros S Hag Hb Hfeas. apply C1; [|exact Hfeas].
            apply agree_upd; [|exact Hb]. intros i Hi Hne. apply Hag. lia. }
        clearbody r1. destruct Hr1 as (imp1 & st1' & -> & L1' & M1' & U1' & G1' & C1').
        cbv beta iota.
        destruct (IH a1 (Datatypes.S b) P W st1' (updD D b false))
          as (i2 & st2 & E2 & L2 & M2 & U2 & G2 & C2);
          [lia|lia|lia|exact L1'
          |rewrite HP; apply prof_ext; intros i _; symmetry; apply node_skip_eq; exact Hab
          |rewrite HW; apply wgt_ext; intros i _; symmetry; apply node_skip_eq; exact Hab|].
        rewrite E2.
        assert (HC : forall S, (forall i, (a1 <= i < b)%nat -> S i = D i) -> wgt S <= cap -> prof S <= lb st2).
        { intros S Hag Hfeas. destruct (S b) eqn:Hb.
          - eapply Qle_trans; [apply C1'; assumption|exact M2].
          - apply C2; [|exact Hfeas]. apply agree_upd; [|exact Hb]. intros i Hi Hne. apply Hag. lia. }
        destruct i2.
        -- destruct (G2 eq_refl) as [Hlt Hg]. exists true, (setx st2 b false).
           split; [reflexivity|]. split; [cbn [setx xs]; rewrite set_nth_length; exact L2|].
           split; [cbn [setx lb]; lra|]. split; [discriminate|]. split.
           ++ intros _. split; [cbn [setx lb]; lra|]. apply good_setx_b; assumption.
           ++ exact HC.
        -- rewrite (U2 eq_refl) in *. exists imp1, st1'.
           split; [reflexivity|]. split; [exact L1'|]. split; [lra|]. split; [exact U1'|].
           split; [exact G1'|exact HC].
  - (* over capacity: remove items from the front *)
    apply Qleb_false_iff in HWc.
    destruct a1 as [|a].
    + exists false, st. split; [reflexivity|]. split; [exact Hlen|]. split; [apply Qle_refl|].
      split; [reflexivity|]. split; [discriminate|]. intros S Hag Hfeas. exfalso.
      assert (X := leaf_a b D S Hag). rewrite <- HW in X. lra.
    + destruct (Qleb (P + (cap - W) * eff (item_at items a)) (lb st)) eqn:Hprune.
      * apply Qleb_iff in Hprune. exists false, st.
        split; [reflexivity|]. split; [exact Hlen|]. split; [apply Qle_refl|].
        split; [reflexivity|]. split; [discriminate|]. intros S Hag Hfeas.
        assert (Hb := bound_k (Datatypes.S a) b D S a ltac:(lia) ltac:(lia) ltac:(lia) Hag Hfeas).
        rewrite <- HP, <- HW in Hb. lra.
      * destruct (node_remove_prof a b D Hab Hbn) as [Ep Ew].
        destruct (IH a b (Qred (P - kp (item_at items a))) (Qred (W - kw (item_at items a)))
                     st (updD D a false)) as (i1 & st1 & E1 & L1 & M1 & U1 & G1 & C1);
          [lia|lia|lia|exact Hlen|rewrite Qred_correct, HP, Ep; ring
          |rewrite Qred_correct, HW, Ew; ring|].
        rewrite E1.
        set (r1 := if i1 then (true, setx st1 a false) else (false, st1)).
        assert (Hr1 : exists imp1 st1', r1 = (imp1, st1') /\ length (xs st1') = n /\ lb st <= lb st1' /\
                   (imp1 = false -> st1' = st) /\
                   (imp1 = true -> lb st < lb st1' /\ good_state (Datatypes.S a) b D st1') /\
                   (forall S, (forall i, (Datatypes.S a <= i < b)%nat -> S i = D i) -> S a = false ->
                              wgt S <= cap -> prof S <= lb st1')).
        { unfold r1. destruct i1.
          - exists true, (setx st1 a false). destruct (G1 eq_refl) as [Hlt Hg].
            split; [reflexivity|]. split; [cbn [setx xs]; rewrite set_nth_length; exact L1|].
            split; [cbn [setx lb]; lra|]. split; [discriminate|]. split.
            + intros _. split; [cbn [setx lb]; lra|]. apply good_setx_a; assumption.
            + intros S Hag Ha Hfeas. cbn [setx lb]. apply C1; [|exact Hfeas].
              apply agree_upd; [|exact Ha]. intros i Hi Hne. apply Hag. lia.
          - exists false, st1. rewrite (U1 eq_refl) in *.
            split; [reflexivity|]. split; [exact Hlen|]. split; [lra|]. split; [reflexivity|].
            split; [discriminate|]. intros S Hag Ha Hfeas. apply C1; [|exact Hfeas].
            apply agree_upd; [|exact Ha]. intros i Hi Hne. apply Hag. lia. }
        clearbody r1. destruct Hr1 as (imp1 & st1' & -> & L1' & M1' & U1' & G1' & C1').
        cbv beta iota.
        destruct (IH a b P W st1' (updD D a true))
          as (i2 & st2 & E2 & L2 & M2 & U2 & G2 & C2);
          [lia|lia|lia|exact L1'
          |rewrite HP; apply prof_ext; intros i _; symmetry; apply node_keep_eq; exact Hab
          |rewrite HW; apply wgt_ext; intros i _; symmetry; apply node_keep_eq; exact Hab|].
        rewrite E2.
        assert (HC : forall S, (forall i, (Datatypes.S a <= i < b)%nat -> S i = D i) -> wgt S <= cap ->
                               prof S <= lb st2).
        { intros S Hag Hfeas. destruct (S a) eqn:Ha.
          - apply C2; [|exact Hfeas]. apply agree_upd; [|exact Ha]. intros i Hi Hne. apply Hag. lia.
          - eapply Qle_trans; [apply C1'; assumption|exact M2]. }
        destruct i2.
        -- destruct (G2 eq_refl) as [Hlt Hg]. exists true, (setx st2 a true).
           split; [reflexivity|]. split; [cbn [setx xs]; rewrite set_nth_length; exact L2|].
           split; [cbn [setx lb]; lra|]. split; [discriminate|]. split.
           ++ intros _. split; [cbn [setx lb]; lra|]. apply good_setx_a; assumption.
           ++ exact HC.
        -- rewrite (U2 eq_refl) in *. exists imp1, st1'.
           split; [reflexivity|]. split; [exact L1'|]. split; [lra|]. split; [exact U1'|].
           split; [exact G1'|exact HC].
Qed.
End PD.

(* ---------------------------------------------------------------------------------------------- *)
(* from the sorted list / the split loop / the reconstruction loop to [pd_branch]                  *)
(* ---------------------------------------------------------------------------------------------- *)
Lemma eff_geb_total x y : eff_geb x y = true \/ eff_geb y x = true.
Proof.
  unfold eff_geb. destruct (Qleb (eff y) (eff x)) eqn:E; [left; reflexivity|right].
  apply Qleb_false_iff in E. apply Qleb_iff. lra.
Qed.
Lemma eff_geb_trans x y z : eff_geb x y = true -> eff_geb y z = true -> eff_geb x z = true.
Proof. unfold eff_geb. rewrite !Qleb_iff. lra. Qed.

Lemma StronglySorted_nth {A} (R : A -> A -> Prop) l d : StronglySorted R l ->
  forall i j, (i < j)%nat -> (j < length l)%nat -> R (nth i l d) (nth j l d).
Proof.
  induction 1 as [|a l Hs IH Hall]; intros i j Hij Hj; simpl in *; [lia|].
  destruct i as [|i]; destruct j as [|j]; try lia.
  - rewrite Forall_forall in Hall. apply Hall. apply nth_In. lia.
  - apply IH; lia.
Qed.

Lemma sort_items_sorted items0 i j : (i <= j)%nat -> (j < length (sort_items items0))%nat ->
  eff (item_at (sort_items items0) j) <= eff (item_at (sort_items items0) i).
Proof.
  intros Hij Hj. destruct (Nat.eq_dec i j) as [->|Hne]; [apply Qle_refl|].
  assert (H := StronglySorted_nth _ (sort_items items0) dummy_item
                 (isort_sorted eff_geb eff_geb_total eff_geb_trans items0) i j ltac:(lia) Hj).
  unfold lebP, eff_geb in H. apply Qleb_iff in H. exact H.
Qed.

Lemma sort_items_wf items0 : Forall (fun it => 0 < kw it /\ 0 <= kp it) items0 ->
  forall i, (i < length (sort_items items0))%nat ->
  0 < kw (item_at (sort_items items0) i) /\ 0 <= kp (item_at (sort_items items0) i).
Proof.
  intros H i Hi. rewrite Forall_forall in H. apply H. apply (isort_In eff_geb). apply nth_In. exact Hi.
Qed.

Definition wsum (items : list kitem) (s : nat) : Q := Qsum (map (fun j => kw (item_at items j)) (seq 0 s)).
Definition psum (items : list kitem) (s : nat) : Q := Qsum (map (fun j => kp (item_at items j)) (seq 0 s)).

Lemma split_loop_spec items : forall rest i tmp sw sp sidx s sw' sp',
  (forall k, (k < length rest)%nat -> nth k rest dummy_item = item_at items (i + k)) ->
  (i + length rest = length items)%nat ->
  sw == wsum items i -> sp == psum items i -> (rest = [] -> sidx = i) ->
  split_loop rest i (length items) tmp sw sp sidx = (s, sw', sp') ->
  (s <= length items)%nat /\ sw' == wsum items s /\ sp' == psum items s.
Proof.
  induction rest as [|it r IH]; intros i tmp sw sp sidx s sw' sp' Hnth Hlen Hsw Hsp Hnil E.
  - simpl in E. inversion E; subst. rewrite (Hnil eq_refl) in *. simpl in Hlen.
    split; [lia|]. split; assumption.
  - cbn [split_loop] in E.
    set (tmp' := Qred (tmp - kw it)) in *.
    destruct (Qltb tmp' 0) eqn:Hlt.
    + assert (Hle : Qleb 0 tmp' = false) by (apply Qltb_iff in Hlt; apply Qleb_false_iff; exact Hlt).
      rewrite Hle, andb_false_r in E. inversion E; subst. simpl in Hlen.
      split; [lia|]. split; assumption.
    + assert (Hit : it = item_at items i).
      { specialize (Hnth 0%nat). simpl in Hnth. rewrite Nat.add_0_r in Hnth. apply Hnth. lia. }
      eapply (IH (S i)); [| | | | |exact E].
      * intros k Hk. specialize (Hnth (S k)). simpl in Hnth. rewrite Hnth by lia. f_equal. lia.
      * simpl in Hlen. lia.
      * rewrite Qred_correct. unfold wsum. rewrite seq_S, map_app, Qsum_app. simpl.
        unfold wsum in Hsw. rewrite <- Hsw, Hit. ring.
      * rewrite Qred_correct. unfold psum. rewrite seq_S, map_app, Qsum_app. simpl.
        unfold psum in Hsp. rewrite <- Hsp, Hit. ring.
      * intros ->. simpl in Hlen.
        assert (Hi : Nat.eqb i (length items - 1) = true) by (apply Nat.eqb_eq; lia).
        assert (Hle : Qleb 0 tmp' = true) by (apply Qltb_false_iff in Hlt; apply Qleb_iff; exact Hlt).
        rewrite Hi, Hle. reflexivity.
Qed.

Lemma prof_prefix items s : (s <= length items)%nat ->
  prof items (fun j => Nat.ltb j s) == psum items s /\ wgt items (fun j => Nat.ltb j s) == wsum items s.
Proof.
  intros Hs. unfold prof, wgt, psum, wsum.
  replace (length items) with (s + (length items - s))%nat by lia.
  rewrite seq_app, !map_app, !Qsum_app. simpl.
  split.
  - rewrite (Qsum_map_zero (tp items (fun j => Nat.ltb j s)) (seq s (length items - s))).
    + rewrite Qplus_0_r. apply Qsum_map_ext. intros j Hj. apply in_seq in Hj. unfold tp.
      destruct (Nat.ltb_spec j s); [reflexivity|lia].
    + intros j Hj. apply in_seq in Hj. unfold tp. destruct (Nat.ltb_spec j s); [lia|reflexivity].
  - rewrite (Qsum_map_zero (tw items (fun j => Nat.ltb j s)) (seq s (length items - s))).
    + rewrite Qplus_0_r. apply Qsum_map_ext. intros j Hj. apply in_seq in Hj. unfold tw.
      destruct (Nat.ltb_spec j s); [reflexivity|lia].
    + intros j Hj. apply in_seq in Hj. unfold tw. destruct (Nat.ltb_spec j s); [lia|reflexivity].
Qed.

Lemma pick_prof items f : kprofit (pick items 0 f) == prof items f.
Proof.
  unfold kprofit, prof. rewrite (pick_sum kp). apply Qsum_map_ext. intros j _. unfold tp, item_at.
  rewrite Nat.sub_0_r. reflexivity.
Qed.
Lemma pick_wgt items f : kweight (pick items 0 f) == wgt items f.
Proof.
  unfold kweight, wgt. rewrite (pick_sum kw). apply Qsum_map_ext. intros j _. unfold tw, item_at.
  rewrite Nat.sub_0_r. reflexivity.
Qed.

(* the index predicate evaluated by the reconstruction loop *)
Definition dec (st : pdst) (j : nat) : bool :=
  Nat.ltb j (bstar st) && (Nat.ltb j (astar1 st) || nth j (xs st) false).

Lemma decode_pick items st : decode items st = pick items 0 (dec st).
Proof. unfold decode. rewrite decode_from_pick. reflexivity. Qed.

(* ---------- the whole run on an already sorted list ---------- *)
Lemma pd_run_sorted items cap :
  (forall i, (i < length items)%nat -> 0 < kw (item_at items i) /\ 0 <= kp (item_at items i)) ->
  (forall i j, (i <= j)%nat -> (j < length items)%nat -> eff (item_at items j) <= eff (item_at items i)) ->
  0 <= cap ->
  forall sidx sw sp, split_loop items 0 (length items) cap 0 0 0 = (sidx, sw, sp) ->
  items <> [] ->
  exists imp st,
    pd_impl (pd_fuel items) items cap sidx sidx sp sw (mkSt 0 0 0 (repeat false (length items))) = Some (imp, st) /\
    kprofit (decode items st) == lb st /\ kweight (decode items st) <= cap /\
    (forall S, sublist S items -> kweight S <= cap -> kprofit S <= lb st).
Proof.
  intros Hwf Hsorted Hcap sidx sw sp Hsplit Hne.
  destruct (split_loop_spec items items 0 cap 0 0 0 sidx sw sp) as (Hs & Hsw & Hsp);
    [intros k _; reflexivity|reflexivity|reflexivity|reflexivity
    |intros ->; contradiction|exact Hsplit|].
  destruct (prof_prefix items sidx Hs) as [Epp Epw].
  set (D := fun _ : nat => false).
  assert (Hnode : forall i, node_sel sidx sidx D i = Nat.ltb i sidx).
  { intros i. unfold node_sel. destruct (Nat.ltb i sidx); reflexivity. }
  destruct (pd_impl_spec items cap Hwf Hsorted (pd_fuel items) sidx sidx sp sw
              (mkSt 0 0 0 (repeat false (length items))) D)
    as (imp & st & E & L & M & U & G & C).
  { lia. } { exact Hs. } { unfold pd_fuel. lia. } { cbn [xs]. apply repeat_length. }
  { rewrite Hsp, <- Epp. apply prof_ext. intros i _. symmetry. apply Hnode. }
  { rewrite Hsw, <- Epw. apply wgt_ext. intros i _. symmetry. apply Hnode. }
  exists imp, st. split; [exact E|].
  assert (Hdec : prof items (dec st) == lb st /\ wgt items (dec st) <= cap).
  { destruct imp.
    - destruct (G eq_refl) as [_ (Ha & Hb & Hp & Hw)].
      assert (Hsol : forall i, sol_of sidx sidx D st i = dec st i).
      { intros i. unfold sol_of, dec.
        destruct (Nat.ltb_spec i (astar1 st)); destruct (Nat.ltb_spec i sidx);
          destruct (Nat.ltb_spec i (bstar st)); try lia; simpl; try reflexivity.
        all: try (destruct (nth i (xs st) false); reflexivity). }
      split.
      + rewrite <- Hp. apply prof_ext. intros i _. symmetry. apply Hsol.
      + eapply Qle_trans; [|exact Hw]. apply Qle_lteq. right. apply wgt_ext. intros i _. symmetry. apply Hsol.
    - rewrite (U eq_refl). cbn [lb]. split.
      + apply Qsum_map_zero. intros j _. unfold tp, dec. cbn [bstar]. reflexivity.
      + assert (Z : wgt items (dec (mkSt 0 0 0 (repeat false (length items)))) == 0).
        { apply Qsum_map_zero. intros j _. unfold tw, dec. cbn [bstar]. reflexivity. }
        rewrite Z. exact Hcap. }
  destruct Hdec as [Hdp Hdw].
  split; [rewrite decode_pick, pick_prof; exact Hdp|].
  split; [rewrite decode_pick, pick_wgt; exact Hdw|].
  intros S HS Hfeas. destruct (sublist_pick S items HS 0) as [f ->].
  rewrite pick_prof. apply C; [intros i Hi; lia|]. rewrite <- pick_wgt. exact Hfeas.
Qed.

(* ---------- maxwelfare's knapsack: [pd_branch] returns an optimal sub-list ---------- *)
Theorem pd_branch_optimal items0 cap :
  Forall (fun it => 0 < kw it /\ 0 <= kp it) items0 -> 0 <= cap ->
  exists sel, pd_branch items0 cap = Some sel /\ sublist sel (sort_items items0) /\
    kweight sel <= cap /\
    (forall S, sublist S (sort_items items0) -> kweight S <= cap -> kprofit S <= kprofit sel).
Proof.
  intros Hwf Hcap. destruct items0 as [|it0 r0].
  - exists []. split; [reflexivity|]. split; [constructor|]. split; [exact Hcap|].
    intros S HS _. apply sublist_nil_inv in HS. subst. apply Qle_refl.
  - unfold pd_branch.
    set (items := sort_items (it0 :: r0)).
    assert (Hne : items <> []).
    { intros E. assert (L := isort_length eff_geb (it0 :: r0)). fold (sort_items (it0 :: r0)) in L.
      fold items in L. rewrite E in L. simpl in L. lia. }
    destruct (split_loop items 0 (length items) cap 0 0 0) as [[sidx sw] sp] eqn:Hsplit.
    destruct (pd_run_sorted items cap (sort_items_wf _ Hwf) (sort_items_sorted _) Hcap sidx sw sp Hsplit Hne)
      as (imp & st & E & Hp & Hw & Hc).
    rewrite E. exists (decode items st).
    split; [reflexivity|]. split; [rewrite decode_pick; apply pick_sublist|]. split; [exact Hw|].
    intros S HS Hfeas. rewrite Hp. apply Hc; assumption.
Qed.

(* ---------- the old bound (math.floor) is wrong for fractional profits ---------- *)
Definition floor_witness : list kitem :=
  [mkItem 2%nat (3#4) (3#4); mkItem 0%nat (1#2) (1#2); mkItem 1%nat (1#3) (1#3)].

Lemma pd_floor_refuted_lemma :
  exists items cap sel S,
    Forall (fun it => 0 < kw it /\ 0 <= kp it) items /\ 0 <= cap /\
    pd_branch_floor items cap = Some sel /\
    sublist S items /\ kweight S <= cap /\ kprofit sel < kprofit S.
Proof.
  exists floor_witness, 1, [mkItem 2%nat (3#4) (3#4)],
         [mkItem 0%nat (1#2) (1#2); mkItem 1%nat (1#3) (1#3)].
  split; [repeat constructor; simpl; lra|].
  split; [lra|]. split; [vm_compute; reflexivity|].
  split; [unfold floor_witness; constructor; constructor; constructor; constructor|].
  split; vm_compute; [discriminate|reflexivity].
Qed.
