(* Proofs/ComposePMesIter.v -- the iterated Equal Shares of the RULE model (Model/MesRule.v: iter_res / iter_irr,
   mes_iter_resolute / mes_iter_irresolute) IS the retry loop of the WRAPPER model (Model/Exhaustion.v:
   mes_iter_res / mes_iter_irr) around one run of the inner algorithm, with
       R      = mes_run_alloc x      (one run at endowment b, MesRun: run_once_res)
       avail  = mes_avail x          (the supported positive-cost candidates)
       prev0  = start_alloc x        (initial allocation + supported zero-cost projects)
       b0     = share x, step = inc.
   The two models differ in ONE place: when the very first run is already infeasible the rule model returns its
   [prev] = None (indistinguishable from "out of fuel"), the wrapper model returns (1, prev0) as the code does.
   Under the hypotheses of C01 the first run is feasible, so the case does not arise (first_run_feasible). *)
From PB Require Import Model.Compose Proofs.InstanceP Proofs.ExhaustionP Proofs.ComposeP.
From PB Require Import Model.MesRule.
From PB Require Proofs.MesWf Proofs.MesBinary Proofs.MesRun Proofs.MesFeasible.
Open Scope Q_scope.

Lemma Qred_idem q : Qred (Qred q) = Qred q.
Proof. apply Qred_complete. apply Qred_correct. Qed.

Lemma Qred_canon_step b inc : Qred (Qred (b + inc)) = Qred (b + inc).
Proof. apply Qred_idem. Qed.

Lemma share_canon x : Qred (share x) = share x.
Proof. unfold share. apply Qred_idem. Qed.

Section MesIter.
  Variable x : mes_in.
  Variable inc : Q.
  Let I := mi_inst x.
  Let R := mes_run_alloc x.
  Let Rs := mes_run_allocs x.
  Let bad := infeasible1 I.
  Let exh := exh1 I true (mes_avail x).
  Let bads := infeasible_any I.
  Let exhs := exh_any I true (mes_avail x).

  (* ---- the tests of the two models are the same functions ---- *)
  Lemma bad_is W : negb (alloc_feasible x W) = bad W.
  Proof. reflexivity. Qed.

  Lemma exh_list W c B l : Forall (MesWf.wf_mp (mi_voters x) (mi_costs x)) l ->
    forallb (fun mp => memb (mp_id mp) W || negb (Qleb (mp_cost mp + c) B)) l =
    forallb (fun p => memb p W || negb (Qleb (cost I p + c) B)) (map mp_id l).
  Proof.
    induction 1 as [|mp l Hmp _ IH]; simpl; [reflexivity|]. rewrite IH.
    destruct Hmp as [_ [_ [Ec _]]]. rewrite Ec. reflexivity.
  Qed.

  Lemma exh_is W : alloc_exhaustive x W = exh W.
  Proof.
    unfold exh, exh1, is_exhaustive, alloc_exhaustive, mes_avail. cbn [andb].
    apply exh_list. unfold built. apply MesBinary.mk_projects_wf.
  Qed.

  Lemma bads_is Ws : existsb (fun W => negb (alloc_feasible x W)) Ws = bads Ws.
  Proof. reflexivity. Qed.

  Lemma exhs_is Ws : existsb (alloc_exhaustive x) Ws = exhs Ws.
  Proof.
    unfold exhs, exh_any. cbn [andb]. induction Ws as [|W r IH]; simpl; [reflexivity|].
    rewrite IH. f_equal. rewrite exh_is. unfold exh, exh1. reflexivity.
  Qed.

  (* ---- one run ---- *)
  Lemma run_alloc_canon b o : Qred b = b -> run_once_res x b = Some o -> R b = o_alloc o.
  Proof. intros Hb E. unfold R, mes_run_alloc. rewrite Hb, E. reflexivity. Qed.

  Lemma run_allocs_canon b L : Qred b = b -> run_once_irr x b = Some L -> Rs b = L.
  Proof. intros Hb E. unfold Rs, mes_run_allocs. rewrite Hb, E. reflexivity. Qed.

  Lemma R_proper b b' : b == b' -> R b = R b'.
  Proof. intros E. unfold R, mes_run_alloc. rewrite (Qred_complete b b' E). reflexivity. Qed.

  Lemma Rs_proper b b' : b == b' -> Rs b = Rs b'.
  Proof. intros E. unfold Rs, mes_run_allocs. rewrite (Qred_complete b b' E). reflexivity. Qed.

  (* ---- resolute: the simulation ---- *)
  Definition lift (prev : option mes_out) : alloc :=
    match prev with Some o => o_alloc o | None => start_alloc x end.

  (* [r] = what the wrapper model's loop returns from (k, b, lift prev); [i] = what the rule model's returns *)
  Definition sim (k : nat) (b : Q) (prev : option mes_out) (r : option (nat * alloc)) (i : option mes_out) : Prop :=
    match r with
    | None => i = None
    | Some (k', W) =>
        (k' = S k /\ bad (R b) = true /\ W = lift prev /\ i = prev) \/
        ((k' <> S k \/ bad (R b) = false) /\ exists o, i = Some o /\ o_alloc o = W)
    end.

  Lemma iter_res_sim : forall fuel k b prev, Qred b = b ->
    sim k b prev (retry R bad exh inc (fun _ => true) fuel k b (lift prev)) (iter_res fuel x inc b prev).
  Proof.
    induction fuel as [|f IH]; intros k b prev Hb; [reflexivity|].
    cbn [retry iter_res].
    destruct (run_once_res x b) as [o|] eqn:E; [|exfalso; exact (MesRun.run_once_res_total x b E)].
    rewrite (run_alloc_canon b o Hb E). rewrite bad_is, exh_is.
    destruct (bad (o_alloc o)) eqn:Eb.
    - left. repeat split. rewrite (run_alloc_canon b o Hb E). exact Eb.
    - destruct (exh (o_alloc o)) eqn:Ee.
      + right. split; [right; rewrite (run_alloc_canon b o Hb E); exact Eb|]. exists o. split; reflexivity.
      + specialize (IH (S k) (Qred (b + inc)) (Some o) (Qred_canon_step b inc)).
        change (lift (Some o)) with (o_alloc o) in IH.
        destruct (retry R bad exh inc (fun _ => true) f (S k) (Qred (b + inc)) (o_alloc o)) as [[k' W]|];
          [|exact IH].
        right. split; [|destruct IH as [[_ [_ [-> ->]]]|[_ H]]; [exists o; split; reflexivity|exact H]].
        destruct IH as [[-> _]|[[Hk|Hb']  _]].
        * left. lia.
        * right. rewrite (run_alloc_canon b o Hb E). exact Eb.
        * right. rewrite (run_alloc_canon b o Hb E). exact Eb.
  Qed.

  Theorem mes_iter_resolute_sim fuel :
    sim 0 (share x) None (mes_iter_wrapped x inc fuel) (mes_iter_resolute fuel x inc).
  Proof. apply (iter_res_sim fuel 0 (share x) None). apply share_canon. Qed.

  (* ---- irresolute ---- *)
  Definition lifts (prev : option (list alloc)) : list alloc :=
    match prev with Some L => L | None => [start_alloc x] end.

  Definition sims (k : nat) (b : Q) (prev : option (list alloc)) (r : option (nat * list alloc))
    (i : option (list alloc)) : Prop :=
    match r with
    | None => i = None
    | Some (k', Ws) =>
        (k' = S k /\ bads (Rs b) = true /\ Ws = lifts prev /\ i = prev) \/
        ((k' <> S k \/ bads (Rs b) = false) /\ i = Some Ws)
    end.

  Lemma iter_irr_sim : forall fuel k b prev, Qred b = b ->
    sims k b prev (retry Rs bads exhs inc (fun _ => true) fuel k b (lifts prev)) (iter_irr fuel x inc b prev).
  Proof.
    induction fuel as [|f IH]; intros k b prev Hb; [reflexivity|].
    cbn [retry iter_irr].
    destruct (run_once_irr x b) as [L|] eqn:E; [|exfalso; exact (MesRun.run_once_irr_total x b E)].
    pose proof (run_allocs_canon b L Hb E) as HR. rewrite HR.
    change (existsb (fun W : list proj => negb (alloc_feasible x W)) L) with (bads L). rewrite exhs_is.
    destruct (bads L) eqn:Eb.
    - left. repeat split. rewrite HR. exact Eb.
    - destruct (exhs L) eqn:Ee.
      + right. split; [right; rewrite HR; exact Eb|reflexivity].
      + specialize (IH (S k) (Qred (b + inc)) (Some L) (Qred_canon_step b inc)).
        change (lifts (Some L)) with L in IH.
        destruct (retry Rs bads exhs inc (fun _ => true) f (S k) (Qred (b + inc)) L) as [[k' Ws]|];
          [|exact IH].
        right. split; [|destruct IH as [[_ [_ [-> ->]]]|[_ H]]; [reflexivity|exact H]].
        destruct IH as [[-> _]|[[Hk|Hb']  _]].
        * left. lia.
        * right. rewrite HR. exact Eb.
        * right. rewrite HR. exact Eb.
  Qed.

  Theorem mes_iter_irresolute_sim fuel :
    sims 0 (share x) None (mes_iter_wrapped_irr x inc fuel) (mes_iter_irresolute fuel x inc).
  Proof. apply (iter_irr_sim fuel 0 (share x) None). apply share_canon. Qed.

  (* ---- end to end: C09_mes_iterated_spec read off the rule model ---- *)
  Let out := fun k => R (try_budget (share x) inc k).
  Let outs := fun k => Rs (try_budget (share x) inc k).

  Lemma out0 : out 0%nat = R (share x).
  Proof. apply R_proper. apply try_budget_0. Qed.
  Lemma outs0 : outs 0%nat = Rs (share x).
  Proof. apply Rs_proper. apply try_budget_0. Qed.

  Theorem mes_iter_resolute_least_stop :
    (forall j fuel,
       (forall i, (i < j)%nat -> bad (out i) = false /\ exh (out i) = false) ->
       bad (out j) || exh (out j) = true ->
       (fuel > j)%nat ->
       option_map o_alloc (mes_iter_resolute fuel x inc) =
         if bad (out j) then match j with O => None | S i => Some (out i) end else Some (out j))
    /\ ((forall i, bad (out i) = false /\ exh (out i) = false) ->
        forall fuel, mes_iter_resolute fuel x inc = None).
  Proof.
    destruct (unbounded_retry_spec alloc R bad exh (share x) inc (start_alloc x) R_proper) as [S1 S2].
    split.
    - intros j fuel Hno Hstop Hf.
      pose proof (mes_iter_resolute_sim fuel) as Hsim. change (mes_iter_wrapped x inc fuel)
        with (retry R bad exh inc (fun _ => true) fuel 0 (share x) (start_alloc x)) in Hsim. rewrite (S1 j fuel Hno Hstop Hf) in Hsim. fold out in Hsim. unfold sim in Hsim.
      destruct Hsim as [[Hk [Hb [HW Hi]]]|[Hc [o [Hi Ho]]]].
      + assert (j = 0%nat) by lia. subst j. rewrite out0, Hb, Hi. reflexivity.
      + rewrite Hi. simpl. rewrite Ho. change (R (try_budget (share x) inc j)) with (out j).
        destruct (bad (out j)) eqn:Eb; [|reflexivity].
        destruct j as [|j']; [|reflexivity].
        exfalso. rewrite out0 in Eb. destruct Hc as [Hc|Hc]; [apply Hc; reflexivity|congruence].
    - intros Hno fuel.
      pose proof (mes_iter_resolute_sim fuel) as Hsim. change (mes_iter_wrapped x inc fuel)
        with (retry R bad exh inc (fun _ => true) fuel 0 (share x) (start_alloc x)) in Hsim. rewrite (S2 Hno fuel) in Hsim. exact Hsim.
  Qed.

  Theorem mes_iter_irresolute_least_stop :
    (forall j fuel,
       (forall i, (i < j)%nat -> bads (outs i) = false /\ exhs (outs i) = false) ->
       bads (outs j) || exhs (outs j) = true ->
       (fuel > j)%nat ->
       mes_iter_irresolute fuel x inc =
         if bads (outs j) then match j with O => None | S i => Some (outs i) end else Some (outs j))
    /\ ((forall i, bads (outs i) = false /\ exhs (outs i) = false) ->
        forall fuel, mes_iter_irresolute fuel x inc = None).
  Proof.
    destruct (unbounded_retry_spec (list alloc) Rs bads exhs (share x) inc [start_alloc x] Rs_proper) as [S1 S2].
    split.
    - intros j fuel Hno Hstop Hf.
      pose proof (mes_iter_irresolute_sim fuel) as Hsim. change (mes_iter_wrapped_irr x inc fuel)
        with (retry Rs bads exhs inc (fun _ => true) fuel 0 (share x) [start_alloc x]) in Hsim. rewrite (S1 j fuel Hno Hstop Hf) in Hsim. fold outs in Hsim. unfold sims in Hsim.
      destruct Hsim as [[Hk [Hb [HW Hi]]]|[Hc Hi]].
      + assert (j = 0%nat) by lia. subst j. rewrite outs0, Hb, Hi. reflexivity.
      + rewrite Hi. change (Rs (try_budget (share x) inc j)) with (outs j).
        destruct (bads (outs j)) eqn:Eb; [|reflexivity].
        destruct j as [|j']; [|reflexivity].
        exfalso. rewrite outs0 in Eb. destruct Hc as [Hc|Hc]; [apply Hc; reflexivity|congruence].
    - intros Hno fuel.
      pose proof (mes_iter_irresolute_sim fuel) as Hsim. change (mes_iter_wrapped_irr x inc fuel)
        with (retry Rs bads exhs inc (fun _ => true) fuel 0 (share x) [start_alloc x]) in Hsim. rewrite (S2 Hno fuel) in Hsim. exact Hsim.
  Qed.

  (* ---- the one place where the two models differ cannot be reached under the hypotheses of C01 ---- *)
  Theorem first_run_feasible : MesFeasible.mes_hyps x -> bad (R (share x)) = false.
  Proof.
    intros Hh. destruct (MesFeasible.mes_total x) as [[o Ho] _].
    destruct (MesFeasible.mes_feasible x o Hh Ho) as [[_ [_ Hc]] _].
    unfold mes_resolute in Ho. rewrite (run_alloc_canon (share x) o (share_canon x) Ho).
    apply infeasible1_false_iff. exact Hc.
  Qed.

  Theorem mes_iter_resolute_eq_wrapper fuel : MesFeasible.mes_hyps x ->
    option_map o_alloc (mes_iter_resolute fuel x inc) = option_map snd (mes_iter_wrapped x inc fuel).
  Proof.
    intros Hh. pose proof (mes_iter_resolute_sim fuel) as Hsim. unfold sim in Hsim.
    destruct (mes_iter_wrapped x inc fuel) as [[k W]|]; [|rewrite Hsim; reflexivity].
    destruct Hsim as [[_ [Hb _]]|[_ [o [-> <-]]]]; [|reflexivity].
    rewrite (first_run_feasible Hh) in Hb. discriminate.
  Qed.
  (* ---- C09_mes_iterated_feasible for the concrete run: the contract in the form the run meets
     (distinct instance projects for EVERY endowment, MesFeasible.run_once_res_Str) ---- *)
  Section Feas.
    Hypothesis costs_nonneg : Forall (fun c => 0 <= c) (mi_costs x).
    Hypothesis init_feasible : feasible I (mi_init x).
    Hypothesis enum_nodup : NoDup (mi_enum x).
    Hypothesis enum_range : forall p, In p (mi_enum x) -> (p < length (mi_costs x))%nat.

    Lemma start_alloc_feasible : feasible I (start_alloc x) /\ incl (mi_init x) (start_alloc x).
    Proof.
      destruct init_feasible as [F1 [F2 F3]].
      destruct (MesFeasible.state0_Str x 0 F1 F2 enum_nodup enum_range) as [A [B0 [C _]]].
      cbn [MesRun.s_acc MesFeasible.state0] in A, B0, C.
      split; [|exact C]. split; [exact A|]. split; [exact B0|].
      unfold start_alloc. rewrite tcost_app. pose proof (MesFeasible.zeros_free x costs_nonneg) as Z.
      fold I in Z. rewrite Z. lra.
    Qed.

    Lemma run_alloc_wf b : wf_alloc I (R b) /\ incl (mi_init x) (R b).
    Proof.
      destruct init_feasible as [F1 [F2 F3]]. unfold R, mes_run_alloc.
      destruct (run_once_res x (Qred b)) as [o|] eqn:E; simpl.
      - destruct (MesFeasible.run_once_res_Str x (Qred b) o F1 F2 enum_nodup enum_range E) as [A [B0 C]].
        split; [split; assumption|exact C].
      - destruct start_alloc_feasible as [[A [B0 _]] C]. split; [split; assumption|exact C].
    Qed.

    Lemma run_allocs_wf b W : In W (Rs b) -> wf_alloc I W /\ incl (mi_init x) W.
    Proof.
      destruct init_feasible as [F1 [F2 F3]]. unfold Rs, mes_run_allocs.
      destruct (run_once_irr x (Qred b)) as [L|] eqn:E; simpl; [|intros []].
      intros HW.
      destruct (MesFeasible.run_once_irr_Str x (Qred b) L F1 F2 enum_nodup enum_range E W HW) as [A [B0 C]].
      split; [split; assumption|exact C].
    Qed.

    Theorem mes_iter_wrapped_feasible fuel k W :
      mes_iter_wrapped x inc fuel = Some (k, W) -> feasible I W /\ incl (mi_init x) W.
    Proof.
      unfold mes_iter_wrapped. destruct start_alloc_feasible as [S1 S2].
      apply (mes_iter_res_feasible_wf I (mi_init x) R (fun b => proj1 (run_alloc_wf b))
               (fun b => proj2 (run_alloc_wf b)) (mes_avail x) (start_alloc x) (share x) inc fuel k W S1 S2).
    Qed.

    Theorem mes_iter_wrapped_irr_feasible fuel k Ws :
      mes_iter_wrapped_irr x inc fuel = Some (k, Ws) ->
      forall W, In W Ws -> feasible I W /\ incl (mi_init x) W.
    Proof.
      unfold mes_iter_wrapped_irr. destruct start_alloc_feasible as [S1 S2].
      apply (mes_iter_irr_feasible_wf I (mi_init x) Rs (fun b W H => proj1 (run_allocs_wf b W H))
               (fun b W H => proj2 (run_allocs_wf b W H)) (mes_avail x) (start_alloc x) (share x) inc fuel k Ws S1 S2).
    Qed.
  End Feas.
End MesIter.
