(* Proofs/MesEJRGroup.v -- the two instances of the core argument (Proofs/MesEJRCore.v, [ejr_core]) for
   approval-type utilities, still on the declarative rule and with multiplicities:

     ej_cost_group   members of S value the unbought candidate pstar at its cost (Cost_Sat); every
                     purchase made while all of S hold cost(pstar)/|S| is at price-per-utility <= 1/|S|:
                        exists i in S,  |S|*b0 - cost(pstar)  <  sat_i(purchases)
     ej_card_group   members of S have 0/1 utilities and value every project of T at 1
                     (Cardinality_Sat); pstar in T is an unbought candidate; every purchase made while all
                     of S hold cost(pstar)/|S| is at price-per-utility <= cost(pstar)/|S|, and a project
                     q of T cheaper than pstar at <= cost(q)/|S|:
                        exists i in S,  |S|*b0 - cost(pstar)  <  sum over purchases q of wt(q) * u_i(q)
                     with wt q = min(cost q, cost pstar) on T and cost pstar elsewhere.
   |S| is the multiplicity-weighted size [mS].  [ej_card_account] is the counting step that turns the
   second bound into  sat_i(T) < sat_i(outcome) + 1. *)
From PB Require Export Proofs.MesEJRCore.
Open Scope Q_scope.

(* ---------- sums ---------- *)

Lemma ej_sum_scal {A} (f : A -> Q) k l : Qsum (map (fun x => f x * k) l) == Qsum (map f l) * k.
Proof. induction l as [|x t IH]; simpl; [ring|rewrite IH; ring]. Qed.

Lemma ej_sum_ext {A} (f g : A -> Q) l : (forall x, In x l -> f x == g x) -> Qsum (map f l) == Qsum (map g l).
Proof.
  induction l as [|x t IH]; intros H; simpl; [reflexivity|].
  rewrite (H x (or_introl eq_refl)), IH; [reflexivity|]. intros y Hy. apply H. right. exact Hy.
Qed.

Lemma ej_sum_split {A} (f : A -> Q) (g : A -> bool) l :
  Qsum (map f l) == Qsum (map f (filter g l)) + Qsum (map f (filter (fun x => negb (g x)) l)).
Proof.
  induction l as [|x t IH]; simpl; [ring|]. destruct (g x); simpl; rewrite IH; ring.
Qed.

Lemma ej_nth_repeat (a : Q) n i : (i < n)%nat -> nth i (repeat a n) 0 = a.
Proof. revert i. induction n as [|n IH]; intros i Hi; [lia|]. destruct i; simpl; [reflexivity|apply IH; lia]. Qed.

(* ---------- a group of voter classes ---------- *)

Section Group.
Variable cs : list Q.
Variable P : list vcls.
Variable tb : proj -> Q.
Hypothesis Hv : wf_voters P.
Variable S : list nat.
Hypothesis HSnd : NoDup S.
Hypothesis HSne : S <> [].
Hypothesis HSlt : forall i, In i S -> (i < length P)%nat.

(* the number of voters of the group *)
Definition mS : Q := Qsum (map (s_mul P) S).

Lemma mS_pos : 0 < mS.
Proof.
  unfold mS. destruct S as [|x t]; [congruence|]. simpl.
  assert (0 < s_mul P x) by (apply (vmulQ_pos P x Hv); apply HSlt; left; reflexivity).
  assert (0 <= Qsum (map (s_mul P) t)).
  { apply ej_sum_nonneg. intros i Hi. apply Qlt_le_weak. apply (vmulQ_pos P i Hv). apply HSlt. right. exact Hi. }
  lra.
Qed.

Lemma mS_theta theta : Qsum (map (fun i => s_mul P i * theta) S) == mS * theta.
Proof. unfold mS. apply ej_sum_scal. Qed.

Lemma mS_share c : Qsum (map (fun i => s_mul P i * (c / mS)) S) == c.
Proof. rewrite mS_theta. pose proof mS_pos. field. lra. Qed.

Lemma ej_start_bud b0 j : In j S -> s_bud (repeat b0 (length P)) j = b0.
Proof. intro Hj. unfold s_bud. apply ej_nth_repeat. apply HSlt. exact Hj. Qed.

(* ---------- Cost_Sat ---------- *)

Theorem ej_cost_group b0 rem W pstar :
  (forall i q, In i S -> 0 <= s_util P i q) ->
  (forall i, In i S -> s_util P i pstar == s_cost cs pstar) ->
  0 <= b0 -> spec_run cs P tb (repeat b0 (length P)) rem W ->
  (forall p, In p rem -> 0 < s_cost cs p) -> In pstar rem -> ~ In pstar W ->
  s_cost cs pstar <= mS * b0 ->
  exists i, In i S /\ mS * b0 - s_cost cs pstar < Qsum (map (s_util P i) W).
Proof.
  intros Hu0 Hus Hb0 Hrun Hpos Hin Hnot Hle.
  pose proof mS_pos as Hm. pose proof (Hpos pstar Hin) as Hc.
  set (c := s_cost cs pstar) in *.
  assert (HSsup : forall i, In i S -> In i (s_supporters P pstar)).
  { intros i Hi. apply ej_supp_spec. split; [apply HSlt; exact Hi|]. rewrite (Hus i Hi). exact Hc. }
  destruct (ejr_core cs P tb Hv S pstar (c / mS) (fun i q => s_util P i q * / mS) HSnd HSsup) with
    (b := repeat b0 (length P)) (rem := rem) (W := W) as [i [Hi Hlt]].
  - fold c. rewrite mS_share. apply Qle_refl.
  - intros i q Hi. pose proof (Hu0 i q Hi). assert (0 < / mS) by (apply Qinv_lt_0_compat; exact Hm). nra.
  - intros b q r i Hb Hth _ _ Hr Hi Hu.
    assert (Hr1 : r <= / mS).
    { apply Hr. fold c.
      apply (ej_group_paid cs P Hv S (c / mS) HSnd b pstar (/ mS) Hb HSsup).
      - fold c. rewrite mS_share. apply Qle_refl.
      - apply Qlt_le_weak. apply Qinv_lt_0_compat. exact Hm.
      - exact Hth.
      - intros j Hj. rewrite (Hus j Hj). fold c. unfold Qdiv. rewrite Qmult_comm. apply Qle_refl. }
    eapply Qle_trans; [apply Q.le_min_r|]. nra.
  - exact Hrun.
  - apply repeat_wf_buds. exact Hb0.
  - exact Hpos.
  - exact Hin.
  - exact Hnot.
  - intros j Hj. rewrite (ej_start_bud b0 j Hj). apply Qle_shift_div_r; [exact Hm|]. lra.
  - exists i. split; [exact Hi|]. rewrite (ej_start_bud b0 i Hi) in Hlt.
    rewrite ej_sum_scal in Hlt. fold c.
    set (s := Qsum (map (s_util P i) W)) in *.
    assert (E : (b0 - c / mS) * mS == mS * b0 - c) by (field; lra).
    assert ((b0 - c / mS) * mS < s * / mS * mS) by (apply Qmult_lt_compat_r; assumption).
    assert (E2 : s * / mS * mS == s) by (field; lra).
    lra.
Qed.

(* ---------- Cardinality_Sat ---------- *)

Definition ej_wt (T : list proj) (cstar : Q) (q : proj) : Q :=
  if memb q T then Qmin (s_cost cs q) cstar else cstar.

Lemma ej_wt_nonneg T cstar q : (forall p, 0 <= s_cost cs p) -> 0 <= cstar -> 0 <= ej_wt T cstar q.
Proof. intros Hc H. unfold ej_wt. destruct (memb q T); [apply Q.min_glb; [apply Hc|exact H]|exact H]. Qed.

Theorem ej_card_group T b0 rem W pstar :
  (forall i q, In i S -> s_util P i q == 0 \/ s_util P i q == 1) ->
  (forall i p, In i S -> In p T -> s_util P i p == 1) ->
  (forall p, 0 <= s_cost cs p) -> In pstar T ->
  0 <= b0 -> spec_run cs P tb (repeat b0 (length P)) rem W ->
  (forall p, In p rem -> 0 < s_cost cs p) -> In pstar rem -> ~ In pstar W ->
  s_cost cs pstar <= mS * b0 ->
  exists i, In i S /\
    mS * b0 - s_cost cs pstar < Qsum (map (fun q => ej_wt T (s_cost cs pstar) q * s_util P i q) W).
Proof.
  intros Hu01 HuT Hcs HpT Hb0 Hrun Hpos Hin Hnot Hle.
  pose proof mS_pos as Hm. pose proof (Hpos pstar Hin) as Hc.
  set (c := s_cost cs pstar) in *.
  assert (Hinv : 0 < / mS) by (apply Qinv_lt_0_compat; exact Hm).
  assert (HsupT : forall q, In q T -> forall i, In i S -> In i (s_supporters P q)).
  { intros q Hq i Hi. apply ej_supp_spec. split; [apply HSlt; exact Hi|]. rewrite (HuT i q Hi Hq). lra. }
  pose proof (HsupT pstar HpT) as HSsup.
  destruct (ejr_core cs P tb Hv S pstar (c / mS) (fun i q => ej_wt T c q * s_util P i q * / mS) HSnd HSsup) with
    (b := repeat b0 (length P)) (rem := rem) (W := W) as [i [Hi Hlt]].
  - fold c. rewrite mS_share. apply Qle_refl.
  - intros i q Hi. pose proof (ej_wt_nonneg T c q Hcs (Qlt_le_weak _ _ Hc)).
    destruct (Hu01 i q Hi) as [E|E]; rewrite E; nra.
  - intros b q r i Hb Hth Hcq [_ Hleast] Hr Hi Hu.
    assert (Eu : s_util P i q == 1) by (destruct (Hu01 i q Hi) as [E|E]; [lra|exact E]).
    assert (Hr1 : r <= c * / mS).
    { apply Hr. fold c.
      apply (ej_group_paid cs P Hv S (c / mS) HSnd b pstar (c * / mS) Hb HSsup).
      - fold c. rewrite mS_share. apply Qle_refl.
      - nra.
      - exact Hth.
      - intros j Hj. rewrite (HuT j pstar Hj HpT). unfold Qdiv. lra. }
    assert (Hr2 : r <= ej_wt T c q * / mS).
    { unfold ej_wt. destruct (memb q T) eqn:M; [|exact Hr1].
      apply memb_In in M.
      destruct (Qlt_le_dec (s_cost cs q) c) as [Hlt|Hge].
      - rewrite Q.min_l by lra.
        apply Hleast.
        apply (ej_group_paid cs P Hv S (s_cost cs q / mS) HSnd b q (s_cost cs q * / mS) Hb (HsupT q M)).
        + rewrite mS_share. apply Qle_refl.
        + nra.
        + intros j Hj. apply Qle_trans with (c / mS); [|apply Hth; exact Hj]. unfold Qdiv. nra.
        + intros j Hj. rewrite (HuT j q Hj M). unfold Qdiv. lra.
      - rewrite Q.min_r by lra. exact Hr1. }
    eapply Qle_trans; [apply Q.le_min_r|]. rewrite Eu. lra.
  - exact Hrun.
  - apply repeat_wf_buds. exact Hb0.
  - exact Hpos.
  - exact Hin.
  - exact Hnot.
  - intros j Hj. rewrite (ej_start_bud b0 j Hj). apply Qle_shift_div_r; [exact Hm|]. lra.
  - exists i. split; [exact Hi|]. rewrite (ej_start_bud b0 i Hi) in Hlt.
    rewrite (ej_sum_scal (fun q => ej_wt T c q * s_util P i q)) in Hlt.
    set (s := Qsum (map (fun q => ej_wt T c q * s_util P i q) W)) in *.
    assert (E : (b0 - c / mS) * mS == mS * b0 - c) by (field; lra).
    assert ((b0 - c / mS) * mS < s * / mS * mS) by (apply Qmult_lt_compat_r; assumption).
    assert (E2 : s * / mS * mS == s) by (field; lra).
    lra.
Qed.

End Group.

(* ---------- the counting step for Cardinality_Sat ----------
   c: costs, u: the utilities of one voter who values all of T at 1; O: the outcome; pstar: a cheapest
   project of T outside O. *)
Lemma ej_card_account (c u : proj -> Q) (wt : proj -> Q) (T O : list proj) (cstar : Q) :
  NoDup T -> NoDup O ->
  (forall q, In q T -> u q == 1) ->
  0 < cstar ->
  (forall q, In q T -> ~ In q O -> cstar <= c q) ->
  (forall q, In q T -> wt q <= c q) -> (forall q, ~ In q T -> wt q == cstar) ->
  Qsum (map c T) - cstar < Qsum (map (fun q => wt q * u q) O) ->
  Qsum (map u T) < Qsum (map u O) + 1.
Proof.
  intros HT HO Hu1 Hc Hmin HwT HwN Hlt.
  set (inO := fun q => memb q O). set (inT := fun q => memb q T).
  (* T = (T inside O) + (T outside O);  O = (O inside T) + (O outside T) *)
  pose proof (ej_sum_split c inO T) as EcT. pose proof (ej_sum_split u inO T) as EuT.
  pose proof (ej_sum_split (fun q => wt q * u q) inT O) as EwO. pose proof (ej_sum_split u inT O) as EuO.
  assert (HP : Permutation (filter inT O) (filter inO T)).
  { apply NoDup_Permutation; [apply NoDup_filter; exact HO|apply NoDup_filter; exact HT|].
    intro q. unfold inT, inO. rewrite !filter_In, !memb_In. tauto. }
  pose proof (ej_sum_perm c _ _ HP) as Ec. pose proof (ej_sum_perm u _ _ HP) as Eu.
  (* inside T the weighted utility is at most the cost *)
  assert (H1 : Qsum (map (fun q => wt q * u q) (filter inT O)) <= Qsum (map c (filter inT O))).
  { apply ej_sum_le. intros q Hq. apply filter_In in Hq. destruct Hq as [_ Hq]. apply memb_In in Hq.
    rewrite (Hu1 q Hq). pose proof (HwT q Hq). lra. }
  (* outside T it is cstar per unit of utility *)
  assert (H2 : Qsum (map (fun q => wt q * u q) (filter (fun q => negb (inT q)) O))
               == Qsum (map u (filter (fun q => negb (inT q)) O)) * cstar).
  { rewrite <- ej_sum_scal. apply ej_sum_ext. intros q Hq. apply filter_In in Hq. destruct Hq as [_ Hq].
    apply negb_true_iff in Hq. apply memb_false_In in Hq. rewrite (HwN q Hq). ring. }
  (* the projects of T outside O cost at least cstar each *)
  assert (H3 : Qsum (map u (filter (fun q => negb (inO q)) T)) * cstar
               <= Qsum (map c (filter (fun q => negb (inO q)) T))).
  { rewrite <- ej_sum_scal. apply ej_sum_le. intros q Hq. apply filter_In in Hq. destruct Hq as [HqT Hq].
    apply negb_true_iff in Hq. apply memb_false_In in Hq. rewrite (Hu1 q HqT).
    pose proof (Hmin q HqT Hq). lra. }
  set (x := Qsum (map u (filter (fun q => negb (inO q)) T))) in *.
  set (e := Qsum (map u (filter (fun q => negb (inT q)) O))) in *.
  assert (H4 : x * cstar - cstar < e * cstar) by lra.
  assert (H5 : x - 1 < e) by nra.
  lra.
Qed.
