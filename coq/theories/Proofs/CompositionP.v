(* Proofs/CompositionP.v -- the rule comparisons of Model/Composition.v return exactly the best outcomes. *)
From PB Require Import Model.Composition.
Open Scope Q_scope.

Lemma alloc_eqb_eq a : forall b, alloc_eqb a b = true <-> a = b.
Proof.
  induction a as [|x r IH]; intros [|y t]; simpl; try (split; [discriminate|discriminate]); [tauto|].
  rewrite andb_true_iff, Nat.eqb_eq, IH. split; [intros [-> ->]; reflexivity|intros [= -> ->]; auto].
Qed.

Lemma same_alloc_iff o o' : same_alloc o o' = true <-> o_alloc o = o_alloc o'.
Proof. apply alloc_eqb_eq. Qed.

(* equal allocations carry equal satisfactions (they are functions of the allocation) *)
Definition consistent (outs : list outcome) : Prop :=
  forall o o', In o outs -> In o' outs -> o_alloc o = o_alloc o' -> o = o'.

(* ---------- the distinct results ---------- *)

Lemma dedup_acc_incl : forall outs seen o, In o (dedup_acc seen outs) -> In o seen \/ In o outs.
Proof.
  induction outs as [|o0 r IH]; intros seen o H; simpl in *; [left; exact H|].
  destruct (existsb (same_alloc o0) seen).
  - destruct (IH _ _ H); [left|right; right]; assumption.
  - destruct (IH _ _ H) as [H'|H']; [|right; right; exact H'].
    apply in_app_iff in H'. destruct H' as [H'|[<-|[]]]; [left; exact H'|right; left; reflexivity].
Qed.

Lemma dedup_acc_In : forall outs seen, consistent (seen ++ outs) ->
  forall o, In o (dedup_acc seen outs) <-> In o seen \/ In o outs.
Proof.
  induction outs as [|o0 r IH]; intros seen Hc o; simpl.
  - tauto.
  - destruct (existsb (same_alloc o0) seen) eqn:E.
    + apply existsb_exists in E. destruct E as [s [Hs Es]]. apply same_alloc_iff in Es.
      assert (s = o0).
      { symmetry. apply Hc; [apply in_app_iff; right; left; reflexivity|apply in_app_iff; left; exact Hs|exact Es]. }
      subst s. rewrite IH.
      * split; [intros [H|H]; auto|intros [H|[<-|H]]; auto].
      * intros a b Ha Hb. apply Hc; apply in_app_iff; rewrite in_app_iff in Ha, Hb; simpl; tauto.
    + rewrite IH.
      * rewrite in_app_iff. simpl. tauto.
      * rewrite <- app_assoc. exact Hc.
Qed.

Lemma dedup_acc_NoDup : forall outs seen,
  NoDup (map o_alloc seen) -> NoDup (map o_alloc (dedup_acc seen outs)).
Proof.
  induction outs as [|o0 r IH]; intros seen Hnd; simpl; [exact Hnd|].
  destruct (existsb (same_alloc o0) seen) eqn:E; [apply IH; exact Hnd|].
  apply IH. rewrite map_app. simpl. apply NoDup_app_intro; [exact Hnd|constructor; [intros []|constructor]|].
  intros a Ha [<-|[]]. apply in_map_iff in Ha. destruct Ha as [s [Es Hs]].
  assert (existsb (same_alloc o0) seen = true); [|congruence].
  apply existsb_exists. exists s. split; [exact Hs|]. apply same_alloc_iff. symmetry. exact Es.
Qed.

Theorem results_In outs : consistent outs -> forall o, In o (results outs) <-> In o outs.
Proof. intros Hc o. unfold results. rewrite dedup_acc_In by exact Hc. simpl. tauto. Qed.

Theorem results_incl outs o : In o (results outs) -> In o outs.
Proof. intros H. apply dedup_acc_incl in H. destruct H as [[]|H]. exact H. Qed.

Theorem results_NoDup outs : NoDup (map o_alloc (results outs)).
Proof. apply dedup_acc_NoDup. constructor. Qed.

Lemma NoDup_map_filter {A B} (f : A -> B) (p : A -> bool) l : NoDup (map f l) -> NoDup (map f (filter p l)).
Proof.
  induction l as [|x t IH]; simpl; intros H; [constructor|].
  inversion H as [|? ? Hx Ht]; subst. destruct (p x); simpl; [|apply IH; exact Ht].
  constructor; [|apply IH; exact Ht].
  intros Hin. apply Hx. apply in_map_iff in Hin. destruct Hin as [y [Ey Hy]]. apply filter_In in Hy.
  apply in_map_iff. exists y. tauto.
Qed.

Lemma NoDup_map_inj_in {A B} (f : A -> B) l x y : NoDup (map f l) -> In x l -> In y l -> f x = f y -> x = y.
Proof.
  induction l as [|a t IH]; simpl; intros Hnd Hx Hy E; [contradiction|].
  inversion Hnd as [|? ? Ha Ht]; subst.
  destruct Hx as [->|Hx], Hy as [->|Hy]; [reflexivity| | |apply IH; assumption].
  - exfalso. apply Ha. rewrite E. apply in_map. exact Hy.
  - exfalso. apply Ha. rewrite <- E. apply in_map. exact Hx.
Qed.

(* ---------- argmax with ties, on Q ---------- *)

Theorem argmax_all_spec {A} (f : A -> Q) (xs : list A) :
  (forall r, In r (argmax_all Qleb f xs) <-> In r xs /\ forall r', In r' xs -> f r' <= f r) /\
  sublist (argmax_all Qleb f xs) xs /\
  (NoDup xs -> NoDup (argmax_all Qleb f xs)) /\
  (xs <> [] -> argmax_all Qleb f xs <> []).
Proof.
  split; [|split; [|split]].
  - intros r. rewrite (argmax_all_In _ _ Qleb f Qleb_total Qleb_trans). split; intros [H1 H2]; (split; [exact H1|]);
      intros r' Hr'; apply Qleb_iff; apply H2; exact Hr'.
  - apply (argmax_all_sublist _ _ Qleb f Qleb_total Qleb_trans).
  - apply (argmax_all_NoDup _ _ Qleb f Qleb_total Qleb_trans).
  - apply (argmax_all_nonempty _ _ Qleb f Qleb_total Qleb_trans).
Qed.

(* ---------- social welfare comparison ---------- *)

Lemma total_spec mults o :
  total mults o == Qsum (map (fun '(s, m) => s * Qnat m) (combine (o_vsat o) mults)).
Proof.
  unfold total. generalize (o_vsat o) as v. intros v. revert mults.
  induction v as [|s r IH]; intros [|m t]; simpl; try reflexivity. rewrite IH. reflexivity.
Qed.

Theorem swc_spec mults outs :
  consistent outs ->
  (forall o, In o (swc mults outs) <-> In o outs /\ forall o', In o' outs -> total mults o' <= total mults o) /\
  NoDup (map o_alloc (swc mults outs)).
Proof.
  intros Hc. split.
  - intros o. unfold swc. destruct (argmax_all_spec (total mults) (results outs)) as [H _].
    rewrite H, (results_In outs Hc). split; intros [H1 H2]; (split; [exact H1|]); intros o' Ho'; apply H2.
    + apply (results_In outs Hc). exact Ho'.
    + apply (results_In outs Hc). exact Ho'.
  - unfold swc. rewrite (argmax_all_filter _ _ Qleb (total mults) Qleb_total Qleb_trans).
    apply NoDup_map_filter. apply results_NoDup.
Qed.

(* ---------- popularity comparison ---------- *)

(* voter j ranks o among its most preferred results *)
Definition is_top (res : list outcome) (j : nat) (o : outcome) : bool :=
  forallb (fun o' => Qleb (vs j o') (vs j o)) res.

(* declared support: sum of the multiplicities of the voters (numbered from j0) who rank o top *)
Fixpoint support_spec (res : list outcome) (o : outcome) (j0 : nat) (mults : list nat) : nat :=
  match mults with
  | [] => O
  | m :: t => ((if is_top res j0 o then m else O) + support_spec res o (S j0) t)%nat
  end.

Lemma tops_member res j o :
  NoDup (map o_alloc res) -> In o res -> existsb (same_alloc o) (tops res j) = is_top res j o.
Proof.
  intros Hnd Hin. unfold tops. rewrite (argmax_all_filter _ _ Qleb (vs j) Qleb_total Qleb_trans).
  change (is_top res j o) with (is_max Qleb (vs j) res o).
  destruct (is_max Qleb (vs j) res o) eqn:E.
  - apply existsb_exists. exists o. split; [apply filter_In; split; assumption|apply same_alloc_iff; reflexivity].
  - destruct (existsb (same_alloc o) (filter (is_max Qleb (vs j) res) res)) eqn:E'; [|reflexivity].
    apply existsb_exists in E'. destruct E' as [o' [Ho' Es]]. apply filter_In in Ho'. destruct Ho' as [Hin' Hmax].
    apply same_alloc_iff in Es.
    assert (o = o') by (eapply NoDup_map_inj_in; eassumption). subst o'. congruence.
Qed.

Theorem support_is_spec res mults o :
  NoDup (map o_alloc res) -> In o res -> support res mults o = support_spec res o 0 mults.
Proof.
  intros Hnd Hin. unfold support. generalize 0%nat as j. induction mults as [|m t IH]; intros j; simpl; [reflexivity|].
  rewrite (tops_member res j o Hnd Hin), IH. reflexivity.
Qed.

Lemma fold_max_spec l :
  (forall x, In x l -> (x <= fold_right Nat.max O l)%nat) /\ (l <> [] -> In (fold_right Nat.max O l) l).
Proof.
  induction l as [|a t [IH1 IH2]]; simpl.
  - split; [intros x []|congruence].
  - split.
    + intros x [<-|Hx]; [lia|specialize (IH1 x Hx); lia].
    + intros _. destruct t as [|b t'].
      * simpl. left. lia.
      * destruct (Nat.max_spec a (fold_right Nat.max O (b :: t'))) as [[_ E]|[_ E]]; rewrite E.
        -- right. apply IH2. discriminate.
        -- left. reflexivity.
Qed.

Theorem popularity_spec mults outs :
  consistent outs ->
  let res := results outs in
  (forall o, In o outs -> support res mults o = support_spec res o 0 mults) /\
  (forall o, In o (popularity mults outs) <->
             In o outs /\ forall o', In o' outs -> (support res mults o' <= support res mults o)%nat) /\
  NoDup (map o_alloc (popularity mults outs)).
Proof.
  intros Hc res. split; [|split].
  - intros o Ho. apply support_is_spec; [apply results_NoDup|apply (results_In outs Hc); exact Ho].
  - intros o. unfold popularity. fold res. rewrite filter_In, Nat.eqb_eq.
    destruct (fold_max_spec (map (support res mults) res)) as [Hub Hatt].
    unfold res at 1. rewrite (results_In outs Hc). split.
    + intros [Hin E]. split; [exact Hin|]. intros o' Ho'. rewrite E. apply Hub. apply in_map.
      apply (results_In outs Hc). exact Ho'.
    + intros [Hin Hmax]. split; [exact Hin|].
      assert (Hne : map (support res mults) res <> []).
      { intros E. apply map_eq_nil in E. apply (results_In outs Hc) in Hin. fold res in Hin. rewrite E in Hin. exact Hin. }
      specialize (Hatt Hne). apply in_map_iff in Hatt. destruct Hatt as [o' [E Ho']].
      apply Nat.le_antisymm.
      * apply Hub. apply in_map. apply (results_In outs Hc). exact Hin.
      * rewrite <- E. apply Hmax. apply (results_In outs Hc). exact Ho'.
  - unfold popularity. apply NoDup_map_filter. apply results_NoDup.
Qed.

(* ---------- every returned allocation is the unmodified outcome of one of the rules ---------- *)

Theorem comparison_returns_rule_outputs mults outs :
  (forall o, In o (swc mults outs) -> In o outs) /\ (forall o, In o (popularity mults outs) -> In o outs).
Proof.
  split; intros o H.
  - unfold swc in H. apply (argmax_all_In _ _ Qleb (total mults) Qleb_total Qleb_trans) in H.
    apply results_incl. tauto.
  - unfold popularity in H. apply filter_In in H. apply results_incl. tauto.
Qed.
