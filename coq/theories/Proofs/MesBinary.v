(* Proofs/MesBinary.v -- the binary_sat shortcut (one stored utility for all supporters of a
   project) equals the general per-voter sweep whenever the supporters' utilities agree; a witness
   shows that the hypothesis cannot be dropped (the defect repaired by R3); the construction of the
   MESProjects establishes the well-formedness invariant. *)
From PB Require Export Proofs.MesWf.
Open Scope Q_scope.

Definition sup_eq (s t : sup) : Prop := sb s == sb t /\ su s == su t /\ sm s == sm t.
Definition opt_Qeq (a b : option Q) : Prop :=
  match a, b with
  | Some x, Some y => x == y
  | None, None => True
  | _, _ => False
  end.

Lemma sweep_ext cost : forall l l' c c' d d',
  Forall2 sup_eq l l' -> c == c' -> d == d' -> opt_Qeq (sweep cost c d l) (sweep cost c' d' l').
Proof.
  intros l l' c c' d d' H. revert c c' d d'.
  induction H as [|s s' r r' [Hb [Hu Hm]] _ IH]; intros c c' d d' Hc Hd; simpl; [exact I|].
  assert (Ha : (cost - c) / d == (cost - c') / d') by (rewrite Hc, Hd; reflexivity).
  destruct (Qleb ((cost - c) / d * su s) (sb s)) eqn:E1;
    destruct (Qleb ((cost - c') / d' * su s') (sb s')) eqn:E2.
  - simpl. exact Ha.
  - exfalso. apply Qleb_iff in E1. apply Qleb_false_iff in E2.
    rewrite Ha, Hu, Hb in E1. lra.
  - exfalso. apply Qleb_false_iff in E1. apply Qleb_iff in E2.
    rewrite Ha, Hu, Hb in E1. lra.
  - apply IH; [rewrite Hc, Hm, Hb|rewrite Hd, Hm, Hu]; reflexivity.
Qed.

(* the same project without the stored utility: the general (per-voter) path *)
Definition no_shortcut (mp : mproj) : mproj :=
  mkMP (mp_id mp) (mp_cost mp) (mp_sup mp) (mp_tsat mp) None (mp_aff mp).

Theorem binary_sweep_ok P costs buds mp s :
  wf_mp P costs mp -> (forall i, In i s -> In i (supporters P (mp_id mp))) ->
  opt_Qeq (eval_rho P buds mp s) (eval_rho P buds (no_shortcut mp) s).
Proof.
  intros Hw Hs. unfold eval_rho. simpl. apply sweep_ext; try reflexivity.
  induction s as [|i r IH]; simpl; constructor.
  - unfold sup_eq, sup_of. simpl. repeat split; try reflexivity.
    change (supporters_sat P (no_shortcut mp) i) with (vutil P i (mp_id mp)).
    apply (supporters_sat_eq P costs); [exact Hw|apply Hs; left; reflexivity].
  - apply IH. intros j Hj. apply Hs. right. exact Hj.
Qed.

(* Without the hypothesis (pre-repair code: the first supporter's utility is stored whatever the
   others'): two supporters with money 1 and utilities 1 and 3, cost 2.  The general sweep finds
   rho = 1, the shortcut with stored utility 1 stops at rho = 1/2. *)
Theorem binary_sweep_refuted :
  exists P buds mp s u0,
    mp_usat mp = Some u0 /\ u0 = vutil P (hd O (mp_sup mp)) (mp_id mp) /\
    (forall i, In i s -> In i (supporters P (mp_id mp))) /\
    ~ opt_Qeq (eval_rho P buds mp s) (eval_rho P buds (no_shortcut mp) s).
Proof.
  exists [mkV [1] 1%nat; mkV [3] 1%nat], [1; 1], (mkMP 0%nat 2 [0; 1]%nat 4 (Some 1) (1 # 2)), [1; 0]%nat, 1.
  split; [reflexivity|]. split; [reflexivity|]. split.
  - intros i [<-|[<-|[]]]; vm_compute; auto.
  - vm_compute. intro H. discriminate H.
Qed.

(* ---------- the construction establishes the invariant ---------- *)

Lemma unique_sat_sound P p sups u :
  unique_sat P p sups = Some u -> forall i, In i sups -> vutil P i p == u.
Proof.
  destruct sups as [|i0 r]; simpl; [discriminate|].
  set (step := fun acc i => match acc with
                            | Some u => if Qeqb u (vutil P i p) then Some u else None
                            | None => None
                            end).
  assert (Hnone : forall l, fold_left step l None = None) by (induction l; simpl; auto).
  assert (Hgen : forall l v, fold_left step l (Some v) = Some u -> v = u /\ forall i, In i l -> vutil P i p == u).
  { induction l as [|j l IH]; intros v H; simpl in H.
    - injection H as ->. split; [reflexivity|intros ? []].
    - destruct (Qeqb v (vutil P j p)) eqn:E; [|rewrite Hnone in H; discriminate].
      destruct (IH v H) as [-> Hl]. split; [reflexivity|].
      intros i [<-|Hi]; [apply Qeqb_iff in E; symmetry; exact E|apply Hl; exact Hi]. }
  intros H i Hi. destruct (Hgen r _ H) as [Hv Hl].
  destruct Hi as [<-|Hi]; [rewrite Hv; reflexivity|apply Hl; exact Hi].
Qed.

Lemma mk_projects_wf P costs bin : forall enum,
  Forall (wf_mp P costs) (fst (mk_projects P costs bin enum)).
Proof.
  induction enum as [|p r IH]; simpl; [constructor|].
  destruct (mk_projects P costs bin r) as [ps zs]. simpl in IH.
  destruct (Qltb 0 (total_sat P p (supporters P p))) eqn:Et; [|exact IH].
  destruct (Qltb 0 (nth p costs 0)) eqn:Ec; [|exact IH].
  simpl. constructor; [|exact IH].
  unfold wf_mp. simpl. repeat split.
  - reflexivity.
  - apply Qred_correct.
  - apply Qltb_iff. exact Ec.
  - intros u Hu i Hi. destruct bin; [|discriminate Hu].
    apply (unique_sat_sound P p (supporters P p) u Hu i Hi).
Qed.
