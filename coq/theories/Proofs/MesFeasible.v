(* Proofs/MesFeasible.v -- C01 for Equal Shares: every outcome of the model (resolute, irresolute,
   iterated) is a feasible set of distinct instance projects containing the initial allocation, and
   the model's fuel suffices.
   Invariants of a run (states of Proofs/MesRun.v):
     structure  bought projects are distinct, in range, outside the pool; the pool only shrinks;
     money      sum_i mul_i * bud_i + tcost (allocation) == budget limit, 0 <= bud_i
                (the per-round version is round_conservation / round_no_overpay of MesTrace.v). *)
From PB Require Export Proofs.MesRun.
Open Scope Q_scope.

(* ---------- total money held by the voters ---------- *)

Definition money (P : list vcls) (buds : list Q) : Q :=
  Qsum (map (fun i => vmulQ P i * vbud buds i) (seq 0 (length P))).

Lemma money_nonneg P buds : wf_buds P buds -> 0 <= money P buds.
Proof.
  intros Hb. unfold money. apply Qsum_nonneg. rewrite Forall_forall. intros y Hy.
  apply in_map_iff in Hy. destruct Hy as [i [<- _]].
  pose proof (vbud_nonneg P buds i Hb). pose proof (Qnat_nonneg (vmul (nth i P dummy_voter))).
  unfold vmulQ. nra.
Qed.

Lemma Qsum_map_sub {A} (f g h : A -> Q) l :
  Qsum (map (fun i => f i * (g i - h i)) l) == Qsum (map (fun i => f i * g i) l) - Qsum (map (fun i => f i * h i) l).
Proof. induction l as [|x r IH]; simpl; [ring|rewrite IH; ring]. Qed.

Lemma Qsum_map_scale {A} (f : A -> Q) c l : Qsum (map (fun i => f i * c) l) == Qsum (map f l) * c.
Proof. induction l as [|x r IH]; simpl; [ring|rewrite IH; ring]. Qed.

Lemma nth_repeat_lt (b : Q) n i : (i < n)%nat -> nth i (repeat b n) 0 = b.
Proof. revert i. induction n as [|n IH]; intros i Hi; [lia|]. destruct i; simpl; [reflexivity|apply IH; lia]. Qed.

Lemma money_repeat P b0 : money P (repeat b0 (length P)) == Qnat (nvoters P) * b0.
Proof.
  unfold money. rewrite <- total_multiplicity, <- Qsum_map_scale.
  apply Qsum_map_ext. intros i Hi. apply in_seq in Hi. unfold vbud. rewrite nth_repeat_lt by lia. reflexivity.
Qed.

(* one purchase takes exactly the cost of the project out of the voters' pockets *)
Lemma pay_money P costs buds sel rho :
  wf_voters P -> wf_buds P buds -> tied_ok P costs buds (Fin rho) sel ->
  money P (pay P sel rho buds) == money P buds - nth (mp_id sel) costs 0.
Proof.
  intros Hv Hb [Hw [rho' [E [Hpos Hpaid]]]]. injection E as <-.
  assert (Hr : round_ok P costs (mkRound (mp_id sel) rho buds (pay P sel rho buds))).
  { split; [exact Hb|]. exists sel. simpl. split; [exact Hw|]. split; [reflexivity|]. split; [exact Hpos|]. split; [reflexivity|exact Hpaid]. }
  pose proof (round_conservation P costs _ Hr) as Hc. simpl in Hc.
  rewrite Qsum_map_sub in Hc. unfold money. lra.
Qed.

(* ---------- the two invariants ---------- *)

Definition Str (n : nat) (init : list proj) (s : st) : Prop :=
  NoDup (s_acc s) /\ (forall p, In p (s_acc s) -> (p < n)%nat) /\ incl init (s_acc s) /\
  (forall p, In p (ids (s_projs s)) -> (p < n)%nat /\ ~ In p (s_acc s)).

Lemma step_Str P tb n init s s' : Str n init s -> step P tb s s' -> Str n init s'.
Proof.
  intros [H1 [H2 [H3 H4]]] Hs. destruct Hs as [buds projects acc rho tied projects' sel Ers Hsel]. simpl in *.
  destruct (round_scan_ids P buds projects _ _ _ Ers) as [I1 [I2 _]].
  apply pick_order_In_iff in Hsel. pose proof (I1 sel Hsel) as Hid. destruct (H4 _ Hid) as [Hlt Hnin].
  split; [|split; [|split]].
  - apply NoDup_app_intro; [exact H1|constructor; [intros []|constructor]|].
    intros p Hp [<-|[]]. contradiction.
  - intros p Hp. apply in_app_or in Hp. destruct Hp as [Hp|[<-|[]]]; [apply H2; exact Hp|exact Hlt].
  - intros p Hp. apply in_or_app. left. apply H3. exact Hp.
  - intros p Hp. unfold ids in Hp. apply in_map_iff in Hp. destruct Hp as [y [<- Hy]].
    apply remove_proj_In in Hy. destruct Hy as [Hy Hne].
    destruct (H4 _ (I2 y Hy)) as [A B]. split; [exact A|].
    intro Hin. apply in_app_or in Hin. destruct Hin as [Hin|[E|[]]]; [contradiction|]. apply Hne. symmetry. exact E.
Qed.

Definition Mon (P : list vcls) (cs : list Q) (B : Q) (s : st) : Prop :=
  wf_buds P (s_buds s) /\ Forall (wf_mp P cs) (s_projs s) /\
  money P (s_buds s) + tcost (mkInst cs B) (s_acc s) == B.

Lemma step_Mon P tb cs B s s' : wf_voters P -> Mon P cs B s -> step P tb s s' -> Mon P cs B s'.
Proof.
  intros Hv [H1 [H2 H3]] Hs. destruct Hs as [buds projects acc rho tied projects' sel Ers Hsel]. simpl in *.
  destruct (round_scan_inv P cs buds projects Hv H1 H2) as [I1 I2]. rewrite Ers in I1, I2. simpl in I1, I2.
  apply pick_order_In_iff in Hsel.
  assert (Hok : tied_ok P cs buds (Fin rho) sel) by (rewrite Forall_forall in I1; apply I1; exact Hsel).
  split; [apply pay_wf_buds; exact H1|]. split; [apply remove_proj_wf; exact I2|].
  pose proof (pay_money P cs buds sel rho Hv H1 Hok) as E1.
  pose proof (tcost_app (mkInst cs B) acc [mp_id sel]) as E2.
  pose proof (tcost_cons (mkInst cs B) (mp_id sel) []) as E3.
  unfold cost in E3. simpl costs in E3. change (tcost (mkInst cs B) []) with 0 in E3. cbn [s_buds s_acc]. lra.
Qed.

(* ---------- the initial state built by the scheme ---------- *)

Lemma mk_projects_spec P cs bin : forall enum,
  (forall mp, In mp (fst (mk_projects P cs bin enum)) -> In (mp_id mp) enum /\ 0 < nth (mp_id mp) cs 0) /\
  (forall z, In z (snd (mk_projects P cs bin enum)) -> In z enum /\ nth z cs 0 <= 0) /\
  (NoDup enum -> NoDup (snd (mk_projects P cs bin enum))).
Proof.
  induction enum as [|p r [I1 [I2 I3]]]; simpl.
  - split; [intros ? []|]. split; [intros ? []|]. intros _. constructor.
  - destruct (mk_projects P cs bin r) as [ps zs]. simpl in *.
    assert (K1 : forall mp, In mp ps -> (p = mp_id mp \/ In (mp_id mp) r) /\ 0 < nth (mp_id mp) cs 0).
    { intros mp H. destruct (I1 mp H). split; [right|]; assumption. }
    assert (K2 : forall z, In z zs -> (p = z \/ In z r) /\ nth z cs 0 <= 0).
    { intros z H. destruct (I2 z H). split; [right|]; assumption. }
    assert (K3 : NoDup (p :: r) -> NoDup zs) by (intro H; inversion H; subst; auto).
    destruct (Qltb 0 (total_sat P p (supporters P p))); [|split; [exact K1|split; [exact K2|exact K3]]].
    destruct (Qltb 0 (nth p cs 0)) eqn:Ec; simpl.
    + split; [|split; [exact K2|exact K3]].
      intros mp [<-|H]; [simpl; split; [left; reflexivity|apply Qltb_iff; exact Ec]|apply K1; exact H].
    + split; [exact K1|]. split.
      * intros z [<-|H]; [split; [left; reflexivity|apply Qltb_false_iff; exact Ec]|apply K2; exact H].
      * intro H. inversion H as [|? ? Hn Hr]; subst. constructor; [|apply I3; exact Hr].
        intro Hin. apply Hn. apply (I2 p Hin).
Qed.

Definition state0 (x : mes_in) (b0 : Q) : st :=
  mkSt (repeat b0 (length (mi_voters x))) (fst (built x)) (start_alloc x).

Lemma candidates_In x p : In p (candidates x) <-> In p (mi_enum x) /\ ~ In p (mi_init x).
Proof.
  unfold candidates. rewrite filter_In, negb_true_iff, memb_false_In. tauto.
Qed.

Lemma state0_Str x b0 :
  NoDup (mi_init x) -> (forall p, In p (mi_init x) -> (p < length (mi_costs x))%nat) ->
  NoDup (mi_enum x) -> (forall p, In p (mi_enum x) -> (p < length (mi_costs x))%nat) ->
  Str (length (mi_costs x)) (mi_init x) (state0 x b0).
Proof.
  intros Hn Hr He Her.
  destruct (mk_projects_spec (mi_voters x) (mi_costs x) (mi_bin x) (candidates x)) as [M1 [M2 M3]].
  fold (built x) in M1, M2, M3.
  assert (Hc : NoDup (candidates x)) by (unfold candidates; apply NoDup_filter; exact He).
  unfold Str, state0, start_alloc. simpl. split; [|split; [|split]].
  - apply NoDup_app_intro; [exact Hn|apply M3; exact Hc|].
    intros p Hp Hz. apply M2 in Hz. destruct Hz as [Hz _]. apply candidates_In in Hz. tauto.
  - intros p Hp. apply in_app_or in Hp. destruct Hp as [Hp|Hp]; [apply Hr; exact Hp|].
    apply M2 in Hp. destruct Hp as [Hp _]. apply candidates_In in Hp. apply Her. tauto.
  - intros p Hp. apply in_or_app. left. exact Hp.
  - intros p Hp. unfold ids in Hp. apply in_map_iff in Hp. destruct Hp as [mp [<- Hmp]].
    destruct (M1 mp Hmp) as [Hc1 Hpos]. apply candidates_In in Hc1. split; [apply Her; tauto|].
    intro Hin. apply in_app_or in Hin. destruct Hin as [Hin|Hin]; [tauto|].
    apply M2 in Hin. destruct Hin as [_ Hle]. lra.
Qed.

Lemma share_total x : (1 <= nvoters (mi_voters x))%nat ->
  Qnat (nvoters (mi_voters x)) * share x == mi_budget x - tcost (mi_inst x) (mi_init x).
Proof.
  intro H. unfold share. rewrite Qred_correct. pose proof (Qnat_pos _ H). field. lra.
Qed.

Lemma zeros_free x : Forall (fun c => 0 <= c) (mi_costs x) -> tcost (mi_inst x) (snd (built x)) == 0.
Proof.
  intro Hc.
  destruct (mk_projects_spec (mi_voters x) (mi_costs x) (mi_bin x) (candidates x)) as [_ [M2 _]].
  fold (built x) in M2. revert M2. generalize (snd (built x)). intros zs M2.
  induction zs as [|z r IH]; [reflexivity|].
  rewrite tcost_cons, IH by (intros y Hy; apply M2; right; exact Hy).
  destruct (M2 z (or_introl eq_refl)) as [_ Hle].
  pose proof (cost_nonneg (mi_inst x) z Hc) as Hge. unfold cost in Hge. simpl in Hge.
  unfold cost. simpl. lra.
Qed.

Lemma state0_Mon x :
  wf_inst (mi_inst x) -> (1 <= nvoters (mi_voters x))%nat ->
  tcost (mi_inst x) (mi_init x) <= mi_budget x ->
  Mon (mi_voters x) (mi_costs x) (mi_budget x) (state0 x (share x)).
Proof.
  intros [Hc _] Hn Hf. unfold Mon, state0. simpl. split; [|split].
  - apply repeat_wf_buds. apply share_nonneg. exact Hf.
  - unfold built. apply mk_projects_wf.
  - rewrite money_repeat, (share_total x Hn). unfold start_alloc.
    change (mkInst (mi_costs x) (mi_budget x)) with (mi_inst x).
    rewrite tcost_app, (zeros_free x Hc). lra.
Qed.

(* ---------- reachable states ---------- *)

Lemma steps_Str P tb n init s s' : steps P tb s s' -> Str n init s -> Str n init s'.
Proof. apply (steps_inv P tb (Str n init)). intros a b. apply step_Str. Qed.

Lemma steps_Mon P tb cs B s s' : wf_voters P -> steps P tb s s' -> Mon P cs B s -> Mon P cs B s'.
Proof. intro Hv. apply (steps_inv P tb (Mon P cs B)). intros a b Ha. apply step_Mon; assumption. Qed.

Lemma Str_Mon_feasible P cs B init s :
  Str (length cs) init s -> Mon P cs B s -> feasible (mkInst cs B) (s_acc s) /\ incl init (s_acc s).
Proof.
  intros [H1 [H2 [H3 _]]] [M1 [_ M3]]. split; [|exact H3].
  split; [exact H1|]. split; [exact H2|]. pose proof (money_nonneg P _ M1). simpl. lra.
Qed.

Lemma feasible_perm I W W' : Permutation W W' -> feasible I W -> feasible I W'.
Proof.
  intros HP [H1 [H2 H3]]. split; [eapply Permutation_NoDup; eassumption|]. split.
  - intros p Hp. apply H2. eapply Permutation_in; [symmetry; exact HP|exact Hp].
  - rewrite <- (tcost_perm I W W' HP). exact H3.
Qed.

Lemma dedup_In l W : In W (dedup l) -> In W l.
Proof.
  induction l as [|y r IH]; simpl; [tauto|].
  intros [<-|H]; [left; reflexivity|]. apply filter_In in H. right. apply IH. tauto.
Qed.

(* ---------- C01: the plain rule ---------- *)

Definition mes_hyps (x : mes_in) : Prop :=
  wf_inst (mi_inst x) /\ wf_voters (mi_voters x) /\ (1 <= nvoters (mi_voters x))%nat /\
  feasible (mi_inst x) (mi_init x) /\
  NoDup (mi_enum x) /\ (forall p, In p (mi_enum x) -> (p < length (mi_costs x))%nat).

Theorem mes_feasible x o : mes_hyps x -> mes_resolute x = Some o ->
  feasible (mi_inst x) (o_alloc o) /\ incl (mi_init x) (o_alloc o).
Proof.
  intros [Hwf [Hv [Hn [[F1 [F2 F3]] [He Her]]]]] Hrun. unfold mes_resolute, run_once_res in Hrun.
  destruct (run_res _ _ _ _ _ _ _) as [[[[alloc tr] fin] rest]|] eqn:E; [|discriminate].
  injection Hrun as <-. simpl.
  apply run_res_steps in E. destruct E as [s [Hs [_ [-> _]]]].
  fold (state0 x (share x)) in Hs.
  apply (Str_Mon_feasible (mi_voters x) (mi_costs x) (mi_budget x)).
  - apply (steps_Str _ _ _ _ _ _ Hs). apply state0_Str; assumption.
  - apply (steps_Mon _ _ _ _ _ _ Hv Hs). apply state0_Mon; assumption.
Qed.

Theorem mes_irr_feasible x L : mes_hyps x -> mes_irresolute x = Some L ->
  forall W, In W L -> feasible (mi_inst x) W /\ incl (mi_init x) W.
Proof.
  intros [Hwf [Hv [Hn [[F1 [F2 F3]] [He Her]]]]] Hrun W HW. unfold mes_irresolute, run_once_irr in Hrun.
  destruct (run_irr _ _ _ _ _ _) as [L0|] eqn:E; [|discriminate].
  injection Hrun as <-. apply dedup_In in HW.
  destruct (run_irr_steps _ _ _ _ _ _ _ E W HW) as [s [rest [Hs [_ ->]]]].
  fold (state0 x (share x)) in Hs.
  destruct (Str_Mon_feasible (mi_voters x) (mi_costs x) (mi_budget x) (mi_init x) s) as [A B].
  - apply (steps_Str _ _ _ _ _ _ Hs). apply state0_Str; assumption.
  - apply (steps_Mon _ _ _ _ _ _ Hv Hs). apply state0_Mon; assumption.
  - pose proof (isort_perm Nat.leb (s_acc s)) as HP. split.
    + apply (feasible_perm _ _ _ HP). exact A.
    + intros p Hp. eapply Permutation_in; [exact HP|apply B; exact Hp].
Qed.

Theorem mes_total x : (exists o, mes_resolute x = Some o) /\ (exists L, mes_irresolute x = Some L).
Proof.
  split.
  - pose proof (run_once_res_total x (share x)) as H. unfold mes_resolute.
    destruct (run_once_res x (share x)) as [o|]; [exists o; reflexivity|contradiction].
  - pose proof (run_once_irr_total x (share x)) as H. unfold mes_irresolute.
    destruct (run_once_irr x (share x)) as [o|]; [exists o; reflexivity|contradiction].
Qed.

(* ---------- C01: the iterated variants (budget-increase loop inside the scheme) ---------- *)

(* structure alone holds for every endowment *)
Lemma run_once_res_Str x b0 o :
  NoDup (mi_init x) -> (forall p, In p (mi_init x) -> (p < length (mi_costs x))%nat) ->
  NoDup (mi_enum x) -> (forall p, In p (mi_enum x) -> (p < length (mi_costs x))%nat) ->
  run_once_res x b0 = Some o ->
  NoDup (o_alloc o) /\ (forall p, In p (o_alloc o) -> (p < length (mi_costs x))%nat) /\ incl (mi_init x) (o_alloc o).
Proof.
  intros F1 F2 He Her Hrun. unfold run_once_res in Hrun.
  destruct (run_res _ _ _ _ _ _ _) as [[[[alloc tr] fin] rest]|] eqn:E; [|discriminate].
  injection Hrun as <-. simpl.
  apply run_res_steps in E. destruct E as [s [Hs [_ [-> _]]]].
  fold (state0 x b0) in Hs.
  destruct (steps_Str _ _ _ _ _ _ Hs (state0_Str x b0 F1 F2 He Her)) as [A [B [C _]]]. auto.
Qed.

Lemma run_once_irr_Str x b0 L :
  NoDup (mi_init x) -> (forall p, In p (mi_init x) -> (p < length (mi_costs x))%nat) ->
  NoDup (mi_enum x) -> (forall p, In p (mi_enum x) -> (p < length (mi_costs x))%nat) ->
  run_once_irr x b0 = Some L -> forall W, In W L ->
  NoDup W /\ (forall p, In p W -> (p < length (mi_costs x))%nat) /\ incl (mi_init x) W.
Proof.
  intros F1 F2 He Her Hrun W HW. unfold run_once_irr in Hrun.
  destruct (run_irr _ _ _ _ _ _) as [L0|] eqn:E; [|discriminate].
  injection Hrun as <-. apply dedup_In in HW.
  destruct (run_irr_steps _ _ _ _ _ _ _ E W HW) as [s [rest [Hs [_ ->]]]].
  fold (state0 x b0) in Hs.
  destruct (steps_Str _ _ _ _ _ _ Hs (state0_Str x b0 F1 F2 He Her)) as [A [B [C _]]].
  pose proof (isort_perm Nat.leb (s_acc s)) as HP. split; [|split].
  - eapply Permutation_NoDup; eassumption.
  - intros p Hp. apply B. eapply Permutation_in; [symmetry; exact HP|exact Hp].
  - intros p Hp. eapply Permutation_in; [exact HP|apply C; exact Hp].
Qed.

Lemma iter_res_from x inc : forall fuel b0 prev o,
  iter_res fuel x inc b0 prev = Some o ->
  prev = Some o \/ exists b, run_once_res x b = Some o /\ alloc_feasible x (o_alloc o) = true.
Proof.
  induction fuel as [|f IH]; intros b0 prev o H; simpl in H; [discriminate|].
  destruct (run_once_res x b0) as [out|] eqn:E; [|discriminate].
  destruct (alloc_feasible x (o_alloc out)) eqn:Ef; simpl in H; [|left; exact H].
  destruct (alloc_exhaustive x (o_alloc out)).
  - injection H as <-. right. exists b0. split; assumption.
  - destruct (IH _ _ _ H) as [[= <-]|H']; [|right; exact H']. right. exists b0. split; assumption.
Qed.

Lemma iter_irr_from x inc : forall fuel b0 prev L,
  iter_irr fuel x inc b0 prev = Some L ->
  prev = Some L \/ exists b, run_once_irr x b = Some L /\ forall W, In W L -> alloc_feasible x W = true.
Proof.
  induction fuel as [|f IH]; intros b0 prev L H; simpl in H; [discriminate|].
  destruct (run_once_irr x b0) as [outs|] eqn:E; [|discriminate].
  destruct (existsb (fun W => negb (alloc_feasible x W)) outs) eqn:Ef; [left; exact H|].
  assert (Hall : forall W, In W outs -> alloc_feasible x W = true).
  { intros W HW. destruct (alloc_feasible x W) eqn:EW; [reflexivity|].
    assert (existsb (fun W => negb (alloc_feasible x W)) outs = true) by (apply existsb_exists; exists W; rewrite EW; auto).
    congruence. }
  destruct (existsb (alloc_exhaustive x) outs).
  - injection H as <-. right. exists b0. split; assumption.
  - destruct (IH _ _ _ H) as [[= <-]|H']; [|right; exact H']. right. exists b0. split; assumption.
Qed.

Theorem mes_iter_feasible fuel x inc o :
  feasible (mi_inst x) (mi_init x) ->
  NoDup (mi_enum x) -> (forall p, In p (mi_enum x) -> (p < length (mi_costs x))%nat) ->
  mes_iter_resolute fuel x inc = Some o ->
  feasible (mi_inst x) (o_alloc o) /\ incl (mi_init x) (o_alloc o).
Proof.
  intros [F1 [F2 _]] He Her H. unfold mes_iter_resolute in H.
  destruct (iter_res_from _ _ _ _ _ _ H) as [E|[b [Hr Hf]]]; [discriminate|].
  destruct (run_once_res_Str x b o F1 F2 He Her Hr) as [A [B C]].
  split; [|exact C]. split; [exact A|]. split; [exact B|].
  unfold alloc_feasible in Hf. apply Qleb_iff in Hf. exact Hf.
Qed.

Theorem mes_iter_irr_feasible fuel x inc L :
  feasible (mi_inst x) (mi_init x) ->
  NoDup (mi_enum x) -> (forall p, In p (mi_enum x) -> (p < length (mi_costs x))%nat) ->
  mes_iter_irresolute fuel x inc = Some L ->
  forall W, In W L -> feasible (mi_inst x) W /\ incl (mi_init x) W.
Proof.
  intros [F1 [F2 _]] He Her H W HW. unfold mes_iter_irresolute in H.
  destruct (iter_irr_from _ _ _ _ _ _ H) as [E|[b [Hr Hf]]]; [discriminate|].
  destruct (run_once_irr_Str x b L F1 F2 He Her Hr W HW) as [A [B C]].
  split; [|exact C]. split; [exact A|]. split; [exact B|].
  specialize (Hf W HW). unfold alloc_feasible in Hf. apply Qleb_iff in Hf. exact Hf.
Qed.

(* ---------- small facts shared by the later files ---------- *)

Lemma Qsum_map_plus {A} (f g : A -> Q) l :
  Qsum (map (fun a => f a + g a) l) == Qsum (map f l) + Qsum (map g l).
Proof. induction l as [|a l IH]; simpl; [ring|rewrite IH; ring]. Qed.

Lemma Qsum_map_zero {A} (f : A -> Q) l : (forall a, In a l -> f a == 0) -> Qsum (map f l) == 0.
Proof.
  induction l as [|a l IH]; simpl; intros H; [reflexivity|].
  rewrite (H a) by (left; reflexivity). rewrite IH; [ring|]. intros; apply H; right; assumption.
Qed.

Lemma mk_projects_complete P cs bin : forall enum p,
  In p enum -> Qltb 0 (total_sat P p (supporters P p)) = true ->
  (0 < nth p cs 0 -> In p (ids (fst (mk_projects P cs bin enum)))) /\
  (nth p cs 0 <= 0 -> In p (snd (mk_projects P cs bin enum))).
Proof.
  induction enum as [|q r IH]; intros p Hin Hts; [destruct Hin|]. simpl.
  destruct (mk_projects P cs bin r) as [ps zs] eqn:Em. simpl in IH.
  destruct Hin as [->|Hin].
  - rewrite Hts. destruct (Qltb 0 (nth p cs 0)) eqn:Ec; simpl.
    + split; [intros _; left; reflexivity|]. apply Qltb_iff in Ec. intro. lra.
    + split; [|intros _; left; reflexivity]. apply Qltb_false_iff in Ec. intro. lra.
  - destruct (IH p Hin Hts) as [I1 I2].
    destruct (Qltb 0 (total_sat P q (supporters P q))); [|split; assumption].
    destruct (Qltb 0 (nth q cs 0)); simpl; split; intro H; try (right; auto); auto.
Qed.

Lemma total_sat_pos P p : wf_voters P -> supporters P p <> [] -> 0 < total_sat P p (supporters P p).
Proof.
  intros Hv Hne. unfold total_sat.
  assert (Hall : forall i, In i (supporters P p) -> 0 < vmulQ P i * vutil P i p).
  { intros i Hi. apply supporters_spec in Hi. destruct Hi as [Hi Hu]. pose proof (vmulQ_pos P i Hv Hi). nra. }
  revert Hne Hall. generalize (supporters P p). intros l Hne Hall.
  destruct l as [|i r]; [congruence|]. simpl.
  assert (0 <= Qsum (map (fun i0 => vmulQ P i0 * vutil P i0 p) r)).
  { apply Qsum_nonneg. rewrite Forall_forall. intros y Hy. apply in_map_iff in Hy. destruct Hy as [j [<- Hj]].
    apply Qlt_le_weak. apply Hall. right. exact Hj. }
  pose proof (Hall i (or_introl eq_refl)). lra.
Qed.

Lemma NoDup_app_split {A} (l1 l2 : list A) :
  NoDup (l1 ++ l2) -> NoDup l2 /\ forall a, In a l1 -> In a l2 -> False.
Proof.
  induction l1 as [|y r IH]; simpl; intro H; [split; [exact H|intros ? []]|].
  inversion H as [|? ? Hy Hr]; subst. destruct (IH Hr) as [I1 I2]. split; [exact I1|].
  intros a [<-|Ha] Hin; [apply Hy; apply in_or_app; right; exact Hin|apply (I2 a Ha Hin)].
Qed.

