(* Proofs/MesIterSpec.v -- the budget-increase loop of the Equal Shares scheme (voter_budget_increment)
   as a whole: the model's [mes_iter_resolute] / [mes_iter_irresolute] and the executable textbook
   rule's [mes_spec_iter] / [mes_spec_iter_all] (Spec/MesSpec.v) take the same decisions in every
   pass (same selected set, same feasibility and exhaustiveness verdicts), hence return the same set
   (set of sets) or both run out of the outer fuel. *)
From PB Require Export Proofs.MesIrrSpec.
Open Scope Q_scope.

Definition orel (a : option mes_out) (b : option (list proj)) : Prop :=
  match a, b with
  | Some o, Some W => Permutation (o_alloc o) W
  | None, None => True
  | _, _ => False
  end.

Definition orel_all (a b : option (list (list proj))) : Prop :=
  match a, b with
  | Some L, Some L' => forall X, In X L <-> exists Y, In Y L' /\ X = sort_alloc Y
  | None, None => True
  | _, _ => False
  end.

Section Iter.
Variable x : mes_in.
Hypothesis Hv : wf_voters (mi_voters x).
Hypothesis Hn : NoDup (mi_enum x).
Hypothesis He : forall p, In p (mi_enum x) <-> (p < length (mi_costs x))%nat.

(* one pass, resolute *)
Lemma run_once_eq_spec b0 o : 0 <= b0 -> run_once_res x b0 = Some o ->
  exists W', spec_once (spec_of x) b0 = Some W' /\ Permutation (o_alloc o) W'.
Proof.
  intros Hb Hrun.
  destruct (run_once_refines_spec x b0 o Hv Hb Hn He Hrun) as [Z [W [Hs [Ea HZ]]]].
  assert (Hb2 : wf_buds (mi_voters x) (repeat b0 (length (mi_voters x)))) by (apply repeat_wf_buds; exact Hb).
  unfold spec_once.
  change (si_costs (spec_of x)) with (mi_costs x). change (si_voters (spec_of x)) with (mi_voters x).
  change (si_tb (spec_of x)) with (mi_tb x). change (si_init (spec_of x)) with (mi_init x).
  pose proof (spec_exec_total (mi_costs x) (mi_voters x) (mi_tb x) (S (si_n (spec_of x)))
                (repeat b0 (length (mi_voters x))) (si_pool (spec_of x))) as Htot.
  destruct (spec_exec (mi_costs x) (mi_voters x) (mi_tb x) (S (si_n (spec_of x)))
              (repeat b0 (length (mi_voters x))) (si_pool (spec_of x))) as [W2|] eqn:Ex.
  2:{ exfalso. apply Htot; [pose proof (pool_length x); lia|reflexivity]. }
  pose proof (spec_exec_sound _ _ _ Hv _ _ _ _ (pool_SInv x _ Hb2) Ex) as Hrun2.
  pose proof (spec_run_det _ _ _ _ _ _ Hs _ _ (beq_refl' _) Hrun2) as EW. subst W2.
  eexists. split; [reflexivity|]. rewrite Ea. apply Permutation_app_head. apply Permutation_app_tail. exact HZ.
Qed.

Lemma tcost_is_si W : si_tcost (spec_of x) W = tcost (mi_inst x) W.
Proof. reflexivity. Qed.

Lemma feasible_spec W W' : Permutation W W' -> si_feasible (spec_of x) W' = alloc_feasible x W.
Proof.
  intro H. unfold si_feasible, alloc_feasible. rewrite tcost_is_si. change (si_budget (spec_of x)) with (mi_budget x).
  destruct (Qleb (tcost (mi_inst x) W') (mi_budget x)) eqn:E1, (Qleb (tcost (mi_inst x) W) (mi_budget x)) eqn:E2;
    try reflexivity.
  - apply Qleb_iff in E1. rewrite <- (tcost_perm _ _ _ H) in E1. apply Qleb_iff in E1. congruence.
  - apply Qleb_iff in E2. rewrite (tcost_perm _ _ _ H) in E2. apply Qleb_iff in E2. congruence.
Qed.

Lemma forallb_seteq {A} (h : A -> bool) l l' : (forall p, In p l <-> In p l') -> forallb h l = forallb h l'.
Proof.
  intros H. destruct (forallb h l) eqn:E1, (forallb h l') eqn:E2; try reflexivity.
  - rewrite forallb_forall in E1. assert (forallb h l' = true) by (apply forallb_forall; intros p Hp; apply E1, H, Hp).
    congruence.
  - rewrite forallb_forall in E2. assert (forallb h l = true) by (apply forallb_forall; intros p Hp; apply E2, H, Hp).
    congruence.
Qed.

Lemma forallb_ext_ {A} (g h : A -> bool) l : (forall a, g a = h a) -> forallb g l = forallb h l.
Proof. intro H. induction l as [|a l IH]; simpl; [reflexivity|]. rewrite (H a), IH. reflexivity. Qed.

Lemma memb_perm p W W' : Permutation W W' -> memb p W = memb p W'.
Proof.
  intro H. destruct (memb p W) eqn:E1, (memb p W') eqn:E2; try reflexivity.
  - apply memb_In in E1. apply memb_false_In in E2. exfalso. apply E2. eapply Permutation_in; eassumption.
  - apply memb_In in E2. apply memb_false_In in E1. exfalso. apply E1. eapply Permutation_in; [symmetry; exact H|exact E2].
Qed.

Lemma exhaustive_spec W W' : Permutation W W' -> si_exhaustive (spec_of x) W' = alloc_exhaustive x W.
Proof.
  intro H. unfold si_exhaustive, alloc_exhaustive.
  set (t := fun p => memb p W || negb (Qleb (nth p (mi_costs x) 0 + tcost (mi_inst x) W) (mi_budget x))).
  transitivity (forallb t (si_pool (spec_of x))).
  - apply forallb_ext_. intro p. unfold t. rewrite (memb_perm p W W' H). f_equal.
    rewrite tcost_is_si. change (s_cost (si_costs (spec_of x)) p) with (nth p (mi_costs x) 0).
    change (si_budget (spec_of x)) with (mi_budget x). unfold Qltb, Qleb. f_equal.
    destruct (Qle_bool (nth p (mi_costs x) 0 + tcost (mi_inst x) W') (mi_budget x)) eqn:E1,
             (Qle_bool (nth p (mi_costs x) 0 + tcost (mi_inst x) W) (mi_budget x)) eqn:E2; try reflexivity.
    + apply Qle_bool_iff in E1. rewrite <- (tcost_perm _ _ _ H) in E1. apply Qle_bool_iff in E1. congruence.
    + apply Qle_bool_iff in E2. rewrite (tcost_perm _ _ _ H) in E2. apply Qle_bool_iff in E2. congruence.
  - rewrite (forallb_seteq t (si_pool (spec_of x)) (ids (fst (built x)))) by (intro p; apply (pool_iff x p Hv He)).
    unfold ids. clear H.
    pose proof (mk_projects_wf (mi_voters x) (mi_costs x) (mi_bin x) (candidates x)) as Hw. fold (built x) in Hw.
    induction (fst (built x)) as [|mp r IH]; [reflexivity|]. inversion Hw as [|? ? Hm Hr]; subst.
    cbn [map forallb]. rewrite (IH Hr). f_equal. unfold t. rewrite (wf_mp_cost _ _ _ Hm). reflexivity.
Qed.

Theorem iter_res_spec inc : 0 <= inc -> forall fuel b0 prev1 prev2, 0 <= b0 ->
  orel prev1 prev2 -> orel (iter_res fuel x inc b0 prev1) (spec_iter fuel (spec_of x) inc b0 prev2).
Proof.
  intros Hinc. induction fuel as [|f IH]; intros b0 prev1 prev2 Hb Hprev; [exact Logic.I|].
  cbn [iter_res spec_iter].
  pose proof (run_once_res_total x b0) as T1.
  destruct (run_once_res x b0) as [o1|] eqn:E1; [|congruence].
  destruct (run_once_eq_spec b0 o1 Hb E1) as [W' [E2 Hperm]]. rewrite E2.
  rewrite (feasible_spec _ _ Hperm), (exhaustive_spec _ _ Hperm).
  destruct (negb (alloc_feasible x (o_alloc o1))); [exact Hprev|].
  destruct (alloc_exhaustive x (o_alloc o1)); [exact Hperm|].
  apply IH; [|exact Hperm]. rewrite Qred_correct.
  apply (Qle_trans _ (0 + 0)); [discriminate|]. apply Qplus_le_compat; assumption.
Qed.

(* the loop starts from the same endowment up to ==; the spec keeps (budget - cost init)/n unreduced *)
Lemma spec_once_beq b0 b1 : b0 == b1 -> 0 <= b0 -> spec_once (spec_of x) b0 = spec_once (spec_of x) b1.
Proof.
  intros E Hb. unfold spec_once.
  change (si_costs (spec_of x)) with (mi_costs x). change (si_voters (spec_of x)) with (mi_voters x).
  change (si_tb (spec_of x)) with (mi_tb x).
  assert (Hb0 : wf_buds (mi_voters x) (repeat b0 (length (mi_voters x)))) by (apply repeat_wf_buds; exact Hb).
  assert (Hb1 : wf_buds (mi_voters x) (repeat b1 (length (mi_voters x)))) by (apply repeat_wf_buds; lra).
  pose proof (spec_exec_total (mi_costs x) (mi_voters x) (mi_tb x) (S (si_n (spec_of x)))
                (repeat b0 (length (mi_voters x))) (si_pool (spec_of x))) as T0.
  pose proof (spec_exec_total (mi_costs x) (mi_voters x) (mi_tb x) (S (si_n (spec_of x)))
                (repeat b1 (length (mi_voters x))) (si_pool (spec_of x))) as T1.
  destruct (spec_exec _ _ _ _ (repeat b0 _) _) as [W0|] eqn:E0; [|exfalso; apply T0; [pose proof (pool_length x); lia|reflexivity]].
  destruct (spec_exec _ _ _ _ (repeat b1 _) _) as [W1|] eqn:E1; [|exfalso; apply T1; [pose proof (pool_length x); lia|reflexivity]].
  pose proof (spec_exec_sound _ _ _ Hv _ _ _ _ (pool_SInv x _ Hb0) E0) as R0.
  pose proof (spec_exec_sound _ _ _ Hv _ _ _ _ (pool_SInv x _ Hb1) E1) as R1.
  rewrite (spec_run_det _ _ _ _ _ _ R0 _ _ (repeat_beq _ _ _ E) R1). reflexivity.
Qed.

Lemma spec_iter_beq inc : forall fuel b0 b1 prev, b0 == b1 -> 0 <= b0 -> 0 <= inc ->
  spec_iter fuel (spec_of x) inc b0 prev = spec_iter fuel (spec_of x) inc b1 prev.
Proof.
  induction fuel as [|f IH]; intros b0 b1 prev E Hb Hinc; [reflexivity|]. cbn [spec_iter].
  rewrite (spec_once_beq b0 b1 E Hb). destruct (spec_once (spec_of x) b1) as [W|]; [|reflexivity].
  destruct (negb (si_feasible (spec_of x) W)); [reflexivity|]. destruct (si_exhaustive (spec_of x) W); [reflexivity|].
  assert (EQ : Qred (b0 + inc) = Qred (b1 + inc)) by (apply Qred_complete; rewrite E; reflexivity).
  rewrite EQ. reflexivity.
Qed.

(* M: the iterated resolute rule *)
Theorem mes_iter_eq_spec fuel inc : 0 <= inc -> tcost (mi_inst x) (mi_init x) <= mi_budget x ->
  orel (mes_iter_resolute fuel x inc) (mes_spec_iter fuel (spec_of x) inc).
Proof.
  intros Hinc Hf. unfold mes_iter_resolute, mes_spec_iter.
  pose proof (share_nonneg x Hf) as Hs.
  rewrite <- (spec_iter_beq inc fuel (share x) (si_share (spec_of x)) None (share_is_si_share x) Hs Hinc).
  apply iter_res_spec; [exact Hinc|exact Hs|exact Logic.I].
Qed.

(* ---------- irresolute ---------- *)

Lemma run_once_irr_eq_spec b0 L : 0 <= b0 -> run_once_irr x b0 = Some L ->
  exists L', spec_once_all (spec_of x) b0 = Some L' /\
             forall X, In X L <-> exists Y, In Y L' /\ X = sort_alloc Y.
Proof.
  intros Hb Hrun.
  assert (Hb2 : wf_buds (mi_voters x) (repeat b0 (length (mi_voters x)))) by (apply repeat_wf_buds; exact Hb).
  unfold spec_once_all.
  change (si_costs (spec_of x)) with (mi_costs x). change (si_voters (spec_of x)) with (mi_voters x).
  change (si_init (spec_of x)) with (mi_init x).
  pose proof (spec_exec_all_total (mi_costs x) (mi_voters x) (S (si_n (spec_of x)))
                (repeat b0 (length (mi_voters x))) (si_pool (spec_of x))) as Htot.
  destruct (spec_exec_all (mi_costs x) (mi_voters x) (S (si_n (spec_of x)))
              (repeat b0 (length (mi_voters x))) (si_pool (spec_of x))) as [L2|] eqn:Ex.
  2:{ exfalso. apply Htot; [pose proof (pool_length x); lia|reflexivity]. }
  eexists. split; [reflexivity|]. intro X.
  rewrite (run_once_irr_spec x b0 L Hv Hb Hn He Hrun X).
  pose proof (spec_exec_all_spec _ _ Hv _ _ _ _ (pool_SInv x _ Hb2) Ex) as Hall.
  split.
  - intros [W [HW ->]]. exists (mi_init x ++ si_zeros (spec_of x) ++ W). split; [|reflexivity].
    apply in_map_iff. exists W. split; [reflexivity|]. apply Hall. exact HW.
  - intros [Y [HY ->]]. apply in_map_iff in HY. destruct HY as [W [<- HW]]. exists W. split; [|reflexivity].
    apply Hall. exact HW.
Qed.

Lemma sort_alloc_perm Y : Permutation (sort_alloc Y) Y.
Proof. symmetry. apply isort_perm. Qed.

Lemma existsb_rel {A B} (h : A -> bool) (h' : B -> bool) (R : A -> B -> Prop) l l' :
  (forall a b, R a b -> h a = h' b) ->
  (forall a, In a l -> exists b, In b l' /\ R a b) -> (forall b, In b l' -> exists a, In a l /\ R a b) ->
  existsb h l = existsb h' l'.
Proof.
  intros HR H1 H2. destruct (existsb h l) eqn:E1, (existsb h' l') eqn:E2; try reflexivity.
  - apply existsb_exists in E1. destruct E1 as [a [Ha Hh]]. destruct (H1 a Ha) as [b [Hb Hab]].
    assert (existsb h' l' = true) by (apply existsb_exists; exists b; split; [exact Hb|rewrite <- (HR a b Hab); exact Hh]).
    congruence.
  - apply existsb_exists in E2. destruct E2 as [b [Hb Hh]]. destruct (H2 b Hb) as [a [Ha Hab]].
    assert (existsb h l = true) by (apply existsb_exists; exists a; split; [exact Ha|rewrite (HR a b Hab); exact Hh]).
    congruence.
Qed.

Theorem iter_irr_spec inc : 0 <= inc -> forall fuel b0 prev1 prev2, 0 <= b0 ->
  orel_all prev1 prev2 -> orel_all (iter_irr fuel x inc b0 prev1) (spec_iter_all fuel (spec_of x) inc b0 prev2).
Proof.
  intros Hinc. induction fuel as [|f IH]; intros b0 prev1 prev2 Hb Hprev; [exact Logic.I|].
  cbn [iter_irr spec_iter_all].
  pose proof (run_once_irr_total x b0) as T1.
  destruct (run_once_irr x b0) as [L1|] eqn:E1; [|congruence].
  destruct (run_once_irr_eq_spec b0 L1 Hb E1) as [L' [E2 Hset]]. rewrite E2.
  assert (H1 : forall a, In a L1 -> exists b, In b L' /\ a = sort_alloc b) by (intros a Ha; apply Hset; exact Ha).
  assert (H2 : forall b, In b L' -> exists a, In a L1 /\ a = sort_alloc b).
  { intros b Hb'. exists (sort_alloc b). split; [|reflexivity]. apply Hset. exists b. split; [exact Hb'|reflexivity]. }
  rewrite (existsb_rel (fun W => negb (alloc_feasible x W)) (fun W => negb (si_feasible (spec_of x) W))
             (fun a b => a = sort_alloc b) L1 L') ; [| |exact H1|exact H2].
  2:{ intros a b ->. rewrite (feasible_spec _ _ (sort_alloc_perm b)). reflexivity. }
  rewrite (existsb_rel (alloc_exhaustive x) (si_exhaustive (spec_of x)) (fun a b => a = sort_alloc b) L1 L');
    [| |exact H1|exact H2].
  2:{ intros a b ->. rewrite (exhaustive_spec _ _ (sort_alloc_perm b)). reflexivity. }
  destruct (existsb (fun W => negb (si_feasible (spec_of x) W)) L'); [exact Hprev|].
  destruct (existsb (si_exhaustive (spec_of x)) L'); [exact Hset|].
  apply IH; [|exact Hset]. rewrite Qred_correct.
  apply (Qle_trans _ (0 + 0)); [discriminate|]. apply Qplus_le_compat; assumption.
Qed.

Lemma spec_once_all_beq b0 b1 : b0 == b1 -> 0 <= b0 ->
  forall L0 L1, spec_once_all (spec_of x) b0 = Some L0 -> spec_once_all (spec_of x) b1 = Some L1 ->
  forall Y, In Y L0 <-> In Y L1.
Proof.
  intros E Hb L0 L1. unfold spec_once_all.
  change (si_costs (spec_of x)) with (mi_costs x). change (si_voters (spec_of x)) with (mi_voters x).
  assert (Hb0 : wf_buds (mi_voters x) (repeat b0 (length (mi_voters x)))) by (apply repeat_wf_buds; exact Hb).
  assert (Hb1 : wf_buds (mi_voters x) (repeat b1 (length (mi_voters x)))) by (apply repeat_wf_buds; lra).
  destruct (spec_exec_all _ _ _ (repeat b0 _) _) as [M0|] eqn:E0; [|discriminate].
  destruct (spec_exec_all _ _ _ (repeat b1 _) _) as [M1|] eqn:E1; [|discriminate].
  intros [= <-] [= <-] Y. rewrite !in_map_iff.
  pose proof (spec_exec_all_spec _ _ Hv _ _ _ _ (pool_SInv x _ Hb0) E0) as A0.
  pose proof (spec_exec_all_spec _ _ Hv _ _ _ _ (pool_SInv x _ Hb1) E1) as A1.
  split; intros [W [EW HW]]; exists W; (split; [exact EW|]).
  - apply A1. apply (spec_run_any_beq _ _ _ _ _ _ (repeat_beq _ _ _ E)). apply A0. exact HW.
  - apply A0. apply (spec_run_any_beq _ _ _ _ _ _ (beq_sym _ _ (repeat_beq _ _ _ E))). apply A1. exact HW.
Qed.

Lemma spec_iter_all_beq inc : 0 <= inc -> forall fuel b0 b1 prev0 prev1, b0 == b1 -> 0 <= b0 ->
  oseteq prev0 prev1 ->
  oseteq (spec_iter_all fuel (spec_of x) inc b0 prev0) (spec_iter_all fuel (spec_of x) inc b1 prev1).
Proof.
  intros Hinc. induction fuel as [|f IH]; intros b0 b1 prev0 prev1 E Hb Hprev; [exact Logic.I|].
  cbn [spec_iter_all].
  assert (T : forall b, spec_once_all (spec_of x) b <> None).
  { intro b. unfold spec_once_all.
    pose proof (spec_exec_all_total (si_costs (spec_of x)) (si_voters (spec_of x)) (S (si_n (spec_of x)))
                  (repeat b (length (si_voters (spec_of x)))) (si_pool (spec_of x))) as Htot.
    destruct (spec_exec_all _ _ _ _ _); [discriminate|]. exfalso. apply Htot; [pose proof (pool_length x); lia|reflexivity]. }
  pose proof (T b0) as T0. pose proof (T b1) as T1.
  destruct (spec_once_all (spec_of x) b0) as [L0|] eqn:E0; [|congruence].
  destruct (spec_once_all (spec_of x) b1) as [L1|] eqn:E1; [|congruence].
  pose proof (spec_once_all_beq b0 b1 E Hb L0 L1 E0 E1) as Hset.
  rewrite <- (existsb_seteq (fun W => negb (si_feasible (spec_of x) W)) (fun W => negb (si_feasible (spec_of x) W)) L0 L1 Hset)
    by (intros; reflexivity).
  rewrite <- (existsb_seteq (si_exhaustive (spec_of x)) (si_exhaustive (spec_of x)) L0 L1 Hset) by (intros; reflexivity).
  destruct (existsb (fun W => negb (si_feasible (spec_of x) W)) L0); [exact Hprev|].
  destruct (existsb (si_exhaustive (spec_of x)) L0); [exact Hset|].
  apply IH; [rewrite E; reflexivity| |exact Hset]. rewrite Qred_correct.
  apply (Qle_trans _ (0 + 0)); [discriminate|]. apply Qplus_le_compat; assumption.
Qed.

(* M: the iterated irresolute rule *)
Theorem mes_iter_irr_eq_spec fuel inc : 0 <= inc -> tcost (mi_inst x) (mi_init x) <= mi_budget x ->
  orel_all (mes_iter_irresolute fuel x inc) (mes_spec_iter_all fuel (spec_of x) inc).
Proof.
  intros Hinc Hf. unfold mes_iter_irresolute, mes_spec_iter_all.
  pose proof (share_nonneg x Hf) as Hs.
  pose proof (iter_irr_spec inc Hinc fuel (share x) None None Hs Logic.I) as A.
  pose proof (spec_iter_all_beq inc Hinc fuel (share x) (si_share (spec_of x)) None None (share_is_si_share x) Hs Logic.I) as B.
  destruct (iter_irr fuel x inc (share x) None) as [L|], (spec_iter_all fuel (spec_of x) inc (share x) None) as [L1|],
           (spec_iter_all fuel (spec_of x) inc (si_share (spec_of x)) None) as [L2|]; simpl in *; try contradiction; try exact Logic.I.
  intro X. rewrite (A X). split; intros [Y [HY EY]]; exists Y; (split; [apply B; exact HY|exact EY]).
Qed.
End Iter.
