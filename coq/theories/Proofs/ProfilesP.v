(* Proofs/ProfilesP.v -- C16: a multiprofile is a faithful multiset of ballots (any history length). *)
From Coq Require Import List Arith Bool ZArith QArith Lia Permutation Sorted.
From PB Require Import Base.Sorting Model.Ballots Model.Profiles.
Import ListNotations.
Local Open Scope nat_scope.

(* ------------------------------------------------------------------------------------------------ *)
(* 1. generic: Counter keyed by [frozen b] under a lookup that agrees with an equivalence test [scb] *)
(* ------------------------------------------------------------------------------------------------ *)
Section Faithful.
  Variables (B K : Type) (frozen : B -> K) (kmatch : K -> K -> bool) (scb : B -> B -> bool).
  Hypothesis scb_refl : forall a, scb a a = true.
  Hypothesis scb_trans : forall a b, scb a b = true -> forall c, scb a c = scb b c.
  Hypothesis match_frozen : forall a b, kmatch (frozen a) (frozen b) = scb a b.

  Lemma scb_sym a b : scb a b = true -> scb b a = true.
  Proof. intros H. rewrite <- (scb_trans a b H a). apply scb_refl. Qed.

  Lemma scb_sym_eq a b : scb a b = scb b a.
  Proof.
    destruct (scb a b) eqn:E1; destruct (scb b a) eqn:E2; auto.
    - apply scb_sym in E1. congruence.
    - apply scb_sym in E2. congruence.
  Qed.

  (* representatives: pairwise inequivalent, taken from h, covering h *)
  Definition pairwise_distinct (reps : list B) : Prop := ForallOrdPairs (fun x y => scb x y = false) reps.
  Definition reps_of (reps h : list B) : Prop :=
    pairwise_distinct reps /\ incl reps h /\ forall b, In b h -> existsb (fun r => scb r b) reps = true.

  Definition entries (reps h : list B) : counter K := map (fun r => (frozen r, countb (scb r) h)) reps.

  Lemma countb_app {A} (f : A -> bool) l1 l2 : countb f (l1 ++ l2) = countb f l1 + countb f l2.
  Proof. unfold countb. rewrite filter_app, app_length. reflexivity. Qed.

  Lemma mp_num_append k m : mp_num (mp_append kmatch k m) = S (mp_num m).
  Proof.
    induction m as [|[k' c] r IH]; simpl; [reflexivity|].
    destruct (kmatch k' k); simpl; [reflexivity|]. rewrite IH. lia.
  Qed.

  (* appending frozen b to a counter whose keys are pairwise inequivalent representatives *)
  Lemma append_entries (f : B -> nat) b reps :
    pairwise_distinct reps ->
    mp_append kmatch (frozen b) (map (fun r => (frozen r, f r)) reps) =
    if existsb (fun r => scb r b) reps
    then map (fun r => (frozen r, f r + (if scb r b then 1 else 0))) reps
    else map (fun r => (frozen r, f r)) reps ++ [(frozen b, 1)].
  Proof.
    induction reps as [|r rs IH]; intros Hp; simpl; [reflexivity|].
    inversion Hp as [|x l Hx Hrest]; subst.
    rewrite match_frozen. destruct (scb r b) eqn:E; simpl.
    - f_equal; [f_equal; lia|].
      apply map_ext_in. intros r' Hr'. f_equal.
      assert (scb r' b = false) as ->; [|lia].
      rewrite Forall_forall in Hx. specialize (Hx r' Hr').
      rewrite (scb_trans r b E r') in Hx. rewrite scb_sym_eq. exact Hx.
    - rewrite (IH Hrest). destruct (existsb (fun r0 => scb r0 b) rs); simpl; [|reflexivity].
      f_equal. f_equal. lia.
  Qed.

  Lemma cover_count_zero reps h b :
    reps_of reps h -> existsb (fun r => scb r b) reps = false -> countb (scb b) h = 0.
  Proof.
    intros (_ & _ & Hcov) Hno. unfold countb.
    destruct (filter (scb b) h) as [|x l] eqn:E; [reflexivity|exfalso].
    assert (Hx : In x (filter (scb b) h)) by (rewrite E; left; reflexivity).
    apply filter_In in Hx. destruct Hx as [Hin Hbx].
    specialize (Hcov x Hin). apply existsb_exists in Hcov. destruct Hcov as (r & Hr & Hrx).
    assert (scb r b = true).
    { rewrite (scb_trans r x Hrx b). apply scb_sym. exact Hbx. }
    assert (existsb (fun r0 => scb r0 b) reps = true) by (apply existsb_exists; exists r; auto).
    congruence.
  Qed.

  Definition Inv (m : counter K) (h : list B) : Prop :=
    exists reps, m = entries reps h /\ reps_of reps h.

  Lemma inv_nil : Inv [] [].
  Proof.
    exists []. split; [reflexivity|]. split; [constructor|]. split; [intros x []|intros b []].
  Qed.

  Lemma inv_append m h b : Inv m h -> Inv (mp_append kmatch (frozen b) m) (h ++ [b]).
  Proof.
    intros (reps & -> & Hr). pose proof Hr as (Hp & Hincl & Hcov).
    unfold entries. rewrite (append_entries (fun r => countb (scb r) h) b reps Hp).
    destruct (existsb (fun r => scb r b) reps) eqn:E.
    - exists reps. split.
      + unfold entries. apply map_ext. intros r. f_equal. rewrite countb_app. unfold countb at 3. simpl.
        destruct (scb r b); reflexivity.
      + split; [exact Hp|]. split.
        * intros x Hx. apply in_or_app. left. apply Hincl. exact Hx.
        * intros x Hx. apply in_app_or in Hx. destruct Hx as [Hx|[<-|[]]]; [apply Hcov; exact Hx|exact E].
    - exists (reps ++ [b]). split.
      + unfold entries. rewrite map_app. simpl. f_equal.
        * apply map_ext_in. intros r Hrin. f_equal. rewrite countb_app. unfold countb at 3. simpl.
          assert (Erb : scb r b = false).
          { destruct (scb r b) eqn:Erb; [|reflexivity].
            assert (existsb (fun r0 => scb r0 b) reps = true) by (apply existsb_exists; exists r; auto).
            congruence. }
          rewrite Erb. simpl. lia.
        * rewrite countb_app. rewrite (cover_count_zero reps h b Hr E). unfold countb. simpl.
          rewrite scb_refl. reflexivity.
      + split; [|split].
        * unfold pairwise_distinct. clear Hincl Hcov Hr. induction reps as [|r rs IH]; simpl.
          -- constructor; [constructor|constructor].
          -- inversion Hp as [|x l Hx Hrest]; subst. simpl in E. apply orb_false_iff in E. destruct E as [E1 E2].
             constructor; [|apply IH; assumption].
             apply Forall_app. split; [exact Hx|constructor; [exact E1|constructor]].
        * intros x Hx. apply in_app_or in Hx. apply in_or_app.
          destruct Hx as [Hx|Hx]; [left; apply Hincl; exact Hx|right; exact Hx].
        * intros x Hx. rewrite existsb_app. apply in_app_or in Hx.
          destruct Hx as [Hx|[<-|[]]]; [rewrite (Hcov x Hx); reflexivity|].
          simpl. rewrite scb_refl. rewrite orb_true_r. reflexivity.
  Qed.

  Lemma inv_extend bs : forall m h, Inv m h -> Inv (mp_extend kmatch frozen bs m) (h ++ bs).
  Proof.
    induction bs as [|b bs IH]; intros m h H; simpl.
    - rewrite app_nil_r. exact H.
    - replace (h ++ b :: bs) with ((h ++ [b]) ++ bs) by (rewrite <- app_assoc; reflexivity).
      apply IH. apply inv_append. exact H.
  Qed.

  Lemma inv_step m h o : Inv m h -> Inv (op_step kmatch frozen m o) (h ++ op_ballots o).
  Proof. destruct o as [b|bs]; simpl; [apply inv_append|apply inv_extend]. Qed.

  Lemma inv_run_gen ops : forall m h, Inv m h -> Inv (fold_left (op_step kmatch frozen) ops m) (h ++ history ops).
  Proof.
    induction ops as [|o ops IH]; intros m h H; simpl.
    - rewrite app_nil_r. exact H.
    - rewrite app_assoc. apply IH. apply inv_step. exact H.
  Qed.

  Lemma inv_run ops : Inv (run kmatch frozen ops) (history ops).
  Proof. apply (inv_run_gen ops [] [] inv_nil). Qed.

  Lemma num_extend bs : forall m, mp_num (mp_extend kmatch frozen bs m) = length bs + mp_num m.
  Proof.
    induction bs as [|b bs IH]; intros m; simpl; [reflexivity|].
    rewrite IH, mp_num_append. lia.
  Qed.

  Lemma num_run_gen ops : forall m,
    mp_num (fold_left (op_step kmatch frozen) ops m) = length (history ops) + mp_num m.
  Proof.
    induction ops as [|o ops IH]; intros m; simpl; [reflexivity|].
    rewrite IH, app_length. destruct o as [b|bs]; simpl.
    - rewrite mp_num_append. lia.
    - rewrite num_extend. lia.
  Qed.

  Lemma get_entries reps h b :
    reps_of reps h -> mp_get kmatch (frozen b) (entries reps h) = countb (scb b) h.
  Proof.
    intros Hr. destruct (existsb (fun r => scb r b) reps) eqn:E.
    - clear Hr. induction reps as [|r rs IH]; simpl in *; [discriminate|].
      rewrite match_frozen. destruct (scb r b) eqn:Erb.
      + unfold countb. f_equal. apply filter_ext. intros c. apply scb_trans. exact Erb.
      + simpl in E. apply IH. exact E.
    - rewrite (cover_count_zero reps h b Hr E). clear Hr.
      induction reps as [|r rs IH]; simpl in *; [reflexivity|].
      rewrite match_frozen. apply orb_false_iff in E. destruct E as [-> E]. apply IH. exact E.
  Qed.

  (* THE THEOREM: every append/extend history, of any length *)
  Theorem multiprofile_faithful_gen : forall ops : list (mpop B),
    let h := history ops in
    let m := run kmatch frozen ops in
    mp_num m = length h
    /\ (exists reps, reps_of reps h /\ mp_len m = length reps /\ map fst m = map frozen reps)
    /\ (forall b, mp_get kmatch (frozen b) m = countb (scb b) h).
  Proof.
    intros ops h m. split; [|split].
    - unfold m, run. rewrite num_run_gen. unfold h. simpl. lia.
    - destruct (inv_run ops) as (reps & Hm & Hr). exists reps. split; [exact Hr|].
      fold m in Hm. rewrite Hm. unfold entries, mp_len. rewrite map_length, map_map. simpl.
      split; reflexivity.
    - intros b. destruct (inv_run ops) as (reps & Hm & Hr). fold m in Hm. rewrite Hm.
      apply get_entries. exact Hr.
  Qed.
End Faithful.

(* ------------------------------------------------------------------------------------------------ *)
(* 2. the four ballot classes                                                                        *)
(* ------------------------------------------------------------------------------------------------ *)
Lemma score_eqb_eq a b : score_eqb a b = true <-> a = b.
Proof.
  unfold score_eqb. rewrite andb_true_iff, Z.eqb_eq, Pos.eqb_eq. destruct a, b; simpl.
  split; [intros [-> ->]; reflexivity|intros [= -> ->]; auto].
Qed.

Lemma score_eqb_refl a : score_eqb a a = true.
Proof. apply score_eqb_eq. reflexivity. Qed.

Lemma nlist_eqb_eq l1 : forall l2, nlist_eqb l1 l2 = true <-> l1 = l2.
Proof.
  induction l1 as [|x r IH]; intros [|y r2]; simpl; try (split; congruence).
  rewrite andb_true_iff, Nat.eqb_eq, IH. split; [intros [-> ->]; reflexivity|intros [= -> ->]; auto].
Qed.

Lemma nmemb_In p l : nmemb p l = true <-> In p l.
Proof.
  unfold nmemb. rewrite existsb_exists. split.
  - intros (x & Hx & E). apply Nat.eqb_eq in E. subst. exact Hx.
  - intros H. exists p. split; [exact H|apply Nat.eqb_refl].
Qed.

Lemma nset_eqb_spec l1 l2 : nset_eqb l1 l2 = true <-> (forall p, In p l1 <-> In p l2).
Proof.
  unfold nset_eqb. rewrite andb_true_iff, !forallb_forall. split.
  - intros [H1 H2] p. split; intro H; apply nmemb_In; [apply H1|apply H2]; exact H.
  - intros H. split; intros p Hp; apply nmemb_In; apply H; exact Hp.
Qed.

(* --- dict invariants: keys are pairwise distinct ----------------------------------------------- *)
Lemma keys_dset k v d : forall p, In p (keys (dset k v d)) <-> p = k \/ In p (keys d).
Proof.
  induction d as [|[k' v'] r IH]; intros p; simpl.
  - split; [intros [<-|[]]; auto|intros [->|[]]; auto].
  - destruct (Nat.eqb k k') eqn:E; simpl.
    + apply Nat.eqb_eq in E. subst. split; [intros [<-|H]; auto|intros [->|[<-|H]]; auto].
    + unfold keys in IH. rewrite IH. split; [intros [<-|[->|H]]; auto|intros [->|[<-|H]]; auto].
Qed.

Lemma keys_ddel_In k d : forall p, In p (keys (ddel k d)) -> In p (keys d).
Proof.
  induction d as [|[k' v'] r IH]; intros p; simpl; [auto|].
  destruct (Nat.eqb k k'); simpl; [auto|]. intros [<-|H]; [auto|right; apply IH; exact H].
Qed.

Lemma nodup_dset k v d : NoDup (keys d) -> NoDup (keys (dset k v d)).
Proof.
  induction d as [|[k' v'] r IH]; intros H; simpl.
  - constructor; [intros []|constructor].
  - inversion H as [|x l Hnin Hnd]; subst. destruct (Nat.eqb k k') eqn:E; simpl.
    + apply Nat.eqb_eq in E. subst. constructor; assumption.
    + constructor; [|apply IH; exact Hnd].
      intros Hin. apply keys_dset in Hin. destruct Hin as [->|Hin]; [|apply Hnin; exact Hin].
      rewrite Nat.eqb_refl in E. discriminate.
Qed.

Lemma nodup_ddel k d : NoDup (keys d) -> NoDup (keys (ddel k d)).
Proof.
  induction d as [|[k' v'] r IH]; intros H; simpl; [constructor|].
  inversion H as [|x l Hnin Hnd]; subst. destruct (Nat.eqb k k'); simpl; [exact Hnd|].
  constructor; [|apply IH; exact Hnd]. intros Hin. apply Hnin. eapply keys_ddel_In. exact Hin.
Qed.

Lemma nodup_hist_gen h : forall d, NoDup (keys d) -> NoDup (keys (fold_left dstep h d)).
Proof.
  induction h as [|s h IH]; intros d H; simpl; [exact H|].
  apply IH. destruct s; simpl; [apply nodup_dset|apply nodup_ddel]; exact H.
Qed.

Lemma nodup_content b : NoDup (keys (content b)).
Proof. apply nodup_hist_gen. constructor. Qed.

Lemma dget_In d : NoDup (keys d) -> forall k v, dget k d = Some v <-> In (k, v) d.
Proof.
  induction d as [|[k' v'] r IH]; intros H k v; simpl; [split; [discriminate|intros []]|].
  inversion H as [|x l Hnin Hnd]; subst. destruct (Nat.eqb k k') eqn:E.
  - apply Nat.eqb_eq in E. subst. split; [intros [= ->]; auto|].
    intros [[= ->]|Hin]; [reflexivity|]. exfalso. apply Hnin. apply (in_map fst) in Hin. exact Hin.
  - rewrite (IH Hnd). split; [auto|]. intros [[= -> ->]|Hin]; [|exact Hin].
    rewrite Nat.eqb_refl in E. discriminate.
Qed.

Lemma dget_None d k : dget k d = None <-> ~ In k (keys d).
Proof.
  induction d as [|[k' v'] r IH]; simpl; [split; auto|].
  destruct (Nat.eqb k k') eqn:E.
  - apply Nat.eqb_eq in E. subst. split; [discriminate|intros H; exfalso; apply H; auto].
  - rewrite IH. apply Nat.eqb_neq in E. split; [intros H [H1|H1]; [congruence|auto]|intros H H1; apply H; auto].
Qed.

(* CPython's dict equality, for dicts (keys distinct): same items *)
Lemma dict_eqb_spec d1 d2 : NoDup (keys d1) -> NoDup (keys d2) ->
  (dict_eqb d1 d2 = true <-> forall x, In x d1 <-> In x d2).
Proof.
  intros N1 N2. unfold dict_eqb. rewrite andb_true_iff, Nat.eqb_eq, forallb_forall.
  assert (ND1 : NoDup d1) by (eapply NoDup_map_inv; exact N1).
  assert (ND2 : NoDup d2) by (eapply NoDup_map_inv; exact N2).
  split.
  - intros [Hlen Hall].
    assert (Hincl : incl d1 d2).
    { intros [k v] Hin. specialize (Hall _ Hin). simpl in Hall.
      destruct (dget k d2) as [v'|] eqn:E; [|discriminate]. apply score_eqb_eq in Hall. subst.
      apply (dget_In d2 N2). exact E. }
    intros x. split; [apply Hincl|].
    apply (NoDup_length_incl ND1); [lia|exact Hincl].
  - intros H. split.
    + apply Nat.le_antisymm; apply NoDup_incl_length; auto; intros x Hx; apply H; exact Hx.
    + intros [k v] Hin. simpl. apply H in Hin. apply (dget_In d2 N2) in Hin. rewrite Hin. apply score_eqb_refl.
Qed.

Lemma dict_items_ext d1 d2 : NoDup (keys d1) -> NoDup (keys d2) ->
  ((forall x, In x d1 <-> In x d2) <-> (forall p, dget p d1 = dget p d2)).
Proof.
  intros N1 N2. split.
  - intros H p. destruct (dget p d1) as [v|] eqn:E1.
    + apply (dget_In d1 N1) in E1. apply H in E1. apply (dget_In d2 N2) in E1. auto.
    + destruct (dget p d2) as [v|] eqn:E2; [|reflexivity].
      apply (dget_In d2 N2) in E2. apply H in E2. apply (dget_In d1 N1) in E2. congruence.
  - intros H [k v]. rewrite <- (dget_In d1 N1), <- (dget_In d2 N2), H. reflexivity.
Qed.

(* --- sorted duplicate-free lists of ranks with the same elements are equal --------------------- *)
Lemma sorted_nodup_ext : forall l1 l2 : list nat,
  StronglySorted (lebP Nat.leb) l1 -> StronglySorted (lebP Nat.leb) l2 -> NoDup l1 -> NoDup l2 ->
  (forall x, In x l1 <-> In x l2) -> l1 = l2.
Proof.
  induction l1 as [|x r1 IH]; intros [|y r2] S1 S2 N1 N2 H.
  - reflexivity.
  - exfalso. apply (H y). left. reflexivity.
  - exfalso. apply (H x). left. reflexivity.
  - inversion S1 as [|? ? S1' F1]; inversion S2 as [|? ? S2' F2]; subst.
    inversion N1 as [|? ? Nx N1']; inversion N2 as [|? ? Ny N2']; subst.
    rewrite Forall_forall in F1, F2. unfold lebP in F1, F2.
    assert (x = y).
    { destruct (Nat.eq_dec x y) as [|Hne]; [assumption|exfalso].
      assert (In x r2) by (destruct (proj1 (H x) (or_introl eq_refl)); [congruence|assumption]).
      assert (In y r1) by (destruct (proj2 (H y) (or_introl eq_refl)); [congruence|assumption]).
      apply F1 in H1. apply F2 in H0. apply Nat.leb_le in H0, H1. lia. }
    subst y. f_equal. apply IH; auto.
    intros z. split; intros Hz.
    + destruct (proj1 (H z) (or_intror Hz)) as [<-|]; [contradiction|assumption].
    + destruct (proj2 (H z) (or_intror Hz)) as [<-|]; [contradiction|assumption].
Qed.

Lemma leb_total x y : Nat.leb x y = true \/ Nat.leb y x = true.
Proof. destruct (Nat.le_ge_cases x y); [left|right]; apply Nat.leb_le; assumption. Qed.
Lemma leb_trans x y z : Nat.leb x y = true -> Nat.leb y z = true -> Nat.leb x z = true.
Proof. rewrite !Nat.leb_le. lia. Qed.

Lemma keys_zero_items l : keys (zero_items l) = l.
Proof. unfold keys, zero_items. rewrite map_map. simpl. apply map_id. Qed.

Lemma perm_in_iff {A} (x : A) {l l'} : Permutation l l' -> (In x l <-> In x l').
Proof. intros H. split; apply Permutation_in; [exact H|symmetry; exact H]. Qed.

(* --- canonical freezing ------------------------------------------------------------------------- *)
Lemma same_contentb_spec k a b : same_contentb k a b = true <-> same_content k a b.
Proof.
  destruct k; simpl.
  - apply nset_eqb_spec.
  - rewrite forallb_forall. split.
    + intros H p.
      destruct (dget p (content a)) as [x|] eqn:E1; destruct (dget p (content b)) as [y|] eqn:E2; auto.
      * assert (Hin : In p (keys (content a) ++ keys (content b))).
        { apply in_or_app. left. apply (dget_In _ (nodup_content a)) in E1. apply (in_map fst) in E1. exact E1. }
        specialize (H p Hin). rewrite E1, E2 in H. apply score_eqb_eq in H. congruence.
      * assert (Hin : In p (keys (content a) ++ keys (content b))).
        { apply in_or_app. left. apply (dget_In _ (nodup_content a)) in E1. apply (in_map fst) in E1. exact E1. }
        specialize (H p Hin). rewrite E1, E2 in H. discriminate.
      * assert (Hin : In p (keys (content a) ++ keys (content b))).
        { apply in_or_app. right. apply (dget_In _ (nodup_content b)) in E2. apply (in_map fst) in E2. exact E2. }
        specialize (H p Hin). rewrite E1, E2 in H. discriminate.
    + intros H p _. rewrite H. destruct (dget p (content b)); [apply score_eqb_refl|reflexivity].
  - rewrite forallb_forall. split.
    + intros H p.
      destruct (dget p (content a)) as [x|] eqn:E1; destruct (dget p (content b)) as [y|] eqn:E2; auto.
      * assert (Hin : In p (keys (content a) ++ keys (content b))).
        { apply in_or_app. left. apply (dget_In _ (nodup_content a)) in E1. apply (in_map fst) in E1. exact E1. }
        specialize (H p Hin). rewrite E1, E2 in H. apply score_eqb_eq in H. congruence.
      * assert (Hin : In p (keys (content a) ++ keys (content b))).
        { apply in_or_app. left. apply (dget_In _ (nodup_content a)) in E1. apply (in_map fst) in E1. exact E1. }
        specialize (H p Hin). rewrite E1, E2 in H. discriminate.
      * assert (Hin : In p (keys (content a) ++ keys (content b))).
        { apply in_or_app. right. apply (dget_In _ (nodup_content b)) in E2. apply (in_map fst) in E2. exact E2. }
        specialize (H p Hin). rewrite E1, E2 in H. discriminate.
    + intros H p _. rewrite H. destruct (dget p (content b)); [apply score_eqb_refl|reflexivity].
  - apply nlist_eqb_eq.
Qed.

(* frozen b1 == frozen b2  exactly when the ballots have the same content: all four repaired classes,
   whatever the iteration order of the sets *)
Lemma canonical_fixed k enum : enum_ok enum ->
  forall a b, feq (frozen k enum a) (frozen k enum b) = true <-> same_content k a b.
Proof.
  intros He a b. destruct k; unfold feq, frozen; simpl.
  - (* approval: sorted tuples *)
    rewrite !keys_zero_items, nlist_eqb_eq. split.
    + intros H p. rewrite <- (perm_in_iff p (He a)), <- (perm_in_iff p (He b)).
      rewrite <- (isort_In Nat.leb (enum a)), <- (isort_In Nat.leb (enum b)), H. reflexivity.
    + intros H. apply sorted_nodup_ext.
      * apply isort_sorted; [apply leb_total|apply leb_trans].
      * apply isort_sorted; [apply leb_total|apply leb_trans].
      * eapply Permutation_NoDup; [apply isort_perm|]. eapply Permutation_NoDup; [symmetry; apply He|apply nodup_content].
      * eapply Permutation_NoDup; [apply isort_perm|]. eapply Permutation_NoDup; [symmetry; apply He|apply nodup_content].
      * intros x. rewrite !isort_In. rewrite (perm_in_iff x (He a)), (perm_in_iff x (He b)). apply H.
  - rewrite (dict_eqb_spec _ _ (nodup_content a) (nodup_content b)).
    apply dict_items_ext; apply nodup_content.
  - rewrite (dict_eqb_spec _ _ (nodup_content a) (nodup_content b)).
    apply dict_items_ext; apply nodup_content.
  - apply nlist_eqb_eq.
Qed.

Lemma fset_hash_perm ehash d1 d2 : Permutation d1 d2 -> fset_hash ehash d1 = fset_hash ehash d2.
Proof.
  unfold fset_hash. induction 1; simpl; try lia.
Qed.

(* equal frozen ballots have equal hashes: all four repaired classes, any tuple / item hash *)
Lemma hash_respects_eq_fixed k enum thash ehash a b :
  feq (frozen k enum a) (frozen k enum b) = true ->
  fhash thash ehash (frozen k enum a) = fhash thash ehash (frozen k enum b).
Proof.
  destruct k; unfold feq, fhash, frozen; simpl.
  - rewrite nlist_eqb_eq. intros ->. reflexivity.
  - rewrite (dict_eqb_spec _ _ (nodup_content a) (nodup_content b)). intros H.
    apply fset_hash_perm. apply NoDup_Permutation; [| |exact H];
      eapply NoDup_map_inv; apply nodup_content.
  - rewrite (dict_eqb_spec _ _ (nodup_content a) (nodup_content b)). intros H.
    apply fset_hash_perm. apply NoDup_Permutation; [| |exact H];
      eapply NoDup_map_inv; apply nodup_content.
  - rewrite nlist_eqb_eq. intros ->. reflexivity.
Qed.

Lemma same_content_refl k a : same_content k a a.
Proof. destruct k; simpl; intros; reflexivity. Qed.

Lemma same_content_trans k a b c : same_content k a b -> same_content k b c -> same_content k a c.
Proof.
  destruct k; simpl; intros H1 H2; try (intros p; rewrite (H1 p); apply H2). congruence.
Qed.

Lemma same_content_sym k a b : same_content k a b -> same_content k b a.
Proof. destruct k; simpl; intros H; try (intros p; symmetry; apply H). congruence. Qed.

Lemma scb_refl_k k a : same_contentb k a a = true.
Proof. apply same_contentb_spec, same_content_refl. Qed.

Lemma scb_trans_k k a b : same_contentb k a b = true -> forall c, same_contentb k a c = same_contentb k b c.
Proof.
  intros H c. apply same_contentb_spec in H.
  destruct (same_contentb k a c) eqn:E1; destruct (same_contentb k b c) eqn:E2; auto.
  - apply same_contentb_spec in E1. rewrite <- E2. symmetry. apply same_contentb_spec.
    eapply same_content_trans; [apply same_content_sym; exact H|exact E1].
  - apply same_contentb_spec in E2. rewrite <- E1. apply same_contentb_spec.
    eapply same_content_trans; [exact H|exact E2].
Qed.

Lemma kmatch_frozen_fixed k enum thash ehash : enum_ok enum -> forall a b,
  kmatch (fhash thash ehash) (frozen k enum a) (frozen k enum b) = same_contentb k a b.
Proof.
  intros He a b. unfold kmatch.
  destruct (feq (frozen k enum a) (frozen k enum b)) eqn:E.
  - rewrite (hash_respects_eq_fixed k enum thash ehash a b E), Z.eqb_refl. simpl.
    symmetry. apply same_contentb_spec. apply (canonical_fixed k enum He). exact E.
  - rewrite andb_false_r. symmetry. destruct (same_contentb k a b) eqn:E2; [|reflexivity].
    apply same_contentb_spec in E2. apply (canonical_fixed k enum He) in E2. congruence.
Qed.

(* the repaired classes: every history *)
Theorem multiprofile_faithful_fixed k enum thash ehash : enum_ok enum ->
  forall ops : list (mpop mballot),
    let h := history ops in
    let m := run (kmatch (fhash thash ehash)) (frozen k enum) ops in
    mp_num m = length h
    /\ (exists reps, reps_of mballot (same_contentb k) reps h /\ mp_len m = length reps
                     /\ map fst m = map (frozen k enum) reps)
    /\ (forall b, mp_get (kmatch (fhash thash ehash)) (frozen k enum b) m = countb (same_contentb k b) h).
Proof.
  intros He ops.
  apply (multiprofile_faithful_gen mballot fballot (frozen k enum) (kmatch (fhash thash ehash))
           (same_contentb k) (scb_refl_k k) (scb_trans_k k) (kmatch_frozen_fixed k enum thash ehash He)).
Qed.

(* freezing keeps content, name and meta *)
Lemma freeze_preserves k enum b : enum_ok enum ->
  f_kind (frozen k enum b) = k /\ f_name (frozen k enum b) = b_name b /\ f_meta (frozen k enum b) = b_meta b
  /\ match k with
     | KApp => forall p, In p (keys (f_items (frozen k enum b))) <-> In p (keys (content b))
     | _ => f_items (frozen k enum b) = content b
     end.
Proof.
  intros He. destruct k; simpl; repeat split; try reflexivity.
  - rewrite keys_zero_items, isort_In. intros H. eapply Permutation_in; [apply He|exact H].
  - rewrite keys_zero_items, isort_In. intros H. eapply Permutation_in; [symmetry; apply He|exact H].
Qed.

(* ------------------------------------------------------------------------------------------------ *)
(* 3. the classes before the repairs: both hypotheses are necessary                                  *)
(* ------------------------------------------------------------------------------------------------ *)
Definition bA1 : mballot := mkB [HSet 0 0%Q; HSet 1 0%Q] 1 0.
Definition bA2 : mballot := mkB [HSet 1 0%Q; HSet 0 0%Q] 2 0.
(* an iteration order that follows the insertion order (what a hash collision in the set's table does) *)
Definition enum_ins (b : mballot) : list nat := keys (content b).

Lemma enum_ins_ok : enum_ok enum_ins.
Proof. intros b. apply Permutation_refl. Qed.

(* tuple(self): equal approval ballots freeze to unequal tuples *)
Lemma canonical_app_old_refuted :
  exists enum a b, enum_ok enum /\ same_content KApp a b /\ feq (frozen_old KApp enum a) (frozen_old KApp enum b) = false.
Proof.
  exists enum_ins, bA1, bA2. split; [apply enum_ins_ok|]. split; [|vm_compute; reflexivity].
  apply same_contentb_spec. vm_compute. reflexivity.
Qed.

Definition bC1 : mballot := mkB [HSet 0 1%Q; HSet 1 2%Q] 1 0.
Definition bC2 : mballot := mkB [HSet 1 2%Q; HSet 0 1%Q] 2 0.

(* hash(tuple(keys)): equal cardinal ballots, different hashes (for every tuple hash separating (p0,p1) from
   (p1,p0)), so the multiprofile of [{p0:1,p1:2}; {p1:2,p0:1}] has two entries of multiplicity 1 *)
Lemma hash_old_refuted thash : thash [0; 1] <> thash [1; 0] ->
  same_content KCard bC1 bC2 /\
  feq (frozen KCard enum_ins bC1) (frozen KCard enum_ins bC2) = true /\
  fhash_old thash (frozen KCard enum_ins bC1) <> fhash_old thash (frozen KCard enum_ins bC2) /\
  let m := run (kmatch (fhash_old thash)) (frozen KCard enum_ins) [OpExtend [bC1; bC2]] in
  mp_len m = 2 /\ mp_get (kmatch (fhash_old thash)) (frozen KCard enum_ins bC1) m = 1.
Proof.
  intros Hne. split; [apply same_contentb_spec; vm_compute; reflexivity|].
  split; [vm_compute; reflexivity|]. split; [exact Hne|].
  assert (E : Z.eqb (thash [0; 1]) (thash [1; 0]) = false) by (apply Z.eqb_neq; exact Hne).
  cbv [run fold_left op_step mp_extend mp_append mp_get mp_len kmatch fhash_old frozen content b_hist bC1 bC2
       dict_of_hist dstep dset keys map fst f_items Nat.eqb length].
  rewrite E. simpl. rewrite Z.eqb_refl. simpl. split; reflexivity.
Qed.

(* FrozenApprovalBallot(ballot) is ballot.frozen(), whatever the iteration order of the set *)
Lemma frozen_from_set_fixed enum b : frozen_app_of_ballot enum b = frozen KApp enum b.
Proof. reflexivity. Qed.

(* before the repair the constructor froze in iteration order: unequal to ballot.frozen() for the same ballot *)
Lemma frozen_from_set_old_refuted :
  exists enum b, enum_ok enum /\ feq (frozen_app_of_ballot_old enum b) (frozen KApp enum b) = false.
Proof. exists enum_ins, bA2. split; [apply enum_ins_ok|vm_compute; reflexivity]. Qed.
