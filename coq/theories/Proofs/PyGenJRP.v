(* Proofs/PyGenJRP.v -- analysis/cohesiveness.py and analysis/justifiedrepresentation.py, REGENERATED from the Python
   source on every run (Generated/PyFuncs.v, harness/vharness/pytrans.py), are the executable checkers of
   Model/Cohesive.v that the C14 theorems (Props/C14.v: equal to the definitions of Spec/JR.v) are about, for LIST
   profiles of approval / cardinal ballots (ballots as in Model/Satisfaction.v; `p in ballot` = inb, `ballot[p]` = bget,
   the measure of a ballot = the satisfaction class applied to (instance, profile, ballot)).
   Loops with an early `return False` / a flag with `break` / `res.append` are turned into exists / forall / flat_map
   by semantic lemmas whose side conditions a tactic discharges; then the quantifiers are descended into. *)
From Coq Require Import String.
From PB Require Import Model.PyPrims Generated.PyFuncs Proofs.InstanceP Proofs.SatisfactionP Proofs.PyGenLib.
From PB Require Import Proofs.PyGenPriceP Proofs.PyGenInstP.
From PB Require Base.JRAux Spec.JR Model.Cohesive.
Open Scope Q_scope.

(* ---------- loops with an early return of a constant ---------- *)
Definition is_some {A} (o : option A) : bool := match o with Some _ => true | None => false end.

Lemma fold_ret_const {A R} (F : option R -> A -> option R) (v : R) (l : list A) :
  (forall r x, F (Some r) x = Some r) -> (forall x, F None x = None \/ F None x = Some v) ->
  fold_left F l None = if existsb (fun x => is_some (F None x)) l then Some v else None.
Proof.
  intros H1 H2.
  assert (K : forall l r, fold_left F l (Some r) = Some r).
  { induction l0 as [|x l0 IH]; intro r; simpl; [reflexivity|]. rewrite H1. apply IH. }
  induction l as [|x l IH]; simpl; [reflexivity|].
  destruct (H2 x) as [E|E]; rewrite E; simpl; [exact IH|apply K].
Qed.

(* loops that collect values: the result so far is only appended to *)
Lemma fold_collect_sem {A B} (F : list B -> A -> list B) (l : list A) :
  (forall acc x, F acc x = acc ++ F [] x) -> forall acc, fold_left F l acc = acc ++ flat_map (F []) l.
Proof.
  intro H. induction l as [|x l IH]; intro acc; simpl; [rewrite app_nil_r; reflexivity|].
  rewrite IH, (H acc x), app_assoc. reflexivity.
Qed.

Lemma flat_map_ext_in {A B} (f g : A -> list B) l : (forall x, In x l -> f x = g x) -> flat_map f l = flat_map g l.
Proof.
  intro H. induction l as [|x l IH]; simpl; [reflexivity|].
  rewrite (H x (or_introl eq_refl)), IH; [reflexivity|]. intros y Hy. apply H. right. exact Hy.
Qed.

(* ---------- bridging ---------- *)
Lemma py_min_list_qmin l d : py_min_list l d = JRAux.qmin_default d l.
Proof.
  unfold py_min_list, JRAux.qmin_default. destruct l as [|x l]; [reflexivity|].
  revert x. induction l as [|y l IH]; intro x; simpl; [reflexivity|]. rewrite IH. f_equal.
  unfold py_min2, Qltb. fold (Qleb x y). destruct (Qleb x y); reflexivity.
Qed.
Lemma py_max_list_qmax l d : py_max_list l d = JRAux.qmax_default d l.
Proof.
  unfold py_max_list, JRAux.qmax_default. destruct l as [|x l]; [reflexivity|].
  revert x. induction l as [|y l IH]; intro x; simpl; [reflexivity|]. rewrite IH. f_equal.
  unfold py_max2, Qltb. fold (Qleb y x). destruct (Qleb y x); reflexivity.
Qed.
Lemma Qsum_const_one {A} (l : list A) : Qsum (map (fun _ => 1) l) == Qnat (length l).
Proof. induction l as [|x l IH]; simpl; [reflexivity|]. rewrite IH, Qnat_S. reflexivity. Qed.
Lemma Qltb_0_Qnat n : Qltb 0 (Qnat n) = Nat.ltb 0 n.
Proof.
  destruct n; [reflexivity|]. simpl. apply Qltb_iff. apply Qnat_pos. lia.
Qed.

Lemma gen_powerset_ballots_ok : forall l, gen_powerset_ballots l = powerset l.
Proof. intros; repeat autounfold with pygen; py_auto. Qed.

(* side conditions of [fold_ret_const] / [fold_collect_sem] / [fold_flag], also for nested loops *)
Ltac py_loop_norm_with side :=
  repeat first
  [ rewrite (fold_ret_const _ false) by side
  | rewrite (fold_ret_const _ true) by side
  | rewrite (fold_ret_const _ (Some false)) by side
  | rewrite (fold_ret_const _ (Some true)) by side
  | rewrite fold_break_flag
  | rewrite fold_flag by py_flag_side
  | rewrite fold_collect_sem by side ].

Ltac py_loop_side :=
  intros; cbv beta iota zeta;
  repeat match goal with p : (_ * _)%type |- _ => destruct p end;
  cbn [fst snd];
  py_loop_norm_with py_loop_side;
  cbv beta iota zeta; cbn [fst snd is_some];
  repeat match goal with
  | |- context [if ?c then _ else _] => destruct c
  | |- context [match ?c with Some _ => _ | None => _ end] =>
      lazymatch c with Some _ => fail | None => fail | _ => destruct c end
  end;
  cbn [app is_some];
  first [ reflexivity | left; reflexivity | right; reflexivity
        | rewrite ?app_nil_r, ?app_assoc; reflexivity ].

Ltac py_loop_norm := py_loop_norm_with py_loop_side; cbv beta iota zeta; cbn [fst snd is_some].

(* ---------- simplification of the option plumbing ---------- *)
Lemma match_if_some {A} (c : bool) (v d : A) :
  match (if c then Some v else None) with Some r => r | None => d end = if c then v else d.
Proof. destruct c; reflexivity. Qed.
Lemma is_some_if {A} (c : bool) (v : A) : is_some (if c then Some v else None) = c.
Proof. destruct c; reflexivity. Qed.
Lemma is_some_if_gen {A} (c : bool) (a b : option A) : is_some (if c then a else b) = if c then is_some a else is_some b.
Proof. destruct c; reflexivity. Qed.
Lemma negb_if (c a b : bool) : negb (if c then a else b) = if c then negb a else negb b.
Proof. destruct c; reflexivity. Qed.
Lemma if_if_neg {A} (e : bool) (a b : A) : (if (if e then false else true) then a else b) = if e then b else a.
Proof. destruct e; reflexivity. Qed.
Lemma if_true_false' (c : bool) : (if c then true else false) = c.
Proof. destruct c; reflexivity. Qed.
Lemma if_same {A} (c : bool) (x : A) : (if c then x else x) = x.
Proof. destruct c; reflexivity. Qed.
Lemma if_negb {A} (c : bool) (x y : A) : (if negb c then x else y) = if c then y else x.
Proof. destruct c; reflexivity. Qed.
Lemma if_cond_eq {A} (c c' : bool) (a b : A) : c = c' -> (if c then a else b) = (if c' then a else b).
Proof. intros ->. reflexivity. Qed.
Lemma Nat_ltb_0_eqb n : Nat.ltb 0 n = negb (Nat.eqb n 0).
Proof. destruct n; reflexivity. Qed.

Ltac py_opt_norm :=
  repeat first
  [ rewrite match_if_some | rewrite is_some_if | rewrite if_if_neg | rewrite is_some_if_gen | rewrite negb_if | rewrite if_false_true | rewrite if_true_false
  | rewrite if_same | rewrite if_negb
  | rewrite Qsum_const_one | rewrite Qnat_eqb0' | rewrite Qltb_0_Qnat | rewrite Nat_ltb_0_eqb
  | rewrite py_min_list_qmin | rewrite py_max_list_qmax
  | rewrite existsb_flat_map | rewrite forallb_flat_map | rewrite Qsum_flat_map | rewrite forallb_filter | rewrite existsb_filter
  | rewrite fold_sum | rewrite fold_sum_l | rewrite fold_sum_if | rewrite Qplus_0_l
  | rewrite negb_involutive | rewrite app_nil_l | rewrite orb_false_l | rewrite orb_false_r | rewrite existsb_map | rewrite forallb_map ];
  cbv beta iota; cbn [fst snd is_some negb].

(* descent: normalise the loops that are at the top level now, compare the quantifiers, go into the bodies *)
Ltac py_jr_leaf :=
  (* an additivity hypothesis  sat(X) == sum of sat_project  in the context is used *)
  try match goal with
      | H : forall b X, _ == Qsum (map _ X) |- _ => rewrite !H
      end;
  (* lists mapped from the same list by functions that agree (after normalisation) *)
  repeat match goal with
  | |- context [map ?f ?l] =>
      match goal with
      | |- context [map ?g l] =>
          lazymatch f with
          | g => fail
          | _ => rewrite (map_ext f g) by (intros; cbv beta; py_opt_norm; reflexivity)
          end
      end
  end;
  (* sums over differently written filters / summands of the same list: summand by summand *)
  try (rewrite ?Qsum_map_filter;
       py_sum_unify ltac:(cbv beta; py_opt_norm;
                          first [ reflexivity
                                | py_safe_atoms; py_simpl; first [ reflexivity | py_bool_to_prop; lra ] ]));
  first [ reflexivity
        | py_safe_atoms; py_simpl; py_bool_to_prop; py_bridge;
          first [ reflexivity | exfalso; lra | exfalso; lia | exfalso; congruence | congruence ] ].

Ltac py_jr :=
  py_in_facts;
  repeat match goal with p : (_ * _)%type |- _ => destruct p end; cbn [fst snd] in *;
  py_loop_norm; py_opt_norm;
  first
  [ reflexivity
  | apply negb_existsb_forallb_in; intros; py_jr
  | apply negb_forallb_existsb_in; intros; py_jr
  | apply existsb_ext_in; intros; py_jr
  | apply forallb_ext_in; intros; py_jr
  | apply flat_map_ext_in; intros; py_jr
  | apply (f_equal negb); py_jr
  | apply if_cond_eq; py_jr
  | match goal with
    | |- context [if ?c then _ else _] =>
        lazymatch c with
        | context [fold_left] => fail
        | _ => let E := fresh "E" in destruct c eqn:E; py_jr
        end
    end
  | py_jr_leaf ].

(* ====================================================================================================== *)
(* cohesiveness.py                                                                                          *)
(* ====================================================================================================== *)
Ltac py_open_jr :=
  intros; repeat autounfold with pygen in *;
  repeat progress unfold Cohesive.is_large_enough, Cohesive.is_cohesive_approval, Cohesive.is_cohesive_cardinal, Cohesive.alpha_min,
    Cohesive.cohesive_groups_app, Cohesive.cohesive_groups_card, Cohesive.groups_where, Cohesive.nonempty,
    Cohesive.is_in_core, Cohesive.is_strong_EJR_approval, Cohesive.is_EJR_approval, Cohesive.is_PJR_approval,
    Cohesive.is_strong_EJR_cardinal, Cohesive.is_EJR_cardinal, Cohesive.is_PJR_cardinal, Cohesive.card_threshold,
    Cohesive.group_max, Cohesive.surplus, Cohesive.up_to, Cohesive.msat, Spec.JR.gmin, Spec.JR.gmax, JRAux.outside in *;
  py_unfold;
  (* powerset of the source = powerset of Base/ListExt.v (Props/C15gen.v), here in unfolded form on both sides *)
  unfold powerset in *;
  repeat first [ rewrite py_range_Qnat_succ | rewrite (map_py_nat_Qnat (fun r => combs _ r))
               | rewrite concat_map_flat_map ].

Lemma gen_is_large_enough_ok : forall gs nv c B,
  gen_is_large_enough (Qnat gs) (Qnat nv) c B = Cohesive.is_large_enough gs nv c B.
Proof. intros; repeat autounfold with pygen; unfold Cohesive.is_large_enough; py_auto. Qed.

Lemma gen_is_cohesive_approval_ok : forall I (P : list ballot) T S,
  gen_is_cohesive_approval I P T S = Cohesive.is_cohesive_approval I ballot P inb T S.
Proof. py_open_jr. timeout 60 py_jr. Qed.

Lemma gen_is_cohesive_cardinal_ok : forall I (P : list ballot) T S alpha,
  gen_is_cohesive_cardinal I P T S alpha = Cohesive.is_cohesive_cardinal I ballot P bget T S alpha.
Proof. py_open_jr. timeout 60 py_jr. Qed.

Lemma gen_cohesive_groups_ok : forall I (P : list ballot),
  gen_cohesive_groups I P = Cohesive.cohesive_groups_app I ballot P inb (all_projects I).
Proof. py_open_jr. timeout 60 py_jr. Qed.

(* cardinal profiles: alpha_min = {p: min(b[p] for b in group) for p in project_set} *)
Lemma gen_cohesive_groups_cardinal_ok : forall I (P : list ballot),
  gen_cohesive_groups_cardinal I P = Cohesive.cohesive_groups_card I ballot P bget (all_projects I).
Proof. py_open_jr. timeout 60 py_jr. Qed.

(* the checkers are opened, cohesive_groups is replaced by the model's (proved above) and stays folded *)
Ltac py_open_checker :=
  intros;
  repeat progress unfold gen_is_in_core, gen_is_in_core_upto, gen_is_strong_EJR_approval, gen_is_EJR_approval,
    gen_is_EJR_approval_upto, gen_is_EJR_any_approval, gen_is_EJR_one_approval, gen_is_PJR_approval,
    gen_is_PJR_approval_upto, gen_is_PJR_any_approval, gen_is_PJR_one_approval, gen_is_strong_EJR_cardinal,
    gen_is_EJR_cardinal, gen_is_EJR_cardinal_upto, gen_is_EJR_any_cardinal, gen_is_EJR_one_cardinal,
    gen_is_PJR_cardinal, gen_is_PJR_cardinal_upto, gen_is_PJR_any_cardinal, gen_is_PJR_one_cardinal,
    gen_is_large_enough in *;
  repeat progress unfold Cohesive.is_large_enough, Cohesive.is_in_core, Cohesive.is_strong_EJR_approval,
    Cohesive.is_EJR_approval, Cohesive.is_PJR_approval, Cohesive.is_strong_EJR_cardinal, Cohesive.is_EJR_cardinal,
    Cohesive.is_PJR_cardinal, Cohesive.card_threshold, Cohesive.alpha_min, Cohesive.group_max, Cohesive.surplus,
    Cohesive.up_to, Cohesive.msat, Cohesive.nonempty, Spec.JR.gmin, Spec.JR.gmax, JRAux.outside in *;
  rewrite ?gen_cohesive_groups_ok, ?gen_cohesive_groups_cardinal_ok, ?gen_powerset_ballots_ok, ?gen_powerset_ok;
  py_unfold.


(* ====================================================================================================== *)
(* justifiedrepresentation.py, approval ballots                                                             *)
(* ====================================================================================================== *)

Lemma gen_is_strong_EJR_approval_ok : forall I (P : list ballot) (sc : py_satclass_l),
  (forall b X, sc I P b X == Qsum (map (fun p => sc I P b [p]) X)) -> forall W,
  gen_is_strong_EJR_approval I P sc W = Cohesive.is_strong_EJR_approval I ballot P inb (fun b p => sc I P b [p]) (all_projects I) W.
Proof. intros I P sc Hadd. py_open_checker. timeout 60 py_jr. Qed.

Lemma gen_is_EJR_approval_ok : forall I (P : list ballot) (sc : py_satclass_l),
  (forall b X, sc I P b X == Qsum (map (fun p => sc I P b [p]) X)) -> forall W,
  gen_is_EJR_approval I P sc W = Cohesive.is_EJR_approval I ballot P inb (fun b p => sc I P b [p]) (all_projects I) JR.Plain W.
Proof. intros I P sc Hadd. py_open_checker. timeout 60 py_jr. Qed.
Lemma gen_is_EJR_any_approval_ok : forall I (P : list ballot) (sc : py_satclass_l),
  (forall b X, sc I P b X == Qsum (map (fun p => sc I P b [p]) X)) -> forall W,
  gen_is_EJR_any_approval I P sc W = Cohesive.is_EJR_approval I ballot P inb (fun b p => sc I P b [p]) (all_projects I) JR.UpToAny W.
Proof. intros I P sc Hadd. py_open_checker. timeout 60 py_jr. Qed.
Lemma gen_is_EJR_one_approval_ok : forall I (P : list ballot) (sc : py_satclass_l),
  (forall b X, sc I P b X == Qsum (map (fun p => sc I P b [p]) X)) -> forall W,
  gen_is_EJR_one_approval I P sc W = Cohesive.is_EJR_approval I ballot P inb (fun b p => sc I P b [p]) (all_projects I) JR.UpToOne W.
Proof. intros I P sc Hadd. py_open_checker. timeout 60 py_jr. Qed.

Lemma gen_is_PJR_approval_ok : forall I (P : list ballot) (sc : py_satclass_l),
  (forall b X, sc I P b X == Qsum (map (fun p => sc I P b [p]) X)) -> forall W,
  gen_is_PJR_approval I P sc W = Cohesive.is_PJR_approval I ballot P inb (fun p => sc I P (py_full_ballot I) [p]) (all_projects I) JR.Plain W.
Proof. intros I P sc Hadd. py_open_checker. timeout 60 py_jr. Qed.
Lemma gen_is_PJR_any_approval_ok : forall I (P : list ballot) (sc : py_satclass_l),
  (forall b X, sc I P b X == Qsum (map (fun p => sc I P b [p]) X)) -> forall W,
  gen_is_PJR_any_approval I P sc W = Cohesive.is_PJR_approval I ballot P inb (fun p => sc I P (py_full_ballot I) [p]) (all_projects I) JR.UpToAny W.
Proof. intros I P sc Hadd. py_open_checker. timeout 60 py_jr. Qed.
Lemma gen_is_PJR_one_approval_ok : forall I (P : list ballot) (sc : py_satclass_l),
  (forall b X, sc I P b X == Qsum (map (fun p => sc I P b [p]) X)) -> forall W,
  gen_is_PJR_one_approval I P sc W = Cohesive.is_PJR_approval I ballot P inb (fun p => sc I P (py_full_ballot I) [p]) (all_projects I) JR.UpToOne W.
Proof. intros I P sc Hadd. py_open_checker. timeout 60 py_jr. Qed.

Lemma gen_is_in_core_ok : forall I (P : list ballot) (sc : py_satclass_l),
  (forall b X, sc I P b X == Qsum (map (fun p => sc I P b [p]) X)) -> forall W,
  gen_is_in_core I P sc W = Cohesive.is_in_core I ballot P (fun b p => sc I P b [p]) (all_projects I) JR.Plain W.
Proof. intros I P sc Hadd. py_open_checker. timeout 60 py_jr. Qed.

(* ====================================================================================================== *)
(* justifiedrepresentation.py, cardinal ballots                                                             *)
(* ====================================================================================================== *)

Lemma gen_is_strong_EJR_cardinal_ok : forall I (P : list ballot) (sc : py_satclass_l),
  (forall b X, sc I P b X == Qsum (map (fun p => sc I P b [p]) X)) -> forall W,
  gen_is_strong_EJR_cardinal I P W sc = Cohesive.is_strong_EJR_cardinal I ballot P bget (fun b p => sc I P b [p]) (all_projects I) W.
Proof. intros I P sc Hadd. py_open_checker. timeout 60 py_jr. Qed.

Lemma gen_is_EJR_cardinal_ok : forall I (P : list ballot) (sc : py_satclass_l),
  (forall b X, sc I P b X == Qsum (map (fun p => sc I P b [p]) X)) -> forall W,
  gen_is_EJR_cardinal I P W sc = Cohesive.is_EJR_cardinal I ballot P bget (fun b p => sc I P b [p]) (all_projects I) JR.Plain W.
Proof. intros I P sc Hadd. py_open_checker. timeout 60 py_jr. Qed.
(* the two relaxed variants use the default sat_class of is_EJR_cardinal: Additive_Cardinal_Sat (a parameter here) *)
Lemma gen_is_EJR_any_cardinal_ok : forall I (P : list ballot) (sc : py_satclass_l),
  (forall b X, sc I P b X == Qsum (map (fun p => sc I P b [p]) X)) -> forall W,
  gen_is_EJR_any_cardinal sc I P W = Cohesive.is_EJR_cardinal I ballot P bget (fun b p => sc I P b [p]) (all_projects I) JR.UpToAny W.
Proof. intros I P sc Hadd. py_open_checker. timeout 60 py_jr. Qed.
Lemma gen_is_EJR_one_cardinal_ok : forall I (P : list ballot) (sc : py_satclass_l),
  (forall b X, sc I P b X == Qsum (map (fun p => sc I P b [p]) X)) -> forall W,
  gen_is_EJR_one_cardinal sc I P W = Cohesive.is_EJR_cardinal I ballot P bget (fun b p => sc I P b [p]) (all_projects I) JR.UpToOne W.
Proof. intros I P sc Hadd. py_open_checker. timeout 60 py_jr. Qed.

Lemma gen_is_EJR_cardinal_default_class :
  gen_is_EJR_any_cardinal_classes = ["Additive_Cardinal_Sat"%string] /\
  gen_is_EJR_one_cardinal_classes = ["Additive_Cardinal_Sat"%string].
Proof. split; reflexivity. Qed.

Lemma gen_is_PJR_cardinal_ok : forall I (P : list ballot) W,
  gen_is_PJR_cardinal I P W = Cohesive.is_PJR_cardinal I ballot P bget (all_projects I) JR.Plain W.
Proof. py_open_checker. timeout 60 py_jr. Qed.
Lemma gen_is_PJR_any_cardinal_ok : forall I (P : list ballot) W,
  gen_is_PJR_any_cardinal I P W = Cohesive.is_PJR_cardinal I ballot P bget (all_projects I) JR.UpToAny W.
Proof. py_open_checker. timeout 60 py_jr. Qed.
Lemma gen_is_PJR_one_cardinal_ok : forall I (P : list ballot) W,
  gen_is_PJR_one_cardinal I P W = Cohesive.is_PJR_cardinal I ballot P bget (all_projects I) JR.UpToOne W.
Proof. py_open_checker. timeout 60 py_jr. Qed.

(* nothing of the two files fell out of the translated fragment *)
Lemma gen_jr_all_translated : gen_untranslated_jr = [].
Proof. reflexivity. Qed.

(* the approval checkers contain no division and no min/max of a possibly empty sequence: they cannot raise
   ZeroDivisionError / ValueError (the cardinal ones take min(b[p] for b in group) of groups that cohesive_groups only
   returns non-empty; that invariant is not proved here, their _safe definitions are generated but not stated) *)
Lemma gen_approval_checkers_safe : forall I (P : list ballot) sc W T S gs nv c B,
  gen_is_large_enough_safe gs nv c B = true /\ gen_is_cohesive_approval_safe I P T S = true /\
  gen_cohesive_groups_safe I P = true /\ gen_is_in_core_safe I P sc W = true /\
  gen_is_strong_EJR_approval_safe I P sc W = true /\ gen_is_EJR_approval_safe I P sc W = true /\
  gen_is_EJR_any_approval_safe I P sc W = true /\ gen_is_EJR_one_approval_safe I P sc W = true /\
  gen_is_PJR_approval_safe I P sc W = true /\ gen_is_PJR_any_approval_safe I P sc W = true /\
  gen_is_PJR_one_approval_safe I P sc W = true.
Proof. intros. repeat split; reflexivity. Qed.
