(* Proofs/GreedyP.v -- the general greedy scheme (Model/GreedyRule.v) refines the declarative spec
   (Spec/GreedySpec.v); consequences: totality, feasibility, exhaustiveness, determinism of the spec. *)
From PB Require Import Model.GreedyRule Spec.GreedySpec.
Open Scope Q_scope.

(* ---------- order lemmas ---------- *)

Lemma Qx_leb_le a b : Qx_leb a b = true <-> Qx_le a b.
Proof.
  destruct a, b; simpl; try tauto.
  - apply Qleb_iff.
  - split; [discriminate|tauto].
Qed.

(* ---------- head of a stable sort = first minimum ---------- *)
Section FirstMin.
Variable A : Type.
Variable leb : A -> A -> bool.

Fixpoint first_min (l : list A) : option A :=
  match l with
  | [] => None
  | x :: t => match first_min t with
              | None => Some x
              | Some m => if leb x m then Some x else Some m
              end
  end.

Lemma hd_insert x l :
  hd_error (insert leb x l) =
  match hd_error l with None => Some x | Some y => if leb x y then Some x else Some y end.
Proof. destruct l as [|y t]; simpl; [reflexivity|]. destruct (leb x y); reflexivity. Qed.

Lemma hd_isort l : hd_error (isort leb l) = first_min l.
Proof.
  induction l as [|x t IH]; simpl; [reflexivity|].
  change (fold_right (insert leb) [] t) with (isort leb t).
  rewrite hd_insert, IH. reflexivity.
Qed.

Lemma first_min_None l : first_min l = None -> l = [].
Proof. destruct l as [|x t]; simpl; [reflexivity|]. destruct (first_min t); [destruct (leb x a)|]; discriminate. Qed.

End FirstMin.
Arguments first_min {A} leb l.
Arguments hd_isort {A} leb l.
Arguments first_min_None {A} leb l.

Lemma first_min_spec (leb : nat -> nat -> bool)
  (leb_total : forall x y, leb x y = true \/ leb y x = true)
  (leb_trans : forall x y z, leb x y = true -> leb y z = true -> leb x z = true) :
  forall l m, StronglySorted lt l -> first_min leb l = Some m ->
  In m l /\ forall q, In q l -> leb m q = true /\ (leb q m = true -> (m <= q)%nat).
Proof.
  induction l as [|x t IH]; intros m Hs Hm; simpl in Hm; [discriminate|].
  inversion Hs as [|y l0 Hst Hall]; subst.
  destruct (first_min leb t) as [m'|] eqn:Et.
  - destruct (IH m' Hst eq_refl) as [Hin Hmin].
    destruct (leb x m') eqn:E; injection Hm as <-.
    + split; [left; reflexivity|]. intros q [<-|Hq].
      * split; [destruct (leb_total x x); assumption|lia].
      * split; [eapply leb_trans; [exact E|apply Hmin; exact Hq]|].
        intros _. rewrite Forall_forall in Hall. specialize (Hall q Hq). lia.
    + split; [right; exact Hin|]. intros q [<-|Hq].
      * split; [destruct (leb_total x m'); congruence|]. intros Hx. congruence.
      * apply Hmin. exact Hq.
  - apply first_min_None in Et. subst. injection Hm as <-.
    split; [left; reflexivity|]. intros q [<-|[]]. split; [destruct (leb_total x x); assumption|lia].
Qed.

Lemma sublist_StronglySorted (R : nat -> nat -> Prop) s l :
  sublist s l -> StronglySorted R l -> StronglySorted R s.
Proof.
  induction 1 as [|x s l Hsl IH|x s l Hsl IH]; intros Hs.
  - constructor.
  - inversion Hs; subst. apply IH. assumption.
  - inversion Hs as [|y l0 Hst Hall]; subst. constructor; [apply IH; assumption|].
    rewrite Forall_forall in *. intros z Hz. apply Hall. eapply sublist_In; eassumption.
Qed.

Lemma seq_StronglySorted n : forall a, StronglySorted lt (seq a n).
Proof.
  induction n as [|n IH]; intros a; simpl; constructor; [apply IH|].
  rewrite Forall_forall. intros x Hx. apply in_seq in Hx. lia.
Qed.

Lemma filter_length_le' {A} (p : A -> bool) l : (length (filter p l) <= length l)%nat.
Proof. induction l as [|a r IH]; simpl; [lia|]. destruct (p a); simpl; lia. Qed.

Lemma filter_length_lt {A} (p : A -> bool) l x : In x l -> p x = false -> (length (filter p l) < length l)%nat.
Proof.
  induction l as [|a r IH]; simpl; intros Hin Hp; [contradiction|].
  destruct Hin as [->|Hin].
  - rewrite Hp. pose proof (filter_length_le' p r). lia.
  - specialize (IH Hin Hp). destruct (p a); simpl; lia.
Qed.

Lemma StronglySorted_lt_NoDup l : StronglySorted lt l -> NoDup l.
Proof.
  induction 1 as [|x t Hs IH Hall]; constructor; [|exact IH].
  intros Hin. rewrite Forall_forall in Hall. specialize (Hall x Hin). lia.
Qed.

(* ---------- opt_concat ---------- *)

Lemma opt_concat_map_spec {X S} (g : S -> option (list X)) (P : S -> list X -> Prop) :
  forall l, (forall s, In s l -> exists ls, g s = Some ls /\ ls <> [] /\ P s ls) ->
  exists L, opt_concat (map g l) = Some L /\
            (l <> [] -> L <> []) /\
            (forall W, In W L <-> exists s ls, In s l /\ g s = Some ls /\ In W ls).
Proof.
  induction l as [|s r IH]; intros H.
  - exists []. simpl. split; [reflexivity|]. split; [congruence|].
    intros W. split; [intros []|intros [s [ls [[] _]]]].
  - destruct (H s (or_introl eq_refl)) as [ls [Hg [Hne _]]].
    destruct IH as [L [HL [_ HIn]]]; [intros s' Hs'; apply H; right; exact Hs'|].
    exists (ls ++ L). simpl. rewrite Hg, HL. split; [reflexivity|]. split.
    + intros _ E. apply app_eq_nil in E. destruct E as [E _]. contradiction.
    + intros W. rewrite in_app_iff, HIn. split.
      * intros [HW|[s' [ls' [Hs' [Hg' HW]]]]].
        -- exists s, ls. auto.
        -- exists s', ls'. auto.
      * intros [s' [ls' [[<-|Hs'] [Hg' HW]]]].
        -- left. congruence.
        -- right. exists s', ls'. auto.
Qed.

(* ---------- the refinement ---------- *)
Section GP.
Variables (I : inst) (sat : list proj -> Q) (tb : proj -> Q).
Hypothesis costs_nonneg : Forall (fun c => 0 <= c) (costs I).

Lemma mdens_density alloc p : mdens I sat alloc p = density I sat alloc p.
Proof.
  unfold mdens, density. destruct (Qlt_le_dec 0 (cost I p)) as [H|H].
  - apply Qltb_iff in H. rewrite H. reflexivity.
  - apply Qltb_false_iff in H. rewrite H. reflexivity.
Qed.

Definition feas_inv (feas alloc : list proj) : Prop :=
  StronglySorted lt feas /\ forall p, In p feas <-> fits I alloc p.

Definition tbleb (p q : proj) : bool := Qleb (tb p) (tb q).

Lemma tbleb_total x y : tbleb x y = true \/ tbleb y x = true.
Proof. apply Qleb_total. Qed.
Lemma tbleb_trans x y z : tbleb x y = true -> tbleb y z = true -> tbleb x z = true.
Proof. apply Qleb_trans. Qed.

Lemma initial_inv init : feas_inv (initial_feasible I init) init.
Proof.
  unfold initial_feasible. split.
  - eapply sublist_StronglySorted; [apply filter_sublist|apply seq_StronglySorted].
  - intros p. rewrite filter_In. unfold all_projects. rewrite in_seq, andb_true_iff, negb_true_iff, memb_false_In, Qleb_iff.
    unfold fits. split; [intros [H1 [H2 H3]]|intros [H1 [H2 H3]]]; repeat split; auto; lia.
Qed.

Lemma tied_In feas alloc s :
  feas_inv feas alloc -> (In s (tied_projects I sat tb feas alloc) <-> best I sat alloc s).
Proof.
  intros [_ Hf]. unfold tied_projects, tie_order. rewrite isort_In.
  rewrite (argmax_all_In _ _ Qx_leb (mdens I sat alloc) Qx_leb_total Qx_leb_trans).
  unfold best. rewrite Hf. split; intros [H1 H2]; (split; [exact H1|]); intros q Hq.
  - rewrite <- !mdens_density. apply Qx_leb_le. apply H2. apply Hf. exact Hq.
  - apply Qx_leb_le. rewrite !mdens_density. apply H2. apply Hf. exact Hq.
Qed.

Lemma tied_hd feas alloc s :
  feas_inv feas alloc -> hd_error (tied_projects I sat tb feas alloc) = Some s -> tb_first I sat tb alloc s.
Proof.
  intros Hinv Hhd. pose proof Hinv as [Hs Hf].
  unfold tied_projects, tie_order in Hhd. rewrite hd_isort in Hhd.
  apply (first_min_spec tbleb tbleb_total tbleb_trans) in Hhd.
  - destruct Hhd as [Hin Hmin]. split.
    + apply (tied_In _ _ s Hinv). unfold tied_projects, tie_order. apply isort_In. exact Hin.
    + intros q Hq. apply (tied_In _ _ q Hinv) in Hq. unfold tied_projects, tie_order in Hq. apply isort_In in Hq.
      destruct (Hmin q Hq) as [H1 H2]. unfold tbleb in *. rewrite Qleb_iff in *.
      destruct (Qlt_le_dec (tb s) (tb q)) as [Hlt|Hle]; [left; exact Hlt|].
      right. split; [apply Qle_antisym; assumption|apply H2; exact Hle].
  - eapply sublist_StronglySorted; [apply (argmax_all_sublist _ _ Qx_leb (mdens I sat alloc) Qx_leb_total Qx_leb_trans)|exact Hs].
Qed.

Lemma best_fits alloc p : best I sat alloc p -> fits I alloc p.
Proof. intros [H _]. exact H. Qed.

Lemma tb_first_best alloc p : tb_first I sat tb alloc p -> best I sat alloc p.
Proof. intros [H _]. exact H. Qed.

Lemma next_inv feas alloc s :
  feas_inv feas alloc -> In s feas -> feas_inv (next_feasible I feas alloc s) (alloc ++ [s]).
Proof.
  intros [Hs Hf] Hin. unfold next_feasible. split.
  - eapply sublist_StronglySorted; [apply filter_sublist|exact Hs].
  - intros p. rewrite filter_In, andb_true_iff, negb_true_iff, Nat.eqb_neq, Qleb_iff, Hf.
    unfold fits. rewrite in_app_iff. simpl. split.
    + intros [[H1 [H2 H3]] [H4 H5]]. repeat split; auto. intros [H|[H|[]]]; [contradiction|congruence].
    + intros [H1 [H2 H3]].
      assert (Hc : tcost I alloc + cost I p <= budget I).
      { rewrite tcost_app in H3. unfold tcost at 2 in H3. simpl in H3.
        pose proof (cost_nonneg I s costs_nonneg). lra. }
      split; [split; [exact H1|split; [intros Hp; apply H2; left; exact Hp|exact Hc]]|].
      split; [intros ->; apply H2; right; left; reflexivity|exact H3].
Qed.

Lemma next_length feas alloc s :
  In s feas -> (length (next_feasible I feas alloc s) < length feas)%nat.
Proof.
  intros Hin. unfold next_feasible. eapply filter_length_lt; [exact Hin|].
  rewrite Nat.eqb_refl. reflexivity.
Qed.

Definition choice (resolute : bool) : list proj -> proj -> Prop :=
  if resolute then tb_first I sat tb else best I sat.

Lemma choice_best r alloc p : choice r alloc p -> best I sat alloc p.
Proof. destruct r; simpl; [apply tb_first_best|auto]. Qed.

Lemma tied_nonempty feas alloc : feas <> [] -> tied_projects I sat tb feas alloc <> [].
Proof.
  intros Hne E. unfold tied_projects, tie_order in E.
  apply (f_equal (@length proj)) in E. rewrite isort_length in E. simpl in E.
  apply length_zero_iff_nil in E.
  revert E. apply argmax_all_nonempty; [apply Qx_leb_total|apply Qx_leb_trans|exact Hne].
Qed.

Lemma gen_leaves_cons resolute fuel feas alloc :
  feas <> [] ->
  gen_leaves I sat tb resolute (S fuel) feas alloc =
  opt_concat (map (fun s => gen_leaves I sat tb resolute fuel (next_feasible I feas alloc s) (alloc ++ [s]))
                  (if resolute then firstn 1 (tied_projects I sat tb feas alloc)
                   else tied_projects I sat tb feas alloc)).
Proof. destruct feas; [congruence|reflexivity]. Qed.

Theorem gen_leaves_spec resolute : forall fuel feas alloc,
  feas_inv feas alloc -> (length feas <= fuel)%nat ->
  exists ls, gen_leaves I sat tb resolute fuel feas alloc = Some ls /\ ls <> [] /\
             (forall W, In W ls -> greedy_run I (choice resolute) alloc W) /\
             (resolute = false -> forall W, greedy_run I (best I sat) alloc W -> In W ls).
Proof.
  induction fuel as [|fuel IH]; intros feas alloc Hinv Hlen.
  - destruct feas; [|simpl in Hlen; lia]. exists [alloc]. simpl. split; [reflexivity|]. split; [discriminate|].
    assert (Hstop : forall p, ~ fits I alloc p) by (intros p Hp; apply (proj2 Hinv) in Hp; exact Hp).
    split.
    + intros W [<-|[]]. apply gr_stop. exact Hstop.
    + intros _ W Hrun. inversion Hrun; subst; [left; reflexivity|].
      exfalso. eapply Hstop. apply best_fits. eassumption.
  - destruct feas as [|f0 feas'] eqn:Efeas.
    { exists [alloc]. simpl. split; [reflexivity|]. split; [discriminate|].
      assert (Hstop : forall p, ~ fits I alloc p) by (intros p Hp; apply (proj2 Hinv) in Hp; exact Hp).
      split.
      + intros W [<-|[]]. apply gr_stop. exact Hstop.
      + intros _ W Hrun. inversion Hrun; subst; [left; reflexivity|].
        exfalso. eapply Hstop. apply best_fits. eassumption. }
    rewrite <- Efeas in *. assert (Hne : feas <> []) by (rewrite Efeas; discriminate).
    rewrite gen_leaves_cons by exact Hne.
    set (tied := tied_projects I sat tb feas alloc).
    set (tied' := if resolute then firstn 1 tied else tied).
    assert (Htied' : forall s, In s tied' -> choice resolute alloc s /\ In s feas).
    { intros s Hs. subst tied'. destruct resolute; simpl.
      - destruct tied as [|t0 tr] eqn:Et; simpl in Hs; [contradiction|]. destruct Hs as [<-|[]].
        assert (Hf : tb_first I sat tb alloc t0).
        { apply (tied_hd _ _ _ Hinv). fold tied. rewrite Et. reflexivity. }
        split; [exact Hf|]. apply (proj2 Hinv). apply best_fits, tb_first_best. exact Hf.
      - apply (tied_In _ _ s Hinv) in Hs. split; [exact Hs|]. apply (proj2 Hinv). apply best_fits. exact Hs. }
    assert (Hne' : tied' <> []).
    { subst tied'. pose proof (tied_nonempty _ alloc Hne) as Ht. fold tied in Ht.
      destruct resolute; [|exact Ht]. destruct tied; [congruence|simpl; discriminate]. }
    destruct (@opt_concat_map_spec (list proj) proj
                (fun s => gen_leaves I sat tb resolute fuel (next_feasible I feas alloc s) (alloc ++ [s]))
                (fun s ls => (forall W, In W ls -> greedy_run I (choice resolute) (alloc ++ [s]) W) /\
                             (resolute = false -> forall W, greedy_run I (best I sat) (alloc ++ [s]) W -> In W ls))
                tied') as [L [HL [HLne HLin]]].
    { intros s Hs. destruct (Htied' s Hs) as [Hc Hin].
      destruct (IH (next_feasible I feas alloc s) (alloc ++ [s])) as [ls [H1 [H2 H3]]].
      - apply next_inv; assumption.
      - pose proof (next_length _ alloc _ Hin). lia.
      - exists ls. auto. }
    exists L. split; [exact HL|]. split; [apply HLne; exact Hne'|]. split.
    + intros W HW. apply HLin in HW. destruct HW as [s [ls [Hs [Hg HW]]]].
      destruct (Htied' s Hs) as [Hc Hin].
      destruct (IH (next_feasible I feas alloc s) (alloc ++ [s])) as [ls' [H1 [H2 [H3 _]]]].
      * apply next_inv; assumption.
      * pose proof (next_length _ alloc _ Hin). lia.
      * rewrite Hg in H1. injection H1 as <-. eapply gr_step; [exact Hc|]. apply H3. exact HW.
    + intros -> W Hrun.
      assert (Hex : exists x, fits I alloc x).
      { exists f0. apply (proj2 Hinv). rewrite Efeas. left. reflexivity. }
      clear Efeas.
      inversion Hrun as [a Hstop|a p W' Hc Hrest]; subst.
      * exfalso. destruct Hex as [x Hx]. exact (Hstop x Hx).
      * assert (Hs : In p tied') by (subst tied' tied; simpl; apply (tied_In _ _ p Hinv); exact Hc).
        destruct (Htied' p Hs) as [_ Hin].
        destruct (IH (next_feasible I feas alloc p) (alloc ++ [p])) as [ls' [H1 [H2 [_ H4]]]].
        -- apply next_inv; assumption.
        -- pose proof (next_length _ alloc _ Hin). lia.
        -- apply HLin. exists p, ls'. split; [exact Hs|]. split; [exact H1|]. apply H4; [reflexivity|exact Hrest].
Qed.

(* ---------- consequences of being a run ---------- *)

Lemma greedy_run_exhaustive (ch : list proj -> proj -> Prop) a W : greedy_run I ch a W -> exhaustive I W.
Proof.
  induction 1 as [a Hstop|a p W Hc Hrun IH]; [|exact IH].
  intros p Hp Hnin. apply Qnot_le_lt. intros Hle. apply (Hstop p). repeat split; assumption.
Qed.

Lemma greedy_run_feasible (ch : list proj -> proj -> Prop) a W :
  (forall a p, ch a p -> fits I a p) ->
  greedy_run I ch a W -> feasible I a -> feasible I W /\ (exists ext, W = a ++ ext).
Proof.
  intros Hch. induction 1 as [a Hstop|a p W Hc Hrun IH]; intros Hf.
  - split; [exact Hf|exists []; rewrite app_nil_r; reflexivity].
  - destruct (Hch a p Hc) as [H1 [H2 H3]]. destruct Hf as [Hnd [Hin Hc']].
    destruct IH as [IH1 [ext IH2]].
    + repeat split.
      * apply NoDup_app_intro; [exact Hnd|constructor; [intros []|constructor]|].
        intros x Hx [<-|[]]. contradiction.
      * intros x Hx. apply in_app_iff in Hx. destruct Hx as [Hx|[<-|[]]]; [apply Hin; exact Hx|exact H1].
      * rewrite tcost_app. unfold tcost at 2. simpl. lra.
    + split; [exact IH1|]. exists (p :: ext). rewrite IH2, <- app_assoc. reflexivity.
Qed.

Lemma tb_first_unique a p q : tb_first I sat tb a p -> tb_first I sat tb a q -> p = q.
Proof.
  intros [Hp1 Hp2] [Hq1 Hq2]. destruct (Hp2 q Hq1) as [H|[H H']]; destruct (Hq2 p Hp1) as [G|[G G']]; try lra; lia.
Qed.

Theorem greedy_run_deterministic a W1 W2 :
  greedy_run I (tb_first I sat tb) a W1 -> greedy_run I (tb_first I sat tb) a W2 -> W1 = W2.
Proof.
  intros H1. revert W2. induction H1 as [a Hstop|a p W Hc Hrun IH]; intros W2 H2.
  - inversion H2 as [|a' p W' Hc' _]; subst; [reflexivity|].
    exfalso. apply (Hstop p). apply best_fits, tb_first_best. exact Hc'.
  - inversion H2 as [a' Hstop|a' q W' Hc' Hrun']; subst.
    + exfalso. apply (Hstop p). apply best_fits, tb_first_best. exact Hc.
    + assert (p = q) by (eapply tb_first_unique; eassumption). subst q. apply IH. exact Hrun'.
Qed.

(* ---------- top level: the general scheme ---------- *)

Theorem greedy_gen_refines_spec init :
  exists W, greedy_gen_res I sat tb init = Some W /\ greedy_run I (tb_first I sat tb) init W.
Proof.
  unfold greedy_gen_res.
  destruct (@gen_leaves_spec true (length (initial_feasible I init)) (initial_feasible I init) init
              (initial_inv init) (le_n _)) as [ls [H1 [H2 [H3 _]]]].
  rewrite H1. destruct ls as [|W r]; [congruence|]. exists W. split; [reflexivity|].
  apply H3. left. reflexivity.
Qed.

Lemma nl_eqb_eq a : forall b, nl_eqb a b = true <-> a = b.
Proof.
  induction a as [|x r IH]; intros [|y t]; simpl; try (split; [discriminate|discriminate]); [tauto|].
  rewrite andb_true_iff, Nat.eqb_eq, IH. split; [intros [-> ->]; reflexivity|intros [= -> ->]; auto].
Qed.

Lemma dedup_sorted_In : forall ls seen X,
  In X (dedup_sorted seen ls) <-> In X seen \/ exists W, In W ls /\ X = name_sort W.
Proof.
  induction ls as [|a r IH]; intros seen X; simpl.
  - split; [auto|intros [H|[W [[] _]]]; exact H].
  - destruct (existsb (nl_eqb (name_sort a)) seen) eqn:E.
    + rewrite IH. apply existsb_exists in E. destruct E as [b [Hb Eb]]. apply nl_eqb_eq in Eb. subst b.
      split.
      * intros [H|[W [HW HX]]]; [left; exact H|right; exists W; auto].
      * intros [H|[W [[<-|HW] HX]]]; [left; exact H|left; subst; exact Hb|right; exists W; auto].
    + rewrite IH, in_app_iff. simpl. split.
      * intros [[H|[<-|[]]]|[W [HW HX]]]; [left; exact H|right; exists a; auto|right; exists W; auto].
      * intros [H|[W [[<-|HW] HX]]]; [left; left; exact H|left; right; left; auto|right; exists W; auto].
Qed.

(* irresolute: the returned list is exactly the set of (sorted) outcomes of the runs under all ways of
   breaking ties among the best projects *)
Theorem greedy_gen_irr_spec init :
  exists Ws, greedy_gen_irr I sat tb init = Some Ws /\
    forall X, In X Ws <-> exists W, greedy_run I (best I sat) init W /\ X = name_sort W.
Proof.
  unfold greedy_gen_irr.
  destruct (@gen_leaves_spec false (length (initial_feasible I init)) (initial_feasible I init) init
              (initial_inv init) (le_n _)) as [ls [H1 [H2 [H3 H4]]]].
  rewrite H1. exists (dedup_sorted [] ls). split; [reflexivity|].
  intros X. rewrite dedup_sorted_In. split.
  - intros [[]|[W [HW HX]]]. exists W. split; [apply H3; exact HW|exact HX].
  - intros [W [HW HX]]. right. exists W. split; [apply H4; [reflexivity|exact HW]|exact HX].
Qed.

End GP.
