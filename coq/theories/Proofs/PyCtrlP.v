(* Proofs/PyCtrlP.v -- every REGENERATED definition of Generated/PyCtrl.v (state-passing translation of the imperative
   wrappers of pabutools/rules/exhaustion.py and pabutools/rules/composition.py) equals the hand-written model the
   C09 / C19 theorems are about, for ALL wrapped rules and all inputs.  Statements re-exported by Props/C09gen.v and
   Props/C19gen.v. *)
From Coq Require Import String.
From PB Require Import Model.PyCtrlPrims Model.Exhaustion Proofs.ExhaustionP Generated.PyCtrl Proofs.PyCtrlLib.
Open Scope Q_scope.

Section Increase.
Context {X SC : Type}.

(* the state of the generated loop that stands for (budget b, previous outcome p) of the model's loop; the two
   components in either order *)
Definition inc_rel {T} (I : inst) (s : inst * T) (b : Q) (p : T) : Prop :=
  exists b', b' == b /\ s = (mkInst (costs I) b', p).
Definition inc_rel' {T} (I : inst) (s : T * inst) (b : Q) (p : T) : Prop :=
  exists b', b' == b /\ s = (p, mkInst (costs I) b').

Ltac inc_bound_eq :=
  repeat match goal with |- context [match ?o with Some _ => _ | None => _ end] => destruct o end;
  unfold default_bound, Qofnat, Qnat, frac; first [reflexivity | ring | field].

Ltac inc_tac I :=
  intros Hp; unfold gen_exhaustion_by_budget_increase_res, gen_exhaustion_by_budget_increase_irr,
    increase_res, increase_irr, kw_or_empty, alloc_or_empty, step_or_default, bound_or_default; cbv zeta;
  match goal with
  | |- match py_while ?fuel ?c ?b ?s with _ => _ end = _ =>
      first [ eapply (py_while_retry c b _ _ _ _ _ _ (inc_rel I))
            | eapply (py_while_retry c b _ _ _ _ _ _ (inc_rel' I)) ]
  end;
  [ (* the loop ends *)
    intros s b p [b' [Hb ->]] Hc; cbn [fst snd budget costs]; unfold py_le, py_lt, py_gt, py_ge, Qltb; cbv beta iota;
    first [ left; split; [|reflexivity];
            (rewrite <- Hc; apply Qleb_compat; [exact Hb|inc_bound_eq])
          | right; split; [reflexivity|];
            match goal with |- context [Qle_bool ?x ?y] =>
              let E := fresh "E" in
              assert (E : Qle_bool x y = false) by (rewrite <- Hc; apply Qleb_compat; [exact Hb|inc_bound_eq]);
              rewrite E
            end;
            cbn [negb]; eexists; split; reflexivity ]
  | (* body *)
    intros s b p [b' [Hb ->]] Hc; cbn [fst snd budget costs];
    py_unfold_ctrl; unfold Qltb; unfold infeasible_any, exh_any; unfold infeasible1, exh1; cbv beta iota zeta;
    rewrite (Hp _ b' b _ Hb);
    py_flag_loops;
    rewrite ?py_any_map, ?py_all_map, ?forallb_as_existsb, ?negb_involutive, ?existsb_negb_negb;
    cbn [py_for existsb forallb map]; rewrite ?orb_false_r, ?andb_true_r, ?negb_involutive;
    split;
    [ first [ reflexivity | rewrite <- Hc; apply Qleb_compat; [exact Hb|inc_bound_eq] ] | ];
    try match goal with |- context [if negb (Qle_bool ?x ?y) then Break _ else _] =>
          let E := fresh "E" in
          assert (E : Qle_bool x y = true) by
            (change Qle_bool with Qleb; rewrite <- Hc; apply Qleb_compat; [exact Hb|inc_bound_eq]);
          rewrite E; cbn [negb] end;
    repeat match goal with
           | |- context [if ?c then _ else _] =>
               py_atom c ltac:(fun a => let E := fresh "E" in destruct a eqn:E); cbn [negb andb orb] in *
           end;
    let fin := (cbn [negb andb orb]; first [ reflexivity | assumption
                                            | match goal with H : _ = _ |- _ => rewrite H; reflexivity end ]) in
    try solve [ left; split; fin
              | right; left; split; [fin|split; fin]
              | right; right; split; [fin|split; [fin|]]; eexists; split; [reflexivity|];
                eexists; split; [|reflexivity]; cbn [budget py_with_budget costs];
                rewrite Qred_correct, Hb;
                repeat match goal with |- context [match ?o with Some _ => _ | None => _ end] => destruct o end;
                unfold default_step; try rewrite frac_1_100; first [reflexivity | ring]
              | congruence ]
  | (* initially *)
    exists (budget I); split; [reflexivity|]; rewrite inst_eta; reflexivity ].

Theorem gen_increase_res_eq (rule : py_rule X py_alloc) (I : inst) (prof : py_cprofile SC) okw oinit stop ostep obound fuel :
  rule_proper rule ->
  gen_exhaustion_by_budget_increase_res I prof rule okw oinit stop ostep obound fuel =
  match increase_res I (fun b => rule (py_kw_set_res (kw_or_empty okw) true) b (alloc_or_empty oinit))
          (alloc_or_empty oinit) stop (step_or_default I ostep) (bound_or_default I (cp_num_ballots prof) obound) fuel with
  | Some (_, W) => Ok W
  | None => OutOfFuel
  end.
Proof.
  timeout 120 (inc_tac I).
Qed.

Theorem gen_increase_irr_eq (rule : py_rule X (list py_alloc)) (I : inst) (prof : py_cprofile SC) okw oinit stop ostep obound fuel :
  rule_proper rule ->
  gen_exhaustion_by_budget_increase_irr I prof rule okw oinit stop ostep obound fuel =
  match increase_irr I (fun b => rule (py_kw_set_res (kw_or_empty okw) false) b (alloc_or_empty oinit))
          (alloc_or_empty oinit) stop (step_or_default I ostep) (bound_or_default I (cp_num_ballots prof) obound) fuel with
  | Some (_, W) => Ok W
  | None => OutOfFuel
  end.
Proof.
  timeout 120 (inc_tac I).
Qed.
End Increase.

(* ---------- completion_by_rule_combination ---------- *)
Section Completion.
Context {X SC : Type}.

Theorem gen_completion_res_eq (rules : list (py_rule X py_alloc)) (I : inst) (prof : py_cprofile SC) oparams oinit :
  gen_completion_by_rule_combination_res I prof rules oparams oinit =
  if bad_lengths rules oparams then Raise "ValueError"
  else if existsb (sets_other_res true) (kws_or_empty rules oparams) then Raise "ValueError"
  else Ok (complete_res I (map (fun rp => fst rp (py_kw_set_res (snd rp) true) (budget I))
                               (combine rules (kws_or_empty rules oparams))) (alloc_or_empty oinit)).
Proof.
  unfold gen_completion_by_rule_combination_res. cbv zeta.
  change (match oparams with Some n0 => negb (py_nat_eq (length rules) (length n0)) | None => false end)
    with (bad_lengths rules oparams).
  destruct (bad_lengths rules oparams) eqn:Eb; [reflexivity|].
  pose proof (kws_length rules oparams Eb) as Hlen.
  change (match oparams with Some p => p | None => map (fun _ => py_no_kwargs) rules end) with (kws_or_empty rules oparams) in *.
  set (ps := kws_or_empty rules oparams) in *. clearbody ps.
  timeout 60 py_norm_headers.
  erewrite (py_for_check _ (sets_other_res true));
    [|intros p; unfold sets_other_res; py_unfold_ctrl; destruct (kw_resoluteness p) as [[|]|]; reflexivity].
  destruct (existsb (sets_other_res true) ps); [reflexivity|]. cbv beta.
  match goal with
  | |- match py_for ?F (combine rules ps) _ with inl b => @?post b | inr r => r end = Ok (complete_res I (map ?f _) _) =>
      assert (Hg : forall l cur, match py_for F l [cur] with inl b => post b | inr r => r end =
                                 Ok (complete_res I (map f l) cur))
  end.
  { induction l as [|[r p] l IH]; intros cur; [reflexivity|].
    cbn [map complete_res py_for fst snd py_getitem nth_error app]. unfold py_is_exhaustive, exh_all in *.
    repeat py_case_step; first [reflexivity | apply IH]. }
  destruct oinit; apply Hg.
Qed.

Theorem gen_completion_irr_eq (rules : list (py_rule X (list py_alloc))) (I : inst) (prof : py_cprofile SC) oparams oinit :
  gen_completion_by_rule_combination_irr I prof rules oparams oinit =
  if bad_lengths rules oparams then Raise "ValueError"
  else if existsb (sets_other_res false) (kws_or_empty rules oparams) then Raise "ValueError"
  else Ok (completion_irr I (map (fun rp => fst rp (py_kw_set_res (snd rp) false) (budget I))
                                 (combine rules (kws_or_empty rules oparams))) (alloc_or_empty oinit)).
Proof.
  unfold gen_completion_by_rule_combination_irr. cbv zeta.
  change (match oparams with Some n0 => negb (py_nat_eq (length rules) (length n0)) | None => false end)
    with (bad_lengths rules oparams).
  destruct (bad_lengths rules oparams) eqn:Eb; [reflexivity|].
  pose proof (kws_length rules oparams Eb) as Hlen.
  change (match oparams with Some p => p | None => map (fun _ => py_no_kwargs) rules end) with (kws_or_empty rules oparams) in *.
  set (ps := kws_or_empty rules oparams) in *. clearbody ps.
  timeout 60 py_norm_headers.
  erewrite (py_for_check _ (sets_other_res false));
    [|intros p; unfold sets_other_res; py_unfold_ctrl; destruct (kw_resoluteness p) as [[|]|]; reflexivity].
  destruct (existsb (sets_other_res false) ps); [reflexivity|]. cbv beta.
  unfold completion_irr.
  (* the state of the outer loop is (pending allocations, exhaustive outcomes), in either order *)
  first
  [ solve [ match goal with
    | |- match py_for ?F (combine rules ps) _ with inl b => @?post b | inr r => r end = Ok (complete_irr I (map ?f _) _ _) =>
        assert (Hg : forall l bas res, match py_for F l (bas, res) with inl b => post b | inr r => r end =
                                       Ok (complete_irr I (map f l) bas res));
        [ induction l as [|[r p] l IH]; intros bas res; [reflexivity|];
      cbn [map complete_irr py_for fst snd];
      erewrite (py_for_sim_next _ (fun st ba => fold_left (scan_alloc I) (r (py_kw_set_res p false) (budget I) ba) st) (fun m => m));
      [ unfold scan_rule; cbv beta; unfold py_alloc, alloc, cstate in *;
        match goal with |- context [fold_left ?f ?l0 ?s0] => destruct (fold_left f l0 s0) as [[res' new] allr] end;
        destruct allr; [reflexivity|]; apply IH
      | intros [[res0 new0] allr0] ba; cbv beta iota;
        erewrite (py_for_sim_next _ (scan_alloc I) (fun m => m));
        [ cbv beta; py_next_eta
        | intros [[res' new] allr] a; unfold scan_alloc, py_is_exhaustive, exh_all; py_to_model;
          py_cases; reflexivity ] ] | destruct oinit; apply Hg ]
    end ]
  | solve [ match goal with
    | |- match py_for ?F (combine rules ps) _ with inl b => @?post b | inr r => r end = Ok (complete_irr I (map ?f _) _ _) =>
        assert (Hg : forall l bas res, match py_for F l (res, bas) with inl b => post b | inr r => r end =
                                       Ok (complete_irr I (map f l) bas res));
        [ induction l as [|[r p] l IH]; intros bas res; [reflexivity|];
      cbn [map complete_irr py_for fst snd];
      erewrite (py_for_sim_next _ (fun st ba => fold_left (scan_alloc I) (r (py_kw_set_res p false) (budget I) ba) st) (fun m => m));
      [ unfold scan_rule; cbv beta; unfold py_alloc, alloc, cstate in *;
        match goal with |- context [fold_left ?f ?l0 ?s0] => destruct (fold_left f l0 s0) as [[res' new] allr] end;
        destruct allr; [reflexivity|]; apply IH
      | intros [[res0 new0] allr0] ba; cbv beta iota;
        erewrite (py_for_sim_next _ (scan_alloc I) (fun m => m));
        [ cbv beta; py_next_eta
        | intros [[res' new] allr] a; unfold scan_alloc, py_is_exhaustive, exh_all; py_to_model;
          py_cases; reflexivity ] ] | destruct oinit; apply Hg ]
    end ] ].
Qed.
End Completion.

(* ---------- fuel ---------- *)
Section Fuel.
Context {X SC : Type}.

(* step > 0: (bound - B)/step + 1 tries at most, one more unit of fuel to see the condition fail *)
Theorem gen_increase_res_fuel (rule : py_rule X py_alloc) (I : inst) (prof : py_cprofile SC) okw oinit stop ostep obound fuel :
  rule_proper rule -> 0 < step_or_default I ostep ->
  (fuel > ntries (budget I) (step_or_default I ostep) (bound_or_default I (cp_num_ballots prof) obound))%nat ->
  exists k W,
    increase_res I (fun b => rule (py_kw_set_res (kw_or_empty okw) true) b (alloc_or_empty oinit))
      (alloc_or_empty oinit) stop (step_or_default I ostep) (bound_or_default I (cp_num_ballots prof) obound) fuel = Some (k, W) /\
    gen_exhaustion_by_budget_increase_res I prof rule okw oinit stop ostep obound fuel = Ok W.
Proof.
  intros Hp Hs Hf. rewrite (gen_increase_res_eq rule I prof okw oinit stop ostep obound fuel Hp).
  destruct (bounded_retry_spec alloc (fun b => rule (py_kw_set_res (kw_or_empty okw) true) b (alloc_or_empty oinit))
              (infeasible1 I) (exh1 I stop (all_projects I)) (budget I) (step_or_default I ostep)
              (bound_or_default I (cp_num_ballots prof) obound) (alloc_or_empty oinit) fuel) as [k [W [E _]]].
  - intros b b' Hb. apply Hp. exact Hb.
  - exact Hs.
  - exact Hf.
  - exists k, W. match goal with |- ?L = _ /\ _ => assert (E' : L = Some (k, W)) by exact E end. rewrite E'. split; reflexivity.
Qed.

Theorem gen_increase_irr_fuel (rule : py_rule X (list py_alloc)) (I : inst) (prof : py_cprofile SC) okw oinit stop ostep obound fuel :
  rule_proper rule -> 0 < step_or_default I ostep ->
  (fuel > ntries (budget I) (step_or_default I ostep) (bound_or_default I (cp_num_ballots prof) obound))%nat ->
  exists k Ws,
    increase_irr I (fun b => rule (py_kw_set_res (kw_or_empty okw) false) b (alloc_or_empty oinit))
      (alloc_or_empty oinit) stop (step_or_default I ostep) (bound_or_default I (cp_num_ballots prof) obound) fuel = Some (k, Ws) /\
    gen_exhaustion_by_budget_increase_irr I prof rule okw oinit stop ostep obound fuel = Ok Ws.
Proof.
  intros Hp Hs Hf. rewrite (gen_increase_irr_eq rule I prof okw oinit stop ostep obound fuel Hp).
  destruct (bounded_retry_spec (list alloc) (fun b => rule (py_kw_set_res (kw_or_empty okw) false) b (alloc_or_empty oinit))
              (infeasible_any I) (exh_any I stop (all_projects I)) (budget I) (step_or_default I ostep)
              (bound_or_default I (cp_num_ballots prof) obound) [alloc_or_empty oinit] fuel) as [k [W [E _]]].
  - intros b b' Hb. apply Hp. exact Hb.
  - exact Hs.
  - exact Hf.
  - exists k, W. match goal with |- ?L = _ /\ _ => assert (E' : L = Some (k, W)) by exact E end. rewrite E'. split; reflexivity.
Qed.

(* the EXCLUDED case: step <= 0 with the budget within the bound -- the budget never passes the bound, so unless some
   try stops (infeasible, or exhaustive with exhaustive_stop) the Python loop does not return *)
Theorem gen_increase_res_nonpositive_step (rule : py_rule X py_alloc) (I : inst) (prof : py_cprofile SC) okw oinit stop ostep obound :
  rule_proper rule -> step_or_default I ostep <= 0 ->
  budget I <= bound_or_default I (cp_num_ballots prof) obound ->
  (forall k, let W := rule (py_kw_set_res (kw_or_empty okw) true) (try_budget (budget I) (step_or_default I ostep) k)
                           (alloc_or_empty oinit) in
             infeasible1 I W = false /\ exh1 I stop (all_projects I) W = false) ->
  forall fuel, gen_exhaustion_by_budget_increase_res I prof rule okw oinit stop ostep obound fuel = OutOfFuel.
Proof.
  intros Hp Hs Hb Hno fuel. rewrite (gen_increase_res_eq rule I prof okw oinit stop ostep obound fuel Hp).
  unfold increase_res.
  rewrite (retry_diverges alloc _ (infeasible1 I) (exh1 I stop (all_projects I)) (step_or_default I ostep)
             (fun b => Qleb b (bound_or_default I (cp_num_ballots prof) obound)) (budget I)); [reflexivity| | | |].
  - intros b b' E. apply Hp. exact E.
  - intros b b' E. apply Qleb_compat; [exact E|reflexivity].
  - rewrite try_budget_0. reflexivity.
  - intros i. split; [|apply Hno]. apply Qleb_iff. unfold try_budget. cbn [Nat.add].
    assert (0 <= Qofnat i) by apply Qofnat_nonneg. nra.
Qed.
End Fuel.

(* ---------- aliasing: no object of the caller is mutated through a local name ---------- *)
Lemma alias_completion_res : py_inputs_untouched gen_alias_completion_by_rule_combination_res = true.
Proof. reflexivity. Qed.
Lemma alias_completion_irr : py_inputs_untouched gen_alias_completion_by_rule_combination_irr = true.
Proof. reflexivity. Qed.
Lemma alias_increase_res : py_inputs_untouched gen_alias_exhaustion_by_budget_increase_res = true.
Proof. reflexivity. Qed.
Lemma alias_increase_irr : py_inputs_untouched gen_alias_exhaustion_by_budget_increase_irr = true.
Proof. reflexivity. Qed.
Lemma ctrl_all_translated : gen_untranslated_exhaustion = [].
Proof. reflexivity. Qed.
