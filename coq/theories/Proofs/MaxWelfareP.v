(* Proofs/MaxWelfareP.v -- max_additive_utilitarian_welfare_primal_dual_scheme (Model/MaxWelfare.v):
   the returned allocation is feasible, extends the initial allocation and has maximum welfare among all
   feasible allocations extending the initial one. *)
From PB Require Import Model.MaxWelfare Oracle.C04 Proofs.InstanceP Proofs.WelfareBFP Proofs.KnapsackP.
Open Scope Q_scope.

(* ---------- list plumbing ---------- *)
Lemma sublist_perm_transfer {A} (l l' : list A) : Permutation l l' ->
  forall S, sublist S l -> exists S0, sublist S0 l' /\ Permutation S S0.
Proof.
  induction 1 as [|x l l' _ IH|x y l|l l' l'' _ IH1 _ IH2]; intros S HS.
  - exists S. split; [exact HS|reflexivity].
  - inversion HS as [|z s l0 Hs|z s l0 Hs]; subst.
    + destruct (IH S Hs) as (S0 & H0 & P0). exists S0. split; [constructor; exact H0|exact P0].
    + destruct (IH s Hs) as (S0 & H0 & P0). exists (x :: S0). split; [constructor; exact H0|constructor; exact P0].
  - inversion HS as [|z s l0 Hs|z s l0 Hs]; subst.
    + inversion Hs as [|z s1 l1 Hs1|z s1 l1 Hs1]; subst.
      * exists S. split; [constructor; constructor; exact Hs1|reflexivity].
      * exists (x :: s1). split; [apply sl_take; apply sl_skip; exact Hs1|reflexivity].
    + inversion Hs as [|z s1 l1 Hs1|z s1 l1 Hs1]; subst.
      * exists (y :: s). split; [apply sl_skip; apply sl_take; exact Hs1|reflexivity].
      * exists (x :: y :: s1). split; [apply sl_take; apply sl_take; exact Hs1|apply perm_swap].
  - destruct (IH1 S HS) as (S1 & H1 & P1). destruct (IH2 S1 H1) as (S2 & H2 & P2).
    exists S2. split; [exact H2|etransitivity; eassumption].
Qed.

Lemma sublist_map {A B} (f : A -> B) s l : sublist s l -> sublist (map f s) (map f l).
Proof. induction 1; simpl; constructor; assumption. Qed.

Lemma filter_sublist {A} (f : A -> bool) l : sublist (filter f l) l.
Proof. induction l as [|x r IH]; simpl; [constructor|]. destruct (f x); constructor; exact IH. Qed.

Lemma filter_sublist_stronger' {A} (f g : A -> bool) l :
  (forall x, f x = true -> g x = true) -> sublist (filter f l) (filter g l).
Proof.
  intros H. induction l as [|x r IH]; simpl; [constructor|].
  destruct (f x) eqn:Ef.
  - rewrite (H x Ef). apply sl_take. exact IH.
  - destruct (g x); [constructor|]; exact IH.
Qed.

Lemma Qsum_filter {A} (f : A -> Q) (g : A -> bool) l :
  Qsum (map f (filter g l)) == Qsum (map (fun p => if g p then f p else 0) l).
Proof.
  induction l as [|x r IH]; simpl; [reflexivity|].
  destruct (g x); simpl; rewrite IH; ring.
Qed.

Lemma Qsum_map_plus {A} (f g : A -> Q) l :
  Qsum (map (fun p => f p + g p) l) == Qsum (map f l) + Qsum (map g l).
Proof. induction l as [|x r IH]; simpl; [ring|rewrite IH; ring]. Qed.

(* a duplicate-free list inside a duplicate-free enumeration = the enumeration filtered by membership *)
Lemma NoDup_incl_filter_perm (W enum : list nat) : NoDup W -> NoDup enum -> incl W enum ->
  Permutation W (filter (fun p => memb p W) enum).
Proof.
  intros HW He Hi. apply NoDup_Permutation; [exact HW|apply NoDup_filter; exact He|].
  intros p. rewrite filter_In, memb_In. split; [intros H; split; [apply Hi; exact H|exact H]|tauto].
Qed.

Lemma sum_over_enum (f : nat -> Q) (W enum : list nat) : NoDup W -> NoDup enum -> incl W enum ->
  Qsum (map f W) == Qsum (map (fun p => if memb p W then f p else 0) enum).
Proof.
  intros HW He Hi. rewrite <- Qsum_filter. apply Qsum_perm_proper. apply Permutation_map.
  apply NoDup_incl_filter_perm; assumption.
Qed.

(* ---------- what the collection loop computes ---------- *)
Section Scheme.
Variable I : inst.
Variable score : list Q.
Variable init : list proj.

Definition is_zplus (p : proj) : bool :=
  negb (memb p init) && Qeqb (cost I p) 0 && Qltb 0 (score_of score p).
Definition is_item (p : proj) : bool :=
  negb (memb p init) && negb (Qeqb (cost I p) 0) && Qleb 0 (score_of score p).
Definition mk_item (p : proj) : kitem := mkItem p (cost I p) (score_of score p).

Lemma memb_app_single q alloc p : q <> p -> memb q (alloc ++ [p]) = memb q alloc.
Proof.
  intros Hne. unfold memb. rewrite existsb_app. simpl.
  destruct (Nat.eqb_spec q p); [contradiction|]. rewrite !orb_false_r. reflexivity.
Qed.

Lemma pd_collect_eq : forall enum alloc items, NoDup enum ->
  (forall q, In q enum -> memb q alloc = memb q init) ->
  pd_collect I score enum alloc items =
  (alloc ++ filter is_zplus enum, items ++ map mk_item (filter is_item enum)).
Proof.
  induction enum as [|p r IH]; intros alloc items Hnd Hm; simpl.
  - rewrite !app_nil_r. reflexivity.
  - inversion Hnd as [|x l Hp Hr]; subst.
    assert (Hrest : forall q, In q r -> memb q alloc = memb q init) by (intros q Hq; apply Hm; right; exact Hq).
    rewrite (Hm p (or_introl eq_refl)). unfold is_zplus, is_item.
    destruct (memb p init) eqn:Ei; simpl.
    + apply IH; assumption.
    + destruct (Qeqb (cost I p) 0) eqn:Ec; simpl.
      * destruct (Qltb 0 (score_of score p)) eqn:Es.
        -- rewrite IH; [rewrite <- app_assoc; reflexivity|exact Hr|].
           intros q Hq. rewrite memb_app_single; [apply Hrest; exact Hq|]. intros ->. contradiction.
        -- apply IH; assumption.
      * destruct (Qleb 0 (score_of score p)) eqn:Es; simpl.
        -- rewrite IH; [rewrite <- app_assoc; reflexivity|exact Hr|exact Hrest].
        -- apply IH; assumption.
Qed.
End Scheme.

Section Main.
Variable I : inst.
Variable score : list Q.
Variables enum init : list proj.
Hypothesis Hcost : Forall (fun c => 0 <= c) (costs I).
Hypothesis Henum_nd : NoDup enum.
Hypothesis Henum : forall p, In p enum <-> (p < nproj I)%nat.
Hypothesis Hinit_nd : NoDup init.
Hypothesis Hinit : incl init enum.
Hypothesis Hinit_feas : tcost I init <= budget I.

Notation zplus := (filter (is_zplus I score init) enum).
Notation itemps := (filter (is_item I score init) enum).
Notation its := (map (mk_item I score) itemps).

Lemma zplus_cost0 : tcost I zplus == 0.
Proof.
  unfold tcost. apply Qsum_map_zero. intros p Hp. apply filter_In in Hp. destruct Hp as [_ Hp].
  unfold is_zplus in Hp. apply andb_true_iff in Hp. destruct Hp as [Hp _].
  apply andb_true_iff in Hp. destruct Hp as [_ Hp]. apply Qeqb_iff in Hp. exact Hp.
Qed.

Lemma its_wf : Forall (fun it => 0 < kw it /\ 0 <= kp it) its.
Proof.
  rewrite Forall_forall. intros it Hit. apply in_map_iff in Hit. destruct Hit as (p & <- & Hp).
  apply filter_In in Hp. destruct Hp as [_ Hp]. unfold is_item in Hp.
  apply andb_true_iff in Hp. destruct Hp as [Hp Hs]. apply Qleb_iff in Hs.
  apply andb_true_iff in Hp. destruct Hp as [_ Hp]. apply negb_true_iff, Qeqb_false_iff in Hp.
  cbn [mk_item kw kp]. split; [|exact Hs].
  assert (H0 := cost_nonneg I p Hcost). destruct (Qlt_le_dec 0 (cost I p)) as [H|H]; [exact H|].
  exfalso. apply Hp. lra.
Qed.

Lemma its_kproj : map kproj its = itemps.
Proof. rewrite map_map. cbn [mk_item kproj]. apply map_id. Qed.

Lemma in_its it : In it its -> exists p, it = mk_item I score p /\ In p enum /\ is_item I score init p = true.
Proof.
  intros H. apply in_map_iff in H. destruct H as (p & <- & Hp). apply filter_In in Hp.
  exists p. tauto.
Qed.

Theorem maxwelfare_pd_optimal_gen :
  exists res, maxwelfare_pd I score enum init = Some res /\
    feasible I res /\ incl init res /\
    (forall W', feasible I W' -> incl init W' -> welfare score W' <= welfare score res).
Proof.
  unfold maxwelfare_pd.
  rewrite (pd_collect_eq I score init enum init [] Henum_nd (fun q _ => eq_refl)). cbn [app].
  set (alloc := init ++ zplus).
  assert (Halloc_cost : tcost I alloc == tcost I init).
  { unfold alloc. rewrite tcost_app, zplus_cost0. ring. }
  set (cap := Qred (budget I - tcost I alloc)).
  assert (Hcapv : cap == budget I - tcost I init) by (unfold cap; rewrite Qred_correct, Halloc_cost; reflexivity).
  assert (Hcap : 0 <= cap) by lra.
  destruct (pd_branch_optimal its cap its_wf Hcap) as (sel & E & Hsub & Hw & Hopt).
  rewrite E. exists (alloc ++ map kproj sel). split; [reflexivity|].
  (* facts about the selected items *)
  assert (Hsel_in : forall it, In it sel -> In it its).
  { intros it Hit. apply (isort_In eff_geb). eapply sublist_In; [exact Hsub|exact Hit]. }
  assert (Hsel_cost : tcost I (map kproj sel) == kweight sel).
  { unfold tcost, kweight. rewrite map_map. apply Qsum_map_ext. intros it Hit.
    destruct (in_its it (Hsel_in it Hit)) as (p & -> & _). reflexivity. }
  assert (Hsel_wel : welfare score (map kproj sel) == kprofit sel).
  { unfold welfare, kprofit. rewrite map_map. apply Qsum_map_ext. intros it Hit.
    destruct (in_its it (Hsel_in it Hit)) as (p & -> & _). reflexivity. }
  assert (Hsel_nd : NoDup (map kproj sel)).
  { apply (sublist_NoDup _ (map kproj sel) (map kproj (sort_items its))).
    - apply sublist_map. exact Hsub.
    - eapply Permutation_NoDup; [apply Permutation_map; apply (isort_perm eff_geb)|].
      rewrite its_kproj. apply NoDup_filter. exact Henum_nd. }
  assert (Hsel_p : forall p, In p (map kproj sel) -> In p enum /\ is_item I score init p = true).
  { intros p Hp. apply in_map_iff in Hp. destruct Hp as (it & <- & Hit).
    destruct (in_its it (Hsel_in it Hit)) as (p & -> & Hpe & Hpi). cbn [mk_item kproj]. tauto. }
  assert (Hzplus_p : forall p, In p zplus -> In p enum /\ is_zplus I score init p = true)
    by (intros p Hp; apply filter_In in Hp; exact Hp).
  split; [|split].
  - (* feasible *)
    split; [|split].
    + apply NoDup_app_intro; [|exact Hsel_nd|].
      * unfold alloc. apply NoDup_app_intro; [exact Hinit_nd|apply NoDup_filter; exact Henum_nd|].
        intros p Hp1 Hp2. destruct (Hzplus_p p Hp2) as [_ Hz]. unfold is_zplus in Hz.
        apply memb_In in Hp1. rewrite Hp1 in Hz. discriminate.
      * intros p Hp1 Hp2. destruct (Hsel_p p Hp2) as [_ Hi]. unfold is_item in Hi.
        apply andb_true_iff in Hi. destruct Hi as [Hi _].
        apply andb_true_iff in Hi. destruct Hi as [Hi1 Hi2].
        unfold alloc in Hp1. apply in_app_or in Hp1. destruct Hp1 as [Hp1|Hp1].
        -- apply memb_In in Hp1. rewrite Hp1 in Hi1. discriminate.
        -- destruct (Hzplus_p p Hp1) as [_ Hz]. unfold is_zplus in Hz.
           apply andb_true_iff in Hz. destruct Hz as [Hz _]. apply andb_true_iff in Hz.
           destruct Hz as [_ Hz]. rewrite Hz in Hi2. discriminate.
    + intros p Hp. apply Henum. apply in_app_or in Hp. destruct Hp as [Hp|Hp].
      * unfold alloc in Hp. apply in_app_or in Hp. destruct Hp as [Hp|Hp];
          [apply Hinit; exact Hp|apply (Hzplus_p p Hp)].
      * apply (Hsel_p p Hp).
    + rewrite tcost_app, Hsel_cost, Halloc_cost. lra.
  - intros p Hp. apply in_or_app. left. unfold alloc. apply in_or_app. left. exact Hp.
  - (* optimal *)
    intros W' (HWnd & HWr & HWc) HWi.
    assert (HWe : incl W' enum) by (intros p Hp; apply Henum; apply HWr; exact Hp).
    (* the items of W' as a sub-list of the item list *)
    set (S'' := map (mk_item I score) (filter (fun p => is_item I score init p && memb p W') enum)).
    assert (HS''sub : sublist S'' its).
    { unfold S''. apply sublist_map. apply filter_sublist_stronger'.
      intros p Hp. apply andb_true_iff in Hp. tauto. }
    destruct (sublist_perm_transfer its (sort_items its) (isort_perm eff_geb its) S'' HS''sub)
      as (S0 & HS0 & HP0).
    assert (HS''w : kweight S'' == Qsum (map (fun p => if is_item I score init p && memb p W' then cost I p else 0) enum)).
    { unfold kweight, S''. rewrite map_map. cbn [mk_item kw]. apply Qsum_filter. }
    assert (HS''p : kprofit S'' == Qsum (map (fun p => if is_item I score init p && memb p W' then score_of score p else 0) enum)).
    { unfold kprofit, S''. rewrite map_map. cbn [mk_item kp]. apply Qsum_filter. }
    assert (HW'c : tcost I W' == Qsum (map (fun p => if memb p W' then cost I p else 0) enum))
      by (apply sum_over_enum; assumption).
    assert (HW'w : welfare score W' == Qsum (map (fun p => if memb p W' then score_of score p else 0) enum))
      by (apply (sum_over_enum (fun p => nth p score 0)); assumption).
    assert (Hic : tcost I init == Qsum (map (fun p => if memb p init then cost I p else 0) enum))
      by (apply sum_over_enum; assumption).
    assert (Hiw : welfare score init == Qsum (map (fun p => if memb p init then score_of score p else 0) enum))
      by (apply (sum_over_enum (fun p => nth p score 0)); assumption).
    assert (Hzw : welfare score zplus == Qsum (map (fun p => if is_zplus I score init p then score_of score p else 0) enum))
      by (unfold welfare; apply Qsum_filter).
    assert (Hmemb : forall p, memb p init = true -> memb p W' = true).
    { intros p Hp. apply memb_In. apply HWi. apply memb_In. exact Hp. }
    (* weight of S'' fits the remaining budget *)
    assert (Hfit : tcost I init + kweight S'' <= tcost I W').
    { rewrite Hic, HS''w, HW'c, <- Qsum_map_plus. apply Qsum_map_le. intros p _.
      assert (Hc := cost_nonneg I p Hcost). unfold is_item.
      destruct (memb p init) eqn:Ei; cbn [negb andb].
      - rewrite (Hmemb p Ei). lra.
      - destruct (negb (Qeqb (cost I p) 0)); destruct (Qleb 0 (score_of score p)); cbn [andb];
          destruct (memb p W'); lra. }
    assert (HS0w : kweight S0 <= cap).
    { unfold kweight. rewrite <- (Qsum_perm_proper _ _ (Permutation_map kw HP0)). fold (kweight S''). lra. }
    assert (Hbest := Hopt S0 HS0 HS0w).
    assert (HS0p : kprofit S0 == kprofit S'').
    { unfold kprofit. symmetry. apply Qsum_perm_proper. apply Permutation_map. exact HP0. }
    (* welfare of W' is at most welfare of init + zplus + its items *)
    assert (Hdecomp : welfare score W' <= welfare score init + welfare score zplus + kprofit S'').
    { rewrite HW'w, Hiw, Hzw, HS''p, <- !Qsum_map_plus. apply Qsum_map_le. intros p _.
      unfold is_zplus, is_item.
      destruct (memb p init) eqn:Ei; cbn [negb andb].
      - rewrite (Hmemb p Ei). lra.
      - destruct (Qeqb (cost I p) 0); cbn [negb andb].
        + destruct (Qltb 0 (score_of score p)) eqn:Es; destruct (memb p W'); try lra.
          * apply Qltb_iff in Es. lra.
          * apply Qltb_false_iff in Es. lra.
        + destruct (Qleb 0 (score_of score p)) eqn:Es; cbn [andb]; destruct (memb p W'); try lra.
          apply Qleb_false_iff in Es. lra. }
    unfold alloc. rewrite !welfare_app, Hsel_wel. lra.
Qed.
End Main.

(* the statement with the (no longer needed) hypothesis of non-negative satisfactions, kept for its users *)
Theorem maxwelfare_pd_optimal_lemma : forall (I : inst) (score : list Q) (enum init : list proj),
  Forall (fun c => 0 <= c) (costs I) -> Forall (fun s => 0 <= s) score ->
  NoDup enum -> (forall p, In p enum <-> (p < nproj I)%nat) ->
  NoDup init -> incl init enum -> tcost I init <= budget I ->
  exists res, maxwelfare_pd I score enum init = Some res /\
    feasible I res /\ incl init res /\
    (forall W', feasible I W' -> incl init W' -> welfare score W' <= welfare score res).
Proof. intros I score enum init Hc _. apply maxwelfare_pd_optimal_gen. exact Hc. Qed.
