(* Proofs/PyGenSatP.v -- "what the source says now is the model the C10 theorems are about":
   every definition of Generated/PyFuncs.v that comes from the satisfaction modules (regenerated from the Python
   source on every run by harness/vharness/pytrans.py) equals the hand-written model of Model/Satisfaction.v.
   Every proof tries the generic, rewrite-tolerant tactic first ([py_gen]: unfold the generated definitions and the
   vocabulary, normalise loops, split on every condition, decide the arithmetic) and only then a specific script. *)
From Coq Require Import String.
From PB Require Import Model.PyPrims Generated.PyFuncs Proofs.InstanceP Proofs.SatisfactionP Proofs.PyGenLib.
Open Scope Q_scope.

Ltac py_open := intros; repeat autounfold with pygen in *; unfold sat, sat_project in *.
Ltac py_gen := solve [ py_open; py_auto ].

(* ---------- per-project functions (the `func` of the additive measures) ---------- *)

Lemma gen_cardinality_ok : forall I P b p pre, gen_cardinality_sat_func I P b p pre == cardinality_p b p.
Proof. first [ py_gen | intros; unfold gen_cardinality_sat_func; py_pointwise ]. Qed.

Lemma gen_cost_ok : forall I P b p pre, gen_cost_sat_func I P b p pre == cost_p I b p.
Proof. first [ py_gen | intros; unfold gen_cost_sat_func; py_pointwise ]. Qed.

Lemma gen_effort_ok : forall I P b p pre, gen_effort_sat_func I P b p pre == effort_p I P b p.
Proof.
  first [ py_gen
        | timeout 60 (intros; unfold gen_effort_sat_func; py_unfold; rewrite supporters_sum, Qnat_eqb0';
          destruct (Nat.eqb (supporters P p) 0); simpl; [reflexivity|]; rewrite supporters_sum; reflexivity) ].
Qed.

Lemma gen_additive_card_ok : forall I P b p pre, gen_additive_card_sat_func I P b p pre == add_card_p b p.
Proof. first [ py_gen | intros; unfold gen_additive_card_sat_func; py_pointwise ]. Qed.

(* the functions that read a precomputed normaliser: for the dictionary that holds N under every key *)
Lemma gen_relative_cardinality_ok : forall I P b p N,
  gen_relative_cardinality_sat_func I P b p (fun _ => Some N) == rel_by N (cardinality_p b p).
Proof. first [ py_gen | intros; unfold gen_relative_cardinality_sat_func; py_pointwise ]. Qed.

Lemma gen_relative_cost_ok : forall I P b p N,
  gen_relative_cost_sat_func I P b p (fun _ => Some N) == rel_cost_p N I b p.
Proof. first [ py_gen | intros; unfold gen_relative_cost_sat_func; py_pointwise ]. Qed.

Lemma gen_relative_cost_approx_ok : forall I P b p N,
  gen_relative_cost_approx_normaliser_sat_func I P b p (fun _ => Some N) == rel_by N (cost_p I b p).
Proof. first [ py_gen | intros; unfold gen_relative_cost_approx_normaliser_sat_func; py_pointwise ]. Qed.

Lemma gen_additive_card_relative_ok : forall I P b p N,
  gen_additive_card_relative_sat_func I P b p (fun _ => Some N) == add_card_rel_p N b p.
Proof. first [ py_gen | intros; unfold gen_additive_card_relative_sat_func; py_pointwise ]. Qed.

Lemma gen_borda_ok : forall b p, gen_borda_sat_func b p == borda_p b p.
Proof.
  first [ py_gen
        | timeout 60 (intros; unfold gen_borda_sat_func; py_unfold; destruct (inb b p) eqn:E; [|reflexivity];
          rewrite (borda_bridge b p E); reflexivity) ].
Qed.

(* ---------- functional measures ---------- *)
Lemma gen_cc_app_ok : forall I P b W, gen_cc_sat_func_app I P b W == cc_app b W.
Proof.
  first [ py_gen
        | timeout 60 (intros; unfold gen_cc_sat_func_app; py_unfold; rewrite existsb_map; reflexivity) ].
Qed.

Lemma gen_cc_card_ok : forall I P b W, gen_cc_sat_func_card I P b W == cc_card b W.
Proof. first [ py_gen | intros; unfold gen_cc_sat_func_card, cc_card; py_unfold; reflexivity ]. Qed.

(* ---------- no ZeroDivisionError: every frac(a, b) the functions evaluate has b <> 0, on every input ---------- *)
Lemma gen_cardinality_safe_ok : forall I P b p pre, gen_cardinality_sat_func_safe I P b p pre = true.
Proof. intros; repeat autounfold with pygen; py_safe. Qed.
Lemma gen_relative_cardinality_safe_ok : forall I P b p pre, gen_relative_cardinality_sat_func_safe I P b p pre = true.
Proof. intros; repeat autounfold with pygen; py_safe. Qed.
Lemma gen_cost_safe_ok : forall I P b p pre, gen_cost_sat_func_safe I P b p pre = true.
Proof. intros; repeat autounfold with pygen; py_safe. Qed.
Lemma gen_relative_cost_safe_ok : forall I P b p pre, gen_relative_cost_sat_func_safe I P b p pre = true.
Proof. intros; repeat autounfold with pygen; py_safe. Qed.
Lemma gen_relative_cost_approx_normaliser_safe_ok : forall I P b p pre, gen_relative_cost_approx_normaliser_sat_func_safe I P b p pre = true.
Proof. intros; repeat autounfold with pygen; py_safe. Qed.
Lemma gen_effort_safe_ok : forall I P b p pre, gen_effort_sat_func_safe I P b p pre = true.
Proof. intros; repeat autounfold with pygen; py_safe. Qed.
Lemma gen_additive_card_safe_ok : forall I P b p pre, gen_additive_card_sat_func_safe I P b p pre = true.
Proof. intros; repeat autounfold with pygen; py_safe. Qed.
Lemma gen_additive_card_relative_safe_ok : forall I P b p pre, gen_additive_card_relative_sat_func_safe I P b p pre = true.
Proof. intros; repeat autounfold with pygen; py_safe. Qed.
Lemma gen_cc_app_safe_ok : forall I P b W, gen_cc_sat_func_app_safe I P b W = true.
Proof. intros; repeat autounfold with pygen; py_safe. Qed.
Lemma gen_cc_card_safe_ok : forall I P b W, gen_cc_sat_func_card_safe I P b W = true.
Proof. intros; repeat autounfold with pygen; py_safe. Qed.
Lemma gen_borda_safe_ok : forall b p, gen_borda_sat_func_safe b p = true.
Proof. intros; repeat autounfold with pygen; py_safe. Qed.

(* ---------- the base classes: sat / sat_project in terms of the stored function ---------- *)
(* AdditiveSatisfaction: the memo cache [self.scores] is transparent (a hit returns what a miss computes) *)
Lemma gen_additive_get_project_sat_ok : forall b f I pre P p,
  gen_AdditiveSatisfaction_get_project_sat b f I pre P p = f I P b p pre.
Proof. first [ solve [py_open; reflexivity] | py_gen ]. Qed.

Lemma gen_additive_sat_project_ok : forall b f I pre P p,
  gen_AdditiveSatisfaction_sat_project b f I pre P p == f I P b p pre.
Proof. first [ solve [py_open; reflexivity] | py_gen ]. Qed.

Lemma gen_additive_sat_ok : forall b f I pre P W,
  gen_AdditiveSatisfaction_sat b f I pre P W == sat_add (fun p => f I P b p pre) W.
Proof. first [ solve [py_open; unfold sat_add, py_sum; reflexivity] | py_gen ]. Qed.

Lemma gen_functional_sat_ok : forall b f I P W, gen_FunctionalSatisfaction_sat b f I P W = f I P b W.
Proof. first [ solve [py_open; reflexivity] | py_gen ]. Qed.

Lemma gen_functional_sat_project_ok : forall b f I P p, gen_FunctionalSatisfaction_sat_project b f I P p == f I P b [p].
Proof. first [ solve [py_open; reflexivity] | py_gen ]. Qed.

Lemma gen_positional_sat_ok : forall agg b I pf P W,
  gen_PositionalSatisfaction_sat agg b I pf P W = agg (map (pf b) W).
Proof. first [ solve [py_open; reflexivity] | py_gen ]. Qed.

Lemma gen_positional_sat_project_ok : forall agg b I pf P p,
  gen_PositionalSatisfaction_sat_project agg b I pf P p == agg [pf b p].
Proof. first [ solve [py_open; reflexivity] | py_gen ]. Qed.

(* ---------- preprocessing: which normaliser, with which arguments ---------- *)
Ltac py_dict :=
  py_open; cbv zeta beta in *; unfold py_dict_of in *; cbn [fold_right fst snd] in *;
  repeat match goal with
  | H : context [if String.eqb ?a ?b then _ else _] |- _ => destruct (String.eqb a b)
  | H : Some _ = Some _ |- _ => injection H as H
  | H : None = Some _ |- _ => discriminate H
  end;
  subst; py_unfold.

Lemma gen_pre_additive_empty : forall I P b k, gen_AdditiveSatisfaction_preprocessing I P b k = None.
Proof. first [ solve [py_open; reflexivity] | solve [py_dict; reflexivity] ]. Qed.

Lemma gen_pre_rel_card_ok : forall I P b k v,
  gen_Relative_Cardinality_Sat_preprocessing I P b k = Some v -> v == Qnat (rel_card_norm I b).
Proof. first [ solve [py_dict; py_auto] | solve [py_dict; reflexivity] ]. Qed.

(* the normaliser of Relative_Cost_Sat is the solver's answer on (costs of the ballot, budget limit) *)
Lemma gen_pre_rel_cost_ok : forall orc I P b k v,
  gen_Relative_Cost_Sat_preprocessing orc I P b k = Some v ->
  v == mip_value (orc (bcosts I b) (budget I)) (bcosts I b).
Proof. first [ solve [py_dict; py_auto] | solve [py_dict; reflexivity] ]. Qed.

Lemma gen_pre_rel_cost_approx_ok : forall I P b k v,
  gen_Relative_Cost_Approx_Normaliser_Sat_preprocessing I P b k = Some v -> v == approx_norm I b.
Proof. first [ solve [py_dict; py_auto] | solve [py_dict; py_cases] ]. Qed.

(* Additive_Cardinal_Relative_Sat.preprocessing builds a MIP model: only the shape of its result is translated
   (one key, holding the opaque value) *)
Lemma gen_pre_add_card_rel_ok : forall N I P b k v,
  gen_Additive_Cardinal_Relative_Sat_preprocessing N I P b k = Some v -> v = N.
Proof. first [ solve [py_dict; py_auto] | solve [py_dict; reflexivity] ]. Qed.

(* ---------- the shipped classes: __init__ chain + base class + function + preprocessing = the model ---------- *)
Ltac py_class :=
  solve [ py_gen
        | py_open; unfold py_dict_of; cbn [fold_right fst snd String.eqb Ascii.eqb Bool.eqb]; py_auto ].

Lemma gen_Cardinality_Sat_project_ok : forall E p,
  gen_Cardinality_Sat_sat_project (eI E) (eP E) (eb E) p == sat_project Cardinality E p.
Proof. py_class. Qed.
Lemma gen_Cardinality_Sat_ok : forall E W, gen_Cardinality_Sat_sat (eI E) (eP E) (eb E) W == sat Cardinality E W.
Proof. py_class. Qed.

Lemma gen_Cost_Sat_project_ok : forall E p, gen_Cost_Sat_sat_project (eI E) (eP E) (eb E) p == sat_project Cost E p.
Proof. py_class. Qed.
Lemma gen_Cost_Sat_ok : forall E W, gen_Cost_Sat_sat (eI E) (eP E) (eb E) W == sat Cost E W.
Proof. py_class. Qed.

Lemma gen_Effort_Sat_project_ok : forall E p, gen_Effort_Sat_sat_project (eI E) (eP E) (eb E) p == sat_project Effort E p.
Proof. py_class. Qed.
Lemma gen_Effort_Sat_ok : forall E W, gen_Effort_Sat_sat (eI E) (eP E) (eb E) W == sat Effort E W.
Proof. py_class. Qed.

Lemma gen_Relative_Cardinality_Sat_project_ok : forall E p,
  gen_Relative_Cardinality_Sat_sat_project (eI E) (eP E) (eb E) p == sat_project RelCardinality E p.
Proof. py_class. Qed.
Lemma gen_Relative_Cardinality_Sat_ok : forall E W,
  gen_Relative_Cardinality_Sat_sat (eI E) (eP E) (eb E) W == sat RelCardinality E W.
Proof. py_class. Qed.

Lemma gen_Relative_Cost_Approx_project_ok : forall E p,
  gen_Relative_Cost_Approx_Normaliser_Sat_sat_project (eI E) (eP E) (eb E) p == sat_project RelCostApprox E p.
Proof. py_class. Qed.
Lemma gen_Relative_Cost_Approx_ok : forall E W,
  gen_Relative_Cost_Approx_Normaliser_Sat_sat (eI E) (eP E) (eb E) W == sat RelCostApprox E W.
Proof. py_class. Qed.

Lemma gen_Additive_Cardinal_Sat_project_ok : forall E p,
  gen_Additive_Cardinal_Sat_sat_project (eI E) (eP E) (eb E) p == sat_project AddCardinal E p.
Proof. py_class. Qed.
Lemma gen_Additive_Cardinal_Sat_ok : forall E W,
  gen_Additive_Cardinal_Sat_sat (eI E) (eP E) (eb E) W == sat AddCardinal E W.
Proof. py_class. Qed.

Lemma gen_Additive_Borda_Sat_project_ok : forall E p,
  gen_Additive_Borda_Sat_sat_project (eI E) (eP E) (eb E) p == sat_project Borda E p.
Proof. py_class. Qed.
Lemma gen_Additive_Borda_Sat_ok : forall E W, gen_Additive_Borda_Sat_sat (eI E) (eP E) (eb E) W == sat Borda E W.
Proof. py_class. Qed.

Lemma gen_CC_Sat_approval_project_ok : forall E p,
  gen_CC_Sat_approval_sat_project (eI E) (eP E) (eb E) p == sat_project CCApp E p.
Proof. py_class. Qed.
Lemma gen_CC_Sat_approval_ok : forall E W, gen_CC_Sat_approval_sat (eI E) (eP E) (eb E) W == sat CCApp E W.
Proof. py_class. Qed.

Lemma gen_CC_Sat_cardinal_project_ok : forall E p,
  gen_CC_Sat_cardinal_sat_project (eI E) (eP E) (eb E) p == sat_project CCCard E p.
Proof. py_class. Qed.
Lemma gen_CC_Sat_cardinal_ok : forall E W, gen_CC_Sat_cardinal_sat (eI E) (eP E) (eb E) W == sat CCCard E W.
Proof. py_class. Qed.

(* the two MIP-normalised measures: the solver is an oracle; [ex E] of the model is its answer to the call the
   source makes (costs of the ballot's projects, the budget limit) *)
Ltac py_class_orc H :=
  solve [ py_open; unfold rel_cost_norm, add_card_rel_norm in *; rewrite ?H; py_auto ].

Lemma gen_Relative_Cost_Sat_project_ok : forall orc E p,
  ex E = orc (bcosts (eI E) (eb E)) (budget (eI E)) ->
  gen_Relative_Cost_Sat_sat_project orc (eI E) (eP E) (eb E) p == sat_project RelCost E p.
Proof. intros orc E p H. py_class_orc H. Qed.
Lemma gen_Relative_Cost_Sat_ok : forall orc E W,
  ex E = orc (bcosts (eI E) (eb E)) (budget (eI E)) ->
  gen_Relative_Cost_Sat_sat orc (eI E) (eP E) (eb E) W == sat RelCost E W.
Proof. intros orc E W H. py_class_orc H. Qed.

(* the value the (untranslated) MIP preprocessing stores is used as the normaliser the way the model uses it *)
Lemma gen_Additive_Cardinal_Relative_Sat_project_ok : forall E p,
  gen_Additive_Cardinal_Relative_Sat_sat_project (add_card_rel_norm E) (eI E) (eP E) (eb E) p
  == sat_project AddCardinalRel E p.
Proof. py_class. Qed.
Lemma gen_Additive_Cardinal_Relative_Sat_ok : forall E W,
  gen_Additive_Cardinal_Relative_Sat_sat (add_card_rel_norm E) (eI E) (eP E) (eb E) W == sat AddCardinalRel E W.
Proof. py_class. Qed.

(* ---------- class wiring, including the numpy-float measures that are outside the statement ---------- *)
Lemma gen_wiring_ok : gen_wiring = shipped_wiring.
Proof. reflexivity. Qed.

(* nothing that this file is about fell out of the translated fragment *)
Lemma gen_sat_all_translated : gen_untranslated_sat = [].
Proof. reflexivity. Qed.
