(* Proofs/ContainersP.v -- C17: derived objects keep class and election attributes; constructors keep what they
   are given; validated profiles hold only admissible ballots. *)
From Coq Require Import List Arith Bool String ZArith Lia.
From PB Require Import Generated.Anchors Model.Containers.
Import ListNotations.
Local Open Scope string_scope.
Local Open Scope list_scope.
Local Open Scope nat_scope.

(* ------------------------------------------------------------------------------------------------------ *)
(* 1. what the API promises is re-wrapped (checked against the tables read from the source)              *)
(* ------------------------------------------------------------------------------------------------------ *)
Definition classes : list nat := seq 1 20.

(* a promised name is either served by the reduce protocol / the constructor, or is a method of the base type
   that returns a new container AND is re-wrapped, or is written out in the class *)
Definition name_ok (c : nat) (n : string) : bool :=
  smemb n reduce_names
  || match derives (base_of c) n with
     | Some true => rewrapped c n
     | Some false => explicit c n
     | None => explicit c n
     end.

Lemma promised_tables_ok :
  forallb (fun c => forallb (name_ok c) (promised_names c)) classes = true.
Proof. vm_compute. reflexivity. Qed.

Lemma smemb_In n l : smemb n l = true -> In n l.
Proof.
  unfold smemb. rewrite existsb_exists. intros (x & Hx & E). apply String.eqb_eq in E. subst. exact Hx.
Qed.

Lemma family_In c : family c = true -> In c classes.
Proof.
  unfold family, classes. rewrite andb_true_iff, !Nat.leb_le. intros [H1 H2]. apply in_seq. lia.
Qed.

Lemma promised_ok c n : family c = true -> promised c n = true -> name_ok c n = true.
Proof.
  intros Hc Hp. pose proof promised_tables_ok as H. rewrite forallb_forall in H.
  specialize (H c (family_In c Hc)). rewrite forallb_forall in H. apply H. apply smemb_In. exact Hp.
Qed.

(* ------------------------------------------------------------------------------------------------------ *)
(* 2. one operation                                                                                        *)
(* ------------------------------------------------------------------------------------------------------ *)
Definition same_ca (x y : obj) : Prop := o_cls x = o_cls y /\ o_attrs x = o_attrs y.

(* whatever an operation does, the object itself and every new object of its class keep class + attributes *)
Definition keeps (cur : obj) (o : op) (r : res) : Prop :=
  match r with
  | RRaise x | RSame x | RNone x => same_ca x cur
  | RNew x => same_ca x cur \/ (o = OAsMulti /\ o_cls x = o_cls cur + 4)
              \/ (exists b, o = OCtorVal b /\ o_cls x = o_cls cur)
              \/ (exists k, o = OAsSat k /\ (o_cls x = 18 \/ o_cls x = 19)
                            /\ nth 0 (o_attrs x) 0 = nth 0 (o_attrs cur) 0)
              \/ (exists t, o = OXCtor t /\ o_cls x = t /\ (is_ballot t = true -> o_attrs x = o_attrs cur))
              \/ (o = OFromPlain /\ o_cls x = o_cls cur)
  | RPlain => True
  end.

Lemma same_ca_refl x : same_ca x x.
Proof. split; reflexivity. Qed.
Lemma same_ca_wp cur p : same_ca (with_payload cur p) cur.
Proof. split; reflexivity. Qed.
Lemma same_ca_mk cur p : same_ca (mkObj (o_cls cur) (o_attrs cur) p) cur.
Proof. split; reflexivity. Qed.

Local Hint Resolve same_ca_refl same_ca_wp same_ca_mk : core.

Ltac brk :=
  repeat match goal with
         | |- context [let '(_, _) := ?x in _] => destruct x
         | |- context [if ?b then _ else _] => destruct b
         | |- context [match ?x with Some _ => _ | None => _ end] => destruct x
         end.

Lemma derive_keeps tags cur other o : keeps cur o (derive tags cur other o).
Proof. unfold derive. brk; simpl; auto. Qed.

Lemma step_keeps tags cur other o : keeps cur o (step tags cur other o).
Proof.
  destruct o; unfold step; try apply derive_keeps;
    try (brk; simpl; auto; try apply derive_keeps; fail).
  - (* OImul *) destruct (base_of (o_cls cur)); simpl; auto.
  - (* OReverse *) destruct (base_of (o_cls cur)); simpl; auto.
  - (* OCtorVal *) brk; simpl; auto; right; right; left; eexists; split; reflexivity.
  - (* OAsSat *) destruct (is_list_profile (o_cls cur)) eqn:El; simpl.
    + destruct k as [|[|k]]; [| |destruct (forallb _ (o_payload cur))]; simpl; auto;
        right; right; right; left; eexists; (split; [reflexivity|]); split; auto.
    + destruct (is_multi_profile (o_cls cur)); simpl; auto.
      destruct k as [|[|k]]; [| |destruct (forallb _ (o_payload cur))]; simpl; auto;
        right; right; right; left; eexists; (split; [reflexivity|]); split; auto.
  - (* OClear *) destruct (base_of (o_cls cur)); simpl; auto.
  - (* OPop *) destruct (is_list_profile (o_cls cur)); simpl; auto. destruct (rev (o_payload cur)); simpl; auto.
  - (* OXCtor *)
    destruct (is_ballot (o_cls cur) && is_ballot t) eqn:Eb.
    { destruct (dictlike t && negb (maplike (o_cls cur))); simpl; auto.
      right; right; right; right; left. exists t. repeat split. }
    assert (Hnb : is_ballot t = true -> False \/ is_ballot (o_cls cur) = false).
    { intros Ht. rewrite Ht, andb_true_r in Eb. right. exact Eb. }
    destruct (is_list_profile (o_cls cur) && Nat.eqb t (o_cls cur + 4)) eqn:E1.
    { destruct (o_payload cur); simpl; auto. right; right; right; right; left. exists t. repeat split.
      intros Ht. exfalso. apply andb_true_iff in E1. destruct E1 as [E1 E2]. apply Nat.eqb_eq in E2. subst t.
      unfold is_list_profile, is_ballot in *. apply andb_true_iff in E1, Ht. destruct E1 as [A B], Ht as [C D].
      apply Nat.leb_le in A, B, C, D. lia. }
    destruct (is_multi_profile (o_cls cur) && Nat.eqb (t + 4) (o_cls cur)) eqn:E2.
    { simpl. right; right; right; right; left. exists t. repeat split.
      intros Ht. exfalso. apply andb_true_iff in E2. destruct E2 as [E2 E3]. apply Nat.eqb_eq in E3.
      unfold is_multi_profile, is_ballot in *. apply andb_true_iff in E2, Ht. destruct E2 as [A B], Ht as [C D].
      apply Nat.leb_le in A, B, C, D. lia. }
    simpl; auto.
  - (* OFromPlain *) brk; simpl; auto; right; right; right; right; right; split; reflexivity.
Qed.

Lemma nl_eqb_eq l1 : forall l2, nl_eqb l1 l2 = true -> l1 = l2.
Proof.
  induction l1 as [|x r IH]; intros [|y r2]; simpl; try discriminate; auto.
  rewrite andb_true_iff, Nat.eqb_eq. intros [-> H]. f_equal. apply IH. exact H.
Qed.

Lemma ctorval_not_promised c b : promised c (opname (OCtorVal b)) = false.
Proof.
  unfold promised, promised_names.
  destruct (Nat.eqb c 18 || Nat.eqb c 19); destruct (base_of c); try (vm_compute; reflexivity);
    destruct (Nat.eqb c 5); vm_compute; reflexivity.
Qed.

Lemma xctor_not_promised c t : promised c (opname (OXCtor t)) = false.
Proof.
  unfold promised, promised_names.
  destruct (Nat.eqb c 18 || Nat.eqb c 19); destruct (base_of c); try (vm_compute; reflexivity);
    destruct (Nat.eqb c 5); vm_compute; reflexivity.
Qed.

Lemma fromplain_not_promised c : promised c (opname OFromPlain) = false.
Proof.
  unfold promised, promised_names.
  destruct (Nat.eqb c 18 || Nat.eqb c 19); destruct (base_of c); try (vm_compute; reflexivity);
    destruct (Nat.eqb c 5); vm_compute; reflexivity.
Qed.

Lemma assat_not_promised c k : promised c (opname (OAsSat k)) = false.
Proof.
  unfold promised, promised_names.
  destruct (Nat.eqb c 18 || Nat.eqb c 19); destruct (base_of c); try (vm_compute; reflexivity);
    destruct (Nat.eqb c 5); vm_compute; reflexivity.
Qed.

(* a promised operation never hands back a bare builtin *)
Lemma step_promised tags cur other o :
  family (o_cls cur) = true -> promised (o_cls cur) (opname o) = true ->
  step tags cur other o <> RPlain.
Proof.
  intros Hc Hp. pose proof (promised_ok _ _ Hc Hp) as Hok. unfold name_ok in Hok.
  assert (Hd : forall o', opname o' = opname o -> derive tags cur other o' <> RPlain).
  { intros o' Ho. unfold derive. rewrite Ho.
    destruct (smemb (opname o) reduce_names) eqn:Hr.
    - apply smemb_In in Hr. simpl in Hr.
      destruct Hr as [Hr|[Hr|[Hr|[Hr|[]]]]]; rewrite <- Hr; destruct (base_of (o_cls cur)); simpl; discriminate.
    - simpl in Hok.
      destruct (derives (base_of (o_cls cur)) (opname o)) as [[|]|]; rewrite ?Hok; brk; discriminate. }
  destruct o; unfold step; try discriminate; try (brk; discriminate);
    try (brk; try discriminate; apply (Hd _ eq_refl)).
  - (* OImul *) destruct (base_of (o_cls cur)); discriminate.
  - (* OReverse *) destruct (base_of (o_cls cur)); discriminate.
  - (* OAsSat *) destruct (is_list_profile (o_cls cur) || is_multi_profile (o_cls cur)); [|discriminate].
    destruct k as [|[|k]]; [| |destruct (forallb _ (o_payload cur))]; discriminate.
  - (* OClear *) destruct (base_of (o_cls cur)); discriminate.
  - (* OPop *) destruct (is_list_profile (o_cls cur)); [destruct (rev (o_payload cur))|]; discriminate.
Qed.

(* ------------------------------------------------------------------------------------------------------ *)
(* 3. op sequences of any length                                                                           *)
(* ------------------------------------------------------------------------------------------------------ *)
Lemma next_same tags cur other o : same_ca (next cur (step tags cur other o)) cur.
Proof.
  pose proof (step_keeps tags cur other o) as H. destruct (step tags cur other o) as [x|x|x|x|]; simpl in *; auto.
  destruct (Nat.eqb (o_cls x) (o_cls cur) && nl_eqb (o_attrs x) (o_attrs cur)) eqn:E; auto.
  apply andb_true_iff in E. destruct E as [E1 E2]. apply Nat.eqb_eq in E1. apply nl_eqb_eq in E2. split; assumption.
Qed.

Definition keeps0 (c0 : nat) (a0 : list nat) (o : op) (r : res) : Prop :=
  keeps (mkObj c0 a0 []) o r /\
  (family c0 = true -> promised c0 (opname o) = true ->
   r <> RPlain /\ forall x, r = RNew x -> o <> OAsMulti -> o_cls x = c0 /\ o_attrs x = a0).

Lemma keeps_transport cur c0 a0 o r : o_cls cur = c0 -> o_attrs cur = a0 -> keeps cur o r -> keeps (mkObj c0 a0 []) o r.
Proof.
  intros <- <- H. destruct r; simpl in *; auto; unfold same_ca in *; simpl; auto.
Qed.

Lemma ops_preserve_gen tags other ops : forall cur c0 a0,
  o_cls cur = c0 -> o_attrs cur = a0 ->
  Forall2 (keeps0 c0 a0) ops (run_ops tags cur other ops).
Proof.
  induction ops as [|o ops IH]; intros cur c0 a0 Hc Ha; simpl; constructor.
  - split.
    + apply (keeps_transport cur); auto. apply step_keeps.
    + intros Hf Hp. split.
      * apply step_promised; rewrite Hc; assumption.
      * intros x Hx Hno. pose proof (step_keeps tags cur other o) as H. rewrite Hx in H. simpl in H.
        destruct H as [[H1 H2]|[[H1 _]|[[b [H1 _]]|[[k [H1 _]]|[[t [H1 _]]|[H1 _]]]]]]; [|contradiction| | | |].
        -- rewrite H1, H2. auto.
        -- subst o. rewrite ctorval_not_promised in Hp. discriminate.
        -- subst o. rewrite assat_not_promised in Hp. discriminate.
        -- subst o. rewrite xctor_not_promised in Hp. discriminate.
        -- subst o. rewrite fromplain_not_promised in Hp. discriminate.
  - apply IH; destruct (next_same tags cur other o) as [H1 H2]; congruence.
Qed.

(* ------------------------------------------------------------------------------------------------------ *)
(* 4. ballot constructors: the order of the __init__ chain                                                  *)
(* ------------------------------------------------------------------------------------------------------ *)
(* an initialiser of the chain assigns name and meta *)
Definition battrs := (nat * nat)%type.                       (* name id, meta id; 0 = default *)
Inductive init_call := AbstractInit | BallotInit (name meta : nat).
Definition run_init (st : battrs) (i : init_call) : battrs :=
  match i with
  | AbstractInit => (0, 0)                 (* AbstractBallot.__init__(self): name = "", meta = dict() *)
  | BallotInit n m => (n, m)               (* Ballot.__init__ / FrozenBallot.__init__(self, name, meta) *)
  end.
(* resolution of the constructor arguments: None -> taken from init if it is a ballot, else the default *)
Definition resolve (given : option nat) (from : option battrs) (sel : battrs -> nat) : nat :=
  match given, from with
  | Some v, _ => v
  | None, Some b => sel b
  | None, None => 0
  end.
(* the repaired constructors (all eight classes): AbstractXBallot.__init__(self) first, then Ballot.__init__ *)
Definition ctor_fixed (name meta : option nat) (from : option battrs) : battrs :=
  fold_left run_init [AbstractInit; BallotInit (resolve name from fst) (resolve meta from snd)] (0, 0).
(* before the repair: Ballot.__init__(name, meta) first, the abstract initialiser last *)
Definition ctor_old (name meta : option nat) (from : option battrs) : battrs :=
  fold_left run_init [BallotInit (resolve name from fst) (resolve meta from snd); AbstractInit] (0, 0).

Lemma ctor_keeps_name_meta name meta from :
  ctor_fixed (Some name) (Some meta) from = (name, meta)
  /\ (forall b, ctor_fixed None None (Some b) = b)
  /\ ctor_fixed None None None = (0, 0).
Proof. split; [reflexivity|]. split; [intros [n m]; reflexivity|reflexivity]. Qed.

Lemma ctor_old_refuted : exists name meta, ctor_old (Some name) (Some meta) None <> (name, meta).
Proof. exists 1, 1. vm_compute. discriminate. Qed.

(* ------------------------------------------------------------------------------------------------------ *)
(* 5. validated list profiles: no reachable state holds an inadmissible ballot                              *)
(* ------------------------------------------------------------------------------------------------------ *)
Section Validated.
  Variable tags : list nat.

  Definition admissible (c : nat) (a : list nat) (p : payload) : Prop :=
    validation_on a = true -> forall ec, In ec p -> accepts c (btype a) (tag tags (fst ec)) = true.
  Definition pay_ok (x : obj) : Prop := admissible (o_cls x) (o_attrs x) (o_payload x).

  Lemma all_valid_adm c a p : all_valid tags c a p = true -> admissible c a p.
  Proof.
    unfold all_valid, admissible, valid. rewrite forallb_forall. intros H Hv ec Hin.
    specialize (H ec Hin). rewrite Hv in H. simpl in H. exact H.
  Qed.

  Lemma valid_adm c a e : valid tags c a e = true -> validation_on a = true -> accepts c (btype a) (tag tags e) = true.
  Proof. unfold valid. intros H Hv. rewrite Hv in H. simpl in H. exact H. Qed.

  Lemma adm_app c a p q : admissible c a p -> admissible c a q -> admissible c a (p ++ q).
  Proof. intros H1 H2 Hv ec Hin. apply in_app_or in Hin. destruct Hin; [apply H1|apply H2]; auto. Qed.

  Lemma adm_incl c a p q : incl q p -> admissible c a p -> admissible c a q.
  Proof. intros Hi H Hv ec Hin. apply H; auto. Qed.

  Lemma incl_rep n p : incl (rep n p) p.
  Proof.
    induction n as [|n IH]; simpl; intros x Hx; [destruct Hx|].
    apply in_app_or in Hx. destruct Hx; auto.
  Qed.

  Lemma incl_firstn {A} n (l : list A) : incl (firstn n l) l.
  Proof.
    revert l. induction n as [|n IH]; intros [|x l]; simpl; intros y Hy; try destruct Hy; auto.
    - subst. left. reflexivity.
    - right. apply IH. assumption.
  Qed.

  Lemma incl_skipn {A} n (l : list A) : incl (skipn n l) l.
  Proof.
    revert l. induction n as [|n IH]; intros [|x l]; simpl; intros y Hy; auto. right. apply IH. exact Hy.
  Qed.

  Lemma adm_set_nth c a i x p :
    admissible c a p -> (validation_on a = true -> accepts c (btype a) (tag tags (fst x)) = true) ->
    admissible c a (set_nth i x p).
  Proof.
    intros Hp Hx Hv. revert i. induction p as [|y r IH]; intros i ec Hin; simpl in Hin; [destruct i; destruct Hin|].
    destruct i as [|i]; simpl in Hin.
    - destruct Hin as [<-|Hin]; [apply Hx; exact Hv|apply Hp; [exact Hv|right; exact Hin]].
    - destruct Hin as [<-|Hin]; [apply Hp; [exact Hv|left; reflexivity]|].
      apply (IH (fun Hv' ec' H' => Hp Hv' ec' (or_intror H')) i ec Hin).
  Qed.

  Ltac fin Hok := intros [H|[H|[H|H]]]; inversion H; subst; simpl; try exact Hok.

  Lemma adm_nil c a : admissible c a [].
  Proof. intros _ ec []. Qed.

  (* a deriving operation hands back either nothing new or an object whose payload passed the constructor's check *)
  Lemma derive_pay_ok cur other o' : pay_ok cur ->
    forall y, (derive tags cur other o' = RRaise y \/ derive tags cur other o' = RSame y \/
               derive tags cur other o' = RNone y \/ derive tags cur other o' = RNew y) -> pay_ok y.
  Proof.
    intros Hok y. unfold pay_ok in *. unfold derive.
    destruct (derives (base_of (o_cls cur)) (opname o')) as [[|]|].
    - destruct (rewrapped (o_cls cur) (opname o')).
      + destruct (all_valid tags (o_cls cur) (o_attrs cur) _) eqn:E.
        * intros [H|[H|[H|H]]]; inversion H; subst; simpl. apply all_valid_adm. exact E.
        * fin Hok.
      + intros [H|[H|[H|H]]]; discriminate.
    - destruct (explicit (o_cls cur) (opname o')).
      + fin Hok. apply adm_nil.
      + intros [H|[H|[H|H]]]; discriminate.
    - fin Hok.
  Qed.

  (* the operations that are not specific to list or Counter payloads *)
  Lemma common_step_ok cur other o :
    pay_ok cur ->
    match o with
    | OCopy | OCCopy | ODeepcopy | OPickle | OCtor | OBin _ _ | ORefl _ | OUpd _ _ | OMul _ | ORmul _ | OSlice _ _
    | OReversed | OReverse | OCtorVal _ | OInstMut _ | OAsSat _ | OMutate _ | OClear | ORemoveSat | OXCtor _
    | OFromPlain => True
    | _ => False
    end ->
    forall x, (step tags cur other o = RRaise x \/ step tags cur other o = RSame x
               \/ step tags cur other o = RNone x \/ step tags cur other o = RNew x) -> pay_ok x.
  Proof.
    intros Hok Ho x. pose proof (derive_pay_ok cur other) as Hder. specialize (fun o' => Hder o' Hok x).
    unfold pay_ok in *.
    destruct o; try contradiction; unfold step; simpl; try (fin Hok; fail); try (apply Hder; fail).
    - (* OBin *) destruct (String.eqb name "__add__" && Nat.eqb (o_cls cur) 5); [fin Hok; apply adm_nil|apply Hder].
    - (* ORefl *) destruct (String.eqb name "__add__" && Nat.eqb (o_cls cur) 5); [fin Hok; apply adm_nil|apply Hder].
    - (* OUpd *) destruct (_ && _); fin Hok.
    - (* OReverse *) destruct (base_of (o_cls cur)); fin Hok.
      eapply adm_incl; [|exact Hok]. intros y Hy. apply in_rev. exact Hy.
    - (* OCtorVal *) destruct (is_list_profile (o_cls cur) || is_multi_profile (o_cls cur)); [|fin Hok].
      destruct (all_valid tags (o_cls cur) _ (o_payload cur)) eqn:E; fin Hok. apply all_valid_adm. exact E.
    - (* OAsSat *) destruct (is_list_profile (o_cls cur) || is_multi_profile (o_cls cur)); [|fin Hok].
      destruct k as [|[|k]]; [| |destruct (forallb _ (o_payload cur))]; fin Hok; apply adm_nil.
    - (* OMutate *) destruct (is_list_profile (o_cls cur) || is_multi_profile (o_cls cur)); [fin Hok|].
      destruct (smemb name _); fin Hok.
    - (* OClear *) destruct (base_of (o_cls cur)); fin Hok; apply adm_nil.
    - (* ORemoveSat *) destruct (Nat.eqb (o_cls cur) 18 || Nat.eqb (o_cls cur) 19); fin Hok. apply adm_nil.
    - (* OXCtor *)
      destruct (is_ballot (o_cls cur) && is_ballot t); [destruct (dictlike t && negb (maplike (o_cls cur))); fin Hok; apply adm_nil|].
      destruct (is_list_profile (o_cls cur) && Nat.eqb t (o_cls cur + 4));
        [destruct (o_payload cur) eqn:Ep; fin Hok; [apply adm_nil|rewrite Ep; exact Hok]|].
      destruct (is_multi_profile (o_cls cur) && Nat.eqb (t + 4) (o_cls cur)); fin Hok; apply adm_nil.
    - (* OFromPlain *)
      destruct (is_list_profile (o_cls cur) || is_multi_profile (o_cls cur)); [|fin Hok; apply adm_nil].
      destruct (all_valid tags (o_cls cur) _ (o_payload cur)) eqn:E; simpl; [|fin Hok].
      destruct (forallb _ (o_payload cur)); fin Hok. apply all_valid_adm. exact E.
  Qed.

  (* every mutator and every deriving operation of a LIST profile leaves an admissible payload *)
  Lemma list_profile_step_ok cur other o :
    is_list_profile (o_cls cur) = true -> pay_ok cur ->
    (forall x,
      (step tags cur other o = RRaise x \/ step tags cur other o = RSame x \/ step tags cur other o = RNone x
       \/ step tags cur other o = RNew x) -> pay_ok x).
  Proof.
    intros Hl Hok x.
    assert (Hm : is_multi_profile (o_cls cur) = false).
    { unfold is_list_profile, is_multi_profile in *. apply andb_true_iff in Hl. destruct Hl as [H1 H2].
      apply Nat.leb_le in H1, H2. apply andb_false_iff. left. apply Nat.leb_gt. lia. }
    destruct o;
      try (match goal with |- context [step tags cur other ?o'] => apply (common_step_ok cur other o' Hok I x) end; fail);
      unfold pay_ok in *; unfold step; rewrite ?Hl, ?Hm; simpl; try (fin Hok; fail).
    - (* OIBin *) destruct (negb (smemb name (inplace_names (base_of (o_cls cur))))); [fin Hok|].
      destruct (all_valid tags (o_cls cur) (o_attrs cur) (o_payload other)) eqn:E; fin Hok.
      apply adm_app; [exact Hok|apply all_valid_adm; exact E].
    - (* OImul *) destruct (base_of (o_cls cur)); fin Hok. eapply adm_incl; [apply incl_rep|exact Hok].
    - (* OAppend *) destruct (valid tags (o_cls cur) (o_attrs cur) e) eqn:E; fin Hok.
      apply adm_app; [exact Hok|]. intros Hv ec [<-|[]]. simpl. apply valid_adm; assumption.
    - (* OInsert *) destruct (valid tags (o_cls cur) (o_attrs cur) e) eqn:E; fin Hok.
      unfold insert_at. apply adm_app; [eapply adm_incl; [apply incl_firstn|exact Hok]|].
      intros Hv ec [<-|Hin]; [simpl; apply valid_adm; assumption|].
      apply Hok; [exact Hv|]. eapply incl_skipn. exact Hin.
    - (* OExtend *) destruct (all_valid tags (o_cls cur) (o_attrs cur) (ones es)) eqn:E; fin Hok.
      apply adm_app; [exact Hok|apply all_valid_adm; exact E].
    - (* OIaddEls *) destruct (all_valid tags (o_cls cur) (o_attrs cur) (ones es)) eqn:E; fin Hok.
      apply adm_app; [exact Hok|apply all_valid_adm; exact E].
    - (* OSetitem *) destruct (valid tags (o_cls cur) (o_attrs cur) e) eqn:E; simpl;
        [destruct (i <? List.length (o_payload cur))|]; fin Hok.
      apply adm_set_nth; [exact Hok|]. simpl. intros Hv. apply valid_adm; assumption.
    - (* OSetslice *) destruct (negb (validation_on (o_attrs cur))) eqn:E; fin Hok.
      intros Hv. apply negb_true_iff in E. congruence.
    - (* OAsMulti *) destruct (forallb _ (o_payload cur)); fin Hok. apply adm_nil.
    - (* OPop *) destruct (rev (o_payload cur)) as [|y r] eqn:E; fin Hok.
      eapply adm_incl; [|exact Hok]. intros z Hz. apply in_rev in Hz.
      apply in_rev. rewrite E. right. exact Hz.
  Qed.

  (* ---- Counter payloads ---------------------------------------------------------------------------- *)
  Definition keysP (P : nat -> Prop) (p : payload) : Prop := forall ec, In ec p -> P (fst ec).

  Lemma keysP_cset (P : nat -> Prop) e k p : keysP P p -> P e -> keysP P (cset e k p).
  Proof.
    induction p as [|[e' c'] r IH]; simpl; intros Hp He ec Hin.
    - destruct Hin as [<-|[]]. exact He.
    - destruct (Nat.eqb e e').
      + destruct Hin as [<-|Hin]; [exact He|apply Hp; right; exact Hin].
      + destruct (e <? e').
        * destruct Hin as [<-|Hin]; [exact He|apply Hp; exact Hin].
        * destruct Hin as [<-|Hin]; [apply (Hp (e', c')); left; reflexivity|].
          apply (IH (fun x Hx => Hp x (or_intror Hx)) He ec Hin).
  Qed.

  Lemma keysP_filter (P : nat -> Prop) f p : keysP P p -> keysP P (filter f p).
  Proof. intros Hp ec Hin. apply filter_In in Hin. apply Hp. tauto. Qed.

  Lemma keysP_map_snd (P : nat -> Prop) (g : nat * Z -> Z) p : keysP P p -> keysP P (map (fun ec => (fst ec, g ec)) p).
  Proof. intros Hp ec Hin. apply in_map_iff in Hin. destruct Hin as (x & <- & Hx). simpl. apply Hp. exact Hx. Qed.

  Lemma keysP_fold_cset (P : nat -> Prop) (g : payload -> nat * Z -> Z) (ecs : list (nat * Z)) : forall p : payload,
    (forall ec, In ec ecs -> P (fst ec)) -> keysP P p ->
    keysP P (fold_left (fun acc ec => cset (fst ec) (g acc ec) acc) ecs p).
  Proof.
    induction ecs as [|ec r IH]; simpl; intros p He Hp; [exact Hp|].
    apply IH; [intros x Hx; apply He; right; exact Hx|]. apply keysP_cset; [exact Hp|apply He; left; reflexivity].
  Qed.

  Lemma keysP_mp_seq (P : nat -> Prop) c a f :
    (forall e n acc, keysP P acc -> P e -> keysP P (f e n acc)) ->
    (forall e, valid tags c a e = true -> P e) ->
    forall ecs p, keysP P p -> keysP P (snd (mp_seq tags c a f ecs p)).
  Proof.
    intros Hf Hv. induction ecs as [|[e n] r IH]; simpl; intros p Hp; [exact Hp|].
    destruct (hashable (tag tags e) && valid tags c a e) eqn:E; simpl; [|exact Hp].
    apply IH. apply Hf; [exact Hp|]. apply Hv. apply andb_true_iff in E. tauto.
  Qed.

  Lemma adm_keysP c a p : admissible c a p <->
    (validation_on a = true -> keysP (fun e => accepts c (btype a) (tag tags e) = true) p).
  Proof. unfold admissible, keysP. tauto. Qed.

  (* every mutator and every deriving operation of a MULTIPROFILE leaves an admissible payload *)
  Lemma multi_profile_step_ok cur other o :
    is_multi_profile (o_cls cur) = true -> pay_ok cur ->
    (forall x,
      (step tags cur other o = RRaise x \/ step tags cur other o = RSame x \/ step tags cur other o = RNone x
       \/ step tags cur other o = RNew x) -> pay_ok x).
  Proof.
    intros Hm Hok x.
    assert (Hl : is_list_profile (o_cls cur) = false).
    { unfold is_list_profile, is_multi_profile in *. apply andb_true_iff in Hm. destruct Hm as [H1 H2].
      apply Nat.leb_le in H1, H2. apply andb_false_iff. right. apply Nat.leb_gt. lia. }
    destruct o;
      try (match goal with |- context [step tags cur other ?o'] => apply (common_step_ok cur other o' Hok I x) end; fail);
      unfold pay_ok in *; unfold step; rewrite ?Hl, ?Hm; simpl; try (fin Hok; fail).
    - (* OIBin *)
      destruct (negb (smemb name (inplace_names (base_of (o_cls cur))))); [fin Hok|].
      assert (Hseq : forall f ecs,
                (forall (P : nat -> Prop) e n acc, keysP P acc -> P e -> keysP P (f e n acc)) ->
                admissible (o_cls cur) (o_attrs cur) (snd (mp_seq tags (o_cls cur) (o_attrs cur) f ecs (o_payload cur)))).
      { intros f ecs Hf. apply adm_keysP. intros Hv. apply keysP_mp_seq.
        - apply Hf.
        - intros e He. apply valid_adm; assumption.
        - apply adm_keysP; assumption. }
      assert (Hkp : forall p, admissible (o_cls cur) (o_attrs cur) p ->
                              admissible (o_cls cur) (o_attrs cur) (keep_positive p)).
      { intros p Hp. apply adm_keysP. intros Hv. apply keysP_filter. apply adm_keysP; assumption. }
      destruct (String.eqb name "__iadd__").
      { match goal with |- context [mp_seq ?t ?c ?a ?f ?q ?p] =>
          pose proof (Hseq f q (fun P e n acc Ha He => keysP_cset P e _ acc Ha He)) as Hs;
          destruct (mp_seq t c a f q p) as [ok p'] end.
        simpl in Hs. destruct ok; fin Hok; auto. }
      destruct (String.eqb name "__isub__").
      { match goal with |- context [mp_seq ?t ?c ?a ?f ?q ?p] =>
          pose proof (Hseq f q (fun P e n acc Ha He => keysP_cset P e _ acc Ha He)) as Hs;
          destruct (mp_seq t c a f q p) as [ok p'] end.
        simpl in Hs. destruct ok; fin Hok; auto. }
      destruct (String.eqb name "__ior__").
      { match goal with |- context [mp_seq ?t ?c ?a ?f ?q ?p] =>
          assert (Hs : admissible (o_cls cur) (o_attrs cur) (snd (mp_seq t c a f q p)));
          [apply Hseq; intros P e n acc Ha He; simpl; destruct (cget e acc <? n)%Z; [apply keysP_cset; assumption|exact Ha]|];
          destruct (mp_seq t c a f q p) as [ok p'] end.
        simpl in Hs. destruct ok; fin Hok; auto. }
      fin Hok. unfold c_and. apply Hkp. apply adm_keysP. intros Hv. apply keysP_map_snd. apply adm_keysP; assumption.
    - (* OImul *) destruct (base_of (o_cls cur)); fin Hok. apply adm_nil.
    - (* OAppend *) destruct (hashable (tag tags e) && valid tags (o_cls cur) (o_attrs cur) e) eqn:E; fin Hok.
      apply andb_true_iff in E. destruct E as [_ E].
      apply adm_keysP. intros Hv. apply keysP_cset; [apply adm_keysP; assumption|apply valid_adm; assumption].
    - (* OExtend *)
      match goal with |- context [mp_seq ?t ?c ?a ?f ?q ?p] =>
        assert (Hs : admissible (o_cls cur) (o_attrs cur) (snd (mp_seq t c a f q p)));
        [apply adm_keysP; intros Hv; apply keysP_mp_seq;
           [intros e n acc Ha He; apply keysP_cset; assumption
           |intros e He; apply valid_adm; assumption|apply adm_keysP; assumption]|];
        destruct (mp_seq t c a f q p) as [ok p'] end.
      simpl in Hs. destruct ok; fin Hok; auto.
    - (* OMpSetitem *) destruct (hashable (tag tags e) && valid tags (o_cls cur) (o_attrs cur) e) eqn:E; fin Hok.
      apply andb_true_iff in E. destruct E as [_ E].
      apply adm_keysP. intros Hv. apply keysP_cset; [apply adm_keysP; assumption|apply valid_adm; assumption].
    - (* OSetdefault *) destruct (hashable (tag tags e) && valid tags (o_cls cur) (o_attrs cur) e) eqn:E; fin Hok.
      apply andb_true_iff in E. destruct E as [_ E]. destruct (existsb _ (o_payload cur)); [exact Hok|].
      apply adm_keysP. intros Hv. apply keysP_cset; [apply adm_keysP; assumption|apply valid_adm; assumption].
    - (* OUpdateIter *)
      match goal with |- context [mp_seq ?t ?c ?a ?f ?q ?p] =>
        assert (Hs : admissible (o_cls cur) (o_attrs cur) (snd (mp_seq t c a f q p)));
        [apply adm_keysP; intros Hv; apply keysP_mp_seq;
           [intros e n acc Ha He; apply keysP_cset; assumption
           |intros e He; apply valid_adm; assumption|apply adm_keysP; assumption]|];
        destruct (mp_seq t c a f q p) as [ok p'] end.
      simpl in Hs. destruct ok; fin Hok; auto.
    - (* OUpdateMap *) destruct (forallb _ ecs) eqn:E; fin Hok.
      rewrite forallb_forall in E. apply adm_keysP. intros Hv.
      apply (keysP_fold_cset _ (fun acc ec => (cget (fst ec) acc + snd ec)%Z)).
      + intros ec Hin. specialize (E ec Hin). apply andb_true_iff in E. destruct E as [_ E]. apply valid_adm; assumption.
      + apply adm_keysP; assumption.
  Qed.

  Lemma ctorval_spec cur other b x :
    step tags cur other (OCtorVal b) = RNew x ->
    o_cls x = o_cls cur /\ o_payload x = o_payload cur
    /\ o_attrs x = firstn 1 (o_attrs cur) ++ (if b then 0 else 1) :: skipn 2 (o_attrs cur)
    /\ (validation_on (o_attrs x) = true ->
        forall ec, In ec (o_payload x) -> accepts (o_cls x) (btype (o_attrs x)) (tag tags (fst ec)) = true).
  Proof.
    unfold step. destruct (is_list_profile (o_cls cur) || is_multi_profile (o_cls cur)); [|discriminate].
    destruct (all_valid tags (o_cls cur) _ (o_payload cur)) eqn:E; [|discriminate].
    intros H. inversion H; subst; simpl. repeat split. apply all_valid_adm. exact E.
  Qed.

  Definition res_ok (r : res) : Prop :=
    match r with RRaise x | RSame x | RNone x | RNew x => pay_ok x | RPlain => True end.

  Definition is_profile (c : nat) : bool := is_list_profile c || is_multi_profile c.

  Lemma profile_step_ok cur other o :
    is_profile (o_cls cur) = true -> pay_ok cur ->
    (forall x,
      (step tags cur other o = RRaise x \/ step tags cur other o = RSame x \/ step tags cur other o = RNone x
       \/ step tags cur other o = RNew x) -> pay_ok x).
  Proof.
    unfold is_profile. intros Hp. apply orb_true_iff in Hp.
    destruct Hp; [apply list_profile_step_ok|apply multi_profile_step_ok]; assumption.
  Qed.

  (* list profiles AND multiprofiles: every sequence of operations, of any length *)
  Lemma profile_run_ok other ops : forall cur,
    is_profile (o_cls cur) = true -> pay_ok cur -> Forall res_ok (run_ops tags cur other ops).
  Proof.
    induction ops as [|o ops IH]; intros cur Hl Hok; simpl; constructor.
    - destruct (step tags cur other o) eqn:E; simpl; auto;
        eapply (profile_step_ok cur other o Hl Hok); rewrite E; auto.
    - apply IH.
      + destruct (next_same tags cur other o) as [H1 _]. rewrite H1. exact Hl.
      + destruct (step tags cur other o) eqn:E; simpl; auto;
          try (eapply (profile_step_ok cur other o Hl Hok); rewrite E; auto; fail).
        destruct (Nat.eqb (o_cls o0) (o_cls cur) && nl_eqb (o_attrs o0) (o_attrs cur)); [|exact Hok].
        eapply (profile_step_ok cur other o Hl Hok); rewrite E; auto.
  Qed.
End Validated.
