(* Proofs/MesWf.v -- well-formedness invariants of a run of the Equal Shares model and their
   consequences for one evaluation of a project (link between Model/MesRule.v's [eval_rho] and the
   sweep theorems of Proofs/MesSweep.v). *)
From PB Require Export Proofs.MesLazy.
Open Scope Q_scope.

(* ---------- insertion sort is sorted when the order is total/transitive ON the elements ---------- *)
Section SortOn.
Variable A : Type.
Variable leb : A -> A -> bool.
Variable D : A -> Prop.
Hypothesis tot : forall x y, D x -> D y -> leb x y = true \/ leb y x = true.
Hypothesis trans : forall x y z, D x -> D y -> D z -> leb x y = true -> leb y z = true -> leb x z = true.

Lemma insert_sorted_on x l :
  D x -> Forall D l -> StronglySorted (fun a b => leb a b = true) l ->
  StronglySorted (fun a b => leb a b = true) (insert leb x l).
Proof.
  intros Dx Dl Hs. induction Hs as [|y t Hs IH Hall]; simpl.
  - constructor; constructor.
  - inversion Dl as [|? ? Dy Dt]; subst.
    destruct (leb x y) eqn:E.
    + constructor; [constructor; assumption|].
      constructor; [exact E|].
      rewrite Forall_forall in *. intros z Hz. apply (trans x y z); auto.
    + constructor; [apply IH; exact Dt|].
      assert (Hyx : leb y x = true) by (destruct (tot x y Dx Dy); congruence).
      rewrite Forall_forall in *. intros z Hz.
      eapply Permutation_in in Hz; [|symmetry; apply insert_perm].
      destruct Hz as [<-|Hz]; [exact Hyx|apply Hall; exact Hz].
Qed.

Lemma insert_D x l : D x -> Forall D l -> Forall D (insert leb x l).
Proof.
  intros Dx Dl. rewrite Forall_forall in *. intros z Hz.
  eapply Permutation_in in Hz; [|symmetry; apply insert_perm].
  destruct Hz as [<-|Hz]; auto.
Qed.

Lemma isort_sorted_on l :
  Forall D l -> StronglySorted (fun a b => leb a b = true) (isort leb l).
Proof.
  induction 1 as [|x t Dx Dt IH]; simpl; [constructor|].
  apply insert_sorted_on; [exact Dx| |exact IH].
  rewrite Forall_forall in *. intros z Hz. apply Dt. apply (isort_In leb t z). exact Hz.
Qed.
End SortOn.

Lemma StronglySorted_map {A B} (f : A -> B) (R : A -> A -> Prop) (S : B -> B -> Prop) l :
  (forall x y, In x l -> In y l -> R x y -> S (f x) (f y)) ->
  StronglySorted R l -> StronglySorted S (map f l).
Proof.
  intros H Hs. induction Hs as [|x t Hs IH Hall]; simpl; [constructor|].
  constructor.
  - apply IH. intros a b Ha Hb. apply H; right; assumption.
  - rewrite Forall_forall in *. intros z Hz. apply in_map_iff in Hz. destruct Hz as [y [<- Hy]].
    apply H; [left; reflexivity|right; exact Hy|apply Hall; exact Hy].
Qed.

(* ---------- well-formed voters, budgets, projects ---------- *)

Definition wf_voters (P : list vcls) : Prop := Forall (fun v => (1 <= vmul v)%nat) P.
Definition wf_buds (P : list vcls) (buds : list Q) : Prop :=
  length buds = length P /\ Forall (fun b => 0 <= b) buds.

Definition wf_mp (P : list vcls) (costs : list Q) (mp : mproj) : Prop :=
  Permutation (mp_sup mp) (supporters P (mp_id mp)) /\
  mp_tsat mp == total_sat P (mp_id mp) (supporters P (mp_id mp)) /\
  mp_cost mp = nth (mp_id mp) costs 0 /\ 0 < mp_cost mp /\
  (forall u, mp_usat mp = Some u -> forall i, In i (supporters P (mp_id mp)) -> vutil P i (mp_id mp) == u).

Lemma supporters_spec P p i : In i (supporters P p) <-> (i < length P)%nat /\ 0 < vutil P i p.
Proof.
  unfold supporters. rewrite filter_In, in_seq, Qltb_iff. split; intros [H1 H2]; split; auto; lia.
Qed.

Lemma vbud_nonneg P buds i : wf_buds P buds -> 0 <= vbud buds i.
Proof.
  intros [_ H]. unfold vbud. destruct (Nat.lt_ge_cases i (length buds)) as [Hl|Hl].
  - rewrite Forall_forall in H. apply H. apply nth_In. exact Hl.
  - rewrite nth_overflow by exact Hl. lra.
Qed.

Lemma Qnat_pos n : (1 <= n)%nat -> 0 < Qnat n.
Proof. intro H. unfold Qnat, Qlt. simpl. lia. Qed.

Lemma vmulQ_pos P i : wf_voters P -> (i < length P)%nat -> 0 < vmulQ P i.
Proof.
  intros H Hi. unfold vmulQ. apply Qnat_pos. unfold wf_voters in H. rewrite Forall_forall in H.
  apply H. apply nth_In. exact Hi.
Qed.

Lemma supporters_sat_eq P costs mp i :
  wf_mp P costs mp -> In i (supporters P (mp_id mp)) -> supporters_sat P mp i == vutil P i (mp_id mp).
Proof.
  intros [_ [_ [_ [_ Hu]]]] Hin. unfold supporters_sat. destruct (mp_usat mp) as [u|] eqn:E; [|reflexivity].
  symmetry. apply (Hu u eq_refl i Hin).
Qed.

Lemma in_sup_supporters P costs mp i : wf_mp P costs mp -> In i (mp_sup mp) <-> In i (supporters P (mp_id mp)).
Proof.
  intros [HP _]. split; intro H; [eapply Permutation_in; [exact HP|exact H]|
                                   eapply Permutation_in; [symmetry; exact HP|exact H]].
Qed.

(* the records the sweep sees are well formed *)
Lemma sup_of_wfs P costs buds mp i :
  wf_voters P -> wf_buds P buds -> wf_mp P costs mp -> In i (mp_sup mp) -> wfs (sup_of P buds mp i).
Proof.
  intros Hv Hb Hw Hin. apply (in_sup_supporters P costs mp i Hw) in Hin.
  pose proof (supporters_sat_eq P costs mp i Hw Hin) as Heq.
  apply supporters_spec in Hin. destruct Hin as [Hi Hu].
  unfold wfs, sup_of. simpl. repeat split.
  - apply (vbud_nonneg P); exact Hb.
  - rewrite Heq. exact Hu.
  - apply vmulQ_pos; assumption.
Qed.

Lemma perm_Forall {A} (Q0 : A -> Prop) l l' : Permutation l l' -> Forall Q0 l -> Forall Q0 l'.
Proof.
  intros HP H. rewrite Forall_forall in *. intros x Hx. apply H.
  eapply Permutation_in; [symmetry; exact HP|exact Hx].
Qed.

Lemma sorted_sup_perm P buds mp : Permutation (mp_sup mp) (sorted_sup P buds mp).
Proof. unfold sorted_sup. apply isort_perm. Qed.

(* sorting on budget/own utility sorts the sweep records by [kle] *)
Lemma sorted_sup_kle P costs buds mp :
  wf_voters P -> wf_buds P buds -> wf_mp P costs mp ->
  StronglySorted kle (map (sup_of P buds mp) (sorted_sup P buds mp)).
Proof.
  intros Hv Hb Hw.
  set (p := mp_id mp).
  set (D := fun i => In i (supporters P p)).
  assert (HD : Forall D (mp_sup mp)).
  { rewrite Forall_forall. intros i Hi. apply (in_sup_supporters P costs mp i Hw). exact Hi. }
  assert (Hsorted : StronglySorted (fun a b => sup_leb P buds p a b = true) (sorted_sup P buds mp)).
  { unfold sorted_sup. apply (isort_sorted_on nat (sup_leb P buds p) D).
    - intros x y Dx Dy. unfold sup_leb.
      destruct (Qleb (vbud buds x * vutil P y p) (vbud buds y * vutil P x p)) eqn:E; [left; reflexivity|].
      right. apply Qleb_false_iff in E. apply Qleb_iff. lra.
    - intros x y z Dx Dy Dz. unfold sup_leb. rewrite !Qleb_iff.
      apply supporters_spec in Dx. apply supporters_spec in Dy. apply supporters_spec in Dz.
      destruct Dx as [_ Ux]. destruct Dy as [_ Uy]. destruct Dz as [_ Uz].
      pose proof (vbud_nonneg P buds x Hb). pose proof (vbud_nonneg P buds y Hb). pose proof (vbud_nonneg P buds z Hb).
      intros L1 L2.
      assert (A1 : vbud buds x * vutil P y p * vutil P z p <= vbud buds y * vutil P x p * vutil P z p) by nra.
      assert (A2 : vbud buds y * vutil P z p * vutil P x p <= vbud buds z * vutil P y p * vutil P x p) by nra.
      assert (A3 : (vbud buds x * vutil P z p - vbud buds z * vutil P x p) * vutil P y p <= 0) by nra.
      nra.
    - exact HD. }
  apply (StronglySorted_map (sup_of P buds mp) (fun a b => sup_leb P buds p a b = true) kle); [|exact Hsorted].
  intros x y Hx Hy Hle.
  assert (Dx : In x (supporters P p)).
  { apply (in_sup_supporters P costs mp x Hw). eapply Permutation_in; [symmetry; apply sorted_sup_perm|exact Hx]. }
  assert (Dy : In y (supporters P p)).
  { apply (in_sup_supporters P costs mp y Hw). eapply Permutation_in; [symmetry; apply sorted_sup_perm|exact Hy]. }
  unfold sup_leb in Hle. apply Qleb_iff in Hle. unfold kle, sup_of. simpl.
  rewrite (supporters_sat_eq P costs mp x Hw Dx), (supporters_sat_eq P costs mp y Hw Dy). exact Hle.
Qed.

(* total utility / total money of the sweep records *)
Lemma tu_sup_of P costs buds mp s :
  wf_mp P costs mp -> Permutation (mp_sup mp) s -> tu (map (sup_of P buds mp) s) == mp_tsat mp.
Proof.
  intros Hw HP. destruct Hw as [HPs [Ht Hrest]].
  assert (Hw : wf_mp P costs mp) by (split; [exact HPs|split; [exact Ht|exact Hrest]]).
  rewrite Ht.
  assert (HP2 : Permutation s (supporters P (mp_id mp))).
  { etransitivity; [symmetry; exact HP|exact HPs]. }
  rewrite (tu_perm _ _ (Permutation_map (sup_of P buds mp) HP2)).
  unfold total_sat.
  assert (Hall : forall i, In i (supporters P (mp_id mp)) -> In i (supporters P (mp_id mp))) by auto.
  revert Hall. generalize (supporters P (mp_id mp)) at 1 3 4. intros l Hall.
  induction l as [|i r IH]; simpl; [reflexivity|].
  rewrite IH by (intros j Hj; apply Hall; right; exact Hj).
  rewrite (supporters_sat_eq P costs mp i Hw (Hall i (or_introl eq_refl))). reflexivity.
Qed.

Lemma tbud_sup_of P buds mp s :
  Permutation (mp_sup mp) s -> tbud (map (sup_of P buds mp) s) == avail P buds mp.
Proof.
  intros HP. rewrite <- (tbud_perm _ _ (Permutation_map (sup_of P buds mp) HP)).
  unfold avail. clear HP. induction (mp_sup mp) as [|i r IH]; simpl; [reflexivity|]. rewrite IH. reflexivity.
Qed.

(* one evaluation of an affordable project: the sweep finds the least rho *)
Theorem eval_rho_spec P costs buds mp :
  wf_voters P -> wf_buds P buds -> wf_mp P costs mp ->
  Qltb (avail P buds mp) (mp_cost mp) = false ->
  exists a0, eval_rho P buds mp (sorted_sup P buds mp) = Some a0 /\ 0 < a0 /\
             paidl a0 (map (sup_of P buds mp) (mp_sup mp)) == mp_cost mp /\
             forall rho', mp_cost mp <= paidl rho' (map (sup_of P buds mp) (mp_sup mp)) -> a0 <= rho'.
Proof.
  intros Hv Hb Hw Haff. apply Qltb_false_iff in Haff.
  set (s := sorted_sup P buds mp). set (l := map (sup_of P buds mp) s).
  assert (HP : Permutation (mp_sup mp) s) by apply sorted_sup_perm.
  assert (Hwf : Forall wfs l).
  { unfold l. rewrite Forall_forall. intros x Hx. apply in_map_iff in Hx. destruct Hx as [i [<- Hi]].
    apply (sup_of_wfs P costs); try assumption. eapply Permutation_in; [symmetry; exact HP|exact Hi]. }
  assert (Hs : StronglySorted kle l) by (apply (sorted_sup_kle P costs); assumption).
  assert (Hcov : mp_cost mp <= tbud l) by (unfold l; rewrite (tbud_sup_of P buds mp s HP); exact Haff).
  destruct Hw as [Hw1 [Hw2 [Hw3 [Hw4 Hw5]]]].
  assert (Hw : wf_mp P costs mp) by (repeat split; assumption).
  destruct (sweep_inv (mp_cost mp) Hw4 l 0 (mp_tsat mp) Hwf Hs) as [rho [H1 [H2 [H3 [_ [t [Hin Hr]]]]]]]; try lra.
  - symmetry. apply (tu_sup_of P costs); assumption.
  - exists rho. split; [exact H1|]. split; [exact H2|].
    assert (Hpm : Permutation (map (sup_of P buds mp) (mp_sup mp)) l) by (apply Permutation_map; exact HP).
    split; [rewrite (paid_perm rho _ _ Hpm); lra|].
    intros rho' Hc. apply Qnot_lt_le. intro Hlt.
    rewrite (paid_perm rho' _ _ Hpm) in Hc.
    pose proof (paidl_strict rho rho' l t Hwf Hin Hr Hlt). lra.
Qed.
