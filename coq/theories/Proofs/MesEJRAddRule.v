(* Proofs/MesEJRAddRule.v -- EJR up to one project for general additive utilities (Proofs/MesEJRAdd.v)
   transferred to the model of the implementation: single runs of the inner algorithm, the plain and the
   budget-increase rule ([mes_outcome]), and every allocation of the irresolute rule. *)
From PB Require Import Spec.JR Proofs.IrresoluteP Proofs.MesEJRRule Proofs.MesEJRIrr Proofs.MesEJRAdd.
Open Scope Q_scope.

Lemma EJR_card_perm I V (P : list V) score ut r W W' :
  Permutation W W' -> EJR_card I V P score ut r W -> EJR_card I V P score ut r W'.
Proof.
  intros HP H S T alpha HC. destruct (H S T alpha HC) as [i [Hi Hu]]. exists i. split; [exact Hi|].
  assert (Es : sat V ut i W == sat V ut i W') by (unfold sat; apply ej_sum_perm; exact HP).
  assert (Hin : forall p, In p W' -> In p W) by (intros p Hp; apply (Permutation_in p (Permutation_sym HP) Hp)).
  destruct r; simpl in *.
  - rewrite <- Es. exact Hu.
  - intros p Hp Hn. rewrite <- Es. apply Hu; [exact Hp|]. intro Hw. apply Hn. apply (Permutation_in p HP Hw).
  - destruct Hu as [Hu|[p [Hp [Hn Hu]]]]; [left; rewrite <- Es; exact Hu|].
    right. exists p. split; [exact Hp|]. split; [|rewrite <- Es; exact Hu].
    intro Hw. apply Hn. apply Hin. exact Hw.
Qed.

Section Model.
Variable x : mes_in.
Variable voters : list nat.
Variable score : nat -> proj -> Q.
Hypothesis Hinit : mi_init x = [].
Hypothesis Hv : wf_voters (mi_voters x).
Hypothesis Hg : group_ok (mi_voters x) voters.
Hypothesis HB : 0 <= mi_budget x.
Hypothesis Henum_nd : NoDup (mi_enum x).
Hypothesis Henum : forall p, In p (mi_enum x) <-> (p < length (mi_costs x))%nat.
Hypothesis Hcs : Forall (fun c => 0 <= c) (mi_costs x).
(* Additive_Cardinal_Sat: the rule runs with the scores; scores are non-negative *)
Hypothesis Hus : ut_is_score nat voters score (mi_ut x).
Hypothesis Hs0 : score_nonneg nat voters score.

(* one run of the inner algorithm from equal endowments b0 >= budget/n: strict form *)
Theorem mes_model_add_strict b0 o : share x <= b0 -> run_once_res x b0 = Some o ->
  forall S T alpha, cohesive_card (mi_inst x) nat voters score S T alpha ->
  exists i, In i S /\
    (asum alpha T <= sat nat (mi_ut x) i (o_alloc o) \/
     exists p, In p T /\ ~ In p (o_alloc o) /\ asum alpha T < sat nat (mi_ut x) i (o_alloc o) + mi_ut x i p).
Proof.
  intros Hb0 Hrun.
  destruct (ej_model_run x b0 o Hinit Hv HB Henum_nd Henum Hb0 Hrun) as [W [Hsr [HO Hnd]]].
  exact (ej_add_run (spec_of x) voters score b0 W (o_alloc o) Hinit Hcs Hv Hg (ej_model_share x b0 Hb0) HB
           Hsr HO Hnd Hus Hs0).
Qed.

Theorem mes_model_add_EJR_one b0 o : share x <= b0 -> run_once_res x b0 = Some o ->
  EJR_card (mi_inst x) nat voters score (mi_ut x) UpToOne (o_alloc o).
Proof.
  intros Hb0 Hrun.
  destruct (ej_model_run x b0 o Hinit Hv HB Henum_nd Henum Hb0 Hrun) as [W [Hsr [HO Hnd]]].
  exact (ej_add_run_EJR_one (spec_of x) voters score b0 W (o_alloc o) Hinit Hcs Hv Hg (ej_model_share x b0 Hb0) HB
           Hsr HO Hnd Hus Hs0).
Qed.

End Model.

(* headline: plain rule, budget-increase rule, irresolute rule; JR profile = class_voters *)
Section Headline.
Variable x : mes_in.
Variable score : nat -> proj -> Q.
Hypothesis Hinit : mi_init x = [].
Hypothesis Hv : wf_voters (mi_voters x).
Hypothesis HB : 0 <= mi_budget x.
Hypothesis Henum_nd : NoDup (mi_enum x).
Hypothesis Henum : forall p, In p (mi_enum x) <-> (p < length (mi_costs x))%nat.
Hypothesis Hcs : Forall (fun c => 0 <= c) (mi_costs x).
Let voters := class_voters (mi_voters x).
Hypothesis Hus : ut_is_score nat voters score (mi_ut x).
Hypothesis Hs0 : score_nonneg nat voters score.

Theorem mes_add_EJR_one o : mes_outcome x o ->
  EJR_card (mi_inst x) nat voters score (mi_ut x) UpToOne (o_alloc o).
Proof.
  intro Hmes. destruct (mes_outcome_run x o Hmes) as [b0 [Hb0 Hrun]].
  exact (mes_model_add_EJR_one x voters score Hinit Hv (group_ok_mult _) HB Henum_nd Henum Hcs Hus Hs0 b0 o Hb0 Hrun).
Qed.

Theorem mes_irr_add_EJR_one Ws X : mes_irresolute x = Some Ws -> In X Ws ->
  EJR_card (mi_inst x) nat voters score (mi_ut x) UpToOne X.
Proof.
  intros Hirr HX. destruct (ej_irr_resolute x Ws Henum_nd Hirr X HX) as [tb [o [Ho HP]]].
  apply (EJR_card_perm _ _ _ _ _ _ _ _ HP).
  exact (mes_model_add_EJR_one (with_tb x tb) voters score Hinit Hv (group_ok_mult _) HB Henum_nd Henum Hcs Hus Hs0
           (share (with_tb x tb)) o (Qle_refl _) Ho).
Qed.

End Headline.
