(* Proofs/GreedyAddP.v -- the additive fast path of the greedy rule: feasibility, exhaustiveness, and
   "sort once, one pass" selects the same set as the general scheme for additive non-negative satisfaction. *)
From PB Require Import Model.GreedyRule Spec.GreedySpec Proofs.GreedyP.
Open Scope Q_scope.

(* ---------- sorting facts ---------- *)
Section Stable.
Variable A : Type.
Variable leb : A -> A -> bool.
Hypothesis leb_total : forall x y, leb x y = true \/ leb y x = true.
Hypothesis leb_trans : forall x y z, leb x y = true -> leb y z = true -> leb x z = true.
Variable R : A -> A -> Prop.

(* lexicographic refinement: sorted by the key, and by the previous order R among equal keys *)
Definition lexR (x y : A) : Prop := leb x y = true /\ (leb y x = true -> R x y).

Lemma insert_lex x s :
  StronglySorted lexR s -> (forall y, In y s -> R x y) -> StronglySorted lexR (insert leb x s).
Proof.
  induction 1 as [|y s' Hs IH Hall]; intros HR; simpl.
  - constructor; [constructor|constructor].
  - destruct (leb x y) eqn:E.
    + constructor; [constructor; assumption|].
      constructor.
      * split; [exact E|intros _; apply HR; left; reflexivity].
      * rewrite Forall_forall in *. intros z Hz. split.
        -- eapply leb_trans; [exact E|]. apply (Hall z Hz).
        -- intros _. apply HR. right. exact Hz.
    + constructor.
      * apply IH. intros z Hz. apply HR. right. exact Hz.
      * rewrite Forall_forall in *. intros z Hz.
        eapply Permutation_in in Hz; [|symmetry; apply insert_perm].
        destruct Hz as [<-|Hz]; [|apply Hall; exact Hz].
        split; [destruct (leb_total x y); congruence|intros E'; congruence].
Qed.

Lemma isort_stable l : StronglySorted R l -> StronglySorted lexR (isort leb l).
Proof.
  induction 1 as [|x t Hs IH Hall]; simpl; [constructor|].
  apply insert_lex; [exact IH|].
  intros y Hy. apply isort_In in Hy. rewrite Forall_forall in Hall. apply Hall. exact Hy.
Qed.
End Stable.
Arguments lexR {A} leb R x y.
Arguments isort_stable {A leb} leb_total leb_trans {R l}.

Lemma StronglySorted_impl_in {A} (R R' : A -> A -> Prop) l :
  (forall x y, In x l -> In y l -> R x y -> R' x y) -> StronglySorted R l -> StronglySorted R' l.
Proof.
  intros Himp. induction 1 as [|x t Hs IH Hall]; constructor.
  - apply IH. intros a b Ha Hb. apply Himp; right; assumption.
  - rewrite Forall_forall in *. intros y Hy. apply Himp; [left; reflexivity|right; exact Hy|apply Hall; exact Hy].
Qed.

Lemma Permutation_filter' {A} (f : A -> bool) l l' :
  Permutation l l' -> Permutation (filter f l) (filter f l').
Proof.
  induction 1 as [|x l l' _ IH|x y l|l l' l'' _ IH1 _ IH2]; simpl.
  - constructor.
  - destruct (f x); [constructor|]; exact IH.
  - destruct (f x), (f y); try reflexivity. apply perm_swap.
  - eapply Permutation_trans; eassumption.
Qed.

Lemma sorted_perm_unique {A} (R : A -> A -> Prop) :
  (forall x y, R x y -> R y x -> x = y) ->
  forall l1 l2, StronglySorted R l1 -> StronglySorted R l2 -> Permutation l1 l2 -> l1 = l2.
Proof.
  intros Hanti. induction l1 as [|x t IH]; intros l2 H1 H2 HP.
  - apply Permutation_nil in HP. congruence.
  - destruct l2 as [|y t2]; [apply Permutation_sym, Permutation_nil in HP; discriminate|].
    inversion H1 as [|? ? Hs1 Hall1]; subst. inversion H2 as [|? ? Hs2 Hall2]; subst.
    rewrite Forall_forall in Hall1, Hall2.
    assert (x = y).
    { assert (Hx : In x (y :: t2)) by (eapply Permutation_in; [exact HP|left; reflexivity]).
      assert (Hy : In y (x :: t)) by (eapply Permutation_in; [symmetry; exact HP|left; reflexivity]).
      destruct Hx as [->|Hx]; [reflexivity|]. destruct Hy as [->|Hy]; [reflexivity|].
      apply Hanti; [apply Hall1; exact Hy|apply Hall2; exact Hx]. }
    subst y. f_equal. apply IH; [assumption|assumption|]. eapply Permutation_cons_inv. exact HP.
Qed.

(* ---------- extended rationals up to == ---------- *)
Definition Qx_eq (a b : Qx) : Prop :=
  match a, b with
  | Fin x, Fin y => x == y
  | PInf, PInf => True
  | _, _ => False
  end.

Lemma Qx_leb_proper a a' b b' : Qx_eq a a' -> Qx_eq b b' -> Qx_leb a b = Qx_leb a' b'.
Proof.
  destruct a, a', b, b'; simpl; try tauto. intros H1 H2. unfold Qleb. rewrite H1, H2. reflexivity.
Qed.

Lemma Qx_eq_refl a : Qx_eq a a.
Proof. destruct a; simpl; [reflexivity|exact I]. Qed.

(* ---------- the pass ---------- *)
Section AddPass.
Variable I : inst.
Hypothesis costs_nonneg : Forall (fun c => 0 <= c) (costs I).

Lemma add_pass_Qeq l : forall r r', r == r' -> add_pass I l r = add_pass I l r'.
Proof.
  induction l as [|p t IH]; intros r r' E; simpl; [reflexivity|].
  unfold Qleb. rewrite E. destruct (Qle_bool (cost I p) r').
  - f_equal. apply IH. rewrite E. reflexivity.
  - apply IH. exact E.
Qed.

Lemma add_pass_sublist l : forall r, sublist (add_pass I l r) l.
Proof.
  induction l as [|p t IH]; intros r; simpl; [constructor|].
  destruct (Qleb (cost I p) r); constructor; apply IH.
Qed.

Lemma add_pass_cost l : forall r, 0 <= r -> tcost I (add_pass I l r) <= r.
Proof.
  induction l as [|p t IH]; intros r Hr; simpl.
  - unfold tcost. simpl. exact Hr.
  - destruct (Qleb (cost I p) r) eqn:E.
    + apply Qleb_iff in E. rewrite tcost_cons.
      specialize (IH (r - cost I p)). lra.
    + apply IH. exact Hr.
Qed.

(* whatever is left out does not fit on top of the final selection *)
Lemma add_pass_exh l : forall r p, In p l -> ~ In p (add_pass I l r) ->
  r - tcost I (add_pass I l r) < cost I p.
Proof.
  induction l as [|x t IH]; intros r p Hin Hnot; [contradiction|]. simpl in *.
  destruct (Qleb (cost I x) r) eqn:E.
  - rewrite tcost_cons. destruct Hin as [->|Hin]; [exfalso; apply Hnot; left; reflexivity|].
    assert (Hn : ~ In p (add_pass I t (r - cost I x))) by (intros H; apply Hnot; right; exact H).
    specialize (IH (r - cost I x) p Hin Hn). lra.
  - destruct Hin as [->|Hin].
    + apply Qleb_false_iff in E. pose proof (tcost_nonneg I (add_pass I t r) costs_nonneg). lra.
    + apply IH; assumption.
Qed.

(* zero-cost projects are always taken and disturb nothing *)
Lemma add_pass_zero (Z : proj -> bool) :
  (forall p, Z p = true -> cost I p == 0) ->
  forall l r, 0 <= r -> forall y,
  In y (add_pass I l r) <-> (In y l /\ Z y = true) \/ In y (add_pass I (filter (fun p => negb (Z p)) l) r).
Proof.
  intros HZ. induction l as [|x t IH]; intros r Hr y; simpl; [tauto|].
  destruct (Z x) eqn:Ez; simpl.
  - assert (Hc : cost I x == 0) by (apply HZ; exact Ez).
    assert (E : Qleb (cost I x) r = true) by (apply Qleb_iff; lra).
    rewrite E. rewrite (add_pass_Qeq t (r - cost I x) r) by lra. simpl. rewrite (IH r Hr y).
    split.
    + intros [<-|[[H1 H2]|H]]; [left; split; [left; reflexivity|exact Ez]|left; split; [right; exact H1|exact H2]|right; exact H].
    + intros [[[<-|H1] H2]|H]; [left; reflexivity|right; left; split; assumption|right; right; exact H].
  - destruct (Qleb (cost I x) r) eqn:E; simpl.
    + apply Qleb_iff in E. rewrite (IH (r - cost I x)) by lra. split.
      * intros [<-|[[H1 H2]|H]]; [right; left; reflexivity|left; split; [right; exact H1|exact H2]|right; right; exact H].
      * intros [[[<-|H1] H2]|[<-|H]]; [congruence|right; left; split; assumption|left; reflexivity|right; right; exact H].
    + rewrite (IH r Hr y). split.
      * intros [[H1 H2]|H]; [left; split; [right; exact H1|exact H2]|right; exact H].
      * intros [[[<-|H1] H2]|H]; [congruence|left; split; assumption|right; exact H].
Qed.

End AddPass.

(* ---------- the fast path ---------- *)
Section Fast.
Variables (I : inst) (sp : proj -> Q) (tb : proj -> Q).
Hypothesis costs_nonneg : Forall (fun c => 0 <= c) (costs I).

Let cands (init : list proj) : list proj := filter (fun p => negb (memb p init)) (all_projects I).

Lemma add_candidates_perm init : Permutation (cands init) (add_candidates I sp tb init).
Proof.
  unfold add_candidates, dens_order, tie_order. fold (cands init).
  eapply Permutation_trans; [apply isort_perm|apply isort_perm].
Qed.

Lemma cands_In init p : In p (cands init) <-> (p < nproj I)%nat /\ ~ In p init.
Proof.
  unfold cands. rewrite filter_In, negb_true_iff, memb_false_In. unfold all_projects. rewrite in_seq.
  split; intros [H1 H2]; split; auto; lia.
Qed.

Lemma cands_NoDup init : NoDup (cands init).
Proof. unfold cands. apply NoDup_filter. apply seq_NoDup. Qed.

Lemma add_candidates_In init p :
  In p (add_candidates I sp tb init) <-> (p < nproj I)%nat /\ ~ In p init.
Proof.
  rewrite <- cands_In. split; intro H.
  - eapply Permutation_in; [symmetry; apply add_candidates_perm|exact H].
  - eapply Permutation_in; [apply add_candidates_perm|exact H].
Qed.

Lemma sublist_NoDup {A} (s l : list A) : sublist s l -> NoDup l -> NoDup s.
Proof.
  induction 1 as [|x s l Hsl IH|x s l Hsl IH]; intros Hnd.
  - constructor.
  - inversion Hnd; subst. apply IH. assumption.
  - inversion Hnd as [|? ? Hx Hl]; subst. constructor; [|apply IH; exact Hl].
    intros Hin. apply Hx. eapply sublist_In; eassumption.
Qed.

Theorem greedy_add_feasible init :
  feasible I init ->
  feasible I (greedy_add_res I sp tb init) /\ incl init (greedy_add_res I sp tb init).
Proof.
  intros [Hnd [Hin Hc]]. unfold greedy_add_res.
  set (r := budget I - tcost I init). set (L := add_candidates I sp tb init).
  pose proof (add_pass_sublist I L r) as Hsub.
  split; [|intros x Hx; apply in_app_iff; left; exact Hx].
  repeat split.
  - apply NoDup_app_intro; [exact Hnd| |].
    + eapply sublist_NoDup; [exact Hsub|]. eapply Permutation_NoDup; [apply add_candidates_perm|apply cands_NoDup].
    + intros x Hx1 Hx2. eapply sublist_In in Hx2; [|exact Hsub]. apply add_candidates_In in Hx2. tauto.
  - intros p Hp. apply in_app_iff in Hp. destruct Hp as [Hp|Hp]; [apply Hin; exact Hp|].
    eapply sublist_In in Hp; [|exact Hsub]. apply add_candidates_In in Hp. tauto.
  - rewrite tcost_app. assert (Hr : 0 <= r) by (unfold r; lra).
    pose proof (add_pass_cost I L r Hr). unfold r in *. lra.
Qed.

Theorem greedy_add_exhaustive init : exhaustive I (greedy_add_res I sp tb init).
Proof.
  intros p Hp Hnot. unfold greedy_add_res in *. rewrite in_app_iff in Hnot.
  assert (Hin : In p (add_candidates I sp tb init)) by (apply add_candidates_In; tauto).
  assert (Hn : ~ In p (add_pass I (add_candidates I sp tb init) (budget I - tcost I init))) by tauto.
  pose proof (add_pass_exh I costs_nonneg _ (budget I - tcost I init) p Hin Hn).
  rewrite tcost_app. lra.
Qed.

(* ---------- fast path = general scheme ---------- *)
Variable sat : list proj -> Q.
Hypothesis sat_additive : forall W, sat W == Qsum (map sp W).
Hypothesis sp_nonneg : forall p, 0 <= sp p.

(* the (constant) marginal density of the general scheme *)
Definition gdens (p : proj) : Qx := if Qltb 0 (cost I p) then Fin (sp p / cost I p) else PInf.

Lemma mdens_gdens alloc p : Qx_eq (mdens I sat alloc p) (gdens p).
Proof.
  unfold mdens, gdens. destruct (Qltb 0 (cost I p)); simpl; [|exact Logic.I].
  rewrite !sat_additive, map_app, Qsum_app. simpl.
  assert (E : Qsum (map sp alloc) + (sp p + 0) - Qsum (map sp alloc) == sp p) by ring.
  rewrite E. reflexivity.
Qed.

Definition gle (p q : proj) : bool := Qx_leb (gdens q) (gdens p).
Definition sle (p q : proj) : bool := Qx_leb (sdens I sp q) (sdens I sp p).
Definition tle (p q : proj) : bool := Qleb (tb p) (tb q).
Definition nonZ (p : proj) : bool := Qltb 0 (cost I p) || Qltb 0 (sp p).

Lemma sdens_gdens p : nonZ p = true -> Qx_eq (sdens I sp p) (gdens p).
Proof.
  unfold nonZ, sdens, gdens. destruct (Qltb 0 (sp p)) eqn:Es.
  - intros _. apply Qx_eq_refl.
  - rewrite orb_false_r. intros Ec. rewrite Ec. simpl.
    apply Qltb_false_iff in Es. pose proof (sp_nonneg p).
    assert (E : sp p == 0) by lra. rewrite E. unfold Qdiv. ring.
Qed.

Lemma sle_gle p q : nonZ p = true -> nonZ q = true -> sle p q = gle p q.
Proof. intros Hp Hq. unfold sle, gle. apply Qx_leb_proper; apply sdens_gdens; assumption. Qed.

(* the order in which the general scheme picks: larger density first, then smaller key, then smaller rank *)
Definition ord (p q : proj) : Prop :=
  gle p q = true /\ (gle q p = true -> tb p < tb q \/ (tb p == tb q /\ (p <= q)%nat)).

Lemma ord_antisym p q : ord p q -> ord q p -> p = q.
Proof.
  intros [H1 H2] [H3 H4]. destruct (H2 H3) as [A|[A A']]; destruct (H4 H1) as [B|[B B']]; try lra; lia.
Qed.

Lemma tle_lt_ord p q :
  tle p q = true /\ (tle q p = true -> (p < q)%nat) -> tb p < tb q \/ (tb p == tb q /\ (p <= q)%nat).
Proof.
  unfold tle. rewrite !Qleb_iff. intros [H1 H2].
  destruct (Qlt_le_dec (tb p) (tb q)) as [H|H]; [left; exact H|].
  right. split; [apply Qle_antisym; assumption|]. specialize (H2 H). lia.
Qed.

Lemma gle_total x y : gle x y = true \/ gle y x = true.
Proof. unfold gle. apply Qx_leb_total. Qed.
Lemma gle_trans x y z : gle x y = true -> gle y z = true -> gle x z = true.
Proof. unfold gle. intros H1 H2. eapply Qx_leb_trans; eassumption. Qed.
Lemma sle_total x y : sle x y = true \/ sle y x = true.
Proof. unfold sle. apply Qx_leb_total. Qed.
Lemma sle_trans x y z : sle x y = true -> sle y z = true -> sle x z = true.
Proof. unfold sle. intros H1 H2. eapply Qx_leb_trans; eassumption. Qed.
Lemma tle_total x y : tle x y = true \/ tle y x = true.
Proof. apply Qleb_total. Qed.
Lemma tle_trans x y z : tle x y = true -> tle y z = true -> tle x z = true.
Proof. apply Qleb_trans. Qed.

(* the general scheme's candidate order: the same two stable sorts, by the general density *)
Definition gen_candidates (init : list proj) : list proj := isort gle (tie_order tb (cands init)).

Lemma cands_sorted init : StronglySorted lt (cands init).
Proof. unfold cands. eapply sublist_StronglySorted; [apply filter_sublist|apply seq_StronglySorted]. Qed.

Lemma gen_candidates_sorted init : StronglySorted ord (gen_candidates init).
Proof.
  unfold gen_candidates, tie_order.
  assert (HS : StronglySorted (lexR gle (lexR tle lt)) (isort gle (isort tle (cands init)))).
  { apply (isort_stable gle_total gle_trans). apply (isort_stable tle_total tle_trans). apply cands_sorted. }
  eapply StronglySorted_impl_in; [|exact HS].
  intros x y _ _ [H1 H2]. split; [exact H1|]. intros H. apply tle_lt_ord. apply H2. exact H.
Qed.

Lemma add_candidates_sorted init :
  StronglySorted (lexR sle (lexR tle lt)) (add_candidates I sp tb init).
Proof.
  unfold add_candidates, dens_order, tie_order.
  change (StronglySorted (lexR sle (lexR tle lt)) (isort sle (isort tle (cands init)))).
  apply (isort_stable sle_total sle_trans). apply (isort_stable tle_total tle_trans). apply cands_sorted.
Qed.

Lemma gen_candidates_perm init : Permutation (cands init) (gen_candidates init).
Proof.
  unfold gen_candidates, tie_order. eapply Permutation_trans; [apply isort_perm|apply isort_perm].
Qed.

(* without the zero-cost zero-satisfaction projects the two candidate lists coincide *)
Lemma filtered_candidates_eq init :
  filter nonZ (add_candidates I sp tb init) = filter nonZ (gen_candidates init).
Proof.
  apply (sorted_perm_unique ord ord_antisym).
  - (* restricted to nonZ projects the fast order implies ord *)
    pose proof (add_candidates_sorted init) as Hs.
    assert (Hs' : StronglySorted (lexR sle (lexR tle lt)) (filter nonZ (add_candidates I sp tb init))).
    { eapply sublist_StronglySorted; [apply filter_sublist|exact Hs]. }
    eapply StronglySorted_impl_in; [|exact Hs'].
    intros x y Hx Hy [H1 H2]. apply filter_In in Hx, Hy. destruct Hx as [_ Hx]. destruct Hy as [_ Hy].
    rewrite (sle_gle x y Hx Hy) in H1. rewrite (sle_gle y x Hy Hx) in H2.
    split; [exact H1|]. intros H. apply tle_lt_ord. apply H2. exact H.
  - eapply sublist_StronglySorted; [apply filter_sublist|apply gen_candidates_sorted].
  - (* both are permutations of the filtered candidates *)
    eapply Permutation_trans.
    + apply Permutation_sym. apply Permutation_filter'. apply add_candidates_perm.
    + apply Permutation_filter'. apply gen_candidates_perm.
Qed.

Lemma density_gle alloc p q :
  Qx_le (density I sat alloc q) (density I sat alloc p) <-> gle p q = true.
Proof.
  rewrite <- !mdens_density, <- Qx_leb_le. unfold gle.
  rewrite (Qx_leb_proper _ _ _ _ (mdens_gdens alloc q) (mdens_gdens alloc p)). reflexivity.
Qed.

(* one pass over a list sorted by [ord] is a run of the spec *)
Lemma pass_is_run : forall L alloc r,
  StronglySorted ord L -> NoDup L ->
  (forall x, In x L -> (x < nproj I)%nat /\ ~ In x alloc) ->
  (forall p, fits I alloc p -> In p L) ->
  r == budget I - tcost I alloc ->
  greedy_run I (tb_first I sat tb) alloc (alloc ++ add_pass I L r).
Proof.
  induction L as [|x L' IH]; intros alloc r Hs Hnd HL Hfit Hr.
  - simpl. rewrite app_nil_r. apply gr_stop. intros p Hp. apply (Hfit p Hp).
  - inversion Hs as [|? ? Hs' Hall]; subst. inversion Hnd as [|? ? Hx Hnd']; subst.
    rewrite Forall_forall in Hall. simpl.
    destruct (Qleb (cost I x) r) eqn:E.
    + apply Qleb_iff in E.
      assert (Hfx : fits I alloc x).
      { destruct (HL x (or_introl eq_refl)) as [H1 H2]. repeat split; [exact H1|exact H2|lra]. }
      assert (Hbest : best I sat alloc x).
      { split; [exact Hfx|]. intros q Hq. apply density_gle.
        destruct (Hfit q Hq) as [<-|Hq']; [destruct (gle_total x x); assumption|apply (Hall q Hq')]. }
      apply gr_step with (p := x).
      * split; [exact Hbest|]. intros q [Hq Hqmax].
        destruct (Hfit q Hq) as [<-|Hq']; [right; split; [reflexivity|lia]|].
        destruct (Hall q Hq') as [_ H2]. apply H2. apply density_gle with (alloc := alloc). apply Hqmax. exact Hfx.
      * replace (alloc ++ x :: add_pass I L' (r - cost I x)) with ((alloc ++ [x]) ++ add_pass I L' (r - cost I x))
          by (rewrite <- app_assoc; reflexivity).
        apply IH; [exact Hs'|exact Hnd'| | |].
        -- intros y Hy. destruct (HL y (or_intror Hy)) as [H1 H2]. split; [exact H1|].
           rewrite in_app_iff. simpl. intros [H|[->|[]]]; [contradiction|contradiction].
        -- intros p [H1 [H2 H3]]. rewrite in_app_iff in H2. simpl in H2.
           assert (Hp : fits I alloc p).
           { repeat split; [exact H1|tauto|]. rewrite tcost_app in H3. unfold tcost at 2 in H3. simpl in H3.
             pose proof (cost_nonneg I x costs_nonneg). lra. }
           destruct (Hfit p Hp) as [<-|Hp']; [tauto|exact Hp'].
        -- rewrite tcost_app. unfold tcost at 2. simpl. lra.
    + apply Qleb_false_iff in E. apply IH; [exact Hs'|exact Hnd'| | |exact Hr].
      * intros y Hy. apply HL. right. exact Hy.
      * intros p Hp. destruct (Hfit p Hp) as [<-|Hp']; [|exact Hp'].
        destruct Hp as [_ [_ H3]]. lra.
Qed.

Theorem greedy_gen_is_pass init :
  greedy_gen_res I sat tb init =
  Some (init ++ add_pass I (gen_candidates init) (budget I - tcost I init)).
Proof.
  destruct (greedy_gen_refines_spec I sat tb costs_nonneg init) as [W [HW Hrun]].
  rewrite HW. f_equal.
  eapply (greedy_run_deterministic I sat tb); [exact Hrun|].
  apply pass_is_run.
  - apply gen_candidates_sorted.
  - eapply Permutation_NoDup; [apply gen_candidates_perm|apply cands_NoDup].
  - intros x Hx. apply cands_In. eapply Permutation_in; [symmetry; apply gen_candidates_perm|exact Hx].
  - intros p [H1 [H2 _]]. eapply Permutation_in; [apply gen_candidates_perm|]. apply cands_In. tauto.
  - reflexivity.
Qed.

Theorem greedy_add_eq_gen init :
  tcost I init <= budget I ->
  exists W, greedy_gen_res I sat tb init = Some W /\ set_eq W (greedy_add_res I sp tb init).
Proof.
  intros Hc. rewrite greedy_gen_is_pass. eexists. split; [reflexivity|].
  unfold greedy_add_res. intros y. rewrite !in_app_iff.
  assert (Hr : 0 <= budget I - tcost I init) by lra.
  assert (HZ : forall p, negb (nonZ p) = true -> cost I p == 0).
  { intros p Hp. apply negb_true_iff in Hp. unfold nonZ in Hp. apply orb_false_iff in Hp. destruct Hp as [Hp _].
    apply Qltb_false_iff in Hp. pose proof (cost_nonneg I p costs_nonneg). lra. }
  rewrite (add_pass_zero I (fun p => negb (nonZ p)) HZ (gen_candidates init) _ Hr y).
  rewrite (add_pass_zero I (fun p => negb (nonZ p)) HZ (add_candidates I sp tb init) _ Hr y).
  assert (Hf : forall l, filter (fun p => negb (negb (nonZ p))) l = filter nonZ l).
  { intros l. apply filter_ext. intros a. apply negb_involutive. }
  rewrite !Hf, filtered_candidates_eq.
  assert (Hin : In y (gen_candidates init) <-> In y (add_candidates I sp tb init)).
  { split; intro H.
    - eapply Permutation_in; [apply add_candidates_perm|]. eapply Permutation_in; [symmetry; apply gen_candidates_perm|exact H].
    - eapply Permutation_in; [apply gen_candidates_perm|]. eapply Permutation_in; [symmetry; apply add_candidates_perm|exact H]. }
  rewrite Hin. reflexivity.
Qed.

End Fast.

(* ---------- every outcome of greedy_utilitarian_welfare: total, feasible, exhaustive ---------- *)
Section Top.
Variables (I : inst) (sat : list proj -> Q) (sp : proj -> Q) (tb : proj -> Q).
Hypothesis costs_nonneg : Forall (fun c => 0 <= c) (costs I).

Lemma exhaustive_perm W W' : Permutation W W' -> exhaustive I W -> exhaustive I W'.
Proof.
  intros HP He p Hp Hn. rewrite <- (tcost_perm I W W' HP). apply He; [exact Hp|].
  intros Hin. apply Hn. eapply Permutation_in; eassumption.
Qed.

Lemma feasible_perm W W' : Permutation W W' -> feasible I W -> feasible I W'.
Proof.
  intros HP [H1 [H2 H3]]. repeat split.
  - eapply Permutation_NoDup; eassumption.
  - intros p Hp. apply H2. eapply Permutation_in; [symmetry; exact HP|exact Hp].
  - rewrite <- (tcost_perm I W W' HP). exact H3.
Qed.

Theorem greedy_total additive init :
  (exists W, greedy_welfare_res I sat sp tb additive init = Some W) /\
  (exists Ws, greedy_welfare_irr I sat tb additive init = Some Ws /\ Ws <> []).
Proof.
  split.
  - destruct additive; simpl; [eexists; reflexivity|].
    destruct (greedy_gen_refines_spec I sat tb costs_nonneg init) as [W [HW _]]. exists W. exact HW.
  - unfold greedy_welfare_irr.
    destruct (greedy_gen_irr_spec I sat tb costs_nonneg init) as [Ws [HW Hspec]]. exists Ws. split; [exact HW|].
    (* the resolute run is one of the runs *)
    destruct (greedy_gen_refines_spec I sat tb costs_nonneg init) as [W [_ Hrun]].
    assert (Hin : In (name_sort W) Ws).
    { apply Hspec. exists W. split; [|reflexivity].
      clear - Hrun. induction Hrun as [a Hs|a p W Hc Hr IH]; [apply gr_stop; exact Hs|].
      eapply gr_step; [apply (tb_first_best I sat tb); exact Hc|exact IH]. }
    intros E. rewrite E in Hin. exact Hin.
Qed.

Theorem greedy_exhaustive :
  (forall additive init W, greedy_welfare_res I sat sp tb additive init = Some W -> exhaustive I W) /\
  (forall additive init Ws W, greedy_welfare_irr I sat tb additive init = Some Ws -> In W Ws -> exhaustive I W).
Proof.
  split.
  - intros [|] init W H; simpl in H.
    + injection H as <-. apply greedy_add_exhaustive. exact costs_nonneg.
    + destruct (greedy_gen_refines_spec I sat tb costs_nonneg init) as [W' [HW Hrun]].
      rewrite HW in H. injection H as <-. eapply greedy_run_exhaustive. exact Hrun.
  - intros additive init Ws W H Hin. unfold greedy_welfare_irr in H.
    destruct (greedy_gen_irr_spec I sat tb costs_nonneg init) as [Ws' [HW Hspec]].
    rewrite HW in H. injection H as <-. apply Hspec in Hin. destruct Hin as [W' [Hrun ->]].
    eapply exhaustive_perm; [apply isort_perm|]. eapply greedy_run_exhaustive. exact Hrun.
Qed.

Theorem greedy_feasible init :
  feasible I init ->
  (forall additive W, greedy_welfare_res I sat sp tb additive init = Some W ->
                      feasible I W /\ incl init W) /\
  (forall additive Ws W, greedy_welfare_irr I sat tb additive init = Some Ws -> In W Ws ->
                      feasible I W /\ incl init W).
Proof.
  intros Hf. split.
  - intros [|] W H; simpl in H.
    + injection H as <-. apply greedy_add_feasible. exact Hf.
    + destruct (greedy_gen_refines_spec I sat tb costs_nonneg init) as [W' [HW Hrun]].
      rewrite HW in H. injection H as <-.
      destruct (greedy_run_feasible I (tb_first I sat tb) init W') as [H1 [ext H2]];
        [intros a p Hc; apply best_fits with (sat := sat), tb_first_best with (tb := tb); exact Hc|exact Hrun|exact Hf|].
      split; [exact H1|]. rewrite H2. intros x Hx. apply in_app_iff. left. exact Hx.
  - intros additive Ws W H Hin. unfold greedy_welfare_irr in H.
    destruct (greedy_gen_irr_spec I sat tb costs_nonneg init) as [Ws' [HW Hspec]].
    rewrite HW in H. injection H as <-. apply Hspec in Hin. destruct Hin as [W' [Hrun ->]].
    destruct (greedy_run_feasible I (best I sat) init W') as [H1 [ext H2]];
      [intros a p Hc; apply best_fits with (sat := sat); exact Hc|exact Hrun|exact Hf|].
    split.
    + eapply feasible_perm; [apply isort_perm|exact H1].
    + rewrite H2. intros x Hx. apply isort_In. apply in_app_iff. left. exact Hx.
Qed.

End Top.
