(* Proofs/MesEJR.v -- C14, second sentence: outcomes of the Method of Equal Shares satisfy
     EJR up to any project  w.r.t. Cost_Sat          (utilities: cost if approved, else 0)
     EJR (hence up to one)  w.r.t. Cardinality_Sat   (utilities: 1 if approved, else 0)
   in the sense of Spec/JR.v (weak "up to" form), for approval elections, empty initial allocation,
   non-negative costs, any tie-breaking key, any multiplicities.

   The rule runs on voter classes P (utilities + multiplicity).  A voter of the JR definitions is named
   by the index of her class; the profile of the JR definitions is a list [voters] of class indices in
   which class i occurs (at most) vmul_i times and that has nvoters P entries ([group_ok]): for single
   voters [seq 0 |P|] (group_ok_unit), in general [class_voters P] = each index repeated vmul times
   (group_ok_mult).  A voter's satisfaction with a project is the utility the rule is run with ([ej_ut]).

   Layers:  ej_cost_run / ej_card_run      on a run of the declarative rule [spec_run] from equal
                                           endowments B/n, for any outcome list O containing the
                                           zero-cost supported projects and the purchases;
            mes_spec_cost_EJR_any ...      for the executable textbook rule [mes_spec];
            mes_model_cost_EJR_any ...     for the model of the implementation [mes_resolute]
                                           (via run_once_refines_spec).
   The Cardinality_Sat results are strict ( sat_i(T) < sat_i(O) + 1 ), and since satisfactions are
   integers this is plain EJR. *)
From PB Require Export Proofs.MesEJRGroup.
From PB Require Import Spec.JR.
Open Scope Q_scope.

(* ---------- lists ---------- *)

Lemma ej_argmin (f : proj -> Q) (l : list proj) : l <> [] -> exists x, In x l /\ forall y, In y l -> f x <= f y.
Proof.
  induction l as [|a t IH]; [congruence|]. intros _. destruct t as [|b t'].
  - exists a. split; [left; reflexivity|]. intros y [<-|[]]. apply Qle_refl.
  - destruct IH as [x [Hx Hmin]]; [discriminate|].
    destruct (Qlt_le_dec (f a) (f x)) as [Hlt|Hle].
    + exists a. split; [left; reflexivity|]. intros y [<-|Hy]; [apply Qle_refl|].
      pose proof (Hmin y Hy). lra.
    + exists x. split; [right; exact Hx|]. intros y [<-|Hy]; [exact Hle|apply Hmin; exact Hy].
Qed.

Lemma ej_le_sum (f : proj -> Q) l x : (forall y, In y l -> 0 <= f y) -> In x l -> f x <= Qsum (map f l).
Proof.
  intros Hnn Hx. destruct (in_split _ _ Hx) as [l1 [l2 ->]].
  rewrite map_app, Qsum_app. simpl.
  assert (0 <= Qsum (map f l1)) by (apply ej_sum_nonneg; intros y Hy; apply Hnn; apply in_or_app; left; exact Hy).
  assert (0 <= Qsum (map f l2)) by (apply ej_sum_nonneg; intros y Hy; apply Hnn; apply in_or_app; right; right; exact Hy).
  lra.
Qed.

Lemma subset_dec_ej (T O : list nat) : (forall p, In p T -> In p O) \/ exists p, In p T /\ ~ In p O.
Proof.
  induction T as [|a t IH]; [left; intros p []|].
  destruct (in_dec Nat.eq_dec a O) as [Ha|Ha].
  - destruct IH as [IH|[p [Hp Hn]]].
    + left. intros p [<-|Hp]; [exact Ha|apply IH; exact Hp].
    + right. exists p. split; [right; exact Hp|exact Hn].
  - right. exists a. split; [left; reflexivity|exact Ha].
Qed.

Lemma ej_sublist_seq (S : list nat) n : sublist S (seq 0 n) -> NoDup S /\ forall i, In i S -> (i < n)%nat.
Proof.
  intro H. split.
  - apply (sublist_NoDup S (seq 0 n) H). apply seq_NoDup.
  - intros i Hi. pose proof (sublist_In i H Hi) as Hin. apply in_seq in Hin. lia.
Qed.

(* a run of the declarative rule buys distinct candidates *)
Lemma ej_run_incl cs P tb : forall b rem W, spec_run cs P tb b rem W -> (forall q, In q W -> In q rem) /\ NoDup W.
Proof.
  induction 1 as [b rem Hst|b rem p rho b' W Hround Hb' Hl Hrun [IH1 IH2]].
  - split; [intros q []|constructor].
  - destruct Hround as [Hp _]. split.
    + intros q [<-|Hq]; [exact Hp|]. apply IH1 in Hq. apply filter_In in Hq. tauto.
    + constructor; [|exact IH2]. intro Hin. apply IH1 in Hin. apply filter_In in Hin.
      destruct Hin as [_ Hin]. rewrite Nat.eqb_refl in Hin. discriminate.
Qed.

(* sums of 0/1 values are natural numbers *)
Lemma ej_sum_01 (u : proj -> Q) l : (forall q, In q l -> u q == 0 \/ u q == 1) -> exists k, Qsum (map u l) == Qnat k.
Proof.
  induction l as [|a t IH]; intro H.
  - exists O. reflexivity.
  - destruct IH as [k Ek]; [intros q Hq; apply H; right; exact Hq|]. simpl.
    destruct (H a (or_introl eq_refl)) as [E|E].
    + exists k. rewrite E, Ek. ring.
    + exists (Datatypes.S k). rewrite E, Ek, Qnat_S. ring.
Qed.

Lemma ej_Qnat_lt_succ a b : Qnat a < Qnat b + 1 -> Qnat a <= Qnat b.
Proof.
  intro H. rewrite Qplus_comm, <- Qnat_S in H. unfold Qnat, Qlt, Qle in *. simpl in *. lia.
Qed.

(* ---------- the voters of the JR definitions vs the voter classes of the rule ---------- *)

(* [voters] lists class indices; every group S of voters is covered by a duplicate-free set S' of
   classes that has at least |S| members counted with multiplicity *)
Definition group_ok (P : list vcls) (voters : list nat) : Prop :=
  length voters = nvoters P /\
  forall S, sublist S voters -> S <> [] ->
    exists S', NoDup S' /\ (forall i, In i S' <-> In i S) /\ (forall i, In i S' -> (i < length P)%nat) /\
               Qnat (length S) <= mS P S'.

(* single voters *)
Definition unit_mults (P : list vcls) : Prop := Forall (fun v => vmul v = 1%nat) P.

Lemma unit_wf P : unit_mults P -> wf_voters P.
Proof. unfold unit_mults, wf_voters. apply Forall_impl. intros v E. rewrite E. lia. Qed.

Lemma unit_nvoters P : unit_mults P -> nvoters P = length P.
Proof. induction 1 as [|v t E _ IH]; simpl; [reflexivity|]. rewrite E, IH. reflexivity. Qed.

Lemma unit_mul P i : unit_mults P -> (i < length P)%nat -> s_mul P i == 1.
Proof.
  intros H Hi. unfold s_mul. unfold unit_mults in H. rewrite Forall_forall in H.
  rewrite (H (nth i P (mkV [] 0))) by (apply nth_In; exact Hi). reflexivity.
Qed.

Lemma unit_mS P S : unit_mults P -> (forall i, In i S -> (i < length P)%nat) -> mS P S == Qnat (length S).
Proof.
  intros H. unfold mS. induction S as [|a t IH]; intro Hlt; simpl length; simpl map; simpl Qsum.
  - reflexivity.
  - rewrite Qnat_S, IH by (intros i Hi; apply Hlt; right; exact Hi).
    rewrite (unit_mul P a H) by (apply Hlt; left; reflexivity). reflexivity.
Qed.

Lemma group_ok_unit P : unit_mults P -> group_ok P (seq 0 (length P)).
Proof.
  intro H. split; [rewrite seq_length; symmetry; apply unit_nvoters; exact H|].
  intros S Hsub _. destruct (ej_sublist_seq S (length P) Hsub) as [Hnd Hlt].
  exists S. split; [exact Hnd|]. split; [tauto|]. split; [exact Hlt|].
  rewrite (unit_mS P S H Hlt). apply Qle_refl.
Qed.

(* classes with multiplicities: class i stands for vmul_i voters *)
Definition cmul (P : list vcls) (i : nat) : nat := vmul (nth i P (mkV [] 0)).
Definition class_voters (P : list vcls) : list nat := flat_map (fun i => repeat i (cmul P i)) (seq 0 (length P)).

Lemma ej_len_flat (g : nat -> nat) l : length (flat_map (fun i => repeat i (g i)) l) = list_sum (map g l).
Proof. induction l as [|a t IH]; simpl; [reflexivity|]. rewrite app_length, repeat_length, IH. reflexivity. Qed.

Lemma ej_nvoters_sum P : nvoters P = list_sum (map vmul P).
Proof. induction P as [|v t IH]; simpl; [reflexivity|]. rewrite IH. reflexivity. Qed.

Lemma class_voters_length P : length (class_voters P) = nvoters P.
Proof.
  unfold class_voters. rewrite ej_len_flat, ej_nvoters_sum. f_equal. unfold cmul.
  rewrite <- (map_map (fun i => nth i P (mkV [] 0)) vmul). rewrite map_nth_seq. reflexivity.
Qed.

Lemma ej_count_flat (g : nat -> nat) i : forall l, NoDup l ->
  (count_occ Nat.eq_dec (flat_map (fun j => repeat j (g j)) l) i <= g i)%nat.
Proof.
  induction l as [|a t IH]; intro Hnd; simpl; [lia|]. inversion Hnd as [|? ? Ha Ht]; subst.
  rewrite count_occ_app. destruct (Nat.eq_dec i a) as [->|Hne].
  - rewrite (count_occ_repeat_eq Nat.eq_dec (g a) eq_refl).
    assert (E : count_occ Nat.eq_dec (flat_map (fun j => repeat j (g j)) t) a = 0%nat).
    { apply count_occ_not_In. intro Hin. apply in_flat_map in Hin. destruct Hin as [j [Hj Hr]].
      apply repeat_spec in Hr. subst. contradiction. }
    rewrite E. lia.
  - rewrite (count_occ_repeat_neq Nat.eq_dec (g a) Hne). simpl. apply IH. exact Ht.
Qed.

Lemma ej_count_sublist (S L : list nat) i : sublist S L ->
  (count_occ Nat.eq_dec S i <= count_occ Nat.eq_dec L i)%nat.
Proof.
  induction 1 as [|x s l Hs IH|x s l Hs IH]; simpl; [lia| |]; destruct (Nat.eq_dec x i); lia.
Qed.

Lemma ej_ind_sum a : forall D, NoDup D -> In a D ->
  list_sum (map (fun i => if Nat.eq_dec a i then 1%nat else 0%nat) D) = 1%nat.
Proof.
  induction D as [|d t IH]; intros Hnd Hin; [destruct Hin|]. inversion Hnd as [|? ? Hd Ht]; subst. simpl.
  destruct (Nat.eq_dec a d) as [->|Hne].
  - assert (E : list_sum (map (fun i => if Nat.eq_dec d i then 1%nat else 0%nat) t) = 0%nat).
    { clear IH Hnd Ht Hin. induction t as [|y t IH]; simpl; [reflexivity|].
      destruct (Nat.eq_dec d y) as [->|_]; [exfalso; apply Hd; left; reflexivity|].
      apply IH. intro H. apply Hd. right. exact H. }
    rewrite E. reflexivity.
  - destruct Hin as [E|Hin]; [congruence|]. rewrite (IH Ht Hin). reflexivity.
Qed.

Lemma ej_len_count (D : list nat) : NoDup D -> forall S, (forall i, In i S -> In i D) ->
  length S = list_sum (map (count_occ Nat.eq_dec S) D).
Proof.
  intros Hnd. induction S as [|a t IH]; intro Hin.
  - simpl. clear. induction D as [|d D' IHD]; simpl; [reflexivity|exact IHD].
  - rewrite (map_ext (count_occ Nat.eq_dec (a :: t))
               (fun i => ((if Nat.eq_dec a i then 1 else 0) + count_occ Nat.eq_dec t i)%nat))
      by (intro i; simpl; destruct (Nat.eq_dec a i); reflexivity).
    assert (Esum : forall (f g : nat -> nat) l, list_sum (map (fun i => (f i + g i)%nat) l)
                                                = (list_sum (map f l) + list_sum (map g l))%nat).
    { intros f g l. induction l as [|y l IHl]; simpl; [reflexivity|]. rewrite IHl. lia. }
    rewrite Esum, (ej_ind_sum a D Hnd (Hin a (or_introl eq_refl))).
    rewrite <- IH by (intros i Hi; apply Hin; right; exact Hi). reflexivity.
Qed.

Lemma ej_mS_nat P D : mS P D == Qnat (list_sum (map (cmul P) D)).
Proof.
  unfold mS. induction D as [|d t IH]; simpl; [reflexivity|].
  rewrite Qnat_add, IH. reflexivity.
Qed.

Lemma ej_Qnat_le a b : (a <= b)%nat -> Qnat a <= Qnat b.
Proof. intro H. unfold Qnat, Qle. simpl. lia. Qed.

Lemma ej_list_sum_le (f g : nat -> nat) l : (forall i, In i l -> (f i <= g i)%nat) ->
  (list_sum (map f l) <= list_sum (map g l))%nat.
Proof.
  induction l as [|a t IH]; intro H; simpl; [lia|].
  pose proof (H a (or_introl eq_refl)). assert (list_sum (map f t) <= list_sum (map g t))%nat by (apply IH; intros i Hi; apply H; right; exact Hi). lia.
Qed.

Lemma group_ok_mult P : group_ok P (class_voters P).
Proof.
  split; [apply class_voters_length|]. intros S Hsub _.
  exists (nodup Nat.eq_dec S). split; [apply NoDup_nodup|]. split; [intro i; apply nodup_In|]. split.
  - intros i Hi. apply nodup_In in Hi. pose proof (sublist_In i Hsub Hi) as Hin.
    unfold class_voters in Hin. apply in_flat_map in Hin. destruct Hin as [j [Hj Hr]].
    apply repeat_spec in Hr. subst. apply in_seq in Hj. lia.
  - rewrite ej_mS_nat. apply ej_Qnat_le.
    rewrite (ej_len_count (nodup Nat.eq_dec S) (NoDup_nodup Nat.eq_dec S) S)
      by (intros i Hi; apply nodup_In; exact Hi).
    apply ej_list_sum_le. intros i _.
    eapply Nat.le_trans; [apply (ej_count_sublist S (class_voters P) i Hsub)|].
    unfold class_voters. apply ej_count_flat. apply seq_NoDup.
Qed.

(* ---------- the election seen by the JR definitions ---------- *)

Definition ej_inst (x : spec_in) : inst := mkInst (si_costs x) (si_budget x).
Definition ej_ut (x : spec_in) (i : nat) (p : proj) : Q := s_util (si_voters x) i p.

Lemma ej_cost_eq x p : cost (ej_inst x) p = s_cost (si_costs x) p.
Proof. reflexivity. Qed.

Lemma ej_cost_nonneg x p : Forall (fun c => 0 <= c) (si_costs x) -> 0 <= s_cost (si_costs x) p.
Proof. intro H. apply (cost_nonneg (ej_inst x) p H). Qed.

(* candidates with an empty initial allocation *)
Lemma ej_pool_zeros x p i :
  si_init x = [] -> (p < si_n x)%nat -> (i < length (si_voters x))%nat -> 0 < ej_ut x i p ->
  (0 < s_cost (si_costs x) p -> In p (si_pool x)) /\ (s_cost (si_costs x) p <= 0 -> In p (si_zeros x)).
Proof.
  intros Hinit Hp Hi Hu.
  assert (Hc : In p (si_cands x)).
  { unfold si_cands. apply filter_In. split; [apply in_seq; lia|]. rewrite Hinit. reflexivity. }
  assert (Hs : si_supported x p = true).
  { unfold si_supported.
    assert (Hin : In i (s_supporters (si_voters x) p)) by (apply ej_supp_spec; split; assumption).
    destruct (s_supporters (si_voters x) p); [destruct Hin|reflexivity]. }
  split; intro H.
  - unfold si_pool. apply filter_In. split; [exact Hc|]. rewrite Hs. simpl. apply Qltb_iff. exact H.
  - unfold si_zeros. apply filter_In. split; [exact Hc|]. rewrite Hs. simpl. apply Qleb_iff. exact H.
Qed.

Lemma ej_pool_pos x p : In p (si_pool x) -> 0 < s_cost (si_costs x) p.
Proof.
  intro H. unfold si_pool in H. apply filter_In in H. destruct H as [_ H].
  apply andb_true_iff in H. destruct H as [_ H]. apply Qltb_iff in H. exact H.
Qed.

Lemma ej_outcome_NoDup x tb b W :
  spec_run (si_costs x) (si_voters x) tb b (si_pool x) W -> NoDup (si_zeros x ++ W).
Proof.
  intro Hrun. destruct (ej_run_incl _ _ _ _ _ _ Hrun) as [Hin Hnd].
  apply NoDup_app_intro; [|exact Hnd|].
  - unfold si_zeros, si_cands. apply NoDup_filter. apply NoDup_filter. apply seq_NoDup.
  - intros q Hz Hw. apply Hin in Hw. apply ej_pool_pos in Hw.
    unfold si_zeros in Hz. apply filter_In in Hz. destruct Hz as [_ Hz].
    apply andb_true_iff in Hz. destruct Hz as [_ Hz]. apply Qleb_iff in Hz. lra.
Qed.

(* ---------- the two guarantees on a run of the declarative rule ---------- *)

Section Run.
Variable x : spec_in.
Variable voters : list nat.
Variable approves : nat -> proj -> bool.
Variable b0 : Q.
Variable W O : list proj.

Let I := ej_inst x.
Let P := si_voters x.
Let cs := si_costs x.

Hypothesis Hinit : si_init x = [].
Hypothesis Hcs : Forall (fun c => 0 <= c) (si_costs x).
Hypothesis Hv : wf_voters P.
Hypothesis Hg : group_ok P voters.
Hypothesis Hb0 : si_share x <= b0.
Hypothesis HB : 0 <= si_budget x.
Hypothesis Hrun : spec_run (si_costs x) (si_voters x) (si_tb x)
                           (repeat b0 (length (si_voters x))) (si_pool x) W.
Hypothesis HO : forall q, In q (si_zeros x) \/ In q W -> In q O.

Lemma ej_share_eq : (0 < nvoters P)%nat -> si_budget x <= b0 * Qnat (nvoters P).
Proof.
  intro Hn. pose proof (Qnat_pos (nvoters P) Hn) as Hq.
  assert (E : si_share x * Qnat (nvoters P) == si_budget x).
  { unfold si_share. rewrite Hinit. unfold si_tcost. simpl. fold P. field. lra. }
  assert (si_share x * Qnat (nvoters P) <= b0 * Qnat (nvoters P)) by (apply Qmult_le_compat_r; lra).
  lra.
Qed.

(* what cohesiveness gives, in the words of the rule: a duplicate-free set S' of classes covering S *)
Lemma ej_cohesive_facts S T :
  cohesive_app I nat voters approves S T ->
  exists S', NoDup S' /\ S' <> [] /\ (forall i, In i S' -> (i < length P)%nat) /\
    (forall i, In i S' -> In i S) /\ (forall i, In i S -> In i voters) /\
    NoDup T /\ (forall p, In p T -> (p < si_n x)%nat) /\
    (forall i p, In i S -> In p T -> approves i p = true) /\
    0 <= b0 /\ tcost I T <= mS P S' * b0.
Proof.
  intros [[Hsub Hne] [[HT HTn] [_ [Hlarge Happ]]]].
  destruct Hg as [Hlen Hgrp]. destruct (Hgrp S Hsub Hne) as [S' [HSnd [HSeq [HSlt HSm]]]].
  assert (Hn : (0 < nvoters P)%nat).
  { rewrite <- Hlen. pose proof (sublist_length Hsub). destruct S; [congruence|]. simpl in *. lia. }
  pose proof (Qnat_pos (nvoters P) Hn) as Hnq. pose proof (ej_share_eq Hn) as Eb.
  assert (Hb0' : 0 <= b0) by nra.
  exists S'. split; [exact HSnd|]. split.
  { destruct S as [|a t]; [congruence|]. intro E. rewrite E in HSeq. apply (proj2 (HSeq a)). left. reflexivity. }
  split; [exact HSlt|]. split; [intros i Hi; apply HSeq; exact Hi|].
  split; [intros i Hi; apply (sublist_In i Hsub Hi)|].
  split; [exact HT|]. split; [exact HTn|]. split; [exact Happ|]. split; [exact Hb0'|].
  unfold large_enough in Hlarge. rewrite Hlen in Hlarge.
  change (budget I) with (si_budget x) in Hlarge.
  set (n := Qnat (nvoters P)) in *. set (s := Qnat (length S)) in *. set (m := mS P S') in *.
  assert (H0 : s * si_budget x <= s * (b0 * n)).
  { rewrite (Qmult_comm s (si_budget x)), (Qmult_comm s (b0 * n)). apply Qmult_le_compat_r; [exact Eb|apply Qnat_nonneg]. }
  assert (H1 : s * (b0 * n) <= m * (b0 * n)) by (apply Qmult_le_compat_r; [exact HSm|nra]).
  assert (H2 : tcost I T * n <= (m * b0) * n) by lra.
  apply Qmult_lt_0_le_reg_r with n; assumption.
Qed.

(* a project of T outside the outcome, with the least cost among those *)
Lemma ej_pick_pstar (S : list nat) T :
  NoDup T -> (forall p, In p T -> (p < si_n x)%nat) ->
  (exists i, In i S /\ (i < length P)%nat /\ forall p, In p T -> 0 < ej_ut x i p) ->
  (exists p, In p T /\ ~ In p O) ->
  exists pstar, In pstar T /\ ~ In pstar O /\ In pstar (si_pool x) /\ ~ In pstar W /\
    (forall q, In q T -> ~ In q O -> s_cost cs pstar <= s_cost cs q).
Proof.
  intros HT HTn [i0 [Hi0 [Hi0P Hup]]] [p0 [Hp0 Hn0]].
  assert (Hne : outside O T <> []).
  { intro E. apply Hn0. apply (outside_nil O T E p0 Hp0). }
  destruct (ej_argmin (s_cost cs) (outside O T) Hne) as [ps [Hps Hmin]].
  apply outside_In in Hps. destruct Hps as [HpT HpO].
  exists ps. split; [exact HpT|]. split; [exact HpO|].
  destruct (ej_pool_zeros x ps i0 Hinit (HTn ps HpT) Hi0P (Hup ps HpT)) as [Hpool Hzero].
  split; [|split].
  - destruct (Qlt_le_dec 0 (s_cost cs ps)) as [Hpos|Hle]; [apply Hpool; exact Hpos|].
    exfalso. apply HpO. apply HO. left. apply Hzero. exact Hle.
  - intro Hw. apply HpO. apply HO. right. exact Hw.
  - intros q Hq HqO. apply Hmin. apply outside_In. split; assumption.
Qed.

(* the purchases are part of the outcome *)
Lemma ej_W_le_O (f : proj -> Q) : (forall q, 0 <= f q) -> Qsum (map f W) <= Qsum (map f O).
Proof.
  intro Hf. destruct (ej_run_incl _ _ _ _ _ _ Hrun) as [_ Hnd].
  apply ej_sum_incl_le; [exact Hnd| |intros q _; apply Hf].
  intros q Hq. apply HO. right. exact Hq.
Qed.

(* ----- Cost_Sat: EJR up to any project (strict form) ----- *)
Theorem ej_cost_run :
  ut_approval nat voters approves (ej_ut x) (cost I) ->
  forall S T, cohesive_app I nat voters approves S T -> (forall p, In p T -> 0 < cost I p) ->
  exists i, In i S /\
    forall p, In p T -> ~ In p O -> sat nat (ej_ut x) i T < sat nat (ej_ut x) i O + ej_ut x i p.
Proof.
  intros Hut S T HC HTpos.
  destruct (ej_cohesive_facts S T HC) as [S' [HSnd [HSne [HSlt [HSS [HinV [HT [HTn [Happ [Hb0' Hlarge]]]]]]]]]].
  assert (HuT : forall i p, In i S' -> In p T -> ej_ut x i p == s_cost cs p).
  { intros i p Hi Hp. rewrite (Hut i p (HinV i (HSS i Hi))), (Happ i p (HSS i Hi) Hp). reflexivity. }
  assert (Hu0 : forall i q, In i S' -> 0 <= ej_ut x i q).
  { intros i q Hi. rewrite (Hut i q (HinV i (HSS i Hi))).
    destruct (approves i q); [apply (ej_cost_nonneg x q Hcs)|apply Qle_refl]. }
  destruct S' as [|i0 S0] eqn:ES; [congruence|]. rewrite <- ES in *.
  assert (Hi0 : In i0 S') by (rewrite ES; left; reflexivity).
  destruct (subset_dec_ej T O) as [Hall|Hex].
  - exists i0. split; [apply HSS; exact Hi0|].
    intros p Hp Hn. exfalso. apply Hn. apply Hall. exact Hp.
  - destruct (ej_pick_pstar S' T HT HTn) as [ps [HpT [HpO [Hpool [HpW Hmin]]]]]; [|exact Hex|].
    { exists i0. split; [exact Hi0|]. split; [apply HSlt; exact Hi0|].
      intros p Hp. rewrite (HuT i0 p Hi0 Hp). apply (HTpos p Hp). }
    assert (HcT : forall p, In p T -> s_cost cs p <= tcost I T).
    { intros p Hp. apply (ej_le_sum (cost I) T p); [|exact Hp]. intros y _. apply (ej_cost_nonneg x y Hcs). }
    destruct (ej_cost_group cs P (si_tb x) Hv S' HSnd HSne HSlt b0 (si_pool x) W ps)
      as [i [Hi Hlt]]; try assumption.
    + intros i Hi. apply (HuT i ps Hi HpT).
    + intros p Hp. apply ej_pool_pos. exact Hp.
    + eapply Qle_trans; [apply (HcT ps HpT)|exact Hlarge].
    + exists i. split; [apply HSS; exact Hi|]. intros p Hp HnO.
      assert (EsT : sat nat (ej_ut x) i T == tcost I T).
      { unfold sat, tcost. apply ej_sum_ext. intros q Hq. apply (HuT i q Hi Hq). }
      pose proof (ej_W_le_O (ej_ut x i) (fun q => Hu0 i q Hi)) as HWO.
      pose proof (Hmin p Hp HnO) as Hm. rewrite <- (HuT i p Hi Hp) in Hm.
      rewrite EsT. unfold sat. change (s_util P i) with (ej_ut x i) in Hlt. lra.
Qed.

(* ----- Cardinality_Sat: some member is (strictly) within one project of T ----- *)
Theorem ej_card_run :
  NoDup O ->
  ut_approval nat voters approves (ej_ut x) (fun _ => 1) ->
  forall S T, cohesive_app I nat voters approves S T ->
  exists i, In i S /\ sat nat (ej_ut x) i T < sat nat (ej_ut x) i O + 1.
Proof.
  intros HOnd Hut S T HC.
  destruct (ej_cohesive_facts S T HC) as [S' [HSnd [HSne [HSlt [HSS [HinV [HT [HTn [Happ [Hb0' Hlarge]]]]]]]]]].
  assert (HuT : forall i p, In i S' -> In p T -> ej_ut x i p == 1).
  { intros i p Hi Hp. rewrite (Hut i p (HinV i (HSS i Hi))), (Happ i p (HSS i Hi) Hp). reflexivity. }
  assert (Hu01 : forall i q, In i S' -> ej_ut x i q == 0 \/ ej_ut x i q == 1).
  { intros i q Hi. rewrite (Hut i q (HinV i (HSS i Hi))). destruct (approves i q); [right|left]; reflexivity. }
  assert (Hu0 : forall i q, In i S' -> 0 <= ej_ut x i q).
  { intros i q Hi. destruct (Hu01 i q Hi) as [E|E]; rewrite E; lra. }
  destruct S' as [|i0 S0] eqn:ES; [congruence|]. rewrite <- ES in *.
  assert (Hi0 : In i0 S') by (rewrite ES; left; reflexivity).
  destruct (subset_dec_ej T O) as [Hall|Hex].
  - exists i0. split; [apply HSS; exact Hi0|].
    assert (sat nat (ej_ut x) i0 T <= sat nat (ej_ut x) i0 O).
    { unfold sat. apply ej_sum_incl_le; [exact HT|exact Hall|]. intros q _. apply Hu0. exact Hi0. }
    lra.
  - destruct (ej_pick_pstar S' T HT HTn) as [ps [HpT [HpO [Hpool [HpW Hmin]]]]]; [|exact Hex|].
    { exists i0. split; [exact Hi0|]. split; [apply HSlt; exact Hi0|].
      intros p Hp. rewrite (HuT i0 p Hi0 Hp). lra. }
    assert (Hcnn : forall p, 0 <= s_cost cs p) by (intro p; apply (ej_cost_nonneg x p Hcs)).
    assert (HcT : forall p, In p T -> s_cost cs p <= tcost I T).
    { intros p Hp. apply (ej_le_sum (cost I) T p); [|exact Hp]. intros y _. apply Hcnn. }
    pose proof (ej_pool_pos x ps Hpool) as Hcpos. fold cs in Hcpos.
    destruct (ej_card_group cs P (si_tb x) Hv S' HSnd HSne HSlt T b0 (si_pool x) W ps)
      as [i [Hi Hlt]]; try assumption.
    + intros p Hp. apply ej_pool_pos. exact Hp.
    + eapply Qle_trans; [apply (HcT ps HpT)|exact Hlarge].
    + exists i. split; [apply HSS; exact Hi|].
      set (cstar := s_cost cs ps) in *.
      apply (ej_card_account (s_cost cs) (ej_ut x i) (ej_wt cs T cstar) T O cstar HT HOnd).
      * intros q Hq. apply (HuT i q Hi Hq).
      * exact Hcpos.
      * exact Hmin.
      * intros q Hq. unfold ej_wt. apply memb_In in Hq. rewrite Hq. apply Q.le_min_l.
      * intros q Hq. unfold ej_wt. apply memb_false_In in Hq. rewrite Hq. reflexivity.
      * assert (HWO : Qsum (map (fun q => ej_wt cs T cstar q * ej_ut x i q) W)
                      <= Qsum (map (fun q => ej_wt cs T cstar q * ej_ut x i q) O)).
        { apply ej_W_le_O. intro q. pose proof (ej_wt_nonneg cs T cstar q Hcnn (Qlt_le_weak _ _ Hcpos)).
          pose proof (Hu0 i q Hi). nra. }
        change (s_util P i) with (ej_ut x i) in Hlt.
        change (Qsum (map (s_cost cs) T)) with (tcost I T). lra.
Qed.

(* satisfactions are integers, so the strict bound is plain EJR *)
Theorem ej_card_run_plain :
  NoDup O ->
  ut_approval nat voters approves (ej_ut x) (fun _ => 1) ->
  forall S T, cohesive_app I nat voters approves S T ->
  exists i, In i S /\ sat nat (ej_ut x) i T <= sat nat (ej_ut x) i O.
Proof.
  intros HOnd Hut S T HC.
  destruct (ej_card_run HOnd Hut S T HC) as [i [Hi Hlt]]. exists i. split; [exact Hi|].
  destruct (ej_cohesive_facts S T HC) as [_ [_ [_ [_ [_ [HinV _]]]]]].
  assert (H01 : forall q, ej_ut x i q == 0 \/ ej_ut x i q == 1).
  { intro q. rewrite (Hut i q (HinV i Hi)). destruct (approves i q); [right|left]; reflexivity. }
  unfold sat in *.
  destruct (ej_sum_01 (ej_ut x i) T (fun q _ => H01 q)) as [a Ea].
  destruct (ej_sum_01 (ej_ut x i) O (fun q _ => H01 q)) as [b Eb].
  rewrite Ea, Eb in *. apply ej_Qnat_lt_succ. exact Hlt.
Qed.

End Run.

(* ---------- in the words of Spec/JR.v ---------- *)

Section RunJR.
Variable x : spec_in.
Variable voters : list nat.
Variable approves : nat -> proj -> bool.
Variable b0 : Q.
Variable W O : list proj.
Hypothesis Hinit : si_init x = [].
Hypothesis Hv : wf_voters (si_voters x).
Hypothesis Hg : group_ok (si_voters x) voters.
Hypothesis Hb0 : si_share x <= b0.
Hypothesis HB : 0 <= si_budget x.
Hypothesis Hrun : spec_run (si_costs x) (si_voters x) (si_tb x)
                           (repeat b0 (length (si_voters x))) (si_pool x) W.
Hypothesis HO : forall q, In q (si_zeros x) \/ In q W -> In q O.

(* Cost_Sat, restricted to the sets T of positive-cost projects (the domain of the module's checker) *)
Theorem ej_cost_run_upto_any :
  Forall (fun c => 0 <= c) (si_costs x) ->
  ut_approval nat voters approves (ej_ut x) (cost (ej_inst x)) ->
  forall S T, cohesive_app (ej_inst x) nat voters approves S T -> (forall p, In p T -> 0 < cost (ej_inst x) p) ->
  exists i, In i S /\ sat_upto UpToAny (ej_ut x i) T O (sat nat (ej_ut x) i O) (sat nat (ej_ut x) i T).
Proof.
  intros Hcs Hut S T HC Hpos.
  destruct (ej_cost_run x voters approves b0 W O Hinit Hcs Hv Hg Hb0 HB Hrun HO Hut S T HC Hpos) as [i [Hi H]].
  exists i. split; [exact Hi|]. simpl. intros p Hp Hn. apply Qlt_le_weak. apply H; assumption.
Qed.

(* ... hence, when every project has a positive cost, EJR up to any project *)
Theorem ej_cost_run_EJR_any :
  Forall (fun c => 0 < c) (si_costs x) ->
  ut_approval nat voters approves (ej_ut x) (cost (ej_inst x)) ->
  EJR_app (ej_inst x) nat voters approves (ej_ut x) UpToAny O.
Proof.
  intros Hcs Hut S T HC.
  assert (Hcs0 : Forall (fun c => 0 <= c) (si_costs x)).
  { eapply Forall_impl; [|exact Hcs]. intros c Hc. apply Qlt_le_weak. exact Hc. }
  apply (ej_cost_run_upto_any Hcs0 Hut S T HC).
  intros p Hp. destruct HC as [_ [[_ HTn] _]]. rewrite Forall_forall in Hcs. apply Hcs.
  unfold cost. apply nth_In. apply (HTn p Hp).
Qed.

Theorem ej_card_run_EJR :
  Forall (fun c => 0 <= c) (si_costs x) -> NoDup O ->
  ut_approval nat voters approves (ej_ut x) (fun _ => 1) ->
  EJR_app (ej_inst x) nat voters approves (ej_ut x) Plain O.
Proof.
  intros Hcs HOnd Hut S T HC.
  destruct (ej_card_run_plain x voters approves b0 W O Hinit Hcs Hv Hg Hb0 HB Hrun HO HOnd Hut S T HC) as [i [Hi H]].
  exists i. split; [exact Hi|exact H].
Qed.

Theorem ej_card_run_EJR_one :
  Forall (fun c => 0 <= c) (si_costs x) -> NoDup O ->
  ut_approval nat voters approves (ej_ut x) (fun _ => 1) ->
  EJR_app (ej_inst x) nat voters approves (ej_ut x) UpToOne O.
Proof.
  intros Hcs HOnd Hut S T HC. destruct (ej_card_run_EJR Hcs HOnd Hut S T HC) as [i [Hi H]].
  exists i. split; [exact Hi|]. left. exact H.
Qed.

End RunJR.
