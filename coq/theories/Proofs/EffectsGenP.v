(* Proofs/EffectsGenP.v -- soundness of the executable test [writes_only_fresh] (Model/EffectsGen.v):
   a summary that passes it leaves every cell below n caller-visibly unchanged, for every fuel of exec,
   provided its work parameters (none for the public entry points) lie outside the first n cells. *)
From PB Require Import Model.Effects Model.EffectsGen Proofs.EffectsP.

Lemma wof_nil fuel progs na af nl : wof fuel progs na af [] nl = true.
Proof. destruct fuel; reflexivity. Qed.

Lemma wof_cons fuel progs na af st rest nl :
  wof fuel progs na af (st :: rest) nl =
  match st with
  | SCopy src => resolvable na nl src && wof fuel progs na af rest (S nl)
  | SNew _ => wof fuel progs na af rest (S nl)
  | SSetKey dst _ _ => resolvable na nl dst && ref_fresh af dst && wof fuel progs na af rest nl
  | SAppend dst _ => resolvable na nl dst && ref_fresh af dst && wof fuel progs na af rest nl
  | SMemo dst _ _ => resolvable na nl dst && wof fuel progs na af rest nl
  | SCall f rs =>
      match fuel with
      | O => false
      | S fuel' =>
          forallb (resolvable na nl) rs
          && wof fuel' progs (length rs) (map (ref_fresh af) rs) (progs f) 0
          && wof fuel progs na af rest nl
      end
  end.
Proof. destruct fuel; destruct st; reflexivity. Qed.

Lemma resolvable_resolve args locals r :
  resolvable (length args) (length locals) r = true -> exists l, resolve args locals r = Some l.
Proof.
  destruct r as [i|i]; simpl; intros H; apply Nat.ltb_lt in H.
  - destruct (nth_error args i) eqn:E; [eauto|]. apply nth_error_None in E. lia.
  - destruct (nth_error locals i) eqn:E; [eauto|]. apply nth_error_None in E. lia.
Qed.

(* when every reference resolves, the callee's i-th argument is the resolution of the i-th reference *)
Lemma resolve_all_nth args locals rs :
  forallb (resolvable (length args) (length locals)) rs = true ->
  length (resolve_all args locals rs) = length rs /\
  forall i l, nth_error (resolve_all args locals rs) i = Some l ->
    exists r, nth_error rs i = Some r /\ resolve args locals r = Some l.
Proof.
  induction rs as [|r rs IH]; intros H.
  - split; [reflexivity|]. intros [|i] l; discriminate.
  - simpl in H. apply andb_true_iff in H. destruct H as [Hr Hrs].
    destruct (resolvable_resolve _ _ _ Hr) as [l0 El0].
    destruct (IH Hrs) as [IH1 IH2].
    unfold resolve_all in *. simpl. rewrite El0. simpl. split; [now rewrite IH1|].
    intros [|i] l Hl; simpl in Hl.
    + exists r. split; [reflexivity|]. congruence.
    + destruct (IH2 i l Hl) as [r' [A B]]. exists r'. split; assumption.
Qed.

(* a fresh reference resolves outside the caller's view *)
Lemma fresh_outside n af args locals r l :
  work_outside n af args -> (forall x, In x locals -> (n <= x)%nat) ->
  ref_fresh af r = true -> resolve args locals r = Some l -> (n <= l)%nat.
Proof.
  intros Hw Hl Hf Hr. destruct r as [i|i]; simpl in *.
  - apply (Hw i l Hr Hf).
  - apply Hl. apply (nth_error_In _ _ Hr).
Qed.

Theorem wof_frame progs : forall fuel na af p nl,
  wof fuel progs na af p nl = true ->
  forall fuel' n args locals s,
  length args = na -> length locals = nl ->
  work_outside n af args ->
  (forall l, In l locals -> (n <= l)%nat) ->
  (n <= length s)%nat ->
  (length s <= length (exec fuel' progs args p locals s))%nat /\
  caller_view n (exec fuel' progs args p locals s) = caller_view n s.
Proof.
  induction fuel as [fuel IHf] using lt_wf_ind.
  intros na af p. induction p as [|st rest IHp]; intros nl Hw fuel' n args locals s Ha Hl Hwo Hloc Hn.
  - rewrite exec_nil. split; [lia|reflexivity].
  - rewrite wof_cons in Hw. rewrite exec_cons.
    assert (Hfresh : forall l, In l (locals ++ [length s]) -> (n <= l)%nat).
    { intros l Hin. apply in_app_or in Hin. destruct Hin as [Hin|[<-|[]]]; [apply Hloc; exact Hin|exact Hn]. }
    assert (Hlen1 : length (locals ++ [length s]) = S nl) by (rewrite app_length; simpl; lia).
    destruct st as [src|v|dst key v|dst v|dst key v|f rs].
    + apply andb_true_iff in Hw. destruct Hw as [Hr Hrest].
      destruct (resolve args locals src) as [l|] eqn:E.
      * destruct (IHp (S nl) Hrest fuel' n args (locals ++ [length s]) (s ++ [mkCell (vis (get s l)) []])
                    Ha Hlen1 Hwo Hfresh) as [H1 H2].
        { rewrite app_length. simpl. lia. }
        rewrite app_length in H1. simpl in H1. split; [lia|]. rewrite H2. apply app_view. exact Hn.
      * subst na nl. destruct (resolvable_resolve _ _ _ Hr) as [l El]. congruence.
    + destruct (IHp (S nl) Hw fuel' n args (locals ++ [length s]) (s ++ [mkCell v []])
                  Ha Hlen1 Hwo Hfresh) as [H1 H2].
      { rewrite app_length. simpl. lia. }
      rewrite app_length in H1. simpl in H1. split; [lia|]. rewrite H2. apply app_view. exact Hn.
    + apply andb_true_iff in Hw. destruct Hw as [Hw Hrest].
      apply andb_true_iff in Hw. destruct Hw as [Hr Hf].
      destruct (resolve args locals dst) as [l|] eqn:E; [|apply (IHp nl Hrest); assumption].
      pose proof (fresh_outside n af args locals dst l Hwo Hloc Hf E) as Hnl.
      destruct (IHp nl Hrest fuel' n args locals (upd s l (fun c => mkCell (set_key key v (vis c)) (memo c)))
                  Ha Hl Hwo Hloc) as [H1 H2].
      { rewrite upd_length. exact Hn. }
      rewrite upd_length in H1. split; [exact H1|]. rewrite H2. apply upd_view_far. exact Hnl.
    + apply andb_true_iff in Hw. destruct Hw as [Hw Hrest].
      apply andb_true_iff in Hw. destruct Hw as [Hr Hf].
      destruct (resolve args locals dst) as [l|] eqn:E; [|apply (IHp nl Hrest); assumption].
      pose proof (fresh_outside n af args locals dst l Hwo Hloc Hf E) as Hnl.
      destruct (IHp nl Hrest fuel' n args locals (upd s l (fun c => mkCell (append_kid v (vis c)) (memo c)))
                  Ha Hl Hwo Hloc) as [H1 H2].
      { rewrite upd_length. exact Hn. }
      rewrite upd_length in H1. split; [exact H1|]. rewrite H2. apply upd_view_far. exact Hnl.
    + apply andb_true_iff in Hw. destruct Hw as [Hr Hrest].
      destruct (resolve args locals dst) as [l|]; [|apply (IHp nl Hrest); assumption].
      destruct (IHp nl Hrest fuel' n args locals (upd s l (fun c => mkCell (vis c) ((key, v) :: memo c)))
                  Ha Hl Hwo Hloc) as [H1 H2].
      { rewrite upd_length. exact Hn. }
      rewrite upd_length in H1. split; [exact H1|]. rewrite H2. apply upd_view_vis. reflexivity.
    + destruct fuel as [|fuel0]; [discriminate|].
      apply andb_true_iff in Hw. destruct Hw as [Hw Hrest].
      apply andb_true_iff in Hw. destruct Hw as [Hrs Hcallee].
      destruct fuel' as [|fuel1]; [apply (IHp nl Hrest); assumption|].
      subst na nl.
      destruct (resolve_all_nth args locals rs Hrs) as [Hlen Hnth].
      assert (Hwo' : work_outside n (map (ref_fresh af) rs) (resolve_all args locals rs)).
      { intros i l Hi Hfr. destruct (Hnth i l Hi) as [r [Hr1 Hr2]].
        apply (fresh_outside n af args locals r l Hwo Hloc); [|exact Hr2].
        rewrite (nth_indep _ false (ref_fresh af r)) in Hfr.
        - rewrite map_nth in Hfr. rewrite (nth_error_nth _ _ _ Hr1) in Hfr. exact Hfr.
        - rewrite map_length. apply nth_error_Some. congruence. }
      destruct (IHf fuel0 (Nat.lt_succ_diag_r fuel0) (length rs) (map (ref_fresh af) rs) (progs f) 0%nat
                  Hcallee fuel1 n (resolve_all args locals rs) [] s Hlen eq_refl Hwo') as [C1 C2];
        [intros l []|exact Hn|].
      set (s1 := exec fuel1 progs (resolve_all args locals rs) (progs f) [] s) in *.
      destruct (IHp (length locals) Hrest (S fuel1) n args locals s1 eq_refl eq_refl Hwo Hloc) as [H1 H2]; [lia|].
      split; [lia|]. rewrite H2. exact C2.
Qed.

(* the form used by Props/C20gen.v: a regenerated summary that passes the test, called with as many
   references as it has parameters, leaves the first n cells of the store caller-visibly unchanged *)
Theorem summary_frame progs p : writes_only_fresh progs p = true ->
  forall fuel s args n, length args = p_arity p -> (n <= length s)%nat -> work_outside n (p_work p) args ->
  caller_view n (run_summary fuel progs p s args) = caller_view n s.
Proof.
  unfold writes_only_fresh, run_summary. intros H fuel s args n Ha Hn Hwo.
  apply andb_true_iff in H. destruct H as [_ H].
  apply (wof_frame progs _ _ _ _ _ H fuel n args [] s Ha eq_refl Hwo); [intros l []|exact Hn].
Qed.

Lemma no_work_outside p n args : no_work p = true -> work_outside n (p_work p) args.
Proof.
  unfold no_work, work_outside. intros H i l _ Hi. exfalso.
  destruct (Nat.ltb i (length (p_work p))) eqn:E.
  - apply Nat.ltb_lt in E. rewrite forallb_forall in H.
    specialize (H (nth i (p_work p) false) (nth_In _ _ E)). rewrite Hi in H. discriminate.
  - apply Nat.ltb_ge in E. rewrite nth_overflow in Hi by exact E. discriminate.
Qed.

(* public entry points (no work parameter): the WHOLE pre-existing store is caller-visibly unchanged *)
Theorem summary_pure progs p : writes_only_fresh progs p = true -> no_work p = true ->
  forall fuel s args, length args = p_arity p ->
  caller_view (length s) (run_summary fuel progs p s args) = caller_view (length s) s.
Proof.
  intros H Hnw fuel s args Ha.
  apply (summary_frame progs p H fuel s args (length s) Ha (le_n _)). apply no_work_outside. exact Hnw.
Qed.

(* the test is not vacuous in the other direction either: a keyed write or append through a parameter that is
   not a work parameter is rejected *)
Lemma wof_rejects_arg_write fuel progs na af i key v rest nl :
  nth i af false = false -> wof fuel progs na af (SSetKey (Arg i) key v :: rest) nl = false.
Proof. intros H. rewrite wof_cons. simpl. rewrite H. rewrite andb_false_r. reflexivity. Qed.

Lemma wof_rejects_arg_append fuel progs na af i v rest nl :
  nth i af false = false -> wof fuel progs na af (SAppend (Arg i) v :: rest) nl = false.
Proof. intros H. rewrite wof_cons. simpl. rewrite H. rewrite andb_false_r. reflexivity. Qed.
