(* Proofs/InvarianceP.v -- C13 for sequential Phragmen (Model/Phragmen.v): the outcome is a function of the
   election alone.  One simulation theorem ([phr_res_sim] / [phr_irr_sim]: two runs whose per-round
   comparisons agree make the same choices) is instantiated three times:
     enumeration order of the project set      [phragmen_enum_indep]     (hash seed, insertion order)
     order of the voters                        [phragmen_perm_voters]
     costs, budget (and loads) multiplied by k  [phragmen_scale]
   and the model of the code BEFORE repair R6 (no name-sort in front of the stable tie-breaking sort) is
   refuted on the 6-project witness ([phragmen_old_enum_dep]). *)
From PB Require Import Model.Phragmen Proofs.PhragmenP.
Open Scope Q_scope.

(* ------------------------------------------------------------------------------------------ *)
(* generalities                                                                                 *)
(* ------------------------------------------------------------------------------------------ *)
Lemma Permutation_filter_ {A} (f : A -> bool) l l' :
  Permutation l l' -> Permutation (filter f l) (filter f l').
Proof.
  induction 1 as [|x l l' _ IH|x y l|l l' l'' _ IH1 _ IH2]; simpl.
  - constructor.
  - destruct (f x); [constructor|]; exact IH.
  - destruct (f x), (f y); try reflexivity. apply perm_swap.
  - eapply Permutation_trans; eassumption.
Qed.

Lemma sorted_perm_eq {A} (R : A -> A -> Prop) :
  (forall x y, R x y -> R y x -> x = y) ->
  forall l1 l2, StronglySorted R l1 -> StronglySorted R l2 -> Permutation l1 l2 -> l1 = l2.
Proof.
  intros Hanti. induction l1 as [|x t IH]; intros l2 H1 H2 HP.
  - apply Permutation_nil in HP. congruence.
  - destruct l2 as [|y t2]; [apply Permutation_sym, Permutation_nil in HP; discriminate|].
    inversion H1 as [|? ? Hs1 Hall1]; subst. inversion H2 as [|? ? Hs2 Hall2]; subst.
    rewrite Forall_forall in Hall1, Hall2.
    assert (x = y).
    { assert (Hx : In x (y :: t2)) by (eapply Permutation_in; [exact HP|left; reflexivity]).
      assert (Hy : In y (x :: t)) by (eapply Permutation_in; [symmetry; exact HP|left; reflexivity]).
      destruct Hx as [->|Hx]; [reflexivity|]. destruct Hy as [->|Hy]; [reflexivity|].
      apply Hanti; [apply Hall1; exact Hy|apply Hall2; exact Hx]. }
    subst y. f_equal. apply IH; [assumption|assumption|]. eapply Permutation_cons_inv. exact HP.
Qed.

(* sorted(...) of a collection of names depends on the collection only *)
Lemma name_sort_perm_eq l l' : Permutation l l' -> name_sort l = name_sort l'.
Proof.
  intros HP. apply (sorted_perm_eq (lebP Nat.leb)).
  - unfold lebP. intros x y H1 H2. apply Nat.leb_le in H1, H2. lia.
  - apply isort_sorted; [apply nat_leb_total|apply nat_leb_trans].
  - apply isort_sorted; [apply nat_leb_total|apply nat_leb_trans].
  - eapply Permutation_trans; [symmetry; apply name_sort_perm|].
    eapply Permutation_trans; [exact HP|apply name_sort_perm].
Qed.

Lemma existsb_perm {A} (g : A -> bool) l l' : Permutation l l' -> existsb g l = existsb g l'.
Proof.
  induction 1 as [|x l l' _ IH|x y l|l l' l'' _ IH1 _ IH2]; simpl.
  - reflexivity.
  - rewrite IH. reflexivity.
  - destruct (g x), (g y); reflexivity.
  - congruence.
Qed.

Lemma existsb_ext_in {A} (g h : A -> bool) l : (forall x, In x l -> g x = h x) -> existsb g l = existsb h l.
Proof.
  induction l as [|a l IH]; simpl; intros H; [reflexivity|].
  rewrite (H a (or_introl eq_refl)), IH; [reflexivity|]. intros x Hx. apply H. right. exact Hx.
Qed.

Lemma filter_ext_in_ {A} (g h : A -> bool) l : (forall x, In x l -> g x = h x) -> filter g l = filter h l.
Proof.
  induction l as [|a l IH]; simpl; intros H; [reflexivity|].
  rewrite (H a (or_introl eq_refl)), IH; [reflexivity|]. intros x Hx. apply H. right. exact Hx.
Qed.

Lemma Qx_eqb_leb a b : Qx_eqb a b = Qx_leb a b && Qx_leb b a.
Proof.
  destruct (Qx_eqb a b) eqn:E.
  - apply Qx_eqb_iff in E. symmetry. apply andb_true_iff. split; apply Qx_leb_iff, Qx_eq_le; [exact E|].
    apply Qx_eq_sym. exact E.
  - symmetry. apply andb_false_iff.
    destruct (Qx_leb a b) eqn:E1; [|left; reflexivity]. destruct (Qx_leb b a) eqn:E2; [|right; reflexivity].
    apply Qx_leb_iff in E1, E2. assert (H : Qx_eqb a b = true) by (apply Qx_eqb_iff, Qx_le_antisym; assumption).
    congruence.
Qed.

(* ------------------------------------------------------------------------------------------ *)
(* the argmin loop under a re-presentation                                                      *)
(* ------------------------------------------------------------------------------------------ *)
(* [f] / [g]: the new maximum load of a project in the two runs.  They only have to be ordered alike, and
   equal values have to be represented alike (the model stores reduced fractions). *)
Definition canonical (f : proj -> Qx) : Prop := forall p q, Qx_eq (f p) (f q) -> f p = f q.
Definition alike (f g : proj -> Qx) : Prop := forall p q, Qx_leb (f p) (f q) = Qx_leb (g p) (g q).

Lemma alike_eqb f g p q : alike f g -> Qx_eqb (f p) (f q) = Qx_eqb (g p) (g q).
Proof. intros H. rewrite !Qx_eqb_leb, (H p q), (H q p). reflexivity. Qed.

Lemma argmin_loop_nil f : argmin_loop f [] None [] = (None, []).
Proof. reflexivity. Qed.

Lemma argmin_sim f g l l' :
  canonical f -> canonical g -> alike f g -> Permutation l l' -> l <> [] ->
  exists pm A A',
    argmin_loop f l None [] = (Some (f pm), A) /\ argmin_loop g l' None [] = (Some (g pm), A') /\
    Permutation A A' /\ In pm A /\
    (forall p, In p A -> In p l /\ f p = f pm /\ g p = g pm).
Proof.
  intros Cf Cg Hal HP Hne.
  destruct l as [|a r]; [congruence|].
  destruct l' as [|a' r']; [apply Permutation_sym, Permutation_nil in HP; discriminate|].
  destruct (argmin_loop_spec f a r) as [m [E [Hle [p1 [Hp1 Hm]]]]].
  destruct (argmin_loop_spec g a' r') as [m' [E' [Hle' [p2 [Hp2 Hm']]]]].
  assert (Hp2l : In p2 (a :: r)) by (eapply Permutation_in; [symmetry; exact HP|exact Hp2]).
  assert (Hp1l' : In p1 (a' :: r')) by (eapply Permutation_in; [exact HP|exact Hp1]).
  (* f p1 and f p2 are both least *)
  assert (Hf12 : f p1 = f p2).
  { apply Cf. apply Qx_le_antisym.
    - rewrite <- Hm. apply Hle. exact Hp2l.
    - apply Qx_leb_iff. rewrite (Hal p2 p1). apply Qx_leb_iff. rewrite <- Hm'. apply Hle'. exact Hp1l'. }
  exists p2. eexists. eexists. split; [rewrite E, Hm, Hf12; reflexivity|].
  split; [rewrite E', Hm'; reflexivity|]. split; [|split].
  - rewrite (filter_ext_in_ (fun q => Qx_eqb (f p2) (f q)) (fun q => Qx_eqb (g p2) (g q)) (a :: r))
      by (intros x _; apply alike_eqb; exact Hal).
    apply Permutation_filter_. exact HP.
  - apply filter_In. split; [exact Hp2l|]. apply Qx_eqb_iff, Qx_eq_refl.
  - intros p Hp. apply filter_In in Hp. destruct Hp as [Hpl Hpe]. split; [exact Hpl|].
    split.
    + symmetry. apply Cf. apply Qx_eqb_iff. exact Hpe.
    + symmetry. apply Cg. apply Qx_eqb_iff. rewrite <- (alike_eqb f g p2 p Hal). exact Hpe.
Qed.

(* ------------------------------------------------------------------------------------------ *)
(* the simulation                                                                               *)
(* ------------------------------------------------------------------------------------------ *)
Lemma Qred_eq_eq x y : Qred x == Qred y -> Qred x = Qred y.
Proof.
  intros H. apply Qred_complete. rewrite <- (Qred_correct x), <- (Qred_correct y). exact H.
Qed.

Lemma new_maxload_canonical I P loads : canonical (new_maxload I P loads).
Proof.
  intros p q. unfold new_maxload.
  destruct (Qeqb (score P p) 0), (Qeqb (score P q) 0); unfold Qx_eq; try tauto.
  intros H. f_equal. apply Qred_eq_eq. exact H.
Qed.

Lemma remove_proj_perm p l l' : Permutation l l' -> Permutation (remove_proj p l) (remove_proj p l').
Proof. apply Permutation_filter_. Qed.

Section Sim.
Variables (I I' : inst) (P P' : list aballot) (tb tb' : proj -> Q).
Variable R : list Q -> list Q -> Prop.      (* loads of the two runs *)
Variable Rc : Q -> Q -> Prop.               (* cost spent so far *)
Hypothesis Halike : forall loads loads', R loads loads' ->
  alike (new_maxload I P loads) (new_maxload I' P' loads').
Hypothesis Hstep : forall loads loads' p, R loads loads' ->
  R (apply_load P loads p (new_maxload I P loads p)) (apply_load P' loads' p (new_maxload I' P' loads' p)).
Hypothesis Hover : forall c c' p, Rc c c' -> overshoots I c p = overshoots I' c' p.
Hypothesis Hcost : forall c c' p, Rc c c' -> Rc (Qred (c + cost I p)) (Qred (c' + cost I' p)).
Hypothesis Htb : forall p q, Qleb (tb p) (tb q) = Qleb (tb' p) (tb' q).

Lemma tie_order_alike l : tie_order tb l = tie_order tb' l.
Proof. unfold tie_order. apply isort_ext. exact Htb. Qed.

Lemma phr_round_sim loads loads' projs projs' c c' :
  R loads loads' -> Rc c c' -> Permutation projs projs' ->
  match phr_round I P tb loads projs c, phr_round I' P' tb' loads' projs' c' with
  | RStop, RStop => True
  | RPick tied t, RPick tied' t' =>
      tied = tied' /\ forall p, In p tied -> t = new_maxload I P loads p /\ t' = new_maxload I' P' loads' p
  | _, _ => False
  end.
Proof.
  intros HR HRc HP. unfold phr_round.
  destruct projs as [|a r].
  - apply Permutation_nil in HP. subst projs'. simpl. split; [reflexivity|intros p []].
  - destruct (argmin_sim (new_maxload I P loads) (new_maxload I' P' loads') (a :: r) projs'
                (new_maxload_canonical I P loads) (new_maxload_canonical I' P' loads')
                (Halike loads loads' HR) HP) as [pm [A [A' [E [E' [HA [Hpm Hall]]]]]]]; [discriminate|].
    rewrite E, E'.
    assert (Eov : existsb (overshoots I c) A = existsb (overshoots I' c') A').
    { rewrite (existsb_perm _ A A' HA). apply existsb_ext_in. intros x _. apply Hover. exact HRc. }
    rewrite <- Eov. destruct (existsb (overshoots I c) A); [exact Logic.I|].
    rewrite <- (name_sort_perm_eq A A' HA), <- tie_order_alike. split; [reflexivity|].
    intros p Hp. rewrite tie_order_In, name_sort_In in Hp. destruct (Hall p Hp) as [_ [H1 H2]].
    split; congruence.
Qed.

Theorem phr_res_sim : forall fuel projs projs' loads loads' alloc c c',
  R loads loads' -> Rc c c' -> Permutation projs projs' ->
  phr_res fuel I P tb projs loads alloc c = phr_res fuel I' P' tb' projs' loads' alloc c'.
Proof.
  induction fuel as [|f IH]; intros projs projs' loads loads' alloc c c' HR HRc HP.
  - destruct projs as [|a r].
    + apply Permutation_nil in HP. subst. reflexivity.
    + destruct projs' as [|a' r']; [apply Permutation_sym, Permutation_nil in HP; discriminate|].
      cbn [phr_res]. pose proof (phr_round_sim loads loads' (a :: r) (a' :: r') c c' HR HRc HP) as H.
      destruct (phr_round I P tb loads (a :: r) c), (phr_round I' P' tb' loads' (a' :: r') c');
        try contradiction; reflexivity.
  - destruct projs as [|a r].
    + apply Permutation_nil in HP. subst. reflexivity.
    + destruct projs' as [|a' r']; [apply Permutation_sym, Permutation_nil in HP; discriminate|].
      cbn [phr_res]. pose proof (phr_round_sim loads loads' (a :: r) (a' :: r') c c' HR HRc HP) as H.
      destruct (phr_round I P tb loads (a :: r) c) as [|tied t],
               (phr_round I' P' tb' loads' (a' :: r') c') as [|tied' t']; try contradiction; [reflexivity|].
      destruct H as [<- Ht]. destruct tied as [|p tl]; [reflexivity|].
      destruct (Ht p (or_introl eq_refl)) as [-> ->].
      apply IH; [apply Hstep; exact HR|apply Hcost; exact HRc|apply remove_proj_perm; exact HP].
Qed.

Theorem phr_irr_sim : forall fuel projs projs' loads loads' alloc c c',
  R loads loads' -> Rc c c' -> Permutation projs projs' ->
  phr_irr fuel I P tb projs loads alloc c = phr_irr fuel I' P' tb' projs' loads' alloc c'.
Proof.
  induction fuel as [|f IH]; intros projs projs' loads loads' alloc c c' HR HRc HP.
  - destruct projs as [|a r].
    + apply Permutation_nil in HP. subst. reflexivity.
    + destruct projs' as [|a' r']; [apply Permutation_sym, Permutation_nil in HP; discriminate|].
      cbn [phr_irr]. pose proof (phr_round_sim loads loads' (a :: r) (a' :: r') c c' HR HRc HP) as H.
      destruct (phr_round I P tb loads (a :: r) c), (phr_round I' P' tb' loads' (a' :: r') c');
        try contradiction; reflexivity.
  - destruct projs as [|a r].
    + apply Permutation_nil in HP. subst. reflexivity.
    + destruct projs' as [|a' r']; [apply Permutation_sym, Permutation_nil in HP; discriminate|].
      cbn [phr_irr]. pose proof (phr_round_sim loads loads' (a :: r) (a' :: r') c c' HR HRc HP) as H.
      destruct (phr_round I P tb loads (a :: r) c) as [|tied t],
               (phr_round I' P' tb' loads' (a' :: r') c') as [|tied' t']; try contradiction; [reflexivity|].
      destruct H as [<- Ht]. f_equal. apply map_ext_in. intros p Hp.
      destruct (Ht p Hp) as [-> ->].
      apply IH; [apply Hstep; exact HR|apply Hcost; exact HRc|apply remove_proj_perm; exact HP].
Qed.
End Sim.

(* ------------------------------------------------------------------------------------------ *)
(* M  phragmen_enum_indep                                                                       *)
(* ------------------------------------------------------------------------------------------ *)
Theorem phragmen_enum_indep_res I P tb e1 e2 loads init :
  Permutation e1 e2 -> phragmen_res I P tb e1 loads init = phragmen_res I P tb e2 loads init.
Proof.
  intros HP. unfold phragmen_res.
  assert (HPP : Permutation (phr_projects I e1 init) (phr_projects I e2 init))
    by (apply Permutation_filter_; exact HP).
  rewrite (Permutation_length HPP). f_equal.
  apply (phr_res_sim I I P P tb tb eq eq); try (intros; subst; reflexivity); try reflexivity.
  - intros l l' -> p q. reflexivity.
  - exact HPP.
Qed.

Theorem phragmen_enum_indep_irr I P tb e1 e2 loads init :
  Permutation e1 e2 -> phragmen_irr I P tb e1 loads init = phragmen_irr I P tb e2 loads init.
Proof.
  intros HP. unfold phragmen_irr.
  assert (HPP : Permutation (phr_projects I e1 init) (phr_projects I e2 init))
    by (apply Permutation_filter_; exact HP).
  rewrite (Permutation_length HPP). f_equal.
  apply (phr_irr_sim I I P P tb tb eq eq); try (intros; subst; reflexivity); try reflexivity.
  - intros l l' -> p q. reflexivity.
  - exact HPP.
Qed.

(* ------------------------------------------------------------------------------------------ *)
(* the shipped tie-breaking rules as one family                                                 *)
(* ------------------------------------------------------------------------------------------ *)
Inductive tbrule := TLexico | TAppScore | TMinCost | TMaxCost.
Definition tb_key (r : tbrule) (I : inst) (P : list aballot) : proj -> Q :=
  match r with
  | TLexico => tb_lexico
  | TAppScore => tb_app_score P
  | TMinCost => tb_min_cost I
  | TMaxCost => tb_max_cost I
  end.

(* ------------------------------------------------------------------------------------------ *)
(* M  phragmen_perm_voters                                                                      *)
(* ------------------------------------------------------------------------------------------ *)
(* the voters (with their loads) of the second run are those of the first in another order *)
Definition vrel (P P' : list aballot) (loads loads' : list Q) : Prop :=
  length P = length loads /\ length P' = length loads' /\
  Permutation (combine P loads) (combine P' loads').

Lemma map_fst_combine_ {A B} : forall (l : list A) (m : list B), length l = length m ->
  map fst (combine l m) = l.
Proof.
  induction l as [|a l IH]; intros [|b m] H; simpl in *; try reflexivity; try discriminate.
  f_equal. apply IH. lia.
Qed.

Lemma vrel_perm P P' loads loads' : vrel P P' loads loads' -> Permutation P P'.
Proof.
  intros [H1 [H2 H3]]. rewrite <- (map_fst_combine_ P loads H1), <- (map_fst_combine_ P' loads' H2).
  apply Permutation_map. exact H3.
Qed.

Lemma score_perm P P' p : Permutation P P' -> score P p == score P' p.
Proof. intros H. unfold score. apply Qsum_perm_proper, Permutation_map. exact H. Qed.

Lemma wsum_perm P P' loads loads' p :
  Permutation (combine P loads) (combine P' loads') -> wsum P loads p == wsum P' loads' p.
Proof. intros H. unfold wsum. apply Qsum_perm_proper, Permutation_map. exact H. Qed.

Lemma new_maxload_vrel I P P' loads loads' p :
  vrel P P' loads loads' -> new_maxload I P loads p = new_maxload I P' loads' p.
Proof.
  intros H. pose proof (score_perm P P' p (vrel_perm _ _ _ _ H)) as Hs.
  destruct H as [_ [_ H]]. pose proof (wsum_perm P P' loads loads' p H) as Hw.
  unfold new_maxload, Qeqb. rewrite (Qeq_bool_compat (score P p) (score P' p) 0 0 Hs (Qeq_refl 0)).
  destruct (Qeq_bool (score P' p) 0); [reflexivity|]. f_equal. apply Qred_complete.
  rewrite Hs, Hw. reflexivity.
Qed.

Lemma combine_map_snd {A B} (h : A * B -> B) : forall (l : list A) (m : list B), length l = length m ->
  combine l (map h (combine l m)) = map (fun x => (fst x, h x)) (combine l m).
Proof.
  induction l as [|a l IH]; intros [|b m] H; simpl in *; try reflexivity; try discriminate.
  f_equal. apply IH. lia.
Qed.

Lemma apply_load_vrel P P' loads loads' p t :
  vrel P P' loads loads' -> vrel P P' (apply_load P loads p t) (apply_load P' loads' p t).
Proof.
  intros [H1 [H2 H3]]. destruct t as [x|]; simpl; [|split; [exact H1|split; [exact H2|exact H3]]].
  split; [apply set_loads_length; exact H1|]. split; [apply set_loads_length; exact H2|].
  unfold set_loads. rewrite (combine_map_snd _ P loads H1), (combine_map_snd _ P' loads' H2).
  apply Permutation_map. exact H3.
Qed.

Theorem phragmen_perm_voters_res I P P' tb tb' enum loads loads' init :
  vrel P P' loads loads' -> (forall p, tb p == tb' p) ->
  phragmen_res I P tb enum loads init = phragmen_res I P' tb' enum loads' init.
Proof.
  intros HV Htb. unfold phragmen_res. f_equal.
  apply (phr_res_sim I I P P' tb tb' (vrel P P') eq).
  - intros l l' H p q. rewrite !(new_maxload_vrel I P P' l l' _ H). reflexivity.
  - intros l l' p H. rewrite <- (new_maxload_vrel I P P' l l' p H). apply apply_load_vrel. exact H.
  - intros c c' p ->. reflexivity.
  - intros c c' p ->. reflexivity.
  - intros p q. apply Qleb_compat; apply Htb.
  - exact HV.
  - reflexivity.
  - reflexivity.
Qed.

Theorem phragmen_perm_voters_irr I P P' tb tb' enum loads loads' init :
  vrel P P' loads loads' -> (forall p, tb p == tb' p) ->
  phragmen_irr I P tb enum loads init = phragmen_irr I P' tb' enum loads' init.
Proof.
  intros HV Htb. unfold phragmen_irr. f_equal.
  apply (phr_irr_sim I I P P' tb tb' (vrel P P') eq).
  - intros l l' H p q. rewrite !(new_maxload_vrel I P P' l l' _ H). reflexivity.
  - intros l l' p H. rewrite <- (new_maxload_vrel I P P' l l' p H). apply apply_load_vrel. exact H.
  - intros c c' p ->. reflexivity.
  - intros c c' p ->. reflexivity.
  - intros p q. apply Qleb_compat; apply Htb.
  - exact HV.
  - reflexivity.
  - reflexivity.
Qed.

Lemma combine_zero_loads P : combine P (zero_loads P) = map (fun b => (b, 0)) P.
Proof. unfold zero_loads. induction P as [|b P IH]; simpl; [reflexivity|]. f_equal. exact IH. Qed.

Lemma vrel_zero P P' : Permutation P P' -> vrel P P' (zero_loads P) (zero_loads P').
Proof.
  intros H. unfold vrel. split; [unfold zero_loads; rewrite map_length; reflexivity|].
  split; [unfold zero_loads; rewrite map_length; reflexivity|].
  rewrite !combine_zero_loads. apply Permutation_map. exact H.
Qed.

Lemma tb_key_perm r I P P' p : Permutation P P' -> tb_key r I P p == tb_key r I P' p.
Proof.
  intros H. destruct r; simpl; try reflexivity. unfold tb_app_score. rewrite (score_perm P P' p H). reflexivity.
Qed.

(* as the library is called (no initial loads), under every shipped tie-breaking rule *)
Corollary phragmen_perm_voters_shipped r I P P' enum init :
  Permutation P P' ->
  phragmen_res I P (tb_key r I P) enum (zero_loads P) init
  = phragmen_res I P' (tb_key r I P') enum (zero_loads P') init
  /\ phragmen_irr I P (tb_key r I P) enum (zero_loads P) init
     = phragmen_irr I P' (tb_key r I P') enum (zero_loads P') init.
Proof.
  intros H. split.
  - apply phragmen_perm_voters_res; [apply vrel_zero; exact H|intros p; apply tb_key_perm; exact H].
  - apply phragmen_perm_voters_irr; [apply vrel_zero; exact H|intros p; apply tb_key_perm; exact H].
Qed.

(* ------------------------------------------------------------------------------------------ *)
(* M  phragmen_scale                                                                            *)
(* ------------------------------------------------------------------------------------------ *)
Definition scale_inst (k : Q) (I : inst) : inst := mkInst (map (Qmult k) (costs I)) (k * budget I).
Definition srel (k : Q) (loads loads' : list Q) : Prop := Forall2 (fun x y => y == k * x) loads loads'.

Lemma cost_scale k I p : cost (scale_inst k I) p == k * cost I p.
Proof.
  unfold cost, scale_inst. simpl. destruct (Nat.lt_ge_cases p (length (costs I))) as [H|H].
  - rewrite (nth_indep (map (Qmult k) (costs I)) 0 (k * 0)) by (rewrite map_length; exact H).
    rewrite (map_nth (Qmult k)). reflexivity.
  - rewrite !nth_overflow by (try rewrite map_length; exact H). ring.
Qed.

Lemma tcost_scale k I W : tcost (scale_inst k I) W == k * tcost I W.
Proof.
  unfold tcost. induction W as [|p W IH]; simpl; [ring|]. rewrite IH, cost_scale. ring.
Qed.

Lemma wsum_scale k p : forall P loads loads', srel k loads loads' ->
  wsum P loads' p == k * wsum P loads p.
Proof.
  unfold wsum. induction P as [|b P IH]; intros loads loads' H; simpl; [ring|].
  inversion H as [|x y l l' Hxy Hr]; subst; simpl; [ring|].
  rewrite (IH l l' Hr). destruct (approves b p); [rewrite Hxy; ring|ring].
Qed.

Lemma new_maxload_scale k I P loads loads' p : 0 < k -> srel k loads loads' ->
  new_maxload (scale_inst k I) P loads' p
  = match new_maxload I P loads p with Fin x => Fin (Qred (k * x)) | PInf => PInf end.
Proof.
  intros Hk H. unfold new_maxload. destruct (Qeqb (score P p) 0) eqn:E; [reflexivity|].
  apply Qeqb_false_iff in E. f_equal. apply Qred_complete.
  rewrite Qred_correct, (wsum_scale k p P loads loads' H), cost_scale. field. exact E.
Qed.

Lemma Qleb_scale k x y : 0 < k -> Qleb (Qred (k * x)) (Qred (k * y)) = Qleb x y.
Proof.
  intros Hk. destruct (Qleb x y) eqn:E.
  - apply Qleb_iff. rewrite !Qred_correct. apply Qleb_iff in E. apply Qmult_le_l; assumption.
  - apply Qleb_false_iff. rewrite !Qred_correct. apply Qleb_false_iff in E. apply Qmult_lt_l; assumption.
Qed.

Lemma set_loads_srel k p x : forall P loads loads', srel k loads loads' ->
  srel k (set_loads P loads p x) (set_loads P loads' p (Qred (k * x))).
Proof.
  unfold set_loads, srel. induction P as [|b P IH]; intros loads loads' H; simpl; [constructor|].
  inversion H as [|a c l l' Hac Hr]; subst; cbn [combine map]; [constructor|].
  constructor; [|apply IH; exact Hr]. cbn [fst snd]. destruct (approves b p); [exact (Qred_correct (k * x))|exact Hac].
Qed.

Lemma Qltb_scale k a b a' b' : 0 < k -> a' == k * a -> b' == k * b -> Qltb a' b' = Qltb a b.
Proof.
  intros Hk Ha Hb. destruct (Qltb a b) eqn:E.
  - apply Qltb_iff. apply Qltb_iff in E. rewrite Ha, Hb. apply Qmult_lt_l; assumption.
  - apply Qltb_false_iff. apply Qltb_false_iff in E. rewrite Ha, Hb. apply Qmult_le_l; assumption.
Qed.

Lemma Qleb_scale2 k a b a' b' : 0 < k -> a' == k * a -> b' == k * b -> Qleb a' b' = Qleb a b.
Proof.
  intros Hk Ha Hb. rewrite (Qleb_compat a' (k * a) b' (k * b) Ha Hb).
  rewrite <- (Qleb_scale k a b Hk). apply Qleb_compat; rewrite Qred_correct; reflexivity.
Qed.

Section Scale.
Variables (k : Q) (I : inst) (P : list aballot) (tb tb' : proj -> Q).
Hypothesis Hk : 0 < k.
Hypothesis Htb : forall p q, Qleb (tb p) (tb q) = Qleb (tb' p) (tb' q).
Let I' := scale_inst k I.
Let Rc (c c' : Q) := c' == k * c.

Lemma scale_alike loads loads' : srel k loads loads' ->
  alike (new_maxload I P loads) (new_maxload I' P loads').
Proof.
  intros H p q. unfold I'. rewrite !(new_maxload_scale k I P loads loads' _ Hk H).
  destruct (new_maxload I P loads p), (new_maxload I P loads q); simpl; try reflexivity.
  symmetry. apply Qleb_scale. exact Hk.
Qed.

Lemma scale_step loads loads' p : srel k loads loads' ->
  srel k (apply_load P loads p (new_maxload I P loads p))
         (apply_load P loads' p (new_maxload I' P loads' p)).
Proof.
  intros H. unfold I'. rewrite (new_maxload_scale k I P loads loads' p Hk H).
  destruct (new_maxload I P loads p) as [x|]; simpl; [apply set_loads_srel; exact H|exact H].
Qed.

Lemma scale_over c c' p : Rc c c' -> overshoots I c p = overshoots I' c' p.
Proof.
  unfold Rc, overshoots, I'. intros Hc. symmetry. apply (Qltb_scale k); [exact Hk|reflexivity|].
  rewrite Hc, cost_scale. ring.
Qed.

Lemma scale_cost c c' p : Rc c c' -> Rc (Qred (c + cost I p)) (Qred (c' + cost I' p)).
Proof.
  unfold Rc, I'. intros Hc. rewrite !Qred_correct, Hc, cost_scale. ring.
Qed.

Lemma scale_projects enum init : phr_projects I' enum init = phr_projects I enum init.
Proof.
  unfold phr_projects. apply filter_ext. intros p. f_equal. unfold I'.
  apply (Qleb_scale2 k); [exact Hk|apply cost_scale|reflexivity].
Qed.

Theorem phragmen_scale_res enum loads loads' init : srel k loads loads' ->
  phragmen_res I' P tb' enum loads' init = phragmen_res I P tb enum loads init.
Proof.
  intros H. unfold phragmen_res. rewrite scale_projects. f_equal. symmetry.
  apply (phr_res_sim I I' P P tb tb' (srel k) Rc).
  - exact scale_alike.
  - intros l l' p Hl. apply scale_step. exact Hl.
  - exact scale_over.
  - exact scale_cost.
  - exact Htb.
  - exact H.
  - unfold Rc, I'. apply tcost_scale.
  - reflexivity.
Qed.

Theorem phragmen_scale_irr enum loads loads' init : srel k loads loads' ->
  phragmen_irr I' P tb' enum loads' init = phragmen_irr I P tb enum loads init.
Proof.
  intros H. unfold phragmen_irr. rewrite scale_projects. f_equal. symmetry.
  apply (phr_irr_sim I I' P P tb tb' (srel k) Rc).
  - exact scale_alike.
  - intros l l' p Hl. apply scale_step. exact Hl.
  - exact scale_over.
  - exact scale_cost.
  - exact Htb.
  - exact H.
  - unfold Rc, I'. apply tcost_scale.
  - reflexivity.
Qed.
End Scale.

Lemma srel_zero k P : srel k (zero_loads P) (zero_loads P).
Proof. unfold srel, zero_loads. induction P; simpl; constructor; [ring|assumption]. Qed.

Lemma tb_key_scale r k I P p q : 0 < k ->
  Qleb (tb_key r I P p) (tb_key r I P q) = Qleb (tb_key r (scale_inst k I) P p) (tb_key r (scale_inst k I) P q).
Proof.
  intros Hk. destruct r; simpl; try reflexivity.
  - unfold tb_min_cost. symmetry. apply (Qleb_scale2 k); [exact Hk|apply cost_scale|apply cost_scale].
  - unfold tb_max_cost. symmetry. apply (Qleb_scale2 k); [exact Hk| |]; rewrite cost_scale; ring.
Qed.

(* as the library is called, under every shipped tie-breaking rule: multiplying all costs and the budget
   by k > 0 changes nothing *)
Corollary phragmen_scale_shipped r k I P enum init : 0 < k ->
  phragmen_res (scale_inst k I) P (tb_key r (scale_inst k I) P) enum (zero_loads P) init
  = phragmen_res I P (tb_key r I P) enum (zero_loads P) init
  /\ phragmen_irr (scale_inst k I) P (tb_key r (scale_inst k I) P) enum (zero_loads P) init
     = phragmen_irr I P (tb_key r I P) enum (zero_loads P) init.
Proof.
  intros Hk. split.
  - apply phragmen_scale_res; [exact Hk|intros p q; apply tb_key_scale; exact Hk|apply srel_zero].
  - apply phragmen_scale_irr; [exact Hk|intros p q; apply tb_key_scale; exact Hk|apply srel_zero].
Qed.

(* ------------------------------------------------------------------------------------------ *)
(* M  ..._enum_dep_refuted: the code BEFORE repair R6                                           *)
(* ------------------------------------------------------------------------------------------ *)
(* phragmen.py before commit cd8fe48: tie_breaking.order(inst, prof, arg_min_new_maxload) -- the tied
   projects reach the stable sort in set-iteration order *)
Definition phr_round_old (I : inst) (P : list aballot) (tb : proj -> Q)
           (loads : list Q) (projs : list proj) (c : Q) : round :=
  let '(m, arg) := argmin_loop (new_maxload I P loads) projs None [] in
  if existsb (overshoots I c) arg then RStop
  else RPick (tie_order tb arg) (match m with Some t => t | None => PInf end).

Fixpoint phr_res_old (fuel : nat) (I : inst) (P : list aballot) (tb : proj -> Q)
         (projs : list proj) (loads : list Q) (alloc : list proj) (c : Q) : option (list proj) :=
  match projs with
  | [] => Some alloc
  | _ :: _ =>
      match phr_round_old I P tb loads projs c with
      | RStop => Some alloc
      | RPick tied t =>
          match fuel with
          | O => None
          | S f =>
              match tied with
              | [] => None
              | p :: _ => phr_res_old f I P tb (remove_proj p projs) (apply_load P loads p t)
                                      (alloc ++ [p]) (Qred (c + cost I p))
              end
          end
      end
  end.

Definition phragmen_res_old (I : inst) (P : list aballot) (tb : proj -> Q) (enum : list proj)
           (loads : list Q) (init : list proj) : option (list proj) :=
  let projs := phr_projects I enum init in
  option_map name_sort (phr_res_old (S (length projs)) I P tb projs loads init (tcost I init)).

(* 6 projects of cost 2, budget 4, two voters approving everything, min_cost tie-breaking *)
Definition witness_I : inst := mkInst [2; 2; 2; 2; 2; 2] 4.
Definition witness_P : list aballot := [mkA [0; 1; 2; 3; 4; 5]%nat 1; mkA [0; 1; 2; 3; 4; 5]%nat 1].

Theorem phragmen_old_enum_dep :
  exists I P tb e1 e2 loads init,
    Permutation e1 e2 /\ NoDup e1 /\
    phragmen_res_old I P tb e1 loads init <> phragmen_res_old I P tb e2 loads init.
Proof.
  exists witness_I, witness_P, (tb_min_cost witness_I), [0; 1; 2; 3; 4; 5]%nat, [5; 4; 3; 2; 1; 0]%nat,
         (zero_loads witness_P), [].
  split; [|split].
  - change [5; 4; 3; 2; 1; 0]%nat with (rev [0; 1; 2; 3; 4; 5]%nat). apply Permutation_rev.
  - repeat constructor; simpl; intuition lia.
  - vm_compute. discriminate.
Qed.

(* the repaired model on the same witness: one answer *)
Example phragmen_witness_repaired :
  phragmen_res witness_I witness_P (tb_min_cost witness_I) [0; 1; 2; 3; 4; 5]%nat (zero_loads witness_P) []
  = Some [0; 1]%nat
  /\ phragmen_res witness_I witness_P (tb_min_cost witness_I) [5; 4; 3; 2; 1; 0]%nat (zero_loads witness_P) []
     = Some [0; 1]%nat.
Proof. split; vm_compute; reflexivity. Qed.
