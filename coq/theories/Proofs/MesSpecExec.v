(* Proofs/MesSpecExec.v -- the EXECUTABLE textbook rule of Spec/MesSpec.v ([spec_exec], [mes_spec]:
   what the C02 oracle evaluates) against the declarative one ([spec_run]):
     spec_exec_sound   every result of spec_exec is a run of the declarative rule;
     spec_run_det      the declarative rule is deterministic (budgets taken up to ==);
     spec_exec_total   the fuel of mes_spec suffices;
     mes_model_eq_spec the model of the implementation (Model/MesRule.v mes_resolute) and mes_spec
                       return the same set. *)
From PB Require Export Proofs.MesInterp.
Open Scope Q_scope.

(* ---------- budgets up to == ---------- *)

Definition beq (b b2 : list Q) : Prop := length b = length b2 /\ forall i, s_bud b i == s_bud b2 i.

Lemma beq_sym b b2 : beq b b2 -> beq b2 b.
Proof. intros [H1 H2]. split; [symmetry; exact H1|intro i; symmetry; apply H2]. Qed.

Lemma Qmin_ext_l x x' y : x == x' -> Qmin x y == Qmin x' y.
Proof.
  intro E. apply Qle_antisym; apply Q.min_glb; try apply Q.le_min_r;
    (eapply Qle_trans; [apply Q.le_min_l|]); lra.
Qed.

Lemma paid_beq P b b2 rho p : beq b b2 -> paid P b rho p == paid P b2 rho p.
Proof.
  intros [_ H]. unfold paid. apply Qsum_map_ext. intros i _.
  rewrite (Qmin_ext_l (s_bud b i) (s_bud b2 i) _ (H i)). reflexivity.
Qed.

Lemma supp_money_beq P b b2 p : beq b b2 -> supp_money P b p == supp_money P b2 p.
Proof. intros [_ H]. unfold supp_money. apply Qsum_map_ext. intros i _. rewrite (H i). reflexivity. Qed.

Lemma affordable_beq cs P b b2 p : beq b b2 -> affordable cs P b p -> affordable cs P b2 p.
Proof. intros H Ha. unfold affordable in *. rewrite <- (supp_money_beq P b b2 p H). exact Ha. Qed.

Lemma is_rho_beq cs P b b2 p r : beq b b2 -> is_rho cs P b p r -> is_rho cs P b2 p r.
Proof.
  intros H [H1 H2]. split; [rewrite <- (paid_beq P b b2 r p H); exact H1|].
  intros rho' Hc. apply H2. rewrite (paid_beq P b b2 rho' p H). exact Hc.
Qed.

Lemma charge_nth P b rho p i :
  s_bud (charge P b rho p) i =
  if Nat.ltb i (length b) then
    (if Qltb 0 (s_util P i p) then s_bud b i - Qmin (s_bud b i) (rho * s_util P i p) else s_bud b i)
  else 0.
Proof.
  unfold s_bud at 1, charge. destruct (Nat.ltb i (length b)) eqn:E.
  - apply Nat.ltb_lt in E. rewrite nth_map_seq0 by exact E. reflexivity.
  - apply Nat.ltb_ge in E. apply nth_overflow. rewrite map_length, seq_length. exact E.
Qed.

Lemma charge_length P b rho p : length (charge P b rho p) = length b.
Proof. unfold charge. rewrite map_length, seq_length. reflexivity. Qed.

Lemma charge_beq P b b2 rho rho2 p : beq b b2 -> rho == rho2 -> beq (charge P b rho p) (charge P b2 rho2 p).
Proof.
  intros [Hl H] E. split; [rewrite !charge_length; exact Hl|].
  intro i. rewrite !charge_nth, <- Hl. destruct (Nat.ltb i (length b)); [|reflexivity].
  destruct (Qltb 0 (s_util P i p)); [|apply H].
  rewrite (Qmin_ext_l (s_bud b i) (s_bud b2 i) _ (H i)).
  rewrite (Qmin_ext_r (s_bud b2 i) (rho * s_util P i p) (rho2 * s_util P i p)) by (rewrite E; reflexivity).
  rewrite (H i). reflexivity.
Qed.

Lemma spec_round_beq cs P tb b b2 rem p rho rho2 :
  beq b b2 -> rho == rho2 -> spec_round cs P tb b rem p rho -> spec_round cs P tb b2 rem p rho2.
Proof.
  intros Hb E [H1 [H2 [H3 [H4 [T [T1 [T2 T3]]]]]]].
  pose proof (beq_sym _ _ Hb) as Hb'.
  split; [exact H1|]. split; [apply (affordable_beq cs P b b2 p Hb H2)|].
  split; [apply (is_rho_ext cs P b2 p rho rho2 E); apply (is_rho_beq cs P b b2 p rho Hb H3)|]. split.
  - intros q r Hq Ha Hr. rewrite <- E. apply (H4 q r Hq).
    + apply (affordable_beq cs P b2 b q Hb' Ha).
    + apply (is_rho_beq cs P b2 b q r Hb' Hr).
  - exists T. split; [|split; assumption]. intro q. rewrite (T1 q). split; intros [A [B C]]; split; try exact A; split.
    + apply (affordable_beq cs P b b2 q Hb B).
    + apply (is_rho_ext cs P b2 q rho rho2 E). apply (is_rho_beq cs P b b2 q rho Hb C).
    + apply (affordable_beq cs P b2 b q Hb' B).
    + apply (is_rho_beq cs P b2 b q rho Hb'). apply (is_rho_ext cs P b2 q rho2 rho); [symmetry; exact E|exact C].
Qed.

Lemma spec_run_beq cs P tb b b2 rem W : beq b b2 -> spec_run cs P tb b rem W -> spec_run cs P tb b2 rem W.
Proof.
  intros Hb Hr. destruct Hr as [b rem Hst|b rem p rho b' W Hround Hb' Hl Hrun].
  - apply spec_stop. intros q Hq Ha. apply (Hst q Hq). apply (affordable_beq cs P b2 b q (beq_sym _ _ Hb) Ha).
  - apply (spec_buy cs P tb b2 rem p rho b' W).
    + apply (spec_round_beq cs P tb b b2 rem p rho rho Hb (Qeq_refl _) Hround).
    + intro i. rewrite (Hb' i). destruct (charge_beq P b b2 rho rho p Hb (Qeq_refl _)) as [_ H]. apply H.
    + destruct Hb as [Hlb _]. congruence.
    + exact Hrun.
Qed.

(* ---------- determinism of the declarative rule ---------- *)

Lemma sorted_lt_unique : forall T T', StronglySorted lt T -> StronglySorted lt T' ->
  (forall q : nat, In q T <-> In q T') -> T = T'.
Proof.
  induction T as [|a t IH]; intros T' Hs Hs' Heq.
  - destruct T' as [|a' t']; [reflexivity|]. exfalso. apply (Heq a'). left. reflexivity.
  - destruct T' as [|a' t']; [exfalso; apply (Heq a); left; reflexivity|].
    inversion Hs as [|? ? Hst Hall]; subst. inversion Hs' as [|? ? Hst' Hall']; subst.
    rewrite Forall_forall in Hall, Hall'.
    assert (Ea : a = a').
    { destruct (proj1 (Heq a) (or_introl eq_refl)) as [E|Hin]; [symmetry; exact E|].
      destruct (proj2 (Heq a') (or_introl eq_refl)) as [E|Hin']; [exact E|].
      pose proof (Hall' a Hin). pose proof (Hall a' Hin'). lia. }
    subst a'. f_equal. apply IH; try assumption. intro q. split; intro Hq.
    + destruct (proj1 (Heq q) (or_intror Hq)) as [E|Hin]; [|exact Hin]. pose proof (Hall q Hq). lia.
    + destruct (proj2 (Heq q) (or_intror Hq)) as [E|Hin]; [|exact Hin]. pose proof (Hall' q Hq). lia.
Qed.

Lemma spec_round_det cs P tb b rem p rho p' rho' :
  spec_round cs P tb b rem p rho -> spec_round cs P tb b rem p' rho' -> p = p' /\ rho == rho'.
Proof.
  intros [H1 [H2 [H3 [H4 [T [T1 [T2 T3]]]]]]] [K1 [K2 [K3 [K4 [T' [T1' [T2' T3']]]]]]].
  assert (E : rho == rho') by (apply Qle_antisym; [apply (H4 p' rho' K1 K2 K3)|apply (K4 p rho H1 H2 H3)]).
  split; [|exact E].
  assert (ET : T = T').
  { apply sorted_lt_unique; try assumption. intro q. rewrite (T1 q), (T1' q).
    split; intros [A [B C]]; split; try exact A; split; try exact B.
    - apply (is_rho_ext cs P b q rho rho' E C).
    - apply (is_rho_ext cs P b q rho' rho); [symmetry; exact E|exact C]. }
  subst T'. rewrite T3 in T3'. injection T3' as <-. reflexivity.
Qed.

Theorem spec_run_det cs P tb : forall b rem W, spec_run cs P tb b rem W ->
  forall b2 W', beq b b2 -> spec_run cs P tb b2 rem W' -> W = W'.
Proof.
  induction 1 as [b rem Hst|b rem p rho b' W Hround Hb' Hl Hrun IH]; intros b2 W' Hb H2.
  - destruct H2 as [b2 rem _|b2 rem p rho b2' W' [K1 [K2 _]] _ _ _]; [reflexivity|].
    exfalso. apply (Hst p K1). apply (affordable_beq cs P b2 b p (beq_sym _ _ Hb) K2).
  - destruct H2 as [b2 rem Hst2|b2 rem p2 rho2 b2' W' Hround2 Hb2' Hl2 Hrun2].
    + exfalso. destruct Hround as [K1 [K2 _]]. apply (Hst2 p K1). apply (affordable_beq cs P b b2 p Hb K2).
    + pose proof (spec_round_beq cs P tb b2 b rem p2 rho2 rho2 (beq_sym _ _ Hb) (Qeq_refl _) Hround2) as Hr2.
      destruct (spec_round_det cs P tb b rem p rho p2 rho2 Hround Hr2) as [<- E].
      f_equal. apply (IH b2' W'); [|exact Hrun2].
      split; [destruct Hb as [Hlb _]; congruence|].
      intro i. rewrite (Hb' i), (Hb2' i). destruct (charge_beq P b b2 rho rho2 p Hb E) as [_ H]. apply H.
Qed.

(* ---------- the executable rule: argmin and candidates ---------- *)

Lemma rhos_In cs P b rem p r :
  In (p, r) (rhos cs P b rem) <-> In p rem /\ affordableb cs P b p = true /\ rho_interp cs P b p = Some r.
Proof.
  unfold rhos. rewrite in_flat_map. split.
  - intros [q [Hq Hin]]. destruct (affordableb cs P b q) eqn:Ea; [|destruct Hin].
    destruct (rho_interp cs P b q) as [r0|] eqn:Er; [|destruct Hin].
    destruct Hin as [E|[]]. injection E as <- <-. auto.
  - intros [Hp [Ea Er]]. exists p. split; [exact Hp|]. rewrite Ea, Er. left. reflexivity.
Qed.

Lemma affordableb_iff cs P b p : affordableb cs P b p = true <-> affordable cs P b p.
Proof. unfold affordableb, affordable. apply Qleb_iff. Qed.

Lemma fold_min_snd (t : list (proj * Q)) r0 :
  fold_left (fun m x => Qmin m (snd x)) t r0 = fold_left Qmin (map snd t) r0.
Proof. revert r0. induction t as [|x t IH]; intro r0; simpl; [reflexivity|apply IH]. Qed.

Lemma argmin_spec l rho T : argmin l = Some (rho, T) ->
  (exists p, In (p, rho) l) /\ (forall q r, In (q, r) l -> rho <= r) /\
  T = map fst (filter (fun x => Qeqb (snd x) rho) l).
Proof.
  destruct l as [|[p0 r0] t]; [discriminate|]. unfold argmin. rewrite fold_min_snd.
  intros [= <- <-]. destruct (fold_Qmin_spec (map snd t) r0) as [H1 H2].
  set (best := fold_left Qmin (map snd t) r0) in *. split; [|split; [|reflexivity]].
  - change (r0 :: map snd t) with (map snd ((p0, r0) :: t)) in H1. apply in_map_iff in H1.
    destruct H1 as [[p r] [E Hin]]. simpl in E. subst r. exists p. exact Hin.
  - intros q r Hin. apply H2. change (r0 :: map snd t) with (map snd ((p0, r0) :: t)).
    apply in_map_iff. exists (q, r). split; [reflexivity|exact Hin].
Qed.

Lemma argmin_none l : argmin l = None -> l = [].
Proof. destruct l as [|[p0 r0] t]; [reflexivity|discriminate]. Qed.

(* the tied list inherits the name order of the candidate list *)
Lemma rhos_sorted cs P b g : forall rem, StronglySorted lt rem ->
  StronglySorted lt (map fst (filter g (rhos cs P b rem))).
Proof.
  induction rem as [|p r IH]; intro Hs; [constructor|]. inversion Hs as [|? ? Hsr Hall]; subst.
  unfold rhos. simpl. fold (rhos cs P b r). rewrite filter_app, map_app.
  assert (Htail : forall q, In q (map fst (filter g (rhos cs P b r))) -> (p < q)%nat).
  { intros q Hq. apply in_map_iff in Hq. destruct Hq as [[q' r'] [E Hin]]. simpl in E. subst q'.
    apply filter_In in Hin. destruct Hin as [Hin _]. apply rhos_In in Hin. destruct Hin as [Hin _].
    rewrite Forall_forall in Hall. apply Hall. exact Hin. }
  destruct (affordableb cs P b p); [|apply IH; exact Hsr].
  destruct (rho_interp cs P b p) as [r0|]; [|apply IH; exact Hsr].
  cbn [filter app]. match goal with |- context [if ?c then _ else _] => destruct c end; cbn [map fst app]; [|apply IH; exact Hsr].
  constructor; [apply IH; exact Hsr|]. rewrite Forall_forall. exact Htail.
Qed.

(* ---------- soundness and totality of spec_exec ---------- *)

Definition SInv (cs : list Q) (P : list vcls) (b : list Q) (rem : list proj) : Prop :=
  wf_buds P b /\ StronglySorted lt rem /\ forall p, In p rem -> 0 < s_cost cs p.

Lemma charge_red_beq P b rho p : beq (charge_red P b rho p) (charge P b rho p).
Proof.
  unfold charge_red. split; [apply map_length|]. intro i. unfold s_bud.
  destruct (Nat.lt_ge_cases i (length (charge P b rho p))) as [Hi|Hi].
  - rewrite (nth_indep _ 0 (Qred 0)) by (rewrite map_length; exact Hi). rewrite map_nth. apply Qred_correct.
  - rewrite !nth_overflow; [reflexivity|exact Hi|rewrite map_length; exact Hi].
Qed.

Lemma charge_red_wf P b rho p : wf_buds P b -> wf_buds P (charge_red P b rho p).
Proof.
  intros [Hl Hn]. destruct (charge_red_beq P b rho p) as [L E]. split.
  - rewrite L, charge_length. exact Hl.
  - rewrite Forall_forall. intros y Hy. apply (In_nth _ _ 0) in Hy. destruct Hy as [i [Hi <-]].
    change (0 <= s_bud (charge_red P b rho p) i). rewrite (E i), charge_nth.
    rewrite L, charge_length in Hi. apply Nat.ltb_lt in Hi. rewrite Hi.
    assert (Hb : 0 <= s_bud b i) by (apply (vbud_nonneg P b i); split; assumption).
    destruct (Qltb 0 (s_util P i p)); [|exact Hb].
    pose proof (Q.le_min_l (s_bud b i) (rho * s_util P i p)). lra.
Qed.

Lemma drop_sorted p rem : StronglySorted lt rem -> StronglySorted lt (drop p rem).
Proof.
  intro Hs. unfold drop. induction Hs as [|x t Hs IH Hall]; simpl; [constructor|].
  destruct (negb (Nat.eqb x p)); [|exact IH]. constructor; [exact IH|].
  rewrite Forall_forall in *. intros y Hy. apply filter_In in Hy. apply Hall. tauto.
Qed.

Theorem spec_exec_sound cs P tb : wf_voters P -> forall fuel b rem W,
  SInv cs P b rem -> spec_exec cs P tb fuel b rem = Some W -> spec_run cs P tb b rem W.
Proof.
  intros Hv. induction fuel as [|f IH]; intros b rem W [Hb [Hs Hpos]] H; simpl in H; [discriminate|].
  destruct (argmin (rhos cs P b rem)) as [[rho T]|] eqn:Ea.
  - destruct (argmin_spec _ _ _ Ea) as [[p0 Hp0] [Hmin ET]].
    assert (HT : forall q, In q T <-> In q rem /\ affordable cs P b q /\ is_rho cs P b q rho).
    { intro q. rewrite ET, in_map_iff. split.
      - intros [[q' r] [E Hin]]. simpl in E. subst q'. apply filter_In in Hin. destruct Hin as [Hin Hr].
        simpl in Hr. apply Qeqb_iff in Hr. apply rhos_In in Hin. destruct Hin as [Hq [Haf Hri]].
        apply affordableb_iff in Haf. split; [exact Hq|]. split; [exact Haf|].
        destruct (rho_interp_is_rho cs P b q Hv Hb (Hpos q Hq) Haf) as [r1 [E1 Hr1]].
        rewrite Hri in E1. injection E1 as <-. apply (is_rho_ext cs P b q r rho Hr Hr1).
      - intros [Hq [Haf Hr]].
        destruct (rho_interp_is_rho cs P b q Hv Hb (Hpos q Hq) Haf) as [r1 [E1 Hr1]].
        exists (q, r1). split; [reflexivity|]. apply filter_In. split.
        + apply rhos_In. split; [exact Hq|]. split; [apply affordableb_iff; exact Haf|exact E1].
        + simpl. apply Qeqb_iff. apply (is_rho_unique cs P b q r1 rho Hr1 Hr). }
    assert (HTs : StronglySorted lt T) by (rewrite ET; apply rhos_sorted; exact Hs).
    destruct (tie_order tb T) as [|p rest] eqn:Eo.
    + exfalso. assert (Hin : In p0 T).
      { rewrite ET. apply in_map_iff. exists (p0, rho). split; [reflexivity|]. apply filter_In.
        split; [exact Hp0|]. simpl. apply Qeqb_iff. reflexivity. }
      unfold tie_order in Eo. apply (isort_In (fun p q => Qleb (tb p) (tb q)) T p0) in Hin. rewrite Eo in Hin. destruct Hin.
    + destruct (spec_exec cs P tb f (charge_red P b rho p) (drop p rem)) as [W'|] eqn:Er; [|discriminate].
      injection H as <-.
      assert (HpT : In p T).
      { unfold tie_order in Eo. apply (isort_In (fun p q => Qleb (tb p) (tb q)) T p). rewrite Eo. left. reflexivity. }
      destruct (proj1 (HT p) HpT) as [Hp [Hpa Hpr]].
      destruct (charge_red_beq P b rho p) as [L E].
      apply (spec_buy cs P tb b rem p rho (charge_red P b rho p) W').
      * split; [exact Hp|]. split; [exact Hpa|]. split; [exact Hpr|]. split.
        -- intros q r Hq Haf Hr.
           destruct (rho_interp_is_rho cs P b q Hv Hb (Hpos q Hq) Haf) as [r1 [E1 Hr1]].
           assert (Hin : In (q, r1) (rhos cs P b rem)).
           { apply rhos_In. split; [exact Hq|]. split; [apply affordableb_iff; exact Haf|exact E1]. }
           pose proof (Hmin q r1 Hin). pose proof (is_rho_unique cs P b q r1 r Hr1 Hr). lra.
        -- exists T. split; [exact HT|]. split; [exact HTs|]. rewrite Eo. reflexivity.
      * exact E.
      * rewrite L. apply charge_length.
      * apply (IH (charge_red P b rho p) (drop p rem) W'); [|exact Er].
        split; [apply charge_red_wf; exact Hb|]. split; [apply drop_sorted; exact Hs|].
        intros q Hq. apply Hpos. unfold drop in Hq. apply filter_In in Hq. tauto.
  - injection H as <-. apply argmin_none in Ea. apply spec_stop. intros q Hq Haf.
    destruct (rho_interp_is_rho cs P b q Hv Hb (Hpos q Hq) Haf) as [r1 [E1 _]].
    assert (Hin : In (q, r1) (rhos cs P b rem)).
    { apply rhos_In. split; [exact Hq|]. split; [apply affordableb_iff; exact Haf|exact E1]. }
    rewrite Ea in Hin. destruct Hin.
Qed.

Lemma filter_length_lt {A} (g : A -> bool) l x : In x l -> g x = false -> (length (filter g l) < length l)%nat.
Proof.
  intros Hin Hg. induction l as [|y t IH]; [destruct Hin|]. simpl.
  assert (Hle : (length (filter g t) <= length t)%nat).
  { clear. induction t as [|z t IH]; simpl; [lia|]. destruct (g z); simpl; lia. }
  destruct Hin as [->|Hin].
  - rewrite Hg. lia.
  - specialize (IH Hin). destruct (g y); simpl; lia.
Qed.

Lemma drop_length_lt p rem : In p rem -> (length (drop p rem) < length rem)%nat.
Proof.
  intro H. unfold drop. apply (filter_length_lt _ rem p H). rewrite Nat.eqb_refl. reflexivity.
Qed.

Theorem spec_exec_total cs P tb : forall fuel b rem,
  (length rem < fuel)%nat -> spec_exec cs P tb fuel b rem <> None.
Proof.
  induction fuel as [|f IH]; intros b rem Hf; [lia|]. simpl.
  destruct (argmin (rhos cs P b rem)) as [[rho T]|] eqn:Ea; [|discriminate].
  destruct (tie_order tb T) as [|p rest] eqn:Eo; [discriminate|].
  assert (Hp : In p rem).
  { destruct (argmin_spec _ _ _ Ea) as [_ [_ ET]].
    assert (HpT : In p T).
    { unfold tie_order in Eo. apply (isort_In (fun p q => Qleb (tb p) (tb q)) T p). rewrite Eo. left. reflexivity. }
    rewrite ET in HpT. apply in_map_iff in HpT. destruct HpT as [[q r] [E Hin]]. simpl in E. subst q.
    apply filter_In in Hin. destruct Hin as [Hin _]. apply rhos_In in Hin. tauto. }
  pose proof (drop_length_lt p rem Hp).
  specialize (IH (charge_red P b rho p) (drop p rem)).
  destruct (spec_exec cs P tb f (charge_red P b rho p) (drop p rem)); [discriminate|].
  exfalso. apply IH; [lia|reflexivity].
Qed.

(* ---------- the model of the implementation = the executable textbook rule ---------- *)

Lemma filter_sorted (g : nat -> bool) l : StronglySorted lt l -> StronglySorted lt (filter g l).
Proof.
  intro Hs. induction Hs as [|x t Hs IH Hall]; simpl; [constructor|].
  destruct (g x); [|exact IH]. constructor; [exact IH|].
  rewrite Forall_forall in *. intros y Hy. apply filter_In in Hy. apply Hall. tauto.
Qed.

Lemma seq_sorted : forall n s, StronglySorted lt (seq s n).
Proof.
  induction n as [|n IH]; intro s; simpl; constructor; [apply IH|].
  rewrite Forall_forall. intros y Hy. apply in_seq in Hy. lia.
Qed.

Lemma pool_SInv x b : wf_buds (mi_voters x) b -> SInv (mi_costs x) (mi_voters x) b (si_pool (spec_of x)).
Proof.
  intro Hb. split; [exact Hb|]. split.
  - unfold si_pool, si_cands. apply filter_sorted. apply filter_sorted. apply seq_sorted.
  - intros p Hp. unfold si_pool in Hp. apply filter_In in Hp. destruct Hp as [_ Hp].
    apply andb_true_iff in Hp. destruct Hp as [_ Hp]. apply Qltb_iff in Hp. exact Hp.
Qed.

Lemma pool_length x : (length (si_pool (spec_of x)) <= si_n (spec_of x))%nat.
Proof.
  unfold si_pool, si_cands.
  assert (Hle : forall (g : nat -> bool) l, (length (filter g l) <= length l)%nat).
  { intros g l. induction l as [|y t IH]; simpl; [lia|]. destruct (g y); simpl; lia. }
  eapply Nat.le_trans; [apply Hle|]. eapply Nat.le_trans; [apply Hle|]. rewrite seq_length. lia.
Qed.

Lemma repeat_beq (a a' : Q) n : a == a' -> beq (repeat a n) (repeat a' n).
Proof.
  intro E. split; [rewrite !repeat_length; reflexivity|]. intro i. unfold s_bud.
  destruct (Nat.lt_ge_cases i n) as [Hi|Hi].
  - rewrite !nth_repeat_lt by exact Hi. exact E.
  - rewrite !nth_overflow; [reflexivity| |]; rewrite repeat_length; exact Hi.
Qed.

Theorem mes_model_eq_spec x o :
  wf_voters (mi_voters x) -> tcost (mi_inst x) (mi_init x) <= mi_budget x -> NoDup (mi_enum x) ->
  (forall p, In p (mi_enum x) <-> (p < length (mi_costs x))%nat) ->
  mes_resolute x = Some o ->
  exists W', mes_spec (spec_of x) = Some W' /\ set_eq (o_alloc o) W'.
Proof.
  intros Hv Hf Hn He Hrun.
  destruct (mes_model_refines_spec x o Hv Hf Hn He Hrun) as [W [Hspec Hset]].
  pose proof (share_nonneg x Hf) as Hs. pose proof (share_is_si_share x) as Es.
  assert (Hb2 : wf_buds (mi_voters x) (repeat (si_share (spec_of x)) (length (mi_voters x)))).
  { apply repeat_wf_buds. lra. }
  unfold mes_spec, spec_once.
  change (si_costs (spec_of x)) with (mi_costs x). change (si_voters (spec_of x)) with (mi_voters x).
  change (si_tb (spec_of x)) with (mi_tb x). change (si_init (spec_of x)) with (mi_init x).
  pose proof (spec_exec_total (mi_costs x) (mi_voters x) (mi_tb x) (S (si_n (spec_of x)))
                (repeat (si_share (spec_of x)) (length (mi_voters x))) (si_pool (spec_of x))) as Htot.
  destruct (spec_exec (mi_costs x) (mi_voters x) (mi_tb x) (S (si_n (spec_of x)))
              (repeat (si_share (spec_of x)) (length (mi_voters x))) (si_pool (spec_of x))) as [W2|] eqn:Ex.
  2:{ exfalso. apply Htot; [pose proof (pool_length x); lia|reflexivity]. }
  pose proof (spec_exec_sound _ _ _ Hv _ _ _ _ (pool_SInv x _ Hb2) Ex) as Hrun2.
  pose proof (spec_run_det _ _ _ _ _ _ Hspec _ _ (repeat_beq _ _ _ Es) Hrun2) as EW. subst W2.
  eexists. split; [reflexivity|exact Hset].
Qed.
