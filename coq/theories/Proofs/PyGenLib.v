(* Proofs/PyGenLib.v -- lemmas and the rewrite-tolerant tactics used to connect the REGENERATED definitions
   of Generated/PyFuncs.v to the hand-written models.  The proofs of Proofs/PyGenSatP.v / PyGenTieP.v try the
   generic tactic [py_auto] first (unfold the vocabulary of Model/PyPrims.v, normalise loops into sums,
   split on every condition, decide the arithmetic) and fall back to a specific script only then, so that a
   behaviour-preserving rewrite of the Python source (which changes the shape of the generated term) still
   goes through. *)
From Coq Require Import String.
From PB Require Import Model.PyPrims Proofs.InstanceP Proofs.SatisfactionP.
From Coq Require Import Setoid Morphisms.
Open Scope Q_scope.

(* ---------- the vocabulary, as an unfolding database ---------- *)
Global Hint Unfold py_int_of_bool py_truth py_eq py_ne py_lt py_le py_gt py_ge frac py_min2 py_max2
  py_sum py_any py_all py_len py_cost py_name py_budget_limit py_instance_iter py_in_instance py_len_instance
  py_total_cost py_max_budget_allocation_cardinality py_max_budget_allocation_cost
  py_ballot_iter py_in_ballot py_len_ballot py_ballot_get py_ballot_getitem py_ballot_position
  py_profile_iter py_in_pballot py_pballot_iter py_multiplicity py_len_profile py_approval_score
  py_dict_get py_dict_get_default py_sorted_by_key py_sorted_projects py_in_list py_proj_eq py_index
  py_inst py_proj py_ballot py_profile py_pballot py_aprofile : pyprims.

Global Hint Unfold cardinality_p cost_p rel_card_p rel_card_norm rel_by rel_cost_p approx_norm rel_cost_approx_p
  effort_p add_card_p add_card_rel_p borda_p cc_app cc_card ind sat_add bcosts rel_cost_norm add_card_rel_norm
  tcost : pymodel.

(* ---------- comparisons respect == ---------- *)
Global Instance Qeqb_proper : Proper (Qeq ==> Qeq ==> eq) Qeqb.
Proof.
  intros a a' Ha b b' Hb. destruct (Qeqb a b) eqn:E1, (Qeqb a' b') eqn:E2; try reflexivity.
  - apply Qeqb_iff in E1. apply Qeqb_false_iff in E2. exfalso. apply E2. rewrite <- Ha, <- Hb. exact E1.
  - apply Qeqb_iff in E2. apply Qeqb_false_iff in E1. exfalso. apply E1. rewrite Ha, Hb. exact E2.
Qed.
Global Instance Qleb_proper : Proper (Qeq ==> Qeq ==> eq) Qleb.
Proof.
  intros a a' Ha b b' Hb. destruct (Qleb a b) eqn:E1, (Qleb a' b') eqn:E2; try reflexivity.
  - apply Qleb_iff in E1. apply Qleb_false_iff in E2. exfalso. rewrite Ha, Hb in E1. lra.
  - apply Qleb_iff in E2. apply Qleb_false_iff in E1. exfalso. rewrite <- Ha, <- Hb in E2. lra.
Qed.
Global Instance Qltb_proper : Proper (Qeq ==> Qeq ==> eq) Qltb.
Proof. intros a a' Ha b b' Hb. unfold Qltb. fold (Qleb b a). fold (Qleb b' a'). rewrite Ha, Hb. reflexivity. Qed.

(* ---------- loops are sums ---------- *)
Lemma fold_sum {A} (f : A -> Q) l : forall a,
  fold_left (fun acc x => acc + f x) l a == a + Qsum (map f l).
Proof. induction l as [|x l IH]; intro a; simpl; [ring|]. rewrite IH. ring. Qed.

Lemma fold_sum_l {A} (f : A -> Q) l : forall a,
  fold_left (fun acc x => f x + acc) l a == a + Qsum (map f l).
Proof. induction l as [|x l IH]; intro a; simpl; [ring|]. rewrite IH. ring. Qed.

Lemma fold_sum_if {A} (c : A -> bool) (f : A -> Q) l : forall a,
  fold_left (fun acc x => if c x then acc + f x else acc) l a == a + Qsum (map f (filter c l)).
Proof.
  induction l as [|x l IH]; intro a; simpl; [ring|]. rewrite IH. destruct (c x); simpl; ring.
Qed.

Lemma Qsum_map_ext {A} (f g : A -> Q) l :
  (forall x, In x l -> f x == g x) -> Qsum (map f l) == Qsum (map g l).
Proof.
  induction l as [|x l IH]; intro H; simpl; [reflexivity|].
  rewrite (H x (or_introl eq_refl)), IH; [reflexivity|]. intros y Hy. apply H. right. exact Hy.
Qed.

Lemma Qsum_map_filter {A} (c : A -> bool) (f : A -> Q) l :
  Qsum (map f (filter c l)) == Qsum (map (fun x => if c x then f x else 0) l).
Proof. induction l as [|x l IH]; simpl; [reflexivity|]. destruct (c x); simpl; rewrite IH; ring. Qed.

Lemma existsb_map {A B} (f : A -> B) (g : B -> bool) l : existsb g (map f l) = existsb (fun x => g (f x)) l.
Proof. induction l as [|x l IH]; simpl; [reflexivity|]. rewrite IH. reflexivity. Qed.

Lemma existsb_filter {A} (c g : A -> bool) l : existsb g (filter c l) = existsb (fun x => c x && g x) l.
Proof. induction l as [|x l IH]; simpl; [reflexivity|]. destruct (c x); simpl; rewrite IH; reflexivity. Qed.

Lemma existsb_ext' {A} (f g : A -> bool) l : (forall x, f x = g x) -> existsb f l = existsb g l.
Proof. intro H. induction l as [|x l IH]; simpl; [reflexivity|]. rewrite H, IH. reflexivity. Qed.

Lemma fold_left_ext {A B} (f g : A -> B -> A) (l : list B) : forall a : A,
  (forall (a : A) (x : B), f a x = g a x) -> fold_left f l a = fold_left g l a.
Proof. induction l as [|x l IH]; intros a H; simpl; [reflexivity|]. rewrite H. apply IH. exact H. Qed.

(* loops over a comprehension = loops over the underlying sequence *)
Lemma fold_left_map {A B C} (f : A -> B -> A) (g : C -> B) (l : list C) : forall a : A,
  fold_left f (map g l) a = fold_left (fun a x => f a (g x)) l a.
Proof. induction l as [|x l IH]; intro a; simpl; [reflexivity|apply IH]. Qed.

Lemma fold_left_filter {A B} (f : A -> B -> A) (c : B -> bool) (l : list B) : forall a : A,
  fold_left f (filter c l) a = fold_left (fun a x => if c x then f a x else a) l a.
Proof. induction l as [|x l IH]; intro a; simpl; [reflexivity|]. destruct (c x); simpl; apply IH. Qed.

(* two loops over the same sequence whose bodies agree (up to ==) on equal states *)
Lemma fold_left_Qeq {B} (f g : Q -> B -> Q) (l : list B) : forall a b : Q,
  (forall a a' x, a == a' -> f a x == g a' x) -> a == b -> fold_left f l a == fold_left g l b.
Proof.
  induction l as [|x l IH]; intros a b H Hab; simpl; [exact Hab|]. apply IH; [exact H|]. apply H. exact Hab.
Qed.

(* ... and the same when the bodies only agree on non-negative states (running maxima starting at 0) *)
Lemma fold_left_Qeq_nonneg {B} (f g : Q -> B -> Q) (l : list B) : forall a b : Q,
  (forall a a' x, a == a' /\ 0 <= a' -> f a x == g a' x /\ 0 <= g a' x) ->
  a == b /\ 0 <= b -> fold_left f l a == fold_left g l b.
Proof.
  induction l as [|x l IH]; intros a b H Hab; simpl; [exact (proj1 Hab)|]. apply IH; [exact H|]. apply H. exact Hab.
Qed.

(* an accumulator loop whose body adds something to the accumulator = the sum of what it adds *)
Lemma fold_additive {A} (F : Q -> A -> Q) (l : list A) : forall a,
  (forall a x, F a x == a + F 0 x) -> fold_left F l a == a + Qsum (map (F 0) l).
Proof.
  induction l as [|x l IH]; intros a H; simpl; [ring|]. rewrite IH by exact H. rewrite (H a x). ring.
Qed.

(* counting idioms for "some element satisfies c" *)
Lemma existsb_length_filter {A} (c : A -> bool) (l : list A) :
  Qltb 0 (Qnat (length (filter c l))) = existsb c l.
Proof.
  induction l as [|x l IH]; simpl; [reflexivity|]. destruct (c x); simpl; [|exact IH].
  apply Qltb_iff. apply Qnat_pos. lia.
Qed.
Lemma existsb_length_filter_ne {A} (c : A -> bool) (l : list A) :
  negb (Qeqb (Qnat (length (filter c l))) 0) = existsb c l.
Proof.
  rewrite <- existsb_length_filter. rewrite Qnat_eqb0. destruct (length (filter c l)) eqn:E; simpl.
  - reflexivity.
  - symmetry. apply Qltb_iff. apply Qnat_pos. lia.
Qed.
Lemma existsb_is_empty_filter {A} (c : A -> bool) (l : list A) :
  negb (py_is_empty (filter c l)) = existsb c l.
Proof. induction l as [|x l IH]; simpl; [reflexivity|]. destruct (c x); simpl; [reflexivity|exact IH]. Qed.

(* a loop that returns at the first element satisfying c = find *)
Lemma fold_first {A B} (c : A -> bool) (v : A -> B) (l : list A) :
  fold_left (fun (r : option B) x => match r with Some _ => r | None => if c x then Some (v x) else r end) l None
  = option_map v (find c l).
Proof.
  assert (K : forall r0 : B, fold_left (fun (r : option B) x => match r with Some _ => r | None => if c x then Some (v x) else r end) l (Some r0) = Some r0).
  { induction l as [|x l IH]; intro r0; simpl; [reflexivity|apply IH]. }
  clear K. induction l as [|x l IH]; simpl; [reflexivity|].
  destruct (c x); simpl; [|exact IH].
  generalize (v x). clear IH. induction l as [|y l IH]; intro r0; simpl; [reflexivity|apply IH].
Qed.

Lemma existsb_find {A} (c : A -> bool) (l : list A) :
  existsb c l = match find c l with Some _ => true | None => false end.
Proof. induction l as [|x l IH]; simpl; [reflexivity|]. destruct (c x); simpl; [reflexivity|exact IH]. Qed.

(* `found = False; for x in l: if c x: found = True; break` : the state is (stop flag, found) *)
Lemma fold_break_found {A} (c : A -> bool) (l : list A) : forall f0 : bool,
  fold_left (fun (st : bool * bool) x => let '(stop, f) := st in
               if stop then st else if c x then (true, true) else (stop, f)) l (false, f0)
  = (existsb c l, (f0 || existsb c l)%bool).
Proof.
  assert (K : forall (l : list A) f, fold_left (fun (st : bool * bool) x => let '(stop, f) := st in
               if stop then st else if c x then (true, true) else (stop, f)) l (true, f) = (true, f)).
  { intro l0. induction l0 as [|x l0 IH]; intro f; simpl; [reflexivity|apply IH]. }
  induction l as [|x l IH]; intro f0; simpl.
  - rewrite orb_false_r. reflexivity.
  - destruct (c x); simpl; [rewrite K, orb_true_r; reflexivity|apply IH].
Qed.

(* a loop with a `found` flag / early return = existsb *)
Lemma fold_any {A} (c : A -> bool) l : forall a,
  fold_left (fun (acc : bool) x => if acc then acc else c x) l a = (a || existsb c l)%bool.
Proof.
  induction l as [|x l IH]; intro a; simpl; [rewrite orb_false_r; reflexivity|].
  rewrite IH. destruct a; simpl; reflexivity.
Qed.

(* ---------- bridging facts between the Python-level vocabulary and the models ---------- *)
Lemma inb_false_bget b p : inb b p = false -> bget b p = 0.
Proof.
  intro H. apply bget_notin. intro Hin. apply inb_In in Hin. congruence.
Qed.

Lemma Qnat_sub a b : (b <= a)%nat -> Qnat (a - b) == Qnat a - Qnat b.
Proof.
  intro H. unfold Qnat. rewrite Nat2Z.inj_sub by exact H. unfold Zminus. rewrite inject_Z_plus, inject_Z_opp. ring.
Qed.

Lemma Qnat_1 : Qnat 1 == 1.  Proof. reflexivity. Qed.

Lemma borda_bridge b p : inb b p = true ->
  Qnat (length b - bpos b p - 1) == Qnat (length b) - Qnat (bpos b p) - 1.
Proof.
  intro H. apply inb_In in H. apply bpos_lt in H.
  rewrite !Qnat_sub by lia. rewrite Qnat_1. reflexivity.
Qed.

Lemma Qnat_plus a b : Qnat (a + b) == Qnat a + Qnat b.
Proof. unfold Qnat. rewrite Nat2Z.inj_add, inject_Z_plus. reflexivity. Qed.

(* the denominator of Effort_Sat, as the sum the source writes *)
Lemma supporters_sum (P : profile) p :
  Qsum (map (fun bm : ballot * nat => Qnat (snd bm)) (filter (fun bm => inb (fst bm) p) P)) == Qnat (supporters P p).
Proof.
  induction P as [|[b m] P IH]; simpl; [reflexivity|].
  destruct (inb b p); simpl; [rewrite IH, Qnat_plus; reflexivity|exact IH].
Qed.

Lemma supporters_sum_ext (h : ballot * nat -> Q) (P : profile) p :
  (forall bm, h bm == if inb (fst bm) p then Qnat (snd bm) else 0) -> Qsum (map h P) == Qnat (supporters P p).
Proof.
  intro H. rewrite <- supporters_sum, Qsum_map_filter. apply Qsum_map_ext. intros bm _. apply H.
Qed.

Lemma Qnat_0_iff n : Qnat n == 0 <-> n = O.
Proof.
  split; intro H; [|subst; reflexivity].
  destruct n; [reflexivity|]. pose proof (Qnat_pos (S n) (Nat.lt_0_succ n)) as Hp. rewrite H in Hp. lra.
Qed.

Lemma Qnat_eqb0' n : Qeqb (Qnat n) 0 = Nat.eqb n 0.
Proof. apply Qnat_eqb0. Qed.

(* names of the generated definitions that belong to tie-breaking (the others belong to the satisfaction modules) *)
Definition is_tie_name (s : string) : bool :=
  (String.eqb (substring (String.length s - 4) 4 s) "_key"
   || String.eqb (substring 0 20 s) "gen_TieBreakingRule_" || String.eqb (substring (String.length s - 6) 6 s) "_order"
   || String.eqb (substring (String.length s - 6) 6 s) "_untie" || String.eqb s "gen_refuse_to_break_ties")%string.

(* ---------- tactics ---------- *)
(* split on the innermost atomic condition of a boolean expression *)
Ltac py_case c :=
  lazymatch c with
  | negb ?a => py_case a
  | andb ?a _ => py_case a
  | orb ?a _ => py_case a
  | (if ?a then _ else _) => py_case a
  | context [if ?a then _ else _] => py_case a
  | _ =>
      (* a condition that computes (a test on a literal list, say) is replaced by its value *)
      let r := eval lazy in c in
      lazymatch r with
      | true => change c with true in *
      | false => change c with false in *
      | _ => let E := fresh "E" in destruct c eqn:E
      end
  end.

Ltac py_split_step :=
  match goal with
  | |- context [find ?c ?l] => rewrite ?(existsb_find c l); let E := fresh "E" in destruct (find c l) eqn:E; cbn [option_map]
  | |- context [if ?c then _ else _] => py_case c
  | H : context [if ?c then _ else _] |- _ => py_case c
  | |- context [match ?c with Some _ => _ | None => _ end] =>
      lazymatch c with | Some _ => fail | None => fail | _ => let E := fresh "E" in destruct c eqn:E end
  end.

Ltac py_simpl := cbn [andb orb negb fst snd map filter app fold_left Qsum existsb forallb py_max_list py_min_list option_map] in *.

Ltac py_bool_to_prop :=
  repeat match goal with
  | H : Qeqb _ _ = true |- _ => apply Qeqb_iff in H
  | H : Qeqb _ _ = false |- _ => apply Qeqb_false_iff in H
  | H : Qleb _ _ = true |- _ => apply Qleb_iff in H
  | H : Qleb _ _ = false |- _ => apply Qleb_false_iff in H
  | H : Qltb _ _ = true |- _ => apply Qltb_iff in H
  | H : Qltb _ _ = false |- _ => apply Qltb_false_iff in H
  | H : Nat.eqb _ _ = true |- _ => apply Nat.eqb_eq in H
  | H : Nat.eqb _ _ = false |- _ => apply Nat.eqb_neq in H
  | H : true = false |- _ => discriminate H
  | H : false = true |- _ => discriminate H
  end.

(* bridging facts, added as hypotheses for the arithmetic to use *)
Ltac py_bridge :=
  repeat match goal with
  | H : inb ?b ?p = false |- _ =>
      lazymatch goal with
      | _ : bget b p = 0 |- _ => fail
      | _ => pose proof (inb_false_bget b p H)
      end
  | H : inb ?b ?p = true |- _ =>
      lazymatch goal with
      | _ : Qnat (length b - bpos b p - 1) == _ |- _ => fail
      | _ => pose proof (borda_bridge b p H)
      end
  end;
  repeat match goal with
  | H : Qnat ?n == 0 |- _ => apply Qnat_0_iff in H
  | H : ~ Qnat ?n == 0 |- _ => rewrite Qnat_0_iff in H
  end;
  repeat match goal with
  | H : ?n <> 0%nat |- _ =>
      lazymatch goal with
      | _ : 0 < Qnat n |- _ => fail
      | _ => pose proof (Qnat_pos n (proj1 (Nat.neq_0_lt_0 n) H))
      end
  | H : ?n = 0%nat |- _ =>
      lazymatch goal with
      | _ : Qnat n == 0 |- _ => fail
      | _ => pose proof (proj2 (Qnat_0_iff n) H)
      end
  end.

Ltac py_rewrite_bget :=
  repeat match goal with
  | H : bget ?b ?p = 0 |- _ => rewrite H in *; clear H
  end.

Ltac py_arith :=
  first
  [ reflexivity
  | congruence
  | lia
  | lra
  | ring
  | solve [field; first [assumption | lra | (intro; lra)]]
  | solve [apply Qdiv_comp; lra]
  | solve [exfalso; lra]
  | solve [exfalso; lia]
  | solve [exfalso; congruence]
  | solve [subst; first [reflexivity | lra | ring]]
  | nra ].

(* comparisons of literal dictionary keys are computed *)
Ltac py_strings :=
  repeat match goal with
  | |- context [String.eqb ?a ?b] =>
      let r := eval vm_compute in (String.eqb a b) in
      lazymatch r with
      | true => change (String.eqb a b) with true
      | false => change (String.eqb a b) with false
      end
  end.

Ltac py_unfold :=
  autounfold with pyprims pymodel in *; unfold py_dict_of in *; cbn [fold_right fst snd] in *;
  cbv zeta beta in *; py_strings; cbv iota beta in *;
  cbn [map Qsum existsb forallb fold_left filter app] in *.

(* the decision procedure without loop normalisation (used for the side conditions of the loop lemmas) *)
Ltac py_cases_in_loops :=
  cbv beta;
  repeat (py_split_step; py_simpl; unfold py_max2, py_min2 in * );
  py_bool_to_prop; py_bridge; py_rewrite_bget;
  py_arith.

(* loops written with an accumulator -> the comprehension form *)
Ltac py_loops :=
  repeat first
  [ rewrite fold_sum_if
  | rewrite fold_sum
  | rewrite fold_sum_l
  | rewrite fold_any
  | rewrite existsb_map
  | rewrite existsb_filter
  | rewrite fold_left_map
  | rewrite fold_left_filter
  | rewrite fold_first
  | rewrite fold_break_found
  | rewrite existsb_length_filter
  | rewrite existsb_length_filter_ne
  | rewrite existsb_is_empty_filter
  | rewrite fold_additive by (intros; py_cases_in_loops)
  | match goal with
    | |- context [supporters ?P ?p] =>
        match goal with
        | |- context [Qsum (map ?h P)] => rewrite (supporters_sum_ext h P p) by (intro; cbv beta; py_cases_in_loops)
        end
    end
  | rewrite map_map
  | rewrite map_id
  | rewrite supporters_sum
  | rewrite Qnat_eqb0'
  | rewrite Qplus_0_l
  | rewrite Qplus_0_r ].

(* the pointwise decision procedure: everything unfolded, every condition split *)
Ltac py_cases :=
  py_loops;
  repeat (py_split_step; py_simpl; unfold py_max2, py_min2 in * );
  py_loops;
  py_bool_to_prop; py_bridge; py_rewrite_bget;
  try py_arith.

Ltac py_pointwise := intros; py_unfold; py_loops; py_cases.

(* sums over the same list: compare the summands *)
Ltac py_sum_ext :=
  intros; py_unfold; py_loops;
  repeat rewrite Qsum_map_filter;
  first [ apply Qsum_map_ext; intros | idtac ].

(* two accumulator loops over the same sequence: compare the bodies *)
Ltac py_fold :=
  intros; py_unfold; py_loops;
  cbn [app py_max_list py_min_list] in *; py_unfold; py_loops;
  first [ solve [ apply fold_left_Qeq; [ intros; py_unfold; py_cases | py_arith ] ]
        | apply fold_left_Qeq_nonneg;
          [ let a := fresh "a" in let a' := fresh "a" in let x := fresh "x" in let H1 := fresh "H" in
            let H2 := fresh "H" in intros a a' x [H1 H2]; py_unfold; split; py_cases
          | split; py_arith ] ].

Ltac py_auto := solve [ py_pointwise | py_sum_ext; py_cases | py_fold ].

(* "no ZeroDivisionError": a boolean that must be true on every path *)
Ltac py_safe_atoms :=
  repeat match goal with
  | |- context [Qeqb ?a ?b] => let E := fresh "E" in destruct (Qeqb a b) eqn:E
  | |- context [Qleb ?a ?b] => let E := fresh "E" in destruct (Qleb a b) eqn:E
  | |- context [Qltb ?a ?b] => let E := fresh "E" in destruct (Qltb a b) eqn:E
  | |- context [Nat.eqb ?a ?b] => let E := fresh "E" in destruct (Nat.eqb a b) eqn:E
  | |- context [inb ?a ?b] => let E := fresh "E" in destruct (inb a b) eqn:E
  end.
Ltac py_safe :=
  solve [ intros; py_unfold; py_loops; py_safe_atoms; py_simpl; py_bool_to_prop; py_bridge;
          first [ reflexivity | exfalso; lra | exfalso; lia | exfalso; congruence | py_cases ] ].
